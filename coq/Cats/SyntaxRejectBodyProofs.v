(* Proofs about Cats/Syntax.v, part 5 (C11): a statement line of a rendered document replaced by a content that the line parser
   of ITS site rejects -- with the line AND the column of the offending token -- for every site: top-level statement lines
   (attribute lines, headers, aliases, imports), member lines and member-attribute lines at any position of any struct, value
   lines at any position of any enum.

   Technique: the lines in front of the site are run through the automaton with the lemmas of SyntaxProofs.v (doc_run for the
   items in front, then the pieces of the declaration), which gives the state in which the replaced line is delivered. *)
From Coq Require Import ZArith List Bool String Ascii Lia ZifyBool.
From Symv Require Import Base.Bytes Cats.Ast Cats.Syntax Cats.SyntaxLexProofs Cats.SyntaxProofs Cats.SyntaxRejectProofs.
From Symv Require Base.PyOps.
Import ListNotations.
Open Scope list_scope.
Open Scope Z_scope.

Section RejectBody.
Variable T : terms.
Hypothesis Hok : terms_ok T = true.

(* `site cr tl1 d P stack`: whenever the physical lines tl1 are followed by a line of indentation width d (that is not a comment
   line), the automaton has consumed the logical lines of tl1 and is in a state that satisfies P, with the indentation stack `stack` *)
Definition site (cr : list Z) (tl1 : list pline) (d : Z) (P : pstate -> Prop) (stack : list Z) : Prop :=
  forall tl2, tpeek T tl2 = d -> tnext_comment tl2 = false ->
  exists G1 S, tgroup T cr (tl1 ++ tl2) = G1 ++ tgroup T cr tl2 /\ reaches T (STop [] None PaNone, [0]) G1 (S, stack) /\ P S.

(* --- the generic theorem: line and column *)
Theorem line_replaced_at cr tl1 ind c' rest P stack n :
  cr_shape cr -> forallb pline_ok tl1 = true -> pline_ok (PStmt ind c') = true -> forallb pline_ok rest = true ->
  (forall q l, tl1 = q :: l -> q <> PBlank) ->
  site cr tl1 (ws_width T ind) P stack ->
  (forall S ac, P S -> on_stmt T S ac c' = SErr (DStmt n)) ->
  parse_with T (text_of cr (tl1 ++ PStmt ind c' :: rest))
  = Error {| e_line := 1 + zlen tl1; e_col := len ind + 1 + len c' - Z.of_nat n; e_kind := EToken |}.
Proof.
  intros Hcr Hok1 Hc' Hrest Hhead Hsite Hbad.
  assert (Hok2 : forallb pline_ok (PStmt ind c' :: rest) = true) by (cbn [forallb]; rewrite Hc', Hrest; reflexivity).
  assert (Hall : forallb pline_ok (tl1 ++ PStmt ind c' :: rest) = true) by (rewrite forallb_app, Hok1, Hok2; reflexivity).
  destruct (Hsite (PStmt ind c' :: rest) eq_refl eq_refl) as [G1 [S [Ec [HR HP]]]].
  assert (Hmach : machine0 T (tgroup T cr (tl1 ++ PStmt ind c' :: rest)) = MErr (length G1) (DStmt n)).
  { unfold machine0. rewrite Ec. destruct (HR (tgroup T cr (PStmt ind c' :: rest)) false 0%nat) as [ac1 E1]. cbn [fst snd] in E1. rewrite E1.
    cbn [tgroup machine m_body deliver]. rewrite (Hbad S ac1 HP). reflexivity. }
  assert (Hfirst : exists q tl', tl1 ++ PStmt ind c' :: rest = q :: tl' /\ q <> PBlank).
  { destruct tl1 as [|q l]; [eexists; eexists; split; [reflexivity|discriminate]|].
    exists q. eexists. split; [reflexivity|]. eapply Hhead. reflexivity. }
  destruct Hfirst as [q [tl' [E Hq]]].
  rewrite (parse_tagged T Hok cr _ q tl' Hcr Hall E Hq), Hmach.
  destruct (group_split T Hok cr tl1 Hcr Hok1 (PStmt ind c' :: rest) 1 Hok2 eq_refl) as [GP1 [EGP _]].
  destruct (group_head_stmt T Hok cr ind c' rest (1 + Z.of_nat (length tl1)) Hcr Hok2) as [L [rest' [EL [HL1 [HL2 HL3]]]]].
  assert (Hlen : length GP1 = length G1).
  { assert (M1 : map l_m (GP1 ++ L :: rest') = tgroup T cr (tl1 ++ PStmt ind c' :: rest)).
    { rewrite <- EL, <- EGP, group_mgroup. apply (mgroup_tagged T Hok); assumption. }
    assert (M2 : map l_m (L :: rest') = tgroup T cr (PStmt ind c' :: rest)).
    { rewrite <- EL, group_mgroup. apply (mgroup_tagged T Hok); assumption. }
    rewrite map_app, M2, Ec in M1. apply (f_equal (@length mline)) in M1. rewrite !app_length, map_length in M1. lia. }
  rewrite EGP, EL, <- Hlen. unfold pos_of. rewrite nth_error_app2, Nat.sub_diag by lia. cbn [nth_error].
  rewrite HL3, HL1, HL2. unfold zlen. reflexivity.
Qed.

Section Sites.
Hypothesis Hmerged : comment_merged T = false.
Variable st : style.
Hypothesis Hst : wf_style st = true.
Let cr : list Z := style_cr st.
Hypothesis Hcr : cr_ok T cr.
Let w : Z := ws_width T (st_indent st).
Let ind : list Z := st_indent st.

Definition at_top (pa : pattrs) (S : pstate) : Prop := exists acc pc, S = STop acc pc pa.
Definition in_struct (pa : option (list attribute)) (S : pstate) : Prop := exists acc h fields pc, S = SBodyS acc h fields pc pa.
Definition in_enum (S : pstate) : Prop := exists acc h vals pc, S = SBodyE acc h vals pc.

Lemma pre_item_ok (pre : list item) : match pre with [] => True | it :: _ => item_pre None it end.
Proof. destruct pre as [|[d|p|c] pre']; cbn [item_pre]; auto. Qed.

(* the lines in front of a top-level statement: items, the comment of the declaration, some of its attribute lines *)
Definition top_prefix (pre : list item) (cmt : option string) (ctx : actx) (attrs : list attribute) : list pline :=
  tlines T st pre ++ comment_tlines [] cmt ++ map (PStmt []) (map (r_attr T st ctx) attrs).

Lemma top_site pre cmt ctx attrs : ctx <> CField ->
  forallb (wf_item T) pre = true -> wf_adjacent pre = true -> wf_comment T cmt = true -> forallb (wf_attr T ctx) attrs = true ->
  site cr (top_prefix pre cmt ctx attrs) 0 (at_top (pa_of ctx attrs)) [0].
Proof.
  intros Hctx Hpre Hadj Hcmt Hattrs tl2 Hd Hn. unfold top_prefix. rewrite <- !app_assoc.
  set (R1 := map (PStmt []) (map (r_attr T st ctx) attrs) ++ tl2).
  assert (HpeekR1 : tpeek T R1 = 0) by (subst R1; destruct attrs; [exact Hd|reflexivity]).
  assert (HnR1 : tnext_comment R1 = false) by (subst R1; destruct attrs; [exact Hn|reflexivity]).
  set (R := comment_tlines [] cmt ++ R1).
  assert (HpeekR : tpeek T R = 0) by (subst R; unfold comment_tlines; destruct (clines cmt); [exact HpeekR1|reflexivity]).
  destruct (doc_run T Hok Hmerged st Hst cr Hcr pre Hpre Hadj [] None (pre_item_ok pre) R HpeekR) as [LS [acc2 [pc2 [EG [HR _]]]]].
  assert (EGR : tgroup T cr R = comment_ls cr [] cmt 0 ++ map (fun a => ml (MStmt (r_attr T st ctx a)) 0) attrs ++ tgroup T cr tl2).
  { subst R. rewrite tgroup_comment_opt; [|exact HnR1|apply (wf_comment_clines T Hok); exact Hcmt]. rewrite HpeekR1.
    subst R1. rewrite tgroup_stmts_top by exact Hd. rewrite (map_map (r_attr T st ctx) (fun t => ml (MStmt t) 0)).
    unfold comment_ls. destruct cmt; reflexivity. }
  eexists. eexists. split; [|split].
  - rewrite EG, EGR, !app_assoc. reflexivity.
  - rewrite <- app_assoc. eapply reaches_trans; [exact HR|]. eapply reaches_trans; [apply (reach_comment_ls_top T Hok cr Hcr); exact Hcmt|].
    apply (reach_attrs T Hok Hmerged st _ _ ctx attrs Hctx Hattrs []).
  - eexists. eexists. reflexivity.
Qed.

(* members in front of a member *)
Lemma members_prefix_run acc h fs1 : forallb (wf_field T) fs1 = true -> forall fields r, tpeek T r = w ->
  exists LS, tgroup T cr (flat_map (member_tlines T st) fs1 ++ r) = LS ++ tgroup T cr r
    /\ reaches T (SBodyS acc h fields None None, [w; 0]) LS (SBodyS acc h (fields ++ fs1) None None, [w; 0]).
Proof.
  induction fs1 as [|f fs IH]; intros Hwf fields r Hr.
  - exists []. split; [reflexivity|]. rewrite app_nil_r. apply reaches_nil.
  - cbn [forallb] in Hwf. apply andb_true_iff in Hwf as [Hf Hfs]. cbn [flat_map]. rewrite <- app_assoc.
    rewrite (tgroup_member T Hok st cr f _ Hf).
    assert (Hpeek : tpeek T (flat_map (member_tlines T st) fs ++ r) = w).
    { destruct fs as [|f' fs']; [exact Hr|]. cbn [flat_map]. rewrite <- app_assoc. apply tpeek_member. }
    rewrite Hpeek. destruct (IH Hfs (fields ++ [f]) r Hr) as [LS [E HR]]. rewrite E.
    exists (member_ls T st cr f w ++ LS). split; [rewrite <- app_assoc; reflexivity|].
    eapply reaches_trans; [apply (reach_member T Hok Hmerged st Hst cr Hcr); [exact Hf|left; split; reflexivity]|].
    replace (fields ++ f :: fs) with ((fields ++ [f]) ++ fs) by (rewrite <- app_assoc; reflexivity). exact HR.
Qed.

Lemma values_prefix_run acc h vs1 : forallb (wf_value T) vs1 = true -> forall vals r, tpeek T r = w ->
  exists LS, tgroup T cr (flat_map (value_tlines T st) vs1 ++ r) = LS ++ tgroup T cr r
    /\ reaches T (SBodyE acc h vals None, [w; 0]) LS (SBodyE acc h (vals ++ vs1) None, [w; 0]).
Proof.
  induction vs1 as [|v vs IH]; intros Hwf vals r Hr.
  - exists []. split; [reflexivity|]. rewrite app_nil_r. apply reaches_nil.
  - cbn [forallb] in Hwf. apply andb_true_iff in Hwf as [Hv Hvs]. cbn [flat_map]. rewrite <- app_assoc.
    rewrite (tgroup_value T Hok st cr v _ Hv).
    assert (Hpeek : tpeek T (flat_map (value_tlines T st) vs ++ r) = w).
    { destruct vs as [|v' vs']; [exact Hr|]. cbn [flat_map]. rewrite <- app_assoc. apply tpeek_value. }
    rewrite Hpeek. destruct (IH Hvs (vals ++ [v]) r Hr) as [LS [E HR]]. rewrite E.
    exists (value_ls T st cr v w ++ LS). split; [rewrite <- app_assoc; reflexivity|].
    eapply reaches_trans.
    + unfold value_ls. eapply reaches_trans; [apply (reach_comment_ls_enum T Hok st Hst cr Hcr), (wf_value_comment T), Hv|].
      apply (reach_value_more T Hok st). exact Hv.
    + rewrite value_eta. replace (vals ++ v :: vs) with ((vals ++ [v]) ++ vs) by (rewrite <- app_assoc; reflexivity). exact HR.
Qed.

(* the lines in front of a member line (or of one of the attribute lines of the member): items, the head of the struct, the
   members in front, the comment of the member, some of its attribute lines *)
Definition struct_prefix (pre : list item) (s : struct) (fs1 : list field) (cmt : option string) (as1 : list attribute) : list pline :=
  top_prefix pre (s_comment s) CStruct (attrs_list (s_attrs s)) ++ PStmt [] (r_struct_header T (s_disp s) (s_name s))
  :: flat_map (member_tlines T st) fs1 ++ comment_tlines ind cmt ++ map (PStmt ind) (map (r_attr T st CField) as1).

Lemma struct_site pre s fs1 cmt as1 :
  forallb (wf_item T) pre = true -> wf_adjacent pre = true ->
  wf_type T (s_name s) = true -> wf_comment T (s_comment s) = true -> wf_attrs T CStruct (s_attrs s) = true ->
  forallb (wf_field T) fs1 = true -> wf_comment T cmt = true -> forallb (wf_attr T CField) as1 = true ->
  site cr (struct_prefix pre s fs1 cmt as1) w (in_struct (opt_of as1)) [w; 0].
Proof.
  intros Hpre Hadj Hname Hcmt Hattrs Hfs1 Hc Has1 tl2 Hd Hn. unfold struct_prefix.
  set (R3 := map (PStmt ind) (map (r_attr T st CField) as1) ++ tl2).
  assert (HpeekR3 : tpeek T R3 = w) by (subst R3; destruct as1; [exact Hd|reflexivity]).
  assert (HnR3 : tnext_comment R3 = false) by (subst R3; destruct as1; [exact Hn|reflexivity]).
  set (R2 := comment_tlines ind cmt ++ R3).
  assert (HpeekR2 : tpeek T R2 = w) by (subst R2; unfold comment_tlines; destruct (clines cmt); [exact HpeekR3|reflexivity]).
  set (R1 := PStmt [] (r_struct_header T (s_disp s) (s_name s)) :: flat_map (member_tlines T st) fs1 ++ R2).
  replace ((top_prefix pre (s_comment s) CStruct (attrs_list (s_attrs s)) ++ PStmt [] (r_struct_header T (s_disp s) (s_name s))
            :: flat_map (member_tlines T st) fs1 ++ comment_tlines ind cmt ++ map (PStmt ind) (map (r_attr T st CField) as1)) ++ tl2)
    with (top_prefix pre (s_comment s) CStruct (attrs_list (s_attrs s)) ++ R1)
    by (subst R1 R2 R3; rewrite <- !app_assoc; cbn [app]; rewrite <- !app_assoc; reflexivity).
  destruct (top_site pre (s_comment s) CStruct (attrs_list (s_attrs s)) ltac:(discriminate) Hpre Hadj Hcmt (wf_attrs_list T CStruct _ Hattrs)
              R1 eq_refl eq_refl) as [G0 [S0 [E0 [HR0 [acc [pc ->]]]]]].
  destruct (members_prefix_run acc {| h_name := s_name s; h_disp := s_disp s; h_attrs := pa_list (pa_of CStruct (attrs_list (s_attrs s))); h_comment := pc |}
              fs1 Hfs1 [] R2 HpeekR2) as [LS1 [E1 HR1]].
  assert (HpeekM : tpeek T (flat_map (member_tlines T st) fs1 ++ R2) = w).
  { destruct fs1 as [|f' fs']; [exact HpeekR2|]. cbn [flat_map]. rewrite <- app_assoc. apply tpeek_member. }
  assert (E2 : tgroup T cr R2 = comment_ls cr ind cmt w ++ map (fun a => ml (MStmt (r_attr T st CField a)) w) as1 ++ tgroup T cr tl2).
  { subst R2. rewrite tgroup_comment_opt; [|exact HnR3|apply (wf_comment_clines T Hok); exact Hc]. rewrite HpeekR3.
    subst R3. rewrite (tgroup_stmts_w T cr ind) by exact Hd. rewrite (map_map (r_attr T st CField) (fun t => ml (MStmt t) (ws_width T ind))).
    unfold comment_ls. destruct cmt; reflexivity. }
  eexists. eexists. split; [|split].
  - rewrite E0. subst R1. cbn [tgroup]. rewrite HpeekM, E1, E2.
    change (?a :: ?l ++ ?m) with ((a :: l) ++ m). rewrite !app_assoc. reflexivity.
  - rewrite <- !app_assoc. eapply reaches_trans; [exact HR0|].
    change (?a :: ?l) with ([a] ++ l). rewrite <- !app_assoc.
    eapply reaches_trans; [apply (reach_struct_open T Hok Hmerged st Hst); exact Hname|].
    eapply reaches_trans; [exact HR1|].
    eapply reaches_trans; [apply (reach_comment_ls_struct T Hok st Hst cr Hcr); exact Hc|].
    apply (reach_fattrs T Hok Hmerged st _ _ _ cmt as1 Has1 []).
  - eexists. eexists. eexists. eexists. reflexivity.
Qed.

(* the lines in front of a value line of an enum *)
Definition enum_prefix (pre : list item) (n : string) (b : intty) (attrs : option (list attribute)) (c : option string)
  (vs1 : list enum_value) (cmt : option string) : list pline :=
  top_prefix pre c CEnum (attrs_list attrs) ++ PStmt [] (r_enum_header T n b) :: flat_map (value_tlines T st) vs1 ++ comment_tlines ind cmt.

Lemma enum_site pre n b attrs c vs1 cmt :
  forallb (wf_item T) pre = true -> wf_adjacent pre = true ->
  wf_type T n = true -> wf_intty T b = true -> wf_comment T c = true -> wf_attrs T CEnum attrs = true ->
  forallb (wf_value T) vs1 = true -> wf_comment T cmt = true ->
  site cr (enum_prefix pre n b attrs c vs1 cmt) w in_enum [w; 0].
Proof.
  intros Hpre Hadj Hname Hb Hcmt Hattrs Hvs1 Hc tl2 Hd Hn. unfold enum_prefix.
  set (R2 := comment_tlines ind cmt ++ tl2).
  assert (HpeekR2 : tpeek T R2 = w) by (subst R2; unfold comment_tlines; destruct (clines cmt); [exact Hd|reflexivity]).
  set (R1 := PStmt [] (r_enum_header T n b) :: flat_map (value_tlines T st) vs1 ++ R2).
  replace ((top_prefix pre c CEnum (attrs_list attrs) ++ PStmt [] (r_enum_header T n b) :: flat_map (value_tlines T st) vs1 ++ comment_tlines ind cmt) ++ tl2)
    with (top_prefix pre c CEnum (attrs_list attrs) ++ R1)
    by (subst R1 R2; rewrite <- !app_assoc; cbn [app]; rewrite <- !app_assoc; reflexivity).
  destruct (top_site pre c CEnum (attrs_list attrs) ltac:(discriminate) Hpre Hadj Hcmt (wf_attrs_list T CEnum _ Hattrs)
              R1 eq_refl eq_refl) as [G0 [S0 [E0 [HR0 [acc [pc ->]]]]]].
  destruct (values_prefix_run acc {| eh_name := n; eh_base := b; eh_attrs := pa_list (pa_of CEnum (attrs_list attrs)); eh_comment := pc |}
              vs1 Hvs1 [] R2 HpeekR2) as [LS1 [E1 HR1]].
  assert (HpeekM : tpeek T (flat_map (value_tlines T st) vs1 ++ R2) = w).
  { destruct vs1 as [|v' vs']; [exact HpeekR2|]. cbn [flat_map]. rewrite <- app_assoc. apply tpeek_value. }
  assert (E2 : tgroup T cr R2 = comment_ls cr ind cmt w ++ tgroup T cr tl2).
  { subst R2. rewrite tgroup_comment_opt; [|exact Hn|apply (wf_comment_clines T Hok); exact Hc]. rewrite Hd.
    unfold comment_ls. destruct cmt; reflexivity. }
  eexists. eexists. split; [|split].
  - rewrite E0. subst R1. cbn [tgroup]. rewrite HpeekM, E1, E2.
    change (?a :: ?l ++ ?m) with ((a :: l) ++ m). rewrite !app_assoc. reflexivity.
  - rewrite <- !app_assoc. eapply reaches_trans; [exact HR0|].
    change (?a :: ?l) with ([a] ++ l). rewrite <- !app_assoc.
    eapply reaches_trans; [apply (reach_enum_open T Hok Hmerged st Hst); assumption|].
    eapply reaches_trans; [exact HR1|].
    apply (reach_comment_ls_enum T Hok st Hst cr Hcr). exact Hc.
  - eexists. eexists. eexists. eexists. reflexivity.
Qed.

(* --- documents: the statement line at a site replaced *)
Lemma replaced_at_site ds tl1 ind0 c c' rest P stack n :
  wf_doc_with T ds = true -> tlines T st ds = tl1 ++ PStmt ind0 c :: rest ->
  site cr tl1 (ws_width T ind0) P stack -> pline_ok (PStmt ind0 c') = true ->
  (forall S ac, P S -> on_stmt T S ac c' = SErr (DStmt n)) ->
  nth_error (tlines T st ds) (length tl1) = Some (PStmt ind0 c)
  /\ parse_with T (text_of cr (replace_stmt (length tl1) c' (tlines T st ds)))
     = Error {| e_line := 1 + zlen tl1; e_col := len ind0 + 1 + len c' - Z.of_nat n; e_kind := EToken |}.
Proof.
  intros Hwf E Hsite Hc' Hbad. destruct (wf_doc_items T ds Hwf) as [Hitems _].
  pose proof (tlines_ok T Hok st ds Hst Hitems) as Hall. rewrite E in Hall.
  rewrite forallb_app in Hall. apply andb_true_iff in Hall as [Hok1 Hok2]. cbn [forallb] in Hok2. apply andb_true_iff in Hok2 as [_ Hrest].
  split; [rewrite E, nth_error_app2, Nat.sub_diag by apply le_n; reflexivity|].
  rewrite E, (replace_stmt_at T Hok).
  apply (line_replaced_at cr tl1 ind0 c' rest P stack n (style_cr_shape st) Hok1 Hc' Hrest); [|exact Hsite|exact Hbad].
  intros q l Eq. destruct (first_line_not_blank T Hok st ds Hwf) as [p [tl' [Ep Hp]]]. rewrite E, Eq in Ep. cbn [app] in Ep.
  inversion Ep. subst. exact Hp.
Qed.

Definition pending (as1 : list attribute) : bool := match as1 with [] => false | _ => true end.
Lemma pending_opt as1 : match opt_of as1 with Some _ => true | None => false end = pending as1.
Proof. destruct as1; reflexivity. Qed.

Lemma in_struct_rejects as1 c' sfx : (forall ac, parse_member_line T (pending as1) ac c' = LErr sfx) ->
  forall S ac, in_struct (opt_of as1) S -> on_stmt T S ac c' = SErr (DStmt (length sfx)).
Proof. intros H S ac [acc [h [fields [pc ->]]]]. cbn [on_stmt]. rewrite pending_opt, H. reflexivity. Qed.
Lemma in_enum_rejects c' sfx : parse_enum_line T c' = LErr sfx ->
  forall S (ac : bool), in_enum S -> on_stmt T S ac c' = SErr (DStmt (length sfx)).
Proof. intros H S ac [acc [h [vals [pc ->]]]]. cbn [on_stmt]. rewrite H. reflexivity. Qed.
Lemma at_top_rejects pa c' sfx : (forall ac, parse_top_line T (pa_ctx pa) ac c' = LErr sfx) ->
  forall S ac, at_top pa S -> on_stmt T S ac c' = SErr (DStmt (length sfx)).
Proof. intros H S ac [acc [pc ->]]. cbn [on_stmt]. rewrite H. reflexivity. Qed.

Lemma wf_split_item pre it post : wf_doc_with T (pre ++ it :: post) = true ->
  forallb (wf_item T) pre = true /\ wf_adjacent pre = true /\ wf_item T it = true.
Proof.
  intro Hwf. destruct (wf_doc_items T _ Hwf) as [Hitems [Hadj _]].
  pose proof (wf_firstn T (length pre) _ Hitems Hadj) as [H1 H2].
  rewrite firstn_app, Nat.sub_diag, firstn_all in H1, H2. cbn [firstn] in H1, H2. rewrite app_nil_r in H1, H2.
  rewrite forallb_app in Hitems. apply andb_true_iff in Hitems as [_ Hit]. cbn [forallb] in Hit. apply andb_true_iff in Hit as [Hit _].
  repeat split; assumption.
Qed.

(* struct bodies *)
Lemma member_tlines_eq f : member_tlines T st f
  = comment_tlines ind (field_comment f) ++ map (PStmt ind) (r_attrs T st CField (field_attrs f)) ++ [PStmt ind (r_field T st f)] ++ blanks (st_blank_member st).
Proof. reflexivity. Qed.

Lemma tlines_struct_member pre s post fs1 f fs2 as1 as2 : s_fields s = fs1 ++ f :: fs2 -> attrs_list (field_attrs f) = as1 ++ as2 ->
  tlines T st (pre ++ IDecl (DStruct s) :: post)
  = struct_prefix pre s fs1 (field_comment f) as1 ++ map (PStmt ind) (map (r_attr T st CField) as2)
    ++ PStmt ind (r_field T st f) :: blanks (st_blank_member st) ++ flat_map (member_tlines T st) fs2 ++ blanks (st_blank_top st) ++ tlines T st post.
Proof.
  intros Hs Ha. unfold struct_prefix, top_prefix, tlines. rewrite flat_map_app. cbn [flat_map].
  change (item_tlines T st (IDecl (DStruct s))) with (decl_tlines T st (DStruct s) ++ blanks (st_blank_top st)). cbn [decl_tlines].
  rewrite Hs, flat_map_app. cbn [flat_map]. rewrite (member_tlines_eq f), !r_attrs_list, Ha, !map_app, <- !app_assoc. cbn [app]. rewrite <- ?app_assoc. cbn [app]. rewrite <- ?app_assoc. reflexivity.
Qed.

Lemma wf_struct_parts s : wf_decl T (DStruct s) = true ->
  wf_type T (s_name s) = true /\ wf_comment T (s_comment s) = true /\ wf_attrs T CStruct (s_attrs s) = true /\ forallb (wf_field T) (s_fields s) = true.
Proof.
  cbn [wf_decl]. intro H. apply andb_true_iff in H as [H _]. apply andb_true_iff in H as [H Hf]. apply andb_true_iff in H as [H Ha].
  apply andb_true_iff in H as [Hn Hc]. repeat split; try assumption. destruct (s_fields s); [discriminate|exact Hf].
Qed.

Definition member_line (pre : list item) (s : struct) (fs1 : list field) (f : field) : nat :=
  length (struct_prefix pre s fs1 (field_comment f) (attrs_list (field_attrs f))).
Definition member_attr_line (pre : list item) (s : struct) (fs1 : list field) (f : field) (as1 : list attribute) : nat :=
  length (struct_prefix pre s fs1 (field_comment f) as1).

(* [C11] the line of ANY member of ANY struct replaced by a content the member-line parser rejects *)
Theorem member_line_replaced pre s post fs1 f fs2 c' sfx :
  wf_doc_with T (pre ++ IDecl (DStruct s) :: post) = true -> s_fields s = fs1 ++ f :: fs2 ->
  pline_ok (PStmt ind c') = true -> (forall ac, parse_member_line T (has_attrs f) ac c' = LErr sfx) ->
  let ds := pre ++ IDecl (DStruct s) :: post in let k := member_line pre s fs1 f in
  nth_error (tlines T st ds) k = Some (PStmt ind (r_field T st f))
  /\ parse_with T (text_of cr (replace_stmt k c' (tlines T st ds)))
     = Error {| e_line := 1 + Z.of_nat k; e_col := len ind + 1 + len c' - len sfx; e_kind := EToken |}.
Proof.
  intros Hwf Hs Hc' Hbad ds k. destruct (wf_split_item pre _ post Hwf) as [Hpre [Hadj Hit]]. cbn [wf_item] in Hit.
  destruct (wf_struct_parts s Hit) as [Hn [Hc [Ha Hf]]]. rewrite Hs, forallb_app in Hf. apply andb_true_iff in Hf as [Hfs1 Hf].
  cbn [forallb] in Hf. apply andb_true_iff in Hf as [Hf _]. destruct (wf_field_meta T f Hf) as [Hfc Hfa].
  pose proof (tlines_struct_member pre s post fs1 f fs2 (attrs_list (field_attrs f)) [] Hs (eq_sym (app_nil_r _))) as E. cbn [map app] in E.
  apply (replaced_at_site ds _ ind _ c' _ _ _ (length sfx) Hwf E
           (struct_site pre s fs1 (field_comment f) _ Hpre Hadj Hn Hc Ha Hfs1 Hfc (wf_attrs_list T CField _ Hfa)) Hc').
  apply in_struct_rejects. intro ac. rewrite <- (has_attrs_opt T f Hf), pending_opt in Hbad. apply Hbad.
Qed.

(* [C11] ANY attribute line of ANY member of ANY struct replaced by a content the member-line parser rejects *)
Theorem member_attr_line_replaced pre s post fs1 f fs2 as1 a as2 c' sfx :
  wf_doc_with T (pre ++ IDecl (DStruct s) :: post) = true -> s_fields s = fs1 ++ f :: fs2 -> field_attrs f = Some (as1 ++ a :: as2) ->
  pline_ok (PStmt ind c') = true -> (forall ac, parse_member_line T (pending as1) ac c' = LErr sfx) ->
  let ds := pre ++ IDecl (DStruct s) :: post in let k := member_attr_line pre s fs1 f as1 in
  nth_error (tlines T st ds) k = Some (PStmt ind (r_attr T st CField a))
  /\ parse_with T (text_of cr (replace_stmt k c' (tlines T st ds)))
     = Error {| e_line := 1 + Z.of_nat k; e_col := len ind + 1 + len c' - len sfx; e_kind := EToken |}.
Proof.
  intros Hwf Hs Hattrs Hc' Hbad ds k. destruct (wf_split_item pre _ post Hwf) as [Hpre [Hadj Hit]]. cbn [wf_item] in Hit.
  destruct (wf_struct_parts s Hit) as [Hn [Hc [Ha Hf]]]. rewrite Hs, forallb_app in Hf. apply andb_true_iff in Hf as [Hfs1 Hf].
  cbn [forallb] in Hf. apply andb_true_iff in Hf as [Hf _]. destruct (wf_field_meta T f Hf) as [Hfc Hfa].
  assert (Hal : attrs_list (field_attrs f) = as1 ++ a :: as2) by (rewrite Hattrs; reflexivity).
  pose proof (wf_attrs_list T CField _ Hfa) as Hall. rewrite Hal, forallb_app in Hall. apply andb_true_iff in Hall as [Has1 _].
  pose proof (tlines_struct_member pre s post fs1 f fs2 as1 (a :: as2) Hs Hal) as E. cbn [map app] in E.
  apply (replaced_at_site ds _ ind _ c' _ _ _ (length sfx) Hwf E
           (struct_site pre s fs1 (field_comment f) as1 Hpre Hadj Hn Hc Ha Hfs1 Hfc Has1) Hc').
  apply in_struct_rejects. exact Hbad.
Qed.

(* enum bodies *)
Lemma value_tlines_eq v : value_tlines T st v = comment_tlines ind (ev_comment v) ++ [PStmt ind (r_value T st v)] ++ blanks (st_blank_member st).
Proof. reflexivity. Qed.

Lemma tlines_enum_value pre n b vals attrs c post vs1 v vs2 : vals = vs1 ++ v :: vs2 ->
  tlines T st (pre ++ IDecl (DEnum n b vals attrs c) :: post)
  = enum_prefix pre n b attrs c vs1 (ev_comment v)
    ++ PStmt ind (r_value T st v) :: blanks (st_blank_member st) ++ flat_map (value_tlines T st) vs2 ++ blanks (st_blank_top st) ++ tlines T st post.
Proof.
  intros Hs. unfold enum_prefix, top_prefix, tlines. rewrite flat_map_app. cbn [flat_map].
  change (item_tlines T st (IDecl (DEnum n b vals attrs c))) with (decl_tlines T st (DEnum n b vals attrs c) ++ blanks (st_blank_top st)). cbn [decl_tlines].
  rewrite Hs, flat_map_app. cbn [flat_map]. rewrite (value_tlines_eq v), !r_attrs_list, <- !app_assoc. cbn [app]. rewrite <- ?app_assoc. cbn [app]. rewrite <- ?app_assoc. reflexivity.
Qed.

Definition value_line (pre : list item) (n : string) (b : intty) (attrs : option (list attribute)) (c : option string)
  (vs1 : list enum_value) (v : enum_value) : nat := length (enum_prefix pre n b attrs c vs1 (ev_comment v)).

(* [C11] the line of ANY value of ANY enum replaced by a content the value-line parser rejects *)
Theorem value_line_replaced pre n b vals attrs c post vs1 v vs2 c' sfx :
  wf_doc_with T (pre ++ IDecl (DEnum n b vals attrs c) :: post) = true -> vals = vs1 ++ v :: vs2 ->
  pline_ok (PStmt ind c') = true -> parse_enum_line T c' = LErr sfx ->
  let ds := pre ++ IDecl (DEnum n b vals attrs c) :: post in let k := value_line pre n b attrs c vs1 v in
  nth_error (tlines T st ds) k = Some (PStmt ind (r_value T st v))
  /\ parse_with T (text_of cr (replace_stmt k c' (tlines T st ds)))
     = Error {| e_line := 1 + Z.of_nat k; e_col := len ind + 1 + len c' - len sfx; e_kind := EToken |}.
Proof.
  intros Hwf Hs Hc' Hbad ds k. destruct (wf_split_item pre _ post Hwf) as [Hpre [Hadj Hit]]. cbn [wf_item wf_decl] in Hit.
  apply andb_true_iff in Hit as [H Hc]. apply andb_true_iff in H as [H Ha]. apply andb_true_iff in H as [H Hv]. apply andb_true_iff in H as [Hn Hb].
  rewrite Hs, forallb_app in Hv. apply andb_true_iff in Hv as [Hvs1 Hv]. cbn [forallb] in Hv. apply andb_true_iff in Hv as [Hv _].
  pose proof (tlines_enum_value pre n b vals attrs c post vs1 v vs2 Hs) as E.
  apply (replaced_at_site ds _ ind _ c' _ _ _ (length sfx) Hwf E
           (enum_site pre n b attrs c vs1 (ev_comment v) Hpre Hadj Hn Hb Hc Ha Hvs1 (wf_value_comment T v Hv)) Hc').
  apply in_enum_rejects. exact Hbad.
Qed.

(* top-level statement lines: the item's lines are its comment, some attribute lines, the line, and more *)
Theorem top_line_replaced pre it post cmt ctx as1 c rest0 c' sfx :
  wf_doc_with T (pre ++ it :: post) = true -> ctx <> CField ->
  item_tlines T st it = comment_tlines [] cmt ++ map (PStmt []) (map (r_attr T st ctx) as1) ++ PStmt [] c :: rest0 ->
  wf_comment T cmt = true -> forallb (wf_attr T ctx) as1 = true ->
  pline_ok (PStmt [] c') = true -> (forall ac, parse_top_line T (pa_ctx (pa_of ctx as1)) ac c' = LErr sfx) ->
  let ds := pre ++ it :: post in let k := length (top_prefix pre cmt ctx as1) in
  nth_error (tlines T st ds) k = Some (PStmt [] c)
  /\ parse_with T (text_of cr (replace_stmt k c' (tlines T st ds)))
     = Error {| e_line := 1 + Z.of_nat k; e_col := 1 + len c' - len sfx; e_kind := EToken |}.
Proof.
  intros Hwf Hctx Eit Hcmt Has1 Hc' Hbad ds k. destruct (wf_split_item pre _ post Hwf) as [Hpre [Hadj Hit]].
  assert (E : tlines T st ds = top_prefix pre cmt ctx as1 ++ PStmt [] c :: rest0 ++ tlines T st post).
  { subst ds. unfold top_prefix, tlines. rewrite flat_map_app. cbn [flat_map]. rewrite Eit, <- !app_assoc. cbn [app]. reflexivity. }
  apply (replaced_at_site ds _ [] _ c' _ _ _ (length sfx) Hwf E (top_site pre cmt ctx as1 Hctx Hpre Hadj Hcmt Has1) Hc').
  apply at_top_rejects. exact Hbad.
Qed.

(* a line inserted at column 0 in front of the line that follows a site *)
Lemma inserted_at_site ds tl1 rest P stack n c' :
  wf_doc_with T ds = true -> tlines T st ds = tl1 ++ rest ->
  site cr tl1 0 P stack -> pline_ok (PStmt [] c') = true ->
  (forall S ac, P S -> on_stmt T S ac c' = SErr (DStmt n)) ->
  parse_with T (text_of cr (insert_stmt (length tl1) c' (tlines T st ds)))
  = Error {| e_line := 1 + zlen tl1; e_col := 1 + len c' - Z.of_nat n; e_kind := EToken |}.
Proof.
  intros Hwf E Hsite Hc' Hbad. destruct (wf_doc_items T ds Hwf) as [Hitems _].
  pose proof (tlines_ok T Hok st ds Hst Hitems) as Hall. rewrite E in Hall.
  rewrite forallb_app in Hall. apply andb_true_iff in Hall as [Hok1 Hrest].
  rewrite E, insert_stmt_at.
  apply (line_replaced_at cr tl1 [] c' rest P stack n (style_cr_shape st) Hok1 Hc' Hrest); [|exact Hsite|exact Hbad].
  intros q l Eq. destruct (first_line_not_blank T Hok st ds Hwf) as [p [tl' [Ep Hp]]]. rewrite E, Eq in Ep. cbn [app] in Ep.
  inversion Ep. subst. exact Hp.
Qed.

Theorem top_line_inserted pre it post cmt ctx as1 rest0 c' sfx :
  wf_doc_with T (pre ++ it :: post) = true -> ctx <> CField ->
  item_tlines T st it = comment_tlines [] cmt ++ map (PStmt []) (map (r_attr T st ctx) as1) ++ rest0 ->
  wf_comment T cmt = true -> forallb (wf_attr T ctx) as1 = true ->
  pline_ok (PStmt [] c') = true -> (forall ac, parse_top_line T (pa_ctx (pa_of ctx as1)) ac c' = LErr sfx) ->
  let ds := pre ++ it :: post in let k := length (top_prefix pre cmt ctx as1) in
  parse_with T (text_of cr (insert_stmt k c' (tlines T st ds)))
  = Error {| e_line := 1 + Z.of_nat k; e_col := 1 + len c' - len sfx; e_kind := EToken |}.
Proof.
  intros Hwf Hctx Eit Hcmt Has1 Hc' Hbad ds k. destruct (wf_split_item pre _ post Hwf) as [Hpre [Hadj Hit]].
  assert (E : tlines T st ds = top_prefix pre cmt ctx as1 ++ rest0 ++ tlines T st post).
  { subst ds. unfold top_prefix, tlines. rewrite flat_map_app. cbn [flat_map]. rewrite Eit, <- !app_assoc. reflexivity. }
  apply (inserted_at_site ds _ _ _ _ (length sfx) c' Hwf E (top_site pre cmt ctx as1 Hctx Hpre Hadj Hcmt Has1) Hc').
  apply at_top_rejects. exact Hbad.
Qed.

End Sites.
(* ------------------------------------------------------------------------------------------------------------------ *)
(* contents that ONE line parser rejects, with the exact rest at which it stops *)
Section Ops.
Hypothesis Hmerged : comment_merged T = false.

Lemma int_heads_nonempty : int_unsigned_prefix T ++ int_kw T <> [] /\ int_kw T <> [].
Proof.
  pose proof (kw_nonempty _ (kwok_int T Hok)) as H. split; [|exact H]. intro E. apply app_eq_nil in E as [_ E]. contradiction.
Qed.
Lemma raw_intty_nil : raw_intty T [] = None.
Proof. destruct int_heads_nonempty as [H1 H2]. unfold raw_intty. rewrite !strip_prefix_nil_r by assumption. reflexivity. Qed.
Lemma p_field_tail_nil : p_field_tail T [] = LErr [].
Proof.
  unfold p_field_tail. cbn [skip_ws]. unfold raw_type. cbn [lex_class]. rewrite raw_intty_nil.
  rewrite strip_prefix_nil_r by (apply kw_nonempty, (kwok_array T Hok)). reflexivity.
Qed.

Lemma not_inline_branch pa n : (pa = true \/ not_inline_word T n = true) -> negb pa && list_eqb (of_string n) (kw_inline_member T) = false.
Proof. intros [->|Hw]; [reflexivity|]. unfold not_inline_word in Hw. apply negb_true_iff in Hw. rewrite Hw. apply andb_false_r. Qed.

(* --- the operand deleted: `name =` *)
Lemma member_eq_end pa ac n : wf_prop T n = true -> (pa = true \/ not_inline_word T n = true) ->
  parse_member_line T pa ac (of_string n ++ [32; 61]) = LErr [].
Proof.
  intros Hn Hpa. unfold parse_member_line. rewrite Hmerged. cbn [andb].
  destruct (member_head_prop T Hok n [32; 61] Hn) as [H1 [H2 H3]]. rewrite H1, H2, H3.
  unfold raw_prop. rewrite lex_class_ok1 by (try exact Hn; reflexivity). rewrite (not_inline_branch pa n Hpa).
  rewrite expect_sp, expect_lit by reflexivity. cbn [lbind]. rewrite p_field_tail_nil. cbn [lbind].
  destruct pa; [reflexivity|]. cbn [skip_ws].
  rewrite !strip_prefix_nil_r by (apply kw_nonempty; first [apply (kwok_make_reserved T Hok)|apply (kwok_sizeof T Hok)|apply (kwok_inline_field T Hok)]).
  reflexivity.
Qed.

Lemma member_value_eq_end pa ac : parse_member_line T pa ac (value_placeholder T ++ [32; 61]) = LErr [].
Proof.
  unfold parse_member_line. rewrite Hmerged. cbn [andb].
  pose proof (ph_head (value_placeholder T) [32; 61] (ok_value T Hok)) as Hh.
  rewrite (skip_ws_head 95 _ Hh) by reflexivity. rewrite (strip1_head 64 95 _ Hh) by discriminate.
  rewrite strip_prefix_app. rewrite expect_sp, expect_lit by reflexivity. cbn [lbind]. rewrite p_field_tail_nil. reflexivity.
Qed.

Lemma member_const_eq_end ac n : wf_const T n = true -> parse_member_line T false ac (of_string n ++ [32; 61]) = LErr [].
Proof.
  intro Hn. unfold parse_member_line. rewrite Hmerged. cbn [andb].
  destruct (const_head T n [32; 61] Hn) as [c [Hh Hc]].
  rewrite (skip_ws_const T) by exact Hn. rewrite (strip_at_upper c _ Hh Hc).
  pose proof (ph_head (value_placeholder T) [] (ok_value T Hok)) as Hv. rewrite app_nil_r in Hv.
  rewrite (strip_prefix_head (value_placeholder T) _ 95 c Hv Hh) by (intro E; subst; discriminate).
  rewrite (raw_prop_none T c _ Hh (upper_not_lower c Hc)). cbn [negb].
  unfold raw_const. rewrite lex_class_ok1 by (try exact Hn; reflexivity).
  rewrite expect_sp, expect_lit by reflexivity. cbn [lbind]. unfold expect. cbn [skip_ws].
  rewrite strip_prefix_nil_r by (apply kw_nonempty, (kwok_make_const T Hok)). reflexivity.
Qed.

Definition field_name (f : field) : option string := match f with Field n _ _ _ _ _ => Some n | InlinePlaceholder _ _ => None end.

(* every member line `name = ...` cut after the `=` *)
Theorem member_deleted_operand ac f n : wf_field T f = true -> field_name f = Some n ->
  parse_member_line T (has_attrs f) ac (of_string n ++ [32; 61]) = LErr [].
Proof.
  destruct f as [n0 ty v d attrs c|t c]; [|discriminate]. intros H E. inversion E. subst n0. cbn [wf_field] in H. unfold has_attrs. cbn [field_attrs].
  apply andb_true_iff in H as [_ H]. destruct d.
  - apply andb_true_iff in H as [H Hattrs]. apply andb_true_iff in H as [H _]. apply andb_true_iff in H as [Hname _].
    apply orb_true_iff in Hname as [Hvp|Hname].
    + apply list_eqb_eq in Hvp. rewrite Hvp. apply member_value_eq_end.
    + apply andb_true_iff in Hname as [Hn Hw]. apply member_eq_end; [exact Hn|].
      apply orb_true_iff in Hw as [Hw|Hw]; [right; exact Hw|left]. destruct attrs; [reflexivity|discriminate].
  - apply andb_true_iff in H as [H Ha]. apply andb_true_iff in H as [Hn _]. destruct attrs; [discriminate|]. apply member_const_eq_end. exact Hn.
  - apply andb_true_iff in H as [H Ha]. apply andb_true_iff in H as [H _]. apply andb_true_iff in H as [Hn Hw].
    destruct attrs; [discriminate|]. apply member_eq_end; [exact Hn|right; exact Hw].
  - apply andb_true_iff in H as [H _]. apply andb_true_iff in H as [H Ha]. apply andb_true_iff in H as [Hn Hw].
    destruct attrs; [discriminate|]. apply member_eq_end; [exact Hn|right; exact Hw].
  - apply andb_true_iff in H as [H _]. apply andb_true_iff in H as [H Ha]. apply andb_true_iff in H as [Hn Hw].
    destruct attrs; [discriminate|]. apply member_eq_end; [exact Hn|right; exact Hw].
Qed.

Lemma plainc_field_name f n : wf_field T f = true -> field_name f = Some n -> plainc (of_string n) = true /\ head_stmt (of_string n ++ [32; 61]) = true.
Proof.
  destruct f as [n0 ty v d attrs c|t c]; [|discriminate]. intros H E. inversion E. subst n0. cbn [wf_field] in H.
  apply andb_true_iff in H as [_ H].
  assert (Hcases : list_eqb (of_string n) (value_placeholder T) = true \/ wf_prop T n = true \/ wf_const T n = true).
  { destruct d.
    - apply andb_true_iff in H as [H _]. apply andb_true_iff in H as [H _]. apply andb_true_iff in H as [Hname _].
      apply orb_true_iff in Hname as [Hvp|Hname]; [left; exact Hvp|]. apply andb_true_iff in Hname as [Hn _]. right. left. exact Hn.
    - apply andb_true_iff in H as [H _]. apply andb_true_iff in H as [Hn _]. right. right. exact Hn.
    - apply andb_true_iff in H as [H _]. apply andb_true_iff in H as [H _]. apply andb_true_iff in H as [Hn _]. right. left. exact Hn.
    - apply andb_true_iff in H as [H _]. apply andb_true_iff in H as [H _]. apply andb_true_iff in H as [Hn _]. right. left. exact Hn.
    - apply andb_true_iff in H as [H _]. apply andb_true_iff in H as [H _]. apply andb_true_iff in H as [Hn _]. right. left. exact Hn. }
  destruct Hcases as [Hvp|[Hn|Hn]].
  - apply list_eqb_eq in Hvp. rewrite Hvp. split; [apply (plainc_ph T Hok), (ok_value T Hok)|].
    pose proof (ph_head (value_placeholder T) [32; 61] (ok_value T Hok)) as Hh.
    destruct (value_placeholder T ++ [32; 61]) as [|x r]; [discriminate|]. cbn [head_is] in Hh. apply Z.eqb_eq in Hh. subst x. reflexivity.
  - split; [apply (plainc_prop T Hok); exact Hn|]. destruct (prop_head T n [32; 61] Hn) as [x [Hh Hx]]. apply (head_stmt_lower T Hok x _ Hh Hx).
  - split; [apply (plainc_const T Hok); exact Hn|]. destruct (const_head T n [32; 61] Hn) as [x [Hh Hx]]. apply (head_stmt_upper T Hok x _ Hh Hx).
Qed.

(* `NAME =` in an enum body *)
Lemma value_deleted_operand n : wf_const T n = true -> parse_enum_line T (of_string n ++ [32; 61]) = LErr [].
Proof.
  intro Hn. unfold parse_enum_line. rewrite tok_const_ok by (try exact Hn; reflexivity). cbn [lbind].
  rewrite expect_sp, expect_lit by reflexivity. cbn [lbind]. unfold tok. cbn [skip_ws]. unfold raw_number. rewrite (ok_hex_prefix T Hok).
  reflexivity.
Qed.

(* a line that starts with a lower-case letter is not an enum value *)
Lemma value_lower_rejected c h : head_is h c = true -> is_lower h = true -> parse_enum_line T c = LErr c.
Proof. apply (enum_lower_rejected T). Qed.

(* --- an integer width outside the grammar *)
Section Width.
Variable wd : list Z.
Hypothesis Hw : forallb (fun x => negb (is_prefix x wd)) (int_widths T) = true.

Lemma member_bad_width_at pa ac n i : wf_prop T n = true -> (pa = true \/ not_inline_word T n = true) ->
  parse_member_line T pa ac (of_string n ++ [32; 61; 32] ++ int_prefix T i ++ wd) = LErr (int_prefix T i ++ wd).
Proof.
  intros Hn Hpa. unfold parse_member_line. rewrite Hmerged. cbn [andb].
  destruct (member_head_prop T Hok n ([32; 61; 32] ++ int_prefix T i ++ wd) Hn) as [H1 [H2 H3]].
  rewrite H1, H2, H3. unfold raw_prop. rewrite lex_class_ok1 by (try exact Hn; reflexivity).
  rewrite (not_inline_branch pa n Hpa). cbn [app]. rewrite expect_sp, expect_lit by reflexivity. cbn [lbind].
  rewrite (bad_width_field_tail T Hok wd Hw i). cbn [lbind].
  destruct pa; [reflexivity|]. destruct (int_prefix_head T Hok i wd) as [c [Hh Hc]].
  rewrite skip_ws_sp, (skip_ws_head c _ Hh (lower_not_ws c Hc)).
  rewrite !(cf_strip _ (int_prefix T i) wd) by (apply (cf_field_kw T Hok); [cbn [In]; tauto|apply int_prefix_in_heads]).
  reflexivity.
Qed.

Lemma member_value_bad_width_at pa ac i :
  parse_member_line T pa ac (value_placeholder T ++ [32; 61; 32] ++ int_prefix T i ++ wd) = LErr (int_prefix T i ++ wd).
Proof.
  unfold parse_member_line. rewrite Hmerged. cbn [andb].
  pose proof (ph_head (value_placeholder T) ([32; 61; 32] ++ int_prefix T i ++ wd) (ok_value T Hok)) as Hh.
  rewrite (skip_ws_head 95 _ Hh) by reflexivity. rewrite (strip1_head 64 95 _ Hh) by discriminate.
  rewrite strip_prefix_app. cbn [app]. rewrite expect_sp, expect_lit by reflexivity. cbn [lbind].
  rewrite (bad_width_field_tail T Hok wd Hw i). reflexivity.
Qed.

Lemma enum_header_bad_width pa ac n i : pa_enum_ok pa = true -> wf_type T n = true ->
  parse_top_line T pa ac (kw_enum T ++ [32] ++ of_string n ++ [32; 58; 32] ++ int_prefix T i ++ wd) = LErr (int_prefix T i ++ wd).
Proof.
  intros Hpa Hn. unfold parse_top_line. rewrite Hmerged. cbn [andb].
  set (line := kw_enum T ++ [32] ++ of_string n ++ [32; 58; 32] ++ int_prefix T i ++ wd).
  destruct (kw_head (kw_enum T) ([32] ++ of_string n ++ [32; 58; 32] ++ int_prefix T i ++ wd) (kwok_enum T Hok)) as [c [Hh Hc]]. fold line in Hh.
  assert (Hsk : skip_ws line = line) by (apply skip_ws_kw, (kwok_enum T Hok)). rewrite Hsk. rewrite (strip_at_lower c _ Hh Hc).
  assert (Hi : strip_prefix (kw_import T) line = None) by (apply cf_strip, (cf_import_x T Hok); cbn; tauto).
  assert (Hu : strip_prefix (kw_using T) line = None) by (apply cf_strip, (cf_using_x T Hok); cbn; tauto).
  assert (He : strip_prefix (kw_enum T) line = Some ([32] ++ of_string n ++ [32; 58; 32] ++ int_prefix T i ++ wd)) by apply strip_prefix_app.
  assert (Hrest : (let* (n0, r) := tok (raw_type T) ([32] ++ of_string n ++ [32; 58; 32] ++ int_prefix T i ++ wd) in
                   let* (_, r) := expect [58] r in let* (b0, r) := tok (raw_intty T) r in finish (TEnumHdr (to_str n0) b0) r)
                  = LErr (int_prefix T i ++ wd)).
  { cbn [app]. rewrite tok_sp, (tok_type_ok T) by (try exact Hn; reflexivity). cbn [lbind].
    rewrite expect_sp, expect_lit by reflexivity. cbn [lbind]. rewrite tok_sp. unfold tok.
    destruct (int_prefix_head T Hok i wd) as [x [Hhx Hx]]. rewrite (skip_ws_head x _ Hhx (lower_not_ws x Hx)).
    rewrite (bad_width_intty T Hok wd Hw i). reflexivity. }
  destruct pa as [[| |]|]; try discriminate; cbn [orb]; rewrite ?Hi, ?Hu, He; exact Hrest.
Qed.
End Width.

(* --- plain members `name = type ...`: what follows the type *)
Lemma p_field_tail_type st ty X : wf_plain_type T ty = true -> stops type_rest X = true ->
  p_field_tail T (32 :: r_ftype T st ty ++ X) = let* (v0, r) := p_cond_opt T X in finish (ty, v0) r.
Proof.
  intros Hty HX. unfold p_field_tail. cbn [skip_ws]. replace (is_ws 32) with true by reflexivity.
  destruct ty as [i|t|a]; cbn [r_ftype wf_plain_type] in *.
  - rewrite (skip_ws_int T Hok) by exact Hty. destruct (int_head T Hok i X Hty) as [c [Hh Hc]].
    unfold raw_type. rewrite (lex_class_none _ _ _ _ _ c Hh (lower_not_upper c Hc)).
    rewrite (raw_intty_ok T Hok) by exact Hty. reflexivity.
  - rewrite (skip_ws_type T) by exact Hty. unfold raw_type. rewrite lex_class_ok2; [|exact Hty|exact HX].
    cbn [lbind]. rewrite to_str_of_string. reflexivity.
  - rewrite (r_array_eq T), <- app_assoc. rewrite skip_ws_kw by apply (kwok_array T Hok).
    destruct (kw_head (kw_array T) (array_args T st a ++ X) (kwok_array T Hok)) as [c [Hh Hc]].
    unfold raw_type. rewrite (lex_class_none _ _ _ _ _ c Hh (lower_not_upper c Hc)).
    rewrite (raw_intty_kw T Hok) by (cbn [In]; tauto). rewrite strip_prefix_app, (p_array_ok T Hok) by exact Hty. reflexivity.
Qed.

Lemma member_plain_tail st pa ac n ty X sfx : wf_prop T n = true -> (pa = true \/ not_inline_word T n = true) -> wf_plain_type T ty = true ->
  p_field_tail T (32 :: r_ftype T st ty ++ X) = LErr sfx ->
  parse_member_line T pa ac (of_string n ++ [32; 61; 32] ++ r_ftype T st ty ++ X) = LErr sfx.
Proof.
  intros Hn Hpa Hty Htail. unfold parse_member_line. rewrite Hmerged. cbn [andb].
  destruct (member_head_prop T Hok n ([32; 61; 32] ++ r_ftype T st ty ++ X) Hn) as [H1 [H2 H3]].
  rewrite H1, H2, H3. unfold raw_prop. rewrite lex_class_ok1 by (try exact Hn; reflexivity).
  rewrite (not_inline_branch pa n Hpa). cbn [app]. rewrite expect_sp, expect_lit by reflexivity. cbn [lbind].
  rewrite Htail. cbn [lbind].
  destruct pa; [reflexivity|]. cbn [skip_ws]. replace (is_ws 32) with true by reflexivity.
  assert (Hs : skip_ws (r_ftype T st ty ++ X) = r_ftype T st ty ++ X).
  { destruct ty as [i|t|a]; cbn [r_ftype wf_plain_type] in *.
    - apply (skip_ws_int T Hok). exact Hty.
    - apply (skip_ws_type T). exact Hty.
    - rewrite (r_array_eq T), <- app_assoc. apply skip_ws_kw. apply (kwok_array T Hok). }
  rewrite Hs. rewrite !(plain_not_special T Hok) by (try exact Hty; cbn [In]; tauto). reflexivity.
Qed.

Definition cv_text (st : style) (cv : cvalue) : list Z := match cv with CvNum n => r_num T st n | CvName n => of_string n end.
Definition wf_cv (cv : cvalue) : bool := match cv with CvNum n => wf_num n | CvName n => wf_const T n end.

(* `if VALUE <something that is no condition operator>` *)
Lemma p_cond_bad_op st cv bad : wf_cv cv = true -> first_prefix (cond_ops T) bad = None -> stops is_ws bad = true ->
  p_cond_opt T (32 :: kw_if T ++ [32] ++ cv_text st cv ++ [32] ++ bad) = LErr bad.
Proof.
  intros Hv Hbad Hws. unfold p_cond_opt. cbn [skip_ws]. replace (is_ws 32) with true by reflexivity.
  rewrite skip_ws_kw, strip_prefix_app by apply (kwok_if T Hok). cbn [app].
  assert (Hrest : forall cv0 : cvalue,
    (let* (op, r) := tok (first_prefix (cond_ops T)) (32 :: bad) in let* (l, r) := tok (raw_prop T) r in
     LOk (VCond {| c_value := cv0; c_op := to_str op; c_link := to_str l |}) r) = LErr bad).
  { intro cv0. rewrite tok_sp. unfold tok. rewrite (skip_ws_stop bad Hws), Hbad. reflexivity. }
  destruct cv as [n|n]; cbn [cv_text wf_cv] in *.
  - apply Z.leb_le in Hv. rewrite skip_ws_sp, (skip_ws_num T Hok), (raw_number_ok T Hok) by (try exact Hv; reflexivity). cbn [lbind]. apply Hrest.
  - rewrite skip_ws_sp, (skip_ws_const T) by exact Hv. destruct (const_head T n (32 :: bad) Hv) as [x [Hh Hx]].
    rewrite (raw_number_none T Hok x _ Hh (upper_not_digit x Hx)).
    rewrite tok_sp, (tok_const_ok T) by (try exact Hv; reflexivity). cbn [lbind]. apply Hrest.
Qed.

Theorem member_bad_condition_operator st pa ac n ty cv bad :
  wf_prop T n = true -> (pa = true \/ not_inline_word T n = true) -> wf_plain_type T ty = true -> wf_cv cv = true ->
  first_prefix (cond_ops T) bad = None -> stops is_ws bad = true ->
  parse_member_line T pa ac (of_string n ++ [32; 61; 32] ++ r_ftype T st ty ++ [32] ++ kw_if T ++ [32] ++ cv_text st cv ++ [32] ++ bad) = LErr bad.
Proof.
  intros Hn Hpa Hty Hv Hbad Hws. apply member_plain_tail; try assumption.
  rewrite p_field_tail_type by (try exact Hty; reflexivity).
  change ([32] ++ kw_if T ++ [32] ++ cv_text st cv ++ [32] ++ bad) with (32 :: kw_if T ++ [32] ++ cv_text st cv ++ [32] ++ bad).
  rewrite (p_cond_bad_op st cv bad Hv Hbad Hws). reflexivity.
Qed.

(* text after a complete plain member without condition: `name = type zz` *)
Theorem member_trailing_text st pa ac n ty X :
  wf_prop T n = true -> (pa = true \/ not_inline_word T n = true) -> wf_plain_type T ty = true ->
  strip_prefix (kw_if T) X = None -> stops is_ws X = true -> X <> [] ->
  parse_member_line T pa ac (of_string n ++ [32; 61; 32] ++ r_ftype T st ty ++ [32] ++ X) = LErr X.
Proof.
  intros Hn Hpa Hty Hif Hws Hne. apply member_plain_tail; try assumption.
  rewrite p_field_tail_type by (try exact Hty; reflexivity). unfold p_cond_opt. cbn [app skip_ws]. replace (is_ws 32) with true by reflexivity.
  rewrite (skip_ws_stop X Hws), Hif. cbn [lbind]. unfold finish. cbn [skip_ws]. replace (is_ws 32) with true by reflexivity.
  rewrite (skip_ws_stop X Hws). destruct X; [contradiction|reflexivity].
Qed.

(* --- members named with the placeholder `__value__` *)
Lemma member_value_tail pa ac X sfx : p_field_tail T (32 :: X) = LErr sfx ->
  parse_member_line T pa ac (value_placeholder T ++ [32; 61; 32] ++ X) = LErr sfx.
Proof.
  intro Htail. unfold parse_member_line. rewrite Hmerged. cbn [andb].
  pose proof (ph_head (value_placeholder T) ([32; 61; 32] ++ X) (ok_value T Hok)) as Hh.
  rewrite (skip_ws_head 95 _ Hh) by reflexivity. rewrite (strip1_head 64 95 _ Hh) by discriminate.
  rewrite strip_prefix_app. cbn [app]. rewrite expect_sp, expect_lit by reflexivity. cbn [lbind]. rewrite Htail. reflexivity.
Qed.

Lemma p_field_tail_bad X : stops is_ws X = true -> raw_type T X = None -> raw_intty T X = None -> strip_prefix (kw_array T) X = None ->
  p_field_tail T (32 :: X) = LErr X.
Proof.
  intros Hws Ht Hi Ha. unfold p_field_tail. cbn [skip_ws]. replace (is_ws 32) with true by reflexivity. rewrite (skip_ws_stop X Hws), Ht, Hi, Ha. reflexivity.
Qed.

(* a plain member (any name): what follows the type decides *)
Lemma plain_member_tail st ac n ty v attrs c X sfx : wf_field T (Field n ty v DispNone attrs c) = true ->
  p_field_tail T (32 :: r_ftype T st ty ++ X) = LErr sfx ->
  parse_member_line T (has_attrs (Field n ty v DispNone attrs c)) ac (of_string n ++ [32; 61; 32] ++ r_ftype T st ty ++ X) = LErr sfx.
Proof.
  intros Hf Htail. pose proof Hf as Hf'. cbn [wf_field] in Hf'. apply andb_true_iff in Hf' as [_ H]. apply andb_true_iff in H as [H _].
  apply andb_true_iff in H as [H _]. apply andb_true_iff in H as [Hname Hty]. fold (wf_plain_type T ty) in Hty.
  apply orb_true_iff in Hname as [Hvp|Hname].
  - apply list_eqb_eq in Hvp. rewrite Hvp. apply member_value_tail. exact Htail.
  - apply andb_true_iff in Hname as [Hn Hw]. apply (member_plain_tail st _ ac n ty X sfx Hn); [|exact Hty|exact Htail].
    apply orb_true_iff in Hw as [Hw|Hw]; [right; exact Hw|left]. unfold has_attrs. cbn [field_attrs]. destruct attrs; [reflexivity|discriminate].
Qed.

(* --- attribute lines *)
Lemma member_attr_unknown pa ac r : find_attr (attr_tables T (Some CField)) r = None -> stops is_ws r = true ->
  parse_member_line T pa ac (64 :: r) = LErr r.
Proof.
  intros Hf Hws. unfold parse_member_line. rewrite Hmerged. cbn [andb skip_ws]. replace (is_ws 64) with false by reflexivity.
  cbn [strip_prefix]. replace (64 =? 64) with true by reflexivity. unfold p_attr. rewrite (skip_ws_stop r Hws), Hf. reflexivity.
Qed.
Lemma top_attr_unknown ctx ac r : find_attr (attr_tables T ctx) r = None -> stops is_ws r = true ->
  parse_top_line T ctx ac (64 :: r) = LErr r.
Proof.
  intros Hf Hws. unfold parse_top_line. rewrite Hmerged. cbn [andb skip_ws]. replace (is_ws 64) with false by reflexivity.
  cbn [strip_prefix]. replace (64 =? 64) with true by reflexivity. unfold p_attr. rewrite (skip_ws_stop r Hws), Hf. reflexivity.
Qed.

(* an attribute without arguments written with an argument list: `@name(...` *)
Lemma member_attr_zero_args pa ac name X : attr_kind T CField name = Some AkZero ->
  parse_member_line T pa ac (64 :: name ++ 40 :: X) = LErr (40 :: X).
Proof.
  intro Hk. destruct (attr_kind_in T _ _ _ Hk) as [names [Hin Hn]].
  unfold parse_member_line. rewrite Hmerged. cbn [andb skip_ws]. replace (is_ws 64) with false by reflexivity.
  cbn [strip_prefix]. replace (64 =? 64) with true by reflexivity. unfold p_attr.
  rewrite skip_ws_kw by (eapply (attr_name_kw T Hok); exact Hk).
  rewrite (find_attr_ok _ CField AkZero names) by (try apply (pw_names T Hok); assumption). reflexivity.
Qed.
Lemma top_attr_zero_args pending ctx ac name X : ctx_ok pending ctx = true -> attr_kind T ctx name = Some AkZero ->
  parse_top_line T pending ac (64 :: name ++ 40 :: X) = LErr (40 :: X).
Proof.
  intros Hctx Hk. destruct (attr_kind_in T _ _ _ Hk) as [names [Hin Hn]].
  unfold parse_top_line. rewrite Hmerged. cbn [andb skip_ws]. replace (is_ws 64) with false by reflexivity.
  cbn [strip_prefix]. replace (64 =? 64) with true by reflexivity. unfold p_attr.
  rewrite skip_ws_kw by (eapply (attr_name_kw T Hok); exact Hk).
  rewrite (find_attr_ok _ ctx AkZero names) by (try apply (pw_names T Hok); try exact Hn; eapply (tables_incl T); eassumption). reflexivity.
Qed.

(* --- the type name of `using Name`, `enum Name`, `[modifier] struct Name` replaced by something that is no type name *)
Lemma tok_type_bad X : raw_type T X = None -> stops is_ws X = true -> tok (raw_type T) (32 :: X) = LErr X.
Proof. intros HX Hws. unfold tok. cbn [skip_ws]. replace (is_ws 32) with true by reflexivity. rewrite (skip_ws_stop X Hws), HX. reflexivity. Qed.

Lemma alias_bad_name ac X : raw_type T X = None -> stops is_ws X = true -> parse_top_line T None ac (kw_using T ++ 32 :: X) = LErr X.
Proof.
  intros HX Hws. unfold parse_top_line. rewrite Hmerged. cbn [andb].
  destruct (kw_head (kw_using T) (32 :: X) (kwok_using T Hok)) as [c [Hh Hc]].
  rewrite (skip_ws_kw _ _ (kwok_using T Hok)), (strip_at_lower c _ Hh Hc).
  rewrite (cf_strip (kw_import T) (kw_using T)) by (apply (cf_import_x T Hok); cbn; tauto).
  rewrite strip_prefix_app, (tok_type_bad X HX Hws). reflexivity.
Qed.

Lemma enum_bad_name pa ac X : pa_enum_ok pa = true -> raw_type T X = None -> stops is_ws X = true ->
  parse_top_line T pa ac (kw_enum T ++ 32 :: X) = LErr X.
Proof.
  intros Hpa HX Hws. unfold parse_top_line. rewrite Hmerged. cbn [andb].
  destruct (kw_head (kw_enum T) (32 :: X) (kwok_enum T Hok)) as [c [Hh Hc]].
  rewrite (skip_ws_kw _ _ (kwok_enum T Hok)), (strip_at_lower c _ Hh Hc).
  assert (Fi : strip_prefix (kw_import T) (kw_enum T ++ 32 :: X) = None) by (apply cf_strip, (cf_import_x T Hok); cbn; tauto).
  assert (Fu : strip_prefix (kw_using T) (kw_enum T ++ 32 :: X) = None) by (apply cf_strip, (cf_using_x T Hok); cbn; tauto).
  destruct pa as [[| |]|]; try discriminate; cbn [orb]; rewrite ?Fi, ?Fu, strip_prefix_app, (tok_type_bad X HX Hws); reflexivity.
Qed.

Lemma struct_bad_name pa ac d X : pa_struct_ok pa = true -> raw_type T X = None -> stops is_ws X = true ->
  parse_top_line T pa ac (modifier_text d ++ kw_struct T ++ 32 :: X) = LErr X.
Proof.
  intros Hpa HX Hws. unfold parse_top_line. rewrite Hmerged. cbn [andb].
  destruct (modifier_head T Hok d (32 :: X)) as [c [Hh Hc]].
  rewrite (skip_ws_head c _ Hh (lower_not_ws c Hc)), (strip_at_lower c _ Hh Hc).
  destruct (modifier_split T Hok d (32 :: X)) as [w0 [r' [Hw E]]].
  assert (Fi : strip_prefix (kw_import T) (modifier_text d ++ kw_struct T ++ 32 :: X) = None).
  { rewrite E. apply cf_strip, (cf_import_x T Hok). destruct Hw as [<-|Hw]; [cbn; tauto|]. apply in_or_app. right. exact Hw. }
  assert (Fu : strip_prefix (kw_using T) (modifier_text d ++ kw_struct T ++ 32 :: X) = None).
  { rewrite E. apply cf_strip, (cf_using_x T Hok). destruct Hw as [<-|Hw]; [cbn; tauto|]. apply in_or_app. right. exact Hw. }
  assert (Fe : strip_prefix (kw_enum T) (modifier_text d ++ kw_struct T ++ 32 :: X) = None).
  { rewrite E. apply cf_strip, (cf_enum_x T Hok). destruct Hw as [<-|Hw]; [cbn; tauto|]. apply in_or_app. right. exact Hw. }
  assert (Hbranch : (let (d0, s1) := match first_prefix (struct_modifiers T) (modifier_text d ++ kw_struct T ++ 32 :: X) with
                                     | Some (m, r) => (sdisp_of m, r)
                                     | None => (SdNone, modifier_text d ++ kw_struct T ++ 32 :: X)
                                     end in
                     let* (_, r) := expect (kw_struct T) s1 in let* (n, r) := tok (raw_type T) r in finish (TStructHdr d0 (to_str n)) r)
                    = LErr X).
  { destruct d; cbn [modifier_text app].
    - rewrite first_prefix_cf by apply (cf_struct_mods T Hok). rewrite (expect_kw _ _ (kwok_struct T Hok)). cbn [lbind].
      rewrite (tok_type_bad X HX Hws). reflexivity.
    - rewrite <- app_assoc. rewrite (first_prefix_in _ _ _ (pw_mods T Hok) (In_abstract T Hok)). cbn [app]. rewrite expect_sp, (expect_kw _ _ (kwok_struct T Hok)).
      cbn [lbind]. rewrite (tok_type_bad X HX Hws). reflexivity.
    - rewrite <- app_assoc. rewrite (first_prefix_in _ _ _ (pw_mods T Hok) (In_inline T Hok)). cbn [app]. rewrite expect_sp, (expect_kw _ _ (kwok_struct T Hok)).
      cbn [lbind]. rewrite (tok_type_bad X HX Hws). reflexivity. }
  destruct pa as [[| |]|]; try discriminate; cbn [orb]; rewrite ?Fi, ?Fu, ?Fe, ?Hbranch; reflexivity.
Qed.

Definition type_line_ok (k : type_line) (pa : option actx) : bool :=
  match k with TLUsing => match pa with None => true | _ => false end | TLEnum => pa_enum_ok pa | TLStruct _ => pa_struct_ok pa end.

Theorem type_line_bad_name k pa ac X : type_line_ok k pa = true -> raw_type T X = None -> stops is_ws X = true ->
  parse_top_line T pa ac (type_line_head T k ++ 32 :: X) = LErr X.
Proof.
  intros Hk HX Hws. destruct k as [| |d]; cbn [type_line_head type_line_ok] in *.
  - destruct pa; [discriminate|]. apply alias_bad_name; assumption.
  - apply enum_bad_name; assumption.
  - rewrite <- app_assoc. apply struct_bad_name; assumption.
Qed.

(* --- a line that starts with no keyword of the top level *)
Lemma top_no_keyword ctx ac c : stops is_ws c = true -> strip_prefix [64] c = None ->
  strip_prefix (kw_import T) c = None -> strip_prefix (kw_using T) c = None -> strip_prefix (kw_enum T) c = None ->
  strip_prefix (kw_struct T) c = None -> first_prefix (struct_modifiers T) c = None ->
  parse_top_line T ctx ac c = LErr c.
Proof.
  intros Hws H64 Hi Hu He Hs Hm. unfold parse_top_line. rewrite Hmerged. cbn [andb]. rewrite (skip_ws_stop c Hws), H64, Hi, Hu, He, Hm.
  assert (Hx : (let* (_, r) := expect (kw_struct T) c in let* (n, r) := tok (raw_type T) r in finish (TStructHdr SdNone (to_str n)) r) = LErr c).
  { unfold expect. rewrite (skip_ws_stop c Hws), Hs. reflexivity. }
  destruct ctx as [[| |]|]; cbn [orb]; rewrite ?Hx; reflexivity.
Qed.

(* --- an attribute that takes arguments, written with an empty argument list *)
Lemma attr_args_empty k : k <> AkZero -> p_attr_args T k [40; 41] = LErr [41].
Proof.
  intro Hk. unfold p_attr_args.
  assert (Hnum : tok (raw_number T) [41] = LErr [41]).
  { unfold tok. cbn [skip_ws]. replace (is_ws 41) with false by reflexivity. unfold raw_number. rewrite (ok_hex_prefix T Hok). reflexivity. }
  assert (Hprop : tok (raw_prop T) [41] = LErr [41]) by reflexivity.
  destruct k; try contradiction; rewrite expect_lit by reflexivity; cbn [lbind length p_pairs]; rewrite ?Hnum, ?Hprop; reflexivity.
Qed.

Lemma member_attr_no_args pa ac name k : attr_kind T CField name = Some k -> k <> AkZero ->
  parse_member_line T pa ac (64 :: name ++ [40; 41]) = LErr [41].
Proof.
  intros Hk Hz. destruct (attr_kind_in T _ _ _ Hk) as [names [Hin Hn]].
  unfold parse_member_line. rewrite Hmerged. cbn [andb skip_ws]. replace (is_ws 64) with false by reflexivity.
  cbn [strip_prefix]. replace (64 =? 64) with true by reflexivity. unfold p_attr.
  rewrite skip_ws_kw by (eapply (attr_name_kw T Hok); exact Hk).
  rewrite (find_attr_ok _ CField k names) by (try apply (pw_names T Hok); assumption). rewrite (attr_args_empty k Hz). reflexivity.
Qed.
Lemma top_attr_no_args pending ctx ac name k : ctx_ok pending ctx = true -> attr_kind T ctx name = Some k -> k <> AkZero ->
  parse_top_line T pending ac (64 :: name ++ [40; 41]) = LErr [41].
Proof.
  intros Hctx Hk Hz. destruct (attr_kind_in T _ _ _ Hk) as [names [Hin Hn]].
  unfold parse_top_line. rewrite Hmerged. cbn [andb skip_ws]. replace (is_ws 64) with false by reflexivity.
  cbn [strip_prefix]. replace (64 =? 64) with true by reflexivity. unfold p_attr.
  rewrite skip_ws_kw by (eapply (attr_name_kw T Hok); exact Hk).
  rewrite (find_attr_ok _ ctx k names) by (try apply (pw_names T Hok); try exact Hn; eapply (tables_incl T); eassumption).
  rewrite (attr_args_empty k Hz). reflexivity.
Qed.

(* --- `using Name =` *)
Lemma alias_deleted_operand ac n : wf_type T n = true -> parse_top_line T None ac (kw_using T ++ [32] ++ of_string n ++ [32; 61]) = LErr [].
Proof.
  intro Hn. unfold parse_top_line. rewrite Hmerged. cbn [andb].
  destruct (kw_head (kw_using T) ([32] ++ of_string n ++ [32; 61]) (kwok_using T Hok)) as [c [Hh Hc]].
  rewrite skip_ws_kw by apply (kwok_using T Hok). rewrite (strip_at_lower c _ Hh Hc).
  rewrite (cf_strip (kw_import T) (kw_using T)) by (apply (cf_import_x T Hok); cbn; tauto).
  rewrite strip_prefix_app. cbn [app]. rewrite tok_sp, (tok_type_ok T) by (try exact Hn; reflexivity). cbn [lbind].
  rewrite expect_sp, expect_lit by reflexivity. cbn [lbind skip_ws]. rewrite raw_intty_nil. unfold expect. cbn [skip_ws].
  rewrite strip_prefix_nil_r by (apply kw_nonempty, (kwok_binary_fixed T Hok)). reflexivity.
Qed.

(* --- a name followed by a character outside its class *)
Lemma member_name_suffix pa ac n ch rest : wf_prop T n = true -> (pa = true \/ not_inline_word T n = true) ->
  prop_rest ch = false -> is_ws ch = false -> ch <> 61 ->
  parse_member_line T pa ac (of_string n ++ ch :: rest) = LErr (ch :: rest).
Proof.
  intros Hn Hpa Hch Hws H61. unfold parse_member_line. rewrite Hmerged. cbn [andb].
  destruct (member_head_prop T Hok n (ch :: rest) Hn) as [H1 [H2 H3]]. rewrite H1, H2, H3.
  unfold raw_prop. rewrite lex_class_ok1 by (try exact Hn; cbn [stops]; rewrite Hch; reflexivity).
  rewrite (not_inline_branch pa n Hpa). unfold expect. cbn [skip_ws]. rewrite Hws. cbn [strip_prefix].
  apply Z.eqb_neq in H61. rewrite Z.eqb_sym in H61. rewrite H61. reflexivity.
Qed.

Lemma value_name_suffix n ch rest : wf_const T n = true -> const_rest ch = false -> is_ws ch = false -> ch <> 61 ->
  parse_enum_line T (of_string n ++ ch :: rest) = LErr (ch :: rest).
Proof.
  intros Hn Hch Hws H61. unfold parse_enum_line. rewrite (tok_const_ok T) by (try exact Hn; cbn [stops]; rewrite Hch; reflexivity). cbn [lbind].
  unfold expect. cbn [skip_ws]. rewrite Hws. cbn [strip_prefix]. apply Z.eqb_neq in H61. rewrite Z.eqb_sym in H61. rewrite H61. reflexivity.
Qed.

Lemma const_member_name_suffix ac n ch rest : wf_const T n = true -> const_rest ch = false -> is_ws ch = false -> ch <> 61 ->
  parse_member_line T false ac (of_string n ++ ch :: rest) = LErr (ch :: rest).
Proof.
  intros Hn Hch Hws H61. unfold parse_member_line. rewrite Hmerged. cbn [andb].
  destruct (const_head T n (ch :: rest) Hn) as [c [Hh Hc]].
  rewrite (skip_ws_const T) by exact Hn. rewrite (strip_at_upper c _ Hh Hc).
  pose proof (ph_head (value_placeholder T) [] (ok_value T Hok)) as Hv. rewrite app_nil_r in Hv.
  rewrite (strip_prefix_head (value_placeholder T) _ 95 c Hv Hh) by (intro E; subst; discriminate).
  rewrite (raw_prop_none T c _ Hh (upper_not_lower c Hc)). cbn [negb].
  unfold raw_const. rewrite lex_class_ok1 by (try exact Hn; cbn [stops]; rewrite Hch; reflexivity).
  unfold expect. cbn [skip_ws]. rewrite Hws. cbn [strip_prefix]. apply Z.eqb_neq in H61. rewrite Z.eqb_sym in H61. rewrite H61. reflexivity.
Qed.

Lemma type_line_name_suffix k pa ac n ch rest : type_line_ok k pa = true -> wf_type T n = true ->
  type_rest ch = false -> is_ws ch = false -> ch <> 61 -> ch <> 58 ->
  parse_top_line T pa ac (type_line_head T k ++ [32] ++ of_string n ++ ch :: rest) = LErr (ch :: rest).
Proof.
  intros Hk Hn Hch Hws H61 H58.
  assert (Htok : tok (raw_type T) (32 :: of_string n ++ ch :: rest) = LOk (of_string n) (ch :: rest)).
  { rewrite tok_sp. apply (tok_type_ok T); [exact Hn|]. cbn [stops]. rewrite Hch. reflexivity. }
  assert (Hexp : forall x, ch <> x -> expect [x] (ch :: rest) = LErr (ch :: rest)).
  { intros x Hx. unfold expect. cbn [skip_ws]. rewrite Hws. cbn [strip_prefix]. apply Z.eqb_neq in Hx. rewrite Z.eqb_sym in Hx. rewrite Hx. reflexivity. }
  assert (Hfin : forall A (a : A), finish a (ch :: rest) = LErr (ch :: rest)) by (intros A a; unfold finish; cbn [skip_ws]; rewrite Hws; reflexivity).
  destruct k as [| |d]; cbn [type_line_head type_line_ok app] in *.
  - destruct pa; [discriminate|]. unfold parse_top_line. rewrite Hmerged. cbn [andb].
    destruct (kw_head (kw_using T) (32 :: of_string n ++ ch :: rest) (kwok_using T Hok)) as [c [Hh Hc]].
    rewrite (skip_ws_kw _ _ (kwok_using T Hok)), (strip_at_lower c _ Hh Hc).
    rewrite (cf_strip (kw_import T) (kw_using T)) by (apply (cf_import_x T Hok); cbn; tauto).
    rewrite strip_prefix_app, Htok. cbn [lbind]. rewrite (Hexp 61 H61). reflexivity.
  - unfold parse_top_line. rewrite Hmerged. cbn [andb].
    destruct (kw_head (kw_enum T) (32 :: of_string n ++ ch :: rest) (kwok_enum T Hok)) as [c [Hh Hc]].
    rewrite (skip_ws_kw _ _ (kwok_enum T Hok)), (strip_at_lower c _ Hh Hc).
    assert (Fi : strip_prefix (kw_import T) (kw_enum T ++ 32 :: of_string n ++ ch :: rest) = None) by (apply cf_strip, (cf_import_x T Hok); cbn; tauto).
    assert (Fu : strip_prefix (kw_using T) (kw_enum T ++ 32 :: of_string n ++ ch :: rest) = None) by (apply cf_strip, (cf_using_x T Hok); cbn; tauto).
    destruct pa as [[| |]|]; try discriminate; cbn [orb]; rewrite ?Fi, ?Fu, strip_prefix_app, Htok; cbn [lbind]; rewrite (Hexp 58 H58); reflexivity.
  - rewrite <- app_assoc. unfold parse_top_line. rewrite Hmerged. cbn [andb].
    destruct (modifier_head T Hok d (32 :: of_string n ++ ch :: rest)) as [c [Hh Hc]].
    rewrite (skip_ws_head c _ Hh (lower_not_ws c Hc)), (strip_at_lower c _ Hh Hc).
    destruct (modifier_split T Hok d (32 :: of_string n ++ ch :: rest)) as [w0 [r' [Hw E]]].
    set (line := modifier_text d ++ kw_struct T ++ 32 :: of_string n ++ ch :: rest) in *.
    assert (Fi : strip_prefix (kw_import T) line = None).
    { rewrite E. apply cf_strip, (cf_import_x T Hok). destruct Hw as [<-|Hw]; [cbn; tauto|]. apply in_or_app. right. exact Hw. }
    assert (Fu : strip_prefix (kw_using T) line = None).
    { rewrite E. apply cf_strip, (cf_using_x T Hok). destruct Hw as [<-|Hw]; [cbn; tauto|]. apply in_or_app. right. exact Hw. }
    assert (Fe : strip_prefix (kw_enum T) line = None).
    { rewrite E. apply cf_strip, (cf_enum_x T Hok). destruct Hw as [<-|Hw]; [cbn; tauto|]. apply in_or_app. right. exact Hw. }
    assert (Hbranch : (let (d0, s1) := match first_prefix (struct_modifiers T) line with
                                       | Some (m, r) => (sdisp_of m, r)
                                       | None => (SdNone, line)
                                       end in
                       let* (_, r) := expect (kw_struct T) s1 in let* (n0, r) := tok (raw_type T) r in finish (TStructHdr d0 (to_str n0)) r)
                      = LErr (ch :: rest)).
    { subst line. destruct d; cbn [modifier_text app].
      - rewrite first_prefix_cf by apply (cf_struct_mods T Hok). rewrite (expect_kw _ _ (kwok_struct T Hok)). cbn [lbind].
        rewrite Htok. cbn [lbind]. apply Hfin.
      - rewrite <- app_assoc. rewrite (first_prefix_in _ _ _ (pw_mods T Hok) (In_abstract T Hok)). cbn [app]. rewrite expect_sp, (expect_kw _ _ (kwok_struct T Hok)).
        cbn [lbind]. rewrite Htok. cbn [lbind]. apply Hfin.
      - rewrite <- app_assoc. rewrite (first_prefix_in _ _ _ (pw_mods T Hok) (In_inline T Hok)). cbn [app]. rewrite expect_sp, (expect_kw _ _ (kwok_struct T Hok)).
        cbn [lbind]. rewrite Htok. cbn [lbind]. apply Hfin. }
    destruct pa as [[| |]|]; try discriminate; cbn [orb]; rewrite ?Fi, ?Fu, ?Fe, ?Hbranch; reflexivity.
Qed.

(* --- a member line that starts with no member name: too short, capitalised, ... *)
Lemma member_no_name pa ac X : stops is_ws X = true -> strip_prefix [64] X = None -> strip_prefix (value_placeholder T) X = None ->
  raw_prop T X = None -> raw_const T X = None -> parse_member_line T pa ac X = LErr X.
Proof.
  intros Hws H64 Hvp Hp Hc. unfold parse_member_line. rewrite Hmerged. cbn [andb]. rewrite (skip_ws_stop X Hws), H64, Hvp, Hp, Hc.
  destruct pa; reflexivity.
Qed.

(* --- `name = X` where X starts with nothing a member value can start with (unknown function, ...) *)
Lemma member_bad_operand pa ac n X : wf_prop T n = true -> (pa = true \/ not_inline_word T n = true) -> stops is_ws X = true ->
  raw_type T X = None -> raw_intty T X = None -> strip_prefix (kw_array T) X = None ->
  strip_prefix (kw_make_reserved T) X = None -> strip_prefix (kw_sizeof T) X = None -> strip_prefix (kw_inline_field T) X = None ->
  parse_member_line T pa ac (of_string n ++ [32; 61; 32] ++ X) = LErr X.
Proof.
  intros Hn Hpa Hws Ht Hi Ha Hr Hs Hf. unfold parse_member_line. rewrite Hmerged. cbn [andb].
  destruct (member_head_prop T Hok n ([32; 61; 32] ++ X) Hn) as [H1 [H2 H3]]. rewrite H1, H2, H3.
  unfold raw_prop. rewrite lex_class_ok1 by (try exact Hn; reflexivity). rewrite (not_inline_branch pa n Hpa). cbn [app].
  rewrite expect_sp, expect_lit by reflexivity. cbn [lbind].
  assert (Htail : p_field_tail T (32 :: X) = LErr X).
  { unfold p_field_tail. cbn [skip_ws]. replace (is_ws 32) with true by reflexivity. rewrite (skip_ws_stop X Hws), Ht, Hi, Ha. reflexivity. }
  rewrite Htail. cbn [lbind]. destruct pa; [reflexivity|]. cbn [skip_ws]. replace (is_ws 32) with true by reflexivity.
  rewrite (skip_ws_stop X Hws), Hr, Hs, Hf. reflexivity.
Qed.

Lemma const_member_bad_operand ac n X : wf_const T n = true -> stops is_ws X = true -> strip_prefix (kw_make_const T) X = None ->
  parse_member_line T false ac (of_string n ++ [32; 61; 32] ++ X) = LErr X.
Proof.
  intros Hn Hws Hm. unfold parse_member_line. rewrite Hmerged. cbn [andb].
  destruct (const_head T n ([32; 61; 32] ++ X) Hn) as [c [Hh Hc]].
  rewrite (skip_ws_const T) by exact Hn. rewrite (strip_at_upper c _ Hh Hc).
  pose proof (ph_head (value_placeholder T) [] (ok_value T Hok)) as Hv. rewrite app_nil_r in Hv.
  rewrite (strip_prefix_head (value_placeholder T) _ 95 c Hv Hh) by (intro E; subst; discriminate).
  rewrite (raw_prop_none T c _ Hh (upper_not_lower c Hc)). cbn [negb].
  unfold raw_const. rewrite lex_class_ok1 by (try exact Hn; reflexivity). cbn [app].
  rewrite expect_sp, expect_lit by reflexivity. cbn [lbind]. unfold expect. cbn [skip_ws]. replace (is_ws 32) with true by reflexivity.
  rewrite (skip_ws_stop X Hws), Hm. reflexivity.
Qed.

Lemma alias_bad_operand ac n X : wf_type T n = true -> stops is_ws X = true -> raw_intty T X = None -> strip_prefix (kw_binary_fixed T) X = None ->
  parse_top_line T None ac (kw_using T ++ [32] ++ of_string n ++ [32; 61; 32] ++ X) = LErr X.
Proof.
  intros Hn Hws Hi Hb. unfold parse_top_line. rewrite Hmerged. cbn [andb].
  destruct (kw_head (kw_using T) ([32] ++ of_string n ++ [32; 61; 32] ++ X) (kwok_using T Hok)) as [c [Hh Hc]].
  rewrite skip_ws_kw by apply (kwok_using T Hok). rewrite (strip_at_lower c _ Hh Hc).
  rewrite (cf_strip (kw_import T) (kw_using T)) by (apply (cf_import_x T Hok); cbn; tauto).
  rewrite strip_prefix_app. cbn [app]. rewrite tok_sp, (tok_type_ok T) by (try exact Hn; reflexivity). cbn [lbind].
  rewrite expect_sp, expect_lit by reflexivity. cbn [lbind skip_ws]. replace (is_ws 32) with true by reflexivity.
  rewrite (skip_ws_stop X Hws), Hi. unfold expect. cbn [skip_ws]. replace (is_ws 32) with true by reflexivity. rewrite (skip_ws_stop X Hws), Hb. reflexivity.
Qed.

(* --- unknown transform: `@name(p1, ..., pk, p!bad` on an attribute with transforms, bad starting with no transform name *)
Definition props_text (qs : list string) : list Z := flat_map (fun q => of_string q ++ [44; 32]) qs.

Lemma props_text_len qs : (length qs <= length (props_text qs))%nat.
Proof. induction qs as [|q qs IH]; [apply le_n|]. cbn [props_text flat_map length]. fold (props_text qs). rewrite !app_length. cbn [length]. lia. Qed.

Lemma p_pairs_bad_transform qs p bad : forallb (wf_prop T) qs = true -> wf_prop T p = true ->
  first_prefix (transform_names T) bad = None -> stops is_ws bad = true ->
  forall fuel, (length qs < fuel)%nat -> p_pairs T fuel (props_text qs ++ of_string p ++ 33 :: bad) = LErr bad.
Proof.
  intros Hqs Hp Hbad Hws. induction qs as [|q qs IH]; intros fuel Hfuel.
  - destruct fuel as [|f]; [inversion Hfuel|]. cbn [props_text flat_map app p_pairs].
    rewrite (tok_prop_ok T) by (try exact Hp; reflexivity). cbn [lbind skip_ws]. replace (is_ws 33) with false by reflexivity.
    cbn [strip_prefix]. replace (33 =? 33) with true by reflexivity. unfold tok. rewrite (skip_ws_stop bad Hws), Hbad. reflexivity.
  - cbn [forallb] in Hqs. apply andb_true_iff in Hqs as [Hq Hqs]. destruct fuel as [|f]; [inversion Hfuel|].
    cbn [props_text flat_map]. fold (props_text qs). rewrite <- !app_assoc. cbn [p_pairs].
    rewrite (tok_prop_ok T) by (try exact Hq; reflexivity). cbn [lbind app].
    set (R := props_text qs ++ of_string p ++ 33 :: bad).
    replace (strip_prefix [33] (skip_ws (44 :: 32 :: R))) with (@None (list Z)) by reflexivity. cbn [lbind].
    replace (strip_prefix [44] (skip_ws (44 :: 32 :: R))) with (Some (32 :: R)) by reflexivity.
    rewrite (p_pairs_sp T). subst R. rewrite (IH Hqs f) by (cbn [length] in Hfuel; lia). reflexivity.
Qed.

Lemma top_attr_bad_transform pending ctx ac name qs p bad : ctx_ok pending ctx = true -> attr_kind T ctx name = Some AkTransform ->
  forallb (wf_prop T) qs = true -> wf_prop T p = true -> first_prefix (transform_names T) bad = None -> stops is_ws bad = true ->
  parse_top_line T pending ac (64 :: name ++ 40 :: props_text qs ++ of_string p ++ 33 :: bad) = LErr bad.
Proof.
  intros Hctx Hk Hqs Hp Hbad Hws. destruct (attr_kind_in T _ _ _ Hk) as [names [Hin Hn]].
  unfold parse_top_line. rewrite Hmerged. cbn [andb skip_ws]. replace (is_ws 64) with false by reflexivity.
  cbn [strip_prefix]. replace (64 =? 64) with true by reflexivity. unfold p_attr.
  rewrite skip_ws_kw by (eapply (attr_name_kw T Hok); exact Hk).
  rewrite (find_attr_ok _ ctx AkTransform names) by (try apply (pw_names T Hok); try exact Hn; eapply (tables_incl T); eassumption).
  unfold p_attr_args. rewrite expect_lit by reflexivity. cbn [lbind].
  rewrite (p_pairs_bad_transform qs p bad Hqs Hp Hbad Hws).
  - reflexivity.
  - rewrite app_length. pose proof (props_text_len qs). lia.
Qed.

(* --- the opening parenthesis deleted: a word that must be followed by `(` is followed by X *)
Lemma expect_open_fails X : stops is_ws X = true -> strip_prefix [40] X = None -> expect [40] X = LErr X.
Proof. intros Hws H. unfold expect. rewrite (skip_ws_stop X Hws), H. reflexivity. Qed.

Lemma attr_args_no_open k X : k <> AkZero -> stops is_ws X = true -> strip_prefix [40] X = None -> p_attr_args T k X = LErr X.
Proof. intros Hk Hws H. unfold p_attr_args. destruct k; try contradiction; rewrite (expect_open_fails X Hws H); reflexivity. Qed.

Lemma member_attr_missing_open pa ac name k X : attr_kind T CField name = Some k -> k <> AkZero -> stops is_ws X = true -> strip_prefix [40] X = None ->
  parse_member_line T pa ac (64 :: name ++ X) = LErr X.
Proof.
  intros Hk Hz Hws HX. destruct (attr_kind_in T _ _ _ Hk) as [names [Hin Hn]].
  unfold parse_member_line. rewrite Hmerged. cbn [andb skip_ws]. replace (is_ws 64) with false by reflexivity.
  cbn [strip_prefix]. replace (64 =? 64) with true by reflexivity. unfold p_attr.
  rewrite skip_ws_kw by (eapply (attr_name_kw T Hok); exact Hk).
  rewrite (find_attr_ok _ CField k names) by (try apply (pw_names T Hok); assumption). rewrite (attr_args_no_open k X Hz Hws HX). reflexivity.
Qed.
Lemma top_attr_missing_open pending ctx ac name k X : ctx_ok pending ctx = true -> attr_kind T ctx name = Some k -> k <> AkZero ->
  stops is_ws X = true -> strip_prefix [40] X = None -> parse_top_line T pending ac (64 :: name ++ X) = LErr X.
Proof.
  intros Hctx Hk Hz Hws HX. destruct (attr_kind_in T _ _ _ Hk) as [names [Hin Hn]].
  unfold parse_top_line. rewrite Hmerged. cbn [andb skip_ws]. replace (is_ws 64) with false by reflexivity.
  cbn [strip_prefix]. replace (64 =? 64) with true by reflexivity. unfold p_attr.
  rewrite skip_ws_kw by (eapply (attr_name_kw T Hok); exact Hk).
  rewrite (find_attr_ok _ ctx k names) by (try apply (pw_names T Hok); try exact Hn; eapply (tables_incl T); eassumption).
  rewrite (attr_args_no_open k X Hz Hws HX). reflexivity.
Qed.

Lemma member_reserved_missing_open ac n X : wf_prop T n = true -> not_inline_word T n = true -> stops is_ws X = true -> strip_prefix [40] X = None ->
  parse_member_line T false ac (of_string n ++ [32; 61; 32] ++ kw_make_reserved T ++ X) = LErr X.
Proof.
  intros Hn Hw Hws HX. rewrite (member_special_head T Hok Hmerged) by assumption. cbn zeta. rewrite skip_ws_sp.
  rewrite skip_ws_kw by apply (kwok_make_reserved T Hok). rewrite strip_prefix_app. rewrite (expect_open_fails X Hws HX). reflexivity.
Qed.
Lemma member_sizeof_missing_open ac n X : wf_prop T n = true -> not_inline_word T n = true -> stops is_ws X = true -> strip_prefix [40] X = None ->
  parse_member_line T false ac (of_string n ++ [32; 61; 32] ++ kw_sizeof T ++ X) = LErr X.
Proof.
  intros Hn Hw Hws HX. rewrite (member_special_head T Hok Hmerged) by assumption. cbn zeta. rewrite skip_ws_sp.
  rewrite skip_ws_kw by apply (kwok_sizeof T Hok).
  rewrite (cf_strip (kw_make_reserved T) (kw_sizeof T)) by (apply (cf_mr_x T Hok); cbn; tauto).
  rewrite strip_prefix_app. rewrite (expect_open_fails X Hws HX). reflexivity.
Qed.
Lemma member_array_missing_open pa ac n X : wf_prop T n = true -> (pa = true \/ not_inline_word T n = true) -> stops is_ws X = true -> strip_prefix [40] X = None ->
  parse_member_line T pa ac (of_string n ++ [32; 61; 32] ++ kw_array T ++ X) = LErr X.
Proof.
  intros Hn Hpa Hws HX. unfold parse_member_line. rewrite Hmerged. cbn [andb].
  destruct (member_head_prop T Hok n ([32; 61; 32] ++ kw_array T ++ X) Hn) as [H1 [H2 H3]]. rewrite H1, H2, H3.
  unfold raw_prop. rewrite lex_class_ok1 by (try exact Hn; reflexivity). rewrite (not_inline_branch pa n Hpa). cbn [app].
  rewrite expect_sp, expect_lit by reflexivity. cbn [lbind].
  assert (Htail : p_field_tail T (32 :: kw_array T ++ X) = LErr X).
  { unfold p_field_tail. cbn [skip_ws]. replace (is_ws 32) with true by reflexivity. rewrite skip_ws_kw by apply (kwok_array T Hok).
    destruct (kw_head (kw_array T) X (kwok_array T Hok)) as [c [Hh Hc]].
    unfold raw_type. rewrite (lex_class_none _ _ _ _ _ c Hh (lower_not_upper c Hc)).
    rewrite (raw_intty_kw T Hok) by (cbn [In]; tauto). rewrite strip_prefix_app. unfold p_array. rewrite (expect_open_fails X Hws HX). reflexivity. }
  rewrite Htail. cbn [lbind]. destruct pa; [reflexivity|]. cbn [skip_ws]. replace (is_ws 32) with true by reflexivity.
  rewrite skip_ws_kw by apply (kwok_array T Hok).
  rewrite (cf_strip (kw_make_reserved T) (kw_array T)) by (apply (cf_mr_x T Hok); cbn; tauto).
  rewrite (cf_strip (kw_sizeof T) (kw_array T)) by (apply (cf_sz_x T Hok); cbn; tauto).
  rewrite (cf_strip (kw_inline_field T) (kw_array T)) by (apply (cf_if_x T Hok); cbn; tauto). reflexivity.
Qed.
Lemma member_const_missing_open ac n X : wf_const T n = true -> stops is_ws X = true -> strip_prefix [40] X = None ->
  parse_member_line T false ac (of_string n ++ [32; 61; 32] ++ kw_make_const T ++ X) = LErr X.
Proof.
  intros Hn Hws HX. unfold parse_member_line. rewrite Hmerged. cbn [andb].
  destruct (const_head T n ([32; 61; 32] ++ kw_make_const T ++ X) Hn) as [c [Hh Hc]].
  rewrite (skip_ws_const T) by exact Hn. rewrite (strip_at_upper c _ Hh Hc).
  pose proof (ph_head (value_placeholder T) [] (ok_value T Hok)) as Hv. rewrite app_nil_r in Hv.
  rewrite (strip_prefix_head (value_placeholder T) _ 95 c Hv Hh) by (intro E; subst; discriminate).
  rewrite (raw_prop_none T c _ Hh (upper_not_lower c Hc)). cbn [negb].
  unfold raw_const. rewrite lex_class_ok1 by (try exact Hn; reflexivity). cbn [app].
  rewrite expect_sp, expect_lit by reflexivity. cbn [lbind]. rewrite expect_sp, expect_kw by apply (kwok_make_const T Hok). cbn [lbind].
  rewrite (expect_open_fails X Hws HX). reflexivity.
Qed.
Lemma alias_buffer_missing_open ac n X : wf_type T n = true -> stops is_ws X = true -> strip_prefix [40] X = None ->
  parse_top_line T None ac (kw_using T ++ [32] ++ of_string n ++ [32; 61; 32] ++ kw_binary_fixed T ++ X) = LErr X.
Proof.
  intros Hn Hws HX. unfold parse_top_line. rewrite Hmerged. cbn [andb].
  destruct (kw_head (kw_using T) ([32] ++ of_string n ++ [32; 61; 32] ++ kw_binary_fixed T ++ X) (kwok_using T Hok)) as [c [Hh Hc]].
  rewrite skip_ws_kw by apply (kwok_using T Hok). rewrite (strip_at_lower c _ Hh Hc).
  rewrite (cf_strip (kw_import T) (kw_using T)) by (apply (cf_import_x T Hok); cbn; tauto).
  rewrite strip_prefix_app. cbn [app]. rewrite tok_sp, (tok_type_ok T) by (try exact Hn; reflexivity). cbn [lbind].
  rewrite expect_sp, expect_lit by reflexivity. cbn [lbind]. rewrite skip_ws_sp, skip_ws_kw by apply (kwok_binary_fixed T Hok).
  assert (Hno : raw_intty T (kw_binary_fixed T ++ X) = None).
  { unfold raw_intty. pose proof (ok_cf_alias T Hok) as Hpw. cbn [pw_cf int_heads forallb] in Hpw.
    apply andb_true_iff in Hpw as [Hf _]. apply andb_true_iff in Hf as [H1 Hf]. apply andb_true_iff in Hf as [H2 _].
    rewrite (cf_strip _ _ _ ltac:(rewrite cf_sym; exact H1)), (cf_strip _ _ _ ltac:(rewrite cf_sym; exact H2)). reflexivity. }
  rewrite Hno, expect_sp, expect_kw by apply (kwok_binary_fixed T Hok). cbn [lbind]. rewrite (expect_open_fails X Hws HX). reflexivity.
Qed.

(* --- the closing parenthesis of an attribute deleted (attributes with a fixed number of arguments) *)
Lemma attr_args_missing_close st ctx a k :
  attr_kind T ctx (of_string (at_name a)) = Some k -> wf_attr T ctx a = true -> k <> AkZero -> k <> AkMulti -> k <> AkTransform ->
  exists body, attr_args T st ctx a = body ++ [41] /\ p_attr_args T k body = LErr [].
Proof.
  intros Hk Hwf Hz Hm Ht. unfold wf_attr in Hwf. unfold attr_args. rewrite Hk in *. destruct a as [name vals]. cbn [at_values at_name] in *.
  assert (Hclose : forall A (v : A), (let* (_, r) := expect [41] [] in finish v r) = LErr []) by reflexivity.
  destruct k; try contradiction.
  - (* alignment *)
    destruct vals as [|v1 vals]; [discriminate|]. destruct v1 as [n|?|]; try discriminate.
    destruct vals as [|neg vals]; [discriminate|]. destruct vals as [|opt vals]; [destruct neg; discriminate|].
    destruct vals as [|x vals]; [|destruct neg, opt; discriminate].
    destruct opt as [?|o|].
    + destruct neg as [|?|]; discriminate.
    + assert (Hn : 0 <= n /\ In (of_string o) (alignment_option T) /\
                   match neg with AvNone => True | AvStr g => of_string g = negation T | AvNum _ => False end).
      { destruct neg as [?|g|]; apply andb_true_iff in Hwf as [Hwf H3]; try discriminate; apply andb_true_iff in Hwf as [H1 H2];
          apply Z.leb_le in H1; apply mem_In in H2; repeat split; auto. apply list_eqb_eq. exact H3. }
      destruct Hn as [Hn [Ho Hneg]].
      destruct (option_head T Hok (of_string o) [] Ho) as [c [Hh Hc]].
      assert (Hopt : forall g, (let* (o0, r2) := tok (first_prefix (alignment_option T)) (of_string o ++ []) in
                                LOk [AvNum n; g; AvStr (to_str o0)] r2) = LOk [AvNum n; g; AvStr o] []).
      { intro g. rewrite (tok_at _ _ c (of_string o) [] Hh (lower_not_ws c Hc))
          by (apply first_prefix_in; [exact (pw_cf_app_r [negation T] _ (ok_cf_align T Hok))|exact Ho]).
        cbn [lbind]. rewrite to_str_of_string. reflexivity. }
      destruct neg as [?|g|]; [contradiction| |].
      * exists ([40] ++ r_num T st n ++ [44; 32] ++ (of_string g ++ [32]) ++ of_string o). split; [cbn [r_avalue]; rewrite <- !app_assoc; reflexivity|].
        unfold p_attr_args. cbn [app]. rewrite expect_lit by reflexivity. cbn [lbind]. rewrite <- !app_assoc. cbn [app].
        rewrite (tok_number_ok T Hok) by (try exact Hn; reflexivity). cbn [lbind]. rewrite strip44_comma, skip_ws_sp.
        rewrite Hneg. rewrite skip_ws_kw by apply (kwok_negation T Hok). rewrite strip_prefix_app.
        rewrite tok_sp. rewrite <- (app_nil_r (of_string o)). rewrite Hopt. apply Hclose.
      * exists ([40] ++ r_num T st n ++ [44; 32] ++ of_string o). split; [cbn [r_avalue app]; rewrite <- !app_assoc; reflexivity|].
        unfold p_attr_args. cbn [app]. rewrite expect_lit by reflexivity. cbn [lbind].
        rewrite (tok_number_ok T Hok) by (try exact Hn; reflexivity). cbn [lbind]. rewrite strip44_comma, skip_ws_sp.
        rewrite <- (app_nil_r (of_string o)). rewrite (skip_ws_head c _ Hh (lower_not_ws c Hc)).
        rewrite cf_strip.
        2:{ pose proof (ok_cf_align T Hok) as Hpw. cbn [pw_cf] in Hpw. apply andb_true_iff in Hpw as [Hpw _].
            rewrite forallb_forall in Hpw. apply Hpw. exact Ho. }
        rewrite Hopt. apply Hclose.
    + destruct neg as [?|?|]; try discriminate. apply Z.leb_le in Hwf.
      exists ([40] ++ r_num T st n). split; [cbn [r_avalue app]; rewrite app_nil_r; reflexivity|].
      unfold p_attr_args. cbn [app]. rewrite expect_lit by reflexivity. cbn [lbind]. rewrite <- (app_nil_r (r_num T st n)).
      rewrite (tok_number_ok T Hok) by (try exact Hwf; reflexivity). reflexivity.
  - (* single *)
    destruct vals as [|[?|p|] [|? ?]]; try discriminate.
    exists ([40] ++ of_string p). split; [reflexivity|].
    unfold p_attr_args. cbn [app]. rewrite expect_lit by reflexivity. cbn [lbind]. rewrite <- (app_nil_r (of_string p)).
    rewrite (tok_prop_ok T) by (try exact Hwf; reflexivity). reflexivity.
  - (* sizeref *)
    destruct vals as [|[?|p|] [|[n|?|] [|? ?]]]; try discriminate.
    + exists ([40] ++ of_string p). split; [reflexivity|].
      unfold p_attr_args. cbn [app]. rewrite expect_lit by reflexivity. cbn [lbind]. rewrite <- (app_nil_r (of_string p)).
      rewrite (tok_prop_ok T) by (try exact Hwf; reflexivity). reflexivity.
    + apply andb_true_iff in Hwf as [Hp Hn]. apply Z.leb_le in Hn.
      exists ([40] ++ of_string p ++ [44; 32] ++ r_num T st n). split; [cbn [map]; rewrite join_cons2; cbn [join r_avalue]; rewrite <- !app_assoc; reflexivity|].
      unfold p_attr_args. cbn [app]. rewrite expect_lit by reflexivity. cbn [lbind].
      rewrite (tok_prop_ok T) by (try exact Hp; reflexivity). cbn [lbind]. rewrite strip44_comma.
      rewrite tok_sp. rewrite <- (app_nil_r (r_num T st n)). rewrite (tok_number_ok T Hok) by (try exact Hn; reflexivity). reflexivity.
  - (* two *)
    destruct vals as [|[?|p|] [|[?|c|] [|? ?]]]; try discriminate.
    apply andb_true_iff in Hwf as [Hp Hc].
    exists ([40] ++ of_string p ++ [44; 32] ++ of_string c). split; [cbn [map]; rewrite join_cons2; cbn [join r_avalue]; rewrite <- !app_assoc; reflexivity|].
    unfold p_attr_args. cbn [app]. rewrite expect_lit by reflexivity. cbn [lbind].
    rewrite (tok_prop_ok T) by (try exact Hp; reflexivity). cbn [lbind]. rewrite expect_lit by reflexivity. cbn [lbind].
    rewrite tok_sp. rewrite <- (app_nil_r (of_string c)). rewrite (tok_const_ok T) by (try exact Hc; reflexivity). reflexivity.
Qed.

Definition fixed_arity (k : akind) : bool := match k with AkAlignment | AkSingle | AkSizeref | AkTwo => true | _ => false end.
Lemma fixed_arity_neq k : fixed_arity k = true -> k <> AkZero /\ k <> AkMulti /\ k <> AkTransform.
Proof. destruct k; try discriminate; intros _; repeat split; discriminate. Qed.

Lemma r_attr_open st ctx a k : attr_kind T ctx (of_string (at_name a)) = Some k -> wf_attr T ctx a = true -> fixed_arity k = true ->
  exists body, removelast (r_attr T st ctx a) = 64 :: of_string (at_name a) ++ body /\ r_attr T st ctx a = (64 :: of_string (at_name a) ++ body) ++ [41]
    /\ p_attr_args T k body = LErr [].
Proof.
  intros Hk Hwf Hf. destruct (fixed_arity_neq k Hf) as [Hz [Hm Ht]].
  destruct (attr_args_missing_close st ctx a k Hk Hwf Hz Hm Ht) as [body [E Hp]]. exists body.
  assert (Er : r_attr T st ctx a = (64 :: of_string (at_name a) ++ body) ++ [41]).
  { rewrite (r_attr_eq T), E. cbn [app]. rewrite <- !app_assoc. reflexivity. }
  split; [rewrite Er; apply removelast_last|]. split; [exact Er|exact Hp].
Qed.

Lemma top_attr_missing_close pending ctx ac name k body : ctx_ok pending ctx = true -> attr_kind T ctx name = Some k -> p_attr_args T k body = LErr [] ->
  parse_top_line T pending ac (64 :: name ++ body) = LErr [].
Proof.
  intros Hctx Hk Hp. destruct (attr_kind_in T _ _ _ Hk) as [names [Hin Hn]].
  unfold parse_top_line. rewrite Hmerged. cbn [andb skip_ws]. replace (is_ws 64) with false by reflexivity.
  cbn [strip_prefix]. replace (64 =? 64) with true by reflexivity. unfold p_attr.
  rewrite skip_ws_kw by (eapply (attr_name_kw T Hok); exact Hk).
  rewrite (find_attr_ok _ ctx k names) by (try apply (pw_names T Hok); try exact Hn; eapply (tables_incl T); eassumption).
  rewrite Hp. reflexivity.
Qed.
Lemma member_attr_missing_close pa ac name k body : attr_kind T CField name = Some k -> p_attr_args T k body = LErr [] ->
  parse_member_line T pa ac (64 :: name ++ body) = LErr [].
Proof.
  intros Hk Hp. destruct (attr_kind_in T _ _ _ Hk) as [names [Hin Hn]].
  unfold parse_member_line. rewrite Hmerged. cbn [andb skip_ws]. replace (is_ws 64) with false by reflexivity.
  cbn [strip_prefix]. replace (64 =? 64) with true by reflexivity. unfold p_attr.
  rewrite skip_ws_kw by (eapply (attr_name_kw T Hok); exact Hk).
  rewrite (find_attr_ok _ CField k names) by (try apply (pw_names T Hok); assumption). rewrite Hp. reflexivity.
Qed.

End Ops.

(* ------------------------------------------------------------------------------------------------------------------ *)
(* corruption operators on documents, at every site of their kind *)
Ltac len_tac := unfold len; repeat (first [rewrite !app_length | progress cbn [length]]); clear; lia.

Section DocOps.
Hypothesis Hmerged : comment_merged T = false.
Variable st : style.
Hypothesis Hst : wf_style st = true.
Hypothesis Hcr : cr_ok T (style_cr st).
Let ind : list Z := st_indent st.

Definition rejected_at (text : list Z) (line col : Z) : Prop :=
  parse_with T text = Error {| e_line := line; e_col := col; e_kind := EToken |}.
Definition replaced (ds : list item) (k : nat) (c' : list Z) : list Z := text_of (style_cr st) (replace_stmt k c' (tlines T st ds)).

Lemma wf_member pre s post fs1 f fs2 : wf_doc_with T (pre ++ IDecl (DStruct s) :: post) = true -> s_fields s = fs1 ++ f :: fs2 -> wf_field T f = true.
Proof.
  intros Hwf Hs. destruct (wf_split_item pre _ post Hwf) as [_ [_ Hit]]. cbn [wf_item] in Hit.
  destruct (wf_struct_parts s Hit) as [_ [_ [_ Hf]]]. rewrite Hs, forallb_app in Hf. apply andb_true_iff in Hf as [_ Hf].
  cbn [forallb] in Hf. apply andb_true_iff in Hf as [Hf _]. exact Hf.
Qed.

Lemma ind_ok : ws_only ind = true.
Proof. apply (wf_style_ind st Hst). Qed.

Lemma pline_ok_ind c : head_stmt c = true -> plainc c = true -> pline_ok (PStmt ind c) = true.
Proof. intros H1 H2. cbn [pline_ok]. rewrite ind_ok, H1, H2. reflexivity. Qed.

(* [C11] deleted operand: the line of ANY member `name = ...` of ANY struct cut after the `=` *)
Theorem member_deleted_operand_doc pre s post fs1 f fs2 n :
  wf_doc_with T (pre ++ IDecl (DStruct s) :: post) = true -> s_fields s = fs1 ++ f :: fs2 -> field_name f = Some n ->
  let ds := pre ++ IDecl (DStruct s) :: post in let k := member_line st pre s fs1 f in let c' := of_string n ++ [32; 61] in
  nth_error (tlines T st ds) k = Some (PStmt ind (r_field T st f))
  /\ rejected_at (replaced ds k c') (1 + Z.of_nat k) (len ind + 1 + len c').
Proof.
  intros Hwf Hs Hname ds k c'. pose proof (wf_member pre s post fs1 f fs2 Hwf Hs) as Hf.
  destruct (plainc_field_name f n Hf Hname) as [Hp Hh].
  assert (Hc' : pline_ok (PStmt ind c') = true) by (apply pline_ok_ind; [exact Hh|subst c'; rewrite plainc_app, Hp; reflexivity]).
  destruct (member_line_replaced Hmerged st Hst Hcr pre s post fs1 f fs2 c' [] Hwf Hs Hc'
              (fun ac => member_deleted_operand Hmerged ac f n Hf Hname)) as [H1 H2].
  split; [exact H1|]. unfold rejected_at, replaced. subst ds k. unfold ind. rewrite H2. f_equal. f_equal. len_tac.
Qed.

(* [C11] deleted operand: the line of ANY value of ANY enum cut after the `=` *)
Theorem value_deleted_operand_doc pre n b vals attrs c post vs1 v vs2 :
  wf_doc_with T (pre ++ IDecl (DEnum n b vals attrs c) :: post) = true -> vals = vs1 ++ v :: vs2 ->
  let ds := pre ++ IDecl (DEnum n b vals attrs c) :: post in let k := value_line st pre n b attrs c vs1 v in let c' := of_string (ev_name v) ++ [32; 61] in
  nth_error (tlines T st ds) k = Some (PStmt ind (r_value T st v))
  /\ rejected_at (replaced ds k c') (1 + Z.of_nat k) (len ind + 1 + len c').
Proof.
  intros Hwf Hs ds k c'. destruct (wf_split_item pre _ post Hwf) as [_ [_ Hit]]. cbn [wf_item wf_decl] in Hit.
  apply andb_true_iff in Hit as [H _]. apply andb_true_iff in H as [H _]. apply andb_true_iff in H as [_ Hv].
  rewrite Hs, forallb_app in Hv. apply andb_true_iff in Hv as [_ Hv]. cbn [forallb] in Hv. apply andb_true_iff in Hv as [Hv _].
  unfold wf_value in Hv. apply andb_true_iff in Hv as [Hv _]. apply andb_true_iff in Hv as [Hn _].
  assert (Hc' : pline_ok (PStmt ind c') = true).
  { apply pline_ok_ind; [|subst c'; rewrite plainc_app, (plainc_const T Hok _ Hn); reflexivity].
    destruct (const_head T (ev_name v) [32; 61] Hn) as [x [Hh Hx]]. apply (head_stmt_upper T Hok x _ Hh Hx). }
  destruct (value_line_replaced Hmerged st Hst Hcr pre n b vals attrs c post vs1 v vs2 c' [] Hwf Hs Hc' (value_deleted_operand _ Hn)) as [H1 H2].
  split; [exact H1|]. unfold rejected_at, replaced. subst ds k. unfold ind. rewrite H2. f_equal. f_equal. len_tac.
Qed.

(* [C11] constant name in lower case (or any other content that starts with a lower-case letter) in place of ANY value line of ANY enum *)
Theorem value_lower_case_doc pre n b vals attrs c post vs1 v vs2 c' h :
  wf_doc_with T (pre ++ IDecl (DEnum n b vals attrs c) :: post) = true -> vals = vs1 ++ v :: vs2 ->
  head_is h c' = true -> is_lower h = true -> plainc c' = true ->
  let ds := pre ++ IDecl (DEnum n b vals attrs c) :: post in let k := value_line st pre n b attrs c vs1 v in
  nth_error (tlines T st ds) k = Some (PStmt ind (r_value T st v))
  /\ rejected_at (replaced ds k c') (1 + Z.of_nat k) (len ind + 1).
Proof.
  intros Hwf Hs Hh Hl Hp ds k.
  assert (Hc' : pline_ok (PStmt ind c') = true) by (apply pline_ok_ind; [apply (head_stmt_lower T Hok h _ Hh Hl)|exact Hp]).
  destruct (value_line_replaced Hmerged st Hst Hcr pre n b vals attrs c post vs1 v vs2 c' c' Hwf Hs Hc' (value_lower_rejected c' h Hh Hl)) as [H1 H2].
  split; [exact H1|]. unfold rejected_at, replaced. subst ds k. unfold ind. rewrite H2. f_equal. f_equal. clear. lia.
Qed.

(* the name of a plain member is the placeholder, or a property name that is not the word `inline` unless attributes precede *)
Lemma plain_member_name n ty v attrs c : wf_field T (Field n ty v DispNone attrs c) = true ->
  of_string n = value_placeholder T
  \/ (wf_prop T n = true /\ (has_attrs (Field n ty v DispNone attrs c) = true \/ not_inline_word T n = true)).
Proof.
  cbn [wf_field]. intro H. apply andb_true_iff in H as [_ H]. apply andb_true_iff in H as [H _]. apply andb_true_iff in H as [H _].
  apply andb_true_iff in H as [Hname _]. apply orb_true_iff in Hname as [Hvp|Hname]; [left; apply list_eqb_eq; exact Hvp|right].
  apply andb_true_iff in Hname as [Hn Hw]. split; [exact Hn|]. apply orb_true_iff in Hw as [Hw|Hw]; [right; exact Hw|left].
  unfold has_attrs. cbn [field_attrs]. destruct attrs; [reflexivity|discriminate].
Qed.

(* [C11] unsupported width on ANY member `name = [u]intW` (also `__value__ = [u]intW`) of ANY struct, with the column of the type *)
Theorem member_width_doc wd pre s post fs1 n i attrs c fs2 :
  forallb (fun x => negb (is_prefix x wd)) (int_widths T) = true -> plainc wd = true ->
  wf_doc_with T (pre ++ IDecl (DStruct s) :: post) = true -> s_fields s = fs1 ++ Field n (FInt i) VNone DispNone attrs c :: fs2 ->
  let f := Field n (FInt i) VNone DispNone attrs c in
  let ds := pre ++ IDecl (DStruct s) :: post in let k := member_line st pre s fs1 f in
  nth_error (tlines T st ds) k = Some (PStmt ind (r_field T st f))
  /\ rejected_at (replaced ds k (of_string n ++ [32; 61; 32] ++ int_prefix T i ++ wd)) (1 + Z.of_nat k) (len ind + 1 + len (of_string n) + 3).
Proof.
  intros Hw Hp Hwf Hs f ds k. pose proof (wf_member pre s post fs1 f fs2 Hwf Hs) as Hf.
  set (c' := of_string n ++ [32; 61; 32] ++ int_prefix T i ++ wd).
  destruct (plainc_field_name f n Hf eq_refl) as [Hpn Hh].
  assert (Hc' : pline_ok (PStmt ind c') = true).
  { apply pline_ok_ind; [|subst c'; rewrite !plainc_app, Hpn, (plainc_int_prefix T Hok), Hp; reflexivity].
    subst c'. destruct (of_string n) as [|x r]; [discriminate|]. exact Hh. }
  assert (Hbad : forall ac, parse_member_line T (has_attrs f) ac c' = LErr (int_prefix T i ++ wd)).
  { intro ac. destruct (plain_member_name n (FInt i) VNone attrs c Hf) as [Hvp|[Hn Hpa]].
    - subst c'. rewrite Hvp. apply (member_value_bad_width_at Hmerged wd Hw).
    - apply (member_bad_width_at Hmerged wd Hw); assumption. }
  destruct (member_line_replaced Hmerged st Hst Hcr pre s post fs1 f fs2 c' _ Hwf Hs Hc' Hbad) as [H1 H2].
  split; [exact H1|]. unfold rejected_at, replaced. subst ds k. unfold ind. rewrite H2. f_equal. f_equal. subst c'. len_tac.
Qed.

Lemma enum_item_lines n b vals attrs c : item_tlines T st (IDecl (DEnum n b vals attrs c))
  = comment_tlines [] c ++ map (PStmt []) (map (r_attr T st CEnum) (attrs_list attrs))
    ++ PStmt [] (r_enum_header T n b) :: (flat_map (value_tlines T st) vals ++ blanks (st_blank_top st)).
Proof. unfold item_tlines. cbn [decl_tlines]. rewrite r_attrs_list, <- !app_assoc. reflexivity. Qed.

Lemma struct_item_lines s as1 as2 : attrs_list (s_attrs s) = as1 ++ as2 -> item_tlines T st (IDecl (DStruct s))
  = comment_tlines [] (s_comment s) ++ map (PStmt []) (map (r_attr T st CStruct) as1)
    ++ map (PStmt []) (map (r_attr T st CStruct) as2) ++ PStmt [] (r_struct_header T (s_disp s) (s_name s))
       :: (flat_map (member_tlines T st) (s_fields s) ++ blanks (st_blank_top st)).
Proof. intro E. unfold item_tlines. cbn [decl_tlines]. rewrite r_attrs_list, E, !map_app, <- !app_assoc. reflexivity. Qed.

(* [C11] unsupported width on the header `enum Name : [u]intW` of ANY enum, with the column of the type *)
Theorem enum_header_width_doc wd pre n b vals attrs c post :
  forallb (fun x => negb (is_prefix x wd)) (int_widths T) = true -> plainc wd = true ->
  wf_doc_with T (pre ++ IDecl (DEnum n b vals attrs c) :: post) = true ->
  let ds := pre ++ IDecl (DEnum n b vals attrs c) :: post in let k := length (top_prefix st pre c CEnum (attrs_list attrs)) in
  let head := kw_enum T ++ [32] ++ of_string n ++ [32; 58; 32] in
  nth_error (tlines T st ds) k = Some (PStmt [] (r_enum_header T n b))
  /\ rejected_at (replaced ds k (head ++ int_prefix T b ++ wd)) (1 + Z.of_nat k) (1 + len head).
Proof.
  intros Hw Hp Hwf ds k head. destruct (wf_split_item pre _ post Hwf) as [_ [_ Hit]]. cbn [wf_item wf_decl] in Hit.
  apply andb_true_iff in Hit as [H Hc]. apply andb_true_iff in H as [H Ha]. apply andb_true_iff in H as [H _]. apply andb_true_iff in H as [Hn _].
  set (c' := kw_enum T ++ [32] ++ of_string n ++ [32; 58; 32] ++ int_prefix T b ++ wd).
  assert (Hc' : pline_ok (PStmt [] c') = true).
  { cbn [pline_ok ws_only forallb andb]. subst c'. rewrite (head_stmt_kw T Hok _ _ (kwok_enum T Hok)).
    rewrite !plainc_app, (plainc_kw T Hok _ (kwok_enum T Hok)), (plainc_type T Hok n Hn), (plainc_int_prefix T Hok), Hp. reflexivity. }
  destruct (top_line_replaced Hmerged st Hst Hcr pre _ post c CEnum (attrs_list attrs) _ _ c' (int_prefix T b ++ wd) Hwf ltac:(discriminate)
              (enum_item_lines n b vals attrs c) Hc (wf_attrs_list T CEnum _ Ha) Hc'
              (fun ac => enum_header_bad_width Hmerged wd Hw _ ac n b (pa_enum_ok_of _) Hn)) as [H1 H2].
  split; [exact H1|]. unfold rejected_at, replaced. subst ds k. unfold ind.
  replace (head ++ int_prefix T b ++ wd) with c' by (subst c' head; rewrite <- !app_assoc; reflexivity).
  rewrite H2. f_equal. f_equal. subst c' head. len_tac.
Qed.

(* [C11] unknown condition operator on ANY member `name = type if VALUE operator link` (name a property name) of ANY struct:
   anything that does not start with a condition operator in place of `operator link` *)
Theorem member_condition_operator_doc bad pre s post fs1 n ty cnd attrs c fs2 :
  first_prefix (cond_ops T) bad = None -> stops is_ws bad = true -> plainc bad = true -> wf_prop T n = true ->
  wf_doc_with T (pre ++ IDecl (DStruct s) :: post) = true -> s_fields s = fs1 ++ Field n ty (VCond cnd) DispNone attrs c :: fs2 ->
  let f := Field n ty (VCond cnd) DispNone attrs c in
  let ds := pre ++ IDecl (DStruct s) :: post in let k := member_line st pre s fs1 f in
  let head := of_string n ++ [32; 61; 32] ++ r_ftype T st ty ++ [32] ++ kw_if T ++ [32] ++ cv_text st (c_value cnd) ++ [32] in
  nth_error (tlines T st ds) k = Some (PStmt ind (r_field T st f))
  /\ rejected_at (replaced ds k (head ++ bad)) (1 + Z.of_nat k) (len ind + 1 + len head).
Proof.
  intros Hbad Hws Hp Hn Hwf Hs f ds k head. pose proof (wf_member pre s post fs1 f fs2 Hwf Hs) as Hf.
  destruct (plain_member_name n ty (VCond cnd) attrs c Hf) as [Hvp|[_ Hpa]].
  { exfalso. destruct (prop_head T n [] Hn) as [x [Hh Hx]]. rewrite app_nil_r, Hvp in Hh.
    pose proof (ph_head (value_placeholder T) [] (ok_value T Hok)) as H95. rewrite app_nil_r in H95.
    destruct (value_placeholder T) as [|y r]; [discriminate|]. cbn [head_is] in Hh, H95. apply Z.eqb_eq in Hh, H95. subst. discriminate. }
  pose proof Hf as Hf'. cbn [wf_field] in Hf'. apply andb_true_iff in Hf' as [_ H]. apply andb_true_iff in H as [H _]. apply andb_true_iff in H as [H Hv].
  apply andb_true_iff in H as [_ Hty]. fold (wf_plain_type T ty) in Hty.
  unfold wf_cond in Hv. apply andb_true_iff in Hv as [Hv _]. apply andb_true_iff in Hv as [Hcv _]. fold (wf_cv (c_value cnd)) in Hcv.
  set (c' := of_string n ++ [32; 61; 32] ++ r_ftype T st ty ++ [32] ++ kw_if T ++ [32] ++ cv_text st (c_value cnd) ++ [32] ++ bad).
  assert (Hpcv : plainc (cv_text st (c_value cnd)) = true).
  { destruct (c_value cnd) as [x|x]; cbn [cv_text wf_cv] in *; [apply (plainc_num T Hok); apply Z.leb_le; exact Hcv|apply (plainc_const T Hok); exact Hcv]. }
  assert (Hc' : pline_ok (PStmt ind c') = true).
  { apply pline_ok_ind.
    - destruct (prop_head T n ([32; 61; 32] ++ r_ftype T st ty ++ [32] ++ kw_if T ++ [32] ++ cv_text st (c_value cnd) ++ [32] ++ bad) Hn) as [x [Hh Hx]].
      apply (head_stmt_lower T Hok x _ Hh Hx).
    - subst c'. rewrite !plainc_app, (plainc_prop T Hok n Hn), (plainc_ftype T Hok st ty Hty), (plainc_kw T Hok _ (kwok_if T Hok)), Hpcv, Hp. reflexivity. }
  destruct (member_line_replaced Hmerged st Hst Hcr pre s post fs1 f fs2 c' bad Hwf Hs Hc'
              (fun ac => member_bad_condition_operator Hmerged st _ ac n ty (c_value cnd) bad Hn Hpa Hty Hcv Hbad Hws)) as [H1 H2].
  split; [exact H1|]. unfold rejected_at, replaced. subst ds k. unfold ind.
  replace (head ++ bad) with c' by (subst c' head; rewrite <- !app_assoc; reflexivity).
  rewrite H2. f_equal. f_equal. subst c' head. len_tac.
Qed.

(* [C11] unknown attribute in place of ANY attribute line of ANY member of ANY struct, with the column of the name *)
Theorem member_attribute_unknown_doc r pre s post fs1 f fs2 as1 a as2 :
  find_attr (attr_tables T (Some CField)) r = None -> stops is_ws r = true -> plainc r = true ->
  wf_doc_with T (pre ++ IDecl (DStruct s) :: post) = true -> s_fields s = fs1 ++ f :: fs2 -> field_attrs f = Some (as1 ++ a :: as2) ->
  let ds := pre ++ IDecl (DStruct s) :: post in let k := member_attr_line st pre s fs1 f as1 in
  nth_error (tlines T st ds) k = Some (PStmt ind (r_attr T st CField a))
  /\ rejected_at (replaced ds k (64 :: r)) (1 + Z.of_nat k) (len ind + 2).
Proof.
  intros Hf Hws Hp Hwf Hs Ha ds k.
  assert (Hc' : pline_ok (PStmt ind (64 :: r)) = true) by (apply pline_ok_ind; [reflexivity|cbn [plainc forallb]; exact Hp]).
  destruct (member_attr_line_replaced Hmerged st Hst Hcr pre s post fs1 f fs2 as1 a as2 (64 :: r) r Hwf Hs Ha Hc'
              (fun ac => member_attr_unknown Hmerged _ ac r Hf Hws)) as [H1 H2].
  split; [exact H1|]. unfold rejected_at, replaced. subst ds k. unfold ind. rewrite H2. f_equal. f_equal. len_tac.
Qed.

(* [C11] wrong arity: an argument list after ANY member attribute that takes no arguments, with the column of the parenthesis *)
Theorem member_attribute_arity_doc X pre s post fs1 f fs2 as1 a as2 :
  attr_kind T CField (of_string (at_name a)) = Some AkZero -> plainc X = true ->
  wf_doc_with T (pre ++ IDecl (DStruct s) :: post) = true -> s_fields s = fs1 ++ f :: fs2 -> field_attrs f = Some (as1 ++ a :: as2) ->
  let ds := pre ++ IDecl (DStruct s) :: post in let k := member_attr_line st pre s fs1 f as1 in
  nth_error (tlines T st ds) k = Some (PStmt ind (r_attr T st CField a))
  /\ rejected_at (replaced ds k (64 :: of_string (at_name a) ++ 40 :: X)) (1 + Z.of_nat k) (len ind + 2 + len (of_string (at_name a))).
Proof.
  intros Hk Hp Hwf Hs Ha ds k.
  assert (Hc' : pline_ok (PStmt ind (64 :: of_string (at_name a) ++ 40 :: X)) = true).
  { apply pline_ok_ind; [reflexivity|]. cbn [plainc forallb]. fold (plainc (of_string (at_name a) ++ 40 :: X)).
    rewrite plainc_app, (plainc_kw T Hok _ (attr_name_kw T Hok _ _ _ Hk)). cbn [plainc forallb]. exact Hp. }
  destruct (member_attr_line_replaced Hmerged st Hst Hcr pre s post fs1 f fs2 as1 a as2 _ (40 :: X) Hwf Hs Ha Hc'
              (fun ac => member_attr_zero_args Hmerged _ ac _ X Hk)) as [H1 H2].
  split; [exact H1|]. unfold rejected_at, replaced. subst ds k. unfold ind. rewrite H2. f_equal. f_equal. len_tac.
Qed.

(* [C11] unknown attribute in place of ANY attribute line of ANY struct, with the column of the name *)
Theorem struct_attribute_unknown_doc r pre s post as1 a as2 :
  find_attr (attr_tables T (pa_ctx (pa_of CStruct as1))) r = None -> stops is_ws r = true -> plainc r = true ->
  wf_doc_with T (pre ++ IDecl (DStruct s) :: post) = true -> s_attrs s = Some (as1 ++ a :: as2) ->
  let ds := pre ++ IDecl (DStruct s) :: post in let k := length (top_prefix st pre (s_comment s) CStruct as1) in
  nth_error (tlines T st ds) k = Some (PStmt [] (r_attr T st CStruct a))
  /\ rejected_at (replaced ds k (64 :: r)) (1 + Z.of_nat k) 2.
Proof.
  intros Hf Hws Hp Hwf Ha ds k. destruct (wf_split_item pre _ post Hwf) as [_ [_ Hit]]. cbn [wf_item] in Hit.
  destruct (wf_struct_parts s Hit) as [_ [Hc [Hattrs _]]].
  assert (Hal : attrs_list (s_attrs s) = as1 ++ a :: as2) by (rewrite Ha; reflexivity).
  pose proof (wf_attrs_list T CStruct _ Hattrs) as Hall. rewrite Hal, forallb_app in Hall. apply andb_true_iff in Hall as [Has1 _].
  assert (Hc' : pline_ok (PStmt [] (64 :: r)) = true) by (cbn [pline_ok ws_only forallb andb head_stmt plainc]; exact Hp).
  pose proof (struct_item_lines s as1 (a :: as2) Hal) as E. cbn [map app] in E.
  destruct (top_line_replaced Hmerged st Hst Hcr pre _ post (s_comment s) CStruct as1 _ _ (64 :: r) r Hwf ltac:(discriminate) E Hc Has1 Hc'
              (fun ac => top_attr_unknown Hmerged _ ac r Hf Hws)) as [H1 H2].
  split; [exact H1|]. unfold rejected_at, replaced. subst ds k. unfold ind. rewrite H2. f_equal. f_equal. len_tac.
Qed.

(* --- the statement lines of top-level items: attribute lines and the keyword line (`using`, `enum`, `struct`, `import`) *)
Definition item_ctx (it : item) : actx := match it with IDecl (DEnum _ _ _ _ _) => CEnum | _ => CStruct end.
Definition item_attr_list (it : item) : list attribute :=
  match it with IDecl (DEnum _ _ _ attrs _) => attrs_list attrs | IDecl (DStruct s) => attrs_list (s_attrs s) | _ => [] end.
Definition keyword_text (it : item) : list Z :=
  match it with
  | IDecl (DAlias n l _) => r_alias T st n l
  | IDecl (DEnum n b _ _ _) => r_enum_header T n b
  | IDecl (DStruct s) => r_struct_header T (s_disp s) (s_name s)
  | IImport p => r_import T p
  | IComment _ => []
  end.
Definition keyword_line (pre : list item) (it : item) : nat := length (top_prefix st pre (item_comment it) (item_ctx it) (item_attr_list it)).
Definition attribute_line (pre : list item) (it : item) (as1 : list attribute) : nat := length (top_prefix st pre (item_comment it) (item_ctx it) as1).

Lemma item_ctx_top it : item_ctx it <> CField.
Proof. destruct it as [[| |]| |]; discriminate. Qed.

Lemma item_lines_split it as1 as2 : wf_item T it = true -> (forall c, it <> IComment c) -> item_attr_list it = as1 ++ as2 ->
  exists rest0, item_tlines T st it = comment_tlines [] (item_comment it) ++ map (PStmt []) (map (r_attr T st (item_ctx it)) as1)
                                      ++ map (PStmt []) (map (r_attr T st (item_ctx it)) as2) ++ PStmt [] (keyword_text it) :: rest0
  /\ wf_comment T (item_comment it) = true /\ forallb (wf_attr T (item_ctx it)) (as1 ++ as2) = true.
Proof.
  intros Hwf Hnc E. destruct it as [d|p|c0]; [| |exfalso; eapply Hnc; reflexivity].
  - destruct d as [n l c|n b vals attrs c|s]; cbn [item_ctx item_attr_list keyword_text item_comment decl_comment wf_item wf_decl] in *.
    + destruct as1; [|discriminate]. destruct as2; [|discriminate]. eexists. split; [unfold item_tlines; cbn [decl_tlines map app]; rewrite <- app_assoc; reflexivity|].
      apply andb_true_iff in Hwf as [H _]. apply andb_true_iff in H as [_ H]. split; [exact H|reflexivity].
    + apply andb_true_iff in Hwf as [H Hc]. apply andb_true_iff in H as [H Ha]. eexists. split; [|split; [exact Hc|rewrite <- E; apply (wf_attrs_list T); exact Ha]].
      rewrite enum_item_lines, E, !map_app, <- !app_assoc. reflexivity.
    + destruct (wf_struct_parts s Hwf) as [_ [Hc [Ha _]]]. eexists. split; [|split; [exact Hc|rewrite <- E; apply (wf_attrs_list T); exact Ha]].
      apply struct_item_lines. exact E.
  - cbn [item_attr_list] in E. destruct as1; [|discriminate]. destruct as2; [|discriminate]. eexists. split; [reflexivity|]. split; reflexivity.
Qed.

(* [C11] the keyword line of ANY top-level item (alias, import, enum header, struct header -- also after attribute lines) replaced *)
Theorem keyword_line_replaced pre it post c' sfx :
  wf_doc_with T (pre ++ it :: post) = true -> (forall c, it <> IComment c) -> pline_ok (PStmt [] c') = true ->
  (forall ac, parse_top_line T (pa_ctx (pa_of (item_ctx it) (item_attr_list it))) ac c' = LErr sfx) ->
  let ds := pre ++ it :: post in let k := keyword_line pre it in
  nth_error (tlines T st ds) k = Some (PStmt [] (keyword_text it))
  /\ rejected_at (replaced ds k c') (1 + Z.of_nat k) (1 + len c' - len sfx).
Proof.
  intros Hwf Hnc Hc' Hbad ds k. destruct (wf_split_item pre it post Hwf) as [_ [_ Hit]].
  destruct (item_lines_split it (item_attr_list it) [] Hit Hnc (eq_sym (app_nil_r _))) as [rest0 [E [Hc Ha]]]. cbn [map app] in E. rewrite app_nil_r in Ha.
  exact (top_line_replaced Hmerged st Hst Hcr pre it post _ _ _ _ rest0 c' sfx Hwf (item_ctx_top it) E Hc Ha Hc' Hbad).
Qed.

(* [C11] ANY attribute line of ANY enum or struct replaced *)
Theorem attribute_line_replaced pre it post as1 a as2 c' sfx :
  wf_doc_with T (pre ++ it :: post) = true -> item_attr_list it = as1 ++ a :: as2 -> pline_ok (PStmt [] c') = true ->
  (forall ac, parse_top_line T (pa_ctx (pa_of (item_ctx it) as1)) ac c' = LErr sfx) ->
  let ds := pre ++ it :: post in let k := attribute_line pre it as1 in
  nth_error (tlines T st ds) k = Some (PStmt [] (r_attr T st (item_ctx it) a))
  /\ rejected_at (replaced ds k c') (1 + Z.of_nat k) (1 + len c' - len sfx).
Proof.
  intros Hwf Hal Hc' Hbad ds k. destruct (wf_split_item pre it post Hwf) as [_ [_ Hit]].
  assert (Hnc : forall c, it <> IComment c) by (intros c ->; destruct as1; discriminate).
  destruct (item_lines_split it as1 (a :: as2) Hit Hnc Hal) as [rest0 [E [Hc Ha]]]. cbn [map app] in E.
  rewrite forallb_app in Ha. apply andb_true_iff in Ha as [Ha1 _].
  exact (top_line_replaced Hmerged st Hst Hcr pre it post _ _ _ _ _ c' sfx Hwf (item_ctx_top it) E Hc Ha1 Hc' Hbad).
Qed.

Lemma pline_ok_top c : head_stmt c = true -> plainc c = true -> pline_ok (PStmt [] c) = true.
Proof. intros H1 H2. cbn [pline_ok ws_only forallb andb]. rewrite H1, H2. reflexivity. Qed.

(* [C11] unknown keyword: a content that starts with no top-level keyword in place of the keyword line of ANY item *)
Theorem unknown_keyword_doc pre it post c' :
  wf_doc_with T (pre ++ it :: post) = true -> (forall c, it <> IComment c) -> head_stmt c' = true -> plainc c' = true ->
  strip_prefix [64] c' = None -> strip_prefix (kw_import T) c' = None -> strip_prefix (kw_using T) c' = None ->
  strip_prefix (kw_enum T) c' = None -> strip_prefix (kw_struct T) c' = None -> first_prefix (struct_modifiers T) c' = None ->
  let ds := pre ++ it :: post in let k := keyword_line pre it in
  nth_error (tlines T st ds) k = Some (PStmt [] (keyword_text it)) /\ rejected_at (replaced ds k c') (1 + Z.of_nat k) 1.
Proof.
  intros Hwf Hnc Hh Hp H64 Hi Hu He Hs Hm ds k.
  assert (Hws : stops is_ws c' = true) by (destruct c' as [|x r]; [reflexivity|]; cbn [head_stmt stops] in *; apply andb_true_iff in Hh as [Hh _]; exact Hh).
  destruct (keyword_line_replaced pre it post c' c' Hwf Hnc (pline_ok_top c' Hh Hp)
              (fun ac => top_no_keyword Hmerged _ ac c' Hws H64 Hi Hu He Hs Hm)) as [H1 H2].
  split; [exact H1|]. unfold rejected_at in *. subst ds k. rewrite H2. f_equal. f_equal. clear. lia.
Qed.

Definition decl_type_line (d : decl) : type_line := match d with DAlias _ _ _ => TLUsing | DEnum _ _ _ _ _ => TLEnum | DStruct s => TLStruct (s_disp s) end.

(* [C11] type name of the wrong class (lower case, one letter, capitals only, ...) on the `using` / `enum` / `struct` line of ANY
   declaration, with the column of the name: X is what stands in place of the name and of the rest of the line *)
Theorem type_name_doc pre d post X :
  wf_doc_with T (pre ++ IDecl d :: post) = true -> raw_type T X = None -> stops is_ws X = true -> plainc X = true ->
  let ds := pre ++ IDecl d :: post in let k := keyword_line pre (IDecl d) in let head := type_line_head T (decl_type_line d) ++ [32] in
  nth_error (tlines T st ds) k = Some (PStmt [] (keyword_text (IDecl d)))
  /\ rejected_at (replaced ds k (head ++ X)) (1 + Z.of_nat k) (1 + len head).
Proof.
  intros Hwf HX Hws Hp ds k head.
  assert (Hhead : exists h, head_is h (type_line_head T (decl_type_line d) ++ 32 :: X) = true /\ is_lower h = true).
  { destruct d as [n l c|n b vals attrs c|s]; cbn [decl_type_line type_line_head].
    - apply kw_head, (kwok_using T Hok).
    - apply kw_head, (kwok_enum T Hok).
    - rewrite <- app_assoc. apply (modifier_head T Hok). }
  destruct Hhead as [h [Hh Hlh]].
  assert (Hph : plainc (type_line_head T (decl_type_line d)) = true).
  { destruct d as [n l c|n b vals attrs c|s]; cbn [decl_type_line type_line_head];
      [apply (plainc_kw T Hok), (kwok_using T Hok)|apply (plainc_kw T Hok), (kwok_enum T Hok)|].
    rewrite plainc_app, (plainc_kw T Hok _ (kwok_struct T Hok)), andb_true_r. destruct (s_disp s); reflexivity. }
  assert (Hc' : pline_ok (PStmt [] (type_line_head T (decl_type_line d) ++ 32 :: X)) = true).
  { apply pline_ok_top; [apply (head_stmt_lower T Hok h _ Hh Hlh)|]. rewrite plainc_app, Hph. cbn [plainc forallb]. exact Hp. }
  assert (Hok_k : type_line_ok (decl_type_line d) (pa_ctx (pa_of (item_ctx (IDecl d)) (item_attr_list (IDecl d)))) = true).
  { destruct d as [n l c|n b vals attrs c|s]; cbn [decl_type_line type_line_ok item_ctx item_attr_list]; [reflexivity|apply pa_enum_ok_of|apply pa_struct_ok_of]. }
  destruct (keyword_line_replaced pre (IDecl d) post _ X Hwf ltac:(discriminate) Hc'
              (fun ac => type_line_bad_name Hmerged _ _ ac X Hok_k HX Hws)) as [H1 H2].
  split; [exact H1|]. unfold rejected_at in *. subst ds k head. rewrite <- app_assoc. cbn [app]. rewrite H2. f_equal. f_equal. len_tac.
Qed.

(* [C11] unknown attribute in place of ANY attribute line of ANY enum or struct, with the column of the name *)
Theorem decl_attribute_unknown_doc r pre it post as1 a as2 :
  find_attr (attr_tables T (pa_ctx (pa_of (item_ctx it) as1))) r = None -> stops is_ws r = true -> plainc r = true ->
  wf_doc_with T (pre ++ it :: post) = true -> item_attr_list it = as1 ++ a :: as2 ->
  let ds := pre ++ it :: post in let k := attribute_line pre it as1 in
  nth_error (tlines T st ds) k = Some (PStmt [] (r_attr T st (item_ctx it) a)) /\ rejected_at (replaced ds k (64 :: r)) (1 + Z.of_nat k) 2.
Proof.
  intros Hf Hws Hp Hwf Hal ds k.
  destruct (attribute_line_replaced pre it post as1 a as2 (64 :: r) r Hwf Hal (pline_ok_top (64 :: r) eq_refl Hp)
              (fun ac => top_attr_unknown Hmerged _ ac r Hf Hws)) as [H1 H2].
  split; [exact H1|]. unfold rejected_at in *. subst ds k. rewrite H2. f_equal. f_equal. len_tac.
Qed.

Lemma attr_name_ok ctx a : wf_attr T ctx a = true -> exists k, attr_kind T ctx (of_string (at_name a)) = Some k.
Proof. unfold wf_attr. destruct (attr_kind T ctx (of_string (at_name a))) as [k|]; [eexists; reflexivity|discriminate]. Qed.

(* [C11] wrong arity on ANY attribute line of ANY enum or struct: an argument list after an attribute that takes none, with the
   column of the parenthesis *)
Theorem decl_attribute_extra_args_doc X pre it post as1 a as2 :
  wf_doc_with T (pre ++ it :: post) = true -> item_attr_list it = as1 ++ a :: as2 ->
  attr_kind T (item_ctx it) (of_string (at_name a)) = Some AkZero -> plainc X = true ->
  let ds := pre ++ it :: post in let k := attribute_line pre it as1 in let name := of_string (at_name a) in
  nth_error (tlines T st ds) k = Some (PStmt [] (r_attr T st (item_ctx it) a))
  /\ rejected_at (replaced ds k (64 :: name ++ 40 :: X)) (1 + Z.of_nat k) (2 + len name).
Proof.
  intros Hwf Hal Hk HX ds k name. pose proof (attr_name_kw T Hok _ _ _ Hk) as Hkw. fold name in Hkw.
  assert (Hctx : ctx_ok (pa_ctx (pa_of (item_ctx it) as1)) (item_ctx it) = true) by (apply pa_ctx_of, item_ctx_top).
  assert (Hpl : pline_ok (PStmt [] (64 :: name ++ 40 :: X)) = true).
  { apply pline_ok_top; [reflexivity|]. cbn [plainc forallb]. fold (plainc (name ++ 40 :: X)). rewrite plainc_app, (plainc_kw T Hok _ Hkw). cbn [plainc forallb]. exact HX. }
  destruct (attribute_line_replaced pre it post as1 a as2 (64 :: name ++ 40 :: X) (40 :: X) Hwf Hal Hpl
              (fun ac => top_attr_zero_args Hmerged _ _ ac name X Hctx Hk)) as [H1 H2].
  split; [exact H1|]. unfold rejected_at in *. subst ds k. rewrite H2. f_equal. f_equal. len_tac.
Qed.

(* ... and an empty argument list after an attribute that takes arguments, with the column of the closing parenthesis *)
Theorem decl_attribute_no_args_doc pre it post as1 a as2 k0 :
  wf_doc_with T (pre ++ it :: post) = true -> item_attr_list it = as1 ++ a :: as2 ->
  attr_kind T (item_ctx it) (of_string (at_name a)) = Some k0 -> k0 <> AkZero ->
  let ds := pre ++ it :: post in let k := attribute_line pre it as1 in let name := of_string (at_name a) in
  nth_error (tlines T st ds) k = Some (PStmt [] (r_attr T st (item_ctx it) a))
  /\ rejected_at (replaced ds k (64 :: name ++ [40; 41])) (1 + Z.of_nat k) (3 + len name).
Proof.
  intros Hwf Hal Hk Hz ds k name. pose proof (attr_name_kw T Hok _ _ _ Hk) as Hkw. fold name in Hkw.
  assert (Hctx : ctx_ok (pa_ctx (pa_of (item_ctx it) as1)) (item_ctx it) = true) by (apply pa_ctx_of, item_ctx_top).
  assert (Hpl : pline_ok (PStmt [] (64 :: name ++ [40; 41])) = true).
  { apply pline_ok_top; [reflexivity|]. cbn [plainc forallb]. fold (plainc (name ++ [40; 41])). rewrite plainc_app, (plainc_kw T Hok _ Hkw). reflexivity. }
  destruct (attribute_line_replaced pre it post as1 a as2 (64 :: name ++ [40; 41]) [41] Hwf Hal Hpl
              (fun ac => top_attr_no_args Hmerged _ _ ac name k0 Hctx Hk Hz)) as [H1 H2].
  split; [exact H1|]. unfold rejected_at in *. subst ds k. rewrite H2. f_equal. f_equal. len_tac.
Qed.

(* [C11] the same for ANY attribute line of ANY member: empty argument list *)
Theorem member_attribute_no_args_doc pre s post fs1 f fs2 as1 a as2 k0 :
  attr_kind T CField (of_string (at_name a)) = Some k0 -> k0 <> AkZero ->
  wf_doc_with T (pre ++ IDecl (DStruct s) :: post) = true -> s_fields s = fs1 ++ f :: fs2 -> field_attrs f = Some (as1 ++ a :: as2) ->
  let ds := pre ++ IDecl (DStruct s) :: post in let k := member_attr_line st pre s fs1 f as1 in let name := of_string (at_name a) in
  nth_error (tlines T st ds) k = Some (PStmt ind (r_attr T st CField a))
  /\ rejected_at (replaced ds k (64 :: name ++ [40; 41])) (1 + Z.of_nat k) (len ind + 3 + len name).
Proof.
  intros Hk Hz Hwf Hs Ha ds k name. pose proof (attr_name_kw T Hok _ _ _ Hk) as Hkw. fold name in Hkw.
  assert (Hc' : pline_ok (PStmt ind (64 :: name ++ [40; 41])) = true).
  { apply pline_ok_ind; [reflexivity|]. cbn [plainc forallb]. fold (plainc (name ++ [40; 41])). rewrite plainc_app, (plainc_kw T Hok _ Hkw). reflexivity. }
  destruct (member_attr_line_replaced Hmerged st Hst Hcr pre s post fs1 f fs2 as1 a as2 _ [41] Hwf Hs Ha Hc'
              (fun ac => member_attr_no_args Hmerged _ ac name k0 Hk Hz)) as [H1 H2].
  split; [exact H1|]. unfold rejected_at, replaced. subst ds k. unfold ind. rewrite H2. f_equal. f_equal. len_tac.
Qed.

(* [C11] deleted operand on the line of ANY alias: `using Name =` *)
Theorem alias_deleted_operand_doc pre n l c post :
  wf_doc_with T (pre ++ IDecl (DAlias n l c) :: post) = true ->
  let ds := pre ++ IDecl (DAlias n l c) :: post in let k := keyword_line pre (IDecl (DAlias n l c)) in
  let c' := kw_using T ++ [32] ++ of_string n ++ [32; 61] in
  nth_error (tlines T st ds) k = Some (PStmt [] (r_alias T st n l)) /\ rejected_at (replaced ds k c') (1 + Z.of_nat k) (1 + len c').
Proof.
  intros Hwf ds k c'. destruct (wf_split_item pre _ post Hwf) as [_ [_ Hit]]. cbn [wf_item wf_decl] in Hit.
  apply andb_true_iff in Hit as [H _]. apply andb_true_iff in H as [Hn _].
  assert (Hc' : pline_ok (PStmt [] c') = true).
  { apply pline_ok_top; [apply (head_stmt_kw T Hok), (kwok_using T Hok)|].
    subst c'. rewrite !plainc_app, (plainc_kw T Hok _ (kwok_using T Hok)), (plainc_type T Hok n Hn). reflexivity. }
  destruct (keyword_line_replaced pre (IDecl (DAlias n l c)) post c' [] Hwf ltac:(discriminate) Hc'
              (fun ac => alias_deleted_operand Hmerged ac n Hn)) as [H1 H2].
  split; [exact H1|]. unfold rejected_at in *. subst ds k. rewrite H2. f_equal. f_equal. len_tac.
Qed.

(* [C11] trailing text after ANY plain member without condition `name = type` (name a property name): `name = type X` *)
Theorem member_trailing_text_doc X pre s post fs1 n ty attrs c fs2 :
  strip_prefix (kw_if T) X = None -> stops is_ws X = true -> X <> [] -> plainc X = true -> wf_prop T n = true ->
  wf_doc_with T (pre ++ IDecl (DStruct s) :: post) = true -> s_fields s = fs1 ++ Field n ty VNone DispNone attrs c :: fs2 ->
  let f := Field n ty VNone DispNone attrs c in
  let ds := pre ++ IDecl (DStruct s) :: post in let k := member_line st pre s fs1 f in
  let head := of_string n ++ [32; 61; 32] ++ r_ftype T st ty ++ [32] in
  nth_error (tlines T st ds) k = Some (PStmt ind (r_field T st f))
  /\ rejected_at (replaced ds k (head ++ X)) (1 + Z.of_nat k) (len ind + 1 + len head).
Proof.
  intros Hif Hws Hne Hp Hn Hwf Hs f ds k head. pose proof (wf_member pre s post fs1 f fs2 Hwf Hs) as Hf.
  destruct (plain_member_name n ty VNone attrs c Hf) as [Hvp|[_ Hpa]].
  { exfalso. destruct (prop_head T n [] Hn) as [x [Hh Hx]]. rewrite app_nil_r, Hvp in Hh.
    pose proof (ph_head (value_placeholder T) [] (ok_value T Hok)) as H95. rewrite app_nil_r in H95.
    destruct (value_placeholder T) as [|y r]; [discriminate|]. cbn [head_is] in Hh, H95. apply Z.eqb_eq in Hh, H95. subst. discriminate. }
  pose proof Hf as Hf'. cbn [wf_field] in Hf'. apply andb_true_iff in Hf' as [_ H]. apply andb_true_iff in H as [H _]. apply andb_true_iff in H as [H _].
  apply andb_true_iff in H as [_ Hty]. fold (wf_plain_type T ty) in Hty.
  set (c' := of_string n ++ [32; 61; 32] ++ r_ftype T st ty ++ [32] ++ X).
  assert (Hc' : pline_ok (PStmt ind c') = true).
  { apply pline_ok_ind.
    - destruct (prop_head T n ([32; 61; 32] ++ r_ftype T st ty ++ [32] ++ X) Hn) as [x [Hh Hx]]. apply (head_stmt_lower T Hok x _ Hh Hx).
    - subst c'. rewrite !plainc_app, (plainc_prop T Hok n Hn), (plainc_ftype T Hok st ty Hty), Hp. reflexivity. }
  destruct (member_line_replaced Hmerged st Hst Hcr pre s post fs1 f fs2 c' X Hwf Hs Hc'
              (fun ac => member_trailing_text Hmerged st _ ac n ty X Hn Hpa Hty Hif Hws Hne)) as [H1 H2].
  split; [exact H1|]. unfold rejected_at, replaced. subst ds k. unfold ind.
  replace (head ++ X) with c' by (subst c' head; rewrite <- !app_assoc; reflexivity).
  rewrite H2. f_equal. f_equal. subst c' head. len_tac.
Qed.

(* --- more operators *)
Lemma prop_not_placeholder n : wf_prop T n = true -> of_string n <> value_placeholder T.
Proof.
  intros Hn Hvp. destruct (prop_head T n [] Hn) as [x [Hh Hx]]. rewrite app_nil_r, Hvp in Hh.
  pose proof (ph_head (value_placeholder T) [] (ok_value T Hok)) as H95. rewrite app_nil_r in H95.
  destruct (value_placeholder T) as [|y r]; [discriminate|]. cbn [head_is] in Hh, H95. apply Z.eqb_eq in Hh, H95. subst. discriminate.
Qed.

(* a member whose name is a property name: the branch of the member parser *)
Lemma prop_member f n : wf_field T f = true -> field_name f = Some n -> wf_prop T n = true -> has_attrs f = true \/ not_inline_word T n = true.
Proof.
  destruct f as [n0 ty v d attrs c|t c]; [|discriminate]. intros Hf E Hn. inversion E. subst n0. destruct d.
  - destruct (plain_member_name n ty v attrs c Hf) as [Hvp|[_ Hpa]]; [exfalso; exact (prop_not_placeholder n Hn Hvp)|exact Hpa].
  - exfalso. cbn [wf_field] in Hf. apply andb_true_iff in Hf as [_ H]. apply andb_true_iff in H as [H _]. apply andb_true_iff in H as [Hc _].
    destruct (prop_head T n [] Hn) as [x [Hh Hx]]. destruct (const_head T n [] Hc) as [y [Hh' Hy]]. rewrite app_nil_r in Hh, Hh'.
    destruct (of_string n) as [|z r]; [discriminate|]. cbn [head_is] in Hh, Hh'. apply Z.eqb_eq in Hh, Hh'. subst. rewrite (lower_not_upper _ Hx) in Hy. discriminate.
  - cbn [wf_field] in Hf. apply andb_true_iff in Hf as [_ H]. apply andb_true_iff in H as [H _]. apply andb_true_iff in H as [H _]. apply andb_true_iff in H as [_ Hw]. right. exact Hw.
  - cbn [wf_field] in Hf. apply andb_true_iff in Hf as [_ H]. apply andb_true_iff in H as [H _]. apply andb_true_iff in H as [H _]. apply andb_true_iff in H as [_ Hw]. right. exact Hw.
  - cbn [wf_field] in Hf. apply andb_true_iff in Hf as [_ H]. apply andb_true_iff in H as [H _]. apply andb_true_iff in H as [H _]. apply andb_true_iff in H as [_ Hw]. right. exact Hw.
Qed.

Lemma pline_ok_prop_line n rest : wf_prop T n = true -> plainc rest = true -> pline_ok (PStmt ind (of_string n ++ rest)) = true.
Proof.
  intros Hn Hr. apply pline_ok_ind; [|rewrite plainc_app, (plainc_prop T Hok n Hn), Hr; reflexivity].
  destruct (prop_head T n rest Hn) as [x [Hh Hx]]. apply (head_stmt_lower T Hok x _ Hh Hx).
Qed.

(* [C11] `member-name-with-<character>`: ANY member whose name is a property name, with a character outside [a-z0-9_] (not blank, not
   `=`) and more text after the name; error at that character *)
Theorem member_name_suffix_doc ch rest pre s post fs1 f fs2 n :
  prop_rest ch = false -> is_ws ch = false -> ch <> 61 -> plainc (ch :: rest) = true -> wf_prop T n = true ->
  wf_doc_with T (pre ++ IDecl (DStruct s) :: post) = true -> s_fields s = fs1 ++ f :: fs2 -> field_name f = Some n ->
  let ds := pre ++ IDecl (DStruct s) :: post in let k := member_line st pre s fs1 f in
  nth_error (tlines T st ds) k = Some (PStmt ind (r_field T st f))
  /\ rejected_at (replaced ds k (of_string n ++ ch :: rest)) (1 + Z.of_nat k) (len ind + 1 + len (of_string n)).
Proof.
  intros Hch Hws H61 Hp Hn Hwf Hs Hname ds k. pose proof (wf_member pre s post fs1 f fs2 Hwf Hs) as Hf.
  destruct (member_line_replaced Hmerged st Hst Hcr pre s post fs1 f fs2 _ (ch :: rest) Hwf Hs (pline_ok_prop_line n (ch :: rest) Hn Hp)
              (fun ac => member_name_suffix Hmerged _ ac n ch rest Hn (prop_member f n Hf Hname Hn) Hch Hws H61)) as [H1 H2].
  split; [exact H1|]. unfold rejected_at, replaced. subst ds k. unfold ind. rewrite H2. f_equal. f_equal. len_tac.
Qed.

(* [C11] `unknown-function` and the like on ANY member whose name is a property name: `name = X` where X starts with nothing a member
   value can start with; error at X *)
Theorem member_bad_operand_doc X pre s post fs1 f fs2 n :
  stops is_ws X = true -> plainc X = true -> raw_type T X = None -> raw_intty T X = None -> strip_prefix (kw_array T) X = None ->
  strip_prefix (kw_make_reserved T) X = None -> strip_prefix (kw_sizeof T) X = None -> strip_prefix (kw_inline_field T) X = None ->
  wf_prop T n = true -> wf_doc_with T (pre ++ IDecl (DStruct s) :: post) = true -> s_fields s = fs1 ++ f :: fs2 -> field_name f = Some n ->
  let ds := pre ++ IDecl (DStruct s) :: post in let k := member_line st pre s fs1 f in
  nth_error (tlines T st ds) k = Some (PStmt ind (r_field T st f))
  /\ rejected_at (replaced ds k (of_string n ++ [32; 61; 32] ++ X)) (1 + Z.of_nat k) (len ind + 1 + len (of_string n) + 3).
Proof.
  intros Hws Hp Ht Hi Ha Hr Hsz Hif Hn Hwf Hs Hname ds k. pose proof (wf_member pre s post fs1 f fs2 Hwf Hs) as Hf.
  destruct (member_line_replaced Hmerged st Hst Hcr pre s post fs1 f fs2 _ X Hwf Hs (pline_ok_prop_line n ([32; 61; 32] ++ X) Hn Hp)
              (fun ac => member_bad_operand Hmerged _ ac n X Hn (prop_member f n Hf Hname Hn) Hws Ht Hi Ha Hr Hsz Hif)) as [H1 H2].
  split; [exact H1|]. unfold rejected_at, replaced. subst ds k. unfold ind. rewrite H2. f_equal. f_equal. len_tac.
Qed.

(* [C11] `member-name-too-short`, `member-name-capitalised`, ...: ANY member line replaced by a content that starts with no member name
   (no property name, no constant name, not `@`, not the placeholder); error at the first character *)
Theorem member_no_name_doc X pre s post fs1 f fs2 :
  head_stmt X = true -> plainc X = true -> strip_prefix [64] X = None -> strip_prefix (value_placeholder T) X = None ->
  raw_prop T X = None -> raw_const T X = None ->
  wf_doc_with T (pre ++ IDecl (DStruct s) :: post) = true -> s_fields s = fs1 ++ f :: fs2 ->
  let ds := pre ++ IDecl (DStruct s) :: post in let k := member_line st pre s fs1 f in
  nth_error (tlines T st ds) k = Some (PStmt ind (r_field T st f)) /\ rejected_at (replaced ds k X) (1 + Z.of_nat k) (len ind + 1).
Proof.
  intros Hh Hp H64 Hvp Hrp Hrc Hwf Hs ds k.
  assert (Hws : stops is_ws X = true) by (destruct X as [|x r]; [reflexivity|]; cbn [head_stmt stops] in *; apply andb_true_iff in Hh as [Hh _]; exact Hh).
  destruct (member_line_replaced Hmerged st Hst Hcr pre s post fs1 f fs2 X X Hwf Hs (pline_ok_ind X Hh Hp)
              (fun ac => member_no_name Hmerged _ ac X Hws H64 Hvp Hrp Hrc)) as [H1 H2].
  split; [exact H1|]. unfold rejected_at, replaced. subst ds k. unfold ind. rewrite H2. f_equal. f_equal. clear. lia.
Qed.

(* [C11] `const-name-with-<character>` on ANY value line of ANY enum: a character outside [A-Z0-9_] (not blank, not `=`) after the name *)
Theorem value_name_suffix_doc ch rest pre n b vals attrs c post vs1 v vs2 :
  const_rest ch = false -> is_ws ch = false -> ch <> 61 -> plainc (ch :: rest) = true ->
  wf_doc_with T (pre ++ IDecl (DEnum n b vals attrs c) :: post) = true -> vals = vs1 ++ v :: vs2 ->
  let ds := pre ++ IDecl (DEnum n b vals attrs c) :: post in let k := value_line st pre n b attrs c vs1 v in
  nth_error (tlines T st ds) k = Some (PStmt ind (r_value T st v))
  /\ rejected_at (replaced ds k (of_string (ev_name v) ++ ch :: rest)) (1 + Z.of_nat k) (len ind + 1 + len (of_string (ev_name v))).
Proof.
  intros Hch Hws H61 Hp Hwf Hs ds k. destruct (wf_split_item pre _ post Hwf) as [_ [_ Hit]]. cbn [wf_item wf_decl] in Hit.
  apply andb_true_iff in Hit as [H _]. apply andb_true_iff in H as [H _]. apply andb_true_iff in H as [_ Hv].
  rewrite Hs, forallb_app in Hv. apply andb_true_iff in Hv as [_ Hv]. cbn [forallb] in Hv. apply andb_true_iff in Hv as [Hv _].
  unfold wf_value in Hv. apply andb_true_iff in Hv as [Hv _]. apply andb_true_iff in Hv as [Hn _].
  assert (Hc' : pline_ok (PStmt ind (of_string (ev_name v) ++ ch :: rest)) = true).
  { apply pline_ok_ind; [|rewrite plainc_app, (plainc_const T Hok _ Hn), Hp; reflexivity].
    destruct (const_head T (ev_name v) (ch :: rest) Hn) as [x [Hh Hx]]. apply (head_stmt_upper T Hok x _ Hh Hx). }
  destruct (value_line_replaced Hmerged st Hst Hcr pre n b vals attrs c post vs1 v vs2 _ (ch :: rest) Hwf Hs Hc'
              (value_name_suffix _ ch rest Hn Hch Hws H61)) as [H1 H2].
  split; [exact H1|]. unfold rejected_at, replaced. subst ds k. unfold ind. rewrite H2. f_equal. f_equal. len_tac.
Qed.

(* [C11] unsupported width on the line of ANY alias `using Name = [u]intW`, with the column of the type *)
Theorem alias_width_doc wd pre n i c post :
  forallb (fun x => negb (is_prefix x wd)) (int_widths T) = true -> plainc wd = true ->
  wf_doc_with T (pre ++ IDecl (DAlias n (LInt i) c) :: post) = true ->
  let it := IDecl (DAlias n (LInt i) c) in let ds := pre ++ it :: post in let k := keyword_line pre it in
  nth_error (tlines T st ds) k = Some (PStmt [] (r_alias T st n (LInt i)))
  /\ rejected_at (replaced ds k (alias_head T n ++ int_prefix T i ++ wd)) (1 + Z.of_nat k) (1 + len (alias_head T n)).
Proof.
  intros Hw Hp Hwf it ds k. destruct (wf_split_item pre _ post Hwf) as [_ [_ Hit]]. cbn [wf_item wf_decl] in Hit.
  apply andb_true_iff in Hit as [H _]. apply andb_true_iff in H as [Hn _].
  destruct (keyword_line_replaced pre it post _ (int_prefix T i ++ wd) Hwf ltac:(discriminate) (pline_ok_bad_width T Hok n i wd Hn Hp)
              (fun ac => alias_bad_width T Hok Hmerged ac n i wd Hn Hw)) as [H1 H2].
  split; [exact H1|]. unfold rejected_at in *. subst ds k. rewrite H2. f_equal. f_equal. len_tac.
Qed.

(* [C11] `type-name-with-<character>`: on the `using` / `enum` / `struct` line of ANY declaration, a character outside [A-Za-z0-9] (not
   blank, not `=`, not `:`) and more text after the type name; error at that character *)
Theorem type_name_suffix_doc ch rest pre d post n :
  type_rest ch = false -> is_ws ch = false -> ch <> 61 -> ch <> 58 -> plainc (ch :: rest) = true ->
  wf_doc_with T (pre ++ IDecl d :: post) = true -> n = match d with DAlias n _ _ => n | DEnum n _ _ _ _ => n | DStruct s => s_name s end ->
  let ds := pre ++ IDecl d :: post in let k := keyword_line pre (IDecl d) in let head := type_line_head T (decl_type_line d) ++ [32] ++ of_string n in
  nth_error (tlines T st ds) k = Some (PStmt [] (keyword_text (IDecl d)))
  /\ rejected_at (replaced ds k (head ++ ch :: rest)) (1 + Z.of_nat k) (1 + len head).
Proof.
  intros Hch Hws H61 H58 Hp Hwf En ds k head.
  assert (Hn : wf_type T n = true).
  { destruct (wf_split_item pre _ post Hwf) as [_ [_ Hit]]. cbn [wf_item] in Hit. subst n. destruct d as [n0 l c|n0 b vals attrs c|s].
    - cbn [wf_decl] in Hit. apply andb_true_iff in Hit as [H _]. apply andb_true_iff in H as [H _]. exact H.
    - cbn [wf_decl] in Hit. apply andb_true_iff in Hit as [H _]. apply andb_true_iff in H as [H _]. apply andb_true_iff in H as [H _]. apply andb_true_iff in H as [H _]. exact H.
    - destruct (wf_struct_parts s Hit) as [H _]. exact H. }
  assert (Hhead : exists h, head_is h (type_line_head T (decl_type_line d) ++ [32] ++ of_string n ++ ch :: rest) = true /\ is_lower h = true).
  { destruct d as [n0 l c|n0 b vals attrs c|s]; cbn [decl_type_line type_line_head].
    - apply kw_head, (kwok_using T Hok).
    - apply kw_head, (kwok_enum T Hok).
    - rewrite <- app_assoc. apply (modifier_head T Hok). }
  destruct Hhead as [h [Hh Hlh]].
  assert (Hph : plainc (type_line_head T (decl_type_line d)) = true).
  { destruct d as [n0 l c|n0 b vals attrs c|s]; cbn [decl_type_line type_line_head];
      [apply (plainc_kw T Hok), (kwok_using T Hok)|apply (plainc_kw T Hok), (kwok_enum T Hok)|].
    rewrite plainc_app, (plainc_kw T Hok _ (kwok_struct T Hok)), andb_true_r. destruct (s_disp s); reflexivity. }
  assert (Hc' : pline_ok (PStmt [] (type_line_head T (decl_type_line d) ++ [32] ++ of_string n ++ ch :: rest)) = true).
  { apply pline_ok_top; [apply (head_stmt_lower T Hok h _ Hh Hlh)|]. rewrite !plainc_app, Hph, (plainc_type T Hok n Hn), Hp. reflexivity. }
  assert (Hok_k : type_line_ok (decl_type_line d) (pa_ctx (pa_of (item_ctx (IDecl d)) (item_attr_list (IDecl d)))) = true).
  { destruct d as [n0 l c|n0 b vals attrs c|s]; cbn [decl_type_line type_line_ok item_ctx item_attr_list]; [reflexivity|apply pa_enum_ok_of|apply pa_struct_ok_of]. }
  destruct (keyword_line_replaced pre (IDecl d) post _ (ch :: rest) Hwf ltac:(discriminate) Hc'
              (fun ac => type_line_name_suffix Hmerged _ _ ac n ch rest Hok_k Hn Hch Hws H61 H58)) as [H1 H2].
  split; [exact H1|]. unfold rejected_at in *. subst ds k head. rewrite <- !app_assoc. rewrite H2. f_equal. f_equal. len_tac.
Qed.

(* [C11] `unknown-transform`: on ANY attribute line `@name(p1, ..., pk, p!transform...` of an attribute with transforms (of any struct),
   `bad` (starting with no transform name) in place of the first transform and of what follows it; error at `bad` *)
Theorem transform_doc qs p bad pre it post as1 a as2 :
  attr_kind T (item_ctx it) (of_string (at_name a)) = Some AkTransform -> forallb (wf_prop T) qs = true -> wf_prop T p = true ->
  first_prefix (transform_names T) bad = None -> stops is_ws bad = true -> plainc bad = true ->
  wf_doc_with T (pre ++ it :: post) = true -> item_attr_list it = as1 ++ a :: as2 ->
  let ds := pre ++ it :: post in let k := attribute_line pre it as1 in
  let head := 64 :: of_string (at_name a) ++ 40 :: props_text qs ++ of_string p ++ [33] in
  nth_error (tlines T st ds) k = Some (PStmt [] (r_attr T st (item_ctx it) a))
  /\ rejected_at (replaced ds k (head ++ bad)) (1 + Z.of_nat k) (1 + len head).
Proof.
  intros Hk Hqs Hp Hbad Hws Hpb Hwf Hal ds k head. pose proof (attr_name_kw T Hok _ _ _ Hk) as Hkw.
  assert (Hctx : ctx_ok (pa_ctx (pa_of (item_ctx it) as1)) (item_ctx it) = true) by (apply pa_ctx_of, item_ctx_top).
  assert (Hpq : plainc (props_text qs) = true).
  { clear - Hqs Hok. induction qs as [|q qs IH]; [reflexivity|]. cbn [forallb] in Hqs. apply andb_true_iff in Hqs as [Hq Hqs].
    cbn [props_text flat_map]. fold (props_text qs). rewrite !plainc_app, (plainc_prop T Hok q Hq), (IH Hqs). reflexivity. }
  set (c' := 64 :: of_string (at_name a) ++ 40 :: props_text qs ++ of_string p ++ 33 :: bad).
  assert (Hc' : pline_ok (PStmt [] c') = true).
  { apply pline_ok_top; [reflexivity|]. subst c'. cbn [plainc forallb]. fold (plainc (of_string (at_name a) ++ 40 :: props_text qs ++ of_string p ++ 33 :: bad)).
    rewrite plainc_app, (plainc_kw T Hok _ Hkw). cbn [plainc forallb andb]. fold (plainc (props_text qs ++ of_string p ++ 33 :: bad)).
    rewrite !plainc_app, Hpq, (plainc_prop T Hok p Hp). cbn [plainc forallb andb]. exact Hpb. }
  destruct (attribute_line_replaced pre it post as1 a as2 c' bad Hwf Hal Hc'
              (fun ac => top_attr_bad_transform Hmerged _ _ ac _ qs p bad Hctx Hk Hqs Hp Hbad Hws)) as [H1 H2].
  split; [exact H1|]. unfold rejected_at in *. subst ds k.
  replace (head ++ bad) with c' by (subst c' head; cbn [app]; rewrite <- !app_assoc; cbn [app]; rewrite <- !app_assoc; reflexivity).
  rewrite H2. f_equal. f_equal. subst c' head. len_tac.
Qed.

(* [C11] `unknown-function` on the line of ANY alias: `using Name = X`, X neither an integer type nor `binary_fixed` *)
Theorem alias_bad_operand_doc X pre n l c post :
  stops is_ws X = true -> plainc X = true -> raw_intty T X = None -> strip_prefix (kw_binary_fixed T) X = None ->
  wf_doc_with T (pre ++ IDecl (DAlias n l c) :: post) = true ->
  let it := IDecl (DAlias n l c) in let ds := pre ++ it :: post in let k := keyword_line pre it in
  nth_error (tlines T st ds) k = Some (PStmt [] (r_alias T st n l))
  /\ rejected_at (replaced ds k (alias_head T n ++ X)) (1 + Z.of_nat k) (1 + len (alias_head T n)).
Proof.
  intros Hws Hp Hi Hb Hwf it ds k. destruct (wf_split_item pre _ post Hwf) as [_ [_ Hit]]. cbn [wf_item wf_decl] in Hit.
  apply andb_true_iff in Hit as [H _]. apply andb_true_iff in H as [Hn _].
  assert (Hc' : pline_ok (PStmt [] (alias_head T n ++ X)) = true).
  { apply pline_ok_top; [unfold alias_head; rewrite <- !app_assoc; apply (head_stmt_kw T Hok), (kwok_using T Hok)|].
    rewrite plainc_app, (plainc_alias_head T Hok n Hn), Hp. reflexivity. }
  assert (Hbad : forall ac, parse_top_line T (pa_ctx (pa_of (item_ctx it) (item_attr_list it))) ac (alias_head T n ++ X) = LErr X).
  { intro ac. unfold alias_head. rewrite <- !app_assoc. apply (alias_bad_operand Hmerged ac n X Hn Hws Hi Hb). }
  destruct (keyword_line_replaced pre it post _ X Hwf ltac:(discriminate) Hc' Hbad) as [H1 H2].
  split; [exact H1|]. unfold rejected_at in *. subst ds k. rewrite H2. f_equal. f_equal. len_tac.
Qed.

(* [C11] ... and on ANY constant member `NAME = make_const(...)`: `NAME = X`, X not starting with `make_const` *)
Theorem const_member_bad_operand_doc X pre s post fs1 n ty v c fs2 :
  stops is_ws X = true -> plainc X = true -> strip_prefix (kw_make_const T) X = None ->
  wf_doc_with T (pre ++ IDecl (DStruct s) :: post) = true -> s_fields s = fs1 ++ Field n ty v DispConst None c :: fs2 ->
  let f := Field n ty v DispConst None c in let ds := pre ++ IDecl (DStruct s) :: post in let k := member_line st pre s fs1 f in
  nth_error (tlines T st ds) k = Some (PStmt ind (r_field T st f))
  /\ rejected_at (replaced ds k (of_string n ++ [32; 61; 32] ++ X)) (1 + Z.of_nat k) (len ind + 1 + len (of_string n) + 3).
Proof.
  intros Hws Hp Hm Hwf Hs f ds k. pose proof (wf_member pre s post fs1 f fs2 Hwf Hs) as Hf.
  assert (Hn : wf_const T n = true).
  { cbn [wf_field] in Hf. apply andb_true_iff in Hf as [_ H]. apply andb_true_iff in H as [H _]. apply andb_true_iff in H as [H _]. exact H. }
  assert (Hc' : pline_ok (PStmt ind (of_string n ++ [32; 61; 32] ++ X)) = true).
  { apply pline_ok_ind; [|rewrite !plainc_app, (plainc_const T Hok n Hn), Hp; reflexivity].
    destruct (const_head T n ([32; 61; 32] ++ X) Hn) as [x [Hh Hx]]. apply (head_stmt_upper T Hok x _ Hh Hx). }
  destruct (member_line_replaced Hmerged st Hst Hcr pre s post fs1 f fs2 _ X Hwf Hs Hc'
              (fun ac => const_member_bad_operand Hmerged ac n X Hn Hws Hm)) as [H1 H2].
  split; [exact H1|]. unfold rejected_at, replaced. subst ds k. unfold ind. rewrite H2. f_equal. f_equal. len_tac.
Qed.

(* [C11] `const-name-with-<character>` on ANY constant member *)
Theorem const_member_name_suffix_doc ch rest pre s post fs1 n ty v c fs2 :
  const_rest ch = false -> is_ws ch = false -> ch <> 61 -> plainc (ch :: rest) = true ->
  wf_doc_with T (pre ++ IDecl (DStruct s) :: post) = true -> s_fields s = fs1 ++ Field n ty v DispConst None c :: fs2 ->
  let f := Field n ty v DispConst None c in let ds := pre ++ IDecl (DStruct s) :: post in let k := member_line st pre s fs1 f in
  nth_error (tlines T st ds) k = Some (PStmt ind (r_field T st f))
  /\ rejected_at (replaced ds k (of_string n ++ ch :: rest)) (1 + Z.of_nat k) (len ind + 1 + len (of_string n)).
Proof.
  intros Hch Hws H61 Hp Hwf Hs f ds k. pose proof (wf_member pre s post fs1 f fs2 Hwf Hs) as Hf.
  assert (Hn : wf_const T n = true).
  { cbn [wf_field] in Hf. apply andb_true_iff in Hf as [_ H]. apply andb_true_iff in H as [H _]. apply andb_true_iff in H as [H _]. exact H. }
  assert (Hc' : pline_ok (PStmt ind (of_string n ++ ch :: rest)) = true).
  { apply pline_ok_ind; [|rewrite !plainc_app, (plainc_const T Hok n Hn), Hp; reflexivity].
    destruct (const_head T n (ch :: rest) Hn) as [x [Hh Hx]]. apply (head_stmt_upper T Hok x _ Hh Hx). }
  destruct (member_line_replaced Hmerged st Hst Hcr pre s post fs1 f fs2 _ (ch :: rest) Hwf Hs Hc'
              (fun ac => const_member_name_suffix Hmerged ac n ch rest Hn Hch Hws H61)) as [H1 H2].
  split; [exact H1|]. unfold rejected_at, replaced. subst ds k. unfold ind. rewrite H2. f_equal. f_equal. len_tac.
Qed.

(* [C11] `member-outside-declaration` inside the head of a declaration: a line at column 0 in front of ANY attribute line or of the
   keyword line of ANY item (after the comment of the item), which the top-level parser rejects in the state of that place *)
Theorem keyword_line_inserted pre it post c' sfx :
  wf_doc_with T (pre ++ it :: post) = true -> (forall c, it <> IComment c) -> pline_ok (PStmt [] c') = true ->
  (forall ac, parse_top_line T (pa_ctx (pa_of (item_ctx it) (item_attr_list it))) ac c' = LErr sfx) ->
  let ds := pre ++ it :: post in let k := keyword_line pre it in
  rejected_at (text_of (style_cr st) (insert_stmt k c' (tlines T st ds))) (1 + Z.of_nat k) (1 + len c' - len sfx).
Proof.
  intros Hwf Hnc Hc' Hbad ds k. destruct (wf_split_item pre it post Hwf) as [_ [_ Hit]].
  destruct (item_lines_split it (item_attr_list it) [] Hit Hnc (eq_sym (app_nil_r _))) as [rest0 [E [Hc Ha]]]. cbn [map app] in E. rewrite app_nil_r in Ha.
  exact (top_line_inserted Hmerged st Hst Hcr pre it post _ _ _ _ c' sfx Hwf (item_ctx_top it) E Hc Ha Hc' Hbad).
Qed.

Theorem attribute_line_inserted pre it post as1 a as2 c' sfx :
  wf_doc_with T (pre ++ it :: post) = true -> item_attr_list it = as1 ++ a :: as2 -> pline_ok (PStmt [] c') = true ->
  (forall ac, parse_top_line T (pa_ctx (pa_of (item_ctx it) as1)) ac c' = LErr sfx) ->
  let ds := pre ++ it :: post in let k := attribute_line pre it as1 in
  rejected_at (text_of (style_cr st) (insert_stmt k c' (tlines T st ds))) (1 + Z.of_nat k) (1 + len c' - len sfx).
Proof.
  intros Hwf Hal Hc' Hbad ds k. destruct (wf_split_item pre it post Hwf) as [_ [_ Hit]].
  assert (Hnc : forall c, it <> IComment c) by (intros c ->; destruct as1; discriminate).
  destruct (item_lines_split it as1 (a :: as2) Hit Hnc Hal) as [rest0 [E [Hc Ha]]].
  rewrite forallb_app in Ha. apply andb_true_iff in Ha as [Ha1 _].
  exact (top_line_inserted Hmerged st Hst Hcr pre it post _ _ _ _ c' sfx Hwf (item_ctx_top it) E Hc Ha1 Hc' Hbad).
Qed.

(* --- `deleted-left-parenthesis` *)
(* [C11] on ANY attribute line (with arguments) of ANY enum or struct: `@name X`, X not starting with `(`; error at X *)
Theorem decl_attribute_missing_open_doc X pre it post as1 a as2 k0 :
  attr_kind T (item_ctx it) (of_string (at_name a)) = Some k0 -> k0 <> AkZero -> stops is_ws X = true -> strip_prefix [40] X = None -> plainc X = true ->
  wf_doc_with T (pre ++ it :: post) = true -> item_attr_list it = as1 ++ a :: as2 ->
  let ds := pre ++ it :: post in let k := attribute_line pre it as1 in let name := of_string (at_name a) in
  nth_error (tlines T st ds) k = Some (PStmt [] (r_attr T st (item_ctx it) a))
  /\ rejected_at (replaced ds k (64 :: name ++ X)) (1 + Z.of_nat k) (2 + len name).
Proof.
  intros Hk Hz Hws HX Hp Hwf Hal ds k name. pose proof (attr_name_kw T Hok _ _ _ Hk) as Hkw. fold name in Hkw.
  assert (Hctx : ctx_ok (pa_ctx (pa_of (item_ctx it) as1)) (item_ctx it) = true) by (apply pa_ctx_of, item_ctx_top).
  assert (Hpl : pline_ok (PStmt [] (64 :: name ++ X)) = true).
  { apply pline_ok_top; [reflexivity|]. cbn [plainc forallb]. fold (plainc (name ++ X)). rewrite plainc_app, (plainc_kw T Hok _ Hkw). exact Hp. }
  destruct (attribute_line_replaced pre it post as1 a as2 (64 :: name ++ X) X Hwf Hal Hpl
              (fun ac => top_attr_missing_open Hmerged _ _ ac name k0 X Hctx Hk Hz Hws HX)) as [H1 H2].
  split; [exact H1|]. unfold rejected_at in *. subst ds k. rewrite H2. f_equal. f_equal. len_tac.
Qed.

(* [C11] ... and on ANY attribute line (with arguments) of ANY member *)
Theorem member_attribute_missing_open_doc X pre s post fs1 f fs2 as1 a as2 k0 :
  attr_kind T CField (of_string (at_name a)) = Some k0 -> k0 <> AkZero -> stops is_ws X = true -> strip_prefix [40] X = None -> plainc X = true ->
  wf_doc_with T (pre ++ IDecl (DStruct s) :: post) = true -> s_fields s = fs1 ++ f :: fs2 -> field_attrs f = Some (as1 ++ a :: as2) ->
  let ds := pre ++ IDecl (DStruct s) :: post in let k := member_attr_line st pre s fs1 f as1 in let name := of_string (at_name a) in
  nth_error (tlines T st ds) k = Some (PStmt ind (r_attr T st CField a))
  /\ rejected_at (replaced ds k (64 :: name ++ X)) (1 + Z.of_nat k) (len ind + 2 + len name).
Proof.
  intros Hk Hz Hws HX Hp Hwf Hs Ha ds k name. pose proof (attr_name_kw T Hok _ _ _ Hk) as Hkw. fold name in Hkw.
  assert (Hc' : pline_ok (PStmt ind (64 :: name ++ X)) = true).
  { apply pline_ok_ind; [reflexivity|]. cbn [plainc forallb]. fold (plainc (name ++ X)). rewrite plainc_app, (plainc_kw T Hok _ Hkw). exact Hp. }
  destruct (member_attr_line_replaced Hmerged st Hst Hcr pre s post fs1 f fs2 as1 a as2 _ X Hwf Hs Ha Hc'
              (fun ac => member_attr_missing_open Hmerged _ ac name k0 X Hk Hz Hws HX)) as [H1 H2].
  split; [exact H1|]. unfold rejected_at, replaced. subst ds k. unfold ind. rewrite H2. f_equal. f_equal. len_tac.
Qed.

Lemma Some_inj {A} (a b : A) : Some a = Some b -> a = b.
Proof. intro H. inversion H. reflexivity. Qed.

(* the word of a member that is followed by `(` *)
Definition call_word (f : field) : option (list Z) :=
  match f with
  | Field _ ty _ d _ _ =>
    match d with
    | DispNone => match ty with FArray _ => Some (kw_array T) | _ => None end
    | DispConst => Some (kw_make_const T)
    | DispReserved => Some (kw_make_reserved T)
    | DispSizeof => Some (kw_sizeof T)
    | DispInline => None
    end
  | InlinePlaceholder _ _ => None
  end.

(* [C11] ... and on ANY member with a call (`array(`, `make_const(`, `make_reserved(`, `sizeof(`; name not `__value__`): `name = word X` *)
Theorem member_call_missing_open_doc X pre s post fs1 f fs2 n word :
  stops is_ws X = true -> strip_prefix [40] X = None -> plainc X = true ->
  wf_doc_with T (pre ++ IDecl (DStruct s) :: post) = true -> s_fields s = fs1 ++ f :: fs2 -> field_name f = Some n -> call_word f = Some word ->
  of_string n <> value_placeholder T ->
  let ds := pre ++ IDecl (DStruct s) :: post in let k := member_line st pre s fs1 f in let head := of_string n ++ [32; 61; 32] ++ word in
  nth_error (tlines T st ds) k = Some (PStmt ind (r_field T st f))
  /\ rejected_at (replaced ds k (head ++ X)) (1 + Z.of_nat k) (len ind + 1 + len head).
Proof.
  intros Hws HX Hp Hwf Hs Hname Hword Hnvp ds k head. subst head. pose proof (wf_member pre s post fs1 f fs2 Hwf Hs) as Hf.
  destruct (plainc_field_name f n Hf Hname) as [Hpn Hh].
  assert (Hbad : (forall ac, parse_member_line T (has_attrs f) ac (of_string n ++ [32; 61; 32] ++ word ++ X) = LErr X) /\ kw_ok word = true).
  { destruct f as [n0 ty v d attrs c|t c]; [|discriminate]. cbn [field_name] in Hname. inversion Hname. subst n0.
    destruct d; cbn [call_word] in Hword.
    - destruct ty as [| |a]; try discriminate. apply Some_inj in Hword; subst word. split; [|apply (kwok_array T Hok)].
      destruct (plain_member_name n (FArray a) v attrs c Hf) as [Hvp|[Hn Hpa]]; [contradiction|].
      intro ac. apply (member_array_missing_open Hmerged _ ac n X Hn Hpa Hws HX).
    - apply Some_inj in Hword; subst word. split; [|apply (kwok_make_const T Hok)]. cbn [wf_field] in Hf. apply andb_true_iff in Hf as [_ H].
      apply andb_true_iff in H as [H Ha]. apply andb_true_iff in H as [Hn _]. destruct attrs; [discriminate|].
      intro ac. apply (member_const_missing_open Hmerged ac n X Hn Hws HX).
    - apply Some_inj in Hword; subst word. split; [|apply (kwok_make_reserved T Hok)]. cbn [wf_field] in Hf. apply andb_true_iff in Hf as [_ H].
      apply andb_true_iff in H as [H Ha]. apply andb_true_iff in H as [H _]. apply andb_true_iff in H as [Hn Hw]. destruct attrs; [discriminate|].
      intro ac. apply (member_reserved_missing_open Hmerged ac n X Hn Hw Hws HX).
    - apply Some_inj in Hword; subst word. split; [|apply (kwok_sizeof T Hok)]. cbn [wf_field] in Hf. apply andb_true_iff in Hf as [_ H].
      apply andb_true_iff in H as [H _]. apply andb_true_iff in H as [H Ha]. apply andb_true_iff in H as [Hn Hw]. destruct attrs; [discriminate|].
      intro ac. apply (member_sizeof_missing_open Hmerged ac n X Hn Hw Hws HX).
    - discriminate. }
  destruct Hbad as [Hbad Hkw].
  assert (Hc' : pline_ok (PStmt ind (of_string n ++ [32; 61; 32] ++ word ++ X)) = true).
  { apply pline_ok_ind; [|rewrite !plainc_app, Hpn, (plainc_kw T Hok _ Hkw), Hp; reflexivity].
    destruct (of_string n) as [|x r]; [discriminate|]. exact Hh. }
  destruct (member_line_replaced Hmerged st Hst Hcr pre s post fs1 f fs2 _ X Hwf Hs Hc' Hbad) as [H1 H2].
  split; [exact H1|]. unfold rejected_at, replaced. subst ds k. unfold ind.
  replace ((of_string n ++ [32; 61; 32] ++ word) ++ X) with (of_string n ++ [32; 61; 32] ++ word ++ X) by (rewrite <- !app_assoc; reflexivity).
  rewrite H2. f_equal. f_equal. len_tac.
Qed.

(* [C11] ... and on ANY alias of a buffer type: `using Name = binary_fixed X` *)
Theorem alias_buffer_missing_open_doc X pre n size c post :
  stops is_ws X = true -> strip_prefix [40] X = None -> plainc X = true ->
  wf_doc_with T (pre ++ IDecl (DAlias n (LBuffer size) c) :: post) = true ->
  let it := IDecl (DAlias n (LBuffer size) c) in let ds := pre ++ it :: post in let k := keyword_line pre it in
  let head := alias_head T n ++ kw_binary_fixed T in
  nth_error (tlines T st ds) k = Some (PStmt [] (r_alias T st n (LBuffer size)))
  /\ rejected_at (replaced ds k (head ++ X)) (1 + Z.of_nat k) (1 + len head).
Proof.
  intros Hws HX Hp Hwf it ds k head. destruct (wf_split_item pre _ post Hwf) as [_ [_ Hit]]. cbn [wf_item wf_decl] in Hit.
  apply andb_true_iff in Hit as [H _]. apply andb_true_iff in H as [Hn _].
  set (c' := kw_using T ++ [32] ++ of_string n ++ [32; 61; 32] ++ kw_binary_fixed T ++ X).
  assert (Hc' : pline_ok (PStmt [] c') = true).
  { apply pline_ok_top; [apply (head_stmt_kw T Hok), (kwok_using T Hok)|].
    subst c'. rewrite !plainc_app, (plainc_kw T Hok _ (kwok_using T Hok)), (plainc_type T Hok n Hn), (plainc_kw T Hok _ (kwok_binary_fixed T Hok)), Hp. reflexivity. }
  destruct (keyword_line_replaced pre it post c' X Hwf ltac:(discriminate) Hc'
              (fun ac => alias_buffer_missing_open Hmerged ac n X Hn Hws HX)) as [H1 H2].
  split; [exact H1|]. unfold rejected_at in *. subst ds k.
  replace (head ++ X) with c' by (subst c' head; unfold alias_head; rewrite <- !app_assoc; reflexivity).
  rewrite H2. f_equal. f_equal. subst c' head. unfold alias_head. len_tac.
Qed.

(* --- `deleted-right-parenthesis` on attribute lines *)
Lemma plainc_removelast l : plainc l = true -> plainc (removelast l) = true.
Proof.
  intro H. apply forallb_forall. intros x Hx. unfold plainc in H. rewrite forallb_forall in H. apply H.
  destruct l as [|y r]; [contradiction|]. destruct (exists_last (l := y :: r) ltac:(discriminate)) as [l' [z E]]. rewrite E in *.
  rewrite removelast_last in Hx. apply in_or_app. left. exact Hx.
Qed.

Lemma attr_find_wf ctx l a : forallb (wf_attr T ctx) l = true -> In a l -> wf_attr T ctx a = true.
Proof. intros H Hin. rewrite forallb_forall in H. apply H, Hin. Qed.

(* [C11] the last character (the closing parenthesis) of ANY attribute line with a fixed number of arguments, of ANY enum or struct,
   deleted: error at the end of the line *)
Theorem decl_attribute_missing_close_doc pre it post as1 a as2 k0 :
  attr_kind T (item_ctx it) (of_string (at_name a)) = Some k0 -> fixed_arity k0 = true ->
  wf_doc_with T (pre ++ it :: post) = true -> item_attr_list it = as1 ++ a :: as2 ->
  let ds := pre ++ it :: post in let k := attribute_line pre it as1 in let c' := removelast (r_attr T st (item_ctx it) a) in
  nth_error (tlines T st ds) k = Some (PStmt [] (r_attr T st (item_ctx it) a))
  /\ rejected_at (replaced ds k c') (1 + Z.of_nat k) (1 + len c').
Proof.
  intros Hk Hf Hwf Hal ds k c'. destruct (wf_split_item pre it post Hwf) as [_ [_ Hit]].
  assert (Hnc : forall c, it <> IComment c) by (intros c ->; destruct as1; discriminate).
  destruct (item_lines_split it as1 (a :: as2) Hit Hnc Hal) as [_ [_ [_ Hall]]].
  assert (Hwa : wf_attr T (item_ctx it) a = true) by (apply (attr_find_wf _ _ a Hall); apply in_or_app; right; left; reflexivity).
  destruct (r_attr_open st (item_ctx it) a k0 Hk Hwa Hf) as [body [E1 [E2 Hp]]].
  assert (Hctx : ctx_ok (pa_ctx (pa_of (item_ctx it) as1)) (item_ctx it) = true) by (apply pa_ctx_of, item_ctx_top).
  assert (Hpl : pline_ok (PStmt [] c') = true).
  { subst c'. apply pline_ok_top; [rewrite E1; reflexivity|apply plainc_removelast, (plainc_attr T Hok); exact Hwa]. }
  assert (Hbad : forall ac, parse_top_line T (pa_ctx (pa_of (item_ctx it) as1)) ac c' = LErr []).
  { intro ac. subst c'. rewrite E1. apply (top_attr_missing_close Hmerged _ _ ac _ k0 body Hctx Hk Hp). }
  destruct (attribute_line_replaced pre it post as1 a as2 c' [] Hwf Hal Hpl Hbad) as [H1 H2].
  split; [exact H1|]. unfold rejected_at in *. subst ds k. rewrite H2. f_equal. f_equal. len_tac.
Qed.

(* [C11] ... and of ANY member *)
Theorem member_attribute_missing_close_doc pre s post fs1 f fs2 as1 a as2 k0 :
  attr_kind T CField (of_string (at_name a)) = Some k0 -> fixed_arity k0 = true ->
  wf_doc_with T (pre ++ IDecl (DStruct s) :: post) = true -> s_fields s = fs1 ++ f :: fs2 -> field_attrs f = Some (as1 ++ a :: as2) ->
  let ds := pre ++ IDecl (DStruct s) :: post in let k := member_attr_line st pre s fs1 f as1 in let c' := removelast (r_attr T st CField a) in
  nth_error (tlines T st ds) k = Some (PStmt ind (r_attr T st CField a))
  /\ rejected_at (replaced ds k c') (1 + Z.of_nat k) (len ind + 1 + len c').
Proof.
  intros Hk Hf Hwf Hs Ha ds k c'. pose proof (wf_member pre s post fs1 f fs2 Hwf Hs) as Hfld.
  destruct (wf_field_meta T f Hfld) as [_ Hfa]. pose proof (wf_attrs_list T CField _ Hfa) as Hall. rewrite Ha in Hall. cbn [attrs_list] in Hall.
  assert (Hwa : wf_attr T CField a = true) by (apply (attr_find_wf _ _ a Hall); apply in_or_app; right; left; reflexivity).
  destruct (r_attr_open st CField a k0 Hk Hwa Hf) as [body [E1 [E2 Hp]]].
  assert (Hpl : pline_ok (PStmt ind c') = true).
  { subst c'. apply pline_ok_ind; [rewrite E1; reflexivity|apply plainc_removelast, (plainc_attr T Hok); exact Hwa]. }
  assert (Hbad : forall ac, parse_member_line T (pending as1) ac c' = LErr []).
  { intro ac. subst c'. rewrite E1. apply (member_attr_missing_close Hmerged _ ac _ k0 body Hk Hp). }
  destruct (member_attr_line_replaced Hmerged st Hst Hcr pre s post fs1 f fs2 as1 a as2 c' [] Hwf Hs Ha Hpl Hbad) as [H1 H2].
  split; [exact H1|]. unfold rejected_at, replaced. subst ds k. unfold ind. rewrite H2. f_equal. f_equal. len_tac.
Qed.

(* --- plain members of any name (property name or `__value__`) *)
Lemma pline_ok_field_line f n rest : wf_field T f = true -> field_name f = Some n -> plainc rest = true -> pline_ok (PStmt ind (of_string n ++ rest)) = true.
Proof.
  intros Hf Hname Hr. destruct (plainc_field_name f n Hf Hname) as [Hpn Hh].
  apply pline_ok_ind; [|rewrite plainc_app, Hpn, Hr; reflexivity]. destruct (of_string n) as [|x r]; [discriminate|]. exact Hh.
Qed.

(* [C11] `unknown-condition-operator`, complete: ANY member `name = type if VALUE operator link` (any name) *)
Theorem member_condition_operator_all_doc bad pre s post fs1 n ty cnd attrs c fs2 :
  first_prefix (cond_ops T) bad = None -> stops is_ws bad = true -> plainc bad = true ->
  wf_doc_with T (pre ++ IDecl (DStruct s) :: post) = true -> s_fields s = fs1 ++ Field n ty (VCond cnd) DispNone attrs c :: fs2 ->
  let f := Field n ty (VCond cnd) DispNone attrs c in
  let ds := pre ++ IDecl (DStruct s) :: post in let k := member_line st pre s fs1 f in
  let head := of_string n ++ [32; 61; 32] ++ r_ftype T st ty ++ [32] ++ kw_if T ++ [32] ++ cv_text st (c_value cnd) ++ [32] in
  nth_error (tlines T st ds) k = Some (PStmt ind (r_field T st f))
  /\ rejected_at (replaced ds k (head ++ bad)) (1 + Z.of_nat k) (len ind + 1 + len head).
Proof.
  intros Hbad Hws Hp Hwf Hs f ds k head. pose proof (wf_member pre s post fs1 f fs2 Hwf Hs) as Hf.
  pose proof Hf as Hf'. cbn [wf_field] in Hf'. apply andb_true_iff in Hf' as [_ H]. apply andb_true_iff in H as [H _]. apply andb_true_iff in H as [H Hv].
  apply andb_true_iff in H as [_ Hty]. fold (wf_plain_type T ty) in Hty.
  unfold wf_cond in Hv. apply andb_true_iff in Hv as [Hv _]. apply andb_true_iff in Hv as [Hcv _]. fold (wf_cv (c_value cnd)) in Hcv.
  set (X := [32] ++ kw_if T ++ [32] ++ cv_text st (c_value cnd) ++ [32] ++ bad).
  assert (Hpcv : plainc (cv_text st (c_value cnd)) = true).
  { destruct (c_value cnd) as [x|x]; cbn [cv_text wf_cv] in *; [apply (plainc_num T Hok); apply Z.leb_le; exact Hcv|apply (plainc_const T Hok); exact Hcv]. }
  assert (Hc' : pline_ok (PStmt ind (of_string n ++ [32; 61; 32] ++ r_ftype T st ty ++ X)) = true).
  { apply (pline_ok_field_line f n _ Hf eq_refl). subst X. rewrite !plainc_app, (plainc_ftype T Hok st ty Hty), (plainc_kw T Hok _ (kwok_if T Hok)), Hpcv, Hp. reflexivity. }
  assert (Htail : p_field_tail T (32 :: r_ftype T st ty ++ X) = LErr bad).
  { rewrite p_field_tail_type by (try exact Hty; reflexivity). subst X.
    change ([32] ++ kw_if T ++ [32] ++ cv_text st (c_value cnd) ++ [32] ++ bad) with (32 :: kw_if T ++ [32] ++ cv_text st (c_value cnd) ++ [32] ++ bad).
    rewrite (p_cond_bad_op st _ bad Hcv Hbad Hws). reflexivity. }
  destruct (member_line_replaced Hmerged st Hst Hcr pre s post fs1 f fs2 _ bad Hwf Hs Hc'
              (fun ac => plain_member_tail Hmerged st ac n ty (VCond cnd) attrs c X bad Hf Htail)) as [H1 H2].
  split; [exact H1|]. unfold rejected_at, replaced. subst ds k. unfold ind.
  replace (head ++ bad) with (of_string n ++ [32; 61; 32] ++ r_ftype T st ty ++ X) by (subst X head; rewrite <- !app_assoc; reflexivity).
  rewrite H2. f_equal. f_equal. subst X head. len_tac.
Qed.

(* [C11] `trailing-text` on ANY plain member without condition (any name): `name = type X`, error at X *)
Theorem member_trailing_text_all_doc X pre s post fs1 n ty attrs c fs2 :
  strip_prefix (kw_if T) X = None -> stops is_ws X = true -> X <> [] -> plainc X = true ->
  wf_doc_with T (pre ++ IDecl (DStruct s) :: post) = true -> s_fields s = fs1 ++ Field n ty VNone DispNone attrs c :: fs2 ->
  let f := Field n ty VNone DispNone attrs c in
  let ds := pre ++ IDecl (DStruct s) :: post in let k := member_line st pre s fs1 f in
  let head := of_string n ++ [32; 61; 32] ++ r_ftype T st ty ++ [32] in
  nth_error (tlines T st ds) k = Some (PStmt ind (r_field T st f))
  /\ rejected_at (replaced ds k (head ++ X)) (1 + Z.of_nat k) (len ind + 1 + len head).
Proof.
  intros Hif Hws Hne Hp Hwf Hs f ds k head. pose proof (wf_member pre s post fs1 f fs2 Hwf Hs) as Hf.
  pose proof Hf as Hf'. cbn [wf_field] in Hf'. apply andb_true_iff in Hf' as [_ H]. apply andb_true_iff in H as [H _]. apply andb_true_iff in H as [H _].
  apply andb_true_iff in H as [_ Hty]. fold (wf_plain_type T ty) in Hty.
  assert (Hc' : pline_ok (PStmt ind (of_string n ++ [32; 61; 32] ++ r_ftype T st ty ++ [32] ++ X)) = true).
  { apply (pline_ok_field_line f n _ Hf eq_refl). rewrite !plainc_app, (plainc_ftype T Hok st ty Hty), Hp. reflexivity. }
  assert (Htail : p_field_tail T (32 :: r_ftype T st ty ++ [32] ++ X) = LErr X).
  { rewrite p_field_tail_type by (try exact Hty; reflexivity). unfold p_cond_opt. cbn [app skip_ws]. replace (is_ws 32) with true by reflexivity.
    rewrite (skip_ws_stop X Hws), Hif. cbn [lbind]. unfold finish. cbn [skip_ws]. replace (is_ws 32) with true by reflexivity.
    rewrite (skip_ws_stop X Hws). destruct X; [contradiction|reflexivity]. }
  destruct (member_line_replaced Hmerged st Hst Hcr pre s post fs1 f fs2 _ X Hwf Hs Hc'
              (fun ac => plain_member_tail Hmerged st ac n ty VNone attrs c ([32] ++ X) X Hf Htail)) as [H1 H2].
  split; [exact H1|]. unfold rejected_at, replaced. subst ds k. unfold ind.
  replace (head ++ X) with (of_string n ++ [32; 61; 32] ++ r_ftype T st ty ++ [32] ++ X) by (subst head; rewrite <- !app_assoc; reflexivity).
  rewrite H2. f_equal. f_equal. subst head. len_tac.
Qed.

(* [C11] `unknown-function` and the like on members named `__value__`: `__value__ = X` *)
Theorem member_value_bad_operand_doc X pre s post fs1 n ty v attrs c fs2 :
  stops is_ws X = true -> plainc X = true -> raw_type T X = None -> raw_intty T X = None -> strip_prefix (kw_array T) X = None ->
  of_string n = value_placeholder T ->
  wf_doc_with T (pre ++ IDecl (DStruct s) :: post) = true -> s_fields s = fs1 ++ Field n ty v DispNone attrs c :: fs2 ->
  let f := Field n ty v DispNone attrs c in let ds := pre ++ IDecl (DStruct s) :: post in let k := member_line st pre s fs1 f in
  nth_error (tlines T st ds) k = Some (PStmt ind (r_field T st f))
  /\ rejected_at (replaced ds k (of_string n ++ [32; 61; 32] ++ X)) (1 + Z.of_nat k) (len ind + 1 + len (of_string n) + 3).
Proof.
  intros Hws Hp Ht Hi Ha Hvp Hwf Hs f ds k. pose proof (wf_member pre s post fs1 f fs2 Hwf Hs) as Hf.
  assert (Hc' : pline_ok (PStmt ind (of_string n ++ [32; 61; 32] ++ X)) = true).
  { apply (pline_ok_field_line f n _ Hf eq_refl). rewrite plainc_app, Hp. reflexivity. }
  assert (Hbad : forall ac, parse_member_line T (has_attrs f) ac (of_string n ++ [32; 61; 32] ++ X) = LErr X).
  { intro ac. rewrite Hvp. apply (member_value_tail Hmerged). apply (p_field_tail_bad X Hws Ht Hi Ha). }
  destruct (member_line_replaced Hmerged st Hst Hcr pre s post fs1 f fs2 _ X Hwf Hs Hc' Hbad) as [H1 H2].
  split; [exact H1|]. unfold rejected_at, replaced. subst ds k. unfold ind. rewrite H2. f_equal. f_equal. len_tac.
Qed.

End DocOps.

End RejectBody.
