(* Proofs about Cats/Syntax.v, part 6 (C11): the final line end deleted from a document whose LAST ITEM IS A FREE COMMENT (the case
   left open by SyntaxRejectProofs.final_line_end_rejected): the comment token is not terminated, the text is rejected at the end
   with the line on which the comment starts. *)
From Coq Require Import ZArith List Bool String Ascii Lia ZifyBool.
From Symv Require Import Base.Bytes Cats.Ast Cats.Syntax Cats.SyntaxLexProofs Cats.SyntaxProofs Cats.SyntaxRejectProofs.
Import ListNotations.
Open Scope list_scope.
Open Scope Z_scope.

Section Eof.
Variable T : terms.
Hypothesis Hok : terms_ok T = true.

Definition is_pcomment (p : pline) : bool := match p with PComment _ _ => true | _ => false end.
(* the last line (if any) is not a comment line *)
Fixpoint ends_plain (tl : list pline) : bool := match tl with [] => true | [p] => negb (is_pcomment p) | _ :: r => ends_plain r end.

Lemma ends_plain_cons p q r : ends_plain (p :: q :: r) = ends_plain (q :: r).
Proof. reflexivity. Qed.
Lemma ends_plain_app a b : b <> [] -> ends_plain (a ++ b) = ends_plain b.
Proof.
  intro Hb. induction a as [|x a IH]; [reflexivity|]. change ((x :: a) ++ b) with (x :: a ++ b).
  destruct (a ++ b) as [|y r] eqn:E; [apply app_eq_nil in E as [_ E]; contradiction|]. rewrite ends_plain_cons. exact IH.
Qed.
Lemma ends_plain_blanks n : ends_plain (blanks n) = true.
Proof. induction n as [|n IH]; [reflexivity|]. cbn [blanks repeat]. fold (blanks n). destruct n; [reflexivity|exact IH]. Qed.
Lemma ends_plain_tail a p n : is_pcomment p = false -> ends_plain (a ++ p :: blanks n) = true.
Proof.
  intro Hp. rewrite ends_plain_app by discriminate. destruct n; [cbn; rewrite Hp; reflexivity|]. cbn [blanks repeat]. fold (blanks n).
  rewrite ends_plain_cons. apply (ends_plain_blanks (S n)).
Qed.

(* --- look-ahead over tagged lines followed by arbitrary pieces *)
Lemma peek_indent_app cr tl1 ps2 tail : cr_shape cr -> forallb pline_ok tl1 = true ->
  peek_indent T (phys cr tl1 ++ ps2) tail = tpeek_with T tl1 (peek_indent T ps2 tail).
Proof.
  intro Hcr. induction tl1 as [|p tl1 IH]; intro H; [reflexivity|].
  cbn [forallb] in H. apply andb_true_iff in H as [Hp Htl]. cbn [phys map app peek_indent]. fold (phys cr tl1).
  rewrite (classify_tagged T Hok cr p Hcr Hp). destruct p; cbn [tpeek_with]; auto.
Qed.
Lemma peek_comment_app cr q tl1 ps2 tail : cr_shape cr -> pline_ok q = true ->
  peek_comment (phys cr (q :: tl1) ++ ps2) tail = tnext_comment (q :: tl1).
Proof.
  intros Hcr Hq. unfold peek_comment. cbn [phys map app]. rewrite (classify_tagged T Hok cr q Hcr Hq). destruct q; reflexivity.
Qed.

Lemma zlen_cons {A} (x : A) l : zlen (x :: l) = 1 + zlen l.
Proof. unfold zlen. cbn [length]. lia. Qed.

(* the logical lines of tagged lines that do not end in a comment line do not depend on what follows, except for its indentation *)
Lemma group_prefix cr tl1 : cr_shape cr -> forallb pline_ok tl1 = true -> ends_plain tl1 = true -> forall d,
  exists GP1 : Z -> list lline, forall ps2 tail ln, peek_indent T ps2 tail = d ->
    group T ln (phys cr tl1 ++ ps2) tail = GP1 ln ++ group T (ln + zlen tl1) ps2 tail /\ (tnext_comment tl1 = true -> GP1 ln <> []).
Proof.
  intros Hcr. induction tl1 as [|p tl1 IH]; intros Hall Hends d.
  - exists (fun _ => []). intros ps2 tail ln _. unfold zlen. cbn [length app phys map]. rewrite Z.add_0_r. split; [reflexivity|discriminate].
  - cbn [forallb] in Hall. apply andb_true_iff in Hall as [Hp Htl].
    assert (Hends' : ends_plain tl1 = true) by (destruct tl1 as [|q r]; [reflexivity|rewrite ends_plain_cons in Hends; exact Hends]).
    destruct (IH Htl Hends' d) as [GP1' HG].
    destruct p as [|ind t|ind c].
    + exists (fun ln => GP1' (ln + 1)). intros ps2 tail ln Hd. destruct (HG ps2 tail (ln + 1) Hd) as [E _].
      change (phys cr (PBlank :: tl1) ++ ps2) with ((untag PBlank ++ cr) :: (phys cr tl1 ++ ps2)). cbn [group].
      replace (ln + zlen (PBlank :: tl1)) with (ln + 1 + zlen tl1) by (rewrite (zlen_cons PBlank); ring).
      rewrite (classify_tagged T Hok cr PBlank Hcr Hp), E.
      split; [reflexivity|discriminate].
    + destruct tl1 as [|q r]; [discriminate|]. cbn [forallb] in Htl. pose proof Htl as Htl0. apply andb_true_iff in Htl as [Hq _].
      exists (fun ln => if tnext_comment (q :: r) then add_comment_pos ln (len ind + 1) (untag (PComment ind t) ++ cr) (GP1' (ln + 1))
                        else {| l_line := ln; l_col0 := len ind + 1; l_end := (ln, len (untag (PComment ind t) ++ cr) + 1);
                                l_m := {| m_body := MComment [untag (PComment ind t) ++ cr]; m_next := Some (tpeek_with T (q :: r) d) |} |} :: GP1' (ln + 1)).
      intros ps2 tail ln Hd. destruct (HG ps2 tail (ln + 1) Hd) as [E Hne].
      change (phys cr (PComment ind t :: q :: r) ++ ps2) with ((untag (PComment ind t) ++ cr) :: (phys cr (q :: r) ++ ps2)). cbn [group].
      replace (ln + zlen (PComment ind t :: q :: r)) with (ln + 1 + zlen (q :: r)) by (rewrite (zlen_cons (PComment ind t)); ring).
      rewrite (classify_tagged T Hok cr (PComment ind t) Hcr Hp), (peek_comment_app cr q r ps2 tail Hcr Hq), E.
      rewrite (peek_indent_app cr (q :: r) ps2 tail Hcr Htl0), Hd.
      destruct (tnext_comment (q :: r)) eqn:Hnc.
      * split; [apply add_comment_pos_app; apply Hne; reflexivity|]. intros _. specialize (Hne eq_refl). destruct (GP1' (ln + 1)); [contradiction|discriminate].
      * split; [reflexivity|discriminate].
    + exists (fun ln => {| l_line := ln; l_col0 := len ind + 1; l_end := (ln, len ind + len c + 1);
                           l_m := {| m_body := MStmt c; m_next := Some (tpeek_with T tl1 d) |} |} :: GP1' (ln + 1)).
      intros ps2 tail ln Hd. destruct (HG ps2 tail (ln + 1) Hd) as [E _].
      change (phys cr (PStmt ind c :: tl1) ++ ps2) with ((untag (PStmt ind c) ++ cr) :: (phys cr tl1 ++ ps2)). cbn [group].
      replace (ln + zlen (PStmt ind c :: tl1)) with (ln + 1 + zlen tl1) by (rewrite (zlen_cons (PStmt ind c)); ring).
      rewrite (classify_tagged T Hok cr (PStmt ind c) Hcr Hp), E.
      rewrite (peek_indent_app cr tl1 ps2 tail Hcr Htl), Hd. split; [reflexivity|discriminate].
Qed.

(* comment lines followed by an unterminated comment line: one comment token without line end *)
Lemma group_comment_tail cr C tail ws : cr_shape cr -> forallb pline_ok C = true -> forallb is_pcomment C = true ->
  classify_tail tail = (ws, KComment) -> forall ln,
  exists L, group T ln (phys cr C) tail = [L] /\ l_line L = ln /\ is_comment (m_body (l_m L)) = true /\ m_next (l_m L) = None.
Proof.
  intros Hcr Hall Hcm Hc. induction C as [|p C IH]; intro ln.
  - cbn [phys map group mgroup]. rewrite Hc. cbn [map]. eexists. split; [reflexivity|]. repeat split.
  - cbn [forallb] in Hall, Hcm. apply andb_true_iff in Hall as [Hp Hall]. apply andb_true_iff in Hcm as [Hpc Hcm].
    destruct p as [|ind t|ind c]; try discriminate.
    assert (Hpk : peek_comment (phys cr C) tail = true).
    { destruct C as [|q r]; [unfold peek_comment; cbn [phys map]; rewrite Hc; reflexivity|].
      cbn [forallb] in Hall, Hcm. apply andb_true_iff in Hall as [Hq _]. apply andb_true_iff in Hcm as [Hqc _].
      rewrite <- (app_nil_r (phys cr (q :: r))), (peek_comment_app cr q r [] tail Hcr Hq). destruct q; try discriminate; reflexivity. }
    destruct (IH Hall Hcm (ln + 1)) as [L [E [HL [Hb Hn]]]].
    cbn [phys map group]. fold (phys cr C). rewrite (classify_tagged T Hok cr (PComment ind t) Hcr Hp), Hpk, E.
    cbn [add_comment_pos]. eexists. split; [reflexivity|]. cbn [l_line l_m].
    destruct (l_m L) as [[lines|core] nx]; cbn [m_body is_comment m_next] in *; try discriminate. subst nx. repeat split.
Qed.

Lemma on_comment_any S c1 S1 : on_comment S c1 = SOk S1 -> forall c2, exists S2, on_comment S c2 = SOk S2.
Proof.
  intros H c2. destruct S as [acc pc pa|acc h|acc h|acc h fields pc pa|acc h vals pc]; cbn [on_comment] in *; try discriminate.
  - destruct pa; try discriminate. eexists. reflexivity.
  - destruct pa; try discriminate. eexists. reflexivity.
  - eexists. reflexivity.
Qed.

Lemma classify_tail_comment t : head_is 35 t = true -> classify_tail t = ([], KComment).
Proof.
  intro H. destruct t as [|x r]; [discriminate|]. cbn [head_is] in H. apply Z.eqb_eq in H. subst x. reflexivity.
Qed.

(* --- the text: lines tlB, then a block of comment lines at column 0 whose last line has lost its line end *)
Theorem final_comment_line_end_deleted cr tlB texts0 tlast n v :
  cr_shape cr -> forallb pline_ok (tlB ++ map (PComment []) (texts0 ++ [tlast]) ++ PBlank :: blanks n) = true -> ends_plain tlB = true ->
  (forall q l, tlB ++ map (PComment []) (texts0 ++ [tlast]) = q :: l -> q <> PBlank) ->
  machine0 T (tgroup T cr (tlB ++ map (PComment []) (texts0 ++ [tlast]) ++ PBlank :: blanks n)) = MOk v ->
  parse_with T (text_of cr (tlB ++ map (PComment []) texts0) ++ tlast) = Error {| e_line := 1 + zlen tlB; e_col := 0; e_kind := EEnd |}.
Proof.
  intros Hcr Hall Hends Hhead Hgood.
  set (R := map (PComment []) (texts0 ++ [tlast]) ++ PBlank :: blanks n) in *.
  rewrite forallb_app in Hall. apply andb_true_iff in Hall as [HokB HokR].
  assert (HokC : forallb pline_ok (map (PComment []) (texts0 ++ [tlast])) = true).
  { subst R. rewrite forallb_app in HokR. apply andb_true_iff in HokR as [H _]. exact H. }
  rewrite map_app, forallb_app in HokC. apply andb_true_iff in HokC as [HokC0 Hlast]. cbn [map forallb] in Hlast. apply andb_true_iff in Hlast as [Hlast _].
  cbn [pline_ok ws_only forallb andb] in Hlast. apply andb_true_iff in Hlast as [Hh35 Hnolf].
  pose proof (classify_tail_comment tlast Hh35) as Hct.
  (* the groupings *)
  destruct (group_prefix cr tlB Hcr HokB Hends 0) as [GP1 HG].
  assert (Hd_bad : peek_indent T (phys cr (map (PComment []) texts0)) tlast = 0).
  { destruct texts0 as [|t0 ts]; [cbn [map phys peek_indent]; rewrite Hct; reflexivity|].
    cbn [map forallb] in HokC0. apply andb_true_iff in HokC0 as [H0 _]. cbn [map phys peek_indent].
    rewrite (classify_tagged T Hok cr (PComment [] t0) Hcr H0). reflexivity. }
  assert (Hd_good : peek_indent T (phys cr R) [] = 0).
  { rewrite (peek_indent_tagged T Hok cr R Hcr HokR). subst R. destruct texts0; reflexivity. }
  destruct (HG (phys cr (map (PComment []) texts0)) tlast 1 Hd_bad) as [Ebad _].
  destruct (HG (phys cr R) [] 1 Hd_good) as [Egood _].
  destruct (group_comment_tail cr (map (PComment []) texts0) tlast [] Hcr HokC0) with (ln := 1 + zlen tlB) as [L [EL [HL [HLb HLn]]]].
  { apply forallb_forall. intros x Hx. apply in_map_iff in Hx as [y [<- _]]. reflexivity. }
  { exact Hct. }
  (* the good run reaches the comment and accepts it *)
  assert (HmR : map l_m (group T (1 + zlen tlB) (phys cr R) []) = [{| m_body := MComment (cblock cr [] (texts0 ++ [tlast])); m_next := Some 0 |}]).
  { rewrite group_mgroup, (mgroup_tagged T Hok cr R Hcr HokR). subst R. rewrite tgroup_comments; [|destruct texts0; discriminate|reflexivity].
    cbn [tgroup tpeek]. rewrite tgroup_blanks_nil, (tpeek_blanks_nil T). reflexivity. }
  assert (Hall2 : forallb pline_ok (tlB ++ R) = true) by (rewrite forallb_app, HokB, HokR; reflexivity).
  assert (Hg : tgroup T cr (tlB ++ R) = map l_m (GP1 1) ++ [{| m_body := MComment (cblock cr [] (texts0 ++ [tlast])); m_next := Some 0 |}]).
  { rewrite <- (mgroup_tagged T Hok cr (tlB ++ R) Hcr Hall2), <- (group_mgroup T _ 1 []). unfold phys at 1. rewrite map_app. fold (phys cr tlB). fold (phys cr R).
    rewrite Egood, map_app, HmR. reflexivity. }
  unfold machine0 in Hgood. rewrite Hg, (machine_app T) in Hgood.
  destruct (mrun T (STop [] None PaNone) [0] false 0 (map l_m (GP1 1))) as [[[[S stack] ac] i']|j d] eqn:Hrun; [|discriminate].
  pose proof (mrun_index T Hok _ _ _ _ _ _ _ _ _ Hrun) as Hi. cbn [Nat.add] in Hi. rewrite map_length in Hi.
  cbn [machine m_body deliver] in Hgood.
  destruct (on_comment S (comment_parse T (comment_text_lines (cblock cr [] (texts0 ++ [tlast]))))) as [S1|d] eqn:Hdel; [|discriminate].
  (* parse *)
  unfold parse_with, text_of.
  pose proof (split_lines_tail (map untag (tlB ++ map (PComment []) texts0)) cr tlast) as Hsplit.
  rewrite flat_map_concat_map, map_map, <- flat_map_concat_map in Hsplit.
  destruct (split_lf (flat_map (fun p => untag p ++ cr ++ [10]) (tlB ++ map (PComment []) texts0) ++ tlast)) as [p ps].
  rewrite Hsplit.
  2:{ apply forallb_forall. intros l Hin. apply in_map_iff in Hin as [x [<- Hx]]. apply (pline_nolf T Hok).
      apply in_app_or in Hx as [Hx|Hx]; [rewrite forallb_forall in HokB; apply HokB, Hx|rewrite forallb_forall in HokC0; apply HokC0, Hx]. }
  2:{ destruct Hcr as [->| ->]; reflexivity. }
  2:{ exact Hnolf. }
  rewrite map_map. fold (phys cr (tlB ++ map (PComment []) texts0)).
  assert (Hphys : phys cr (tlB ++ map (PComment []) texts0) = phys cr tlB ++ phys cr (map (PComment []) texts0)) by (unfold phys; apply map_app).
  assert (Hres : match machine T (STop [] None PaNone) [0] false 0 (map l_m (group T 1 (phys cr (tlB ++ map (PComment []) texts0)) tlast)) with
                 | MOk v0 => Ok v0
                 | MErr i d => Error (pos_of (group T 1 (phys cr (tlB ++ map (PComment []) texts0)) tlast) i d)
                 end = Error {| e_line := 1 + zlen tlB; e_col := 0; e_kind := EEnd |}).
  { rewrite Hphys, Ebad, EL, map_app, (machine_app T), Hrun. cbn [map machine]. 
    destruct (l_m L) as [[lines|core] nx] eqn:ELm; cbn [m_body is_comment m_next] in HLb, HLn; [|discriminate]. subst nx. cbn [m_body deliver m_next].
    destruct (on_comment_any S _ S1 Hdel (comment_parse T (comment_text_lines lines))) as [S2 E2]. rewrite E2, Hi.
    unfold pos_of. rewrite nth_error_app2, Nat.sub_diag by apply le_n. cbn [nth_error]. rewrite HL. reflexivity. }
  destruct (phys cr (tlB ++ map (PComment []) texts0)) as [|p0 pieces] eqn:Ephys; [exact Hres|].
  assert (Hnb : is_blank_piece p0 = false).
  { destruct (tlB ++ map (PComment []) texts0) as [|q l] eqn:Etl; [discriminate|]. cbn [phys map] in Ephys. inversion Ephys. subst p0.
    assert (Hq : pline_ok q = true).
    { assert (Hin : In q (tlB ++ map (PComment []) texts0)) by (rewrite Etl; left; reflexivity).
      apply in_app_or in Hin as [Hx|Hx]; [rewrite forallb_forall in HokB; apply HokB, Hx|rewrite forallb_forall in HokC0; apply HokC0, Hx]. }
    unfold is_blank_piece. rewrite (classify_tagged T Hok cr q Hcr Hq).
    assert (Hqb : q <> PBlank).
    { apply (Hhead q (l ++ [PComment [] tlast])). rewrite map_app, app_assoc, Etl. reflexivity. }
    destruct q; [contradiction|reflexivity|reflexivity]. }
  rewrite Hnb. exact Hres.
Qed.

(* --- the lines of a rendered comment *)
Lemma seg_line_in seg l : In l (seg_line seg) -> seg <> [] /\ l = [35; 32] ++ seg.
Proof. destruct seg as [|x r]; [contradiction|]. intros [<-|[]]. split; [discriminate|reflexivity]. Qed.
Lemma clines_rest_in r l : In l (clines_rest r) -> l = [35] \/ exists seg, In seg r /\ seg <> [] /\ l = [35; 32] ++ seg.
Proof.
  induction r as [|s r IH]; [contradiction|]. cbn [clines_rest]. intros [<-|H]; [left; reflexivity|].
  apply in_app_or in H as [H|H].
  - destruct (seg_line_in s l H) as [Hne ->]. right. exists s. split; [left; reflexivity|split; [exact Hne|reflexivity]].
  - destruct (IH H) as [->|[seg [Hin [Hne ->]]]]; [left; reflexivity|]. right. exists seg. split; [right; exact Hin|split; [exact Hne|reflexivity]].
Qed.

Lemma comment_line_last c l : wf_comment_text T c = true -> in_set (comment_strip T) 13 = true -> In l (clines (Some c)) -> last l 0 <> 13.
Proof.
  unfold wf_comment_text, clines. destruct (of_string c) as [|x0 r0]; [discriminate|]. destruct (split_lf (x0 :: r0)) as [s r].
  intros Hwf H13 Hin. apply andb_true_iff in Hwf as [Hs Hr].
  assert (Hcases : l = [35] \/ exists seg, seg_ok T seg = true /\ seg <> [] /\ l = [35; 32] ++ seg).
  { apply in_app_or in Hin as [H|H].
    - destruct (seg_line_in s l H) as [Hne ->]. right. exists s. repeat split; assumption.
    - destruct (clines_rest_in r l H) as [->|[seg [Hi [Hne ->]]]]; [left; reflexivity|]. right. exists seg.
      rewrite forallb_forall in Hr. repeat split; [apply Hr, Hi|exact Hne]. }
  destruct Hcases as [->|[seg [Hok_s [Hne ->]]]]; [discriminate|].
  rewrite last_app_ne by exact Hne. destruct seg as [|y r']; [contradiction|]. cbn [seg_ok] in Hok_s. apply andb_true_iff in Hok_s as [_ Hl].
  apply negb_true_iff in Hl. intro E. rewrite E, H13 in Hl. discriminate.
Qed.

Lemma tlines_ends_plain st ds : forallb (wf_item T) ds = true -> ends_plain (tlines T st ds) = true.
Proof.
  intro Hwf. destruct ds as [|x0 ds0]; [reflexivity|]. destruct (exists_last (l := x0 :: ds0) ltac:(discriminate)) as [ds' [it E]]. rewrite E in *. clear E.
  rewrite forallb_app in Hwf. apply andb_true_iff in Hwf as [_ Hit]. cbn [forallb] in Hit. apply andb_true_iff in Hit as [Hit _].
  unfold tlines. rewrite flat_map_app. cbn [flat_map]. rewrite app_nil_r.
  destruct it as [d|p|c].
  - destruct (item_ends_with_stmt T st (IDecl d) ltac:(discriminate)) as [tl [ind [c [n E]]]].
    { destruct d as [| |s]; try exact I. cbn [wf_item wf_decl] in Hit. apply andb_true_iff in Hit as [Hit _]. apply andb_true_iff in Hit as [_ Hit].
      destruct (s_fields s); [discriminate|discriminate]. }
    rewrite E, app_assoc. apply ends_plain_tail. reflexivity.
  - unfold item_tlines. cbn [app]. change (PStmt [] (r_import T p) :: blanks (st_blank_top st)) with ([] ++ PStmt [] (r_import T p) :: blanks (st_blank_top st)).
    rewrite app_assoc. apply ends_plain_tail. reflexivity.
  - unfold item_tlines. rewrite <- app_assoc. cbn [app]. rewrite app_assoc. apply ends_plain_tail. reflexivity.
Qed.

(* [C11] the final line end deleted from a document whose last item is a free comment *)
Theorem final_line_end_rejected_comment st ds0 c :
  comment_merged T = false -> in_set (comment_strip T) 13 = true -> wf_style st = true -> wf_doc_with T (ds0 ++ [IComment c]) = true ->
  parse_with T (delete_final_line_end (render_with T st (ds0 ++ [IComment c])))
  = Error {| e_line := 1 + zlen (tlines T st ds0); e_col := 0; e_kind := EEnd |}.
Proof.
  intros Hm H13 Hst Hwf. destruct (wf_doc_items T _ Hwf) as [Hitems _]. pose proof Hitems as Hitems0.
  rewrite forallb_app in Hitems. apply andb_true_iff in Hitems as [Hpre Hc]. cbn [forallb wf_item] in Hc. apply andb_true_iff in Hc as [Hc _].
  pose proof (wf_comment_clines T Hok (Some c) Hc ltac:(discriminate)) as Hne.
  destruct (exists_last Hne) as [texts0 [tlast Etexts]].
  set (tlB := tlines T st ds0). set (n := st_blank_top st). set (cr := style_cr st).
  assert (Etl : tlines T st (ds0 ++ [IComment c]) = tlB ++ map (PComment []) (texts0 ++ [tlast]) ++ PBlank :: blanks n).
  { unfold tlines. rewrite flat_map_app. cbn [flat_map]. rewrite app_nil_r. unfold item_tlines, comment_tlines. rewrite Etexts, <- !app_assoc. reflexivity. }
  pose proof (tlines_ok T Hok st _ Hst Hitems0) as Hall. rewrite Etl in Hall.
  assert (Hlast : pline_ok (PComment [] tlast) = true).
  { rewrite forallb_forall in Hall. apply Hall. apply in_or_app. right. apply in_or_app. left. apply in_map. apply in_or_app. right. left. reflexivity. }
  cbn [pline_ok ws_only forallb andb] in Hlast. apply andb_true_iff in Hlast as [Hh35 Hnolf].
  assert (Hne_last : tlast <> []) by (destruct tlast; [discriminate|discriminate]).
  assert (Hshape : cr_shape cr) by apply style_cr_shape.
  (* the text *)
  assert (Etext : delete_final_line_end (render_with T st (ds0 ++ [IComment c])) = text_of cr (tlB ++ map (PComment []) texts0) ++ tlast).
  { rewrite (render_text_of T), Etl. fold cr. unfold delete_final_line_end.
    assert (Esplit : text_of cr (tlB ++ map (PComment []) (texts0 ++ [tlast]) ++ PBlank :: blanks n)
                     = (text_of cr (tlB ++ map (PComment []) texts0) ++ tlast) ++ (cr ++ [10]) ++ text_of cr (blanks (S n))).
    { replace (tlB ++ map (PComment []) (texts0 ++ [tlast]) ++ PBlank :: blanks n)
        with ((tlB ++ map (PComment []) texts0) ++ [PComment [] tlast] ++ blanks (S n)) by (rewrite map_app, <- !app_assoc; reflexivity).
      rewrite !text_of_app. change (text_of cr [PComment [] tlast]) with ((tlast ++ cr ++ [10]) ++ []). rewrite app_nil_r, <- !app_assoc. reflexivity. }
    rewrite Esplit.
    apply rstrip_keep.
    - intro E. apply app_eq_nil in E as [_ E]. contradiction.
    - rewrite last_app_ne by exact Hne_last.
      assert (H13' : last tlast 0 <> 13).
      { apply (comment_line_last c tlast Hc H13). rewrite Etexts. apply in_or_app. right. left. reflexivity. }
      assert (H10 : last tlast 0 <> 10).
      { pose proof (last_in tlast 0 Hne_last) as Hin. unfold nolf in Hnolf. rewrite forallb_forall in Hnolf. specialize (Hnolf _ Hin). lia. }
      unfold in_set, eol_set. cbn [existsb]. lia.
    - rewrite forallb_app, (text_of_blanks_eol cr (S n) Hshape), andb_true_r. destruct Hshape as [->| ->]; reflexivity. }
  rewrite Etext.
  apply (final_comment_line_end_deleted cr tlB texts0 tlast n (ds0 ++ [IComment c]) Hshape Hall (tlines_ends_plain st ds0 Hpre)).
  - intros q l Eq. destruct (first_line_not_blank T Hok st _ Hwf) as [p [tl' [Ep Hp]]]. rewrite Etl, app_assoc, Eq in Ep. cbn [app] in Ep.
    inversion Ep. subst. exact Hp.
  - rewrite <- Etl. apply (machine_render T Hok); try assumption. intros _. exact H13.
Qed.

End Eof.
