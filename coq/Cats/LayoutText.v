(* to_json() and __str__() of the generated codec classes, as functions of the schema and a value tree. Definitions only.
   Enum members render as "<EnumName>.<value>" (the member-name text of enum.__str__ is CPython-version dependent for flags and is
   canonicalised on the Python side to the same form). *)
From Symv Require Export Cats.LayoutInst.
Open Scope list_scope.
Open Scope Z_scope.
Open Scope string_scope.

Inductive jv := JInt (z : Z) | JStr (s : string) | JList (l : list jv) | JObj (fs : list (string * jv)).

Fixpoint r_json (j : jv) : string :=
  match j with
  | JInt z => Z_to_string z
  | JStr s => """" ++ s ++ """"
  | JList l => "[" ++ String.concat "," (map r_json l) ++ "]"
  | JObj fs => "{" ++ String.concat "," (map (fun p => fst p ++ ":" ++ r_json (snd p)) fs) ++ "}"
  end%string.

(* upper-case hex of a non-negative number, no padding (f'{x:X}') *)
Definition hex_upper_digit (d : Z) : ascii :=
  match d with
  | 0 => "0" | 1 => "1" | 2 => "2" | 3 => "3" | 4 => "4" | 5 => "5" | 6 => "6" | 7 => "7"
  | 8 => "8" | 9 => "9" | 10 => "A" | 11 => "B" | 12 => "C" | 13 => "D" | 14 => "E" | _ => "F"
  end%char.
Fixpoint hex_upper_go (fuel : nat) (x : Z) (acc : string) : string :=
  match fuel with
  | O => acc
  | S f => let acc' := String (hex_upper_digit (x mod 16)) acc in if (x <? 16)%Z then acc' else hex_upper_go f (x / 16) acc'
  end.
Definition hex_upper (x : Z) : string :=
  if (x <? 0)%Z then String "-"%char (hex_upper_go 40 (- x) EmptyString) else hex_upper_go 40 x EmptyString.
Fixpoint zero_pad (fuel : nat) (width : nat) (s : string) : string :=
  match fuel with O => s | S f => if (String.length s <? width)%nat then zero_pad f width (String "0"%char s) else s end.
Fixpoint to_hex_upper (bs : bytes) : string :=
  match bs with [] => EmptyString | b :: r => String (hex_upper_digit (b / 16)) (String (hex_upper_digit (b mod 16)) (to_hex_upper r)) end.

(* repr() of a str made of printable ASCII: single quotes unless the text has a single quote and no double quote; backslash and the
   chosen quote are escaped *)
Fixpoint has_char (c : ascii) (s : string) : bool :=
  match s with EmptyString => false | String x r => Ascii.eqb x c || has_char c r end.
Fixpoint escape_for (q : ascii) (s : string) : string :=
  match s with
  | EmptyString => EmptyString
  | String x r =>
    if Ascii.eqb x "\"%char then String "\"%char (String "\"%char (escape_for q r))
    else if Ascii.eqb x q then String "\"%char (String x (escape_for q r))
    else String x (escape_for q r)
  end.
Definition py_repr (s : string) : string :=
  let q := if has_char "'"%char s && negb (has_char (ascii_of_N 34) s) then ascii_of_N 34 else "'"%char in
  String q (escape_for q s ++ String q EmptyString).

(* printable_field_name: printer name with trailing underscores dropped; the printer name adds one to type/property *)
Definition printable (n : string) : string := n.

Section WithSchema.
Variable tm : list decl.
Let OP := ops_now.

Definition m_size (fuel : nat) := size OP tm fuel.

(* BaseValue.to_json: str(value) if 8 <= size else value; IntPrinter.to_json: str(x) if size == 8 *)
Definition json_int (size_ : Z) (z : Z) : jv := if (8 <=? size_)%Z then JStr (Z_to_string z) else JInt z.
Definition json_int_member (size_ : Z) (z : Z) : jv := if (size_ =? 8)%Z then JStr (Z_to_string z) else JInt z.

(* BaseValue.__str__: 0x + zero-padded upper hex of the unsigned view *)
Definition str_base_value (size_ : Z) (z : Z) : string :=
  "0x" ++ zero_pad 40 (Z.to_nat (2 * size_)) (hex_upper z).

Fixpoint json (fuel : nat) (t : string) (v : value) {struct fuel} : result jv :=
  match fuel with
  | O => Crash "OutOfFuel"
  | S k =>
    match v with
    | VStruct cls _ =>
      match lookup_struct tm cls with
      | Some s =>
        let allfs := struct_fields_nc s in
        let R := {| enc_t := enc OP tm k; size_t := size OP tm k; dec_t := no_dec; decf_t := no_dec; key_t := key OP tm k |} in
        let fix go (fs : list field) : result (list (string * jv)) :=
          match fs with
          | [] => Ok []
          | f :: r =>
            bind (cond_self tm R allfs v f) (fun c =>
            if negb c then go r else
            bind (member_value v f) (fun mv =>
            bind (match f_type f, mv with
                  | FInt i, VInt z => Ok (json_int_member (it_size i) z)
                  | FName ft, VNull => Crash "AttributeError"
                  | FName ft, _ => json k ft mv
                  | FArray a, VBytes b => Ok (JStr (to_hex b))
                  | FArray a, VArr l =>
                    match elem_name a with
                    | Some et => bind ((fix each (l : list value) : result (list jv) :=
                                          match l with [] => Ok [] | e :: r' => bind (json k et e) (fun j => bind (each r') (fun js => Ok (j :: js))) end) l)
                                   (fun js => Ok (JList js))
                    | None => unsupported
                    end
                  | _, _ => Crash "TypeError"
                  end) (fun j => bind (go r) (fun rest => Ok ((printable (f_name f), j) :: rest)))))
          end in
        bind (go (settable_fields s)) (fun fs => Ok (JObj fs))
      | None => Crash "AttributeError"
      end
    | VNull => Crash "AttributeError"
    | _ =>
      match lookup tm t, v with
      | Some (DAlias _ (LInt i) _), VInt z => Ok (json_int (it_size i) z)
      | Some (DAlias _ (LBuffer _) _), VBytes b => Ok (JStr (to_hex_upper b))
      | Some (DEnum _ b _ _ _), VInt z => Ok (json_int_member (it_size b) z)
      | _, _ => Crash "AttributeError"
      end
    end
  end.

(* __str__ *)
Fixpoint str (fuel : nat) (t : string) (v : value) {struct fuel} : result string :=
  match fuel with
  | O => Crash "OutOfFuel"
  | S k =>
    match v with
    | VStruct cls _ =>
      match lookup_struct tm cls with
      | Some s =>
        let allfs := struct_fields_nc s in
        let R := {| enc_t := enc OP tm k; size_t := size OP tm k; dec_t := no_dec; decf_t := no_dec; key_t := key OP tm k |} in
        let part (fs : list field) : result string :=
          (fix go (fs : list field) : result string :=
            match fs with
            | [] => Ok ""
            | f :: r =>
              bind (cond_self tm R allfs v f) (fun c =>
              if negb c then go r else
              bind (member_value v f) (fun mv =>
              bind (match f_type f, mv with
                    | FInt i, VInt z => Ok ("0x" ++ hex_upper z)
                    | FName ft, VNull => Crash "AttributeError"
                    | FName ft, _ => str k ft mv
                    | FArray a, VBytes b => Ok (to_hex b)
                    | FArray a, VArr l =>
                      match elem_name a with
                      | Some et => bind ((fix each (l : list value) : result (list string) :=
                                            match l with [] => Ok [] | e :: r' => bind (str k et e) (fun j => bind (each r') (fun js => Ok (j :: js))) end) l)
                                     (fun js => Ok ("[" ++ String.concat ", " (map py_repr js) ++ "]"))
                      | None => unsupported
                      end
                    | _, _ => Crash "TypeError"
                    end) (fun j => bind (go r) (fun rest => Ok (printable (f_name f) ++ ": " ++ j ++ ", " ++ rest)))))
            end) fs in
        (* a derived class prints '(' + super().__str__() + own members + ')', and super's text is itself parenthesised *)
        match base_struct tm s with
        | Some b =>
          let inherited := filter (fun f => is_inherited tm s f) (settable_fields s) in
          let own := filter (fun f => negb (is_inherited tm s f)) (settable_fields s) in
          bind (part inherited) (fun hs => bind (part own) (fun os => Ok ("((" ++ hs ++ ")" ++ os ++ ")")))
        | None => bind (part (settable_fields s)) (fun os => Ok ("(" ++ os ++ ")"))
        end
      | None => Crash "AttributeError"
      end
    | VNull => Crash "AttributeError"
    | _ =>
      match lookup tm t, v with
      | Some (DAlias _ (LInt i) _), VInt z => Ok (str_base_value (it_size i) z)
      | Some (DAlias _ (LBuffer _) _), VBytes b => Ok (to_hex_upper b)
      | Some (DEnum n _ _ _ _), VInt z => Ok (n ++ "." ++ Z_to_string z)
      | _, _ => Crash "AttributeError"
      end
    end
  end.

End WithSchema.
