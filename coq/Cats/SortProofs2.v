(* Stability of the model's sort for lists of any length, and uniqueness of the strictly ascending arrangement. *)
From Symv Require Import Base.Bytes Base.PyOps Cats.LayoutInst Cats.Sort Cats.SortProofs Cats.LayoutInstProofs.
From Coq Require Import Lia ZifyBool Permutation Sorted.
Open Scope Z_scope.

Section Stability.
Variable A : Type.
Variable lt : keyv -> keyv -> bool.
Notation pair := (keyv * A)%type.

(* a class of elements none of which is smaller than another one of the class (e.g. all elements with one key) *)
Definition unordered_class (P : pair -> bool) (l : list pair) : Prop :=
  forall p q, In p l -> In q l -> P p = true -> P q = true -> lt (fst p) (fst q) = false.

(* inserting x moves it only past elements that are smaller than x: the members of such a class keep their order.
   No property of lt is needed. *)
Lemma insert_filter (P : pair -> bool) (x : pair) (l : list pair) :
  (forall y, In y l -> P y = true -> P x = true -> lt (fst y) (fst x) = false) ->
  filter P (insert_sorted lt x l) = filter P (x :: l).
Proof.
  induction l as [|y r IH]; intros H; cbn [insert_sorted]; [reflexivity|].
  destruct (lt (fst y) (fst x)) eqn:Hyx; [|reflexivity].
  assert (IH' : filter P (insert_sorted lt x r) = filter P (x :: r)) by (apply IH; intros z Hz; apply H; now right).
  cbn [filter] in *. rewrite IH'.
  destruct (P y) eqn:Py, (P x) eqn:Px; try reflexivity.
  rewrite (H y (or_introl eq_refl) Py eq_refl) in Hyx. discriminate.
Qed.

Theorem sort_filter (P : pair -> bool) (l : list pair) : unordered_class P l -> filter P (sort_pairs lt l) = filter P l.
Proof.
  induction l as [|x l IH]; intros H; [reflexivity|].
  cbn [sort_pairs fold_right]. fold (sort_pairs lt l).
  rewrite insert_filter.
  - cbn [filter]. rewrite IH; [reflexivity|]. intros p q Hp Hq. apply H; now right.
  - intros y Hy Py Px. apply H; [right; eapply Permutation_in; [apply sort_perm | exact Hy] | now left | exact Py | exact Px].
Qed.

(* stability in the relational form: two elements of one class that occur in this order in the input (x before y: l = l1 ++ x :: l2 ++ y :: l3)
   occur in this order in the result *)
Lemma filter_split (P : pair -> bool) (l l1 l2 l3 : list pair) x y :
  filter P l = l1 ++ x :: l2 ++ y :: l3 ->
  exists m1 m2 m3, l = m1 ++ x :: m2 ++ y :: m3.
Proof.
  revert l1. induction l as [|z l IH]; intros l1 H; cbn [filter] in H.
  - destruct l1; discriminate.
  - destruct (P z) eqn:Pz.
    + destruct l1 as [|a l1]; cbn [app] in H.
      * injection H as -> H. clear IH.
        assert (Hin : In y (filter P l)) by (rewrite H; apply in_or_app; right; now left).
        apply filter_In in Hin as [Hin _]. apply in_split in Hin as (m2 & m3 & ->).
        exists [], m2, m3. reflexivity.
      * injection H as -> H. destruct (IH l1 H) as (m1 & m2 & m3 & ->). exists (a :: m1), m2, m3. reflexivity.
    + destruct (IH l1 H) as (m1 & m2 & m3 & ->). exists (z :: m1), m2, m3. reflexivity.
Qed.
End Stability.
Arguments unordered_class {A}.

(* ---- Python's == on flat keys is equality ---- *)
Lemma key_eq_atom_eq a b : is_atom a = true -> key_eq a b = atom_eq a b.
Proof. destruct a, b; cbn; try discriminate; reflexivity. Qed.

Lemma tuple_go_eq x : forall y, forallb is_atom x = true ->
  (fix go (x y : list keyv) {struct x} : bool :=
     match x, y with [] , [] => true | p :: x', q :: y' => key_eq p q && go x' y' | _, _ => false end) x y = true -> x = y.
Proof.
  induction x as [|p x IH]; intros [|q y]; try discriminate; [reflexivity|].
  intros Ha H. cbn [forallb] in Ha. apply Bool.andb_true_iff in Ha as [Hp Hx]. apply Bool.andb_true_iff in H as [Hpq Hxy].
  rewrite (key_eq_atom_eq p q Hp) in Hpq. apply atom_eq_eq in Hpq. subst q. f_equal. now apply IH.
Qed.

Lemma key_eq_eq a b : flat_key a = true -> key_eq a b = true -> a = b.
Proof.
  destruct a, b; cbn [flat_key key_eq]; try discriminate; intros Hf H.
  - f_equal. lia.
  - f_equal. now apply bytes_eq_eq.
  - f_equal. now apply tuple_go_eq.
Qed.

Lemma tuple_go_eq_refl x : forallb is_atom x = true ->
  (fix go (x y : list keyv) {struct x} : bool :=
     match x, y with [] , [] => true | p :: x', q :: y' => key_eq p q && go x' y' | _, _ => false end) x x = true.
Proof.
  induction x as [|p x IH]; [reflexivity|]. intros Ha. cbn [forallb] in Ha. apply Bool.andb_true_iff in Ha as [Hp Hx].
  rewrite (key_eq_atom_eq p p Hp), (atom_eq_refl p Hp), (IH Hx). reflexivity.
Qed.

Lemma key_eq_refl a : flat_key a = true -> key_eq a a = true.
Proof.
  destruct a; cbn [flat_key key_eq]; intros Hf; [apply Z.eqb_refl | apply bytes_eq_refl | now apply tuple_go_eq_refl].
Qed.

(* ---- the model's sort with Python's < is stable on every list ---- *)
Theorem sort_stable_now {A} (l : list (keyv * A)) (k : keyv) : shape_ok (map fst l) ->
  filter (fun p => key_eq (fst p) k) (sort_pairs key_lt l) = filter (fun p => key_eq (fst p) k) l.
Proof.
  intros Hshape. apply sort_filter. intros p q Hp Hq Pp Pq. cbn beta in Pp, Pq.
  destruct (Hshape (fst p) (fst q) (in_map fst l p Hp) (in_map fst l q Hq)) as [Hf Hs].
  destruct (Hshape (fst q) (fst p) (in_map fst l q Hq) (in_map fst l p Hp)) as [Hf' _].
  apply (key_eq_eq _ _ Hf) in Pp. apply (key_eq_eq _ _ Hf') in Pq.
  unfold key_lt. rewrite (key_cmp_lt_spec _ _ Hf Hs), Pp, Pq. apply key_lt_spec_irrefl.
Qed.

(* the same for any class of mutually unordered elements and ANY comparison (no premise on the keys) *)
Theorem sort_stable_class_now {A} (P : keyv * A -> bool) (l : list (keyv * A)) :
  unordered_class key_lt P l -> filter P (sort_pairs key_lt l) = filter P l.
Proof. apply sort_filter. Qed.

(* the standard formulation: ordered, a rearrangement, and equal keys in input order *)
Theorem sort_sorted_perm_stable_now {A} (l : list (keyv * A)) : shape_ok (map fst l) ->
  Sorted (fun p q => key_lt_spec (fst q) (fst p) = false) (sort_pairs key_lt l)
  /\ Permutation (sort_pairs key_lt l) l
  /\ forall k, filter (fun p => key_eq (fst p) k) (sort_pairs key_lt l) = filter (fun p => key_eq (fst p) k) l.
Proof.
  intros Hshape. split; [|split; [apply sort_perm | intro k; now apply sort_stable_now]].
  rewrite (sort_key_lt_is_spec l Hshape). exact (sort_sorted A key_lt_spec key_lt_spec_asym l).
Qed.

(* relational reading: x before y in the input, equal keys => x before y in the output *)
Theorem sort_keeps_relative_order_now {A} (l l1 l2 l3 : list (keyv * A)) x y : shape_ok (map fst l) ->
  l = l1 ++ x :: l2 ++ y :: l3 -> fst x = fst y ->
  exists m1 m2 m3, sort_pairs key_lt l = m1 ++ x :: m2 ++ y :: m3.
Proof.
  intros Hshape Hl Hxy.
  assert (Hx : In x l) by (rewrite Hl; apply in_or_app; right; now left).
  assert (Hfx : flat_key (fst x) = true) by (apply (Hshape (fst x) (fst x)); now apply in_map).
  pose proof (sort_stable_now l (fst x) Hshape) as H.
  rewrite Hl in H at 2. rewrite filter_app in H. cbn [filter] in H. rewrite filter_app in H. cbn [filter] in H.
  rewrite <- Hxy in H. rewrite (key_eq_refl _ Hfx) in H.
  eapply filter_split. exact H.
Qed.

(* ---- a strictly ascending arrangement is unique ---- *)
Lemma strict_sorted_strongly {A} (l : list (keyv * A)) :
  Sorted (fun p q => key_lt_spec (fst p) (fst q) = true) l -> StronglySorted (ascending A key_lt_spec) l.
Proof. intros H. apply Sorted_StronglySorted; [intros p q r; apply key_lt_spec_trans | exact H]. Qed.

Theorem strict_sorted_perm_unique {A} (l l' : list (keyv * A)) :
  Sorted (fun p q => key_lt_spec (fst p) (fst q) = true) l -> Sorted (fun p q => key_lt_spec (fst p) (fst q) = true) l' ->
  Permutation l l' -> l = l'.
Proof.
  intros Hs Hs' Hp. apply (strongly_sorted_unique A key_lt_spec key_lt_spec_asym); [now apply strict_sorted_strongly | now apply strict_sorted_strongly | exact Hp].
Qed.

Lemma strongly_ascending_nodup_keys {A} (l : list (keyv * A)) : StronglySorted (ascending A key_lt_spec) l -> NoDup (map fst l).
Proof.
  induction 1 as [|x l Hs IH Hall]; cbn [map]; constructor; [|exact IH].
  intros Hin. apply in_map_iff in Hin as (y & Hy & Hin). rewrite Forall_forall in Hall. pose proof (Hall y Hin) as H.
  unfold ascending in H. rewrite Hy, key_lt_spec_irrefl in H. discriminate.
Qed.

(* ... and it is what sort() produces *)
Theorem strict_sorted_perm_is_sort {A} (l l' : list (keyv * A)) : shape_ok (map fst l) ->
  Sorted (fun p q => key_lt_spec (fst p) (fst q) = true) l' -> Permutation l' l -> l' = sort_pairs key_lt l.
Proof.
  intros Hshape Hs Hp. pose proof (strict_sorted_strongly l' Hs) as Hss.
  assert (Hd : distinct_keys l).
  { unfold distinct_keys. eapply Permutation_NoDup; [apply Permutation_map; exact Hp|]. now apply strongly_ascending_nodup_keys. }
  apply (strongly_sorted_unique A key_lt_spec key_lt_spec_asym); [exact Hss | exact (sort_strict_now l Hshape Hd)|].
  rewrite Hp. apply Permutation_sym, sort_perm.
Qed.
