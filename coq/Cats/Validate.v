(* Functional model of catparser/AstValidator.py in both validation modes.  Model file: definitions only.

   The model is the INTENDED validator (= the pinned tree plus seeded/_fixes/C06-fix.diff): every place where the pinned code raises
   KeyError / AttributeError on a broken reference reports an ErrorDescriptor instead.  Python's partial operations that remain in the
   code -- `self.type_descriptor_map[name]`, `field_map[name]`, `attribute.values[1]`, `getattr(model, property_name)` -- are kept
   partial here (outcome `Crash kind`), so that "reports rather than crashes" is a statement about the guards (ValidateProofs.no_crash).

   dict semantics: a later item with the same key replaces the value but keeps the position of the first insertion (`dict_set`);
   iteration is in first-insertion order.  `_find_duplicate_names` returns a Python set: modelled as the duplicate-free list of names in
   order of their second occurrence; both sides of the correspondence sort field_names.

   Operators, literal strings, Mode constants and the attribute-name tables come from Gen/ValidateOps.v (regenerated from /repo).
   Not modelled: Python object identity; `hasattr` on a str/Token field type (taken to be false: none of the four attribute names the
   grammar admits is a str or lark.Token attribute); dunder names in the attribute-name tables. *)
From Symv Require Export Base.PyOps Cats.Ast Gen.ValidateOps.
Open Scope string_scope.

Inductive mode := Pre | Post.
Definition mode_value (m : mode) : Z := match m with Pre => vo_mode_pre | Post => vo_mode_post end.

(* ---- operators as data ---- *)
(* `x in d` / `x not in d` with the operator read from the source: is_in = true for `in` *)
Definition pymem (is_in present : bool) : bool := if is_in then present else negb present.
Definition opt_str_eqb (a b : option string) : bool :=
  match a, b with Some x, Some y => x =? y | None, None => true | _, _ => false end.
(* == / != between values that are a str or None *)
Definition pyeqs (o : pyop) (a b : option string) : bool :=
  match o with Eq => opt_str_eqb a b | Ne => negb (opt_str_eqb a b) | _ => false end.

Definition is_nil {A} (l : list A) : bool := match l with [] => true | _ => false end.
Definition mem (x : string) (l : list string) : bool := existsb (String.eqb x) l.

(* ---- errors ---- *)
Inductive mkind :=
| MDupEnum | MDupField | MUnknownInlined | MUnknownType | MNonInline | MUnknownSizeref | MUnknownElem | MUnknownSortKey | MUnknownSize
| MUnknownSizeof | MSizeofUnknownType | MSizeofFixed | MSizeofNotImplicit | MUnknownCond | MNotEnum | MNotNumeric | MInapplicable
| MSizeType | MUnknownProp | MUnknownComparer | MUnknownTransform | MUnknownInit | MInitType.

(* ErrorDescriptor(message, typename, field_names); field_names None is [] *)
Record error := { e_kind : mkind; e_args : list string; e_type : string; e_fields : list string }.

Definition dq : string := String (Ascii.ascii_of_N 34) "".
Definition message (k : mkind) (args : list string) : string :=
  let a0 := nth 0 args "" in
  let a1 := nth 1 args "" in
  match k with
  | MDupEnum => "duplicate enum values"
  | MDupField => "duplicate struct fields"
  | MUnknownInlined => "reference to unknown inlined type " ++ dq ++ a0 ++ dq
  | MUnknownType => "reference to unknown type " ++ dq ++ a0 ++ dq
  | MNonInline => "named inline field referencing non inline struct " ++ dq ++ a0 ++ dq
  | MUnknownSizeref => "reference to unknown sizeref property " ++ dq ++ a0 ++ dq
  | MUnknownElem => "reference to unknown element type " ++ dq ++ a0 ++ dq
  | MUnknownSortKey => "reference to unknown sort_key property " ++ dq ++ a0 ++ dq
  | MUnknownSize => "reference to unknown size property " ++ dq ++ a0 ++ dq
  | MUnknownSizeof => "reference to unknown sizeof property " ++ dq ++ a0 ++ dq
  | MSizeofUnknownType => "sizeof property references unknown type " ++ dq ++ a0 ++ dq
  | MSizeofFixed => "sizeof property references fixed size type " ++ dq ++ a0 ++ dq
  | MSizeofNotImplicit => "sizeof property references type " ++ dq ++ a0 ++ dq ++ " without is_size_implicit attribute"
  | MUnknownCond => "reference to unknown condition field " ++ dq ++ a0 ++ dq
  | MNotEnum => "field value " ++ dq ++ a0 ++ dq ++ " is not a valid enum value"
  | MNotNumeric => "field value " ++ dq ++ a0 ++ dq ++ " is not a valid numeric value"
  | MInapplicable => "inapplicable attribute " ++ dq ++ a0 ++ dq
  | MSizeType => "reference to " ++ dq ++ "size" ++ dq ++ " property " ++ dq ++ a0 ++ dq ++ " has unexpected type"
  | MUnknownProp => "reference to unknown " ++ dq ++ a0 ++ dq ++ " property " ++ dq ++ a1 ++ dq
  | MUnknownComparer => "reference to unknown " ++ dq ++ "comparer" ++ dq ++ " property " ++ dq ++ a0 ++ dq
  | MUnknownTransform => "reference to unknown " ++ dq ++ "comparer" ++ dq ++ " transform " ++ dq ++ a0 ++ dq
  | MUnknownInit => "reference to unknown " ++ dq ++ "intializes" ++ dq ++ " property " ++ dq ++ a0 ++ dq
  | MInitType => "property " ++ dq ++ a0 ++ dq ++ " has initializer " ++ dq ++ a1 ++ dq ++ " of different type"
  end.

(* ---- str() of the ast objects that appear in messages and in the initializer type comparison ---- *)
Definition str_intty (i : intty) : string := it_short_name i.
Definition str_elem (e : elemty) : string := match e with ElInt i => str_intty i | ElName s => s end.
Definition str_asize (s : asize) : string := match s with SzNum n => Z_to_string n | SzName s => s | SzFill => "__FILL__" end.
Definition str_array (a : array) : string := "array(" ++ str_elem (a_elem a) ++ ", " ++ str_asize (a_size a) ++ ")".
Definition str_ftype (t : ftype) : string := match t with FInt i => str_intty i | FName s => s | FArray a => str_array a end.
Definition str_cvalue (v : cvalue) : string := match v with CvNum n => Z_to_string n | CvName s => s end.
Definition str_cond (c : conditional) : string := "if " ++ str_cvalue (c_value c) ++ " " ++ c_op c ++ " " ++ c_link c.
Definition str_fvalue (v : fvalue) : string :=
  match v with VNone => "None" | VNum n => Z_to_string n | VName s => s | VCond c => str_cond c end.
Definition str_opt (o : option string) : string := match o with Some s => s | None => "None" end.

(* attribute values as Python values: Attribute.value is True for a flag, else the first token *)
Inductive pyval := PvNone | PvTrue | PvNum (n : Z) | PvStr (s : string).
Inductive pyobj := PoVal (v : pyval) | PoList (l : list pyval).
Definition pv_of (v : avalue) : pyval := match v with AvNum n => PvNum n | AvStr s => PvStr s | AvNone => PvNone end.
Definition truthy (v : pyval) : bool :=
  match v with PvNone => false | PvTrue => true | PvNum n => negb (n =? 0)%Z | PvStr s => negb (s =? "") end.
Definition po_truthy (o : pyobj) : bool := match o with PoVal v => truthy v | PoList l => negb (is_nil l) end.
Definition str_pyval (v : pyval) : string :=
  match v with PvNone => "None" | PvTrue => "True" | PvNum n => Z_to_string n | PvStr s => s end.
Definition attr_value (a : attribute) : pyval := match at_values a with [] => PvTrue | v :: _ => pv_of v end.
(* _lookup_attribute_value(attributes, name) / (attributes, name, True) *)
Definition lookup_attr_value (attrs : option (list attribute)) (name : string) : pyval :=
  match find_attr attrs name with Some a => attr_value a | None => PvNone end.
Definition lookup_attr_values (attrs : option (list attribute)) (name : string) : option (list pyval) :=
  match find_attr attrs name with Some a => Some (map pv_of (at_values a)) | None => None end.

Open Scope list_scope.   (* from here on ++ is list append; string appends are marked %string *)

(* ---- dicts ---- *)
Section Dict.
Context {A : Type}.
Fixpoint dict_set (k : string) (v : A) (d : list (string * A)) : list (string * A) :=
  match d with
  | [] => [(k, v)]
  | (k', v') :: r => if k' =? k then (k', v) :: r else (k', v') :: dict_set k v r
  end.
Definition dict_of_pairs (l : list (string * A)) : list (string * A) := fold_left (fun d kv => dict_set (fst kv) (snd kv) d) l [].
Fixpoint dict_get (d : list (string * A)) (k : string) : option A :=
  match d with [] => None | (k', v) :: r => if k' =? k then Some v else dict_get r k end.
Definition dict_mem (d : list (string * A)) (k : string) : bool := match dict_get d k with Some _ => true | None => false end.
(* d[k] *)
Definition dict_index (d : list (string * A)) (k : string) : result A :=
  match dict_get d k with Some v => Ok v | None => Crash "KeyError" end.
End Dict.

Definition tdm := list (string * decl).       (* self.type_descriptor_map *)
Definition fmap := list (string * ftype).     (* field_map, reduced to what is read from it: membership and .field_type *)
Definition tdm_of (ds : list decl) : tdm := dict_of_pairs (map (fun d => (decl_name d, d)) ds).
Definition named_fields (fs : list field) : list (string * ftype) :=
  flat_map (fun f => match f with Field n ty _ _ _ _ => [(n, ty)] | InlinePlaceholder _ _ => [] end) fs.
Definition fmap_of (fs : list field) : fmap := dict_of_pairs (named_fields fs).
Definition member_names (fs : list field) : list string := map fst (named_fields fs).

(* key lookups with a Python value as key: only a str can equal a key *)
Definition pv_in_fm (v : pyval) (fm : fmap) : bool := match v with PvStr s => dict_mem fm s | _ => false end.
Definition fm_index_pv (fm : fmap) (v : pyval) : result ftype := match v with PvStr s => dict_index fm s | _ => Crash "KeyError" end.

(* _find_duplicate_names *)
Definition add_name (n : string) (l : list string) : list string := if mem n l then l else l ++ [n].
Fixpoint dup_names_aux (names unique dup : list string) : list string :=
  match names with
  | [] => dup
  | n :: r => if pymem vo_dup_mem (mem n unique) then dup_names_aux r (add_name n unique) dup else dup_names_aux r unique (add_name n dup)
  end.
Definition find_duplicate_names (names : list string) : list string := dup_names_aux names [] [].

(* ---- type lookups ---- *)
Definition ftype_name (ty : ftype) : option string := match ty with FName s => Some s | _ => None end.
Definition elem_name (e : elemty) : option string := match e with ElName s => Some s | ElInt _ => None end.
(* _is_known_type(typename): not isinstance(typename, str) or typename in self.type_descriptor_map *)
Definition is_known_type (t : tdm) (n : option string) : bool :=
  match n with None => true | Some s => pymem vo_known_type_mem (dict_mem t s) end.
(* _find_struct(typename) *)
Definition find_struct (t : tdm) (n : option string) : option struct :=
  match n with
  | Some s => match dict_get t s with Some (DStruct st) => Some st | _ => None end
  | None => None
  end.
Definition disp_str (d : disposition) : option string :=
  match d with DispNone => None | DispConst => Some "const" | DispReserved => Some "reserved" | DispSizeof => Some "sizeof" | DispInline => Some "inline" end.
Definition sdisp_str (d : sdisp) : option string :=
  match d with SdNone => None | SdAbstract => Some "abstract" | SdInline => Some "inline" end.
(* hasattr(field.field_type, name) *)
Definition type_has_attr (ty : ftype) (name : string) : bool :=
  match ty with FInt _ => mem name vo_int_attr_names | FArray _ => mem name vo_array_attr_names | FName _ => false end.

Section Field.
Variable t : tdm.
Variable fm : fmap.
Variable mk : mkind -> list string -> error.     (* create_error_descriptor *)

(* _validate_integer *)
Definition validate_integer (i : intty) : list error :=
  match it_sizeref i with
  | None => []
  | Some (p, _) => if pymem vo_sizeref_mem (dict_mem fm p) then [mk MUnknownSizeref [p]] else []
  end.

(* _validate_array *)
Definition sort_key_in (sk : option string) (fs : list field) : bool :=
  existsb (fun f => match field_name f with Some n => pyeqs vo_sortkey_eq sk (Some n) | None => false end) fs.
Definition validate_array (a : array) : list error :=
  let el := a_elem a in
  let sk := a_sort_key a in
  let no_key := match sk with Some k => k =? "" | None => true end in       (* not sort_key *)
  let known := is_known_type t (elem_name el) in
  let e1 := if negb known then [mk MUnknownElem [str_elem el]] else [] in
  let valid :=
    if negb known then no_key
    else no_key || match find_struct t (elem_name el) with Some es => sort_key_in sk (s_fields es) | None => false end in
  let e2 := if negb valid then [mk MUnknownSortKey [str_opt sk]] else [] in
  let e3 := match a_size a with
            | SzName s => if pymem vo_size_mem (dict_mem fm s) then [mk MUnknownSize [s]] else []
            | _ => []
            end in
  e1 ++ e2 ++ e3.

(* _validate_in_range(value_type, value) *)
(* value == enum_value.name: an int never equals a str *)
Definition cv_is_name (v : cvalue) (n : string) : bool :=
  match v with CvName s => pyeqs vo_enum_eq (Some s) (Some n) | CvNum _ => pyeqs vo_enum_eq None (Some n) end.
Definition numeric_errors (v : cvalue) : list error :=
  match v with CvNum _ => [] | CvName _ => [mk MNotNumeric [str_cvalue v]] end.
Definition validate_in_range (ty : ftype) (v : cvalue) : result (list error) :=
  match ty with
  | FName n =>
    if is_known_type t (Some n) then
      bind (dict_index t n) (fun d =>
        match d with
        | DEnum _ _ values _ _ =>
          Ok (if negb (existsb (fun ev => cv_is_name v (ev_name ev)) values) then [mk MNotEnum [str_cvalue v]] else [])
        | _ => Ok (numeric_errors v)
        end)
    else Ok (numeric_errors v)
  | _ => Ok (numeric_errors v)
  end.

(* _validate_sizeof *)
Definition value_in_fm (v : fvalue) : bool := match v with VName s => dict_mem fm s | _ => false end.
Definition fm_index_value (v : fvalue) : result ftype := match v with VName s => dict_index fm s | _ => Crash "KeyError" end.
Definition validate_sizeof (v : fvalue) : result (list error) :=
  if pymem vo_sizeof_mem (value_in_fm v) then Ok [mk MUnknownSizeof [str_fvalue v]]
  else
    bind (fm_index_value v) (fun rty =>
      if negb (is_known_type t (ftype_name rty)) then Ok [mk MSizeofUnknownType [str_ftype rty]]
      else
        bind (match rty with FName n => bind (dict_index t n) (fun d => Ok (Some d)) | _ => Ok None end) (fun rt =>
          match rt with
          | Some (DStruct st) =>
            Ok (if negb (truthy (lookup_attr_value (s_attrs st) vo_attr_is_size_implicit)) then [mk MSizeofNotImplicit [str_ftype rty]] else [])
          | _ => Ok [mk MSizeofFixed [str_ftype rty]]
          end)).

(* _validate_conditional *)
Definition validate_conditional (c : conditional) : result (list error) :=
  if pymem vo_cond_mem (dict_mem fm (c_link c)) then Ok [mk MUnknownCond [c_link c]]
  else bind (dict_index fm (c_link c)) (fun lty => validate_in_range lty (c_value c)).

(* _validate_struct_field, in the order of its statements: the type, the integer / array details, the value, the attributes *)
Definition is_sizeof_disp (disp : disposition) : bool := pyeqs vo_sizeof_eq (Some vo_sizeof_lit) (disp_str disp).
Definition is_inline_disp (disp : disposition) : bool := pyeqs vo_inline_eq (Some vo_inline_lit_a) (disp_str disp).
Definition not_inline_struct (rs : option struct) : bool :=     (* not referenced_struct or 'inline' != referenced_struct.disposition *)
  match rs with None => true | Some st => pyeqs vo_inline_ne (Some vo_inline_lit_b) (sdisp_str (s_disp st)) end.
Definition type_errors (ty : ftype) (disp : disposition) : list error :=
  if negb (is_known_type t (ftype_name ty)) then [mk MUnknownType [str_ftype ty]]
  else if is_inline_disp disp && not_inline_struct (find_struct t (ftype_name ty)) then [mk MNonInline [str_ftype ty]] else [].
Definition detail_errors (ty : ftype) : list error :=
  match ty with FInt i => validate_integer i | FArray a => validate_array a | FName _ => [] end.
Definition attr_errors (ty : ftype) (attrs : option (list attribute)) : list error :=
  match attrs with
  | None => []
  | Some l => flat_map (fun a => if negb (type_has_attr ty (at_name a)) then [mk MInapplicable [at_name a]] else []) l
  end.
Definition validate_value (ty : ftype) (value : fvalue) (disp : disposition) : result (list error) :=
  match value with
  | VNone => Ok []
  | _ =>
    if is_sizeof_disp disp then validate_sizeof value
    else match value with
         | VCond c => validate_conditional c
         | VNum n => validate_in_range ty (CvNum n)
         | VName s => validate_in_range ty (CvName s)
         | VNone => Ok []
         end
  end.
Definition validate_struct_field (ty : ftype) (value : fvalue) (disp : disposition) (attrs : option (list attribute)) : result (list error) :=
  bind (validate_value ty value disp) (fun e4 => Ok (type_errors ty disp ++ detail_errors ty ++ e4 ++ attr_errors ty attrs)).
End Field.

(* ---- struct attributes (post expansion) ---- *)
Section StructAttrs.
Variable fm : fmap.
Variable s : struct.
Definition mk_struct_error (k : mkind) (args : list string) : error := {| e_kind := k; e_args := args; e_type := s_name s; e_fields := [] |}.

(* getattr(model, property_name) for the two property names the validator passes *)
Definition struct_getattr (prop : string) : result pyobj :=
  if prop =? "size" then Ok (PoVal (lookup_attr_value (s_attrs s) vo_attr_size))
  else if prop =? "discriminator" then
    Ok (match lookup_attr_values (s_attrs s) vo_attr_discriminator with Some l => PoList l | None => PoVal PvNone end)
  else Crash "AttributeError".

(* _check_known_field: (errors, return value) *)
Definition check_known_field (prop : string) (multi : bool) : result (list error * bool) :=
  bind (struct_getattr prop) (fun values =>
    if negb (po_truthy values) then Ok ([], false)
    else
      bind (match values, multi with
            | PoVal v, false => Ok [v]
            | PoList l, true => Ok l
            | PoList _, false => Crash "TypeError"     (* an unhashable list used as a dict key *)
            | PoVal _, true => Crash "TypeError"       (* iterating a non-list (a str would iterate its characters: not modelled) *)
            end) (fun items =>
        let errs := flat_map (fun v => if pymem vo_known_field_mem (pv_in_fm v fm) then [mk_struct_error MUnknownProp [prop; str_pyval v]] else []) items in
        Ok (errs, is_nil errs))).

(* Struct.comparer *)
Fixpoint pairs_of (l : list pyval) : list (pyval * pyval) := match l with a :: b :: r => (a, b) :: pairs_of r | _ => [] end.
Definition struct_comparer : list (pyval * pyval) :=
  match lookup_attr_values (s_attrs s) vo_attr_comparer with Some l => pairs_of l | None => [] end.
Definition transform_known (v : pyval) : bool :=
  match v with PvNone => true | PvStr x => x =? vo_transform_lit | _ => false end.    (* transform in (None, 'ripemd_keccak_256') *)
Definition check_comparer : list error :=
  flat_map (fun pt =>
    (if pymem vo_comparer_mem (pv_in_fm (fst pt) fm) then [mk_struct_error MUnknownComparer [str_pyval (fst pt)]] else [])
    ++ (if pymem vo_transform_mem (transform_known (snd pt)) then [mk_struct_error MUnknownTransform [str_pyval (snd pt)]] else []))
    struct_comparer.

(* Struct.initializers: attribute.values[0], attribute.values[1] *)
Fixpoint initializer_pairs (l : list attribute) : result (list (pyval * pyval)) :=
  match l with
  | [] => Ok []
  | a :: r =>
    if vo_attr_initializes =? at_name a then
      match at_values a with
      | v0 :: v1 :: _ => bind (initializer_pairs r) (fun rest => Ok ((pv_of v0, pv_of v1) :: rest))
      | _ => Crash "IndexError"
      end
    else initializer_pairs r
  end.
Definition struct_initializers : result (list (pyval * pyval)) :=
  match s_attrs s with None => Ok [] | Some l => initializer_pairs l end.

Definition is_concrete : bool :=
  pymem vo_concrete_mem (opt_str_eqb (sdisp_str (s_disp s)) (Some vo_abstract_lit) || opt_str_eqb (sdisp_str (s_disp s)) (Some vo_inline_lit_c)).
Definition check_initializer_name (p : pyval) (raise_error : bool) : bool * list error :=
  if pymem vo_init_mem (pv_in_fm p fm) then (false, if raise_error then [mk_struct_error MUnknownInit [str_pyval p]] else []) else (true, []).
Definition check_initializer (target value : pyval) : result (list error) :=
  let '(ok1, e1) := check_initializer_name target vo_init_target_raises in
  let '(ok2, e2) := check_initializer_name value is_concrete in
  if ok1 && ok2 then
    bind (fm_index_pv fm target) (fun t1 =>
      bind (fm_index_pv fm value) (fun t2 =>
        Ok (e1 ++ e2 ++ if pyeqs vo_init_type_ne (Some (str_ftype t1)) (Some (str_ftype t2))
                        then [mk_struct_error MInitType [str_pyval target; str_pyval value]] else [])))
  else Ok (e1 ++ e2).
Fixpoint check_initializer_list (l : list (pyval * pyval)) : result (list error) :=
  match l with
  | [] => Ok []
  | (a, b) :: r => bind (check_initializer a b) (fun e => bind (check_initializer_list r) (fun es => Ok (e ++ es)))
  end.
Definition check_initializers : result (list error) := bind struct_initializers check_initializer_list.

(* _check_struct_attributes *)
Definition check_struct_attributes : result (list error) :=
  bind (check_known_field vo_size_attr false) (fun r1 =>
    bind (if snd r1 then
            let v := lookup_attr_value (s_attrs s) vo_attr_size in      (* model.size *)
            bind (fm_index_pv fm v) (fun ty => Ok (match ty with FInt _ => [] | _ => [mk_struct_error MSizeType [str_pyval v]] end))
          else Ok []) (fun e2 =>
      bind (check_known_field vo_discriminator_attr vo_discriminator_multi) (fun r3 =>
        bind check_initializers (fun e5 => Ok (fst r1 ++ e2 ++ fst r3 ++ check_comparer ++ e5))))).
End StructAttrs.

Fixpoint concat_results (l : list (result (list error))) : result (list error) :=
  match l with
  | [] => Ok []
  | r :: rest => bind r (fun e => bind (concat_results rest) (fun es => Ok (e ++ es)))
  end.

(* _validate_unnamed_inline *)
Definition validate_unnamed_inline (t : tdm) (sname typename : string) : list error :=
  if negb (is_known_type t (Some typename)) then [{| e_kind := MUnknownInlined; e_args := [typename]; e_type := sname; e_fields := [] |}] else [].

Definition validate_field (t : tdm) (fm : fmap) (sname : string) (f : field) : result (list error) :=
  match f with
  | InlinePlaceholder tn _ => Ok (validate_unnamed_inline t sname tn)
  | Field n ty v d a _ =>
    validate_struct_field t fm (fun k args => {| e_kind := k; e_args := args; e_type := sname; e_fields := [n] |}) ty v d a
  end.

Definition duplicate_error (k : mkind) (typename : string) (names : list string) : list error :=
  match find_duplicate_names names with
  | [] => []
  | dups => [{| e_kind := k; e_args := []; e_type := typename; e_fields := dups |}]
  end.

(* the struct-attribute checks run when `self.Mode.PRE_EXPANSION != self.mode` *)
Definition attrs_checked (m : mode) : bool := cmp vo_mode_guard vo_mode_pre (mode_value m).

(* _validate_struct *)
Definition validate_struct (m : mode) (t : tdm) (s : struct) : result (list error) :=
  let fm := fmap_of (s_fields s) in
  bind (concat_results (map (validate_field t fm (s_name s)) (s_fields s))) (fun es =>
    bind (if attrs_checked m then check_struct_attributes fm s else Ok []) (fun ea =>
      Ok (duplicate_error MDupField (s_name s) (member_names (s_fields s)) ++ es ++ ea))).

(* _validate_enum *)
Definition validate_enum (name : string) (values : list enum_value) : list error := duplicate_error MDupEnum name (map ev_name values).

Definition validate_decl (m : mode) (t : tdm) (d : decl) : result (list error) :=
  match d with
  | DAlias _ _ _ => Ok []
  | DEnum n _ values _ _ => Ok (validate_enum n values)
  | DStruct s => validate_struct m t s
  end.

(* AstValidator(type_descriptors); set_validation_mode(m); validate(); errors *)
Definition validate (m : mode) (ds : list decl) : result (list error) :=
  let t := tdm_of ds in concat_results (map (fun kv => validate_decl m t (snd kv)) t).

(* __main__: _validate exits with vo_exit_status when a stage reports errors; the second stage runs only after a clean first stage *)
Definition cli_status (pre : list error) (post : list error) : Z :=
  if negb (is_nil pre) then vo_exit_status else if negb (is_nil post) then vo_exit_status else 0%Z.

(* ---- canonical text for the correspondence: one line per error, typename|f1,f2|message ---- *)
Definition nl : string := String (Ascii.ascii_of_N 10) "".
Definition render_error (e : error) : string := (e_type e ++ "|" ++ String.concat "," (e_fields e) ++ "|" ++ message (e_kind e) (e_args e))%string.
Definition render_result (r : result (list error)) : string :=
  match r with
  | Ok es => ("ok" ++ String.concat "" (map (fun e => nl ++ render_error e) es))%string
  | Reject => "reject"
  | Crash k => ("crash:" ++ k)%string
  end.
