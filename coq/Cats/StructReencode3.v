(* Re-encoding of decoded values, part 3: from the decoder's environment (env_good) to the success of serialize, member by member
   (ser_member) and for member lists (ser_members), under a schema-only check of the member (reenc_memberb: positive widths, the
   count / byte-size members name the array they are bound to, sizeof / sizeref members are wide enough for sizes below lim,
   alignments <= 65536) and the premise that every sub-object of the value has a size below lim. *)
From Symv Require Import Base.Bytes Base.PyOps Base.BytesLemmas Cats.Layout Cats.LayoutInst Cats.LayoutProofs Cats.ArrayProofs Cats.LayoutLaws
  Cats.LayoutInstProofs Cats.StructProofs Cats.StructRoundTrip Cats.StructDecide Cats.StructStable Cats.StructStable2 Cats.StructReencode Cats.StructReencode2.
From Coq Require Import Lia ZifyBool.
Open Scope string_scope.
Open Scope list_scope.
Open Scope Z_scope.

Definition in_fields (g : field) (l : list field) : bool := existsb (fun g' => if field_eq_dec g' g then true else false) l.
Lemma in_fields_In g l : in_fields g l = true -> In g l.
Proof. unfold in_fields. intros H. apply existsb_exists in H as (g' & Hin & Heq). destruct (field_eq_dec g' g) as [->|]; [exact Hin | discriminate]. Qed.

Section Member.
Variable tm : list decl.
Variable n k' : nat.
Variable lim : Z.
Let OP := ops_now.
Notation R := (Rk tm k').
Hypothesis Hlim : 0 < lim.
Hypothesis Hsub : forall t v b rest, admf tm n t v -> enc_t R t v = Ok b ->
  dec_any tm R t (b ++ rest) = Ok v /\ size_t R t v = Ok (Z.of_nat (length b)) /\ (0 < length b)%nat.
Hypothesis Hpos : forall t v sz, admf tm n t v -> size_t R t v = Ok sz -> 0 < sz.

Definition G_t (t : string) (v : value) : Prop := admf tm n t v /\ (small tm lim v -> exists b, enc_t R t v = Ok b).

Variable s : struct.
Variable allfs settable typed : list field.
Variable cls : string.
Variable e : env.
Notation self := (VStruct cls (collected settable e)).
Hypothesis Hsmall : small tm lim self.
Hypothesis Henv : env_good tm R allfs G_t typed e.
Hypothesis Hty : forall f, In f typed -> member_typed tm allfs (admf tm n) self f.

Definition wide (i : intty) (d : Z) : bool :=
  (0 <? it_size i) && (lim + d <=? (if it_unsigned i then 2 ^ (8 * it_size i) else 2 ^ (8 * it_size i - 1))).

Definition reenc_memberb (f : field) : bool :=
  match classify tm allfs f with
  | Some (MkInt i) => (0 <? it_size i) && name_in settable (f_name f)
  | Some (MkReserved i _) => 0 <? it_size i
  | Some (MkCount i g) =>
    (0 <? it_size i) && in_fields g typed && name_in settable (f_name g) &&
    match classify tm allfs g with Some (MkBytes nm) | Some (MkArray _ nm) => String.eqb nm (f_name f) | _ => false end
  | Some (MkCountCond i g y) =>
    (0 <? it_size i) && in_fields g typed && name_in settable (f_name g) &&
    match classify tm allfs g with Some (MkCondBytes nm y') => String.eqb nm (f_name f) && (y' =? y) | _ => false end
  | Some (MkByteSize i g) =>
    (0 <? it_size i) && in_fields g typed && name_in settable (f_name g) &&
    match classify tm allfs g with Some (MkVarSized _ nm) => String.eqb nm (f_name f) | _ => false end
  | Some (MkSizeof i gn t) =>
    wide i 0 && name_in settable gn &&
    match kind_by_name tm allfs typed gn with Some (MkNamed t') | Some (MkNamedSized t' _) => String.eqb t' t | _ => false end
  | Some (MkComputed i gn t d) =>
    wide i d && name_in settable gn &&
    match kind_by_name tm allfs typed gn with Some (MkCondNamed t' _) => String.eqb t' t | _ => false end
  | Some (MkNamed _) | Some (MkNamedSized _ _) | Some (MkBytes _) | Some (MkCondNamed _ _) | Some (MkCondBytes _ _) => name_in settable (f_name f)
  | Some (MkArray a _) | Some (MkFillPlain a) => name_in settable (f_name f) && match elem_name a with Some _ => true | None => false end
  | Some (MkVarSized a _) | Some (MkFillVar a) =>
    name_in settable (f_name f) && (alignment_of a <=? 65536) && match elem_name a with Some _ => true | None => false end
  | Some (MkArm _ ln _ _ _) => name_in settable (f_name f) && name_in settable ln
  | None => false
  end.

Lemma get_set nm w : name_in settable nm = true -> eget e nm = Some w -> vget self nm = Some w.
Proof. intros Hn Hw. rewrite (vget_collected cls settable e nm Hn), Hw. reflexivity. Qed.

Lemma by_name_good nm k : kind_by_name tm allfs typed nm = Some k -> exists v, eget e nm = Some v /\ entry_good tm R G_t k e v.
Proof.
  intros H. unfold kind_by_name in H. destruct (find (fun g => String.eqb (f_name g) nm) typed) as [g|] eqn:Hf; [|discriminate].
  apply find_some in Hf as [Hin Hn]. apply String.eqb_eq in Hn. destruct (Henv g Hin) as (k0 & v & Hk0 & Hv & Hent).
  rewrite H in Hk0. injection Hk0 as <-. exists v. rewrite <- Hn. now split.
Qed.

Lemma sub_enc t v nm : G_t t v -> vget self nm = Some v ->
  exists b, enc_t R t v = Ok b /\ size_t R t v = Ok (Z.of_nat (length b)) /\ Z.of_nat (length b) < lim.
Proof.
  intros [Hadm Henc] Hv. pose proof (small_member tm lim cls _ nm v Hsmall Hv) as Hsv.
  destruct (Henc Hsv) as [b Hb]. destruct (Hsub t v b [] Hadm Hb) as (_ & Hsz & _).
  exists b. split; [exact Hb|]. split; [exact Hsz|]. exact (Hsv v k' t _ (subvalues_self v) Hsz).
Qed.

Lemma elems_enc a l et nm : arr_good G_t a l -> elem_name a = Some et -> vget self nm = Some (VArr l) -> Forall (enc_ok R a) l.
Proof.
  intros [_ Hall] Het Hv. pose proof (small_member tm lim cls _ nm _ Hsmall Hv) as Hsl.
  specialize (Hall et Het). rewrite Forall_forall in Hall |- *. intros e0 He0. destruct (Hall e0 He0) as [_ Henc].
  destruct (Henc (small_arr tm lim l e0 Hsl He0)) as [b Hb]. exists b. unfold elem_enc. now rewrite Het.
Qed.

Lemma wide_range i d z : wide i d = true -> 0 <= z -> z < lim + d -> inr i z.
Proof.
  unfold wide, inr. intros H Hz Hl. apply Bool.andb_true_iff in H as [Hw H].
  apply (in_range_small _ _ (lim + d)); [lia|]. replace (8 * Z.of_nat (Z.to_nat (it_size i))) with (8 * it_size i) by lia.
  destruct (it_unsigned i); cbn [negb]; lia.
Qed.

Lemma int_done (i : intty) z : inr i z -> exists bf, bind (Ok z) (py_to_bytes (Z.to_nat (it_size i)) (negb (it_unsigned i))) = Ok bf.
Proof. intros H. cbn [bind]. now apply py_to_bytes_ok. Qed.

Lemma ser_member total f : In f typed -> reenc_memberb f = true -> exists bf, serialize_field OP tm R s allfs total self false f = Ok bf.
Proof.
  intros Hf Hb. pose proof (Hty f Hf) as Htf. destruct (Henv f Hf) as (k & v & Hk & Hv & Hent).
  unfold reenc_memberb in Hb. rewrite Hk in Hb. pose proof (classify_facts tm allfs f k Hk) as F.
  pose proof Htf as Htf'. unfold member_typed in Htf'. rewrite Hk in Htf'.
  destruct k; cbn [kind_facts entry_good] in *.
  - (* MkInt *)
    destruct F as (Hc & Hft & Hw & Hres & Hcomp & Hbf). apply Bool.andb_true_iff in Hb as [Hw0 Hset].
    destruct Hent as (z & -> & Hr). pose proof (get_set _ _ Hset Hv) as Hvz.
    unfold serialize_field. cbn [andb]. rewrite (cond_self_none tm R allfs self f Hc). cbn [bind negb]. rewrite Hbf, Hft, Hcomp, Hres.
    unfold member_value. rewrite Hvz. cbn [bind]. apply py_to_bytes_ok, Hr. lia.
  - (* MkReserved *)
    destruct (int_kind_ser OP tm R s allfs (admf tm n) self total f _ i Hk eq_refl ltac:(discriminate) Htf) as (_ & _ & _ & _ & Hs). rewrite Hs.
    cbn [int_written]. destruct Hent as [_ Hr]. apply int_done, Hr. lia.
  - (* MkCount *)
    destruct (int_kind_ser OP tm R s allfs (admf tm n) self total f _ i Hk eq_refl ltac:(discriminate) Htf) as (_ & _ & _ & _ & Hs). rewrite Hs.
    repeat (apply Bool.andb_true_iff in Hb as [Hb ?]). destruct Hent as (z & -> & Hr).
    match goal with Hg : in_fields g typed = true |- _ => apply in_fields_In in Hg; destruct (Henv g Hg) as (kg & vg & Hkg & Hvg & Hentg) end.
    rewrite Hkg in *. cbn [int_written].
    destruct kg; try discriminate; cbn [entry_good] in Hentg;
      match goal with Hn : String.eqb _ (f_name f) = true |- _ => apply String.eqb_eq in Hn; subst end.
    + destruct Hentg as (b & x & -> & Hx & Hlen). rewrite Hv in Hx. injection Hx as <-.
      rewrite (get_set (f_name g) _ ltac:(assumption) Hvg). apply int_done. eapply in_range_between; [apply Hr; lia | exact Hlen].
    + destruct Hentg as (l & x & -> & Hg & Hx & (view & fuel & Hrun)). rewrite Hv in Hx. injection Hx as <-.
      rewrite (get_set (f_name g) _ ltac:(assumption) Hvg). apply int_done.
      pose proof (read_count_len tm R a _ _ _ _ _ _ _ Hrun). eapply in_range_between; [apply Hr; lia | lia].
  - (* MkCountCond *)
    destruct (int_kind_ser OP tm R s allfs (admf tm n) self total f _ i Hk eq_refl ltac:(discriminate) Htf) as (_ & _ & _ & _ & Hs). rewrite Hs.
    repeat (apply Bool.andb_true_iff in Hb as [Hb ?]). destruct Hent as (z & -> & Hr).
    match goal with Hg : in_fields g typed = true |- _ => apply in_fields_In in Hg; destruct (Henv g Hg) as (kg & vg & Hkg & Hvg & Hentg) end.
    rewrite Hkg in *. cbn [int_written].
    destruct kg; try discriminate; cbn [entry_good] in Hentg.
    match goal with Hn : String.eqb _ (f_name f) && _ = true |- _ => apply Bool.andb_true_iff in Hn as [Hn Hy]; apply String.eqb_eq in Hn; subst end.
    destruct Hentg as [[-> Hx]|(b & x & -> & Hx & Hlen)]; rewrite Hv in Hx; injection Hx as Hx;
      rewrite (get_set (f_name g) _ ltac:(assumption) Hvg); apply int_done.
    + replace y with z by lia. apply Hr. lia.
    + subst x. eapply in_range_between; [apply Hr; lia | exact Hlen].
  - (* MkNamed *)
    destruct F as (Hc & Hft & Hres & Hbf & _). pose proof (get_set _ _ Hb Hv) as Hvz.
    destruct (sub_enc t v _ Hent Hvz) as (b & Hbe & _).
    unfold serialize_field. cbn [andb]. rewrite (cond_self_none tm R allfs self f Hc). cbn [bind negb]. rewrite Hbf, Hft, Hres.
    unfold member_value. rewrite Hvz. cbn [bind]. destruct Hent as [Hadm _]. destruct v; try (exists b; exact Hbe). now apply admf_nonnull in Hadm.
  - (* MkBytes *)
    destruct F as (Hc & Hbf & a & Hft & Has & Hba). destruct Hent as (b & x & -> & _). pose proof (get_set _ _ Hb Hv) as Hvz.
    unfold serialize_field. cbn [andb]. rewrite (cond_self_none tm R allfs self f Hc). cbn [bind negb]. rewrite Hbf, Hft.
    unfold member_value. rewrite Hvz. cbn [bind]. rewrite Hba. eauto.
  - (* MkArray *)
    destruct F as (Hc & Hbf & Hft & Has & Hba & Hvs & Hbc & Hal). apply Bool.andb_true_iff in Hb as [Hset Hel].
    destruct (elem_name a) as [et|] eqn:Het; [|discriminate].
    destruct Hent as (l & x & -> & Hg & _ & (view & fuel & Hrun)). pose proof (get_set _ _ Hset Hv) as Hvz.
    unfold serialize_field. cbn [andb]. rewrite (cond_self_none tm R allfs self f Hc). cbn [bind negb]. rewrite Hbf, Hft.
    unfold member_value. rewrite Hvz. cbn [bind]. rewrite Hba, Hvs, Has. unfold write_array.
    apply (read_write_ok tm R a fuel (has_key a) (StopCount x) 0 None view l); [unfold has_key; destruct (a_sort_key a); [now left | now right] | reflexivity | exact Hrun|].
    exact (elems_enc a l et _ Hg Het Hvz).
  - (* MkSizeof *)
    destruct (int_kind_ser OP tm R s allfs (admf tm n) self total f _ i Hk eq_refl ltac:(discriminate) Htf) as (_ & _ & _ & _ & Hs). rewrite Hs.
    apply Bool.andb_true_iff in Hb as [Hb Hkn]. apply Bool.andb_true_iff in Hb as [Hwide Hsetg]. cbn [int_written].
    destruct (kind_by_name tm allfs typed gn) as [kg|] eqn:Hkg; [|discriminate]. destruct (by_name_good gn kg Hkg) as (vg & Hvg & Hentg).
    rewrite (get_set gn vg ltac:(assumption) Hvg).
    assert (HG : G_t t vg) by (destruct kg; try discriminate; match goal with Ht : String.eqb _ t = true |- _ => apply String.eqb_eq in Ht; subst end; exact Hentg).
    destruct (sub_enc t vg gn HG (get_set gn vg ltac:(assumption) Hvg)) as (b & _ & Hsz & Hlt). rewrite Hsz. apply int_done.
    apply (wide_range i 0); [assumption | lia | lia].
  - (* MkNamedSized *)
    destruct F as (Hc & Hft & Hres & Hbf & _). pose proof (get_set _ _ Hb Hv) as Hvz.
    destruct (sub_enc t v _ Hent Hvz) as (b & Hbe & _).
    unfold serialize_field. cbn [andb]. rewrite (cond_self_none tm R allfs self f Hc). cbn [bind negb]. rewrite Hbf, Hft, Hres.
    unfold member_value. rewrite Hvz. cbn [bind]. destruct Hent as [Hadm _]. destruct v; try (exists b; exact Hbe). now apply admf_nonnull in Hadm.
  - (* MkComputed *)
    destruct (int_kind_ser OP tm R s allfs (admf tm n) self total f _ i Hk eq_refl ltac:(discriminate) Htf) as (_ & _ & _ & _ & Hs). rewrite Hs.
    apply Bool.andb_true_iff in Hb as [Hb Hkn]. apply Bool.andb_true_iff in Hb as [Hwide Hsetg]. cbn [int_written].
    destruct F as (_ & _ & _ & _ & _ & Hd & _).
    destruct (kind_by_name tm allfs typed gn) as [kg|] eqn:Hkg; [|discriminate]. destruct (by_name_good gn kg Hkg) as (vg & Hvg & Hentg).
    rewrite (get_set gn vg ltac:(assumption) Hvg).
    assert (HG : vg = VNull \/ G_t t vg) by (destruct kg; try discriminate; match goal with Ht : String.eqb _ t = true |- _ => apply String.eqb_eq in Ht; subst end; exact Hentg).
    destruct HG as [->|HG]; [apply int_done, (wide_range i d); [assumption | lia | lia]|].
    destruct (sub_enc t vg gn HG (get_set gn vg ltac:(assumption) Hvg)) as (b & _ & Hsz & Hlt).
    assert (Hnn : vg <> VNull) by (intros ->; destruct HG as [Hadm _]; now apply admf_nonnull in Hadm).
    destruct vg; try contradiction; rewrite Hsz; cbn [bind]; apply py_to_bytes_ok, (wide_range i d); try assumption; lia.
  - (* MkCondNamed *)
    destruct F as (Hft & Hres & Hbf & _). pose proof (get_set _ _ Hb Hv) as Hvz.
    destruct Htf' as (v' & Hv' & Hos). rewrite Hvz in Hv'. injection Hv' as <-.
    unfold serialize_field. cbn [andb]. rewrite (cond_named_self tm R allfs (admf tm n) Hpos self f t cfn v Hk Hvz Hos).
    destruct Hent as [->|HG]; [cbn [bind negb]; eauto|].
    destruct (sub_enc t v _ HG Hvz) as (b & Hbe & Hsz & _).
    assert (Hnn : v <> VNull) by (intros ->; destruct HG as [Hadm _]; now apply admf_nonnull in Hadm).
    destruct v; try contradiction; rewrite Hsz; cbn [bind negb]; rewrite Hbf, Hft, Hres; unfold member_value; rewrite Hvz; cbn [bind]; eauto.
  - (* MkCondBytes *)
    destruct F as (Hbf & c & cf & a & j & Hfc & Hl & Hcv & Hop & Hcf & Hcft & Hfta & Has & Hba). pose proof (get_set _ _ Hb Hv) as Hvz.
    unfold serialize_field. cbn [andb]. unfold cond_self. rewrite Hfc, Hfta, Hvz. cbn [bind].
    destruct Hent as [[-> _]|(b & x & -> & _)]; [cbn [truthy negb]; eauto|].
    destruct (negb (truthy (VBytes b))); [eauto|]. rewrite Hbf. unfold member_value. rewrite ?Hvz. cbn [bind]. rewrite Hba. eauto.
  - (* MkByteSize *)
    destruct (int_kind_ser OP tm R s allfs (admf tm n) self total f _ i Hk eq_refl ltac:(discriminate) Htf) as (_ & _ & _ & _ & Hs). rewrite Hs.
    repeat (apply Bool.andb_true_iff in Hb as [Hb ?]). destruct Hent as (z & -> & Hr).
    match goal with Hg : in_fields g typed = true |- _ => apply in_fields_In in Hg; destruct (Henv g Hg) as (kg & vg & Hkg & Hvg & Hentg) end.
    rewrite Hkg in *. cbn [int_written].
    destruct kg; try discriminate; cbn [entry_good] in Hentg.
    match goal with Hn : String.eqb _ (f_name f) = true |- _ => apply String.eqb_eq in Hn; subst end.
    pose proof (classify_facts tm allfs g _ Hkg) as Fg. cbn [kind_facts] in Fg. destruct Fg as (_ & _ & Hgt & _ & Hgba & Hgvs & _ & Hgal).
    destruct Hentg as (l & x & -> & Hg & Hx & (view & fuel & Hrun & Hview)). rewrite Hv in Hx. injection Hx as <-.
    unfold member_size. rewrite Hgt, Hgba. unfold member_value. rewrite (get_set (f_name g) _ ltac:(assumption) Hvg). cbn [bind]. rewrite Hgvs.
    destruct (read_var_size tm R a fuel view l Hgal Hrun) as (tot & Htot & Hb0). unfold OP. rewrite Htot. apply int_done.
    eapply in_range_between; [apply Hr; lia | lia].
  - (* MkVarSized *)
    destruct F as (Hc & Hbf & Hft & Has & Hba & Hvs & Hbc & Hal). repeat (apply Bool.andb_true_iff in Hb as [Hb ?]).
    destruct (elem_name a) as [et|] eqn:Het; [|discriminate].
    destruct Hent as (l & x & -> & Hg & _ & (view & fuel & Hrun & _)). pose proof (get_set _ _ Hb Hv) as Hvz.
    unfold serialize_field. cbn [andb]. rewrite (cond_self_none tm R allfs self f Hc). cbn [bind negb]. rewrite Hbf, Hft.
    unfold member_value. rewrite Hvz. cbn [bind]. rewrite Hba, Hvs.
    apply (read_var_write tm R a fuel view l); [lia | exact Hrun | exact (elems_enc a l et _ Hg Het Hvz)].
  - (* MkFillPlain *)
    destruct F as (Hc & Hbf & Hft & Has & Hba & Hvs & Hbc & Hal & Hsk). apply Bool.andb_true_iff in Hb as [Hset Hel].
    destruct (elem_name a) as [et|] eqn:Het; [|discriminate].
    destruct Hent as (l & -> & Hg & (view & fuel & Hrun)). pose proof (get_set _ _ Hset Hv) as Hvz.
    unfold serialize_field. cbn [andb]. rewrite (cond_self_none tm R allfs self f Hc). cbn [bind negb]. rewrite Hbf, Hft.
    unfold member_value. rewrite Hvz. cbn [bind]. rewrite Hba, Hvs, Has. unfold write_array. rewrite (nokey_eq a Hsk).
    apply (read_write_ok tm R a fuel false StopEmpty 0 None view l); [now right | reflexivity | exact Hrun|].
    exact (elems_enc a l et _ Hg Het Hvz).
  - (* MkFillVar *)
    destruct F as (Hc & Hbf & Hft & Has & Hba & Hvs & Hbc & Hal). repeat (apply Bool.andb_true_iff in Hb as [Hb ?]).
    destruct (elem_name a) as [et|] eqn:Het; [|discriminate].
    destruct Hent as (l & -> & Hg & (view & fuel & Hrun & _)). pose proof (get_set _ _ Hb Hv) as Hvz.
    unfold serialize_field. cbn [andb]. rewrite (cond_self_none tm R allfs self f Hc). cbn [bind negb]. rewrite Hbf, Hft.
    unfold member_value. rewrite Hvz. cbn [bind]. rewrite Hba, Hvs.
    apply (read_var_write tm R a fuel view l); [lia | exact Hrun | exact (elems_enc a l et _ Hg Het Hvz)].
  - (* MkArm *)
    destruct F as [F _]. apply arm_info_facts in F. destruct F as (Hft & Hres & Hbf & _).
    apply Bool.andb_true_iff in Hb as [Hset Hsetl]. pose proof (get_set _ _ Hset Hv) as Hvz.
    destruct Hent as (z & Hz & Harm). pose proof (get_set _ _ Hsetl Hz) as Hlz.
    unfold serialize_field. cbn [andb]. rewrite (arm_cond_self tm R allfs self f t ln y i ys z Hk Hlz). cbn [bind].
    destruct Harm as [(-> & (x & ->) & HG)|(Hne & ->)].
    + rewrite Z.eqb_refl. cbn [negb]. rewrite Hbf, Hft, Hres. unfold member_value. rewrite Hvz. cbn [bind].
      destruct (sub_enc t (VInt x) _ HG Hvz) as (b & Hbe & _). eauto.
    + replace (y =? z) with false by lia. cbn [negb]. eauto.
Qed.

Lemma ser_members total : forall fs, (forall f, In f fs -> In f typed) -> forallb reenc_memberb fs = true ->
  exists b, serialize_fields_go OP tm R s allfs total self false fs = Ok b.
Proof.
  induction fs as [|f fs IH]; intros Hin Hall; [cbn; eauto|].
  cbn [forallb] in Hall. apply Bool.andb_true_iff in Hall as [Hf Hall].
  destruct (ser_member total f (Hin f (or_introl eq_refl)) Hf) as [bf Hbf].
  destruct (IH (fun g Hg => Hin g (or_intror Hg)) Hall) as [br Hbr].
  rewrite ser_fields_cons, Hbf. cbn [bind]. rewrite Hbr. cbn [bind]. eauto.
Qed.

End Member.
