(* Independent interpreter of an EXPANDED CATS schema (Ast.v terms, as AstPostProcessor.type_descriptors yields them):
   what the codec classes emitted by sdk/python/generator do for serialize / size / deserialize / Factory.deserialize / sort /
   to_json, written as total functions over a value tree.  Model file: definitions only.

   Python facts that are modelled explicitly:
   - slices are lenient (firstn/skipn), int.from_bytes of a short slice reads what is there;
   - ArrayHelpers.get_bytes is strict (ValueError = Reject);
   - int.to_bytes raises OverflowError out of range; reserved members are asserted on read (AssertionError);
   - Enum(value)/Flag(value) raise ValueError for non-members; factory lookup raises KeyError;
   - advancement after a nested object uses the object's computed `size`, not the bytes consumed;
   - an abstract struct's _deserialize windows the buffer by its @size member (or len(buffer) when it has none);
   - conditional members guarded by a LATER member are read through a temporary buffer.
   Constructs outside the dialect of the shipped schemas give Crash "Unsupported" (and are excluded by wf_schema). *)
From Symv Require Export Base.Bytes Base.PyOps Cats.Ast.
Open Scope string_scope.
Open Scope list_scope.
Open Scope Z_scope.

Inductive value :=
| VInt (z : Z)                                   (* int member, BaseValue.value, Enum/Flag value *)
| VBytes (b : bytes)                             (* bytes member, ByteArray.bytes *)
| VArr (l : list value)
| VStruct (cls : string) (fs : list (string * value))   (* concrete class + settable members by schema name, in schema order *)
| VNull.

Inductive keyv := KInt (z : Z) | KBytes (b : bytes) | KTuple (l : list keyv).

Definition unsupported {A} : result A := Crash "Unsupported".

(* ---------- Python integer primitives ---------- *)
Definition int_in_range (w : nat) (signed : bool) (x : Z) : bool :=
  let bits := 8 * Z.of_nat w in
  if signed then (- 2 ^ (bits - 1) <=? x) && (x <? 2 ^ (bits - 1)) else (0 <=? x) && (x <? 2 ^ bits).
Definition py_to_bytes (w : nat) (signed : bool) (x : Z) : result bytes :=
  if int_in_range w signed x then Ok (to_le w x) else Crash "OverflowError".
Definition py_from_bytes (w : nat) (signed : bool) (buf : bytes) : Z :=
  let b := firstn w buf in if signed then from_le_signed b else from_le b.
(* Python slices l[n:] and l[:n] for n >= 0; never build a unary nat larger than the list *)
Definition zskipn (n : Z) (l : bytes) : bytes := if Z.of_nat (length l) <=? n then [] else skipn (Z.to_nat n) l.
Definition zfirstn (n : Z) (l : bytes) : bytes := if Z.of_nat (length l) <=? n then l else firstn (Z.to_nat n) l.

(* ArrayHelpers.align_up; the operators come from the source (Gen/ArrayOps.v) through the section variables below *)
Record ops := {
  align_up : Z -> Z -> Z;                  (* ArrayHelpers.align_up *)
  order_bad_r : keyv -> keyv -> bool;      (* read_array_impl: `accessor(previous_element) >= accessor(element)` *)
  order_bad_w : keyv -> keyv -> bool;      (* write_array_impl: the same test on elements[i - 1], element *)
  size_bad : Z -> bool;                    (* read_array_impl: `element.size <= 0` *)
  size_bad_v : Z -> bool;                  (* read_variable_size_elements: `element.size <= 0` *)
  get_bytes_bad : Z -> Z -> bool;          (* get_bytes: `size > len(view)` (size, len) *)
  rv_is_last : Z -> Z -> bool;             (* read_variable_size_elements: `element.size >= len(view)` (size, len) *)
  rv_overrun : Z -> Z -> bool;             (* read_variable_size_elements: `aligned_size > len(view)` (aligned, len) *)
  base_value_bad : Z -> bool -> Z -> bool; (* BaseValue.__init__ bounds check (size, signed, value) *)
  transform : string -> bytes -> bytes     (* named transforms of @comparer (ripemd_keccak_256) *)
}.
Record rec_ops := {
  enc_t : string -> value -> result bytes;      (* T.serialize of a value of static type T (dynamic class for structs) *)
  size_t : string -> value -> result Z;         (* value.size *)
  dec_t : string -> bytes -> result value;      (* T.deserialize(buffer) *)
  decf_t : string -> bytes -> result value;     (* TFactory.deserialize(buffer) *)
  key_t : string -> value -> result keyv        (* sort-key view of a member value of static type T *)
}.

Section WithOps.
Variable OP : ops.
Variable tm : list decl.

Definition get_bytes (buf : bytes) (n : Z) : result bytes :=
  if get_bytes_bad OP n (Z.of_nat (length buf)) then Reject else Ok (zfirstn n buf).

Definition lookup (n : string) : option decl := find (fun d => String.eqb (decl_name d) n) tm.
Definition lookup_struct (n : string) : option struct := match lookup n with Some (DStruct s) => Some s | _ => None end.

(* ---------- field helpers ---------- *)
Definition f_name (f : field) : string := match f with Field n _ _ _ _ _ => n | InlinePlaceholder _ _ => "" end.
Definition f_type (f : field) : ftype := match f with Field _ t _ _ _ _ => t | InlinePlaceholder t _ => FName t end.
Definition f_value (f : field) : fvalue := match f with Field _ _ v _ _ _ => v | InlinePlaceholder _ _ => Ast.VNone end.
Definition f_disp (f : field) : disposition := match f with Field _ _ _ d _ _ => d | InlinePlaceholder _ _ => DispInline end.
Definition is_const (f : field) : bool := match f_disp f with DispConst => true | _ => false end.
Definition is_reserved (f : field) : bool := match f_disp f with DispReserved => true | _ => false end.
Definition is_sizeof (f : field) : bool := match f_disp f with DispSizeof => true | _ => false end.
Definition f_cond (f : field) : option conditional := match f_value f with VCond c => Some c | _ => None end.
Definition f_sizeref (f : field) : option (string * option Z) := match f_type f with FInt i => it_sizeref i | _ => None end.
Definition is_computed (f : field) : bool := match f_sizeref f with Some _ => true | None => false end.
Definition non_const (fs : list field) : list field := filter (fun f => negb (is_const f)) fs.
Definition find_field (fs : list field) (n : string) : option field := find (fun f => String.eqb (f_name f) n) fs.
Definition f_array (f : field) : option array := match f_type f with FArray a => Some a | _ => None end.
Definition array_size_name (f : field) : option string :=
  match f_array f with Some a => match a_size a with SzName s => Some s | _ => None end | None => None end.

(* _bind_size_fields: the LAST array naming `n` as its size wins; a sizeof member is bound to its target *)
Definition bound_array (fs : list field) (n : string) : option field :=
  find (fun g => match array_size_name g with Some s => String.eqb s n | None => false end) (rev fs).
Definition sizeof_target (fs : list field) (f : field) : option field :=
  if is_sizeof f then match f_value f with VName t => find_field fs t | _ => None end else None.
Definition bound_field (fs : list field) (f : field) : option field :=
  match sizeof_target fs f with Some g => Some g | None => bound_array fs (f_name f) end.
(* extensions.size_fields of g: sizeof members targeting g *)
Definition size_fields_of (fs : list field) (g : field) : list field :=
  filter (fun f => is_sizeof f && match f_value f with VName t => String.eqb t (f_name g) | _ => false end) fs.

Definition base_struct (s : struct) : option struct :=
  match s_factory_type s with Some a => lookup_struct a | None => None end.
Definition is_inherited (s : struct) (f : field) : bool :=
  match base_struct s with
  | Some b => existsb (fun g => String.eqb (f_name g) (f_name f)) (s_fields b)
  | None => false
  end.
Definition own_fields (s : struct) : list field := filter (fun f => negb (is_inherited s f)) (non_const (s_fields s)).
Definition attr_str (s : struct) (name : string) : option string :=
  match find_attr (s_attrs s) name with
  | Some a => match at_values a with AvStr v :: _ => Some v | _ => None end
  | None => None
  end.
Definition struct_size_attr (s : struct) : option string := attr_str s "size".
Definition is_size_first (s : struct) (fs : list field) (f : field) : bool :=   (* first own member that is the @size member *)
  match fs, struct_size_attr s with
  | g :: _, Some n => String.eqb (f_name g) (f_name f) && String.eqb (f_name f) n
  | _, _ => false
  end.
(* non_reserved_fields: the members a value carries *)
Definition is_settable (allfs : list field) (f : field) : bool :=
  negb (is_const f) && negb (is_reserved f) && negb (is_computed f)
  && match bound_field allfs f with Some _ => false | None => true end.
Definition drop_first_size (fs : list field) : list field :=
  match fs with f :: r => if String.eqb (f_name f) "size" then r else fs | [] => [] end.
Definition settable_fields (s : struct) : list field :=
  drop_first_size (filter (is_settable (non_const (s_fields s))) (non_const (s_fields s))).

Definition vget (v : value) (n : string) : option value :=
  match v with
  | VStruct _ fs => match find (fun p => String.eqb (fst p) n) fs with Some p => Some (snd p) | None => None end
  | _ => None
  end.
Definition truthy (v : value) : bool :=
  match v with VNull => false | VInt z => negb (z =? 0) | VBytes [] => false | VArr [] => false | _ => true end.

(* ---------- enum helpers ---------- *)
Definition enum_const (values : list enum_value) (n : string) : option Z :=
  match find (fun e => String.eqb (ev_name e) n) values with Some e => Some (ev_value e) | None => None end.
Definition is_bitwise (attrs : option (list attribute)) : bool := has_flag attrs "is_bitwise".
Definition enum_valid (values : list enum_value) (bitwise : bool) (x : Z) : bool :=
  if bitwise then
    let mask := fold_left (fun m e => Z.lor m (ev_value e)) values 0 in
    (0 <=? x) && (Z.land x mask =? x)
  else existsb (fun e => ev_value e =? x) values.

(* ---------- conditions ---------- *)
Inductive ckind := CkInt | CkEnum (values : list enum_value) (bitwise : bool) | CkOther.
Definition cond_kind (cf : field) : ckind :=
  match f_type cf with
  | FInt _ => CkInt
  | FName t => match lookup t with Some (DEnum _ _ vs at_ _) => CkEnum vs (is_bitwise at_) | _ => CkOther end
  | FArray _ => CkOther
  end.
Definition cond_yoda (k : ckind) (c : conditional) : option Z :=
  match k, c_value c with
  | CkInt, CvNum n => Some n
  | CkEnum vs _, CvName s => enum_const vs s
  | _, _ => None
  end.
Definition cond_eval (op : string) (yoda operand : Z) : option bool :=
  if String.eqb op "equals" then Some (yoda =? operand)
  else if String.eqb op "not equals" then Some (negb (yoda =? operand))
  else if String.eqb op "in" then Some (Z.land yoda operand =? yoda)
  else if String.eqb op "not in" then Some (negb (Z.land yoda operand =? yoda))
  else None.

(* ---------- sort keys ---------- *)
Fixpoint bytes_lt (a b : bytes) : bool :=
  match a, b with
  | [], [] => false
  | [], _ :: _ => true
  | _ :: _, [] => false
  | x :: a', y :: b' => if x <? y then true else if y <? x then false else bytes_lt a' b'
  end.
Fixpoint bytes_eq (a b : bytes) : bool :=
  match a, b with [], [] => true | x :: a', y :: b' => (x =? y) && bytes_eq a' b' | _, _ => false end.

(* ---------- typed array descriptors ---------- *)
Definition elem_name (a : array) : option string := match a_elem a with ElName t => Some t | ElInt _ => None end.
Definition is_byte_array (a : array) : bool := match a_elem a with ElInt i => it_size i =? 1 | _ => false end.
Definition contents_abstract (a : array) : bool :=
  match elem_name a with
  | Some t => match lookup_struct t with Some s => match s_disp s with SdAbstract => true | _ => false end | None => false end
  | None => false
  end.
Definition alignment_of (a : array) : Z := match a_alignment a with Some n => n | None => 0 end.
Definition is_variable_size (a : array) : bool :=
  (a_byte_constrained a || contents_abstract a) && negb (alignment_of a =? 0).
Definition skip_last (a : array) : bool := match a_last_padded a with Some true => false | _ => true end.
    (* skip_last_element_padding = not is_last_element_padded (None is falsy, so skip = True) *)

(* ArrayHelpers.size *)
Definition array_size_with (esize : value -> result Z) (l : list value) (alignment : Z) (skip_last_padding : bool) : result Z :=
  let fix go (l : list value) : result Z :=
    match l with
    | [] => Ok 0
    | [e] => bind (esize e) (fun s => Ok (if (alignment =? 0) || skip_last_padding then s else (align_up OP) s alignment))
    | e :: r => bind (esize e) (fun s => bind (go r) (fun t => Ok ((if alignment =? 0 then s else (align_up OP) s alignment) + t)))
    end in go l.

Section WithRec.
(* recursive knot: codecs of named types one level down *)
Variable R : rec_ops.

Definition elem_enc (a : array) (e : value) : result bytes :=
  match elem_name a with Some t => (enc_t R) t e | None => unsupported end.
Definition elem_size (a : array) (e : value) : result Z :=
  match elem_name a with Some t => (size_t R) t e | None => unsupported end.
Definition elem_dec (a : array) (buf : bytes) : result value :=
  match elem_name a with
  | Some t => if contents_abstract a then (decf_t R) t buf else (dec_t R) t buf
  | None => unsupported
  end.

(* accessor: lambda e: e.<sort_key>.comparer() if hasattr(..) else e.<sort_key> *)
Definition elem_key (a : array) (e : value) : result (option keyv) :=
  match a_sort_key a with
  | None => Ok None
  | Some k =>
    match elem_name a with
    | Some t =>
      match lookup_struct t with
      | Some es =>
        match find_field (s_fields es) k, vget e k with
        | Some kf, Some kv =>
          match f_type kf with
          | FInt _ => match kv with VInt z => Ok (Some (KInt z)) | _ => Crash "TypeError" end
          | FName kt => bind ((key_t R) kt kv) (fun x => Ok (Some x))
          | FArray _ => unsupported
          end
        | _, _ => Crash "AttributeError"
        end
      | None => Crash "AttributeError"
      end
    | None => unsupported
    end
  end.

(* write_array_impl(elements, count, accessor) *)
Fixpoint write_array_go (a : array) (prev : option keyv) (l : list value) (n : nat) : result bytes :=
  match n with
  | O => Ok []
  | S n' =>
    match l with
    | [] => Crash "IndexError"
    | e :: r =>
      bind (elem_key a e) (fun k =>
      let bad := match prev, k with Some p, Some c => (order_bad_w OP) p c | _, _ => false end in
      if bad then Reject else
      bind (elem_enc a e) (fun be => bind (write_array_go a k r n') (fun br => Ok (be ++ br))))
    end
  end.
Definition write_array (a : array) (l : list value) (count : nat) (use_accessor : bool) : result bytes :=
  write_array_go (if use_accessor then a else {| a_elem := a_elem a; a_size := a_size a; a_sort_key := None; a_byte_constrained := a_byte_constrained a;
                                                   a_alignment := a_alignment a; a_last_padded := a_last_padded a |}) None l count.

(* write_variable_size_elements *)
Fixpoint write_variable (a : array) (l : list value) : result bytes :=
  match l with
  | [] => Ok []
  | e :: r =>
    bind (elem_enc a e) (fun be => bind (elem_size a e) (fun s =>
    let pad := if skip_last a && match r with [] => true | _ => false end then 0 else (align_up OP) s (alignment_of a) - s in
    if 65536 <? pad then Crash "MemoryError" else
    bind (write_variable a r) (fun br => Ok (be ++ zeros (Z.to_nat pad) ++ br))))
  end.

(* read_array_impl with should_continue; fuel bounds the number of elements (the real loop has no bound) *)
Inductive stop_rule := StopCount (n : Z) | StopEmpty.
Fixpoint read_array_go (a : array) (use_accessor : bool) (fuel : nat) (rule : stop_rule) (i : Z) (prev : option keyv) (view : bytes)
  : result (list value) :=
  let continue := match rule with StopCount n => i <? n | StopEmpty => match view with [] => false | _ => true end end in
  if negb continue then Ok [] else
  match fuel with
  | O => Crash "OutOfFuel"
  | S fuel' =>
    bind (elem_dec a view) (fun e => bind (elem_size a e) (fun s =>
    if (size_bad OP) s then Reject else
    bind (if use_accessor then elem_key a e else Ok None) (fun k =>
    let bad := match prev, k with Some p, Some c => (order_bad_r OP) p c | _, _ => false end in
    if bad then Reject else
    bind (read_array_go a use_accessor fuel' rule (i + 1) (match k with Some _ => k | None => prev end) (zskipn s view)) (fun r => Ok (e :: r)))))
  end.

(* read_variable_size_elements *)
Fixpoint read_variable (a : array) (fuel : nat) (view : bytes) : result (list value) :=
  match view with
  | [] => Ok []
  | _ =>
    match fuel with
    | O => Crash "OutOfFuel"
    | S fuel' =>
      bind (elem_dec a view) (fun e => bind (elem_size a e) (fun s =>
      if (size_bad_v OP) s then Reject else
      let len := Z.of_nat (length view) in
      let aligned := if skip_last a && rv_is_last OP s len then s else (align_up OP) s (alignment_of a) in
      if rv_overrun OP aligned len then Reject else
      bind (read_variable a fuel' (zskipn aligned view)) (fun r => Ok (e :: r))))
    end
  end.

Definition array_fuel : nat := Z.to_nat 65536.

(* ---------- per-struct interpretation ---------- *)
Section WithStruct.
Variable s : struct.                 (* the class whose method runs *)
Variable allfs : list field.         (* non-const members of the CONCRETE struct of `self` (conditions / bindings look here) *)

(* self.<name> as a property: settable members from the value; reserved constants; computed sizeref members *)
Definition computed_value (self : value) (f : field) : result Z :=
  match f_sizeref f with
  | Some (prop, delta) =>
    match find_field allfs prop, vget self prop with
    | Some pf, Some pv =>
      if negb (truthy pv) then Ok 0 else
      match f_type pf with
      | FName t => bind ((size_t R) t pv) (fun sz => match delta with Some d => Ok (sz + d) | None => Crash "TypeError" end)
      | _ => Crash "AttributeError"
      end
    | _, _ => Crash "AttributeError"
    end
  | None => unsupported
  end.

Definition cond_operand_self (self : value) (cf : field) : result Z :=
  if is_computed cf then computed_value self cf
  else match vget self (f_name cf) with
       | Some (VInt z) => Ok z
       | _ => Crash "AttributeError"
       end.

(* generate_condition(field, prefix_field=True) *)
Definition cond_self (self : value) (f : field) : result bool :=
  match f_cond f with
  | None => Ok true
  | Some c =>
    match f_type f with
    | FName _ =>
      match find_field allfs (c_link c) with
      | Some cf =>
        match cond_yoda (cond_kind cf) c with
        | Some y => bind (cond_operand_self self cf) (fun o => match cond_eval (c_op c) y o with Some b => Ok b | None => unsupported end)
        | None => unsupported
        end
      | None => Crash "StopIteration"
      end
    | _ => match vget self (f_name f) with Some v => Ok (truthy v) | None => Crash "AttributeError" end
    end
  end.

Definition member_value (self : value) (f : field) : result value :=
  match vget self (f_name f) with Some v => Ok v | None => Crash "AttributeError" end.

(* printer.get_size() *)
Definition member_size (self : value) (f : field) : result Z :=
  match f_type f with
  | FInt i => Ok (it_size i)
  | FName t => bind (member_value self f) (fun v => match v with VNull => Crash "AttributeError" | _ => (size_t R) t v end)
  | FArray a =>
    if is_byte_array a then
      match a_size a with
      | SzNum n => Ok n
      | _ => bind (member_value self f) (fun v => match v with VBytes b => Ok (Z.of_nat (length b)) | _ => Crash "TypeError" end)
      end
    else
      bind (member_value self f) (fun v =>
      match v with
      | VArr l => if is_variable_size a then array_size_with (elem_size a) l (alignment_of a) (skip_last a)
                  else array_size_with (elem_size a) l 0 false
      | _ => Crash "TypeError"
      end)
  end.

(* size property of the class `s` evaluated on self (own members only; the base part is added by the caller) *)
Fixpoint size_fields (self : value) (fs : list field) : result Z :=
  match fs with
  | [] => Ok 0
  | f :: r =>
    bind (cond_self self f) (fun c =>
    bind (if c then member_size self f else Ok 0) (fun a => bind (size_fields self r) (fun b => Ok (a + b))))
  end.

Definition ends_with_count (n : string) : bool :=
  let suffix := "_count"%string in
  let ln := String.length n in let ls := String.length suffix in
  (ls <=? ln)%nat && String.eqb (substring (ln - ls) ls n) suffix.

(* generate_serialize_field *)
Definition serialize_field (total_size : Z) (self : value) (first : bool) (f : field) : result bytes :=
  if first && is_size_first s [f] f then
    match f_type f with FInt i => py_to_bytes (Z.to_nat (it_size i)) false total_size | _ => unsupported end
  else
  bind (cond_self self f) (fun c => if negb c then Ok [] else
  match bound_field allfs f with
  | Some g =>
    match f_type f with
    | FInt i =>
      let w := Z.to_nat (it_size i) in let sg := negb (it_unsigned i) in
      match f_array g with
      | Some ga =>
        if ends_with_count (f_name f) || negb (a_byte_constrained ga) then
          bind (member_value self g) (fun gv =>
          match gv, f_cond g with
          | VNull, Some gc => match c_value gc with CvNum n => py_to_bytes w sg n | CvName _ => Crash "NameError" end
          | VBytes b, _ => py_to_bytes w sg (Z.of_nat (length b))
          | VArr l, _ => py_to_bytes w sg (Z.of_nat (length l))
          | _, _ => Crash "TypeError"
          end)
        else bind (member_size self g) (py_to_bytes w sg)
      | None => if is_sizeof f then bind (member_size self g) (py_to_bytes w sg) else unsupported
      end
    | _ => unsupported
    end
  | None =>
    match f_type f with
    | FInt i =>
      let w := Z.to_nat (it_size i) in let sg := negb (it_unsigned i) in
      if is_computed f then bind (computed_value self f) (py_to_bytes w sg)
      else if is_reserved f then match f_value f with VNum n => py_to_bytes w sg n | _ => unsupported end
      else bind (member_value self f) (fun v => match v with VInt z => py_to_bytes w sg z | _ => Crash "AttributeError" end)
    | FName t =>
      if is_reserved f then unsupported else
      bind (member_value self f) (fun v => match v with VNull => Crash "AttributeError" | _ => (enc_t R) t v end)
    | FArray a =>
      bind (member_value self f) (fun v =>
      if is_byte_array a then match v with VBytes b => Ok b | _ => Crash "TypeError" end
      else match v with
           | VArr l =>
             if is_variable_size a then write_variable a l
             else match a_size a with
                  | SzFill => write_array a l (length l) false
                  | SzNum n => write_array a l (Z.to_nat n) true
                  | SzName _ => write_array a l (length l) true
                  end
           | _ => Crash "TypeError"
           end)
    end
  end).

Fixpoint serialize_fields_go (total_size : Z) (self : value) (first : bool) (fs : list field) : result bytes :=
  match fs with
  | [] => Ok []
  | f :: r => bind (serialize_field total_size self first f) (fun a => bind (serialize_fields_go total_size self false r) (fun b => Ok (a ++ b)))
  end.

(* ---- deserialisation of the own members of `s` ---- *)
Definition env := list (string * value).
Definition eget (e : env) (n : string) : option value :=
  match find (fun p => String.eqb (fst p) n) e with Some p => Some (snd p) | None => None end.

(* generate_condition(field) on locals *)
Definition cond_local (e : env) (f : field) : result bool :=
  match f_cond f with
  | None => Ok true
  | Some c =>
    match find_field allfs (c_link c) with
    | Some cf =>
      match cond_yoda (cond_kind cf) c, eget e (c_link c) with
      | Some y, Some (VInt o) => match cond_eval (c_op c) y o with Some b => Ok b | None => unsupported end
      | Some _, _ => Crash "NameError"
      | None, _ => unsupported
      end
    | None => Crash "StopIteration"
    end
  end.

Definition size_local (e : env) (n : string) : result Z :=
  match eget e n with Some (VInt z) => Ok z | _ => Crash "NameError" end.

(* load + advancement of one member from `buf`; returns the value and the new buffer.
   `window`: for the @size member the buffer becomes buffer[w:size_] *)
Definition load_field (e : env) (f : field) (buf : bytes) : result (value * bytes) :=
  match f_type f with
  | FInt i =>
    let w := Z.to_nat (it_size i) in
    let x := py_from_bytes w (negb (it_unsigned i)) buf in
    let rest := if match struct_size_attr s with Some n => String.eqb n (f_name f) | None => false end
                then skipn w (zfirstn x buf) else skipn w buf in
    if is_reserved f then
      match f_value f with VNum n => if x =? n then Ok (VInt x, rest) else Crash "AssertionError" | _ => unsupported end
    else Ok (VInt x, rest)
  | FName t =>
    let lbuf := match size_fields_of allfs f with
                | [sf] => match eget e (f_name sf) with Some (VInt n) => Some (zfirstn n buf) | _ => None end
                | [] => Some buf
                | _ => None
                end in
    match lbuf with
    | None => Crash "NameError"
    | Some lb =>
      let is_abs := match lookup_struct t with Some ts => match s_disp ts with SdAbstract => true | _ => false end | None => false end in
      bind (if is_abs then (decf_t R) t lb else (dec_t R) t lb) (fun v => bind ((size_t R) t v) (fun sz => Ok (v, zskipn sz buf)))
    end
  | FArray a =>
    if is_byte_array a then
      bind (match a_size a with SzNum n => Ok n | SzName n => size_local e n | SzFill => unsupported end) (fun n =>
      bind (get_bytes buf n) (fun b => Ok (VBytes b, zskipn n buf)))
    else
      let vsz := is_variable_size a in
      bind (match a_size a with SzNum n => Ok (Some n) | SzName n => bind (size_local e n) (fun z => Ok (Some z)) | SzFill => Ok None end) (fun sz =>
      bind (if vsz then
              read_variable a array_fuel (match sz with Some n => zfirstn n buf | None => buf end)
            else match sz with
                 | None => read_array_go a false array_fuel StopEmpty 0 None buf
                 | Some n => read_array_go a (match a_sort_key a with Some _ => true | None => false end) array_fuel (StopCount n) 0 None buf
                 end) (fun l =>
      bind (if a_byte_constrained a then match sz with Some n => Ok n | None => unsupported end
            else if negb (alignment_of a =? 0) then array_size_with (elem_size a) l (alignment_of a) (skip_last a)
            else array_size_with (elem_size a) l 0 false) (fun adv =>
      Ok (VArr l, zskipn adv buf))))
  end.

(* generate_deserialize_field with an explicit buffer (main buffer or a temporary one) *)
Definition deserialize_field (e : env) (f : field) (buf : bytes) : result (env * bytes) :=
  bind (cond_local e f) (fun c =>
  if c then bind (load_field e f buf) (fun r => Ok ((f_name f, fst r) :: e, snd r))
  else Ok ((f_name f, VNull) :: e, buf)).

(* the member loop of get_deserialize_descriptor:
   processed: names already read; queued: (condition member, waiting members); temps: temporary buffers by condition member *)
Fixpoint drain_queue (e : env) (fs : list field) (tbuf : bytes) : result env :=
  match fs with
  | [] => Ok e
  | f :: r => bind (deserialize_field e f tbuf) (fun x => drain_queue (fst x) r (snd x))
  end.

Fixpoint deserialize_loop (fs : list field) (processed : list string) (queued : list (string * list field)) (temps : list (string * bytes))
  (e : env) (buf : bytes) : result (env * bytes) :=
  match fs with
  | [] => Ok (e, buf)
  | f :: r =>
    let waits := match f_cond f with
                 | Some c => if existsb (String.eqb (c_link c)) processed then None else Some (c_link c)
                 | None => None
                 end in
    match waits with
    | Some cn =>
      match find (fun q => String.eqb (fst q) cn) queued with
      | Some _ =>
        deserialize_loop r processed (map (fun q => if String.eqb (fst q) cn then (fst q, snd q ++ [f]) else q) queued) temps e buf
      | None =>
        (* first member waiting for cn: dummy read to learn the arm size *)
        match f_type f with
        | FName t =>
          bind ((dec_t R) t buf) (fun tv => bind ((size_t R) t tv) (fun sz =>
          deserialize_loop r processed (queued ++ [(cn, [f])]) ((cn, zfirstn sz buf) :: temps) e (zskipn sz buf)))
        | _ => Crash "TypeError"
        end
      end
    | None =>
      bind (deserialize_field e f buf) (fun x =>
      let e1 := fst x in
      let waiting := match find (fun q => String.eqb (fst q) (f_name f)) queued with Some q => snd q | None => [] end in
      let tbuf := match find (fun q => String.eqb (fst q) (f_name f)) temps with Some q => snd q | None => [] end in
      bind (drain_queue e1 waiting tbuf) (fun e2 =>
      deserialize_loop r (f_name f :: processed) queued temps e2 (snd x)))
    end
  end.

End WithStruct.
End WithRec.

(* ---------- tying the knot on fuel (depth of type nesting) ---------- *)
Definition struct_fields_nc (s : struct) : list field := non_const (s_fields s).
Definition no_dec (_ : string) (_ : bytes) : result value := unsupported.

(* the `size` property of a struct class, given the codecs of the member types *)
Definition size_struct_with (R : rec_ops) (s : struct) (v : value) : result Z :=
  let allfs := struct_fields_nc s in
  match base_struct s with
  | Some b =>
    bind (size_fields R allfs v (struct_fields_nc b)) (fun hs =>
    bind (size_fields R allfs v (own_fields s)) (fun os => Ok (hs + os)))
  | None => size_fields R allfs v (own_fields s)
  end.

(* A._deserialize(buffer, instance): returns locals, window start, window end (R: codecs of the member types) *)
Definition dec_header_with (R : rec_ops) (b : struct) (allfs : list field) (buf : bytes) : result (list (string * value) * Z * Z) :=
  let bfs := struct_fields_nc b in
  let has_size := existsb (fun f => String.eqb (f_name f) "size") bfs in
  bind (deserialize_loop R b allfs bfs [] [] [] [] buf) (fun r =>
  let size_ := if has_size then match eget (fst r) "size" with Some (VInt z) => z | _ => 0 end else Z.of_nat (length buf) in
  Ok (fst r, size_ - Z.of_nat (length (snd r)), size_)).

(* members a decoded instance carries, in schema order *)
Definition collect (s : struct) (e : list (string * value)) : list (string * value) :=
  map (fun f => (f_name f, match find (fun p => String.eqb (fst p) (f_name f)) e with Some p => snd p | None => VNull end)) (settable_fields s).

Fixpoint enc (fuel : nat) (t : string) (v : value) {struct fuel} : result bytes :=
  match fuel with
  | O => Crash "OutOfFuel"
  | S k =>
    match v with
    | VStruct cls _ =>
      match lookup_struct cls with
      | Some s => enc_struct k s v
      | None => Crash "AttributeError"
      end
    | _ =>
      match lookup t with
      | Some (DAlias _ (LInt i) _) => match v with VInt z => py_to_bytes (Z.to_nat (it_size i)) (negb (it_unsigned i)) z | _ => Crash "AttributeError" end
      | Some (DAlias _ (LBuffer _) _) => match v with VBytes b => Ok b | _ => Crash "AttributeError" end
      | Some (DEnum _ b _ _ _) => match v with VInt z => py_to_bytes (Z.to_nat (it_size b)) (negb (it_unsigned b)) z | _ => Crash "AttributeError" end
      | _ => Crash "AttributeError"
      end
    end
  end
with size (fuel : nat) (t : string) (v : value) {struct fuel} : result Z :=
  match fuel with
  | O => Crash "OutOfFuel"
  | S k =>
    match v with
    | VStruct cls _ =>
      match lookup_struct cls with
      | Some s => size_struct k s v
      | None => Crash "AttributeError"
      end
    | VNull => Crash "AttributeError"
    | _ =>
      match lookup t with
      | Some (DAlias _ (LInt i) _) => Ok (it_size i)
      | Some (DAlias _ (LBuffer n) _) => Ok n
      | Some (DEnum _ b _ _ _) => Ok (it_size b)
      | _ => Crash "AttributeError"
      end
    end
  end
with key (fuel : nat) (t : string) (v : value) {struct fuel} : result keyv :=
  match fuel with
  | O => Crash "OutOfFuel"
  | S k =>
    match lookup t, v with
    | Some (DAlias _ (LInt _) _), VInt z => Ok (KInt z)
    | Some (DAlias _ (LBuffer _) _), VBytes b => Ok (KBytes b)
    | Some (DStruct s), VStruct _ _ =>
      (* struct.comparer(): tuple of (prop | prop.value for enums | (transform OP)(prop.bytes)) *)
      match find_attr (s_attrs s) "comparer" with
      | Some a =>
        let fix go (vals : list avalue) : result (list keyv) :=
          match vals with
          | AvStr p :: tr :: rest =>
            match find_field (s_fields s) p, vget v p with
            | Some pf, Some pv =>
              bind (match tr, f_type pf, pv with
                    | AvStr trn, _, VBytes b => Ok (KBytes ((transform OP) trn b))
                    | AvNone, FInt _, VInt z => Ok (KInt z)
                    | AvNone, FName pt, _ =>
                      match lookup pt, pv with
                      | Some (DEnum _ _ _ _ _), VInt z => Ok (KInt z)
                      | Some (DAlias _ (LInt _) _), VInt z => Ok (KInt z)
                      | Some (DAlias _ (LBuffer _) _), VBytes b => Ok (KBytes b)
                      | _, _ => unsupported
                      end
                    | _, _, _ => Crash "AttributeError"
                    end) (fun x => bind (go rest) (fun r => Ok (x :: r)))
            | _, _ => Crash "AttributeError"
            end
          | [] => Ok []
          | _ => unsupported
          end in
        bind (go (at_values a)) (fun l => Ok (KTuple l))
      | None => Crash "TypeError"     (* struct objects without comparer are not orderable *)
      end
    | _, _ => Crash "TypeError"
    end
  end
with enc_struct (fuel : nat) (s : struct) (v : value) {struct fuel} : result bytes :=
  match fuel with
  | O => Crash "OutOfFuel"
  | S k =>
    let allfs := struct_fields_nc s in
    bind (size_struct_with {| enc_t := enc k; size_t := size k; dec_t := dec k; decf_t := decf k; key_t := key k |} s v) (fun total =>
    match base_struct s with
    | Some b =>
      bind (serialize_fields_go {| enc_t := enc k; size_t := size k; dec_t := dec k; decf_t := decf k; key_t := key k |} b allfs total v true (struct_fields_nc b)) (fun hb =>
      bind (serialize_fields_go {| enc_t := enc k; size_t := size k; dec_t := dec k; decf_t := decf k; key_t := key k |} s allfs total v true (own_fields s)) (fun ob => Ok (hb ++ ob)))
    | None => serialize_fields_go {| enc_t := enc k; size_t := size k; dec_t := dec k; decf_t := decf k; key_t := key k |} s allfs total v true (own_fields s)
    end)
  end
with size_struct (fuel : nat) (s : struct) (v : value) {struct fuel} : result Z :=
  match fuel with
  | O => Crash "OutOfFuel"
  | S k => size_struct_with {| enc_t := enc k; size_t := size k; dec_t := dec k; decf_t := decf k; key_t := key k |} s v
  end
with dec (fuel : nat) (t : string) (buf : bytes) {struct fuel} : result value :=
  match fuel with
  | O => Crash "OutOfFuel"
  | S k =>
    match lookup t with
    | Some (DAlias _ (LInt i) _) =>
      let x := py_from_bytes (Z.to_nat (it_size i)) (negb (it_unsigned i)) buf in
      if base_value_bad OP (it_size i) false x then Reject else Ok (VInt x)     (* BaseValue range check: the alias formatter never passes signed *)
    | Some (DAlias _ (LBuffer n) _) => bind (get_bytes buf n) (fun b => Ok (VBytes b))
    | Some (DEnum _ b vs at_ _) =>
      let x := py_from_bytes (Z.to_nat (it_size b)) (negb (it_unsigned b)) buf in
      if enum_valid vs (is_bitwise at_) x then Ok (VInt x) else Reject
    | Some (DStruct s) => dec_struct k s buf
    | None => Crash "NameError"
    end
  end
(* S.deserialize of a struct class (one more unit of fuel, like enc_struct / size_struct, so that members are at the same level) *)
with dec_struct (fuel : nat) (s : struct) (buf : bytes) {struct fuel} : result value :=
  match fuel with
  | O => Crash "OutOfFuel"
  | S k =>
      match s_disp s with
      | SdAbstract => Crash "AttributeError"     (* abstract classes have no public deserialize *)
      | _ =>
        let allfs := struct_fields_nc s in
        match base_struct s with
        | Some b =>
          bind (dec_header_with {| enc_t := enc k; size_t := size k; dec_t := dec k; decf_t := decf k; key_t := key k |} b allfs buf) (fun h =>
          let '(e0, ws, we) := h in
          let wbuf := zskipn ws (zfirstn we buf) in
          bind (deserialize_loop {| enc_t := enc k; size_t := size k; dec_t := dec k; decf_t := decf k; key_t := key k |} s allfs (own_fields s) [] [] [] e0 wbuf) (fun r =>
          Ok (VStruct (s_name s) (collect s (fst r)))))
        | None =>
          bind (deserialize_loop {| enc_t := enc k; size_t := size k; dec_t := dec k; decf_t := decf k; key_t := key k |} s allfs (own_fields s) [] [] [] [] buf) (fun r =>
          Ok (VStruct (s_name s) (collect s (fst r))))
        end
      end
  end
(* TFactory.deserialize *)
with decf (fuel : nat) (t : string) (buf : bytes) {struct fuel} : result value :=
  match fuel with
  | O => Crash "OutOfFuel"
  | S O => Crash "OutOfFuel"
  | S (S k1 as k) =>      (* the parent header and the chosen child are both read with member codecs at level k1 (as serialize does) *)
    match lookup_struct t with
    | Some a =>
      bind (dec_header_with {| enc_t := enc k1; size_t := size k1; dec_t := dec k1; decf_t := decf k1; key_t := key k1 |} a (struct_fields_nc a) buf) (fun h =>
      let '(e0, _, _) := h in
      match find_attr (s_attrs a) "discriminator" with
      | Some da =>
        let names := flat_map (fun x => match x with AvStr n => [n] | _ => [] end) (at_values da) in
        let actual := map (fun n => eget e0 n) names in
        (* children in declaration order; a later child with the same key overwrites an earlier one in the dict *)
        let children := filter (fun d => match d with DStruct c => match s_factory_type c with Some f => String.eqb f t | None => false end | _ => false end) tm in
        let key_of (c : struct) : list (option value) :=
          map (fun n =>
            match find (fun at_ => String.eqb (at_name at_) "initializes"
                                   && match at_values at_ with AvStr tn :: _ => String.eqb tn n | _ => false end)
                       (match s_attrs c with Some l => l | None => [] end) with
            | Some ia =>
              match at_values ia with
              | _ :: AvStr cn :: _ =>
                match find_field (s_fields c) cn with
                | Some cf =>
                  match f_type cf, f_value cf with
                  | FInt _, VNum z => Some (VInt z)
                  | FName et, VName vn => match lookup et with Some (DEnum _ _ vs _ _) => option_map VInt (enum_const vs vn) | _ => None end
                  | _, _ => None
                  end
                | None => None
                end
              | _ => None
              end
            | None => None
            end) names in
        let veq (x y : option value) : bool := match x, y with Some (VInt p), Some (VInt q) => p =? q | _, _ => false end in
        let fix keys_eq (x y : list (option value)) : bool :=
          match x, y with [], [] => true | p :: x', q :: y' => veq p q && keys_eq x' y' | _, _ => false end in
        match find (fun d => match d with DStruct c => keys_eq (key_of c) actual | _ => false end) (rev children) with
        | Some (DStruct c) => dec_struct k c buf
        | _ => Crash "KeyError"
        end
      | None => Crash "KeyError"
      end)
    | None => Crash "NameError"
    end
  end.

End WithOps.
