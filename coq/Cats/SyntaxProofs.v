(* Proofs about Cats/Syntax.v, part 2: comments, physical and logical lines, the line automaton, and the theorems of C04 / C11. *)
From Coq Require Import ZArith List Bool String Ascii Lia ZifyBool.
From Symv Require Import Base.Bytes Cats.Ast Cats.Syntax Cats.SyntaxLexProofs.
From Symv Require Base.PyOps.
Import ListNotations.
Open Scope list_scope.
Open Scope Z_scope.

(* ------------------------------------------------------------------------------------------------------------------ *)
(* splitting at line feeds *)

Definition nolf (l : list Z) : bool := forallb (fun c => negb (c =? 10)) l.

Lemma split_lf_line l r : nolf l = true -> split_lf (l ++ 10 :: r) = (l, fst (split_lf r) :: snd (split_lf r)).
Proof.
  induction l as [|c l IH]; intro H.
  - cbn [app split_lf]. destruct (split_lf r). reflexivity.
  - cbn [nolf forallb] in H. apply andb_true_iff in H as [Hc Hl]. cbn [app split_lf]. rewrite (IH Hl).
    apply negb_true_iff in Hc. rewrite Hc. reflexivity.
Qed.

Lemma split_lf_nolf l : nolf l = true -> split_lf l = (l, []).
Proof.
  induction l as [|c l IH]; intro H; [reflexivity|].
  cbn [nolf forallb] in H. apply andb_true_iff in H as [Hc Hl]. cbn [split_lf]. rewrite (IH Hl).
  apply negb_true_iff in Hc. rewrite Hc. reflexivity.
Qed.

(* a text is its pieces joined by line feeds, and the pieces contain no line feed *)
Lemma split_lf_spec s : s = fst (split_lf s) ++ flat_map (cons 10) (snd (split_lf s))
  /\ nolf (fst (split_lf s)) = true /\ forallb nolf (snd (split_lf s)) = true.
Proof.
  induction s as [|c s [IH1 [IH2 IH3]]]; [repeat split; reflexivity|].
  cbn [split_lf]. destruct (split_lf s) as [p ps]. cbn [fst snd] in *. destruct (c =? 10) eqn:E.
  - apply Z.eqb_eq in E. subst c. cbn [fst snd app flat_map forallb nolf]. rewrite IH2, IH3. repeat split. f_equal. exact IH1.
  - cbn [fst snd app nolf forallb]. rewrite E. cbn [negb andb]. fold (nolf p). rewrite IH2, IH3. repeat split. f_equal. exact IH1.
Qed.

Lemma nolf_app a b : nolf (a ++ b) = nolf a && nolf b.
Proof. apply forallb_app. Qed.

(* the pieces of a text made of complete lines *)
Lemma split_lines (lines : list (list Z)) (cr : list Z) :
  forallb nolf lines = true -> nolf cr = true ->
  let text := flat_map (fun l => l ++ cr ++ [10]) lines in
  let (p, ps) := split_lf text in pieces_tail p ps = (map (fun l => l ++ cr) lines, []).
Proof.
  intros Hl Hcr. induction lines as [|l lines IH]; [reflexivity|].
  cbn [forallb] in Hl. apply andb_true_iff in Hl as [H1 H2]. specialize (IH H2).
  cbn [flat_map]. rewrite <- !app_assoc. cbn [app].
  replace (l ++ cr ++ 10 :: flat_map (fun l0 => l0 ++ cr ++ [10]) lines) with ((l ++ cr) ++ 10 :: flat_map (fun l0 => l0 ++ cr ++ [10]) lines)
    by (rewrite <- app_assoc; reflexivity).
  rewrite split_lf_line by (rewrite nolf_app, H1, Hcr; reflexivity).
  cbn zeta in IH. destruct (split_lf (flat_map (fun l0 => l0 ++ cr ++ [10]) lines)) as [p ps]. cbn [fst snd pieces_tail].
  rewrite IH. reflexivity.
Qed.

(* ------------------------------------------------------------------------------------------------------------------ *)
Section Proofs2.
Variable T : terms.
Hypothesis Hok : terms_ok T = true.

(* --- Comment.__init__ on printed comment lines *)
Lemma lstrip_in set a b : forallb (in_set set) a = true -> lstrip set (a ++ b) = lstrip set b.
Proof. induction a as [|c a IH]; cbn [forallb app lstrip]; [reflexivity|]. intro H. apply andb_true_iff in H as [Hc Ha]. rewrite Hc. auto. Qed.
Lemma lstrip_stop set c r : in_set set c = false -> lstrip set (c :: r) = c :: r.
Proof. intro H. cbn [lstrip]. rewrite H. reflexivity. Qed.
Lemma rstrip_all set t : forallb (in_set set) t = true -> rstrip set t = [].
Proof. induction t as [|c t IH]; cbn [forallb rstrip]; [reflexivity|]. intro H. apply andb_true_iff in H as [Hc Ht]. rewrite (IH Ht), Hc. reflexivity. Qed.
Lemma rstrip_keep set s t : s <> [] -> in_set set (last s 0) = false -> forallb (in_set set) t = true -> rstrip set (s ++ t) = s.
Proof.
  intros Hne Hl Ht. induction s as [|c s IH]; [contradiction|]. destruct s as [|d s].
  - cbn [app rstrip last] in *. rewrite (rstrip_all _ _ Ht), Hl. reflexivity.
  - change ((c :: d :: s) ++ t) with (c :: (d :: s) ++ t). cbn [rstrip]. rewrite IH by (try discriminate; exact Hl). reflexivity.
Qed.

Definition ws_only (l : list Z) : bool := forallb is_ws l.
Definition cr_ok (cr : list Z) : Prop := cr = [] \/ (cr = [13] /\ in_set (comment_strip T) 13 = true).

Lemma ws_in_strip l : ws_only l = true -> forallb (in_set (comment_strip T)) l = true.
Proof.
  unfold ws_only. intro H. apply forallb_forall. intros c Hc. rewrite forallb_forall in H. specialize (H c Hc).
  unfold is_ws in H. apply orb_true_iff in H as [H|H]; apply Z.eqb_eq in H; subst; [apply (ok_strip_sp T Hok)|apply (ok_strip_tab T Hok)].
Qed.
Lemma cr_in_strip cr : cr_ok cr -> forallb (in_set (comment_strip T)) cr = true.
Proof. intros [->|[-> H]]; cbn [forallb]; [reflexivity|]. rewrite H. reflexivity. Qed.

Lemma strip_text_line ind seg cr :
  ws_only ind = true -> cr_ok cr -> seg <> [] -> seg_ok T seg = true -> py_strip (comment_strip T) (ind ++ [35; 32] ++ seg ++ cr) = seg.
Proof.
  intros Hi Hcr Hne Hs. unfold py_strip. rewrite lstrip_in by (apply ws_in_strip; exact Hi).
  cbn [app lstrip]. rewrite (ok_strip_hash T Hok), (ok_strip_sp T Hok).
  destruct seg as [|c seg]; [contradiction|]. unfold seg_ok in Hs. apply andb_true_iff in Hs as [H1 H2].
  apply negb_true_iff in H1, H2. change ((c :: seg) ++ cr) with (c :: seg ++ cr). rewrite lstrip_stop by exact H1.
  change (c :: seg ++ cr) with ((c :: seg) ++ cr). apply rstrip_keep; [discriminate|exact H2|apply cr_in_strip; exact Hcr].
Qed.
Lemma strip_hash_line ind cr : ws_only ind = true -> cr_ok cr -> py_strip (comment_strip T) (ind ++ [35] ++ cr) = [].
Proof.
  intros Hi Hcr. unfold py_strip. rewrite lstrip_in by (apply ws_in_strip; exact Hi).
  cbn [app lstrip]. rewrite (ok_strip_hash T Hok). rewrite <- (app_nil_r cr), lstrip_in by (apply cr_in_strip; exact Hcr). reflexivity.
Qed.

Lemma lstrip_skip_ws p : lstrip (comment_strip T) (skip_ws p) = lstrip (comment_strip T) p.
Proof.
  induction p as [|c p IH]; [reflexivity|]. cbn [skip_ws]. destruct (is_ws c) eqn:E; [|reflexivity].
  cbn [lstrip]. assert (in_set (comment_strip T) c = true).
  { unfold is_ws in E. apply orb_true_iff in E as [E|E]; apply Z.eqb_eq in E; subst; [apply (ok_strip_sp T Hok)|apply (ok_strip_tab T Hok)]. }
  rewrite H. exact IH.
Qed.

Lemma comment_go_skip p rest sep : comment_go T (skip_ws p :: rest) sep = comment_go T (p :: rest) sep.
Proof. cbn [comment_go]. unfold py_strip. rewrite lstrip_skip_ws. reflexivity. Qed.

Section CommentLines.
Variables (ind cr : list Z).
Hypothesis Hind : ws_only ind = true.
Hypothesis Hcr : cr_ok cr.
Let L (l : list Z) : list Z := ind ++ l ++ cr.

Lemma go_seg_line s sep rest : seg_ok T s = true ->
  comment_go T (map L (seg_line s) ++ rest) sep =
  match s with [] => comment_go T rest sep | _ => (if sep then comment_sep T else []) ++ s ++ comment_go T rest true end.
Proof.
  intro Hs. destruct s as [|c s]; [reflexivity|].
  change (map L (seg_line (c :: s)) ++ rest) with (L ([35; 32] ++ c :: s) :: rest). cbn [comment_go]. unfold L.
  rewrite <- app_assoc. rewrite strip_text_line by (try assumption; discriminate). reflexivity.
Qed.

Lemma go_rest segs : forall sep, forallb (seg_ok T) segs = true ->
  comment_go T (map L (clines_rest segs)) sep = flat_map (cons 10) segs.
Proof.
  induction segs as [|s segs IH]; intros sep H; [reflexivity|].
  cbn [forallb] in H. apply andb_true_iff in H as [Hs Hr].
  change (map L (clines_rest (s :: segs))) with (L [35] :: map L (seg_line s ++ clines_rest segs)). cbn [comment_go]. unfold L at 1.
  rewrite strip_hash_line by assumption. rewrite (ok_cblank T Hok).
  rewrite map_app, go_seg_line by exact Hs. cbn [flat_map app]. f_equal.
  destruct s as [|c s]; [apply IH; exact Hr|]. cbn [app]. rewrite IH by exact Hr. reflexivity.
Qed.

Lemma comment_ok c : wf_comment_text T c = true ->
  comment_parse T (comment_text_lines (map L (clines (Some c)))) = c /\ clines (Some c) <> [].
Proof.
  unfold wf_comment_text. destruct (of_string c) as [|c0 cs] eqn:Ec; [discriminate|]. rewrite <- Ec.
  pose proof (split_lf_spec (of_string c)) as [Hsplit _]. unfold clines.
  destruct (split_lf (of_string c)) as [s r]. cbn [fst snd] in Hsplit. intro H. apply andb_true_iff in H as [Hs Hr].
  split.
  - unfold comment_parse. rewrite (ok_cinit T Hok). cbn [app].
    assert (Hgo : comment_go T (comment_text_lines (map L (seg_line s ++ clines_rest r))) false = of_string c).
    { assert (E : comment_go T (comment_text_lines (map L (seg_line s ++ clines_rest r))) false
                  = comment_go T (map L (seg_line s ++ clines_rest r)) false).
      { destruct (map L (seg_line s ++ clines_rest r)) as [|p rest]; [reflexivity|]. apply comment_go_skip. }
      rewrite E, map_app, go_seg_line by exact Hs. rewrite Hsplit. destruct s as [|x s].
      - cbn [app]. apply go_rest. exact Hr.
      - cbn [app]. rewrite go_rest by exact Hr. reflexivity. }
    rewrite Hgo. apply to_str_of_string.
  - destruct s as [|x s]; [|discriminate]. destruct r as [|y r]; [|discriminate].
    cbn [app flat_map] in Hsplit. rewrite Hsplit in Ec. discriminate.
Qed.
End CommentLines.

(* --- tagged physical lines and their grouping into logical lines *)
Definition head_stmt (content : list Z) : bool := match content with c :: _ => negb (is_ws c) && negb (c =? 35) | [] => false end.
Definition plainc (l : list Z) : bool := forallb (fun c => negb (c =? 10) && negb (c =? 13)) l.
Definition pline_ok (p : pline) : bool :=
  match p with
  | PBlank => true
  | PComment ind t => ws_only ind && head_is 35 t && nolf t
  | PStmt ind c => ws_only ind && head_stmt c && plainc c
  end.
Definition cr_shape (cr : list Z) : Prop := cr = [] \/ cr = [13].

Lemma span_ws_app ind rest : ws_only ind = true -> stops is_ws rest = true -> span is_ws (ind ++ rest) = (ind, rest).
Proof. intros. apply span_app; assumption. Qed.

Lemma drop_last_cr_snoc c : drop_last_cr (c ++ [13]) = c.
Proof.
  induction c as [|x c IH]; [reflexivity|]. destruct c as [|y c]; [reflexivity|].
  change ((x :: y :: c) ++ [13]) with (x :: y :: c ++ [13]) in *. change ((y :: c) ++ [13]) with (y :: c ++ [13]) in IH.
  change (drop_last_cr (x :: y :: c ++ [13])) with (x :: drop_last_cr (y :: c ++ [13])). rewrite IH. reflexivity.
Qed.
Lemma drop_last_cr_plain c : plainc c = true -> drop_last_cr c = c.
Proof.
  induction c as [|x c IH]; [reflexivity|]. intro H. cbn [plainc forallb] in H. apply andb_true_iff in H as [Hx Hc].
  destruct c as [|y c].
  - assert (Hne : x <> 13) by lia. cbn [drop_last_cr]. apply Z.eqb_neq in Hne. rewrite Hne. reflexivity.
  - cbn [drop_last_cr]. f_equal. apply IH. exact Hc.
Qed.
Lemma drop_last_cr_stmt c cr : cr_shape cr -> plainc c = true -> drop_last_cr (c ++ cr) = c.
Proof. intros [->| ->] H; [rewrite app_nil_r; apply drop_last_cr_plain; exact H|apply drop_last_cr_snoc]. Qed.
Lemma drop_last_cr_comment t cr : head_is 35 t = true -> exists rest, drop_last_cr (t ++ cr) = 35 :: rest.
Proof.
  destruct t as [|c t]; [discriminate|]. cbn [head_is]. intro H. apply Z.eqb_eq in H. subst c.
  change ((35 :: t) ++ cr) with (35 :: t ++ cr). destruct (t ++ cr) as [|y l]; [exists []; reflexivity|]. eexists. reflexivity.
Qed.

Lemma classify_blank cr : cr_shape cr -> classify ([] ++ cr) = ([], KBlank).
Proof. intros [->| ->]; reflexivity. Qed.
Lemma classify_comment ind t cr : ws_only ind = true -> head_is 35 t = true -> classify ((ind ++ t) ++ cr) = (ind, KComment).
Proof.
  intros Hi Ht. unfold classify. rewrite <- app_assoc. rewrite span_ws_app; [|exact Hi|].
  2:{ destruct t as [|c t]; [discriminate|]. cbn [head_is] in Ht. apply Z.eqb_eq in Ht. subst. reflexivity. }
  destruct (drop_last_cr_comment t cr Ht) as [rest ->]. reflexivity.
Qed.
Lemma classify_stmt ind c cr : cr_shape cr -> ws_only ind = true -> head_stmt c = true -> plainc c = true ->
  classify ((ind ++ c) ++ cr) = (ind, KStmt c).
Proof.
  intros Hcr Hi Hh Hp. unfold classify. rewrite <- app_assoc.
  destruct c as [|x c]; [discriminate|]. cbn [head_stmt] in Hh. apply andb_true_iff in Hh as [Hw H35].
  rewrite span_ws_app; [|exact Hi|cbn [app stops]; exact Hw].
  rewrite drop_last_cr_stmt by assumption. apply negb_true_iff in H35. rewrite H35. reflexivity.
Qed.

Fixpoint tpeek (tl : list pline) : Z :=
  match tl with [] => 0 | PBlank :: r => tpeek r | PComment ind _ :: _ | PStmt ind _ :: _ => ws_width T ind end.
Definition tnext_comment (tl : list pline) : bool := match tl with PComment _ _ :: _ => true | _ => false end.
Fixpoint tgroup (cr : list Z) (tl : list pline) : list mline :=
  match tl with
  | [] => []
  | PBlank :: r => tgroup cr r
  | PComment ind t :: r =>
    if tnext_comment r then add_comment_line ((ind ++ t) ++ cr) (tgroup cr r)
    else {| m_body := MComment [(ind ++ t) ++ cr]; m_next := Some (tpeek r) |} :: tgroup cr r
  | PStmt ind c :: r => {| m_body := MStmt c; m_next := Some (tpeek r) |} :: tgroup cr r
  end.

Definition phys (cr : list Z) (tl : list pline) : list (list Z) := map (fun p => untag p ++ cr) tl.

Lemma classify_tagged cr p : cr_shape cr -> pline_ok p = true ->
  classify (untag p ++ cr) =
  match p with PBlank => ([], KBlank) | PComment ind _ => (ind, KComment) | PStmt ind c => (ind, KStmt c) end.
Proof.
  intros Hcr Hp. destruct p as [|ind t|ind c]; cbn [untag pline_ok] in *.
  - apply classify_blank. exact Hcr.
  - apply andb_true_iff in Hp as [Hp _]. apply andb_true_iff in Hp as [Hi Ht]. apply classify_comment; assumption.
  - apply andb_true_iff in Hp as [Hp Hpl]. apply andb_true_iff in Hp as [Hi Hh]. apply classify_stmt; assumption.
Qed.

Lemma peek_indent_tagged cr tl : cr_shape cr -> forallb pline_ok tl = true -> peek_indent T (phys cr tl) [] = tpeek tl.
Proof.
  intros Hcr. induction tl as [|p tl IH]; intro H; [reflexivity|].
  cbn [forallb] in H. apply andb_true_iff in H as [Hp Htl]. cbn [phys map peek_indent]. fold (phys cr tl).
  rewrite (classify_tagged cr p Hcr Hp). destruct p; cbn [tpeek]; auto.
Qed.
Lemma peek_comment_tagged cr tl : cr_shape cr -> forallb pline_ok tl = true -> peek_comment (phys cr tl) [] = tnext_comment tl.
Proof.
  intros Hcr H. destruct tl as [|p tl]; [reflexivity|]. cbn [forallb] in H. apply andb_true_iff in H as [Hp _].
  unfold peek_comment. cbn [phys map]. rewrite (classify_tagged cr p Hcr Hp). destruct p; reflexivity.
Qed.

Lemma mgroup_tagged cr tl : cr_shape cr -> forallb pline_ok tl = true -> mgroup T (phys cr tl) [] = tgroup cr tl.
Proof.
  intros Hcr. induction tl as [|p tl IH]; intro H; [reflexivity|].
  cbn [forallb] in H. apply andb_true_iff in H as [Hp Htl]. cbn [phys map mgroup]. fold (phys cr tl).
  rewrite (classify_tagged cr p Hcr Hp), (IH Htl), peek_indent_tagged, peek_comment_tagged by assumption.
  destruct p; reflexivity.
Qed.

(* --- the characters `render` prints: no line feed / carriage return inside statement lines *)
Definition plain1 (c : Z) : bool := negb (c =? 10) && negb (c =? 13).
Lemma plainc_app a b : plainc (a ++ b) = plainc a && plainc b.
Proof. apply forallb_app. Qed.
Lemma plainc_forall (P : Z -> bool) l : (forall c, P c = true -> plain1 c = true) -> forallb P l = true -> plainc l = true.
Proof. intros HP H. apply forallb_forall. intros c Hc. rewrite forallb_forall in H. apply HP, H, Hc. Qed.
Lemma plainc_nolf l : plainc l = true -> nolf l = true.
Proof. intro H. apply forallb_forall. intros c Hc. unfold plainc in H. rewrite forallb_forall in H. specialize (H c Hc). lia. Qed.

Lemma plain_prop_rest c : prop_rest c = true -> plain1 c = true.
Proof. unfold prop_rest, plain1, is_lower, is_digit. lia. Qed.
Lemma plain_const_rest c : const_rest c = true -> plain1 c = true.
Proof. unfold const_rest, plain1, is_upper, is_digit. lia. Qed.
Lemma plain_type_rest c : type_rest c = true -> plain1 c = true.
Proof. unfold type_rest, plain1, is_upper, is_lower, is_digit. lia. Qed.
Lemma plain_lower c : is_lower c = true -> plain1 c = true.
Proof. unfold plain1, is_lower. lia. Qed.
Lemma plain_upper c : is_upper c = true -> plain1 c = true.
Proof. unfold plain1, is_upper. lia. Qed.
Lemma plain_digit c : is_digit c = true -> plain1 c = true.
Proof. unfold plain1, is_digit. lia. Qed.

Lemma plainc_name first second rest m n :
  (forall c, first c = true -> plain1 c = true) -> (forall c, rest c = true -> plain1 c = true) ->
  match second with Some s => forall c, s c = true -> plain1 c = true | None => True end ->
  wf_name first second rest m n = true -> plainc (of_string n) = true.
Proof.
  intros Hf Hr Hs. unfold wf_name. destruct (of_string n) as [|c b]; [discriminate|]. intro H.
  apply andb_true_iff in H as [Hc H]. cbn [plainc forallb]. fold (plain1 c). rewrite (Hf c Hc). cbn [andb].
  destruct second as [s|].
  - destruct b as [|d b]; [discriminate|]. apply andb_true_iff in H as [H _]. apply andb_true_iff in H as [Hd Hb].
    cbn [forallb]. fold (plain1 d). rewrite (Hs d Hd). cbn [andb]. exact (plainc_forall rest b Hr Hb).
  - apply andb_true_iff in H as [Hb _]. exact (plainc_forall rest b Hr Hb).
Qed.
Lemma plainc_prop n : wf_prop T n = true -> plainc (of_string n) = true.
Proof. apply plainc_name; [exact plain_lower|exact plain_prop_rest|exact I]. Qed.
Lemma plainc_const n : wf_const T n = true -> plainc (of_string n) = true.
Proof. apply plainc_name; [exact plain_upper|exact plain_const_rest|exact I]. Qed.
Lemma plainc_type n : wf_type T n = true -> plainc (of_string n) = true.
Proof. apply plainc_name; [exact plain_upper|exact plain_type_rest|exact plain_lower]. Qed.
Lemma plainc_kw k : kw_ok k = true -> plainc k = true.
Proof.
  destruct k as [|c k]; [discriminate|]. cbn [kw_ok]. intro H. apply andb_true_iff in H as [Hc Hk].
  cbn [plainc forallb]. fold (plain1 c). rewrite (plain_lower c Hc). exact (plainc_forall prop_rest k plain_prop_rest Hk).
Qed.
Lemma plainc_op k : op_ok k = true -> plainc k = true.
Proof.
  destruct k as [|c k]; [discriminate|]. cbn [op_ok]. intro H. apply andb_true_iff in H as [Hc Hk].
  cbn [plainc forallb]. fold (plain1 c). rewrite (plain_lower c Hc). refine (plainc_forall _ k _ Hk).
  intros x Hx. unfold prop_rest, plain1, is_lower, is_digit in *. lia.
Qed.
Lemma plainc_ph k : ph_ok k = true -> plainc k = true.
Proof.
  destruct k as [|c k]; [discriminate|]. cbn [ph_ok]. intro H. apply andb_true_iff in H as [Hc Hk].
  cbn [plainc forallb]. assert (c = 95) by lia. subst c. cbn [andb]. refine (plainc_forall _ k _ Hk).
  intros x Hx. unfold prop_rest, plain1, is_lower, is_upper, is_digit in *. lia.
Qed.
Lemma plainc_dec n : 0 <= n -> plainc (r_dec n) = true.
Proof. intro H. destruct (r_dec_ok n H) as [_ [Hall _]]. exact (plainc_forall is_digit _ plain_digit Hall). Qed.
Lemma plainc_num st n : 0 <= n -> plainc (r_num T st n) = true.
Proof.
  intro H. unfold r_num. destruct (st_hex st n); [|apply plainc_dec; exact H].
  rewrite (ok_hex_prefix T Hok), plainc_app. cbn [andb].
  destruct (digits_ok 16 (hex_char T) (hex_val T) (hex_digit_ok T)) with (n := n) as [_ [Hall _]]; try lia;
    try (intros d Hd; apply (hex_char_ok T Hok); exact Hd).
  refine (plainc_forall _ _ _ Hall). intros c Hc. unfold hex_digit_ok in Hc. rewrite (ok_hex_lo T Hok), (ok_hex_hi T Hok) in Hc.
  unfold plain1, is_digit in *. lia.
Qed.
Lemma plainc_int i : wf_intty T i = true -> plainc (r_int T i) = true.
Proof.
  unfold wf_intty. destruct (it_sizeref i); [discriminate|]. intro H. apply andb_true_iff in H as [Hsz _]. apply Z.leb_le in Hsz.
  unfold r_int. rewrite !plainc_app, (plainc_kw _ (kwok_int T Hok)), plainc_dec by lia. rewrite andb_true_r.
  destruct (it_unsigned i); [|reflexivity]. rewrite (ok_uprefix T Hok). cbn [plainc forallb].
  fold (plain1 (fsi_unsigned_char T)). rewrite (plain_lower _ (ok_uchar_lower T Hok)). reflexivity.
Qed.

Ltac plain_tac :=
  repeat rewrite plainc_app; repeat (apply andb_true_intro; split); try reflexivity;
  try (apply plainc_kw; first [apply (kwok_import T Hok)|apply (kwok_using T Hok)|apply (kwok_enum T Hok)|apply (kwok_struct T Hok)
        |apply (kwok_make_const T Hok)|apply (kwok_make_reserved T Hok)|apply (kwok_sizeof T Hok)|apply (kwok_inline_field T Hok)
        |apply (kwok_inline_member T Hok)|apply (kwok_array T Hok)|apply (kwok_if T Hok)|apply (kwok_binary_fixed T Hok)]);
  try (apply plainc_prop; assumption); try (apply plainc_const; assumption); try (apply plainc_type; assumption);
  try (apply plainc_int; assumption); try (apply plainc_num; lia); try (apply plainc_dec; lia).

Lemma plainc_ftype st ty : wf_plain_type T ty = true -> plainc (r_ftype T st ty) = true.
Proof.
  destruct ty as [i|t|a]; cbn [wf_plain_type r_ftype]; intro H; [plain_tac|plain_tac|].
  unfold wf_array in H. apply andb_true_iff in H as [H _]. apply andb_true_iff in H as [He Hs].
  unfold r_array. destruct (a_elem a), (a_size a); try apply Z.leb_le in Hs; plain_tac. apply plainc_ph. apply (ok_fill T Hok).
  apply plainc_ph. apply (ok_fill T Hok).
Qed.

Lemma plainc_cond st c : wf_cond T c = true -> plainc (r_fvalue T st (VCond c)) = true.
Proof.
  unfold wf_cond. intro H. apply andb_true_iff in H as [H Hl]. apply andb_true_iff in H as [Hv Ho]. apply mem_In in Ho.
  cbn [r_fvalue]. destruct (c_value c); try apply Z.leb_le in Hv; plain_tac;
    (apply plainc_op; pose proof (ok_ops T Hok) as Hall; rewrite forallb_forall in Hall; apply Hall; exact Ho).
Qed.

Lemma plainc_const_pair st ty v : wf_const_pair T ty v = true -> plainc (r_ftype T st ty) = true /\ plainc (r_fvalue T st v) = true.
Proof.
  unfold wf_const_pair. destruct ty as [i|t|a]; destruct v as [|n|c|cc]; try discriminate; intro H; apply andb_true_iff in H as [H1 H2];
    cbn [r_ftype r_fvalue]; try apply Z.leb_le in H2; split; plain_tac.
Qed.

Lemma plainc_join sep l : plainc sep = true -> forallb plainc l = true -> plainc (join sep l) = true.
Proof.
  intros Hs. induction l as [|x l IH]; intro H; [reflexivity|]. cbn [forallb] in H. apply andb_true_iff in H as [Hx Hl].
  destruct l as [|y l]; [exact Hx|]. rewrite join_cons2, !plainc_app, Hx, Hs, (IH Hl). reflexivity.
Qed.

Definition pav (st : style) (v : avalue) : bool := plainc (r_avalue T st v).

Lemma pav_pairs st vals : forallb (pav st) vals = true -> forallb plainc (r_pairs T st vals) = true.
Proof.
  assert (Hgen : forall n vals, (length vals <= n)%nat -> forallb (pav st) vals = true -> forallb plainc (r_pairs T st vals) = true).
  { induction n as [|n IH]; intros vs Hn H.
    - destruct vs; [reflexivity|cbn in Hn; lia].
    - destruct vs as [|v [|t r]]; try reflexivity. cbn [forallb] in H. apply andb_true_iff in H as [Hv H]. apply andb_true_iff in H as [Ht Hr].
      cbn [r_pairs forallb]. rewrite IH by (try exact Hr; cbn [length] in Hn; lia). rewrite andb_true_r, plainc_app. unfold pav in Hv, Ht. rewrite Hv.
      destruct t; try reflexivity; rewrite plainc_app, Ht; reflexivity. }
  apply (Hgen (length vals)). lia.
Qed.

Lemma wf_pairs_pav st vals : wf_pairs T vals = true -> forallb (pav st) vals = true.
Proof.
  assert (Hgen : forall n vals, (length vals <= n)%nat -> wf_pairs T vals = true -> forallb (pav st) vals = true).
  { induction n as [|n IH]; intros vs Hn Hwf; destruct (wf_pairs_inv T vs Hwf) as [p [t [r [-> [Hp [Ht Hr]]]]]].
    - cbn in Hn. lia.
    - cbn [forallb]. unfold pav at 1 2. cbn [r_avalue]. rewrite (plainc_prop p Hp). cbn [andb].
      assert (Htt : plainc (r_avalue T st t) = true).
      { destruct t as [?|tn|]; try discriminate; [|reflexivity]. cbn [wf_transform] in Ht. apply mem_In in Ht.
        cbn [r_avalue]. apply plainc_kw. apply (kwok_transform T Hok). exact Ht. }
      rewrite Htt. cbn [andb]. destruct Hr as [->|Hr]; [reflexivity|]. apply IH; [cbn [length] in Hn; lia|exact Hr]. }
  apply (Hgen (length vals)). lia.
Qed.

Lemma wf_attr_pav st ctx a : wf_attr T ctx a = true -> forallb (pav st) (at_values a) = true.
Proof.
  unfold wf_attr. destruct (attr_kind T ctx (of_string (at_name a))) as [k|]; [|discriminate].
  destruct a as [name vals]. cbn [at_values]. unfold pav. destruct k.
  - destruct vals; [reflexivity|discriminate].
  - destruct vals as [|v1 vals]; [discriminate|]. destruct v1 as [n|?|]; try discriminate.
    destruct vals as [|neg vals]; [discriminate|]. destruct vals as [|opt vals]; [destruct neg; discriminate|].
    destruct vals as [|x vals]; [|destruct neg, opt; discriminate].
    destruct opt as [?|o|].
    + destruct neg; discriminate.
    + destruct neg as [?|g|]; intro H; apply andb_true_iff in H as [H H3]; try discriminate; apply andb_true_iff in H as [H1 H2];
        apply Z.leb_le in H1; apply mem_In in H2; cbn [forallb r_avalue]; rewrite (plainc_num st n H1);
        rewrite (plainc_kw _ (kwok_option T Hok _ H2)); [|reflexivity].
      apply list_eqb_eq in H3. rewrite H3, (plainc_kw _ (kwok_negation T Hok)). reflexivity.
    + destruct neg; try discriminate. intro H. apply Z.leb_le in H. cbn [forallb r_avalue]. rewrite (plainc_num st n H). reflexivity.
  - destruct vals as [|[?|p|] [|? ?]]; try discriminate. intro H. cbn [forallb r_avalue]. rewrite (plainc_prop p H). reflexivity.
  - destruct vals as [|[?|p|] [|[n|?|] [|? ?]]]; try discriminate; intro H.
    + cbn [forallb r_avalue]. rewrite (plainc_prop p H). reflexivity.
    + apply andb_true_iff in H as [Hp Hn]. apply Z.leb_le in Hn. cbn [forallb r_avalue]. rewrite (plainc_prop p Hp), (plainc_num st n Hn). reflexivity.
  - destruct vals as [|[?|p|] [|[?|c|] [|? ?]]]; try discriminate. intro H. apply andb_true_iff in H as [Hp Hc].
    cbn [forallb r_avalue]. rewrite (plainc_prop p Hp), (plainc_const c Hc). reflexivity.
  - destruct vals as [|v vs]; [discriminate|]. intro H. apply forallb_forall. intros x Hx. rewrite forallb_forall in H. specialize (H x Hx).
    destruct x; try discriminate. cbn [r_avalue]. apply plainc_prop. exact H.
  - intro H. apply (wf_pairs_pav st vals H).
Qed.

Lemma plainc_attr st ctx a : wf_attr T ctx a = true -> plainc (r_attr T st ctx a) = true.
Proof.
  intro Hwf. pose proof (wf_attr_pav st ctx a Hwf) as Hpav.
  assert (Hname : plainc (of_string (at_name a)) = true).
  { unfold wf_attr in Hwf. destruct (attr_kind T ctx (of_string (at_name a))) as [k|] eqn:Hk; [|discriminate].
    apply plainc_kw. eapply (attr_name_kw T Hok). exact Hk. }
  unfold r_attr. rewrite !plainc_app, Hname. change (plainc [64]) with true. cbn [andb].
  destruct (at_values a) as [|v vs] eqn:Ev; [reflexivity|]. rewrite !plainc_app. change (plainc [40]) with true. change (plainc [41]) with true.
  rewrite andb_true_r. cbn [andb].
  assert (Hj : plainc (join [44; 32] (map (r_avalue T st) (v :: vs))) = true).
  { apply plainc_join; [reflexivity|]. rewrite forallb_forall in *. intros x Hx. apply in_map_iff in Hx as [y [<- Hy]]. exact (Hpav y Hy). }
  destruct (attr_kind T ctx (of_string (at_name a))) as [[| | | | | |]|]; try exact Hj.
  - destruct vs as [|neg [|opt [|? ?]]]; try exact Hj. cbn [forallb] in Hpav. unfold pav in Hpav.
    apply andb_true_iff in Hpav as [H1 Hpav]. apply andb_true_iff in Hpav as [H2 Hpav]. apply andb_true_iff in Hpav as [H3 _].
    rewrite plainc_app, H1. destruct opt; try reflexivity; rewrite !plainc_app, H3; destruct neg; try reflexivity; rewrite plainc_app, H2; reflexivity.
  - apply plainc_join; [reflexivity|]. apply pav_pairs. exact Hpav.
Qed.

Lemma head_stmt_lower c s : head_is c s = true -> is_lower c = true -> head_stmt s = true.
Proof. destruct s as [|d s]; [discriminate|]. cbn [head_is head_stmt]. intros H Hc. apply Z.eqb_eq in H. subst d. unfold is_ws, is_lower in *. lia. Qed.
Lemma head_stmt_upper c s : head_is c s = true -> is_upper c = true -> head_stmt s = true.
Proof. destruct s as [|d s]; [discriminate|]. cbn [head_is head_stmt]. intros H Hc. apply Z.eqb_eq in H. subst d. unfold is_ws, is_upper in *. lia. Qed.
Lemma head_stmt_kw k r : kw_ok k = true -> head_stmt (k ++ r) = true.
Proof. intro H. destruct (kw_head k r H) as [c [Hh Hc]]. eapply head_stmt_lower; eassumption. Qed.

(* statement lines *)
Lemma stmt_ok_attr st ind ctx a : ws_only ind = true -> wf_attr T ctx a = true -> pline_ok (PStmt ind (r_attr T st ctx a)) = true.
Proof. intros Hi Hwf. cbn [pline_ok]. rewrite Hi, (plainc_attr st ctx a Hwf). reflexivity. Qed.

Lemma stmt_ok_attrs st ind ctx attrs : ws_only ind = true -> wf_attrs T ctx attrs = true ->
  forallb pline_ok (map (PStmt ind) (r_attrs T st ctx attrs)) = true.
Proof.
  intros Hi H. destruct attrs as [l|]; [|reflexivity]. cbn [r_attrs]. assert (Hl : forallb (wf_attr T ctx) l = true) by (destruct l; [discriminate|exact H]).
  clear H. induction l as [|a l IH]; [reflexivity|]. cbn [forallb] in Hl. apply andb_true_iff in Hl as [Ha Hl].
  cbn [map forallb]. rewrite (stmt_ok_attr st ind ctx a Hi Ha). exact (IH Hl).
Qed.

Lemma stmt_ok_field st ind f : ws_only ind = true -> wf_field T f = true -> pline_ok (PStmt ind (r_field T st f)) = true.
Proof.
  intros Hi. destruct f as [n ty v d attrs c|t c]; cbn [wf_field pline_ok r_field]; rewrite Hi; cbn [andb]; intro H.
  2:{ apply andb_true_iff in H as [Ht _]. rewrite (head_stmt_kw _ _ (kwok_inline_member T Hok)). plain_tac. }
  apply andb_true_iff in H as [_ H]. destruct d.
  - apply andb_true_iff in H as [H Hattrs]. apply andb_true_iff in H as [H Hv]. apply andb_true_iff in H as [Hname Hty].
    fold (wf_plain_type T ty) in Hty.
    assert (Hn : head_stmt (of_string n ++ [32; 61; 32] ++ r_ftype T st ty ++ match v with VNone => [] | _ => [32] ++ r_fvalue T st v end) = true
                 /\ plainc (of_string n) = true).
    { apply orb_true_iff in Hname as [Hvp|Hname].
      - apply list_eqb_eq in Hvp. rewrite Hvp. split; [|apply plainc_ph, (ok_value T Hok)].
        pose proof (ph_head (value_placeholder T) ([32; 61; 32] ++ r_ftype T st ty ++ match v with VNone => [] | _ => [32] ++ r_fvalue T st v end) (ok_value T Hok)) as Hh.
        destruct (value_placeholder T ++ _) as [|d s]; [discriminate|]. cbn [head_is] in Hh. apply Z.eqb_eq in Hh. subst d. reflexivity.
      - apply andb_true_iff in Hname as [Hp _]. split; [|apply plainc_prop; exact Hp].
        destruct (prop_head T n ([32; 61; 32] ++ r_ftype T st ty ++ match v with VNone => [] | _ => [32] ++ r_fvalue T st v end) Hp) as [x [Hh Hx]].
        eapply head_stmt_lower; eassumption. }
    destruct Hn as [Hh Hpn]. rewrite Hh. cbn [andb]. rewrite !plainc_app, Hpn, (plainc_ftype st ty Hty). cbn [plainc forallb andb].
    destruct v as [| | |cc]; try discriminate; [reflexivity|]. rewrite plainc_app, (plainc_cond st cc Hv). reflexivity.
  - apply andb_true_iff in H as [H Ha]. apply andb_true_iff in H as [Hn Hp]. destruct (plainc_const_pair st ty v Hp) as [H1 H2].
    destruct (const_head T n ([32; 61; 32] ++ kw_make_const T ++ [40] ++ r_ftype T st ty ++ [44; 32] ++ r_fvalue T st v ++ [41]) Hn) as [x [Hh Hx]].
    rewrite (head_stmt_upper x _ Hh Hx). plain_tac; assumption.
  - apply andb_true_iff in H as [H Ha]. apply andb_true_iff in H as [H Hp]. apply andb_true_iff in H as [Hn Hw].
    destruct (plainc_const_pair st ty v Hp) as [H1 H2].
    destruct (prop_head T n ([32; 61; 32] ++ kw_make_reserved T ++ [40] ++ r_ftype T st ty ++ [44; 32] ++ r_fvalue T st v ++ [41]) Hn) as [x [Hh Hx]].
    rewrite (head_stmt_lower x _ Hh Hx). plain_tac; assumption.
  - apply andb_true_iff in H as [H Htv]. apply andb_true_iff in H as [H Ha]. apply andb_true_iff in H as [Hn Hw].
    destruct ty as [i| |]; try discriminate. destruct v as [| |p|]; try discriminate. apply andb_true_iff in Htv as [Hi' Hp].
    destruct (prop_head T n ([32; 61; 32] ++ kw_sizeof T ++ [40] ++ r_ftype T st (FInt i) ++ [44; 32] ++ r_fvalue T st (VName p) ++ [41]) Hn) as [x [Hh Hx]].
    rewrite (head_stmt_lower x _ Hh Hx). cbn [r_ftype r_fvalue]. plain_tac.
  - apply andb_true_iff in H as [H Htv]. apply andb_true_iff in H as [H Ha]. apply andb_true_iff in H as [Hn Hw].
    destruct ty as [|t|]; try discriminate. destruct v; try discriminate.
    destruct (prop_head T n ([32; 61; 32] ++ kw_inline_field T ++ [32] ++ r_ftype T st (FName t)) Hn) as [x [Hh Hx]].
    rewrite (head_stmt_lower x _ Hh Hx). cbn [r_ftype]. plain_tac.
Qed.

Lemma stmt_ok_alias st n l : wf_type T n = true -> match l with LInt i => wf_intty T i | LBuffer k => wf_num k end = true ->
  pline_ok (PStmt [] (r_alias T st n l)) = true.
Proof.
  intros Hn Hl. cbn [pline_ok ws_only forallb andb]. unfold r_alias. rewrite (head_stmt_kw _ _ (kwok_using T Hok)).
  destruct l as [i|k]; cbn [r_linked]; [|apply Z.leb_le in Hl]; plain_tac.
Qed.
Lemma stmt_ok_enum_header n b : wf_type T n = true -> wf_intty T b = true -> pline_ok (PStmt [] (r_enum_header T n b)) = true.
Proof. intros Hn Hb. cbn [pline_ok ws_only forallb andb]. unfold r_enum_header. rewrite (head_stmt_kw _ _ (kwok_enum T Hok)). plain_tac. Qed.
Lemma stmt_ok_struct_header d n : wf_type T n = true -> pline_ok (PStmt [] (r_struct_header T d n)) = true.
Proof.
  intros Hn. cbn [pline_ok ws_only forallb andb]. unfold r_struct_header.
  destruct (modifier_head T Hok d ([32] ++ of_string n)) as [c [Hh Hc]]. rewrite (head_stmt_lower c _ Hh Hc).
  destruct d; cbn [modifier_text]; plain_tac.
Qed.
Lemma stmt_ok_import p : wf_path p = true -> pline_ok (PStmt [] (r_import T p)) = true.
Proof.
  intros Hp. cbn [pline_ok ws_only forallb andb]. unfold r_import. rewrite (head_stmt_kw _ _ (kwok_import T Hok)). plain_tac.
  unfold wf_path in Hp. apply forallb_forall. intros c Hc. rewrite forallb_forall in Hp. specialize (Hp c Hc). lia.
Qed.
Lemma stmt_ok_value st ind v : ws_only ind = true -> wf_value T v = true -> pline_ok (PStmt ind (r_value T st v)) = true.
Proof.
  intros Hi H. unfold wf_value in H. apply andb_true_iff in H as [H _]. apply andb_true_iff in H as [Hn Hv]. apply Z.leb_le in Hv.
  cbn [pline_ok]. rewrite Hi. unfold r_value.
  destruct (const_head T (ev_name v) ([32; 61; 32] ++ r_num T st (ev_value v)) Hn) as [x [Hh Hx]]. rewrite (head_stmt_upper x _ Hh Hx). plain_tac.
Qed.

Lemma comment_tlines_ok ind c : ws_only ind = true -> forallb pline_ok (comment_tlines ind c) = true.
Proof.
  intro Hi. unfold comment_tlines. destruct c as [c|]; [|reflexivity]. unfold clines.
  pose proof (split_lf_spec (of_string c)) as [_ [Hs Hr]]. destruct (split_lf (of_string c)) as [s r]. cbn [fst snd] in *.
  assert (Hseg : forall x, nolf x = true -> forallb pline_ok (map (PComment ind) (seg_line x)) = true).
  { intros x Hx. destruct x as [|y x]; [reflexivity|]. cbn [seg_line map forallb pline_ok]. rewrite Hi. cbn [app head_is andb].
    replace (35 =? 35) with true by reflexivity. cbn [nolf forallb andb] in *. rewrite Hx. reflexivity. }
  rewrite map_app, forallb_app, (Hseg s Hs). cbn [andb].
  induction r as [|x r IH]; [reflexivity|]. cbn [forallb] in Hr. apply andb_true_iff in Hr as [Hx Hr].
  cbn [clines_rest map forallb]. rewrite map_app, forallb_app, (Hseg x Hx), (IH Hr). cbn [pline_ok]. rewrite Hi. reflexivity.
Qed.

Lemma blanks_ok n : forallb pline_ok (blanks n) = true.
Proof. induction n; [reflexivity|exact IHn]. Qed.

Lemma wf_style_ind st : wf_style st = true -> ws_only (st_indent st) = true /\ st_indent st <> [].
Proof. unfold wf_style, ws_only. destruct (st_indent st); [discriminate|]. intro H. split; [exact H|discriminate]. Qed.

Lemma member_tlines_ok st f : wf_style st = true -> wf_field T f = true -> forallb pline_ok (member_tlines T st f) = true.
Proof.
  intros Hst Hf. destruct (wf_style_ind st Hst) as [Hi _]. unfold member_tlines.
  rewrite !forallb_app, comment_tlines_ok, blanks_ok by exact Hi. cbn [forallb]. rewrite (stmt_ok_field st _ f Hi Hf).
  rewrite stmt_ok_attrs; [reflexivity|exact Hi|].
  destruct f as [n ty v d attrs c|t c]; cbn [field_attrs wf_field] in *; [|reflexivity].
  apply andb_true_iff in Hf as [_ Hf]. destruct d; repeat (apply andb_true_iff in Hf as [Hf ?]); try assumption;
    destruct attrs; try discriminate; reflexivity.
Qed.

Lemma value_tlines_ok st v : wf_style st = true -> wf_value T v = true -> forallb pline_ok (value_tlines T st v) = true.
Proof.
  intros Hst Hv. destruct (wf_style_ind st Hst) as [Hi _]. unfold value_tlines.
  rewrite !forallb_app, comment_tlines_ok, blanks_ok by exact Hi. cbn [forallb]. rewrite (stmt_ok_value st _ v Hi Hv). reflexivity.
Qed.

Lemma flat_map_ok {A} (f : A -> list pline) (P : A -> bool) l :
  (forall x, P x = true -> forallb pline_ok (f x) = true) -> forallb P l = true -> forallb pline_ok (flat_map f l) = true.
Proof.
  intros Hf. induction l as [|x l IH]; intro H; [reflexivity|]. cbn [forallb] in H. apply andb_true_iff in H as [Hx Hl].
  cbn [flat_map]. rewrite forallb_app, (Hf x Hx), (IH Hl). reflexivity.
Qed.

Lemma decl_tlines_ok st d : wf_style st = true -> wf_decl T d = true -> forallb pline_ok (decl_tlines T st d) = true.
Proof.
  intros Hst. destruct d as [n l c|n b vals attrs c|s]; cbn [wf_decl decl_tlines]; intro H.
  - apply andb_true_iff in H as [H Hl]. apply andb_true_iff in H as [Hn Hc].
    rewrite forallb_app, comment_tlines_ok by reflexivity. cbn [forallb]. rewrite stmt_ok_alias by assumption. reflexivity.
  - apply andb_true_iff in H as [H Hc]. apply andb_true_iff in H as [H Ha]. apply andb_true_iff in H as [H Hv]. apply andb_true_iff in H as [Hn Hb].
    rewrite !forallb_app, comment_tlines_ok, stmt_ok_attrs by (try reflexivity; assumption). cbn [forallb].
    rewrite stmt_ok_enum_header by assumption. rewrite (flat_map_ok (value_tlines T st) (wf_value T)); [reflexivity| |exact Hv].
    intros x Hx. apply value_tlines_ok; assumption.
  - apply andb_true_iff in H as [H _]. apply andb_true_iff in H as [H Hf]. apply andb_true_iff in H as [H Ha]. apply andb_true_iff in H as [Hn Hc].
    rewrite !forallb_app, comment_tlines_ok, stmt_ok_attrs by (try reflexivity; assumption). cbn [forallb].
    rewrite stmt_ok_struct_header by assumption. rewrite (flat_map_ok (member_tlines T st) (wf_field T)); [reflexivity| |].
    + intros x Hx. apply member_tlines_ok; assumption.
    + destruct (s_fields s); [discriminate|exact Hf].
Qed.

Lemma tlines_ok st ds : wf_style st = true -> forallb (wf_item T) ds = true -> forallb pline_ok (tlines T st ds) = true.
Proof.
  intros Hst. apply flat_map_ok. intros i Hi. unfold item_tlines. rewrite forallb_app, blanks_ok, andb_true_r.
  destruct i as [d|p|c]; cbn [wf_item] in Hi.
  - apply decl_tlines_ok; assumption.
  - cbn [forallb]. rewrite (stmt_ok_import p Hi). reflexivity.
  - rewrite forallb_app, comment_tlines_ok by reflexivity. reflexivity.
Qed.

(* --- logical lines of printed blocks *)
Section Blocks.
Variable cr : list Z.

Lemma tgroup_blanks n r : tgroup cr (blanks n ++ r) = tgroup cr r.
Proof. induction n; [reflexivity|exact IHn]. Qed.
Lemma tpeek_blanks n r : tpeek (blanks n ++ r) = tpeek r.
Proof. induction n; [reflexivity|exact IHn]. Qed.

Definition cblock (ind : list Z) (texts : list (list Z)) : list (list Z) := map (fun t => (ind ++ t) ++ cr) texts.

Lemma tgroup_comments ind texts r : texts <> [] -> tnext_comment r = false ->
  tgroup cr (map (PComment ind) texts ++ r) = {| m_body := MComment (cblock ind texts); m_next := Some (tpeek r) |} :: tgroup cr r.
Proof.
  intros Hne Hr. induction texts as [|t texts IH]; [contradiction|]. destruct texts as [|t' texts].
  - cbn [map app tgroup cblock]. rewrite Hr. reflexivity.
  - change (map (PComment ind) (t :: t' :: texts) ++ r) with (PComment ind t :: (map (PComment ind) (t' :: texts) ++ r)).
    cbn [tgroup]. change (tnext_comment (map (PComment ind) (t' :: texts) ++ r)) with true. cbn iota.
    rewrite IH by discriminate. reflexivity.
Qed.

Lemma tgroup_comment_opt ind c r : tnext_comment r = false -> (c <> None -> clines c <> []) ->
  tgroup cr (comment_tlines ind c ++ r) =
  match c with
  | Some _ => {| m_body := MComment (cblock ind (clines c)); m_next := Some (tpeek r) |} :: tgroup cr r
  | None => tgroup cr r
  end.
Proof.
  intros Hr Hne. unfold comment_tlines. destruct c as [c|]; [|reflexivity].
  apply tgroup_comments; [apply Hne; discriminate|exact Hr].
Qed.

Lemma tpeek_comment ind c r : clines c <> [] -> tpeek (comment_tlines ind c ++ r) = ws_width T ind.
Proof. unfold comment_tlines. destruct (clines c); [contradiction|reflexivity]. Qed.

Lemma tgroup_stmts ind (texts : list (list Z)) r :
  tgroup cr (map (PStmt ind) texts ++ r) =
  (fix go (l : list (list Z)) : list mline :=
     match l with
     | [] => tgroup cr r
     | t :: l' => {| m_body := MStmt t; m_next := Some (tpeek (map (PStmt ind) l' ++ r)) |} :: go l'
     end) texts.
Proof. induction texts as [|t texts IH]; [reflexivity|]. cbn [map app tgroup]. rewrite IH. reflexivity. Qed.
End Blocks.

(* --- steps of the automaton *)
Lemma machine_step st stack ac i L rest st1 w st2 stack2 :
  deliver T st ac (m_body L) = SOk st1 -> m_next L = Some w -> on_indent st1 stack w = SOk (st2, stack2) ->
  machine T st stack ac i (L :: rest) = machine T st2 stack2 (is_comment (m_body L)) (S i) rest.
Proof. intros H1 H2 H3. cbn [machine]. rewrite H1, H2, H3. reflexivity. Qed.

Lemma on_indent_same st w rest : close_enum st = st -> on_indent st (w :: rest) w = SOk (st, w :: rest).
Proof. intro H. cbn [on_indent]. rewrite Z.ltb_irrefl, H. cbn [dedents]. rewrite Z.ltb_irrefl, Z.eqb_refl. reflexivity. Qed.

Lemma on_indent_open st st' w : 0 < w -> ev_indent st = SOk st' -> on_indent st [0] w = SOk (st', [w; 0]).
Proof. intros Hw H. cbn [on_indent]. replace (0 <? w) with true by lia. rewrite H. reflexivity. Qed.

Lemma on_indent_close st st' w : 0 < w -> close_enum st = st -> ev_dedent st = SOk st' -> on_indent st [w; 0] 0 = SOk (st', [0]).
Proof.
  intros Hw Hc H. cbn [on_indent]. replace (w <? 0) with false by lia. rewrite Hc. cbn [dedents].
  replace (0 <? w) with true by lia. rewrite H. cbn [sbind dedents]. reflexivity.
Qed.

Lemma ws_width_pos l : ws_only l = true -> l <> [] -> 0 < ws_width T l.
Proof.
  pose proof (ok_tab T Hok) as Ht. intros H Hne. destruct l as [|c l]; [contradiction|].
  assert (Hge : forall l', ws_only l' = true -> 0 <= ws_width T l').
  { induction l' as [|x l' IH]; [cbn; lia|]. intro Hx. cbn [ws_only forallb] in Hx. apply andb_true_iff in Hx as [Hx Hl'].
    specialize (IH Hl'). cbn [ws_width fold_right]. fold (ws_width T l'). destruct (x =? 32); [lia|]. destruct (x =? 9); lia. }
  cbn [ws_only forallb] in H. apply andb_true_iff in H as [Hc Hl]. specialize (Hge l Hl).
  cbn [ws_width fold_right]. fold (ws_width T l). unfold is_ws in Hc. destruct (c =? 32) eqn:E1; [lia|]. destruct (c =? 9) eqn:E2; [lia|discriminate].
Qed.

(* --- runs of the automaton over blocks of logical lines *)
Definition reaches (s1 : pstate * list Z) (ls : list mline) (s2 : pstate * list Z) : Prop :=
  forall rest ac i, exists ac', machine T (fst s1) (snd s1) ac i (ls ++ rest) = machine T (fst s2) (snd s2) ac' (i + length ls) rest.

Lemma reaches_nil s : reaches s [] s.
Proof. intros rest ac i. exists ac. cbn [length]. rewrite Nat.add_0_r. reflexivity. Qed.
Lemma reaches_trans s1 s2 s3 l1 l2 : reaches s1 l1 s2 -> reaches s2 l2 s3 -> reaches s1 (l1 ++ l2) s3.
Proof.
  intros H1 H2 rest ac i. destruct (H1 (l2 ++ rest) ac i) as [ac1 E1]. destruct (H2 rest ac1 (i + length l1)%nat) as [ac2 E2].
  exists ac2. rewrite <- app_assoc, E1, E2, app_length, Nat.add_assoc. reflexivity.
Qed.
Lemma reaches_step st stack b w st1 st2 stack2 :
  (forall ac, deliver T st ac b = SOk st1) -> on_indent st1 stack w = SOk (st2, stack2) ->
  reaches (st, stack) [{| m_body := b; m_next := Some w |}] (st2, stack2).
Proof.
  intros H1 H2 rest ac i. exists (is_comment b). cbn [app fst snd length]. rewrite Nat.add_1_r.
  apply (machine_step st stack ac i {| m_body := b; m_next := Some w |} rest st1 w st2 stack2 (H1 ac) eq_refl H2).
Qed.

Definition ml (b : mbody) (n : Z) : mline := {| m_body := b; m_next := Some n |}.

Section Runs.
Hypothesis Hmerged : comment_merged T = false.
Variable st : style.
Hypothesis Hst : wf_style st = true.
Variable cr : list Z.
Hypothesis Hcr : cr_ok cr.
Let w : Z := ws_width T (st_indent st).

Lemma w_pos : 0 < w.
Proof. destruct (wf_style_ind st Hst) as [H1 H2]. apply ws_width_pos; assumption. Qed.

Lemma cblock_eq ind texts : cblock cr ind texts = map (fun l => ind ++ l ++ cr) texts.
Proof. unfold cblock. apply map_ext. intro t. rewrite app_assoc. reflexivity. Qed.

Lemma deliver_comment stt ac ind c : ws_only ind = true -> wf_comment_text T c = true ->
  deliver T stt ac (MComment (cblock cr ind (clines (Some c)))) = on_comment stt c.
Proof.
  intros Hi Hc. cbn [deliver]. rewrite cblock_eq. destruct (comment_ok ind cr Hi Hcr c Hc) as [E _]. rewrite E. reflexivity.
Qed.

Lemma reach_comment_top acc pc c : wf_comment_text T c = true ->
  reaches (STop acc pc PaNone, [0]) [ml (MComment (cblock cr [] (clines (Some c)))) 0] (STop (acc ++ opt_comment pc) (Some c) PaNone, [0]).
Proof.
  intro Hc. eapply reaches_step.
  - intro ac. rewrite deliver_comment by (try reflexivity; exact Hc). reflexivity.
  - apply on_indent_same. reflexivity.
Qed.

Lemma reach_attr_top acc pc pa ctx a : ctx_ok (pa_ctx pa) ctx = true -> wf_attr T ctx a = true ->
  reaches (STop acc pc pa, [0]) [ml (MStmt (r_attr T st ctx a)) 0] (STop acc pc (pa_add pa ctx a), [0]).
Proof.
  intros Hctx Hwf. eapply reaches_step.
  - intro ac. cbn [deliver on_stmt]. rewrite (top_attr_ok T Hok Hmerged st (pa_ctx pa) ac ctx a Hctx Hwf). reflexivity.
  - apply on_indent_same. reflexivity.
Qed.

Lemma reach_import acc pc p : wf_path p = true ->
  reaches (STop acc pc PaNone, [0]) [ml (MStmt (r_import T p)) 0] (STop (acc ++ opt_comment pc ++ [IImport p]) None PaNone, [0]).
Proof.
  intro Hp. eapply reaches_step.
  - intro ac. cbn [deliver on_stmt pa_ctx]. unfold r_import. rewrite (top_import_ok T Hok Hmerged ac p Hp). reflexivity.
  - apply on_indent_same. reflexivity.
Qed.

Lemma reach_alias acc pc n l : wf_type T n = true -> match l with LInt i => wf_intty T i | LBuffer k => wf_num k end = true ->
  reaches (STop acc pc PaNone, [0]) [ml (MStmt (r_alias T st n l)) 0] (STop (acc ++ [IDecl (DAlias n l pc)]) None PaNone, [0]).
Proof.
  intros Hn Hl. eapply reaches_step.
  - intro ac. cbn [deliver on_stmt pa_ctx]. unfold r_alias. rewrite (top_alias_ok T Hok Hmerged st ac n l Hn Hl). reflexivity.
  - apply on_indent_same. reflexivity.
Qed.

(* attribute lines before an enum / struct header *)
Definition pa_of (ctx : actx) (l : list attribute) : pattrs :=
  match l with [] => PaNone | _ => match ctx with CEnum => PaEnum l | _ => PaStruct l end end.

Lemma pa_add_of ctx done a : ctx <> CField -> pa_add (pa_of ctx done) ctx a = pa_of ctx (done ++ [a]).
Proof. intro H. destruct done as [|x done]; destruct ctx; try contradiction; reflexivity. Qed.
Lemma pa_ctx_of ctx done : ctx <> CField -> ctx_ok (pa_ctx (pa_of ctx done)) ctx = true.
Proof. intro H. destruct done; destruct ctx; try contradiction; reflexivity. Qed.

Lemma reach_attrs acc pc ctx l : ctx <> CField -> forallb (wf_attr T ctx) l = true -> forall done,
  reaches (STop acc pc (pa_of ctx done), [0]) (map (fun a => ml (MStmt (r_attr T st ctx a)) 0) l) (STop acc pc (pa_of ctx (done ++ l)), [0]).
Proof.
  intros Hctx. induction l as [|a l IH]; intros Hwf done.
  - rewrite app_nil_r. apply reaches_nil.
  - cbn [forallb] in Hwf. apply andb_true_iff in Hwf as [Ha Hl]. cbn [map].
    change (ml (MStmt (r_attr T st ctx a)) 0 :: map (fun a0 => ml (MStmt (r_attr T st ctx a0)) 0) l)
      with ([ml (MStmt (r_attr T st ctx a)) 0] ++ map (fun a0 => ml (MStmt (r_attr T st ctx a0)) 0) l).
    eapply reaches_trans.
    + apply reach_attr_top; [apply pa_ctx_of; exact Hctx|exact Ha].
    + rewrite pa_add_of by exact Hctx. replace (done ++ a :: l) with ((done ++ [a]) ++ l) by (rewrite <- app_assoc; reflexivity).
      apply IH. exact Hl.
Qed.

Definition attrs_list (attrs : option (list attribute)) : list attribute := match attrs with Some l => l | None => [] end.
Lemma pa_list_of ctx attrs : ctx <> CField -> wf_attrs T ctx attrs = true -> pa_list (pa_of ctx (attrs_list attrs)) = attrs.
Proof. intros Hc H. destruct attrs as [[|a l]|]; try discriminate; destruct ctx; try contradiction; reflexivity. Qed.
Lemma wf_attrs_list ctx attrs : wf_attrs T ctx attrs = true -> forallb (wf_attr T ctx) (attrs_list attrs) = true.
Proof. destruct attrs as [[|a l]|]; try discriminate; auto. Qed.

Lemma pa_enum_ok_of l : pa_enum_ok (pa_ctx (pa_of CEnum l)) = true. Proof. destruct l; reflexivity. Qed.
Lemma pa_struct_ok_of l : pa_struct_ok (pa_ctx (pa_of CStruct l)) = true. Proof. destruct l; reflexivity. Qed.

Lemma deliver_enum_header acc pc l ac n b : wf_type T n = true -> wf_intty T b = true ->
  deliver T (STop acc pc (pa_of CEnum l)) ac (MStmt (r_enum_header T n b))
  = SOk (SOpenE acc {| eh_name := n; eh_base := b; eh_attrs := pa_list (pa_of CEnum l); eh_comment := pc |}).
Proof.
  intros Hn Hb. cbn [deliver on_stmt]. unfold r_enum_header.
  rewrite (top_enum_ok T Hok Hmerged ac _ n b (pa_enum_ok_of l) Hn Hb). reflexivity.
Qed.

Lemma reach_enum_empty acc pc l n b : wf_type T n = true -> wf_intty T b = true ->
  reaches (STop acc pc (pa_of CEnum l), [0]) [ml (MStmt (r_enum_header T n b)) 0]
          (STop (acc ++ [IDecl (DEnum n b [] (pa_list (pa_of CEnum l)) pc)]) None PaNone, [0]).
Proof.
  intros Hn Hb. eapply reaches_step; [intro ac; apply deliver_enum_header; assumption|]. reflexivity.
Qed.

Lemma reach_enum_open acc pc l n b : wf_type T n = true -> wf_intty T b = true ->
  reaches (STop acc pc (pa_of CEnum l), [0]) [ml (MStmt (r_enum_header T n b)) w]
          (SBodyE acc {| eh_name := n; eh_base := b; eh_attrs := pa_list (pa_of CEnum l); eh_comment := pc |} [] None, [w; 0]).
Proof.
  intros Hn Hb. eapply reaches_step; [intro ac; apply deliver_enum_header; assumption|].
  apply on_indent_open; [apply w_pos|reflexivity].
Qed.

Lemma reach_struct_open acc pc l d n : wf_type T n = true ->
  reaches (STop acc pc (pa_of CStruct l), [0]) [ml (MStmt (r_struct_header T d n)) w]
          (SBodyS acc {| h_name := n; h_disp := d; h_attrs := pa_list (pa_of CStruct l); h_comment := pc |} [] None None, [w; 0]).
Proof.
  intros Hn. eapply reaches_step.
  - intro ac. cbn [deliver on_stmt]. unfold r_struct_header.
    rewrite (top_struct_ok T Hok Hmerged ac _ d n (pa_struct_ok_of l) Hn). reflexivity.
  - apply on_indent_open; [apply w_pos|reflexivity].
Qed.

(* inside bodies *)
Lemma ind_ws : ws_only (st_indent st) = true. Proof. apply (wf_style_ind st Hst). Qed.

Lemma reach_comment_enum acc h vals pc0 c : wf_comment_text T c = true ->
  reaches (SBodyE acc h vals pc0, [w; 0]) [ml (MComment (cblock cr (st_indent st) (clines (Some c)))) w] (SBodyE acc h vals (Some c), [w; 0]).
Proof.
  intro Hc. eapply reaches_step.
  - intro ac. rewrite deliver_comment by (try apply ind_ws; exact Hc). reflexivity.
  - apply on_indent_same. reflexivity.
Qed.
Lemma reach_comment_struct acc h fields pc0 c : wf_comment_text T c = true ->
  reaches (SBodyS acc h fields pc0 None, [w; 0]) [ml (MComment (cblock cr (st_indent st) (clines (Some c)))) w] (SBodyS acc h fields (Some c) None, [w; 0]).
Proof.
  intro Hc. eapply reaches_step.
  - intro ac. rewrite deliver_comment by (try apply ind_ws; exact Hc). reflexivity.
  - apply on_indent_same. reflexivity.
Qed.

Lemma deliver_value acc h vals pc ac v : wf_value T v = true ->
  deliver T (SBodyE acc h vals pc) ac (MStmt (r_value T st v))
  = SOk (SBodyE acc h (vals ++ [{| ev_name := ev_name v; ev_value := ev_value v; ev_comment := pc |}]) None).
Proof.
  intro H. unfold wf_value in H. apply andb_true_iff in H as [H _]. apply andb_true_iff in H as [Hn Hv]. apply Z.leb_le in Hv.
  cbn [deliver on_stmt]. unfold r_value. rewrite (enum_line_ok T Hok st _ _ Hn Hv). reflexivity.
Qed.

Lemma reach_value_more acc h vals pc v : wf_value T v = true ->
  reaches (SBodyE acc h vals pc, [w; 0]) [ml (MStmt (r_value T st v)) w]
          (SBodyE acc h (vals ++ [{| ev_name := ev_name v; ev_value := ev_value v; ev_comment := pc |}]) None, [w; 0]).
Proof. intro H. eapply reaches_step; [intro ac; apply deliver_value; exact H|]. apply on_indent_same. reflexivity. Qed.
Lemma reach_value_last acc h vals pc v : wf_value T v = true ->
  reaches (SBodyE acc h vals pc, [w; 0]) [ml (MStmt (r_value T st v)) 0]
          (STop (acc ++ [IDecl (mk_enum h (vals ++ [{| ev_name := ev_name v; ev_value := ev_value v; ev_comment := pc |}]))]) None PaNone, [0]).
Proof. intro H. eapply reaches_step; [intro ac; apply deliver_value; exact H|]. apply on_indent_close; [apply w_pos|reflexivity|reflexivity]. Qed.

Lemma reach_fattr acc h fields pc pa a : wf_attr T CField a = true ->
  reaches (SBodyS acc h fields pc pa, [w; 0]) [ml (MStmt (r_attr T st CField a)) w]
          (SBodyS acc h fields pc (Some (match pa with Some l => l ++ [a] | None => [a] end)), [w; 0]).
Proof.
  intro Hwf. eapply reaches_step.
  - intro ac. cbn [deliver on_stmt]. rewrite (member_attr_ok T Hok Hmerged st _ ac a Hwf). reflexivity.
  - apply on_indent_same. reflexivity.
Qed.

Definition opt_of (l : list attribute) : option (list attribute) := match l with [] => None | _ => Some l end.
Lemma reach_fattrs acc h fields pc l : forallb (wf_attr T CField) l = true -> forall done,
  reaches (SBodyS acc h fields pc (opt_of done), [w; 0]) (map (fun a => ml (MStmt (r_attr T st CField a)) w) l)
          (SBodyS acc h fields pc (opt_of (done ++ l)), [w; 0]).
Proof.
  induction l as [|a l IH]; intros Hwf done.
  - rewrite app_nil_r. apply reaches_nil.
  - cbn [forallb] in Hwf. apply andb_true_iff in Hwf as [Ha Hl]. cbn [map].
    change (ml (MStmt (r_attr T st CField a)) w :: map (fun a0 => ml (MStmt (r_attr T st CField a0)) w) l)
      with ([ml (MStmt (r_attr T st CField a)) w] ++ map (fun a0 => ml (MStmt (r_attr T st CField a0)) w) l).
    eapply reaches_trans; [apply reach_fattr; exact Ha|].
    replace (Some match opt_of done with Some l0 => l0 ++ [a] | None => [a] end) with (opt_of (done ++ [a])).
    + replace (done ++ a :: l) with ((done ++ [a]) ++ l) by (rewrite <- app_assoc; reflexivity). apply IH. exact Hl.
    + destruct done; reflexivity.
Qed.

Definition with_meta (f : field) (attrs : option (list attribute)) (c : option string) : field :=
  match f with Field n ty v d _ _ => Field n ty v d attrs c | InlinePlaceholder t _ => InlinePlaceholder t c end.

Lemma deliver_field acc h fields pc pa ac f : wf_field T f = true ->
  (match pa with Some _ => true | None => false end) = has_attrs f ->
  deliver T (SBodyS acc h fields pc pa) ac (MStmt (r_field T st f)) = SOk (SBodyS acc h (fields ++ [with_meta f pa pc]) None None).
Proof.
  intros Hf Hpa. cbn [deliver on_stmt]. rewrite Hpa, (field_line_ok T Hok Hmerged st ac f Hf). destruct f; reflexivity.
Qed.

Lemma reach_field_more acc h fields pc pa f : wf_field T f = true -> (match pa with Some _ => true | None => false end) = has_attrs f ->
  reaches (SBodyS acc h fields pc pa, [w; 0]) [ml (MStmt (r_field T st f)) w] (SBodyS acc h (fields ++ [with_meta f pa pc]) None None, [w; 0]).
Proof. intros Hf Hpa. eapply reaches_step; [intro ac; apply deliver_field; assumption|]. apply on_indent_same. reflexivity. Qed.
Lemma reach_field_last acc h fields pc pa f : wf_field T f = true -> (match pa with Some _ => true | None => false end) = has_attrs f ->
  reaches (SBodyS acc h fields pc pa, [w; 0]) [ml (MStmt (r_field T st f)) 0]
          (STop (acc ++ [IDecl (mk_struct h (fields ++ [with_meta f pa pc]))]) None PaNone, [0]).
Proof.
  intros Hf Hpa. eapply reaches_step; [intro ac; apply deliver_field; assumption|].
  apply on_indent_close; [apply w_pos|reflexivity|reflexivity].
Qed.

(* --- blocks: members *)
Lemma tgroup_stmts_w ind texts rest : tpeek rest = ws_width T ind ->
  tgroup cr (map (PStmt ind) texts ++ rest) = map (fun t => ml (MStmt t) (ws_width T ind)) texts ++ tgroup cr rest.
Proof.
  intro Hr. induction texts as [|t texts IH]; [reflexivity|]. cbn [map app tgroup]. rewrite IH. unfold ml at 2. f_equal. f_equal. f_equal.
  destruct texts; [exact Hr|reflexivity].
Qed.

Lemma r_attrs_list ctx attrs : r_attrs T st ctx attrs = map (r_attr T st ctx) (attrs_list attrs).
Proof. destruct attrs; reflexivity. Qed.

Lemma wf_comment_clines c : wf_comment T c = true -> c <> None -> clines c <> [].
Proof. destruct c as [c|]; [|contradiction]. intros H _. exact (proj2 (comment_ok [] [] eq_refl (or_introl eq_refl) c H)). Qed.

Definition comment_ls (ind : list Z) (c : option string) (n : Z) : list mline :=
  match c with Some _ => [ml (MComment (cblock cr ind (clines c))) n] | None => [] end.

Definition member_ls (f : field) (x : Z) : list mline :=
  comment_ls (st_indent st) (field_comment f) w ++ map (fun a => ml (MStmt (r_attr T st CField a)) w) (attrs_list (field_attrs f))
  ++ [ml (MStmt (r_field T st f)) x].

Lemma wf_field_meta f : wf_field T f = true -> wf_comment T (field_comment f) = true /\ wf_attrs T CField (field_attrs f) = true.
Proof.
  destruct f as [n ty v d attrs c|t c]; cbn [wf_field field_comment field_attrs]; intro H.
  - apply andb_true_iff in H as [Hc H]. split; [exact Hc|]. destruct d; repeat (apply andb_true_iff in H as [H ?]); try assumption;
      destruct attrs; try discriminate; reflexivity.
  - apply andb_true_iff in H as [_ Hc]. split; [exact Hc|reflexivity].
Qed.

Lemma tgroup_member f r : wf_field T f = true -> tgroup cr (member_tlines T st f ++ r) = member_ls f (tpeek r) ++ tgroup cr r.
Proof.
  intro Hf. destruct (wf_field_meta f Hf) as [Hc Ha]. unfold member_tlines, member_ls. rewrite <- !app_assoc.
  rewrite tgroup_comment_opt.
  2:{ rewrite r_attrs_list. destruct (attrs_list (field_attrs f)); reflexivity. }
  2:{ apply wf_comment_clines. exact Hc. }
  assert (Hpeek : tpeek (map (PStmt (st_indent st)) (r_attrs T st CField (field_attrs f)) ++ [PStmt (st_indent st) (r_field T st f)] ++ blanks (st_blank_member st) ++ r) = w).
  { destruct (r_attrs T st CField (field_attrs f)); reflexivity. }
  assert (Hrest : tgroup cr (map (PStmt (st_indent st)) (r_attrs T st CField (field_attrs f)) ++ [PStmt (st_indent st) (r_field T st f)] ++ blanks (st_blank_member st) ++ r)
                  = map (fun a => ml (MStmt (r_attr T st CField a)) w) (attrs_list (field_attrs f)) ++ [ml (MStmt (r_field T st f)) (tpeek r)] ++ tgroup cr r).
  { rewrite tgroup_stmts_w by reflexivity. rewrite r_attrs_list, map_map. f_equal. cbn [app tgroup]. rewrite tpeek_blanks, tgroup_blanks. reflexivity. }
  rewrite Hpeek, Hrest. unfold comment_ls. destruct (field_comment f); reflexivity.
Qed.

Lemma with_meta_id f : wf_field T f = true -> with_meta f (opt_of (attrs_list (field_attrs f))) (field_comment f) = f.
Proof.
  intro Hf. destruct (wf_field_meta f Hf) as [_ Ha]. destruct f as [n ty v d attrs c|t c]; cbn [with_meta field_attrs field_comment attrs_list]; [|reflexivity].
  cbn [field_attrs] in Ha. destruct attrs as [[|a l]|]; try discriminate; reflexivity.
Qed.
Lemma has_attrs_opt f : wf_field T f = true -> (match opt_of (attrs_list (field_attrs f)) with Some _ => true | None => false end) = has_attrs f.
Proof.
  intro Hf. destruct (wf_field_meta f Hf) as [_ Ha]. unfold has_attrs. destruct (field_attrs f) as [[|a l]|]; try discriminate; reflexivity.
Qed.

Lemma reach_comment_ls_struct acc h fields c : wf_comment T c = true ->
  reaches (SBodyS acc h fields None None, [w; 0]) (comment_ls (st_indent st) c w) (SBodyS acc h fields c None, [w; 0]).
Proof. destruct c as [c|]; intro H; [apply reach_comment_struct; exact H|apply reaches_nil]. Qed.

Lemma reach_member acc h fields f x s2 :
  wf_field T f = true ->
  (x = w /\ s2 = (SBodyS acc h (fields ++ [f]) None None, [w; 0]) \/
   x = 0 /\ s2 = (STop (acc ++ [IDecl (mk_struct h (fields ++ [f]))]) None PaNone, [0])) ->
  reaches (SBodyS acc h fields None None, [w; 0]) (member_ls f x) s2.
Proof.
  intros Hf Hx. destruct (wf_field_meta f Hf) as [Hc Ha]. unfold member_ls.
  eapply reaches_trans; [apply reach_comment_ls_struct; exact Hc|].
  eapply reaches_trans; [apply (reach_fattrs acc h fields (field_comment f) _ (wf_attrs_list CField _ Ha) [])|].
  cbn [app]. pose proof (with_meta_id f Hf) as Hid. pose proof (has_attrs_opt f Hf) as Hh.
  replace (fields ++ [f]) with (fields ++ [with_meta f (opt_of (attrs_list (field_attrs f))) (field_comment f)]) in Hx by (rewrite Hid; reflexivity).
  destruct Hx as [[-> ->]|[-> ->]].
  - apply reach_field_more; assumption.
  - apply reach_field_last; assumption.
Qed.

Lemma tpeek_member f r : tpeek (member_tlines T st f ++ r) = w.
Proof.
  unfold member_tlines. rewrite <- !app_assoc. unfold comment_tlines. destruct (clines (field_comment f)); [|reflexivity].
  cbn [map app]. destruct (r_attrs T st CField (field_attrs f)); reflexivity.
Qed.

Lemma members_run acc h fs : fs <> [] -> forallb (wf_field T) fs = true -> forall fields r, tpeek r = 0 ->
  exists LS, tgroup cr (flat_map (member_tlines T st) fs ++ r) = LS ++ tgroup cr r
    /\ reaches (SBodyS acc h fields None None, [w; 0]) LS (STop (acc ++ [IDecl (mk_struct h (fields ++ fs))]) None PaNone, [0]).
Proof.
  induction fs as [|f fs IH]; intros Hne Hwf fields r Hr; [contradiction|].
  cbn [forallb] in Hwf. apply andb_true_iff in Hwf as [Hf Hfs]. cbn [flat_map]. rewrite <- app_assoc.
  rewrite (tgroup_member f _ Hf). destruct fs as [|f' fs].
  - cbn [flat_map app]. rewrite Hr. exists (member_ls f 0). split; [reflexivity|]. apply reach_member; [exact Hf|right; split; reflexivity].
  - destruct (IH ltac:(discriminate) Hfs (fields ++ [f]) r Hr) as [LS [E HR]].
    change (flat_map (member_tlines T st) (f' :: fs)) with (member_tlines T st f' ++ flat_map (member_tlines T st) fs) at 1.
    rewrite <- app_assoc, tpeek_member. rewrite E. exists (member_ls f w ++ LS). split; [rewrite <- app_assoc; reflexivity|].
    eapply reaches_trans; [apply reach_member; [exact Hf|left; split; reflexivity]|].
    replace (fields ++ f :: f' :: fs) with ((fields ++ [f]) ++ f' :: fs) by (rewrite <- app_assoc; reflexivity). exact HR.
Qed.

(* --- blocks: enum values *)
Definition value_ls (v : enum_value) (x : Z) : list mline :=
  comment_ls (st_indent st) (ev_comment v) w ++ [ml (MStmt (r_value T st v)) x].

Lemma wf_value_comment v : wf_value T v = true -> wf_comment T (ev_comment v) = true.
Proof. unfold wf_value. intro H. apply andb_true_iff in H as [_ H]. exact H. Qed.

Lemma tgroup_value v r : wf_value T v = true -> tgroup cr (value_tlines T st v ++ r) = value_ls v (tpeek r) ++ tgroup cr r.
Proof.
  intro Hv. unfold value_tlines, value_ls. rewrite <- !app_assoc. rewrite tgroup_comment_opt; [|reflexivity|apply wf_comment_clines, wf_value_comment, Hv].
  cbn [app tgroup tpeek]. rewrite tpeek_blanks, tgroup_blanks. unfold comment_ls. destruct (ev_comment v); reflexivity.
Qed.
Lemma tpeek_value v r : tpeek (value_tlines T st v ++ r) = w.
Proof. unfold value_tlines. rewrite <- !app_assoc. unfold comment_tlines. destruct (clines (ev_comment v)); reflexivity. Qed.

Lemma reach_comment_ls_enum acc h vals c : wf_comment T c = true ->
  reaches (SBodyE acc h vals None, [w; 0]) (comment_ls (st_indent st) c w) (SBodyE acc h vals c, [w; 0]).
Proof. destruct c as [c|]; intro H; [apply reach_comment_enum; exact H|apply reaches_nil]. Qed.

Lemma value_eta v : {| ev_name := ev_name v; ev_value := ev_value v; ev_comment := ev_comment v |} = v.
Proof. destruct v; reflexivity. Qed.

Lemma values_run acc h vs : vs <> [] -> forallb (wf_value T) vs = true -> forall vals r, tpeek r = 0 ->
  exists LS, tgroup cr (flat_map (value_tlines T st) vs ++ r) = LS ++ tgroup cr r
    /\ reaches (SBodyE acc h vals None, [w; 0]) LS (STop (acc ++ [IDecl (mk_enum h (vals ++ vs))]) None PaNone, [0]).
Proof.
  induction vs as [|v vs IH]; intros Hne Hwf vals r Hr; [contradiction|].
  cbn [forallb] in Hwf. apply andb_true_iff in Hwf as [Hv Hvs]. cbn [flat_map]. rewrite <- app_assoc.
  rewrite (tgroup_value v _ Hv). destruct vs as [|v' vs].
  - cbn [flat_map app]. rewrite Hr. exists (value_ls v 0). split; [reflexivity|]. unfold value_ls.
    eapply reaches_trans; [apply reach_comment_ls_enum, wf_value_comment, Hv|].
    replace (vals ++ [v]) with (vals ++ [{| ev_name := ev_name v; ev_value := ev_value v; ev_comment := ev_comment v |}]) by (rewrite value_eta; reflexivity).
    apply reach_value_last. exact Hv.
  - destruct (IH ltac:(discriminate) Hvs (vals ++ [v]) r Hr) as [LS [E HR]].
    change (flat_map (value_tlines T st) (v' :: vs)) with (value_tlines T st v' ++ flat_map (value_tlines T st) vs) at 1.
    rewrite <- app_assoc, tpeek_value. rewrite E. exists (value_ls v w ++ LS). split; [rewrite <- app_assoc; reflexivity|].
    eapply reaches_trans.
    + unfold value_ls. eapply reaches_trans; [apply reach_comment_ls_enum, wf_value_comment, Hv|]. apply reach_value_more. exact Hv.
    + rewrite value_eta. replace (vals ++ v :: v' :: vs) with ((vals ++ [v]) ++ v' :: vs) by (rewrite <- app_assoc; reflexivity). exact HR.
Qed.

(* --- top-level items *)
Lemma tgroup_stmts_top texts rest : tpeek rest = 0 ->
  tgroup cr (map (PStmt []) texts ++ rest) = map (fun t => ml (MStmt t) 0) texts ++ tgroup cr rest.
Proof. intro H. apply (tgroup_stmts_w [] texts rest). exact H. Qed.

Lemma reach_comment_ls_top acc pc c : wf_comment T c = true ->
  reaches (STop acc pc PaNone, [0]) (comment_ls [] c 0)
          (STop (acc ++ match c with Some _ => opt_comment pc | None => [] end) (match c with Some _ => c | None => pc end) PaNone, [0]).
Proof.
  destruct c as [c|]; intro H; [apply reach_comment_top; exact H|]. rewrite app_nil_r. apply reaches_nil.
Qed.

Lemma tpeek_top_stmts texts x rest : tpeek (map (PStmt []) texts ++ PStmt [] x :: rest) = 0.
Proof. destruct texts; reflexivity. Qed.

Definition decl_result (acc : list item) (pc : option string) (d : decl) : list item :=
  acc ++ match decl_comment d with Some _ => opt_comment pc | None => [] end ++ [IDecl d].

Lemma decl_run acc pc d : wf_decl T d = true -> (decl_comment d = None -> pc = None) -> forall r, tpeek r = 0 ->
  exists LS, tgroup cr (decl_tlines T st d ++ r) = LS ++ tgroup cr r
    /\ reaches (STop acc pc PaNone, [0]) LS (STop (decl_result acc pc d) None PaNone, [0]).
Proof.
  intros Hwf Hpc r Hr. unfold decl_result. destruct d as [n l c|n b vals attrs c|s]; cbn [wf_decl decl_tlines decl_comment] in *.
  - (* alias *)
    apply andb_true_iff in Hwf as [H Hl]. apply andb_true_iff in H as [Hn Hc].
    rewrite <- app_assoc, tgroup_comment_opt; [|reflexivity|apply wf_comment_clines; exact Hc].
    exists (comment_ls [] c 0 ++ [ml (MStmt (r_alias T st n l)) 0]). split.
    + cbn [app tgroup tpeek]. rewrite Hr. unfold comment_ls. destruct c; reflexivity.
    + eapply reaches_trans; [apply reach_comment_ls_top; exact Hc|]. rewrite app_assoc.
      destruct c as [c|]; [apply reach_alias; assumption|]. rewrite (Hpc eq_refl), app_nil_r. apply reach_alias; assumption.
  - (* enum *)
    apply andb_true_iff in Hwf as [H Hc]. apply andb_true_iff in H as [H Ha]. apply andb_true_iff in H as [H Hv]. apply andb_true_iff in H as [Hn Hb].
    rewrite <- !app_assoc, tgroup_comment_opt; [| |apply wf_comment_clines; exact Hc].
    2:{ rewrite r_attrs_list. destruct (attrs_list attrs); reflexivity. }
    rewrite tgroup_stmts_top by reflexivity. rewrite r_attrs_list, (map_map (r_attr T st CEnum) (fun t => ml (MStmt t) 0)).
    assert (Hstate : reaches (STop acc pc PaNone, [0])
              (comment_ls [] c 0 ++ map (fun a => ml (MStmt (r_attr T st CEnum a)) 0) (attrs_list attrs))
              (STop (acc ++ match c with Some _ => opt_comment pc | None => [] end) c (pa_of CEnum (attrs_list attrs)), [0])).
    { eapply reaches_trans; [apply reach_comment_ls_top; exact Hc|].
      replace (match c with Some _ => c | None => pc end) with c by (destruct c; [reflexivity|rewrite (Hpc eq_refl); reflexivity]).
      apply (reach_attrs _ c CEnum (attrs_list attrs) ltac:(discriminate) (wf_attrs_list CEnum attrs Ha) []). }
    assert (Hpeek0 : tpeek (map (PStmt []) (map (r_attr T st CEnum) (attrs_list attrs)) ++ [PStmt [] (r_enum_header T n b)] ++ flat_map (value_tlines T st) vals ++ r) = 0).
    { destruct (attrs_list attrs); reflexivity. }
    destruct vals as [|v vals].
    + cbn [flat_map app tgroup tpeek]. rewrite Hr.
      exists ((comment_ls [] c 0 ++ map (fun a => ml (MStmt (r_attr T st CEnum a)) 0) (attrs_list attrs)) ++ [ml (MStmt (r_enum_header T n b)) 0]).
      split.
      * rewrite <- !app_assoc. unfold comment_ls. destruct c; cbn [app]; rewrite ?tpeek_top_stmts; reflexivity.
      * eapply reaches_trans; [exact Hstate|]. rewrite <- (pa_list_of CEnum attrs ltac:(discriminate) Ha) at 2. rewrite app_assoc.
        apply reach_enum_empty; assumption.
    + destruct (values_run (acc ++ match c with Some _ => opt_comment pc | None => [] end)
                  {| eh_name := n; eh_base := b; eh_attrs := pa_list (pa_of CEnum (attrs_list attrs)); eh_comment := c |}
                  (v :: vals) ltac:(discriminate) Hv [] r Hr) as [LS [E HR]].
      cbn [app tgroup]. rewrite E.
      assert (Hpw : tpeek (flat_map (value_tlines T st) (v :: vals) ++ r) = w) by (cbn [flat_map]; rewrite <- app_assoc; apply tpeek_value).
      rewrite Hpw.
      exists ((comment_ls [] c 0 ++ map (fun a => ml (MStmt (r_attr T st CEnum a)) 0) (attrs_list attrs)) ++ [ml (MStmt (r_enum_header T n b)) w] ++ LS).
      split.
      * rewrite <- !app_assoc. unfold comment_ls. destruct c; cbn [app]; rewrite ?tpeek_top_stmts; reflexivity.
      * eapply reaches_trans; [exact Hstate|]. eapply reaches_trans; [apply reach_enum_open; assumption|].
        assert (Heq : mk_enum {| eh_name := n; eh_base := b; eh_attrs := pa_list (pa_of CEnum (attrs_list attrs)); eh_comment := c |} ([] ++ v :: vals)
                      = DEnum n b (v :: vals) attrs c).
        { unfold mk_enum. cbn [app eh_name eh_base eh_attrs eh_comment]. rewrite (pa_list_of CEnum attrs ltac:(discriminate) Ha). reflexivity. }
        rewrite Heq in HR. rewrite app_assoc. exact HR.
  - (* struct *)
    apply andb_true_iff in Hwf as [H Hfac]. apply andb_true_iff in H as [H Hf]. apply andb_true_iff in H as [H Ha]. apply andb_true_iff in H as [Hn Hc].
    rewrite <- !app_assoc, tgroup_comment_opt; [| |apply wf_comment_clines; exact Hc].
    2:{ rewrite r_attrs_list. destruct (attrs_list (s_attrs s)); reflexivity. }
    rewrite tgroup_stmts_top by reflexivity. rewrite r_attrs_list, (map_map (r_attr T st CStruct) (fun t => ml (MStmt t) 0)).
    assert (Hstate : reaches (STop acc pc PaNone, [0])
              (comment_ls [] (s_comment s) 0 ++ map (fun a => ml (MStmt (r_attr T st CStruct a)) 0) (attrs_list (s_attrs s)))
              (STop (acc ++ match s_comment s with Some _ => opt_comment pc | None => [] end) (s_comment s) (pa_of CStruct (attrs_list (s_attrs s))), [0])).
    { eapply reaches_trans; [apply reach_comment_ls_top; exact Hc|].
      replace (match s_comment s with Some _ => s_comment s | None => pc end) with (s_comment s)
        by (destruct (s_comment s); [reflexivity|rewrite (Hpc eq_refl); reflexivity]).
      apply (reach_attrs _ (s_comment s) CStruct (attrs_list (s_attrs s)) ltac:(discriminate) (wf_attrs_list CStruct _ Ha) []). }
    assert (Hpeek0 : tpeek (map (PStmt []) (map (r_attr T st CStruct) (attrs_list (s_attrs s))) ++ [PStmt [] (r_struct_header T (s_disp s) (s_name s))]
                            ++ flat_map (member_tlines T st) (s_fields s) ++ r) = 0).
    { destruct (attrs_list (s_attrs s)); reflexivity. }
    assert (Hfs : s_fields s <> [] /\ forallb (wf_field T) (s_fields s) = true) by (destruct (s_fields s); [discriminate|split; [discriminate|exact Hf]]).
    destruct Hfs as [Hne Hfs].
    destruct (members_run (acc ++ match s_comment s with Some _ => opt_comment pc | None => [] end)
                {| h_name := s_name s; h_disp := s_disp s; h_attrs := pa_list (pa_of CStruct (attrs_list (s_attrs s))); h_comment := s_comment s |}
                (s_fields s) Hne Hfs [] r Hr) as [LS [E HR]].
    cbn [app tgroup]. rewrite E.
    assert (Hpw : tpeek (flat_map (member_tlines T st) (s_fields s) ++ r) = w).
    { destruct (s_fields s) as [|f fs]; [contradiction|]. cbn [flat_map]. rewrite <- app_assoc. apply tpeek_member. }
    rewrite Hpw.
    exists ((comment_ls [] (s_comment s) 0 ++ map (fun a => ml (MStmt (r_attr T st CStruct a)) 0) (attrs_list (s_attrs s)))
            ++ [ml (MStmt (r_struct_header T (s_disp s) (s_name s))) w] ++ LS).
    split.
    + rewrite <- !app_assoc. unfold comment_ls. destruct (s_comment s); cbn [app]; rewrite ?tpeek_top_stmts; reflexivity.
    + eapply reaches_trans; [exact Hstate|]. eapply reaches_trans; [apply reach_struct_open; assumption|].
      assert (Heq : mk_struct {| h_name := s_name s; h_disp := s_disp s; h_attrs := pa_list (pa_of CStruct (attrs_list (s_attrs s))); h_comment := s_comment s |}
                              ([] ++ s_fields s) = DStruct s).
      { unfold mk_struct. cbn [app h_name h_disp h_attrs h_comment]. rewrite (pa_list_of CStruct _ ltac:(discriminate) Ha).
        destruct s as [sn sd sf sft sa sc su]. cbn [s_name s_disp s_fields s_factory_type s_attrs s_comment s_requires_unaligned] in *.
        destruct sft; [discriminate|]. apply negb_true_iff in Hfac. subst. reflexivity. }
      rewrite Heq in HR. rewrite app_assoc. exact HR.
Qed.

Definition item_result (acc : list item) (pc : option string) (it : item) : list item * option string :=
  match it with
  | IDecl d => (decl_result acc pc d, None)
  | IImport p => (acc ++ opt_comment pc ++ [IImport p], None)
  | IComment c => (acc ++ opt_comment pc, Some c)
  end.
Definition item_pre (pc : option string) (it : item) : Prop :=
  match it with IDecl d => decl_comment d = None -> pc = None | _ => True end.

Lemma item_run acc pc it : wf_item T it = true -> item_pre pc it -> forall r, tpeek r = 0 ->
  exists LS, tgroup cr (item_tlines T st it ++ r) = LS ++ tgroup cr r
    /\ reaches (STop acc pc PaNone, [0]) LS (STop (fst (item_result acc pc it)) (snd (item_result acc pc it)) PaNone, [0]).
Proof.
  intros Hwf Hpre r Hr. unfold item_tlines. rewrite <- app_assoc.
  assert (Hr' : tpeek (blanks (st_blank_top st) ++ r) = 0) by (rewrite tpeek_blanks; exact Hr).
  destruct it as [d|p|c]; cbn [wf_item item_pre item_result fst snd] in *.
  - destruct (decl_run acc pc d Hwf Hpre _ Hr') as [LS [E HR]]. exists LS. rewrite E, tgroup_blanks. split; [reflexivity|exact HR].
  - exists [ml (MStmt (r_import T p)) 0]. cbn [app tgroup]. rewrite Hr', tgroup_blanks. split; [reflexivity|]. apply reach_import. exact Hwf.
  - rewrite <- app_assoc. rewrite tgroup_comment_opt; [|reflexivity|intros _; apply (wf_comment_clines (Some c) Hwf); discriminate].
    exists [ml (MComment (cblock cr [] (clines (Some c)))) 0]. cbn [app tgroup tpeek]. rewrite Hr', tgroup_blanks. split; [reflexivity|].
    apply reach_comment_top. exact Hwf.
Qed.

Lemma tpeek_tlines ds r : tpeek r = 0 -> tpeek (tlines T st ds ++ r) = 0.
Proof.
  intro Hr. induction ds as [|x ds IHd]; [exact Hr|]. unfold tlines. cbn [flat_map]. fold (tlines T st ds).
  unfold item_tlines. rewrite <- !app_assoc.
  assert (Hb : tpeek (blanks (st_blank_top st) ++ tlines T st ds ++ r) = 0) by (rewrite tpeek_blanks; exact IHd).
  destruct x as [d|p|c].
  - destruct d as [n l c|n b vals attrs c|s]; cbn [decl_tlines]; rewrite <- ?app_assoc; unfold comment_tlines;
      (destruct (clines _); [|reflexivity]); cbn [map app]; try reflexivity; rewrite r_attrs_list;
      (destruct (attrs_list _); reflexivity).
  - reflexivity.
  - rewrite <- app_assoc. unfold comment_tlines. destruct (clines (Some c)); [|reflexivity]. cbn [map app tpeek]. exact Hb.
Qed.

Lemma doc_run ds : forallb (wf_item T) ds = true -> wf_adjacent ds = true -> forall acc pc,
  match ds with it :: _ => item_pre pc it | [] => True end -> forall r, tpeek r = 0 ->
  exists LS acc2 pc2, tgroup cr (tlines T st ds ++ r) = LS ++ tgroup cr r /\ reaches (STop acc pc PaNone, [0]) LS (STop acc2 pc2 PaNone, [0])
    /\ acc2 ++ opt_comment pc2 = acc ++ opt_comment pc ++ ds.
Proof.
  induction ds as [|it ds IH]; intros Hwf Hadj acc pc Hpre r Hr.
  - exists [], acc, pc. split; [reflexivity|]. split; [apply reaches_nil|]. rewrite app_nil_r. reflexivity.
  - cbn [forallb] in Hwf. apply andb_true_iff in Hwf as [Hit Hds].
    assert (Hadj' : wf_adjacent ds = true).
    { destruct it as [d|p|c]; cbn [wf_adjacent] in Hadj; try exact Hadj. destruct ds as [|[d'|p'|c'] ds']; try exact Hadj.
      apply andb_true_iff in Hadj as [_ H]. exact H. }
    assert (Hpeek : tpeek (tlines T st ds ++ r) = 0) by (apply tpeek_tlines; exact Hr).
    destruct (item_run acc pc it Hit Hpre (tlines T st ds ++ r) Hpeek) as [LS1 [E1 HR1]].
    specialize (IH Hds Hadj' (fst (item_result acc pc it)) (snd (item_result acc pc it))).
    assert (Hpre' : match ds with it' :: _ => item_pre (snd (item_result acc pc it)) it' | [] => True end).
    { destruct ds as [|it' ds']; [exact I|]. destruct it' as [d'|p'|c']; cbn [item_pre]; try exact I.
      destruct it as [d|p|c]; cbn [item_result snd]; try reflexivity.
      cbn [wf_adjacent] in Hadj. apply andb_true_iff in Hadj as [H _]. intro Hn. rewrite Hn in H. discriminate. }
    destruct (IH Hpre' r Hr) as [LS2 [acc2 [pc2 [E2 [HR2 Hres]]]]].
    exists (LS1 ++ LS2), acc2, pc2. split; [|split].
    + unfold tlines. cbn [flat_map]. fold (tlines T st ds). rewrite <- !app_assoc, E1, E2. reflexivity.
    + eapply reaches_trans; eassumption.
    + rewrite Hres. destruct it as [d|p|c]; cbn [item_result fst snd]; unfold decl_result.
      * cbn [item_pre] in Hpre. destruct (decl_comment d) eqn:Ed.
        -- cbn [opt_comment]. rewrite <- !app_assoc. reflexivity.
        -- rewrite (Hpre eq_refl). cbn [opt_comment app]. rewrite <- ?app_assoc. reflexivity.
      * cbn [opt_comment]. rewrite <- !app_assoc. reflexivity.
      * cbn [opt_comment]. rewrite <- !app_assoc. reflexivity.
Qed.
End Runs.

(* --- positions do not matter for the automaton *)
Lemma add_comment_map ln col p ls : map l_m (add_comment_pos ln col p ls) = add_comment_line p (map l_m ls).
Proof.
  destruct ls as [|L ls]; [reflexivity|]. cbn [add_comment_pos map l_m]. destruct (l_m L) as [[lines|core] n]; reflexivity.
Qed.

Lemma group_mgroup ps : forall ln tail, map l_m (group T ln ps tail) = mgroup T ps tail.
Proof.
  induction ps as [|p ps IH]; intros ln tail.
  - cbn [group mgroup]. destruct (classify_tail tail) as [ws [| |core]]; try reflexivity; cbn [mgroup]; rewrite map_map; cbn [l_m]; rewrite map_id; reflexivity.
  - cbn [group mgroup]. destruct (classify p) as [ws [| |core]].
    + apply IH.
    + destruct (peek_comment ps tail).
      * rewrite add_comment_map, IH. reflexivity.
      * cbn [map l_m]. rewrite IH. reflexivity.
    + cbn [map l_m]. rewrite IH. reflexivity.
Qed.

Lemma pline_nolf p : pline_ok p = true -> nolf (untag p) = true.
Proof.
  destruct p as [|ind t|ind c]; cbn [pline_ok untag]; intro H; [reflexivity| |].
  - apply andb_true_iff in H as [H Ht]. apply andb_true_iff in H as [Hi _]. rewrite nolf_app, Ht, andb_true_r.
    apply forallb_forall. intros x Hx. unfold ws_only in Hi. rewrite forallb_forall in Hi. specialize (Hi x Hx). unfold is_ws in Hi. lia.
  - apply andb_true_iff in H as [H Hc]. apply andb_true_iff in H as [Hi _]. rewrite nolf_app, (plainc_nolf c Hc), andb_true_r.
    apply forallb_forall. intros x Hx. unfold ws_only in Hi. rewrite forallb_forall in Hi. specialize (Hi x Hx). unfold is_ws in Hi. lia.
Qed.

Lemma first_line_not_blank st ds : wf_doc_with T ds = true ->
  exists p tl, tlines T st ds = p :: tl /\ p <> PBlank.
Proof.
  unfold wf_doc_with. destruct ds as [|it ds]; [discriminate|]. intro H. apply andb_true_iff in H as [H _].
  cbn [forallb] in H. apply andb_true_iff in H as [Hit _]. unfold tlines. cbn [flat_map]. unfold item_tlines.
  assert (Hc : forall ind c rest, wf_comment T c = true -> rest <> [] -> (forall q l, rest = q :: l -> q <> PBlank) ->
            exists p tl, comment_tlines ind c ++ rest = p :: tl /\ p <> PBlank).
  { intros ind c rest Hwf Hne Hrest. unfold comment_tlines. destruct (clines c) as [|t ts].
    - destruct rest as [|q l]; [contradiction|]. exists q, l. split; [reflexivity|]. eapply Hrest. reflexivity.
    - exists (PComment ind t). eexists. split; [reflexivity|discriminate]. }
  destruct it as [d|p|c]; cbn [wf_item] in Hit.
  - destruct d as [n l c|n b vals attrs c|s]; cbn [wf_decl decl_tlines] in *.
    + apply andb_true_iff in Hit as [Hit _]. apply andb_true_iff in Hit as [_ Hcm].
      rewrite <- !app_assoc. destruct (Hc [] c ([PStmt [] (r_alias T st n l)] ++ blanks (st_blank_top st) ++ flat_map (item_tlines T st) ds) Hcm) as [p [tl [E Hp]]];
        [discriminate|intros q l0 Hq; inversion Hq; discriminate|]. exists p, tl. split; [rewrite <- E; reflexivity|exact Hp].
    + apply andb_true_iff in Hit as [Hit Hcm]. rewrite <- !app_assoc.
      destruct (Hc [] c (map (PStmt []) (r_attrs T st CEnum attrs) ++ [PStmt [] (r_enum_header T n b)] ++ flat_map (value_tlines T st) vals
                         ++ blanks (st_blank_top st) ++ flat_map (item_tlines T st) ds) Hcm) as [p [tl [E Hp]]].
      * destruct (r_attrs T st CEnum attrs); discriminate.
      * intros q l0 Hq. destruct (r_attrs T st CEnum attrs); inversion Hq; discriminate.
      * exists p, tl. split; [rewrite <- E; reflexivity|exact Hp].
    + apply andb_true_iff in Hit as [Hit _]. apply andb_true_iff in Hit as [Hit _]. apply andb_true_iff in Hit as [Hit _]. apply andb_true_iff in Hit as [_ Hcm].
      rewrite <- !app_assoc.
      destruct (Hc [] (s_comment s) (map (PStmt []) (r_attrs T st CStruct (s_attrs s)) ++ [PStmt [] (r_struct_header T (s_disp s) (s_name s))]
                         ++ flat_map (member_tlines T st) (s_fields s) ++ blanks (st_blank_top st) ++ flat_map (item_tlines T st) ds) Hcm) as [p [tl [E Hp]]].
      * destruct (r_attrs T st CStruct (s_attrs s)); discriminate.
      * intros q l0 Hq. destruct (r_attrs T st CStruct (s_attrs s)); inversion Hq; discriminate.
      * exists p, tl. split; [rewrite <- E; reflexivity|exact Hp].
  - eexists. eexists. split; [reflexivity|discriminate].
  - unfold comment_tlines. pose proof (wf_comment_clines (Some c) Hit ltac:(discriminate)) as Hne.
    destruct (clines (Some c)) as [|t ts]; [contradiction|]. eexists. eexists. split; [reflexivity|discriminate].
Qed.

(* ------------------------------------------------------------------------------------------------------------------ *)
(* C04: printing a well-formed descriptor list in any style and parsing it again gives the list back *)

Definition style_cr (st : style) : list Z := if st_crlf st then [13] else [].

Lemma render_lines st ds : render_with T st ds = flat_map (fun l => l ++ style_cr st ++ [10]) (plines T st ds).
Proof. unfold render_with, eol, style_cr. destruct (st_crlf st); reflexivity. Qed.

Definition text_of (cr : list Z) (tl : list pline) : list Z := flat_map (fun p => untag p ++ cr ++ [10]) tl.
Definition machine0 (ls : list mline) : mres (list item) := machine T (STop [] None PaNone) [0] false 0 ls.

(* parsing a text made of complete, valid tagged lines *)
Lemma parse_tagged cr tl q tl' : cr_shape cr -> forallb pline_ok tl = true -> tl = q :: tl' -> q <> PBlank ->
  parse_with T (text_of cr tl) =
  match machine0 (tgroup cr tl) with
  | MOk v => Ok v
  | MErr i d => Error (pos_of (group T 1 (phys cr tl) []) i d)
  end.
Proof.
  intros Hcr Hok_lines E Hq. unfold parse_with, text_of.
  pose proof (split_lines (map untag tl) cr) as Hsplit. cbn zeta in Hsplit.
  rewrite flat_map_concat_map, map_map, <- flat_map_concat_map in Hsplit.
  destruct (split_lf (flat_map (fun p => untag p ++ cr ++ [10]) tl)) as [p ps].
  rewrite Hsplit.
  2:{ apply forallb_forall. intros l Hl. apply in_map_iff in Hl as [x [<- Hx]]. apply pline_nolf.
      rewrite forallb_forall in Hok_lines. apply Hok_lines. exact Hx. }
  2:{ destruct Hcr as [->| ->]; reflexivity. }
  rewrite map_map. fold (phys cr tl).
  assert (Hgm : map (l_m) (group T 1 (phys cr tl) []) = tgroup cr tl).
  { rewrite group_mgroup. apply mgroup_tagged; assumption. }
  rewrite E in *. cbn [phys map].
  assert (Hnb : is_blank_piece (untag q ++ cr) = false).
  { unfold is_blank_piece. cbn [forallb] in Hok_lines. apply andb_true_iff in Hok_lines as [Hq' _].
    rewrite (classify_tagged cr q Hcr Hq'). destruct q; [contradiction|reflexivity|reflexivity]. }
  rewrite Hnb. cbn [phys map] in Hgm. unfold machine0. rewrite Hgm. reflexivity.
Qed.

Lemma render_text_of st ds : render_with T st ds = text_of (style_cr st) (tlines T st ds).
Proof.
  rewrite render_lines. unfold text_of, plines. rewrite flat_map_concat_map, map_map, <- flat_map_concat_map. reflexivity.
Qed.

Lemma style_cr_shape st : cr_shape (style_cr st).
Proof. unfold style_cr, cr_shape. destruct (st_crlf st); auto. Qed.

Lemma wf_doc_items ds : wf_doc_with T ds = true -> forallb (wf_item T) ds = true /\ wf_adjacent ds = true /\ ds <> [].
Proof. unfold wf_doc_with. destruct ds; [discriminate|]. intro H. apply andb_true_iff in H as [H1 H2]. repeat split; [exact H1|exact H2|discriminate]. Qed.

Lemma parse_machine st ds : wf_style st = true -> wf_doc_with T ds = true ->
  parse_with T (render_with T st ds) =
  match machine0 (tgroup (style_cr st) (tlines T st ds)) with
  | MOk v => Ok v
  | MErr i d => Error (pos_of (group T 1 (phys (style_cr st) (tlines T st ds)) []) i d)
  end.
Proof.
  intros Hst Hwf. destruct (wf_doc_items ds Hwf) as [Hitems _].
  destruct (first_line_not_blank st ds Hwf) as [q [tl [E Hq]]]. rewrite render_text_of.
  apply (parse_tagged _ _ q tl (style_cr_shape st) (tlines_ok st ds Hst Hitems) E Hq).
Qed.

Theorem parse_render_with st ds :
  comment_merged T = false -> (st_crlf st = true -> in_set (comment_strip T) 13 = true) ->
  wf_style st = true -> wf_doc_with T ds = true -> parse_with T (render_with T st ds) = Ok ds.
Proof.
  intros Hmerged Hcrlf Hst Hwf. rewrite (parse_machine st ds Hst Hwf).
  assert (Hcr : cr_ok (style_cr st)).
  { unfold cr_ok, style_cr. destruct (st_crlf st); [right; split; [reflexivity|apply Hcrlf; reflexivity]|left; reflexivity]. }
  unfold wf_doc_with in Hwf. destruct ds as [|it ds]; [discriminate|]. apply andb_true_iff in Hwf as [Hitems Hadj].
  destruct (doc_run Hmerged st Hst (style_cr st) Hcr (it :: ds) Hitems Hadj [] None ltac:(destruct it; cbn [item_pre]; auto) [] eq_refl)
    as [LS [acc2 [pc2 [E [HR Hres]]]]].
  rewrite app_nil_r in E. cbn [tgroup] in E. rewrite app_nil_r in E.
  unfold machine0. rewrite E. destruct (HR [] false 0%nat) as [ac' Hm]. rewrite app_nil_r in Hm. cbn [fst snd] in Hm. rewrite Hm.
  cbn [machine eof_dedents]. cbn [app opt_comment] in Hres. rewrite Hres. reflexivity.
Qed.

(* ------------------------------------------------------------------------------------------------------------------ *)
(* C11: splitting the logical lines of a text at a physical line; positions *)

Fixpoint tpeek_with (tl : list pline) (d : Z) : Z :=
  match tl with [] => d | PBlank :: r => tpeek_with r d | PComment ind _ :: _ | PStmt ind _ :: _ => ws_width T ind end.
Lemma tpeek_app tl1 tl2 : tpeek (tl1 ++ tl2) = tpeek_with tl1 (tpeek tl2).
Proof. induction tl1 as [|[|ind t|ind c] tl1 IH]; cbn [app tpeek tpeek_with]; auto. Qed.

Lemma add_comment_line_app p g x : g <> [] -> add_comment_line p (g ++ x) = add_comment_line p g ++ x.
Proof. destruct g as [|[[lines|core] n] g]; [contradiction|reflexivity|reflexivity]. Qed.
Lemma add_comment_pos_app ln c p g x : g <> [] -> add_comment_pos ln c p (g ++ x) = add_comment_pos ln c p g ++ x.
Proof. destruct g as [|L g]; [contradiction|reflexivity]. Qed.

(* tl2 does not continue a comment token of tl1 *)
Definition no_merge (tl1 tl2 : list pline) : Prop := tnext_comment tl2 = false.

Lemma tgroup_split cr tl1 : forall d, exists G1, forall tl2, tpeek tl2 = d -> tnext_comment tl2 = false ->
  tgroup cr (tl1 ++ tl2) = G1 ++ tgroup cr tl2 /\ (tnext_comment tl1 = true -> G1 <> []).
Proof.
  induction tl1 as [|p tl1 IH]; intro d.
  - exists []. intros tl2 _ _. split; [reflexivity|discriminate].
  - destruct (IH d) as [G1 HG]. destruct p as [|ind t|ind c].
    + exists G1. intros tl2 Hd Hn. destruct (HG tl2 Hd Hn) as [E _]. split; [exact E|discriminate].
    + destruct (tnext_comment tl1) eqn:Hnc.
      * exists (add_comment_line ((ind ++ t) ++ cr) G1). intros tl2 Hd Hn. destruct (HG tl2 Hd Hn) as [E Hne]. specialize (Hne eq_refl).
        split.
        -- cbn [app tgroup]. assert (Hnc' : tnext_comment (tl1 ++ tl2) = true) by (destruct tl1 as [|[] ?]; try discriminate; reflexivity).
           rewrite Hnc', E. apply add_comment_line_app. exact Hne.
        -- intros _. destruct G1 as [|[[lines|core] n] G1]; [contradiction|discriminate|discriminate].
      * exists ({| m_body := MComment [(ind ++ t) ++ cr]; m_next := Some (tpeek_with tl1 d) |} :: G1). intros tl2 Hd Hn.
        destruct (HG tl2 Hd Hn) as [E _]. split; [|discriminate].
        cbn [app tgroup]. assert (Hnc' : tnext_comment (tl1 ++ tl2) = false).
        { destruct tl1 as [|[] ?]; try discriminate; try reflexivity. exact Hn. }
        rewrite Hnc', E, tpeek_app, Hd. reflexivity.
    + exists ({| m_body := MStmt c; m_next := Some (tpeek_with tl1 d) |} :: G1). intros tl2 Hd Hn.
      destruct (HG tl2 Hd Hn) as [E _]. split; [|discriminate]. cbn [app tgroup]. rewrite E, tpeek_app, Hd. reflexivity.
Qed.

Lemma group_split cr tl1 : cr_shape cr -> forallb pline_ok tl1 = true -> forall tl2 ln,
  forallb pline_ok tl2 = true -> tnext_comment tl2 = false ->
  exists GP1, group T ln (phys cr (tl1 ++ tl2)) [] = GP1 ++ group T (ln + Z.of_nat (length tl1)) (phys cr tl2) []
    /\ (tnext_comment tl1 = true -> GP1 <> []).
Proof.
  intros Hcr. induction tl1 as [|p tl1 IH]; intros Hok1 tl2 ln Hok2 Hn.
  - exists []. cbn [app length]. rewrite Z.add_0_r. split; [reflexivity|discriminate].
  - cbn [forallb] in Hok1. apply andb_true_iff in Hok1 as [Hp Hok1].
    destruct (IH Hok1 tl2 (ln + 1) Hok2 Hn) as [GP1 [E Hne]].
    replace (ln + 1 + Z.of_nat (length tl1)) with (ln + Z.of_nat (length (p :: tl1))) in E by (cbn [length]; lia).
    assert (Hall : forallb pline_ok (tl1 ++ tl2) = true) by (rewrite forallb_app, Hok1, Hok2; reflexivity).
    cbn [app phys map group]. fold (phys cr (tl1 ++ tl2)). rewrite (classify_tagged cr p Hcr Hp).
    rewrite peek_comment_tagged, peek_indent_tagged by assumption.
    destruct p as [|ind t|ind c].
    + exists GP1. split; [exact E|discriminate].
    + destruct (tnext_comment tl1) eqn:Hnc.
      * assert (Hnc' : tnext_comment (tl1 ++ tl2) = true) by (destruct tl1 as [|[] ?]; try discriminate; reflexivity).
        rewrite Hnc', E. specialize (Hne eq_refl). eexists. split; [apply add_comment_pos_app; exact Hne|].
        intros _. destruct GP1; [contradiction|discriminate].
      * assert (Hnc' : tnext_comment (tl1 ++ tl2) = false) by (destruct tl1 as [|[] ?]; try discriminate; try reflexivity; exact Hn).
        rewrite Hnc', E. eexists. split; [rewrite app_comm_cons; reflexivity|discriminate].
    + rewrite E. eexists. split; [rewrite app_comm_cons; reflexivity|discriminate].
Qed.

Lemma group_head_stmt cr ind c tl ln : cr_shape cr -> forallb pline_ok (PStmt ind c :: tl) = true ->
  exists L rest, group T ln (phys cr (PStmt ind c :: tl)) [] = L :: rest /\ l_line L = ln /\ l_col0 L = len ind + 1
    /\ m_body (l_m L) = MStmt c.
Proof.
  intros Hcr Hok_l. cbn [forallb] in Hok_l. apply andb_true_iff in Hok_l as [Hp Htl].
  cbn [phys map group]. rewrite (classify_tagged cr (PStmt ind c) Hcr Hp). eexists. eexists. split; [reflexivity|]. repeat split.
Qed.

(* --- an error in any logical line is never dropped *)
Fixpoint mrun (st : pstate) (stack : list Z) (ac : bool) (i : nat) (ls : list mline) : mres (pstate * list Z * bool * nat) :=
  match ls with
  | [] => MOk (st, stack, ac, i)
  | L :: rest =>
    match deliver T st ac (m_body L) with
    | SErr d => MErr i d
    | SOk st1 =>
      match m_next L with
      | None => MErr i DNoNl
      | Some w => match on_indent st1 stack w with
                  | SErr d => MErr i d
                  | SOk (st2, stack2) => mrun st2 stack2 (is_comment (m_body L)) (S i) rest
                  end
      end
    end
  end.

Lemma machine_app l1 : forall st stack ac i l2,
  machine T st stack ac i (l1 ++ l2) =
  match mrun st stack ac i l1 with
  | MOk (st', stack', ac', i') => machine T st' stack' ac' i' l2
  | MErr j d => MErr j d
  end.
Proof.
  induction l1 as [|L l1 IH]; intros st stack ac i l2; [reflexivity|].
  cbn [app machine mrun]. destruct (deliver T st ac (m_body L)) as [st1|d]; [|reflexivity].
  destruct (m_next L) as [w|]; [|reflexivity]. destruct (on_indent st1 stack w) as [[st2 stack2]|d]; [|reflexivity]. apply IH.
Qed.

Theorem machine_error_propagates st stack ac i l1 j d :
  mrun st stack ac i l1 = MErr j d -> forall l2, machine T st stack ac i (l1 ++ l2) = MErr j d.
Proof. intros H l2. rewrite machine_app, H. reflexivity. Qed.

Theorem machine_success_ran_every_line st stack ac i ls v :
  machine T st stack ac i ls = MOk v -> forall l1 l2, ls = l1 ++ l2 -> exists s, mrun st stack ac i l1 = MOk s.
Proof.
  intros H l1 l2 ->. rewrite machine_app in H. destruct (mrun st stack ac i l1) as [s|j d]; [exists s; reflexivity|discriminate].
Qed.

(* --- a statement line that the top-level parser rejects, anywhere a top-level statement may start *)
Definition zlen {A} (l : list A) : Z := Z.of_nat (length l).

Lemma comment_ls_length cr ind c n : wf_comment T c = true -> length (comment_ls cr ind c n) = match c with Some _ => 1%nat | None => 0%nat end.
Proof. destruct c; reflexivity. Qed.

Theorem bad_top_line st pre cmt c' s tl_rest :
  comment_merged T = false -> cr_ok (style_cr st) -> wf_style st = true ->
  forallb (wf_item T) pre = true -> wf_adjacent pre = true -> wf_comment T cmt = true ->
  pline_ok (PStmt [] c') = true -> forallb pline_ok tl_rest = true ->
  (forall ac, parse_top_line T None ac c' = LErr s) ->
  parse_with T (text_of (style_cr st) (tlines T st pre ++ comment_tlines [] cmt ++ PStmt [] c' :: tl_rest))
  = Error {| e_line := 1 + zlen (tlines T st pre) + zlen (clines cmt); e_col := 1 + len c' - len s; e_kind := EToken |}.
Proof.
  intros Hmerged Hcr Hst Hpre Hadj Hcmt Hc' Hrest Hbad.
  set (cr := style_cr st). set (r1 := comment_tlines [] cmt ++ PStmt [] c' :: tl_rest).
  set (tl2 := PStmt [] c' :: tl_rest).
  assert (Hshape : cr_shape cr) by apply style_cr_shape.
  assert (Hok1 : forallb pline_ok (tlines T st pre ++ comment_tlines [] cmt) = true).
  { rewrite forallb_app, (tlines_ok st pre Hst Hpre), comment_tlines_ok by reflexivity. reflexivity. }
  assert (Hok2 : forallb pline_ok tl2 = true) by (subst tl2; cbn [forallb]; rewrite Hc', Hrest; reflexivity).
  assert (Hall : forallb pline_ok (tlines T st pre ++ r1) = true).
  { subst r1. rewrite app_assoc, forallb_app, Hok1. exact Hok2. }
  assert (Hfirst : exists q tl', tlines T st pre ++ r1 = q :: tl' /\ q <> PBlank).
  { destruct pre as [|it pre'].
    - subst r1. cbn [tlines flat_map app]. unfold comment_tlines. destruct (clines cmt) as [|t ts]; cbn [map app].
      + eexists. eexists. split; [reflexivity|discriminate].
      + eexists. eexists. split; [reflexivity|discriminate].
    - destruct (first_line_not_blank st (it :: pre')) as [q [tl' [E Hq]]].
      + unfold wf_doc_with. rewrite Hpre, Hadj. reflexivity.
      + rewrite E. eexists. eexists. split; [reflexivity|exact Hq]. }
  destruct Hfirst as [q [tl' [E Hq]]].
  rewrite (parse_tagged cr _ q tl' Hshape Hall E Hq).
  (* the run of the automaton *)
  assert (Hpeek : tpeek r1 = 0).
  { subst r1. unfold comment_tlines. destruct (clines cmt); reflexivity. }
  destruct (doc_run Hmerged st Hst cr Hcr pre Hpre Hadj [] None ltac:(destruct pre as [|[] ?]; cbn [item_pre]; auto) r1 Hpeek)
    as [LS [acc2 [pc2 [EG [HR _]]]]].
  assert (EG1 : tgroup cr r1 = comment_ls cr [] cmt 0 ++ ml (MStmt c') (tpeek tl_rest) :: tgroup cr tl_rest).
  { subst r1. rewrite tgroup_comment_opt; [|reflexivity|apply wf_comment_clines; exact Hcmt].
    unfold comment_ls. destruct cmt; reflexivity. }
  assert (Hmach : machine0 (tgroup cr (tlines T st pre ++ r1)) = MErr (length LS + length (comment_ls cr [] cmt 0)) (DStmt (length s))).
  { unfold machine0. rewrite EG, EG1.
    destruct (HR (comment_ls cr [] cmt 0 ++ ml (MStmt c') (tpeek tl_rest) :: tgroup cr tl_rest) false 0%nat) as [ac1 E1].
    cbn [fst snd] in E1. rewrite E1.
    destruct (reach_comment_ls_top cr Hcr acc2 pc2 cmt Hcmt (ml (MStmt c') (tpeek tl_rest) :: tgroup cr tl_rest) ac1 (0 + length LS)%nat) as [ac2 E2].
    cbn [fst snd] in E2. rewrite E2. cbn [machine ml m_body deliver on_stmt pa_ctx]. rewrite Hbad. cbn [of_lres sbind]. reflexivity. }
  rewrite Hmach.
  (* the position *)
  assert (Hn2 : tnext_comment tl2 = false) by reflexivity.
  destruct (group_split cr _ Hshape Hok1 tl2 1 Hok2 Hn2) as [GP1 [EGP _]].
  destruct (group_head_stmt cr [] c' tl_rest (1 + Z.of_nat (length (tlines T st pre ++ comment_tlines [] cmt))) Hshape Hok2) as [L [rest' [EL [HL1 [HL2 HL3]]]]].
  assert (Hgroup : group T 1 (phys cr (tlines T st pre ++ r1)) [] = GP1 ++ L :: rest').
  { subst r1. rewrite app_assoc. fold tl2. rewrite EGP. fold tl2 in EL. rewrite EL. reflexivity. }
  assert (Hlen : length GP1 = (length LS + length (comment_ls cr [] cmt 0))%nat).
  { assert (M1 : map l_m (GP1 ++ L :: rest') = tgroup cr (tlines T st pre ++ r1)).
    { rewrite <- Hgroup, group_mgroup. apply mgroup_tagged; assumption. }
    assert (M2 : map l_m (L :: rest') = tgroup cr tl2).
    { rewrite <- EL, group_mgroup. apply mgroup_tagged; assumption. }
    rewrite map_app, M2, EG, EG1 in M1. apply (f_equal (@length mline)) in M1.
    rewrite !app_length, map_length in M1. cbn [tl2 tgroup length] in M1. cbn [length] in M1. lia. }
  rewrite Hgroup, <- Hlen. unfold pos_of. rewrite nth_error_app2, Nat.sub_diag by lia. cbn [nth_error]. rewrite HL3, HL1, HL2.

  f_equal. f_equal; unfold zlen, len, comment_tlines; rewrite ?app_length, ?map_length; cbn [length]; lia.
Qed.

(* --- the corruption operators that act on the first statement line of a top-level item *)
Definition replace_stmt (k : nat) (c' : list Z) (tl : list pline) : list pline :=
  firstn k tl ++ match nth_error tl k with Some (PStmt ind _) => [PStmt ind c'] | Some p => [p] | None => [] end ++ skipn (S k) tl.
Definition insert_stmt (k : nat) (c' : list Z) (tl : list pline) : list pline := firstn k tl ++ PStmt [] c' :: skipn k tl.

Lemma replace_stmt_at a ind c b c' : replace_stmt (length a) c' (a ++ PStmt ind c :: b) = a ++ PStmt ind c' :: b.
Proof.
  unfold replace_stmt. rewrite firstn_app, Nat.sub_diag, firstn_all, nth_error_app2, Nat.sub_diag by lia. cbn [firstn nth_error app].
  rewrite app_nil_r. f_equal. f_equal. replace (S (length a)) with (length (a ++ [PStmt ind c])) by (rewrite app_length; cbn; lia).
  replace (a ++ PStmt ind c :: b) with ((a ++ [PStmt ind c]) ++ b) by (rewrite <- app_assoc; reflexivity).
  rewrite skipn_app, Nat.sub_diag, skipn_all. reflexivity.
Qed.
Lemma insert_stmt_at a b c' : insert_stmt (length a) c' (a ++ b) = a ++ PStmt [] c' :: b.
Proof. unfold insert_stmt. rewrite firstn_app, Nat.sub_diag, firstn_all, skipn_app, Nat.sub_diag, skipn_all. cbn [firstn skipn app]. rewrite app_nil_r. reflexivity. Qed.

Lemma tlines_split st ds j it : nth_error ds j = Some it ->
  tlines T st ds = tlines T st (firstn j ds) ++ item_tlines T st it ++ tlines T st (skipn (S j) ds).
Proof.
  revert j. induction ds as [|x ds IH]; intros [|j] H; try discriminate.
  - inversion H. reflexivity.
  - cbn [nth_error] in H. cbn [firstn skipn]. unfold tlines in *. cbn [flat_map]. rewrite (IH j H), <- !app_assoc. reflexivity.
Qed.

Lemma wf_firstn j ds : forallb (wf_item T) ds = true -> wf_adjacent ds = true ->
  forallb (wf_item T) (firstn j ds) = true /\ wf_adjacent (firstn j ds) = true.
Proof.
  revert j. induction ds as [|x ds IH]; intros [|j] H1 H2; try (split; reflexivity).
  cbn [forallb] in H1. apply andb_true_iff in H1 as [Hx Hds]. cbn [firstn forallb]. rewrite Hx.
  assert (Hadj' : wf_adjacent ds = true).
  { destruct x as [d|p|c]; cbn [wf_adjacent] in H2; try exact H2. destruct ds as [|[d'|p'|c'] ds']; try exact H2.
    apply andb_true_iff in H2 as [_ H]. exact H. }
  destruct (IH j Hds Hadj') as [I1 I2]. split; [exact I1|].
  destruct x as [d|p|c]; cbn [wf_adjacent]; try exact I2.
  destruct ds as [|[d'|p'|c'] ds']; destruct j; cbn [firstn wf_adjacent] in *; try reflexivity; try exact I2.
  apply andb_true_iff in H2 as [H _]. rewrite H. exact I2.
Qed.

Lemma wf_nth j ds it : forallb (wf_item T) ds = true -> nth_error ds j = Some it -> wf_item T it = true.
Proof. intros H Hn. rewrite forallb_forall in H. apply H. eapply nth_error_In. exact Hn. Qed.
Lemma wf_skipn j ds : forallb (wf_item T) ds = true -> forallb (wf_item T) (skipn j ds) = true.
Proof.
  revert ds. induction j as [|j IH]; intros ds H; [exact H|]. destruct ds as [|x ds]; [reflexivity|].
  cbn [forallb] in H. apply andb_true_iff in H as [_ H]. cbn [skipn]. apply IH. exact H.
Qed.

Section BadLines.
Hypothesis Hmerged' : comment_merged T = false.

(* the statement line of an alias, with something else in place of its type *)
Definition alias_head (n : string) : list Z := kw_using T ++ [32] ++ of_string n ++ [32; 61; 32].
Definition int_prefix (i : intty) : list Z := (if it_unsigned i then int_unsigned_prefix T else []) ++ int_kw T.

Lemma alias_bad_width ac n i w : wf_type T n = true -> forallb (fun x => negb (is_prefix x w)) (int_widths T) = true ->
  parse_top_line T None ac (alias_head n ++ int_prefix i ++ w) = LErr (int_prefix i ++ w).
Proof.
  intros Hn Hw. unfold alias_head. rewrite <- !app_assoc. cbn [app].
  assert (Hnone : first_prefix (int_widths T) w = None).
  { apply first_prefix_none. intros k Hk. rewrite forallb_forall in Hw. specialize (Hw k Hk). apply negb_true_iff in Hw.
    unfold is_prefix in Hw. destruct (strip_prefix k w); [discriminate|reflexivity]. }
  assert (Hint : raw_intty T (int_prefix i ++ w) = None).
  { unfold raw_intty, int_prefix. destruct (it_unsigned i).
    - rewrite strip_prefix_app, Hnone. reflexivity.
    - cbn [app]. rewrite (ok_uprefix T Hok).
      assert (Hno : strip_prefix ([fsi_unsigned_char T] ++ int_kw T) (int_kw T ++ w) = None).
      { destruct (kw_shape _ (kwok_int T Hok)) as [k0 [kr [Ek _]]]. pose proof (ok_uchar T Hok) as Huc.
        rewrite Ek in *. cbn [head_is] in Huc. cbn [app strip_prefix]. rewrite Huc. reflexivity. }
      rewrite Hno, strip_prefix_app, Hnone. reflexivity. }
  assert (Hhead : exists c, head_is c (int_prefix i ++ w) = true /\ is_lower c = true).
  { unfold int_prefix. destruct (it_unsigned i).
    - rewrite (ok_uprefix T Hok). exists (fsi_unsigned_char T). cbn [app head_is]. rewrite Z.eqb_refl. split; [reflexivity|apply (ok_uchar_lower T Hok)].
    - cbn [app]. apply kw_head. apply (kwok_int T Hok). }
  destruct Hhead as [c [Hh Hc]].
  unfold parse_top_line. rewrite Hmerged'. cbn [andb].
  destruct (kw_head (kw_using T) (32 :: of_string n ++ 32 :: 61 :: 32 :: int_prefix i ++ w) (kwok_using T Hok)) as [c0 [Hh0 Hc0]].
  rewrite skip_ws_kw by apply (kwok_using T Hok). rewrite (strip_at_lower c0 _ Hh0 Hc0).
  rewrite (cf_strip (kw_import T) (kw_using T)) by (apply (cf_import_x T Hok); cbn; tauto).
  rewrite strip_prefix_app. rewrite tok_sp, (tok_type_ok T) by (try exact Hn; reflexivity). cbn [lbind].
  rewrite expect_sp, expect_lit by reflexivity. cbn [lbind]. rewrite skip_ws_sp.
  rewrite (skip_ws_head c _ Hh (lower_not_ws c Hc)), Hint. rewrite expect_sp. unfold expect.
  rewrite (skip_ws_head c _ Hh (lower_not_ws c Hc)).
  assert (Hbf : strip_prefix (kw_binary_fixed T) (int_prefix i ++ w) = None).
  { pose proof (ok_cf_alias T Hok) as Hpw. cbn [pw_cf int_heads forallb] in Hpw.
    apply andb_true_iff in Hpw as [Hf _]. apply andb_true_iff in Hf as [H1 Hf]. apply andb_true_iff in Hf as [H2 _].
    unfold int_prefix. destruct (it_unsigned i); [apply (cf_strip _ (int_unsigned_prefix T ++ int_kw T)); exact H1|cbn [app]; apply cf_strip; exact H2]. }
  rewrite Hbf. reflexivity.
Qed.

Definition item_comment (it : item) : option string := match it with IDecl d => decl_comment d | _ => None end.

Lemma item_tlines_first st it : wf_style st = true -> wf_item T it = true -> (forall c, it <> IComment c) ->
  exists c0 rest, item_tlines T st it = comment_tlines [] (item_comment it) ++ PStmt [] c0 :: rest
    /\ wf_comment T (item_comment it) = true /\ forallb pline_ok rest = true
    /\ c0 = match it with
            | IDecl (DAlias n l _) => r_alias T st n l
            | IDecl (DEnum n b _ attrs _) => match attrs with Some (a :: _) => r_attr T st CEnum a | _ => r_enum_header T n b end
            | IDecl (DStruct s) => match s_attrs s with Some (a :: _) => r_attr T st CStruct a | _ => r_struct_header T (s_disp s) (s_name s) end
            | IImport p => r_import T p
            | IComment _ => []
            end.
Proof.
  intros Hst Hwf Hnc. pose proof (tlines_ok st [it] Hst ltac:(cbn [forallb]; rewrite Hwf; reflexivity)) as Hall.
  unfold tlines in Hall. cbn [flat_map] in Hall. rewrite app_nil_r in Hall.
  destruct it as [d|p|c]; [| |exfalso; eapply Hnc; reflexivity]; cbn [item_comment].
  - destruct d as [n l c|n b vals attrs c|s]; cbn [wf_item wf_decl decl_comment] in *.
    + eexists. eexists. split; [unfold item_tlines; cbn [decl_tlines]; rewrite <- !app_assoc; reflexivity|].
      split; [|split; [|reflexivity]].
      * apply andb_true_iff in Hwf as [H _]. apply andb_true_iff in H as [_ H]. exact H.
      * unfold item_tlines in Hall. cbn [decl_tlines] in Hall. rewrite <- !app_assoc in Hall. rewrite forallb_app in Hall.
        apply andb_true_iff in Hall as [_ Hall]. cbn [app forallb] in Hall. apply andb_true_iff in Hall as [_ Hall]. exact Hall.
    + assert (Hc : wf_comment T c = true) by (apply andb_true_iff in Hwf as [_ H]; exact H).
      unfold item_tlines in *. cbn [decl_tlines] in *. rewrite <- !app_assoc in *. rewrite forallb_app in Hall. apply andb_true_iff in Hall as [_ Hall].
      destruct attrs as [[|a l]|]; cbn [r_attrs map app] in *.
      * eexists. eexists. split; [reflexivity|]. split; [exact Hc|]. split; [|reflexivity]. cbn [forallb] in Hall. apply andb_true_iff in Hall as [_ Hall]. exact Hall.
      * eexists. eexists. split; [reflexivity|]. split; [exact Hc|]. split; [|reflexivity]. cbn [forallb] in Hall. apply andb_true_iff in Hall as [_ Hall]. exact Hall.
      * eexists. eexists. split; [reflexivity|]. split; [exact Hc|]. split; [|reflexivity]. cbn [forallb] in Hall. apply andb_true_iff in Hall as [_ Hall]. exact Hall.
    + assert (Hc : wf_comment T (s_comment s) = true).
      { apply andb_true_iff in Hwf as [H _]. apply andb_true_iff in H as [H _]. apply andb_true_iff in H as [H _]. apply andb_true_iff in H as [_ H]. exact H. }
      unfold item_tlines in *. cbn [decl_tlines] in *. rewrite <- !app_assoc in *. rewrite forallb_app in Hall. apply andb_true_iff in Hall as [_ Hall].
      destruct (s_attrs s) as [[|a l]|]; cbn [r_attrs map app] in *.
      * eexists. eexists. split; [reflexivity|]. split; [exact Hc|]. split; [|reflexivity]. cbn [forallb] in Hall. apply andb_true_iff in Hall as [_ Hall]. exact Hall.
      * eexists. eexists. split; [reflexivity|]. split; [exact Hc|]. split; [|reflexivity]. cbn [forallb] in Hall. apply andb_true_iff in Hall as [_ Hall]. exact Hall.
      * eexists. eexists. split; [reflexivity|]. split; [exact Hc|]. split; [|reflexivity]. cbn [forallb] in Hall. apply andb_true_iff in Hall as [_ Hall]. exact Hall.
  - eexists. eexists. split; [unfold item_tlines; cbn [app comment_tlines clines map]; reflexivity|]. split; [reflexivity|]. split; [|reflexivity].
    unfold item_tlines in Hall. cbn [app forallb] in Hall. apply andb_true_iff in Hall as [_ Hall]. exact Hall.
Qed.

Definition site_line (st : style) (ds : list item) (j : nat) : nat :=
  (length (tlines T st (firstn j ds)) + match nth_error ds j with Some it => length (clines (item_comment it)) | None => 0 end)%nat.

(* [C11] the first statement line of the j-th top-level item replaced by a line the top-level parser rejects *)
Theorem replaced_statement_rejected st ds j it c' s :
  cr_ok (style_cr st) -> wf_style st = true -> wf_doc_with T ds = true ->
  nth_error ds j = Some it -> (forall c, it <> IComment c) ->
  pline_ok (PStmt [] c') = true -> (forall ac, parse_top_line T None ac c' = LErr s) ->
  parse_with T (text_of (style_cr st) (replace_stmt (site_line st ds j) c' (tlines T st ds)))
  = Error {| e_line := 1 + Z.of_nat (site_line st ds j); e_col := 1 + len c' - len s; e_kind := EToken |}.
Proof.
  intros Hcr Hst Hwf Hn Hnc Hc' Hbad. destruct (wf_doc_items ds Hwf) as [Hitems [Hadj _]].
  destruct (wf_firstn j ds Hitems Hadj) as [Hpre Hpadj]. pose proof (wf_nth j ds it Hitems Hn) as Hit.
  destruct (item_tlines_first st it Hst Hit Hnc) as [c0 [rest [E [Hcmt [Hrest _]]]]].
  unfold site_line. rewrite Hn. rewrite (tlines_split st ds j it Hn), E.
  replace (tlines T st (firstn j ds) ++ (comment_tlines [] (item_comment it) ++ PStmt [] c0 :: rest) ++ tlines T st (skipn (S j) ds))
    with ((tlines T st (firstn j ds) ++ comment_tlines [] (item_comment it)) ++ PStmt [] c0 :: (rest ++ tlines T st (skipn (S j) ds)))
    by (rewrite <- !app_assoc; reflexivity).
  replace (length (tlines T st (firstn j ds)) + length (clines (item_comment it)))%nat
    with (length (tlines T st (firstn j ds) ++ comment_tlines [] (item_comment it)))
    by (rewrite app_length; unfold comment_tlines; rewrite map_length; reflexivity).
  rewrite replace_stmt_at, <- app_assoc.
  rewrite (bad_top_line st (firstn j ds) (item_comment it) c' s (rest ++ tlines T st (skipn (S j) ds)) Hmerged' Hcr Hst Hpre Hpadj Hcmt Hc').
  - f_equal. f_equal. rewrite app_length. unfold zlen, comment_tlines. rewrite map_length. lia.
  - rewrite forallb_app, Hrest. apply (tlines_ok st _ Hst). apply wf_skipn. exact Hitems.
  - exact Hbad.
Qed.

(* [C11] a member line at column 0 in front of the j-th top-level item *)
Theorem inserted_member_rejected st ds j c' s :
  cr_ok (style_cr st) -> wf_style st = true -> wf_doc_with T ds = true -> (j <= length ds)%nat ->
  pline_ok (PStmt [] c') = true -> (forall ac, parse_top_line T None ac c' = LErr s) ->
  parse_with T (text_of (style_cr st) (insert_stmt (length (tlines T st (firstn j ds))) c' (tlines T st ds)))
  = Error {| e_line := 1 + zlen (tlines T st (firstn j ds)); e_col := 1 + len c' - len s; e_kind := EToken |}.
Proof.
  intros Hcr Hst Hwf Hj Hc' Hbad. destruct (wf_doc_items ds Hwf) as [Hitems [Hadj _]].
  destruct (wf_firstn j ds Hitems Hadj) as [Hpre Hpadj].
  assert (E : tlines T st ds = tlines T st (firstn j ds) ++ tlines T st (skipn j ds)).
  { unfold tlines. rewrite <- flat_map_app, firstn_skipn. reflexivity. }
  replace (insert_stmt (length (tlines T st (firstn j ds))) c' (tlines T st ds))
    with (insert_stmt (length (tlines T st (firstn j ds))) c' (tlines T st (firstn j ds) ++ tlines T st (skipn j ds))) by (rewrite <- E; reflexivity).
  rewrite insert_stmt_at.
  change (tlines T st (firstn j ds) ++ PStmt [] c' :: tlines T st (skipn j ds))
    with (tlines T st (firstn j ds) ++ comment_tlines [] None ++ PStmt [] c' :: tlines T st (skipn j ds)).
  rewrite (bad_top_line st (firstn j ds) None c' s (tlines T st (skipn j ds)) Hmerged' Hcr Hst Hpre Hpadj eq_refl Hc').
  - f_equal. f_equal. cbn [clines zlen length]. unfold zlen. cbn [length]. lia.
  - apply (tlines_ok st _ Hst). apply wf_skipn. exact Hitems.
  - exact Hbad.
Qed.

(* --- contents that the top-level parser rejects *)
Definition lower_first (l : list Z) : list Z := match l with c :: b => (c + 32) :: b | [] => [] end.

Lemma alias_bad_case ac n rest : wf_type T n = true ->
  parse_top_line T None ac (kw_using T ++ [32] ++ lower_first (of_string n) ++ rest) = LErr (lower_first (of_string n) ++ rest).
Proof.
  intro Hn. destruct (wf_name_head _ _ _ _ _ Hn) as [c [b [E Hc]]]. rewrite E. cbn [lower_first].
  assert (Hl : is_lower (c + 32) = true) by (unfold is_upper, is_lower in *; lia).
  unfold parse_top_line. rewrite Hmerged'. cbn [andb].
  destruct (kw_head (kw_using T) ([32] ++ ((c + 32) :: b) ++ rest) (kwok_using T Hok)) as [c0 [Hh0 Hc0]].
  rewrite skip_ws_kw by apply (kwok_using T Hok). rewrite (strip_at_lower c0 _ Hh0 Hc0).
  rewrite (cf_strip (kw_import T) (kw_using T)) by (apply (cf_import_x T Hok); cbn; tauto).
  rewrite strip_prefix_app. cbn [app]. rewrite tok_sp. unfold tok.
  rewrite (skip_ws_head (c + 32) ((c + 32) :: b ++ rest) ltac:(cbn [head_is]; apply Z.eqb_refl) (lower_not_ws _ Hl)).
  unfold raw_type. rewrite (lex_class_none _ _ _ _ ((c + 32) :: b ++ rest) (c + 32)); [reflexivity|cbn [head_is]; apply Z.eqb_refl|apply lower_not_upper; exact Hl].
Qed.

Lemma attr_unknown ac r : parse_top_line T None ac (64 :: 81 :: r) = LErr (81 :: r).
Proof.
  unfold parse_top_line. rewrite Hmerged'. cbn [andb skip_ws]. replace (is_ws 64) with false by reflexivity.
  cbn [strip_prefix]. replace (64 =? 64) with true by reflexivity. unfold p_attr. cbn [skip_ws]. replace (is_ws 81) with false by reflexivity.
  assert (Hnone : find_attr (attr_tables T None) (81 :: r) = None).
  { assert (Hgen : forall tables, (forall c k names n, In (c, k, names) tables -> In n names -> kw_ok n = true) -> find_attr tables (81 :: r) = None).
    { induction tables as [|[[c k] names] tables IH]; intro Hk; [reflexivity|]. cbn [find_attr].
      rewrite first_prefix_none.
      - apply IH. intros c1 k1 names1 n1 Hin Hn1. eapply Hk; [right; exact Hin|exact Hn1].
      - intros n1 Hn1. specialize (Hk c k names n1 (or_introl eq_refl) Hn1). destruct (kw_shape n1 Hk) as [x [xr [-> [Hx _]]]].
        cbn [strip_prefix]. destruct (x =? 81) eqn:E; [|reflexivity]. apply Z.eqb_eq in E. subst x. discriminate. }
    apply Hgen. intros c k names n Hin Hn1. apply (kw_in T Hok).
    unfold attr_tables in Hin. cbn [app In] in Hin.
    unfold all_kws, struct_attr_names, field_attr_names. repeat rewrite in_app_iff. cbn [In].
    repeat (destruct Hin as [Hin|Hin]; [inversion Hin; subst; tauto|]). contradiction. }
  rewrite Hnone. reflexivity.
Qed.

Lemma plainc_alias_head n : wf_type T n = true -> plainc (alias_head n) = true.
Proof.
  intro Hn. unfold alias_head. rewrite !plainc_app, (plainc_kw _ (kwok_using T Hok)), (plainc_type n Hn). reflexivity.
Qed.
Lemma plainc_int_prefix i : plainc (int_prefix i) = true.
Proof.
  unfold int_prefix. rewrite plainc_app, (plainc_kw _ (kwok_int T Hok)), andb_true_r. destruct (it_unsigned i); [|reflexivity].
  rewrite (ok_uprefix T Hok). cbn [plainc forallb]. fold (plain1 (fsi_unsigned_char T)). rewrite (plain_lower _ (ok_uchar_lower T Hok)). reflexivity.
Qed.

Lemma pline_ok_bad_width n i w : wf_type T n = true -> plainc w = true -> pline_ok (PStmt [] (alias_head n ++ int_prefix i ++ w)) = true.
Proof.
  intros Hn Hw. cbn [pline_ok ws_only forallb andb].
  assert (Hh : head_stmt (alias_head n ++ int_prefix i ++ w) = true).
  { unfold alias_head. rewrite <- !app_assoc. apply head_stmt_kw. apply (kwok_using T Hok). }
  rewrite Hh, !plainc_app, (plainc_alias_head n Hn), plainc_int_prefix, Hw. reflexivity.
Qed.

Lemma pline_ok_bad_case n rest : wf_type T n = true -> plainc rest = true ->
  pline_ok (PStmt [] (kw_using T ++ [32] ++ lower_first (of_string n) ++ rest)) = true.
Proof.
  intros Hn Hr. cbn [pline_ok ws_only forallb andb]. rewrite (head_stmt_kw _ _ (kwok_using T Hok)).
  rewrite !plainc_app, (plainc_kw _ (kwok_using T Hok)), Hr. cbn [plainc forallb andb]. rewrite andb_true_r.
  pose proof (plainc_type n Hn) as Hp. destruct (wf_name_head _ _ _ _ _ Hn) as [c [b [E Hc]]]. rewrite E in *. cbn [lower_first].
  cbn [plainc forallb] in *. apply andb_true_iff in Hp as [_ Hb]. rewrite Hb, andb_true_r. unfold is_upper in Hc. lia.
Qed.
End BadLines.

(* ------------------------------------------------------------------------------------------------------------------ *)
(* C04: print-back through the repo's own __str__ methods *)

Section RepoPrint.
Hypothesis Hskip : attr_str_skips_none T = true.
Hypothesis Hrepo : repo_terms_ok T = true.

Lemma r_num_repo n : r_num T repo_style n = r_dec n.
Proof. reflexivity. Qed.

Definition simple_value (v : avalue) : bool := match v with AvNone => false | _ => not_free_value v end.

Lemma attr_str_values_simple vals : forallb simple_value vals = true ->
  attr_str_values T vals [] = map (r_avalue T repo_style) vals.
Proof.
  induction vals as [|v vals IH]; intro H; [reflexivity|]. cbn [forallb] in H. apply andb_true_iff in H as [Hv Hvs].
  destruct v as [n|s|]; cbn [simple_value not_free_value] in Hv; try discriminate.
  - cbn [attr_str_values map r_avalue app]. rewrite (IH Hvs). reflexivity.
  - cbn [attr_str_values map r_avalue]. apply negb_true_iff in Hv. rewrite Hv. cbn [app]. rewrite (IH Hvs). reflexivity.
Qed.

Lemma negation_is_not : negation T = code_not.
Proof. unfold repo_terms_ok in Hrepo. apply andb_true_iff in Hrepo as [H _]. apply list_eqb_eq. exact H. Qed.

Lemma comparer_iff ctx name k : attr_kind T ctx name = Some k -> list_eqb name code_comparer = is_transform_kind k.
Proof.
  intro Hk. destruct (attr_kind_in T ctx name k Hk) as [names [Hin Hn]].
  unfold repo_terms_ok in Hrepo. apply andb_true_iff in Hrepo as [_ H]. rewrite forallb_forall in H.
  assert (Hin' : In (ctx, k, names) (attr_tables T None ++ attr_tables T (Some CField))).
  { apply in_or_app. destruct ctx; [left|left|right]; try exact Hin; unfold attr_tables in *; apply in_or_app; [left|right]; exact Hin. }
  specialize (H _ Hin'). cbn [fst snd] in H. rewrite forallb_forall in H. specialize (H name Hn). apply Bool.eqb_prop in H. exact H.
Qed.

Lemma comparer_values_eq vals : wf_pairs T vals = true -> comparer_values vals = r_pairs T repo_style vals.
Proof.
  assert (Hgen : forall n vals, (length vals <= n)%nat -> wf_pairs T vals = true -> comparer_values vals = r_pairs T repo_style vals).
  { induction n as [|n IH]; intros vs Hn Hwf; destruct (wf_pairs_inv T vs Hwf) as [p [t [r [-> [Hp [Ht Hr]]]]]].
    - cbn in Hn. lia.
    - cbn [comparer_values r_pairs py_str_value r_avalue]. f_equal.
      + destruct t as [?|tn|]; try discriminate; reflexivity.
      + destruct Hr as [->|Hr]; [reflexivity|]. apply IH; [cbn [length] in Hn; lia|exact Hr]. }
  apply (Hgen (length vals)). lia.
Qed.

Lemma option_not_not o : In (of_string o) (alignment_option T) -> list_eqb (of_string o) code_not = false.
Proof.
  intro Ho. destruct (list_eqb (of_string o) code_not) eqn:E; [|reflexivity]. apply list_eqb_eq in E.
  pose proof (ok_cf_align T Hok) as Hpw. cbn [pw_cf] in Hpw. apply andb_true_iff in Hpw as [Hf _]. rewrite forallb_forall in Hf.
  specialize (Hf _ Ho). rewrite negation_is_not, <- E in Hf. unfold cf, is_prefix in Hf. rewrite <- (app_nil_r (of_string o)) in Hf at 2.
  rewrite strip_prefix_app in Hf. discriminate.
Qed.

Lemma format_attribute_eq ctx a : wf_attr T ctx a = true -> attr_not_free T ctx a = true ->
  format_attribute T a = r_attr T repo_style ctx a.
Proof.
  intros Hwf Hnf. unfold wf_attr in Hwf. unfold attr_not_free in Hnf. unfold format_attribute, r_attr, attr_str.
  destruct (attr_kind T ctx (of_string (at_name a))) as [k|] eqn:Hk; [|discriminate].
  rewrite (comparer_iff ctx _ k Hk). destruct a as [name vals]. cbn [at_name at_values] in *.
  destruct k; cbn [is_transform_kind].
  - destruct vals; [rewrite app_nil_r; reflexivity|discriminate].
  - destruct vals as [|v1 vals]; [discriminate|]. destruct v1 as [n|?|]; try discriminate.
    destruct vals as [|neg vals]; [discriminate|]. destruct vals as [|opt vals]; [destruct neg; discriminate|].
    destruct vals as [|x vals]; [|destruct neg, opt; discriminate].
    destruct opt as [?|o|].
    + destruct neg; discriminate.
    + destruct neg as [?|g|]; apply andb_true_iff in Hwf as [Hwf H3]; try discriminate; apply andb_true_iff in Hwf as [H1 H2]; apply mem_In in H2.
      * apply list_eqb_eq in H3. cbn [attr_str_values r_avalue]. rewrite H3, negation_is_not, list_eqb_refl, (option_not_not o H2).
        cbn [join app]. reflexivity.
      * cbn [attr_str_values r_avalue]. rewrite Hskip, (option_not_not o H2). cbn [join app]. reflexivity.
    + destruct neg; try discriminate. cbn [attr_str_values r_avalue]. rewrite Hskip. cbn [join app]. rewrite app_nil_r. reflexivity.
  - destruct vals as [|[?|p|] [|? ?]]; try discriminate. rewrite attr_str_values_simple; [reflexivity|].
    cbn [forallb] in *. unfold simple_value. exact Hnf.
  - destruct vals as [|[?|p|] [|[n|?|] [|? ?]]]; try discriminate; (rewrite attr_str_values_simple; [reflexivity|]); cbn [forallb] in *; unfold simple_value; exact Hnf.
  - destruct vals as [|[?|p|] [|[?|c|] [|? ?]]]; try discriminate. rewrite attr_str_values_simple; [reflexivity|]. cbn [forallb] in *. unfold simple_value. exact Hnf.
  - destruct vals as [|v vs]; [discriminate|]. rewrite attr_str_values_simple; [reflexivity|].
    apply forallb_forall. intros x Hx. rewrite forallb_forall in Hwf, Hnf. specialize (Hwf x Hx). specialize (Hnf x Hx).
    destruct x; try discriminate. exact Hnf.
  - rewrite (comparer_values_eq vals Hwf). destruct vals; [discriminate|]. reflexivity.
Qed.

Lemma format_attributes_eq ctx attrs : wf_attrs T ctx attrs = true -> attrs_not_free T ctx attrs = true ->
  format_attributes T attrs = r_attrs T repo_style ctx attrs.
Proof.
  destruct attrs as [l|]; [|reflexivity]. cbn [format_attributes r_attrs wf_attrs attrs_not_free]. intros Hwf Hnf.
  assert (Hl : forallb (wf_attr T ctx) l = true) by (destruct l; [discriminate|exact Hwf]). clear Hwf.
  induction l as [|a l IH]; [reflexivity|]. cbn [forallb] in *. apply andb_true_iff in Hl as [Ha Hl]. apply andb_true_iff in Hnf as [Hna Hnl].
  cbn [map]. rewrite (format_attribute_eq ctx a Ha Hna), (IH Hnl Hl). reflexivity.
Qed.

Lemma repo_member_eq f : wf_field T f = true -> attrs_not_free T CField (field_attrs f) = true ->
  repo_member_tlines T f = member_tlines T repo_style f.
Proof.
  intros Hwf Hnf. destruct (wf_field_meta f Hwf) as [_ Ha]. unfold repo_member_tlines, member_tlines, field_str.
  rewrite (format_attributes_eq CField _ Ha Hnf). cbn [repo_style st_indent st_blank_member blanks repeat]. rewrite app_nil_r. reflexivity.
Qed.
Lemma repo_value_eq v : repo_value_tlines T v = value_tlines T repo_style v.
Proof. unfold repo_value_tlines, value_tlines. cbn [repo_style st_indent st_blank_member blanks repeat]. rewrite app_nil_r. reflexivity. Qed.

Lemma flat_map_ext_in {A B} (f g : A -> list B) l : (forall x, In x l -> f x = g x) -> flat_map f l = flat_map g l.
Proof. induction l as [|x l IH]; intro H; [reflexivity|]. cbn [flat_map]. rewrite (H x (or_introl eq_refl)), IH; [reflexivity|]. intros y Hy. apply H. right. exact Hy. Qed.

Lemma repo_decl_eq d : wf_decl T d = true -> decl_not_free T d = true -> repo_decl_tlines T d = decl_tlines T repo_style d.
Proof.
  destruct d as [n l c|n b vals attrs c|s]; cbn [wf_decl decl_not_free repo_decl_tlines decl_tlines]; intros Hwf Hnf.
  - reflexivity.
  - apply andb_true_iff in Hwf as [H _]. apply andb_true_iff in H as [_ Ha].
    rewrite (format_attributes_eq CEnum attrs Ha Hnf). reflexivity.
  - apply andb_true_iff in Hwf as [H _]. apply andb_true_iff in H as [H Hf]. apply andb_true_iff in H as [_ Ha].
    apply andb_true_iff in Hnf as [Hna Hnf]. rewrite (format_attributes_eq CStruct _ Ha Hna). f_equal. f_equal. f_equal.
    apply flat_map_ext_in. intros f Hin. assert (Hff : forallb (wf_field T) (s_fields s) = true) by (destruct (s_fields s); [discriminate|exact Hf]).
    rewrite forallb_forall in Hff, Hnf. apply repo_member_eq; [apply Hff|apply Hnf]; exact Hin.
Qed.

Lemma repo_print_is_render ds : forallb (wf_item T) ds = true -> doc_not_free T ds = true ->
  repo_print_with T ds = render_with T repo_style (strip_free_comments ds).
Proof.
  intros Hwf Hnf. rewrite render_text_of. unfold repo_print_with, text_of. cbn [style_cr repo_style st_crlf app].
  f_equal. unfold tlines. induction ds as [|it ds IH]; [reflexivity|].
  cbn [forallb] in Hwf. apply andb_true_iff in Hwf as [Hit Hds]. unfold doc_not_free in Hnf. cbn [forallb] in Hnf. apply andb_true_iff in Hnf as [Hni Hnds].
  cbn [flat_map strip_free_comments filter]. destruct it as [d|p|c]; cbn [flat_map repo_item_tlines app].
  - rewrite (IH Hds Hnds). unfold item_tlines. cbn [wf_item] in Hit. rewrite (repo_decl_eq d Hit Hni). reflexivity.
  - rewrite (IH Hds Hnds). reflexivity.
  - apply (IH Hds Hnds).
Qed.
End RepoPrint.
End Proofs2.
