(* Proofs about Cats/Syntax.v, part 3: printing the parsed declarations back with the repo's __str__ methods and parsing again. *)
From Coq Require Import ZArith List Bool String Lia ZifyBool.
From Symv Require Import Base.Bytes Cats.Ast Cats.Syntax Cats.SyntaxLexProofs Cats.SyntaxProofs.
Import ListNotations.
Open Scope list_scope.

Lemma strip_wf_items T ds : forallb (wf_item T) ds = true -> forallb (wf_item T) (strip_free_comments ds) = true.
Proof.
  intro H. apply forallb_forall. intros x Hx. unfold strip_free_comments in Hx. apply filter_In in Hx as [Hx _].
  rewrite forallb_forall in H. apply H. exact Hx.
Qed.

Lemma strip_adjacent ds : wf_adjacent (strip_free_comments ds) = true.
Proof.
  assert (Hgen : forall l, forallb (fun i => match i with IComment _ => false | _ => true end) l = true -> wf_adjacent l = true).
  { induction l as [|x l IH]; intro H; [reflexivity|]. cbn [forallb] in H. apply andb_true_iff in H as [Hx Hl].
    destruct x as [d|p|c]; try discriminate; cbn [wf_adjacent]; apply IH; exact Hl. }
  apply Hgen. apply forallb_forall. intros x Hx. unfold strip_free_comments in Hx. apply filter_In in Hx as [_ Hx]. exact Hx.
Qed.

Theorem parse_repo_str_with T ds :
  terms_ok T = true -> comment_merged T = false -> attr_str_skips_none T = true -> repo_terms_ok T = true ->
  wf_doc_with T ds = true -> doc_not_free T ds = true -> strip_free_comments ds <> [] ->
  parse_with T (repo_print_with T ds) = Ok (strip_free_comments ds).
Proof.
  intros Hok Hm Hskip Hrepo Hwf Hnf Hne. destruct (wf_doc_items T ds Hwf) as [Hitems _].
  rewrite (repo_print_is_render T Hok Hskip Hrepo ds Hitems Hnf).
  apply (parse_render_with T Hok repo_style (strip_free_comments ds) Hm); [intro H; discriminate|reflexivity|].
  unfold wf_doc_with. destruct (strip_free_comments ds) as [|x l] eqn:E; [contradiction|]. rewrite <- E.
  rewrite (strip_wf_items T ds Hitems), strip_adjacent. reflexivity.
Qed.
