(* Proofs about the primitives of the layout interpreter (integers, alignment). *)
From Symv Require Import Base.Bytes Base.PyOps Base.BytesLemmas Cats.LayoutInst.
From Coq Require Import Lia ZifyBool.
Open Scope Z_scope.

Lemma firstn_app_exact {A} (a b : list A) n : length a = n -> firstn n (a ++ b) = a.
Proof. intros <-. rewrite firstn_app, Nat.sub_diag, firstn_all. cbn. apply app_nil_r. Qed.

Lemma pow8_pos w : 0 < 2 ^ (8 * Z.of_nat w).
Proof. apply Z.pow_pos_nonneg; lia. Qed.

(* int.from_bytes(x.to_bytes(w, signed), signed) = x for every width and both signednesses, with anything after it *)
Lemma py_int_roundtrip w signed x b rest :
  py_to_bytes w signed x = Ok b -> py_from_bytes w signed (b ++ rest) = x /\ length b = w.
Proof.
  unfold py_to_bytes, py_from_bytes. destruct (int_in_range w signed x) eqn:Hr; [|discriminate].
  intros H; injection H as <-. rewrite firstn_app_exact by apply length_to_le. split; [|apply length_to_le].
  unfold int_in_range in Hr. pose proof (pow8_pos w) as Hp.
  destruct signed.
  - apply Bool.andb_true_iff in Hr as [H1 H2]. apply Z.leb_le in H1. apply Z.ltb_lt in H2.
    unfold from_le_signed. rewrite length_to_le, from_le_to_le.
    destruct w as [|w'].
    + exfalso. change (8 * Z.of_nat 0 - 1) with (-1) in *. change (2 ^ (-1)) with 0 in *. lia.
    + set (m := 2 ^ (8 * Z.of_nat (S w'))) in *.
      assert (Hm : m = 2 * 2 ^ (8 * Z.of_nat (S w') - 1)).
      { unfold m. rewrite <- (Z.pow_succ_r 2) by lia. f_equal. lia. }
      set (h := 2 ^ (8 * Z.of_nat (S w') - 1)) in *.
      destruct (Z.lt_ge_cases x 0) as [Hneg|Hpos].
      * assert (x mod m = x + m) as -> by (symmetry; apply Z.mod_unique with (q := -1); lia).
        destruct (Z.ltb_spec (2 * (x + m)) m); lia.
      * rewrite Z.mod_small by lia. destruct (Z.ltb_spec (2 * x) m); lia.
  - apply Bool.andb_true_iff in Hr as [H1 H2]. apply Z.leb_le in H1. apply Z.ltb_lt in H2.
    rewrite from_le_to_le. apply Z.mod_small. lia.
Qed.

Lemma py_to_bytes_wf w signed x b : py_to_bytes w signed x = Ok b -> wf_bytes b = true.
Proof. unfold py_to_bytes. destruct (int_in_range w signed x); [|discriminate]. intros H; injection H as <-. apply wf_to_le. Qed.

(* a decoded integer is always in range, so it re-encodes (basis of decode-encode-decode stability) *)
Lemma py_from_bytes_in_range w signed buf :
  wf_bytes buf = true -> (1 <= w)%nat -> (w <= length buf)%nat -> int_in_range w signed (py_from_bytes w signed buf) = true.
Proof.
  intros Hwf Hw Hlen. unfold py_from_bytes, int_in_range.
  pose proof (from_le_bound (firstn w buf) (wf_firstn w buf Hwf)) as Hb. rewrite firstn_length_le in Hb by lia.
  destruct signed.
  - unfold from_le_signed. rewrite firstn_length_le by lia.
    set (m := 2 ^ (8 * Z.of_nat w)) in *.
    assert (Hm : m = 2 * 2 ^ (8 * Z.of_nat w - 1)).
    { unfold m. rewrite <- (Z.pow_succ_r 2) by lia. f_equal. lia. }
    destruct (Z.ltb_spec (2 * from_le (firstn w buf)) m); lia.
  - lia.
Qed.

(* ArrayHelpers.align_up as regenerated: the least multiple of the alignment that is >= size *)
Lemma align_up_spec s a : 0 <= s -> 0 < a ->
  let r := align_up_now s a in r mod a = 0 /\ s <= r < s + a.
Proof.
  intros Hs Ha. unfold align_up_now. change au_op1 with PyOps.Add. change au_op2 with PyOps.Sub. change au_op3 with PyOps.FloorDiv. change au_op4 with PyOps.Mul.
  change au_c with 1. cbn [ev2]. split.
  - apply Z.mod_mul. lia.
  - Z.div_mod_to_equations. nia.
Qed.

Lemma mul_lt_cancel a x y : 0 < a -> a * x < a * y + a -> x <= y.
Proof. intros Ha H. destruct (Z.le_gt_cases x y) as [|Hgt]; [assumption|]. assert (a * (y + 1) <= a * x) by (apply Z.mul_le_mono_nonneg_l; lia). lia. Qed.

Lemma multiple_of a m : 0 < a -> m mod a = 0 -> m = a * (m / a).
Proof. intros Ha Hm. pose proof (Z.div_mod m a ltac:(lia)). lia. Qed.

Lemma align_up_fixed s a : 0 <= s -> 0 < a -> s mod a = 0 -> align_up_now s a = s.
Proof.
  intros Hs Ha Hm. pose proof (align_up_spec s a Hs Ha) as [H1 H2]. cbn zeta in *.
  set (r := align_up_now s a) in *.
  pose proof (multiple_of a r Ha H1) as Hr. pose proof (multiple_of a s Ha Hm) as Hs'.
  set (qr := r / a) in *. set (qs := s / a) in *.
  assert (qr <= qs) by (apply (mul_lt_cancel a); lia).
  assert (qs <= qr) by (apply (mul_lt_cancel a); lia).
  assert (qr = qs) by lia. subst qr. lia.
Qed.

Lemma align_up_least s a m : 0 <= s -> 0 < a -> m mod a = 0 -> s <= m -> align_up_now s a <= m.
Proof.
  intros Hs Ha Hm Hle. pose proof (align_up_spec s a Hs Ha) as [H1 H2]. cbn zeta in *.
  set (r := align_up_now s a) in *.
  pose proof (multiple_of a r Ha H1) as Hr. pose proof (multiple_of a m Ha Hm) as Hm'.
  set (qr := r / a) in *. set (qm := m / a) in *.
  assert (qr <= qm) by (apply (mul_lt_cancel a); lia).
  assert (a * qr <= a * qm) by (apply Z.mul_le_mono_nonneg_l; lia). lia.
Qed.

(* BaseValue bounds as regenerated = the declared range *)
Lemma base_value_bad_spec w signed x : (1 <= w)%nat ->
  base_value_bad_now (Z.of_nat w) signed x = negb (int_in_range w signed x).
Proof.
  intros Hw. unfold base_value_bad_now, int_in_range.
  change bv_bits with 8. change bv_one_s with 1. change bv_dec_s with 1. change bv_dec_s2 with 1. change bv_dec_l with 1.
  change bv_one_u with 1. change bv_dec_u with 1. change bv_low_u with 0. change bv_lt_op with Lt. change bv_gt_op with Gt. cbn [cmp].
  rewrite !Z.shiftl_1_l. replace (Z.of_nat w * 8) with (8 * Z.of_nat w) by lia. destruct signed; lia.
Qed.
