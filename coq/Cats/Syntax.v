(* Concrete syntax of the CATS DSL: model of what `create_cats_lark_parser().parse(text)` returns (catparser/CatsLarkParser.py +
   grammar/catbuffer.lark + the constructors of catparser/ast.py), a canonical printer `render`, and a model of the repo's own
   __str__ methods (`repo_print`).  Model file: definitions only (proofs are in SyntaxProofs.v).

   Text is a list of code points / bytes (`list Z`); names and comments inside the descriptors are Coq strings.

   The model is NOT a model of lark's LALR tables.  It is a hand-written parser for the same language, organised the way lark
   sees a CATS text:
     - physical lines (split at LF); a line is blank, a comment line (first non-blank character `#`) or a statement line;
       `_NL` swallows blank lines, MULTILINE_SH_COMMENT swallows directly following comment lines;
     - the Indenter post-lexer (lark/indenter.py) compares the column of the line following an `_NL` with a stack of levels;
     - every statement line is parsed by a recursive-descent parser that is contextual exactly like lark's contextual lexer:
       keyword terminals are tried only where the grammar expects them, as PREFIXES (no word boundary), except where a name
       terminal of the same priority is acceptable in the same state (lark then compares the whole matched word);
     - a line-level state machine plays the part of the LALR automaton (pending comment, pending attributes, open body).
   All closed sets (keywords, attribute names, widths, operators, ...) are fields of the record `terms`, filled from
   Gen/GrammarTerminals.v and Gen/SyntaxOps.v which are REGENERATED from /repo on every run. *)
From Coq Require Import ZArith List Bool String Ascii Lia.
From Symv Require Import Base.Bytes Cats.Ast.
From Symv Require Base.PyOps Gen.GrammarTerminals Gen.SyntaxOps.
Import ListNotations.
Open Scope list_scope.
Open Scope Z_scope.

(* ------------------------------------------------------------------------------------------------------------------ *)
(* results *)

Inductive ekind := EToken | EDedent | EEnd | EFuel.
(* e_col = 0: column not claimed (errors raised at the end of the text carry the column of the last token in lark) *)
Record perr := { e_line : Z; e_col : Z; e_kind : ekind }.
Inductive result (A : Type) := Ok (a : A) | Error (e : perr).
Arguments Ok {A} a. Arguments Error {A} e.
Definition rbind {A B} (x : result A) (f : A -> result B) : result B := match x with Ok a => f a | Error e => Error e end.
Notation "'do' x <- e ; k" := (rbind e (fun x => k)) (at level 200, x pattern, e at level 100, k at level 200, right associativity).

Inductive item := IDecl (d : decl) | IImport (path : string) | IComment (text : string).

(* result of parsing inside one line: value + rest, error at a suffix of the line, or fuel exhausted (never: fuel = length) *)
Inductive lres (A : Type) := LOk (a : A) (rest : list Z) | LErr (at_ : list Z) | LFuel.
Arguments LOk {A} a rest. Arguments LErr {A} at_. Arguments LFuel {A}.
Definition lbind {A B} (x : lres A) (f : A -> list Z -> lres B) : lres B :=
  match x with LOk a r => f a r | LErr s => LErr s | LFuel => LFuel end.
Notation "'let*' ( x , r ) ':=' e 'in' k" := (lbind e (fun x r => k)) (at level 200, x pattern, r name, e at level 100, k at level 200, right associativity).

(* ------------------------------------------------------------------------------------------------------------------ *)
(* characters and raw scanning *)

Definition to_str (l : list Z) : string := fold_right (fun c acc => String (ascii_of_N (Z.to_N c)) acc) EmptyString l.

Definition is_ws (c : Z) : bool := (c =? 32) || (c =? 9).
Definition is_lower (c : Z) : bool := (97 <=? c) && (c <=? 122).
Definition is_upper (c : Z) : bool := (65 <=? c) && (c <=? 90).
Definition is_digit (c : Z) : bool := (48 <=? c) && (c <=? 57).
Definition prop_rest (c : Z) : bool := is_lower c || is_digit c || (c =? 95).
Definition const_rest (c : Z) : bool := is_upper c || is_digit c || (c =? 95).
Definition type_rest (c : Z) : bool := is_upper c || is_lower c || is_digit c.

Fixpoint skip_ws (s : list Z) : list Z := match s with c :: r => if is_ws c then skip_ws r else s | [] => [] end.
Fixpoint span (p : Z -> bool) (s : list Z) : list Z * list Z :=
  match s with c :: r => if p c then let (a, b) := span p r in (c :: a, b) else ([], s) | [] => ([], []) end.
Fixpoint strip_prefix (k s : list Z) : option (list Z) :=
  match k with
  | [] => Some s
  | a :: k' => match s with b :: s' => if a =? b then strip_prefix k' s' else None | [] => None end
  end.
(* the first word of the list that is a prefix (lark: ordered alternation) *)
Fixpoint first_prefix (ks : list (list Z)) (s : list Z) : option (list Z * list Z) :=
  match ks with
  | [] => None
  | k :: ks' => match strip_prefix k s with Some r => Some (k, r) | None => first_prefix ks' s end
  end.
Fixpoint list_eqb (a b : list Z) : bool :=
  match a, b with [], [] => true | x :: a', y :: b' => (x =? y) && list_eqb a' b' | _, _ => false end.
Definition mem (w : list Z) (ws : list (list Z)) : bool := existsb (list_eqb w) ws.
Definition head_is (c : Z) (l : list Z) : bool := match l with d :: _ => c =? d | [] => false end.

Definition lex_class (first : Z -> bool) (second : option (Z -> bool)) (rest : Z -> bool) (rest_min : nat) (s : list Z)
  : option (list Z * list Z) :=
  match s with
  | c :: r =>
    if first c then
      match second with
      | None => let (b, t) := span rest r in if (rest_min <=? length b)%nat then Some (c :: b, t) else None
      | Some second =>
        match r with
        | d :: r2 => if second d then let (b, t) := span rest r2 in if (rest_min <=? length b)%nat then Some (c :: d :: b, t) else None
                     else None
        | [] => None
        end
      end
    else None
  | [] => None
  end.

(* ESCAPED_STRING = "\"" /.*?/ /(?<!\\)(\\\\)*?/ "\"" : up to the first quote preceded by an even number of backslashes *)
Fixpoint scan_string (s : list Z) (even : bool) (acc : list Z) : option (list Z * list Z) :=
  match s with
  | [] => None
  | c :: r => if (c =? 34) && even then Some (rev acc, r)
              else if c =? 10 then None
              else scan_string r (if c =? 92 then negb even else true) (c :: acc)
  end.
Definition raw_string (s : list Z) : option (list Z * list Z) :=
  match s with c :: r => if c =? 34 then scan_string r true [] else None | [] => None end.

Definition num_value (base : Z) (val : Z -> Z) (ds : list Z) : Z := fold_left (fun acc d => acc * base + val d) ds 0.
Definition dec_value (ds : list Z) : Z := num_value 10 (fun c => c - 48) ds.

(* ------------------------------------------------------------------------------------------------------------------ *)
(* the regenerated sets *)

Record terms := {
  kw_import : list Z; kw_using : list Z; kw_enum : list Z; kw_struct : list Z; kw_make_const : list Z; kw_make_reserved : list Z;
  kw_sizeof : list Z; kw_inline_field : list Z; kw_inline_member : list Z; kw_array : list Z; kw_if : list Z; kw_binary_fixed : list Z;
  fill_placeholder : list Z; value_placeholder : list Z; negation : list Z;
  hex_prefix : list Z; hex_lo : Z; hex_hi : Z; int_unsigned_prefix : list Z; int_kw : list Z;
  enum_attr_zero : list (list Z); field_attr_zero : list (list Z); field_attr_alignment : list (list Z);
  alignment_option : list (list Z); field_attr_single : list (list Z); field_attr_sizeref : list (list Z);
  struct_attr_zero : list (list Z); struct_attr_single : list (list Z); struct_attr_two : list (list Z);
  struct_attr_multi : list (list Z); struct_attr_transform : list (list Z); transform_names : list (list Z);
  struct_modifiers : list (list Z); cond_ops : list (list Z); int_widths : list (list Z);
  const_rep_min : nat; prop_rep_min : nat; type_rep_min : nat;
  comment_merged : bool;
  (* ast.py: Comment.__init__ *)
  comment_init : list Z; comment_split : list Z; comment_strip : list Z; comment_blank : list Z; comment_sep : list Z;
  (* ast.py: FixedSizeInteger.__init__ *)
  fsi_unsigned_char : Z; fsi_unsigned_op : PyOps.pyop; fsi_unsigned_index : Z; fsi_skip : Z; fsi_skip_op : PyOps.pyop;
  fsi_skip_unsigned : Z; fsi_skip_signed : Z; fsi_div_op : PyOps.pyop; fsi_div : Z;
  (* CatsLarkParser.py: CatbufferIndenter.tab_len *)
  tab_len : Z;
  (* ast.py: Attribute.__str__ skips lark's None placeholders *)
  attr_str_skips_none : bool
}.

Inductive actx := CEnum | CStruct | CField.
Inductive akind := AkZero | AkAlignment | AkSingle | AkSizeref | AkTwo | AkMulti | AkTransform.
Definition actx_eqb (a b : actx) : bool := match a, b with CEnum, CEnum | CStruct, CStruct | CField, CField => true | _, _ => false end.

Inductive topline :=
| TAttr (ctx : actx) (a : attribute) | TImport (p : string) | TAlias (n : string) (l : linked)
| TEnumHdr (n : string) (b : intty) | TStructHdr (d : sdisp) (n : string).
Inductive memline := MAttr (a : attribute) | MField (n : string) (ty : ftype) (v : fvalue) (d : disposition) | MInline (t : string).
Inductive mfirst := MfModifier | MfKeyword | MfProp | MfOther.

Inductive pattrs := PaNone | PaEnum (l : list attribute) | PaStruct (l : list attribute).
Record shdr := { h_name : string; h_disp : sdisp; h_attrs : option (list attribute); h_comment : option string }.
Record ehdr := { eh_name : string; eh_base : intty; eh_attrs : option (list attribute); eh_comment : option string }.
Inductive pstate :=
| STop (acc : list item) (pc : option string) (pa : pattrs)
| SOpenS (acc : list item) (h : shdr)
| SOpenE (acc : list item) (h : ehdr)
| SBodyS (acc : list item) (h : shdr) (fields : list field) (pc : option string) (pa : option (list attribute))
| SBodyE (acc : list item) (h : ehdr) (vals : list enum_value) (pc : option string).

Record dstate := {
  d_st : pstate;
  d_stack : list Z;                                 (* Indenter.indent_level, top first *)
  d_cb : option (Z * Z * list (list Z));            (* comment token being read: start line, start column, its lines *)
  d_prevc : bool;                                   (* the previous physical line was a comment line *)
  d_end : Z * Z;                                    (* where the _NL token after the previous logical line starts *)
  d_first : bool                                    (* no logical line seen yet *)
}.

Definition mk_array (e : elemty) (sz : asize) : array :=
  {| a_elem := e; a_size := sz; a_sort_key := None; a_byte_constrained := false; a_alignment := None; a_last_padded := None |}.
Definition mk_struct (h : shdr) (fields : list field) : decl :=
  DStruct {| s_name := h_name h; s_disp := h_disp h; s_fields := fields; s_factory_type := None; s_attrs := h_attrs h;
             s_comment := h_comment h; s_requires_unaligned := false |}.
Definition mk_enum (h : ehdr) (vals : list enum_value) : decl := DEnum (eh_name h) (eh_base h) vals (eh_attrs h) (eh_comment h).
Definition opt_comment (pc : option string) : list item := match pc with Some c => [IComment c] | None => [] end.
Definition code_abstract : list Z := [97; 98; 115; 116; 114; 97; 99; 116].
Definition code_inline : list Z := [105; 110; 108; 105; 110; 101].
Definition sdisp_of (m : list Z) : sdisp := if list_eqb m code_abstract then SdAbstract else SdInline.

Section Model.
Variable T : terms.

(* --- tokens (the argument has its leading blanks already skipped) *)
Definition raw_prop := lex_class is_lower None prop_rest (prop_rep_min T).
Definition raw_const := lex_class is_upper None const_rest (const_rep_min T).
Definition raw_type := lex_class is_upper (Some is_lower) type_rest (type_rep_min T).

Definition hex_digit_ok (c : Z) : bool := is_digit c || ((hex_lo T <=? c) && (c <=? hex_hi T)).
Definition hex_val (c : Z) : Z := if is_digit c then c - 48 else c - hex_lo T + 10.
Definition raw_dec (s : list Z) : option (Z * list Z) :=
  let (b, t) := span is_digit s in match b with [] => None | _ => Some (dec_value b, t) end.
(* HEX_NUMBER is tried before DEC_NUMBER (lark orders equal-priority terminals by pattern length) *)
Definition raw_number (s : list Z) : option (Z * list Z) :=
  match strip_prefix (hex_prefix T) s with
  | Some r => let (b, t) := span hex_digit_ok r in match b with [] => raw_dec s | _ => Some (num_value 16 hex_val b, t) end
  | None => raw_dec s
  end.

(* FixedSizeInteger.__init__ *)
Definition fsi_of_text (text : list Z) : intty :=
  let uns := PyOps.cmp (fsi_unsigned_op T) (fsi_unsigned_char T) (nth (Z.to_nat (fsi_unsigned_index T)) text (-1)) in
  let start := PyOps.ev2 (fsi_skip_op T) (fsi_skip T) (if uns then fsi_skip_unsigned T else fsi_skip_signed T) in
  {| it_unsigned := uns; it_size := PyOps.ev2 (fsi_div_op T) (dec_value (skipn (Z.to_nat start) text)) (fsi_div T); it_sizeref := None |}.
(* FIXED_SIZE_INTEGER.1: ["u"] "int" ("8" | "16" | "32" | "64") -- one terminal, no blanks inside *)
Definition raw_intty (s : list Z) : option (intty * list Z) :=
  let with_kw (pre : list Z) (r : list Z) :=
    match first_prefix (int_widths T) r with Some (w, r') => Some (fsi_of_text (pre ++ int_kw T ++ w), r') | None => None end in
  match strip_prefix (int_unsigned_prefix T ++ int_kw T) s with
  | Some r => with_kw (int_unsigned_prefix T) r
  | None => match strip_prefix (int_kw T) s with Some r => with_kw [] r | None => None end
  end.

Definition tok {A} (f : list Z -> option (A * list Z)) (s : list Z) : lres A :=
  let s' := skip_ws s in match f s' with Some (a, r) => LOk a r | None => LErr s' end.
Definition expect (k : list Z) (s : list Z) : lres unit :=
  let s' := skip_ws s in match strip_prefix k s' with Some r => LOk tt r | None => LErr s' end.
Definition finish {A} (a : A) (s : list Z) : lres A := match skip_ws s with [] => LOk a [] | s' => LErr s' end.

(* _integer_or_enum_const *)
Definition p_int_or_enum_const (s : list Z) : lres (ftype * fvalue) :=
  match raw_intty (skip_ws s) with
  | Some (i, r) => let* (_, r) := expect [44] r in let* (n, r) := tok raw_number r in LOk (FInt i, VNum n) r
  | None => let* (n, r) := tok raw_type s in let* (_, r) := expect [44] r in let* (c, r) := tok raw_const r in
            LOk (FName (to_str n), VName (to_str c)) r
  end.

(* array_expression after "array" *)
Definition p_array (s : list Z) : lres array :=
  let* (_, r) := expect [40] s in
  let* (e, r) := (match raw_intty (skip_ws r) with
                  | Some (i, r') => LOk (ElInt i) r'
                  | None => let* (n, r') := tok raw_type r in LOk (ElName (to_str n)) r'
                  end) in
  let* (_, r) := expect [44] r in
  let* (sz, r) := (let r0 := skip_ws r in
                   match raw_prop r0 with
                   | Some (n, r') => LOk (SzName (to_str n)) r'
                   | None => match raw_number r0 with
                             | Some (n, r') => LOk (SzNum n) r'
                             | None => match strip_prefix (fill_placeholder T) r0 with Some r' => LOk SzFill r' | None => LErr r0 end
                             end
                   end) in
  let* (_, r) := expect [41] r in
  LOk (mk_array e sz) r.

(* [conditional_expression] *)
Definition p_cond_opt (s : list Z) : lres fvalue :=
  match strip_prefix (kw_if T) (skip_ws s) with
  | None => LOk VNone s
  | Some r =>
    let* (cv, r) := (match raw_number (skip_ws r) with
                     | Some (n, r') => LOk (CvNum n) r'
                     | None => let* (c, r') := tok raw_const r in LOk (CvName (to_str c)) r'
                     end) in
    let* (op, r) := tok (first_prefix (cond_ops T)) r in
    let* (l, r) := tok raw_prop r in
    LOk (VCond {| c_value := cv; c_op := to_str op; c_link := to_str l |}) r
  end.

(* struct_field after `name =` *)
Definition p_field_tail (s : list Z) : lres (ftype * fvalue) :=
  let s0 := skip_ws s in
  let* (ty, r) := (match raw_type s0 with
                   | Some (n, r) => LOk (FName (to_str n)) r
                   | None => match raw_intty s0 with
                             | Some (i, r) => LOk (FInt i) r
                             | None => match strip_prefix (kw_array T) s0 with
                                       | Some r => let* (a, r) := p_array r in LOk (FArray a) r
                                       | None => LErr s0
                                       end
                             end
                   end) in
  let* (v, r) := p_cond_opt r in
  finish (ty, v) r.

(* ("," PROPERTY_NAME)* *)
Fixpoint p_props_rest (fuel : nat) (s : list Z) : lres (list avalue) :=
  match fuel with
  | O => LFuel
  | S f => match strip_prefix [44] (skip_ws s) with
           | None => LOk [] s
           | Some r => let* (v, r) := tok raw_prop r in let* (vs, r) := p_props_rest f r in LOk (AvStr (to_str v) :: vs) r
           end
  end.
(* PROPERTY_NAME ["!" TRANSFORM_NAME] ("," PROPERTY_NAME ["!" TRANSFORM_NAME])* *)
Fixpoint p_pairs (fuel : nat) (s : list Z) : lres (list avalue) :=
  match fuel with
  | O => LFuel
  | S f =>
    let* (v, r) := tok raw_prop s in
    let* (t, r) := (match strip_prefix [33] (skip_ws r) with
                    | Some r' => let* (t, r'') := tok (first_prefix (transform_names T)) r' in LOk (AvStr (to_str t)) r''
                    | None => LOk AvNone r
                    end) in
    match strip_prefix [44] (skip_ws r) with
    | Some r' => let* (vs, r'') := p_pairs f r' in LOk (AvStr (to_str v) :: t :: vs) r''
    | None => LOk [AvStr (to_str v); t] r
    end
  end.

(* the argument list of an attribute (after its name), through the end of the line *)
Definition p_attr_args (k : akind) (s : list Z) : lres (list avalue) :=
  match k with
  | AkZero => finish [] s
  | _ =>
    let* (_, r) := expect [40] s in
    let* (vals, r) :=
      (match k with
       | AkAlignment =>
         let* (n, r) := tok raw_number r in
         match strip_prefix [44] (skip_ws r) with
         | None => LOk [AvNum n; AvNone; AvNone] r
         | Some r' =>
           let r0 := skip_ws r' in
           let (neg, r1) := match strip_prefix (negation T) r0 with Some r1 => (AvStr (to_str (negation T)), r1) | None => (AvNone, r0) end in
           let* (o, r2) := tok (first_prefix (alignment_option T)) r1 in
           LOk [AvNum n; neg; AvStr (to_str o)] r2
         end
       | AkSingle => let* (v, r) := tok raw_prop r in LOk [AvStr (to_str v)] r
       | AkSizeref =>
         let* (v, r) := tok raw_prop r in
         match strip_prefix [44] (skip_ws r) with
         | None => LOk [AvStr (to_str v)] r
         | Some r' => let* (n, r'') := tok raw_number r' in LOk [AvStr (to_str v); AvNum n] r''
         end
       | AkTwo => let* (v, r) := tok raw_prop r in let* (_, r) := expect [44] r in let* (c, r) := tok raw_const r in
                  LOk [AvStr (to_str v); AvStr (to_str c)] r
       | AkMulti => let* (v, r) := tok raw_prop r in let* (vs, r) := p_props_rest (S (length r)) r in LOk (AvStr (to_str v) :: vs) r
       | AkTransform => p_pairs (S (length r)) r
       | AkZero => LOk [] r
       end) in
    let* (_, r) := expect [41] r in
    finish vals r
  end.

Definition attr_tables (ctx : option actx) : list (actx * akind * list (list Z)) :=
  let e := [(CEnum, AkZero, enum_attr_zero T)] in
  let s := [(CStruct, AkZero, struct_attr_zero T); (CStruct, AkSingle, struct_attr_single T); (CStruct, AkTwo, struct_attr_two T);
            (CStruct, AkMulti, struct_attr_multi T); (CStruct, AkTransform, struct_attr_transform T)] in
  match ctx with
  | None => e ++ s
  | Some CEnum => e
  | Some CStruct => s
  | Some CField => [(CField, AkZero, field_attr_zero T); (CField, AkAlignment, field_attr_alignment T);
                    (CField, AkSingle, field_attr_single T); (CField, AkSizeref, field_attr_sizeref T)]
  end.
Fixpoint find_attr (tables : list (actx * akind * list (list Z))) (s : list Z) : option (actx * akind * list Z * list Z) :=
  match tables with
  | [] => None
  | (c, k, names) :: rest => match first_prefix names s with Some (n, r) => Some (c, k, n, r) | None => find_attr rest s end
  end.
(* an attribute line after "@" *)
Definition p_attr (ctx : option actx) (s : list Z) : lres (actx * attribute) :=
  let s0 := skip_ws s in
  match find_attr (attr_tables ctx) s0 with
  | None => LErr s0
  | Some (c, k, n, r) => let* (vals, r') := p_attr_args k r in LOk (c, {| at_name := to_str n; at_values := vals |}) r'
  end.

(* the first token of a line as lexed in the LALR state after a comment line of the SHIPPED grammar (comment_merged):
   STRUCT_MODIFIER has priority 1 and is matched as a prefix; PROPERTY_NAME covers the plain keywords *)
Definition merged_first (s0 : list Z) : mfirst :=
  match first_prefix (struct_modifiers T) s0 with
  | Some _ => MfModifier
  | None => match raw_prop s0 with
            | Some (n, _) => if mem n [kw_using T; kw_enum T; kw_struct T; kw_import T] then MfKeyword else MfProp
            | None => MfOther
            end
  end.

Definition parse_top_line (pa : option actx) (ac : bool) (s : list Z) : lres topline :=
  let s0 := skip_ws s in
  let none := match pa with None => true | _ => false end in
  if comment_merged T && ac && match merged_first s0 with MfProp => true | _ => false end then LErr s0 else
  match strip_prefix [64] s0 with
  | Some r => let* (ca, r') := p_attr pa r in LOk (TAttr (fst ca) (snd ca)) r'
  | None =>
  match (if none then strip_prefix (kw_import T) s0 else None) with
  | Some r => let* (p, r) := tok raw_string r in finish (TImport (to_str p)) r
  | None =>
  match (if none then strip_prefix (kw_using T) s0 else None) with
  | Some r =>
    let* (n, r) := tok raw_type r in
    let* (_, r) := expect [61] r in
    match raw_intty (skip_ws r) with
    | Some (i, r') => finish (TAlias (to_str n) (LInt i)) r'
    | None =>
      let* (_, r) := expect (kw_binary_fixed T) r in
      let* (_, r) := expect [40] r in
      let* (size, r) := tok raw_number r in
      let* (_, r) := expect [41] r in
      finish (TAlias (to_str n) (LBuffer size)) r
    end
  | None =>
  match (if none || match pa with Some CEnum => true | _ => false end then strip_prefix (kw_enum T) s0 else None) with
  | Some r =>
    let* (n, r) := tok raw_type r in
    let* (_, r) := expect [58] r in
    let* (b, r) := tok raw_intty r in
    finish (TEnumHdr (to_str n) b) r
  | None =>
    if none || match pa with Some CStruct => true | _ => false end then
      let (d, s1) := match first_prefix (struct_modifiers T) s0 with Some (m, r) => (sdisp_of m, r) | None => (SdNone, s0) end in
      let* (_, r) := expect (kw_struct T) s1 in
      let* (n, r) := tok raw_type r in
      finish (TStructHdr d (to_str n)) r
    else LErr s0
  end end end end.

Definition parse_member_line (pa : bool) (ac : bool) (s : list Z) : lres memline :=
  let s0 := skip_ws s in
  if comment_merged T && ac && match merged_first s0 with MfModifier | MfKeyword => true | _ => false end then LErr s0 else
  match strip_prefix [64] s0 with
  | Some r => let* (ca, r') := p_attr (Some CField) r in LOk (MAttr (snd ca)) r'
  | None =>
  match strip_prefix (value_placeholder T) s0 with
  | Some r => let* (_, r) := expect [61] r in let* (tv, r) := p_field_tail r in
              LOk (MField (to_str (value_placeholder T)) (fst tv) (snd tv) DispNone) r
  | None =>
  match raw_prop s0 with
  | Some (n, rest) =>
    if negb pa && list_eqb n (kw_inline_member T) then let* (t, r) := tok raw_type rest in finish (MInline (to_str t)) r
    else
      let* (_, r) := expect [61] rest in
      let plain := let* (tv, r) := p_field_tail r in LOk (MField (to_str n) (fst tv) (snd tv) DispNone) r in
      if pa then plain else
      let r0 := skip_ws r in
      match strip_prefix (kw_make_reserved T) r0 with
      | Some r1 => let* (_, r1) := expect [40] r1 in let* (tv, r1) := p_int_or_enum_const r1 in let* (_, r1) := expect [41] r1 in
                   finish (MField (to_str n) (fst tv) (snd tv) DispReserved) r1
      | None =>
      match strip_prefix (kw_sizeof T) r0 with
      | Some r1 => let* (_, r1) := expect [40] r1 in let* (i, r1) := tok raw_intty r1 in let* (_, r1) := expect [44] r1 in
                   let* (v, r1) := tok raw_prop r1 in let* (_, r1) := expect [41] r1 in
                   finish (MField (to_str n) (FInt i) (VName (to_str v)) DispSizeof) r1
      | None =>
      match strip_prefix (kw_inline_field T) r0 with
      | Some r1 => let* (t, r1) := tok raw_type r1 in finish (MField (to_str n) (FName (to_str t)) VNone DispInline) r1
      | None => plain
      end end end
  | None =>
    if pa then LErr s0 else
    match raw_const s0 with
    | Some (n, rest) =>
      let* (_, r) := expect [61] rest in let* (_, r) := expect (kw_make_const T) r in let* (_, r) := expect [40] r in
      let* (tv, r) := p_int_or_enum_const r in let* (_, r) := expect [41] r in
      finish (MField (to_str n) (fst tv) (snd tv) DispConst) r
    | None => LErr s0
    end
  end end end.

Definition parse_enum_line (s : list Z) : lres (string * Z) :=
  let* (n, r) := tok raw_const s in let* (_, r) := expect [61] r in let* (v, r) := tok raw_number r in finish (to_str n, v) r.

(* --- Comment.__init__ on the lines of one MULTILINE_SH_COMMENT token *)
Definition in_set (set : list Z) (c : Z) : bool := existsb (Z.eqb c) set.
Fixpoint lstrip (set : list Z) (s : list Z) : list Z := match s with c :: r => if in_set set c then lstrip set r else s | [] => [] end.
Fixpoint rstrip (set : list Z) (s : list Z) : list Z :=
  match s with
  | [] => []
  | c :: r => match rstrip set r with [] => if in_set set c then [] else [c] | r' => c :: r' end
  end.
Definition py_strip (set s : list Z) : list Z := rstrip set (lstrip set s).
Fixpoint comment_go (lines : list (list Z)) (sep : bool) : list Z :=
  match lines with
  | [] => []
  | l :: rest => match py_strip (comment_strip T) l with
                 | [] => comment_blank T ++ comment_go rest false
                 | t => (if sep then comment_sep T else []) ++ t ++ comment_go rest true
                 end
  end.
Definition comment_parse (lines : list (list Z)) : string := to_str (comment_init T ++ comment_go lines false).

(* --- the line-level automaton (plays the part of the LALR parser; position-free) *)
Inductive mbody := MComment (lines : list (list Z)) | MStmt (core : list Z).
(* a logical line: one statement line, or one MULTILINE_SH_COMMENT token (its physical lines), with the column of the line
   that follows its _NL token (None: the text ends without a line feed) *)
Record mline := { m_body : mbody; m_next : option Z }.

(* where and why the automaton stopped: index of the logical line + detail *)
Inductive mdetail :=
| DStmt (suffix : nat)      (* inside the statement line, `suffix` characters before its end *)
| DComment                  (* the comment token is not acceptable *)
| DAfter (k : ekind)        (* at the _NL token that ends the line: unexpected _INDENT / _DEDENT / $END, or DedentError *)
| DNoNl                     (* the line is not terminated *)
| DFuel.
Inductive mres (A : Type) := MOk (a : A) | MErr (i : nat) (d : mdetail).
Arguments MOk {A} a. Arguments MErr {A} i d.
Inductive sres (A : Type) := SOk (a : A) | SErr (d : mdetail).
Arguments SOk {A} a. Arguments SErr {A} d.
Definition sbind {A B} (x : sres A) (f : A -> sres B) : sres B := match x with SOk a => f a | SErr d => SErr d end.
Notation "'dos' x <- e ; k" := (sbind e (fun x => k)) (at level 200, x pattern, e at level 100, k at level 200, right associativity).

Definition on_comment (st : pstate) (c : string) : sres pstate :=
  match st with
  | STop acc pc PaNone => SOk (STop (acc ++ opt_comment pc) (Some c) PaNone)
  | SBodyS acc h fields pc None => SOk (SBodyS acc h fields (Some c) None)
  | SBodyE acc h vals pc => SOk (SBodyE acc h vals (Some c))
  | _ => SErr DComment
  end.

Definition ev_indent (st : pstate) : sres pstate :=
  match st with
  | SOpenS acc h => SOk (SBodyS acc h [] None None)
  | SOpenE acc h => SOk (SBodyE acc h [] None)
  | _ => SErr (DAfter EToken)
  end.
Definition ev_dedent (st : pstate) : sres pstate :=
  match st with
  | SBodyS acc h fields pc None => SOk (STop (acc ++ [IDecl (mk_struct h fields)]) None PaNone)
  | SBodyE acc h vals pc => SOk (STop (acc ++ [IDecl (mk_enum h vals)]) None PaNone)
  | _ => SErr (DAfter EToken)
  end.
(* an enum header not followed by an indented block is a complete enum *)
Definition close_enum (st : pstate) : pstate :=
  match st with SOpenE acc h => STop (acc ++ [IDecl (mk_enum h [])]) None PaNone | _ => st end.

(* Indenter.handle_NL (lark/indenter.py) after the _NL token has been accepted; w = column of the following line *)
Fixpoint dedents (st : pstate) (stack : list Z) (w : Z) : sres (pstate * list Z) :=
  match stack with
  | top :: rest =>
    if w <? top then dos st' <- ev_dedent st; dedents st' rest w
    else if w =? top then SOk (st, stack)
    else SErr (DAfter EDedent)
  | [] => SErr (DAfter EDedent)
  end.
Definition on_indent (st : pstate) (stack : list Z) (w : Z) : sres (pstate * list Z) :=
  match stack with
  | top :: _ => if top <? w then dos st' <- ev_indent st; SOk (st', w :: stack) else dedents (close_enum st) stack w
  | [] => SErr (DAfter EDedent)
  end.

Definition pa_ctx (pa : pattrs) : option actx := match pa with PaNone => None | PaEnum _ => Some CEnum | PaStruct _ => Some CStruct end.
Definition pa_add (pa : pattrs) (c : actx) (a : attribute) : pattrs :=
  match pa with
  | PaNone => match c with CEnum => PaEnum [a] | _ => PaStruct [a] end
  | PaEnum l => PaEnum (l ++ [a])
  | PaStruct l => PaStruct (l ++ [a])
  end.
Definition pa_list (pa : pattrs) : option (list attribute) := match pa with PaNone => None | PaEnum l | PaStruct l => Some l end.

Definition of_lres {A} (r : lres A) : sres A :=
  match r with LOk a _ => SOk a | LErr s => SErr (DStmt (length s)) | LFuel => SErr DFuel end.

Definition on_stmt (st : pstate) (ac : bool) (content : list Z) : sres pstate :=
  match st with
  | STop acc pc pa =>
    dos t <- of_lres (parse_top_line (pa_ctx pa) ac content);
    SOk (match t with
         | TAttr c a => STop acc pc (pa_add pa c a)
         | TImport p => STop (acc ++ opt_comment pc ++ [IImport p]) None PaNone
         | TAlias n l => STop (acc ++ [IDecl (DAlias n l pc)]) None PaNone
         | TEnumHdr n b => SOpenE acc {| eh_name := n; eh_base := b; eh_attrs := pa_list pa; eh_comment := pc |}
         | TStructHdr d n => SOpenS acc {| h_name := n; h_disp := d; h_attrs := pa_list pa; h_comment := pc |}
         end)
  | SBodyS acc h fields pc pa =>
    dos m <- of_lres (parse_member_line (match pa with Some _ => true | None => false end) ac content);
    SOk (match m with
         | MAttr a => SBodyS acc h fields pc (Some (match pa with Some l => l ++ [a] | None => [a] end))
         | MField n ty v d => SBodyS acc h (fields ++ [Field n ty v d pa pc]) None None
         | MInline t => SBodyS acc h (fields ++ [InlinePlaceholder t pc]) None None
         end)
  | SBodyE acc h vals pc =>
    dos nv <- of_lres (parse_enum_line content);
    SOk (SBodyE acc h (vals ++ [{| ev_name := fst nv; ev_value := snd nv; ev_comment := pc |}]) None)
  | SOpenS _ _ | SOpenE _ _ => SErr (DStmt (length content))
  end.

(* the text of a comment token starts at its `#`; its further lines keep their indentation *)
Definition comment_text_lines (lines : list (list Z)) : list (list Z) :=
  match lines with l :: rest => skip_ws l :: rest | [] => [] end.

Definition deliver (st : pstate) (ac : bool) (b : mbody) : sres pstate :=
  match b with
  | MComment lines => on_comment st (comment_parse (comment_text_lines lines))
  | MStmt core => on_stmt st ac core
  end.
Definition is_comment (b : mbody) : bool := match b with MComment _ => true | MStmt _ => false end.

Fixpoint eof_dedents (st : pstate) (stack : list Z) : sres pstate :=
  match stack with
  | _ :: (_ :: _) as rest => dos st' <- ev_dedent st; eof_dedents st' rest
  | _ => SOk st
  end.

Definition lift {A} (i : nat) (x : sres A) : mres A := match x with SOk a => MOk a | SErr d => MErr i d end.

(* i = index of the logical line at the head of ls *)
Fixpoint machine (st : pstate) (stack : list Z) (ac : bool) (i : nat) (ls : list mline) : mres (list item) :=
  match ls with
  | [] =>
    match eof_dedents st stack with
    | SOk (STop acc pc PaNone) => match acc ++ opt_comment pc with [] => MErr (pred i) (DAfter EEnd) | items => MOk items end
    | SOk _ => MErr (pred i) (DAfter EEnd)
    | SErr d => MErr (pred i) d
    end
  | L :: rest =>
    match deliver st ac (m_body L) with
    | SErr d => MErr i d
    | SOk st1 =>
      match m_next L with
      | None => MErr i DNoNl
      | Some w =>
        match on_indent st1 stack w with
        | SErr d => MErr i d
        | SOk (st2, stack2) => machine st2 stack2 (is_comment (m_body L)) (S i) rest
        end
      end
    end
  end.

(* --- physical lines -> logical lines *)
Definition ws_width (ws : list Z) : Z :=
  fold_right (fun c acc => (if c =? 32 then 1 else if c =? 9 then tab_len T else 0) + acc) 0 ws.

Fixpoint drop_last_cr (s : list Z) : list Z :=
  match s with [] => [] | [c] => if c =? 13 then [] else [c] | c :: r => c :: drop_last_cr r end.

Definition len (s : list Z) : Z := Z.of_nat (length s).

(* kind of a physical line that is followed by a line feed *)
Inductive pkind := KBlank | KComment | KStmt (core : list Z).
Definition classify (p : list Z) : list Z * pkind :=
  let (ws, body) := span is_ws p in
  (ws, match drop_last_cr body with [] => KBlank | (c :: _) as core => if c =? 35 then KComment else KStmt core end).
Definition classify_tail (tail : list Z) : list Z * pkind :=
  let (ws, body) := span is_ws tail in
  (ws, match body with [] => KBlank | c :: _ => if c =? 35 then KComment else KStmt body end).

(* look-ahead: Indenter column of the next non-blank line (of the trailing blanks when there is none) ... *)
Fixpoint peek_indent (ps : list (list Z)) (tail : list Z) : Z :=
  match ps with
  | [] => ws_width (fst (classify_tail tail))
  | p :: rest => match classify p with (_, KBlank) => peek_indent rest tail | (ws, _) => ws_width ws end
  end.
(* ... and whether the very next physical line is a comment line (it then belongs to the same comment token) *)
Definition peek_comment (ps : list (list Z)) (tail : list Z) : bool :=
  match (match ps with [] => snd (classify_tail tail) | p :: _ => snd (classify p) end) with KComment => true | _ => false end.

Definition add_comment_line (p : list Z) (ls : list mline) : list mline :=
  match ls with
  | {| m_body := MComment lines; m_next := n |} :: ls' => {| m_body := MComment (p :: lines); m_next := n |} :: ls'
  | _ => ls
  end.

(* ps: the physical lines that end with a line feed; tail: what follows the last line feed *)
Fixpoint mgroup (ps : list (list Z)) (tail : list Z) : list mline :=
  match ps with
  | [] =>
    match classify_tail tail with
    | (_, KBlank) => []
    | (_, KComment) => [ {| m_body := MComment [tail]; m_next := None |} ]
    | (_, KStmt core) => [ {| m_body := MStmt core; m_next := None |} ]
    end
  | p :: rest =>
    let ls := mgroup rest tail in
    match classify p with
    | (_, KBlank) => ls
    | (_, KComment) =>
      if peek_comment rest tail then add_comment_line p ls
      else {| m_body := MComment [p]; m_next := Some (peek_indent rest tail) |} :: ls
    | (_, KStmt core) => {| m_body := MStmt core; m_next := Some (peek_indent rest tail) |} :: ls
    end
  end.

(* the same grouping with the positions lark reports *)
Record lline := {
  l_line : Z;              (* physical line where it starts *)
  l_col0 : Z;              (* column of its first character *)
  l_end : Z * Z;           (* where its _NL token starts *)
  l_m : mline
}.
Definition add_comment_pos (ln col0 : Z) (p : list Z) (ls : list lline) : list lline :=
  match ls with
  | L :: ls' => {| l_line := ln; l_col0 := col0; l_end := l_end L;
                   l_m := match add_comment_line p [l_m L] with m :: _ => m | [] => l_m L end |} :: ls'
  | [] => []
  end.
Fixpoint group (ln : Z) (ps : list (list Z)) (tail : list Z) : list lline :=
  match ps with
  | [] =>
    match classify_tail tail with
    | (_, KBlank) => []
    | (ws, _) => map (fun m => {| l_line := ln; l_col0 := len ws + 1; l_end := (ln, len tail + 1); l_m := m |}) (mgroup [] tail)
    end
  | p :: rest =>
    let ls := group (ln + 1) rest tail in
    match classify p with
    | (_, KBlank) => ls
    | (ws, KComment) =>
      if peek_comment rest tail then add_comment_pos ln (len ws + 1) p ls
      else {| l_line := ln; l_col0 := len ws + 1; l_end := (ln, len p + 1);
              l_m := {| m_body := MComment [p]; m_next := Some (peek_indent rest tail) |} |} :: ls
    | (ws, KStmt core) =>
      {| l_line := ln; l_col0 := len ws + 1; l_end := (ln, len ws + len core + 1);
         l_m := {| m_body := MStmt core; m_next := Some (peek_indent rest tail) |} |} :: ls
    end
  end.

Fixpoint split_lf (s : list Z) : list Z * list (list Z) :=
  (* (first piece, further pieces): the text is first ++ concat (map (cons 10) further) *)
  match s with
  | [] => ([], [])
  | c :: r => let (p, ps) := split_lf r in if c =? 10 then ([], p :: ps) else (c :: p, ps)
  end.

Fixpoint pieces_tail (p : list Z) (ps : list (list Z)) : list (list Z) * list Z :=
  match ps with [] => ([], p) | q :: r => let (a, t) := pieces_tail q r in (p :: a, t) end.

(* the position lark reports for a stop of the automaton *)
Definition pos_of (ls : list lline) (i : nat) (d : mdetail) : perr :=
  match nth_error ls i with
  | Some L =>
    match d with
    | DStmt n => {| e_line := l_line L;
                    e_col := match m_body (l_m L) with MStmt core => l_col0 L + len core - Z.of_nat n | MComment _ => l_col0 L end;
                    e_kind := EToken |}
    | DComment => {| e_line := l_line L; e_col := l_col0 L; e_kind := EToken |}
    | DAfter k => {| e_line := fst (l_end L); e_col := snd (l_end L); e_kind := k |}
    | DNoNl => {| e_line := l_line L; e_col := 0; e_kind := EEnd |}
    | DFuel => {| e_line := l_line L; e_col := 0; e_kind := EFuel |}
    end
  | None => {| e_line := 1; e_col := 1; e_kind := EEnd |}
  end.

Definition is_blank_piece (p : list Z) : bool := match snd (classify p) with KBlank => true | _ => false end.

Definition parse_with (text : list Z) : result (list item) :=
  let (p, ps) := split_lf text in
  let (pieces, tail) := pieces_tail p ps in
  match pieces with
  | p0 :: _ =>
    (* a text cannot start with an _NL token *)
    if is_blank_piece p0 then Error {| e_line := 1; e_col := len (fst (span is_ws p0)) + 1; e_kind := EToken |} else
    let ls := group 1 pieces tail in
    match machine (STop [] None PaNone) [0] false 0 (map l_m ls) with MOk v => Ok v | MErr i d => Error (pos_of ls i d) end
  | [] =>
    let ls := group 1 pieces tail in
    match machine (STop [] None PaNone) [0] false 0 (map l_m ls) with MOk v => Ok v | MErr i d => Error (pos_of ls i d) end
  end.

(* ------------------------------------------------------------------------------------------------------------------ *)
(* printing *)

Record style := {
  st_crlf : bool;             (* line ends CR LF instead of LF *)
  st_indent : list Z;         (* indentation of members: any non-empty run of blanks and tabs *)
  st_hex : Z -> bool;         (* which numerals are written in hexadecimal *)
  st_blank_top : nat;         (* blank lines after every top-level statement *)
  st_blank_member : nat       (* blank lines after every member *)
}.
Definition wf_style (st : style) : bool := match st_indent st with [] => false | l => forallb is_ws l end.

Fixpoint digits_fuel (base : Z) (dig : Z -> Z) (fuel : nat) (n : Z) : list Z :=
  match fuel with
  | O => []
  | S f => if n <? base then [dig n] else digits_fuel base dig f (n / base) ++ [dig (n mod base)]
  end.
Definition digits (base : Z) (dig : Z -> Z) (n : Z) : list Z := digits_fuel base dig (S (Z.to_nat (Z.log2 n))) n.
Definition dec_char (d : Z) : Z := 48 + d.
Definition hex_char (d : Z) : Z := if d <? 10 then 48 + d else hex_lo T + (d - 10).
Definition r_dec (n : Z) : list Z := digits 10 dec_char n.
Definition r_num (st : style) (n : Z) : list Z := if st_hex st n then hex_prefix T ++ digits 16 hex_char n else r_dec n.

(* a comment text as comment lines: one `# segment` line per LF-separated segment, a bare `#` line for every LF *)
Definition seg_line (seg : list Z) : list (list Z) := match seg with [] => [] | _ => [[35; 32] ++ seg] end.
Fixpoint clines_rest (segs : list (list Z)) : list (list Z) :=
  match segs with [] => [] | s :: r => [35] :: seg_line s ++ clines_rest r end.
Definition clines (c : option string) : list (list Z) :=
  match c with None => [] | Some c => let (s, r) := split_lf (of_string c) in seg_line s ++ clines_rest r end.

Definition r_int (i : intty) : list Z :=
  (if it_unsigned i then int_unsigned_prefix T else []) ++ int_kw T ++ r_dec (8 * it_size i).
Definition r_linked (st : style) (l : linked) : list Z :=
  match l with LInt i => r_int i | LBuffer n => kw_binary_fixed T ++ [40] ++ r_num st n ++ [41] end.
Definition r_array (st : style) (a : array) : list Z :=
  kw_array T ++ [40] ++ (match a_elem a with ElInt i => r_int i | ElName n => of_string n end) ++ [44; 32]
  ++ (match a_size a with SzNum n => r_num st n | SzName n => of_string n | SzFill => fill_placeholder T end) ++ [41].
Definition r_ftype (st : style) (t : ftype) : list Z :=
  match t with FInt i => r_int i | FName n => of_string n | FArray a => r_array st a end.
Definition r_fvalue (st : style) (v : fvalue) : list Z :=
  match v with
  | VNone => []
  | VNum n => r_num st n
  | VName n => of_string n
  | VCond c => kw_if T ++ [32] ++ (match c_value c with CvNum n => r_num st n | CvName n => of_string n end) ++ [32]
               ++ of_string (c_op c) ++ [32] ++ of_string (c_link c)
  end.

Fixpoint join (sep : list Z) (l : list (list Z)) : list Z :=
  match l with [] => [] | [x] => x | x :: r => x ++ sep ++ join sep r end.
Definition r_avalue (st : style) (v : avalue) : list Z := match v with AvNum n => r_num st n | AvStr s => of_string s | AvNone => [] end.
Fixpoint r_pairs (st : style) (vals : list avalue) : list (list Z) :=
  match vals with
  | v :: t :: r => (r_avalue st v ++ match t with AvNone => [] | _ => [33] ++ r_avalue st t end) :: r_pairs st r
  | _ => []
  end.
Definition attr_kind (ctx : actx) (name : list Z) : option akind :=
  match find (fun t => mem name (snd t)) (attr_tables (Some ctx)) with Some (_, k, _) => Some k | None => None end.
Definition r_attr (st : style) (ctx : actx) (a : attribute) : list Z :=
  [64] ++ of_string (at_name a) ++
  match at_values a with
  | [] => []
  | vals =>
    [40] ++ (match attr_kind ctx (of_string (at_name a)), vals with
             | Some AkAlignment, [n; neg; opt] =>
               r_avalue st n ++ match opt with
                                | AvNone => []
                                | _ => [44; 32] ++ (match neg with AvNone => [] | _ => r_avalue st neg ++ [32] end) ++ r_avalue st opt
                                end
             | Some AkTransform, _ => join [44; 32] (r_pairs st vals)
             | _, _ => join [44; 32] (map (r_avalue st) vals)
             end) ++ [41]
  end.
Definition r_attrs (st : style) (ctx : actx) (attrs : option (list attribute)) : list (list Z) :=
  match attrs with None => [] | Some l => map (r_attr st ctx) l end.

Definition r_field (st : style) (f : field) : list Z :=
  match f with
  | InlinePlaceholder t _ => kw_inline_member T ++ [32] ++ of_string t
  | Field n ty v d _ _ =>
    of_string n ++ [32; 61; 32] ++
    match d with
    | DispNone => r_ftype st ty ++ match v with VNone => [] | _ => [32] ++ r_fvalue st v end
    | DispConst => kw_make_const T ++ [40] ++ r_ftype st ty ++ [44; 32] ++ r_fvalue st v ++ [41]
    | DispReserved => kw_make_reserved T ++ [40] ++ r_ftype st ty ++ [44; 32] ++ r_fvalue st v ++ [41]
    | DispSizeof => kw_sizeof T ++ [40] ++ r_ftype st ty ++ [44; 32] ++ r_fvalue st v ++ [41]
    | DispInline => kw_inline_field T ++ [32] ++ r_ftype st ty
    end
  end.
Definition field_comment (f : field) : option string := match f with Field _ _ _ _ _ c => c | InlinePlaceholder _ c => c end.
Definition field_attrs (f : field) : option (list attribute) := match f with Field _ _ _ _ a _ => a | InlinePlaceholder _ _ => None end.

(* physical lines, tagged with what they are *)
Inductive pline := PBlank | PComment (ind text : list Z) | PStmt (ind content : list Z).
Definition untag (p : pline) : list Z := match p with PBlank => [] | PComment i t => i ++ t | PStmt i c => i ++ c end.
Definition comment_tlines (ind : list Z) (c : option string) : list pline := map (PComment ind) (clines c).
Definition blanks (n : nat) : list pline := repeat PBlank n.

Definition member_tlines (st : style) (f : field) : list pline :=
  comment_tlines (st_indent st) (field_comment f) ++ map (PStmt (st_indent st)) (r_attrs st CField (field_attrs f))
  ++ [PStmt (st_indent st) (r_field st f)] ++ blanks (st_blank_member st).
Definition r_value (st : style) (v : enum_value) : list Z := of_string (ev_name v) ++ [32; 61; 32] ++ r_num st (ev_value v).
Definition value_tlines (st : style) (v : enum_value) : list pline :=
  comment_tlines (st_indent st) (ev_comment v) ++ [PStmt (st_indent st) (r_value st v)] ++ blanks (st_blank_member st).
Definition modifier_text (d : sdisp) : list Z :=
  match d with SdNone => [] | SdAbstract => code_abstract ++ [32] | SdInline => code_inline ++ [32] end.
Definition r_alias (st : style) (n : string) (l : linked) : list Z := kw_using T ++ [32] ++ of_string n ++ [32; 61; 32] ++ r_linked st l.
Definition r_enum_header (n : string) (b : intty) : list Z := kw_enum T ++ [32] ++ of_string n ++ [32; 58; 32] ++ r_int b.
Definition r_struct_header (d : sdisp) (n : string) : list Z := modifier_text d ++ kw_struct T ++ [32] ++ of_string n.
Definition r_import (p : string) : list Z := kw_import T ++ [32; 34] ++ of_string p ++ [34].
Definition decl_tlines (st : style) (d : decl) : list pline :=
  match d with
  | DAlias n l c => comment_tlines [] c ++ [PStmt [] (r_alias st n l)]
  | DEnum n b vals attrs c =>
    comment_tlines [] c ++ map (PStmt []) (r_attrs st CEnum attrs) ++ [PStmt [] (r_enum_header n b)] ++ flat_map (value_tlines st) vals
  | DStruct s =>
    comment_tlines [] (s_comment s) ++ map (PStmt []) (r_attrs st CStruct (s_attrs s))
    ++ [PStmt [] (r_struct_header (s_disp s) (s_name s))] ++ flat_map (member_tlines st) (s_fields s)
  end.
Definition item_tlines (st : style) (i : item) : list pline :=
  (match i with
   | IDecl d => decl_tlines st d
   | IImport p => [PStmt [] (r_import p)]
   | IComment c => comment_tlines [] (Some c) ++ [PBlank]  (* the blank line keeps the free comment from merging with / attaching to what follows *)
   end) ++ blanks (st_blank_top st).
Definition tlines (st : style) (ds : list item) : list pline := flat_map (item_tlines st) ds.
Definition plines (st : style) (ds : list item) : list (list Z) := map untag (tlines st ds).
Definition eol (st : style) : list Z := if st_crlf st then [13; 10] else [10].
Definition render_with (st : style) (ds : list item) : list Z := flat_map (fun l => l ++ eol st) (plines st ds).

(* ------------------------------------------------------------------------------------------------------------------ *)
(* well-formed descriptor lists: exactly what the concrete syntax can express *)

Definition wf_name (first : Z -> bool) (second : option (Z -> bool)) (rest : Z -> bool) (rest_min : nat) (n : string) : bool :=
  match of_string n with
  | [] => false
  | c :: b =>
    first c && match second with
               | None => forallb rest b && (rest_min <=? length b)%nat
               | Some second => match b with d :: b' => second d && forallb rest b' && (rest_min <=? length b')%nat | [] => false end
               end
  end.
Definition wf_prop := wf_name is_lower None prop_rest (prop_rep_min T).
Definition wf_const := wf_name is_upper None const_rest (const_rep_min T).
Definition wf_type := wf_name is_upper (Some is_lower) type_rest (type_rep_min T).
Definition wf_num (n : Z) : bool := 0 <=? n.
Definition wf_intty (i : intty) : bool :=
  match it_sizeref i with None => (0 <=? it_size i) && mem (r_dec (8 * it_size i)) (int_widths T) | Some _ => false end.

(* a comment: not empty, and no LF-separated segment begins or ends with a character Comment.__init__ strips *)
Definition seg_ok (seg : list Z) : bool :=
  match seg with [] => true | c :: _ => negb (in_set (comment_strip T) c) && negb (in_set (comment_strip T) (last seg 0)) end.
Definition wf_comment_text (c : string) : bool :=
  match of_string c with [] => false | _ => let (s, r) := split_lf (of_string c) in seg_ok s && forallb seg_ok r end.
Definition wf_comment (c : option string) : bool := match c with None => true | Some c => wf_comment_text c end.

Definition wf_transform (v : avalue) : bool :=
  match v with AvNone => true | AvStr t => mem (of_string t) (transform_names T) | AvNum _ => false end.
Fixpoint wf_pairs (vals : list avalue) : bool :=
  match vals with
  | [AvStr p; t] => wf_prop p && wf_transform t
  | AvStr p :: t :: r => wf_prop p && wf_transform t && wf_pairs r
  | _ => false
  end.
Definition wf_prop_value (v : avalue) : bool := match v with AvStr p => wf_prop p | _ => false end.
Definition wf_attr (ctx : actx) (a : attribute) : bool :=
  match attr_kind ctx (of_string (at_name a)), at_values a with
  | Some AkZero, [] => true
  | Some AkAlignment, [AvNum n; AvNone; AvNone] => wf_num n
  | Some AkAlignment, [AvNum n; neg; AvStr o] =>
    wf_num n && mem (of_string o) (alignment_option T)
    && match neg with AvNone => true | AvStr g => list_eqb (of_string g) (negation T) | AvNum _ => false end
  | Some AkSingle, [AvStr p] => wf_prop p
  | Some AkSizeref, [AvStr p] => wf_prop p
  | Some AkSizeref, [AvStr p; AvNum n] => wf_prop p && wf_num n
  | Some AkTwo, [AvStr p; AvStr c] => wf_prop p && wf_const c
  | Some AkMulti, v :: vs => forallb wf_prop_value (v :: vs)
  | Some AkTransform, vals => wf_pairs vals
  | _, _ => false
  end.
Definition wf_attrs (ctx : actx) (attrs : option (list attribute)) : bool :=
  match attrs with None => true | Some [] => false | Some l => forallb (wf_attr ctx) l end.

Definition wf_const_pair (ty : ftype) (v : fvalue) : bool :=
  match ty, v with
  | FInt i, VNum n => wf_intty i && wf_num n
  | FName t, VName c => wf_type t && wf_const c
  | _, _ => false
  end.
Definition not_inline_word (n : string) : bool := negb (list_eqb (of_string n) (kw_inline_member T)).
Definition wf_array (a : array) : bool :=
  (match a_elem a with ElInt i => wf_intty i | ElName n => wf_type n end)
  && (match a_size a with SzNum n => wf_num n | SzName n => wf_prop n | SzFill => true end)
  && (match a_sort_key a, a_alignment a, a_last_padded a with None, None, None => negb (a_byte_constrained a) | _, _, _ => false end).
Definition wf_cond (c : conditional) : bool :=
  (match c_value c with CvNum n => wf_num n | CvName n => wf_const n end)
  && mem (of_string (c_op c)) (cond_ops T) && wf_prop (c_link c).
Definition wf_field (f : field) : bool :=
  match f with
  | InlinePlaceholder t c => wf_type t && wf_comment c
  | Field n ty v d attrs c =>
    wf_comment c &&
    match d with
    | DispNone =>
      (list_eqb (of_string n) (value_placeholder T)
       || (wf_prop n && (not_inline_word n || match attrs with Some _ => true | None => false end)))
      && (match ty with FInt i => wf_intty i | FName t => wf_type t | FArray a => wf_array a end)
      && (match v with VNone => true | VCond c => wf_cond c | _ => false end)
      && wf_attrs CField attrs
    | DispConst => wf_const n && wf_const_pair ty v && match attrs with None => true | _ => false end
    | DispReserved => wf_prop n && not_inline_word n && wf_const_pair ty v && match attrs with None => true | _ => false end
    | DispSizeof =>
      wf_prop n && not_inline_word n && match attrs with None => true | _ => false end
      && match ty, v with FInt i, VName p => wf_intty i && wf_prop p | _, _ => false end
    | DispInline =>
      wf_prop n && not_inline_word n && match attrs with None => true | _ => false end
      && match ty, v with FName t, VNone => wf_type t | _, _ => false end
    end
  end.
Definition wf_value (v : enum_value) : bool := wf_const (ev_name v) && wf_num (ev_value v) && wf_comment (ev_comment v).
Definition wf_decl (d : decl) : bool :=
  match d with
  | DAlias n l c => wf_type n && wf_comment c && match l with LInt i => wf_intty i | LBuffer n => wf_num n end
  | DEnum n b vals attrs c => wf_type n && wf_intty b && forallb wf_value vals && wf_attrs CEnum attrs && wf_comment c
  | DStruct s =>
    wf_type (s_name s) && wf_comment (s_comment s) && wf_attrs CStruct (s_attrs s)
    && (match s_fields s with [] => false | fs => forallb wf_field fs end)
    && (match s_factory_type s with None => negb (s_requires_unaligned s) | Some _ => false end)
  end.
Definition decl_comment (d : decl) : option string :=
  match d with DAlias _ _ c => c | DEnum _ _ _ _ c => c | DStruct s => s_comment s end.
Definition wf_path (p : string) : bool := forallb (fun c => negb ((c =? 34) || (c =? 92) || (c =? 10) || (c =? 13))) (of_string p).
Definition wf_item (i : item) : bool :=
  match i with IDecl d => wf_decl d | IImport p => wf_path p | IComment c => wf_comment_text c end.
(* a free comment directly before a declaration would attach to it: the declaration must carry its own comment *)
Fixpoint wf_adjacent (ds : list item) : bool :=
  match ds with
  | IComment _ :: ((IDecl d :: _) as r) => (match decl_comment d with Some _ => true | None => false end) && wf_adjacent r
  | _ :: r => wf_adjacent r
  | [] => true
  end.
Definition wf_doc_with (ds : list item) : bool :=
  match ds with [] => false | _ => forallb wf_item ds && wf_adjacent ds end.

(* ------------------------------------------------------------------------------------------------------------------ *)
(* the repo's own __str__ methods (ast.py) and the print-back layout of harness/checks/c04.py `repo_print` *)

Definition code_none : list Z := [78; 111; 110; 101].
Definition code_not : list Z := [110; 111; 116].
Definition code_comparer : list Z := [99; 111; 109; 112; 97; 114; 101; 114].
Definition py_str_value (v : avalue) : list Z := match v with AvNum n => r_dec n | AvStr s => of_string s | AvNone => code_none end.
(* Attribute.__str__: the loop over self.values with the `not` qualifier *)
Fixpoint attr_str_values (vals : list avalue) (qualifier : list Z) : list (list Z) :=
  match vals with
  | [] => []
  | v :: r =>
    match v with
    | AvNone => if attr_str_skips_none T then attr_str_values r qualifier
                else (qualifier ++ code_none) :: attr_str_values r []
    | AvStr s => if list_eqb (of_string s) code_not then attr_str_values r (code_not ++ [32])
                 else (qualifier ++ of_string s) :: attr_str_values r []
    | AvNum n => (qualifier ++ r_dec n) :: attr_str_values r []
    end
  end.
Definition attr_str (a : attribute) : list Z :=
  match at_values a with
  | [] => [64] ++ of_string (at_name a)
  | vals => [64] ++ of_string (at_name a) ++ [40] ++ join [44; 32] (attr_str_values vals []) ++ [41]
  end.
(* _format_attributes: `comparer` is formatted from pairs (name, transform) *)
Fixpoint comparer_values (vals : list avalue) : list (list Z) :=
  match vals with
  | v :: t :: r => (py_str_value v ++ match t with AvNone => [] | _ => [33] ++ py_str_value t end) :: comparer_values r
  | _ => []
  end.
Definition format_attribute (a : attribute) : list Z :=
  if list_eqb (of_string (at_name a)) code_comparer
  then [64] ++ of_string (at_name a) ++ [40] ++ join [44; 32] (comparer_values (at_values a)) ++ [41]
  else attr_str a.
Definition format_attributes (attrs : option (list attribute)) : list (list Z) :=
  match attrs with None => [] | Some l => map format_attribute l end.

Definition repo_style : style := {| st_crlf := false; st_indent := [9]; st_hex := fun _ => false; st_blank_top := 1; st_blank_member := 0 |}.
(* StructField.__str__ / StructInlinePlaceholder.__str__ (without the attribute lines) *)
Definition field_str (f : field) : list Z := r_field repo_style f.
Definition repo_member_tlines (f : field) : list pline :=
  comment_tlines [9] (field_comment f) ++ map (PStmt [9]) (format_attributes (field_attrs f)) ++ [PStmt [9] (field_str f)].
Definition repo_value_tlines (v : enum_value) : list pline :=
  comment_tlines [9] (ev_comment v) ++ [PStmt [9] (r_value repo_style v)].
Definition repo_decl_tlines (d : decl) : list pline :=
  match d with
  | DAlias n l c => comment_tlines [] c ++ [PStmt [] (r_alias repo_style n l)]
  | DEnum n b vals attrs c =>
    comment_tlines [] c ++ map (PStmt []) (format_attributes attrs) ++ [PStmt [] (r_enum_header n b)] ++ flat_map repo_value_tlines vals
  | DStruct s =>
    comment_tlines [] (s_comment s) ++ map (PStmt []) (format_attributes (s_attrs s))
    ++ [PStmt [] (r_struct_header (s_disp s) (s_name s))] ++ flat_map repo_member_tlines (s_fields s)
  end.
Definition repo_item_tlines (i : item) : list pline :=
  match i with
  | IDecl d => repo_decl_tlines d ++ [PBlank]
  | IImport p => [PStmt [] (r_import p); PBlank]
  | IComment _ => []
  end.
Definition repo_print_with (ds : list item) : list Z := flat_map (fun l => untag l ++ [10]) (flat_map repo_item_tlines ds).
(* side conditions under which the repo's printing of attributes is the canonical one: the word Attribute.__str__ treats as a
   qualifier is the grammar's negation operator, and `comparer` is exactly the attribute with transforms *)
Definition is_transform_kind (k : akind) : bool := match k with AkTransform => true | _ => false end.
Definition repo_terms_ok : bool :=
  list_eqb (negation T) code_not
  && forallb (fun t => forallb (fun n => Bool.eqb (list_eqb n code_comparer) (is_transform_kind (snd (fst t)))) (snd t))
       (attr_tables None ++ attr_tables (Some CField)).
(* no attribute argument is the word `not` (known finding: Attribute.__str__ would print it as a qualifier); the negation of
   @alignment is exempt *)
Definition not_free_value (v : avalue) : bool := match v with AvStr s => negb (list_eqb (of_string s) code_not) | _ => true end.
Definition attr_not_free (ctx : actx) (a : attribute) : bool :=
  match attr_kind ctx (of_string (at_name a)) with Some AkAlignment => true | _ => forallb not_free_value (at_values a) end.
Definition attrs_not_free (ctx : actx) (attrs : option (list attribute)) : bool :=
  match attrs with None => true | Some l => forallb (attr_not_free ctx) l end.
Definition decl_not_free (d : decl) : bool :=
  match d with
  | DAlias _ _ _ => true
  | DEnum _ _ _ attrs _ => attrs_not_free CEnum attrs
  | DStruct s => attrs_not_free CStruct (s_attrs s) && forallb (fun f => attrs_not_free CField (field_attrs f)) (s_fields s)
  end.
Definition doc_not_free (ds : list item) : bool := forallb (fun i => match i with IDecl d => decl_not_free d | _ => true end) ds.

Definition strip_free_comments (ds : list item) : list item :=
  filter (fun i => match i with IComment _ => false | _ => true end) ds.

(* ------------------------------------------------------------------------------------------------------------------ *)
(* side conditions on the regenerated sets under which the theorems of SyntaxProofs.v are proved (checked by computation on
   the regenerated instance; a grammar edit that breaks one of them breaks the proofs, not the model) *)

Definition is_prefix (k s : list Z) : bool := match strip_prefix k s with Some _ => true | None => false end.
(* conflict-free: neither word is a prefix of the other, so at most one of them can start a given text *)
Definition cf (a b : list Z) : bool := negb (is_prefix a b) && negb (is_prefix b a).
Fixpoint pw_cf (l : list (list Z)) : bool := match l with [] => true | k :: r => forallb (cf k) r && pw_cf r end.
Definition kw_ok (k : list Z) : bool := match k with c :: r => is_lower c && forallb prop_rest r | [] => false end.
Definition op_ok (k : list Z) : bool := match k with c :: r => is_lower c && forallb (fun c => prop_rest c || (c =? 32)) r | [] => false end.
Definition ph_ok (k : list Z) : bool := match k with c :: r => (c =? 95) && forallb (fun c => prop_rest c || is_upper c) r | [] => false end.
Definition width_ok (k : list Z) : bool := match k with [] => false | _ => forallb is_digit k end.
Definition struct_attr_names : list (list Z) :=
  struct_attr_zero T ++ struct_attr_single T ++ struct_attr_two T ++ struct_attr_multi T ++ struct_attr_transform T.
Definition field_attr_names : list (list Z) :=
  field_attr_zero T ++ field_attr_alignment T ++ field_attr_single T ++ field_attr_sizeref T.
Definition int_heads : list (list Z) := [int_unsigned_prefix T ++ int_kw T; int_kw T].

Definition terms_ok : bool :=
  (* every keyword is a lower-case word, operators may contain blanks, placeholders start with an underscore *)
  forallb op_ok (cond_ops T) && ph_ok (fill_placeholder T) && ph_ok (value_placeholder T) && forallb width_ok (int_widths T)
  (* alternatives that lark tries in the same parser state never start the same text *)
  && pw_cf ([kw_import T; kw_using T; kw_enum T; kw_struct T] ++ struct_modifiers T)
  && pw_cf ([kw_make_reserved T; kw_sizeof T; kw_inline_field T; kw_array T] ++ int_heads)
  && pw_cf (kw_binary_fixed T :: int_heads)
  && pw_cf (enum_attr_zero T ++ struct_attr_names) && pw_cf field_attr_names
  && pw_cf (int_widths T) && pw_cf (cond_ops T) && pw_cf (negation T :: alignment_option T) && pw_cf (transform_names T)
  (* the struct modifiers are the two dispositions ast.Struct knows *)
  && forallb (fun m => list_eqb m code_abstract || list_eqb m code_inline) (struct_modifiers T)
  && mem code_abstract (struct_modifiers T) && mem code_inline (struct_modifiers T)
  (* `inline` at the start of a member is a complete PROPERTY_NAME *)
  && (prop_rep_min T <=? pred (length (kw_inline_member T)))%nat
  (* numerals as int(text, 16) reads them *)
  && list_eqb (hex_prefix T) [48; 120] && (hex_lo T =? 65) && (hex_hi T =? 70)
  (* FixedSizeInteger.__init__: 'u' == string[0]; int(string[3 + (1 if unsigned else 0):]) // 8 *)
  && list_eqb (int_unsigned_prefix T) [fsi_unsigned_char T] && negb (head_is (fsi_unsigned_char T) (int_kw T))
  && is_lower (fsi_unsigned_char T)
  && match fsi_unsigned_op T, fsi_skip_op T, fsi_div_op T with PyOps.Eq, PyOps.Add, PyOps.FloorDiv => true | _, _, _ => false end
  && (fsi_unsigned_index T =? 0) && (fsi_skip T =? len (int_kw T)) && (fsi_skip_unsigned T =? 1) && (fsi_skip_signed T =? 0)
  && (fsi_div T =? 8)
  (* Comment.__init__ *)
  && list_eqb (comment_init T) [] && list_eqb (comment_split T) [10] && list_eqb (comment_blank T) [10]
  && in_set (comment_strip T) 35 && in_set (comment_strip T) 32 && in_set (comment_strip T) 9 && negb (in_set (comment_strip T) 10)
  (* Indenter *)
  && (0 <? tab_len T)
  && forallb kw_ok ([kw_import T; kw_using T; kw_enum T; kw_struct T; kw_make_const T; kw_make_reserved T; kw_sizeof T; kw_inline_field T;
                     kw_inline_member T; kw_array T; kw_if T; kw_binary_fixed T; negation T; int_kw T]
                    ++ enum_attr_zero T ++ struct_attr_names ++ field_attr_names ++ alignment_option T ++ transform_names T
                    ++ struct_modifiers T).

End Model.
Arguments MOk {A} a. Arguments MErr {A} i d. Arguments SOk {A} a. Arguments SErr {A} d.

(* ------------------------------------------------------------------------------------------------------------------ *)
(* the regenerated instance *)

Definition head_char (l : list Z) : Z := match l with c :: _ => c | [] => -1 end.

Definition T_now : terms := {|
  kw_import := GrammarTerminals.kw_import_now; kw_using := GrammarTerminals.kw_using_now; kw_enum := GrammarTerminals.kw_enum_now;
  kw_struct := GrammarTerminals.kw_struct_now; kw_make_const := GrammarTerminals.kw_make_const_now;
  kw_make_reserved := GrammarTerminals.kw_make_reserved_now; kw_sizeof := GrammarTerminals.kw_sizeof_now;
  kw_inline_field := GrammarTerminals.kw_inline_field_now; kw_inline_member := GrammarTerminals.kw_inline_member_now;
  kw_array := GrammarTerminals.kw_array_now; kw_if := GrammarTerminals.kw_if_now; kw_binary_fixed := GrammarTerminals.kw_binary_fixed_now;
  fill_placeholder := GrammarTerminals.fill_placeholder_now; value_placeholder := GrammarTerminals.value_placeholder_now;
  negation := GrammarTerminals.negation_now; hex_prefix := GrammarTerminals.hex_prefix_now;
  hex_lo := head_char GrammarTerminals.hex_lo_now; hex_hi := head_char GrammarTerminals.hex_hi_now;
  int_unsigned_prefix := GrammarTerminals.int_unsigned_prefix_now; int_kw := GrammarTerminals.int_kw_now;
  enum_attr_zero := GrammarTerminals.enum_attr_zero_now; field_attr_zero := GrammarTerminals.field_attr_zero_now;
  field_attr_alignment := GrammarTerminals.field_attr_alignment_now; alignment_option := GrammarTerminals.alignment_option_now;
  field_attr_single := GrammarTerminals.field_attr_single_now; field_attr_sizeref := GrammarTerminals.field_attr_sizeref_now;
  struct_attr_zero := GrammarTerminals.struct_attr_zero_now; struct_attr_single := GrammarTerminals.struct_attr_single_now;
  struct_attr_two := GrammarTerminals.struct_attr_two_now; struct_attr_multi := GrammarTerminals.struct_attr_multi_now;
  struct_attr_transform := GrammarTerminals.struct_attr_transform_now; transform_names := GrammarTerminals.transform_names_now;
  struct_modifiers := GrammarTerminals.struct_modifiers_now; cond_ops := GrammarTerminals.cond_ops_now;
  int_widths := GrammarTerminals.int_widths_now;
  const_rep_min := GrammarTerminals.const_rep_min_now; prop_rep_min := GrammarTerminals.prop_rep_min_now;
  type_rep_min := GrammarTerminals.type_rep_min_now;
  comment_merged := GrammarTerminals.comment_merged_now;
  comment_init := SyntaxOps.comment_init_now; comment_split := SyntaxOps.comment_split_now; comment_strip := SyntaxOps.comment_strip_now;
  comment_blank := SyntaxOps.comment_blank_now; comment_sep := SyntaxOps.comment_sep_now;
  fsi_unsigned_char := SyntaxOps.fsi_unsigned_char_now; fsi_unsigned_op := SyntaxOps.fsi_unsigned_op_now;
  fsi_unsigned_index := SyntaxOps.fsi_unsigned_index_now; fsi_skip := SyntaxOps.fsi_skip_now; fsi_skip_op := SyntaxOps.fsi_skip_op_now;
  fsi_skip_unsigned := SyntaxOps.fsi_skip_unsigned_now; fsi_skip_signed := SyntaxOps.fsi_skip_signed_now;
  fsi_div_op := SyntaxOps.fsi_div_op_now; fsi_div := SyntaxOps.fsi_div_now;
  tab_len := SyntaxOps.tab_len_now;
  attr_str_skips_none := SyntaxOps.attr_str_skips_none_now
|}.

Definition parse (text : list Z) : result (list item) := parse_with T_now text.
Definition render (st : style) (ds : list item) : list Z := render_with T_now st ds.
Definition wf_doc (ds : list item) : bool := wf_doc_with T_now ds.
Definition repo_print (ds : list item) : list Z := repo_print_with T_now ds.
Definition no_not_arguments (ds : list item) : bool := doc_not_free T_now ds.
Definition default_style : style := {| st_crlf := false; st_indent := [9]; st_hex := fun _ => false; st_blank_top := 1; st_blank_member := 0 |}.
