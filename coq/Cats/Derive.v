(* catparser/generators/util.py: build_factory_map and extend_models (_process_struct, _bind_size_fields, MarkedStructs,
   _propagate_unaligned) over the ast.py objects of Cats/Ast.v.  Model file: definitions only.

   Operators, connectives, attribute names and DisplayType values come from Gen/DeriveOps.v (rewritten from /repo on every run).
   The model is the INTENDED behaviour of _process_struct: abstractness / alignment of a typed array's element type are consulted
   only when the element type resolves to a struct (the shipped code read `.is_aligned` of aliases, enums and of None: defect D8).

   Python partial operations are outcomes: `next(..)` on an exhausted generator = Crash "StopIteration", attribute access on the wrong
   class = Crash "AttributeError", iterating None = Crash "TypeError", list index = Crash "IndexError", the documented
   RuntimeError('array field not handled ..') of _propagate_unaligned = Reject, fuel exhaustion of the `while True` loop = Crash "fuel".
   Object identity is represented by names (requires_unaligned flags) and by member indices (bound_field / size_fields). *)
From Symv Require Export Base.PyOps Cats.Ast Gen.DeriveOps.
Open Scope string_scope.
Open Scope list_scope.

(* `x not in s` / `x is not None` when the flag is true, `x in s` / `x is None` when false *)
Definition memb_test (negated present : bool) : bool := if negated then negb present else present.

Definition str_cmp (o : pyop) (a b : string) : bool :=
  match o with Eq => String.eqb a b | Ne => negb (String.eqb a b) | _ => false end.

Definition av_eqb (a b : avalue) : bool :=
  match a, b with
  | AvNum x, AvNum y => (x =? y)%Z
  | AvStr x, AvStr y => String.eqb x y
  | AvNone, AvNone => true
  | _, _ => false
  end.
Definition av_cmp (o : pyop) (a b : avalue) : bool :=
  match o with Eq => av_eqb a b | Ne => negb (av_eqb a b) | _ => false end.

Definition is_some {A} (o : option A) : bool := match o with Some _ => true | None => false end.

Fixpoint mapM {A B} (f : A -> result B) (l : list A) : result (list B) :=
  match l with
  | [] => Ok []
  | x :: r => bind (f x) (fun y => bind (mapM f r) (fun ys => Ok (y :: ys)))
  end.

(* ---------------------------------------------------------------------------------------------------------------- *)
(* DisplayType of models and members (Alias.display_type, Enum/Struct.display_type, StructField.display_type, Array.display_type) *)

Definition linked_dt (l : linked) : Z := match l with LInt _ => dt_integer | LBuffer _ => dt_byte_array end.
Definition decl_dt (d : decl) : Z :=
  match d with DAlias _ l _ => linked_dt l | DEnum _ _ _ _ _ => dt_enum | DStruct _ => dt_struct end.
Definition array_dt (a : array) : Z :=
  match a_elem a with
  | ElInt i => if cmp arr_byte_elem_cmp arr_byte_elem_size (it_size i) then dt_byte_array else dt_typed_array
  | ElName _ => dt_typed_array
  end.
Definition ftype_dt (t : ftype) : Z := match t with FInt _ => dt_integer | FName _ => dt_unset | FArray a => array_dt a end.
Definition is_array_dt (d : Z) : bool := memb_test dt_is_array_test ((d =? dt_byte_array)%Z || (d =? dt_typed_array)%Z).

(* type_map = {model.name: model}: a later declaration of the same name replaces an earlier one *)
Definition lookup (ds : list decl) (n : string) : option decl := find (fun d => String.eqb (decl_name d) n) (rev ds).

(* ---------------------------------------------------------------------------------------------------------------- *)
(* Struct properties backed by attributes *)

Definition av_truthy (v : avalue) : bool :=
  match v with AvNum n => negb (n =? 0)%Z | AvStr s => negb (String.eqb s "") | AvNone => false end.
(* Attribute.value: True for a flag, else the first token *)
Definition attr_truthy (a : attribute) : bool := match at_values a with [] => true | v :: _ => av_truthy v end.

Definition struct_is_aligned (s : struct) : bool :=
  match find_attr (s_attrs s) attr_is_aligned with Some a => attr_truthy a | None => false end.
Definition struct_is_abstract (s : struct) : bool := match s_disp s with SdAbstract => true | _ => false end.
Definition struct_discriminator (s : struct) : option (list avalue) :=
  match find_attr (s_attrs s) attr_discriminator with Some a => Some (at_values a) | None => None end.

Fixpoint inits_of (l : list attribute) : result (list (avalue * avalue)) :=
  match l with
  | [] => Ok []
  | a :: r =>
    if String.eqb attr_initializes (at_name a) then
      match nth_error (at_values a) init_target_idx, nth_error (at_values a) init_value_idx with
      | Some t, Some v => bind (inits_of r) (fun rest => Ok ((t, v) :: rest))
      | _, _ => Crash "IndexError"
      end
    else inits_of r
  end.
Definition struct_initializers (s : struct) : result (list (avalue * avalue)) :=
  match s_attrs s with None => Ok [] | Some l => inits_of l end.

Definition decl_is_abstract (d : decl) : bool := match d with DStruct s => struct_is_abstract s | _ => false end.
Definition decl_is_aligned (d : decl) : bool := match d with DStruct s => struct_is_aligned s | _ => false end.

(* ---------------------------------------------------------------------------------------------------------------- *)
(* build_factory_map *)

Record fdesc := { fd_names : list avalue; fd_values : list avalue; fd_types : list ftype; fd_children : list struct }.
Definition fmap := list (string * fdesc).   (* dict: insertion order *)

(* next(initializer.value for initializer in initializers if name == initializer.target_property_name) *)
Definition init_value (inits : list (avalue * avalue)) (name : avalue) : result avalue :=
  match find (fun i => av_cmp bfm_init_match name (fst i)) inits with Some i => Ok (snd i) | None => Crash "StopIteration" end.

(* next(field.field_type for field in fields if name == field.name) *)
Fixpoint member_type (name : avalue) (fs : list field) : result ftype :=
  match fs with
  | [] => Crash "StopIteration"
  | Field n t _ _ _ _ :: r => if av_cmp bfm_field_match name (AvStr n) then Ok t else member_type name r
  | InlinePlaceholder _ _ :: _ => Crash "AttributeError"
  end.

Definition make_desc (s : struct) : result fdesc :=
  match struct_discriminator s with
  | None => Crash "TypeError"
  | Some names =>
    bind (match names with
          | [] => Ok []
          | _ => bind (struct_initializers s) (fun inits => mapM (init_value inits) names)
          end) (fun values =>
    bind (mapM (fun n => member_type n (s_fields s)) names) (fun types =>
    Ok {| fd_names := names; fd_values := values; fd_types := types; fd_children := [] |}))
  end.

(* `not ast_model.factory_type`: None and '' are both "no factory" *)
Definition factory_name (s : struct) : option string :=
  match s_factory_type s with Some f => if String.eqb f "" then None else Some f | None => None end.

Definition fm_has (k : string) (m : fmap) : bool := existsb (fun e => String.eqb (fst e) k) m.
Definition fd_add_child (s : struct) (fd : fdesc) : fdesc :=
  {| fd_names := fd_names fd; fd_values := fd_values fd; fd_types := fd_types fd; fd_children := fd_children fd ++ [s] |}.
Definition fm_add_child (k : string) (s : struct) (m : fmap) : fmap :=
  map (fun e => if String.eqb (fst e) k then (fst e, fd_add_child s (snd e)) else e) m.

Fixpoint bfm_loop (ds : list decl) (m : fmap) : result fmap :=
  match ds with
  | [] => Ok m
  | DStruct s :: r =>
    match factory_name s with
    | Some k =>
      if bfm_skip_conn (cmp bfm_skip_cmp dt_struct (decl_dt (DStruct s))) false then bfm_loop r m
      else
        bind (if memb_test bfm_new_key_test (fm_has k m) then bind (make_desc s) (fun fd => Ok (m ++ [(k, fd)])) else Ok m)
             (fun m' => bfm_loop r (fm_add_child k s m'))
    | None => bfm_loop r m
    end
  | _ :: r => bfm_loop r m
  end.
Definition build_factory_map (ds : list decl) : result fmap := bfm_loop ds [].

(* ---------------------------------------------------------------------------------------------------------------- *)
(* requires_unaligned flags and Python sets, as duplicate-free lists of names *)

Definition mem (x : string) (l : list string) : bool := existsb (String.eqb x) l.
Definition set_add (x : string) (l : list string) : list string := if mem x l then l else l ++ [x].
Definition set_flag (v : bool) (n : string) (M : list string) : list string :=
  if v then set_add n M else filter (fun y => negb (String.eqb n y)) M.

(* ---------------------------------------------------------------------------------------------------------------- *)
(* _process_struct (first loop) *)

(* AstFieldExtensions of one member: type_model (None = the member itself, Some n = the model named n), is_contents_abstract;
   bound_field / size_fields are filled in by _bind_size_fields (below, as member indices) *)
Record fext := { fx_type_model : option string; fx_abstract : bool }.

Definition elem_model (ds : list decl) (t : ftype) : option decl :=
  match t with
  | FArray a => match a_elem a with ElName en => lookup ds en | ElInt _ => None end
  | _ => None
  end.

Definition ps_field (ds : list decl) (s : struct) (f : field) (M : list string) : result (fext * list string) :=
  match f with
  | InlinePlaceholder _ _ => Crash "AttributeError"
  | Field n t _ _ _ _ =>
    if cmp ps_typed_cmp dt_typed_array (ftype_dt t) then
      match elem_model ds t with
      | Some e =>
        if ps_elem_conn true (cmp ps_elem_struct_cmp dt_struct (decl_dt e)) then
          Ok ({| fx_type_model := None; fx_abstract := decl_is_abstract e |},
              if ps_mark_conn (negb (struct_is_aligned s)) (decl_is_aligned e) then set_flag ps_mark_value (decl_name e) M else M)
        else Ok ({| fx_type_model := None; fx_abstract := ps_default_abstract |}, M)
      | None => Ok ({| fx_type_model := None; fx_abstract := ps_default_abstract |}, M)
      end
    else
      match (match t with FName tn => lookup ds tn | _ => None end) with
      | Some d => Ok ({| fx_type_model := Some (decl_name d); fx_abstract := ps_default_abstract |}, M)
      | None => Ok ({| fx_type_model := None; fx_abstract := ps_default_abstract |}, M)
      end
  end.

Fixpoint ps_fields (ds : list decl) (s : struct) (fs : list field) (M : list string) : result (list fext * list string) :=
  match fs with
  | [] => Ok ([], M)
  | f :: r => bind (ps_field ds s f M) (fun p => bind (ps_fields ds s r (snd p)) (fun q => Ok (fst p :: fst q, snd q)))
  end.

(* ---------------------------------------------------------------------------------------------------------------- *)
(* _find_field_by_name, _bind_size_fields: assignments in execution order *)

Fixpoint field_index (name : string) (fs : list field) (i : nat) : result nat :=
  match fs with
  | [] => Crash "StopIteration"
  | Field n _ _ _ _ _ :: r => if str_cmp ffn_match name n then Ok i else field_index name r (S i)
  | InlinePlaceholder _ _ :: _ => Crash "AttributeError"
  end.

(* isinstance(field_model.size, str): only an Array carries a name as size *)
Definition size_name (t : ftype) : option string :=
  match t with FArray a => match a_size a with SzName sn => Some sn | _ => None end | _ => None end.

(* b_bound: (member index, index of its bound_field) in assignment order -- the last assignment to a member is its final value;
   b_sizes: (member index, index of a member appended to its size_fields) in append order *)
Record binds := { b_bound : list (nat * nat); b_sizes : list (nat * nat) }.

Fixpoint bind_loop (all fs : list field) (j : nat) (b : binds) : result binds :=
  match fs with
  | [] => Ok b
  | InlinePlaceholder _ _ :: _ => Crash "AttributeError"
  | Field n t v d _ _ :: r =>
    bind (match size_name t with
          | Some sn =>
            if bsf_array_conn (is_array_dt (ftype_dt t)) true then
              bind (field_index sn all 0) (fun i => Ok {| b_bound := b_bound b ++ [(i, j)]; b_sizes := b_sizes b |})
            else Ok b
          | None => Ok b
          end) (fun b1 =>
    bind (match d with
          | DispSizeof =>
            match v with
            | VName x => bind (field_index x all 0) (fun i => Ok {| b_bound := b_bound b1 ++ [(j, i)]; b_sizes := b_sizes b1 ++ [(i, j)] |})
            | _ => Crash "StopIteration"
            end
          | _ => Ok b1
          end) (fun b2 => bind_loop all r (S j) b2))
  end.
Definition bind_size_fields (fs : list field) : result binds := bind_loop fs fs 0 {| b_bound := []; b_sizes := [] |}.

Definition bound_of (b : binds) (i : nat) : option nat :=
  match filter (fun e => Nat.eqb (fst e) i) (b_bound b) with [] => None | l => Some (snd (last l (0, 0)%nat)) end.
Definition sizes_of (b : binds) (i : nat) : list nat := map snd (filter (fun e => Nat.eqb (fst e) i) (b_sizes b)).

(* one processed struct: name, per-member extensions, bindings *)
Record pstruct := { p_name : string; p_fields : list field; p_exts : list fext; p_binds : binds }.

Definition process_struct (ds : list decl) (s : struct) (M : list string) : result (pstruct * list string) :=
  bind (ps_fields ds s (s_fields s) M) (fun p =>
  bind (bind_size_fields (s_fields s)) (fun b =>
  Ok ({| p_name := s_name s; p_fields := s_fields s; p_exts := fst p; p_binds := b |}, snd p))).

Fixpoint process_all (ds todo : list decl) (M : list string) : result (list pstruct * list string) :=
  match todo with
  | [] => Ok ([], M)
  | d :: r =>
    match d with
    | DStruct s =>
      if cmp em_struct_cmp dt_struct (decl_dt d) then
        bind (process_struct ds s M) (fun p => bind (process_all ds r (snd p)) (fun q => Ok (fst p :: fst q, snd q)))
      else process_all ds r M
    | _ => process_all ds r M
    end
  end.

(* names added to the Python set struct_names, in declaration order *)
Definition struct_names (ds : list decl) : list string :=
  flat_map (fun d => match d with DStruct s => if cmp em_struct_cmp dt_struct (decl_dt d) then [s_name s] else [] | _ => [] end) ds.

(* ---------------------------------------------------------------------------------------------------------------- *)
(* MarkedStructs *)

Record mstate := { already : list string; tracked : option (list string) }.

Definition ms_add (v : string) (st : mstate) : mstate :=
  if memb_test ms_add_test (mem v (already st)) then
    if memb_test ms_tracked_test (negb (is_some (tracked st))) then
      match tracked st with
      | Some t => {| already := already st; tracked := Some (set_add v t) |}
      | None => st
      end
    else {| already := set_add v (already st); tracked := tracked st |}
  else st.

Definition ms_start (st : mstate) : mstate := {| already := already st; tracked := Some [] |}.
Definition ms_newly (st : mstate) : list string := match tracked st with Some t => t | None => [] end.
Definition ms_finalize (st : mstate) : mstate :=
  {| already := fold_left (fun acc x => set_add x acc) (ms_newly st) (already st); tracked := None |}.

(* ---------------------------------------------------------------------------------------------------------------- *)
(* _propagate_unaligned.  `order` is the iteration order of the Python set struct_names (unspecified by the language; the same
   in every pass because the set is not modified). *)

Fixpoint phase1 (ds : list decl) (order : list string) (M : list string) (st : mstate) : result (list string * mstate) :=
  match order with
  | [] => Ok (M, st)
  | n :: r =>
    match lookup ds n with
    | None => Crash "KeyError"
    | Some (DStruct s) =>
      match (match s_factory_type s with Some f => lookup ds f | None => None end) with
      | None => phase1 ds r M st
      | Some (DStruct fs) =>
        if pu_factory_conn true (mem (s_name fs) M) then phase1 ds r (set_flag pu_desc_mark_value n M) (ms_add n st)
        else phase1 ds r M st
      | Some _ => Crash "AttributeError"
      end
    | Some _ => Crash "AttributeError"
    end
  end.

Fixpoint phase2_fields (ds : list decl) (fs : list field) (M : list string) (st : mstate) : result (list string * mstate) :=
  match fs with
  | [] => Ok (M, st)
  | InlinePlaceholder _ _ :: _ => Crash "AttributeError"
  | Field _ t _ _ _ _ :: r =>
    if is_array_dt (ftype_dt t) then Reject
    else
      match (match t with FName tn => lookup ds tn | _ => None end) with
      | Some d =>
        if pu_member_conn true (cmp pu_member_struct_cmp dt_struct (decl_dt d)) then
          phase2_fields ds r (set_flag pu_member_mark_value (decl_name d) M) (ms_add (decl_name d) st)
        else phase2_fields ds r M st
      | None => phase2_fields ds r M st
      end
  end.

Fixpoint phase2 (ds : list decl) (newly : list string) (M : list string) (st : mstate) : result (list string * mstate) :=
  match newly with
  | [] => Ok (M, st)
  | n :: r =>
    match lookup ds n with
    | None => Crash "KeyError"
    | Some (DStruct s) => bind (phase2_fields ds (s_fields s) M st) (fun p => phase2 ds r (fst p) (snd p))
    | Some _ => Crash "AttributeError"
    end
  end.

Fixpoint pu_loop (fuel : nat) (ds : list decl) (order : list string) (M : list string) (st : mstate) : result (list string) :=
  match fuel with
  | O => Crash "fuel"
  | S k =>
    let previous_length := Z.of_nat (length (already st)) in
    bind (phase1 ds order M (ms_start st)) (fun p1 =>
    let newly := ms_newly (snd p1) in
    bind (phase2 ds newly (fst p1) (ms_finalize (snd p1))) (fun p2 =>
    if cmp pu_exit_cmp previous_length (Z.of_nat (length (already (snd p2)))) then Ok (fst p2)
    else pu_loop k ds order (fst p2) (snd p2)))
  end.

Definition propagate_unaligned (ds : list decl) (order : list string) (M : list string) : result (list string) :=
  pu_loop (S (length (struct_names ds))) ds order M {| already := []; tracked := None |}.

(* ---------------------------------------------------------------------------------------------------------------- *)
(* extend_models: the processed structs and the names of the models whose requires_unaligned is set afterwards *)

Definition initial_marks (ds : list decl) : list string :=
  flat_map (fun d => match d with DStruct s => if s_requires_unaligned s then [s_name s] else [] | _ => [] end) ds.

Definition extend_models (ds : list decl) (order : list string) : result (list pstruct * list string) :=
  bind (process_all ds ds (initial_marks ds)) (fun p =>
  bind (propagate_unaligned ds order (snd p)) (fun M => Ok (fst p, M))).

