(* Decode-encode-decode stability (last sentence of C01) for the fragment of StructRoundTrip.v:
   dec_admissible / decf_admissible: under the schema-only premise pres_schemab, whatever T.deserialize / TFactory.deserialize decode at
   fuel k is an admissible value of depth div2 k (induction on the fuel, two levels at a time; struct level: dec_struct_pres);
   stable_dec / stable_decf: hence, by RT_dec / RT_decf, if the decoded value re-encodes then the re-encoded bytes (followed by anything)
   decode to the same value, whose size is their length. *)
From Symv Require Import Base.Bytes Base.PyOps Base.BytesLemmas Cats.Layout Cats.LayoutInst Cats.LayoutProofs Cats.ArrayProofs Cats.LayoutLaws
  Cats.LayoutInstProofs Cats.StructProofs Cats.StructRoundTrip Cats.StructDecide Cats.StructStable.
From Coq Require Import Lia ZifyBool.
Open Scope string_scope.
Open Scope list_scope.
Open Scope Z_scope.

Section Stable.
Variable tm : list decl.
Let OP := ops_now.
Notation nc := struct_fields_nc.

(* ---- what admissibility says at the leaf types ---- *)
Lemma admf_vstruct_type n t cls vs : admf tm n t (VStruct cls vs) -> exists s', lookup tm t = Some (DStruct s').
Proof.
  destruct n; cbn [admf]; [contradiction|]. destruct (lookup_struct tm cls) as [s0|] eqn:Hls; [|contradiction].
  intros (Hn & _ & _ & _ & [->|(a & Hfo & _)]).
  - unfold lookup_struct in Hls. destruct (lookup tm cls) as [[| |s1]|]; try discriminate. eauto.
  - pose proof (fo_parent tm _ _ _ Hfo) as Hp. unfold lookup_struct in Hp. destruct (lookup tm t) as [[| |s1]|]; try discriminate. eauto.
Qed.

Lemma admf_nonnull n t : ~ admf tm n t VNull.
Proof. destruct n; cbn [admf]; tauto. Qed.

Lemma admf_alias n t nm i cm v : lookup tm t = Some (DAlias nm (LInt i) cm) -> admf tm n t v -> exists x, v = VInt x.
Proof.
  intros Hl H. destruct v as [z|b|l|cls vs|]; [eauto| | | |].
  - destruct n; cbn [admf] in H; rewrite Hl in H; contradiction.
  - destruct n; cbn [admf] in H; contradiction.
  - apply admf_vstruct_type in H as [s' H]. congruence.
  - now apply admf_nonnull in H.
Qed.

Lemma admf_struct n t s0 v : lookup tm t = Some (DStruct s0) -> admf tm n t v -> is_vstruct v = true.
Proof.
  intros Hl H. destruct v as [z|b|l|cls vs|]; [| | |reflexivity|].
  - destruct n; cbn [admf] in H; rewrite Hl in H; contradiction.
  - destruct n; cbn [admf] in H; rewrite Hl in H; contradiction.
  - destruct n; cbn [admf] in H; contradiction.
  - now apply admf_nonnull in H.
Qed.

Lemma admf_enum n t nm b vs at_ cm v : lookup tm t = Some (DEnum nm b vs at_ cm) -> admf tm n t v ->
  exists z, v = VInt z /\ enum_valid vs (is_bitwise at_) z = true.
Proof.
  intros Hl H. destruct v as [z|bs|l|cls vs'|].
  - exists z. split; [reflexivity|]. destruct n; cbn [admf] in H; rewrite Hl in H; tauto.
  - destruct n; cbn [admf] in H; rewrite Hl in H; contradiction.
  - destruct n; cbn [admf] in H; contradiction.
  - apply admf_vstruct_type in H as [s' H]. congruence.
  - now apply admf_nonnull in H.
Qed.

(* ---- the schema-only premise ---- *)
Definition leaf_okd (d : decl) : bool :=
  match d with
  | DAlias _ (LInt i) _ => (0 <? it_size i) && it_unsigned i
  | DAlias _ (LBuffer m) _ => 0 <? m
  | DEnum _ b _ _ _ => 0 <? it_size b
  | DStruct _ => true
  end.

Definition self_lookupb (c : struct) : bool :=
  match lookup tm (s_name c) with Some (DStruct c') => if struct_eq_dec c' c then true else false | _ => false end.

(* a concrete struct: in the round-trip fragment (struct_okb), found under its own name, every member the value types satisfies
   pres_memberb, and when it has a factory type the parent's factory finds it (factory_okb) *)
Definition struct_presb (c : struct) : bool :=
  self_lookupb c && struct_okb tm c
  && forallb (pres_memberb tm (nc c) (settable_fields c) (typed_members tm c)) (typed_members tm c)
  && match s_factory_type c with
     | None => true
     | Some t => match lookup_struct tm t with Some a => factory_okb tm t a c | None => false end
     end.

Definition pres_schemab : bool :=
  forallb (fun d => leaf_okd d && match d with DStruct c => match s_disp c with SdAbstract => true | _ => struct_presb c end | _ => true end) tm.

Hypothesis Hschema : pres_schemab = true.

Lemma lookup_in t d : lookup tm t = Some d -> In d tm.
Proof. unfold lookup. intros H. now apply find_some in H as [H _]. Qed.

Lemma schema_leaf t d : lookup tm t = Some d -> leaf_okd d = true.
Proof.
  intros H. apply lookup_in in H. unfold pres_schemab in Hschema. rewrite forallb_forall in Hschema. specialize (Hschema d H).
  now apply Bool.andb_true_iff in Hschema as [H1 _].
Qed.

Lemma schema_struct c : In (DStruct c) tm -> s_disp c <> SdAbstract -> struct_presb c = true.
Proof.
  intros H Hc. unfold pres_schemab in Hschema. rewrite forallb_forall in Hschema. specialize (Hschema _ H).
  apply Bool.andb_true_iff in Hschema as [_ H2]. destruct (s_disp c); try exact H2. contradiction.
Qed.

Lemma pres_memberb_classified allfs st ty f : pres_memberb tm allfs st ty f = true -> classify tm allfs f <> None.
Proof. unfold pres_memberb. destruct (classify tm allfs f); [discriminate|discriminate]. Qed.

(* ---- leaves ---- *)
Lemma dec_leaf_pres k t buf v n : dec OP tm (S k) t buf = Ok v -> (forall s0, lookup tm t <> Some (DStruct s0)) -> admf tm n t v.
Proof.
  intros H Hns. cbn [dec] in H. destruct (lookup tm t) as [[nm [i|m] cm|nm b vs at_ cm|s0]|] eqn:Hl; try discriminate.
  - pose proof (schema_leaf t _ Hl) as Hleaf. cbn [leaf_okd] in Hleaf. apply Bool.andb_true_iff in Hleaf as [Hw Hu].
    inv_ok H. injection H as <-. destruct n; cbn [admf]; rewrite Hl; split; try lia; exact Hu.
  - pose proof (schema_leaf t _ Hl) as Hleaf. cbn [leaf_okd] in Hleaf.
    unfold get_bytes in H. unfold OP in H. rewrite get_bytes_bad_now in H. inv_ok H. inv_ok E. injection E as <-. injection H as <-.
    assert (Hlen : Z.of_nat (length (zfirstn m buf)) = m).
    { unfold zfirstn. destruct (Z.of_nat (length buf) <=? m) eqn:Hle; [lia|]. rewrite firstn_length. lia. }
    destruct n; cbn [admf]; rewrite Hl; split; try lia.
  - pose proof (schema_leaf t _ Hl) as Hleaf. cbn [leaf_okd] in Hleaf.
    inv_ok H. injection H as <-. destruct n; cbn [admf]; rewrite Hl; split; try lia; assumption.
  - exfalso. now apply (Hns s0).
Qed.

(* ---- one struct level ---- *)
Section Level.
Variable n k' : nat.
Hypothesis IH : forall t buf v, dec_any tm (Rk tm k') t buf = Ok v -> admf tm n t v.

Notation fp := (fun sx allfs => fields_pres ops_now tm (Rk tm k') sx allfs get_bytes_bad_now (admf tm n) IH (admf_alias n)).

Lemma dec_struct_pres c buf v : struct_presb c = true -> s_disp c <> SdAbstract -> dec_struct OP tm (S k') c buf = Ok v ->
  exists e, v = VStruct (s_name c) (collected (settable_fields c) e) /\ admf tm (S n) (s_name c) v /\
    forall a, base_struct tm c = Some a ->
      exists e1 ws we, dec_header_with OP tm (Rk tm k') a (nc c) buf = Ok (e1, ws, we) /\
        forall f, In f (nc a) -> f_name f <> "size" ->
          In f (typed_members tm c) /\ exists w, eget e1 (f_name f) = Some w /\ eget e (f_name f) = Some w.
Proof.
  intros Hp Hconc H. unfold OP in *. unfold struct_presb in Hp.
  apply Bool.andb_true_iff in Hp as [Hp Hfac]. apply Bool.andb_true_iff in Hp as [Hp Hmem]. apply Bool.andb_true_iff in Hp as [Hself Hokb].
  assert (Hself' : lookup tm (s_name c) = Some (DStruct c)).
  { unfold self_lookupb in Hself. destruct (lookup tm (s_name c)) as [[| |c']|]; try discriminate. destruct (struct_eq_dec c' c) as [->|]; [reflexivity|discriminate]. }
  pose proof (struct_okb_sound tm c Hself' Hokb) as Hok.
  set (allfs := nc c) in *.
  assert (Hcl : forall f, In f (typed_members tm c) -> classify tm allfs f <> None).
  { intros f Hf. rewrite forallb_forall in Hmem. exact (pres_memberb_classified _ _ _ f (Hmem f Hf)). }
  assert (Hadm_of_env : forall e, env_typed tm allfs (admf tm n) (typed_members tm c) e ->
            admf tm (S n) (s_name c) (VStruct (s_name c) (collected (settable_fields c) e))).
  { intros e Henv. cbn [admf]. unfold lookup_struct. rewrite Hself'. split; [reflexivity|]. split; [exact Hok|].
    split; [unfold collected; rewrite map_map; reflexivity|]. split; [|now left].
    exact (typed_from_env tm allfs (admf tm n) (admf_nonnull n) (admf_struct n) (admf_enum n) (s_name c) (settable_fields c) (typed_members tm c) e Henv Hmem). }
  destruct Hok as [Hflat|[(a & f0 & i & hrest & Hb)|(a & hfs & Hb)]].
  - (* no parent *)
    destruct Hflat as [Hlk Hnb Hns _ Hnd Hnosz Hord _ _].
    rewrite (dec_struct_S_no_base tm k' c buf Hconc (base_none tm c Hnb)), (own_fields_no_base tm c Hnb) in H. fold allfs in H.
    inv_ok H. injection H as <-.
    assert (Htm : typed_members tm c = allfs) by (unfold typed_members; now rewrite (base_none tm c Hnb)).
    destruct (fp c allfs allfs [] [] [] buf _ [] Hord ltac:(intros f Hf; apply Hcl; now rewrite Htm) ltac:(split; [exact Hnd | intros f _ []]) ltac:(intros f []) E) as [Henv _].
    cbn [app] in Henv. exists (fst a). split; [reflexivity|]. split; [apply Hadm_of_env; now rewrite Htm|].
    intros a' Ha'. rewrite (base_none tm c Hnb) in Ha'. discriminate.
  - (* parent with the @size member first *)
    destruct Hb as [Hlk Hbase _ Hall Hpar Hnd Hattr_a Hattr_s Hf0n Hf0t Hf0w Hf0u Hf0c Hf0r Hf0s Hord_h Hord_o _].
    fold allfs in Hall, Hord_h, Hord_o. set (own := own_fields tm c) in *.
    rewrite (dec_struct_S_base tm k' c a buf Hconc Hbase) in H. fold allfs own in H.
    destruct (dec_header_with ops_now tm (Rk tm k') a allfs buf) as [[[e0 ws] we]| |] eqn:Hh; cbn [bind] in H; try discriminate.
    inv_ok H. injection H as <-.
    pose proof Hh as Hh0. unfold dec_header_with in Hh. rewrite Hpar in Hh. cbv zeta in Hh. inv_ok Hh. injection Hh as <- _ _.
    cbn [deserialize_loop] in E0. rewrite Hf0c in E0.
    unfold deserialize_field at 1 in E0. rewrite (cond_local_none tm allfs [] f0 Hf0c) in E0. cbn [bind] in E0.
    unfold load_field at 1 in E0. rewrite Hf0t, Hf0r in E0. cbv zeta in E0. cbn [bind fst snd find drain_queue] in E0. rewrite Hf0n in E0.
    cbn [map] in Hnd. rewrite Hf0n in Hnd. inversion Hnd as [|? ? Hsize_notin Hnd']; subst. rewrite map_app in Hnd', Hsize_notin.
    assert (Htm : typed_members tm c = hrest ++ own) by (unfold typed_members; fold allfs; now rewrite Hbase, Hattr_a, Hall).
    match type of E0 with deserialize_loop _ _ _ _ _ _ _ _ _ ?e1 ?b1 = _ =>
      destruct (fp a allfs hrest [] ["size"] e1 b1 _ [] Hord_h ltac:(intros f Hf; apply Hcl; rewrite Htm; apply in_or_app; now left)
                  ltac:(split; [exact (nodup_app_l _ _ Hnd') | intros f Hf [Heq|[]]; cbn [fst] in Heq; apply Hsize_notin; rewrite Heq; apply in_or_app; left; now apply in_map])
                  ltac:(intros f []) E0) as [Henv_h Hext_h]
    end.
    cbn [app] in Henv_h.
    assert (Hfr_o : fresh_names own (fst a1)).
    { split; [exact (nodup_app_r _ _ Hnd')|]. intros f Hf Hin. apply (proj1 Hext_h) in Hin as [Hin|Hin].
      - clear - Hnd' Hin Hf. induction (map f_name hrest) as [|x l IHl]; [contradiction|]. cbn [app] in Hnd'. inversion Hnd' as [|? ? Hn Hd]; subst.
        destruct Hin as [->|Hin]; [|now apply IHl]. apply Hn. apply in_or_app. right. now apply in_map.
      - cbn [map fst In] in Hin. destruct Hin as [Heq|[]]. apply Hsize_notin. rewrite Heq. apply in_or_app. right. now apply in_map. }
    destruct (fp c allfs own hrest [] (fst a1) _ _ hrest Hord_o ltac:(intros f Hf; apply Hcl; rewrite Htm; apply in_or_app; now right) Hfr_o Henv_h E) as [Henv_o Hext_o].
    exists (fst a0). split; [reflexivity|]. split; [apply Hadm_of_env; now rewrite Htm|].
    intros a' Ha'. rewrite Hbase in Ha'. injection Ha' as <-. exists (fst a1), ws, we. split; [exact Hh0|].
    intros f Hf Hns. rewrite Hpar in Hf. destruct Hf as [<-|Hf]; [contradiction|].
    split; [rewrite Htm; apply in_or_app; now left|].
    destruct (Henv_h f Hf) as (kf & w & _ & Hw & _). exists w. split; [exact Hw | exact (proj2 Hext_o _ _ Hw)].
  - (* parent without @size member *)
    destruct Hb as [Hlk Hbase _ Hall Hpar Hnd Hattr_a Hattr_s Hnosz Hord_h Hord_o _ _].
    fold allfs in Hall, Hord_h, Hord_o. set (own := own_fields tm c) in *.
    rewrite (dec_struct_S_base tm k' c a buf Hconc Hbase) in H. fold allfs own in H.
    destruct (dec_header_with ops_now tm (Rk tm k') a allfs buf) as [[[e0 ws] we]| |] eqn:Hh; cbn [bind] in H; try discriminate.
    inv_ok H. injection H as <-.
    pose proof Hh as Hh0. unfold dec_header_with in Hh. rewrite Hpar in Hh. cbv zeta in Hh. inv_ok Hh. injection Hh as <- _ _.
    rewrite map_app in Hnd.
    assert (Htm : typed_members tm c = hfs ++ own) by (unfold typed_members; fold allfs; now rewrite Hbase, Hattr_a, Hall).
    destruct (fp a allfs hfs [] [] [] buf _ [] Hord_h ltac:(intros f Hf; apply Hcl; rewrite Htm; apply in_or_app; now left)
                ltac:(split; [exact (nodup_app_l _ _ Hnd) | intros f _ []]) ltac:(intros f []) E0) as [Henv_h Hext_h].
    cbn [app] in Henv_h.
    assert (Hfr_o : fresh_names own (fst a1)).
    { split; [exact (nodup_app_r _ _ Hnd)|]. intros f Hf Hin. apply (proj1 Hext_h) in Hin as [Hin|[]].
      clear - Hnd Hin Hf. induction (map f_name hfs) as [|x l IHl]; [contradiction|]. cbn [app] in Hnd. inversion Hnd as [|? ? Hn Hd]; subst.
      destruct Hin as [->|Hin]; [|now apply IHl]. apply Hn. apply in_or_app. right. now apply in_map. }
    destruct (fp c allfs own hfs [] (fst a1) _ _ hfs Hord_o ltac:(intros f Hf; apply Hcl; rewrite Htm; apply in_or_app; now right) Hfr_o Henv_h E) as [Henv_o Hext_o].
    exists (fst a0). split; [reflexivity|]. split; [apply Hadm_of_env; now rewrite Htm|].
    intros a' Ha'. rewrite Hbase in Ha'. injection Ha' as <-. exists (fst a1), ws, we. split; [exact Hh0|].
    intros f Hf Hns. rewrite Hpar in Hf.
    split; [rewrite Htm; apply in_or_app; now left|].
    destruct (Henv_h f Hf) as (kf & w & _ & Hw & _). exists w. split; [exact Hw | exact (proj2 Hext_o _ _ Hw)].
Qed.

Lemma dec_pres t buf v : dec OP tm (S (S k')) t buf = Ok v -> admf tm (S n) t v.
Proof.
  intros H. destruct (lookup tm t) as [[| |c]|] eqn:Hl.
  1,2,4: apply (dec_leaf_pres (S k') t buf v (S n) H); intros s0 Hs0; congruence.
  unfold OP in H. rewrite (dec_struct_type tm (S k') t c buf Hl) in H.
  assert (Hconc : s_disp c <> SdAbstract) by (intros Habs; cbn [dec_struct] in H; rewrite Habs in H; discriminate).
  destruct (dec_struct_pres c buf v (schema_struct c (lookup_in t _ Hl) Hconc) Hconc H) as (e & _ & Hadm & _).
  assert (Hn : s_name c = t).
  { unfold lookup in Hl. apply find_some in Hl as [_ Hl]. now apply String.eqb_eq in Hl. }
  now rewrite Hn in Hadm.
Qed.

Lemma decf_pres t buf v : decf OP tm (S (S k')) t buf = Ok v -> admf tm (S n) t v.
Proof.
  intros H. unfold OP in H. rewrite decf_S in H. destruct (lookup_struct tm t) as [a|] eqn:Hpar; [|discriminate].
  destruct (dec_header_with ops_now tm (Rk tm k') a (nc a) buf) as [[[e0 ws] we]| |] eqn:Hh; cbn [bind] in H; try discriminate.
  destruct (find_attr (s_attrs a) "discriminator") as [da|] eqn:Hda; [|discriminate].
  destruct (factory_pick tm t (names_of da) (map (fun n0 => eget e0 n0) (names_of da))) as [[| |c]|] eqn:Hpick; try discriminate.
  assert (Hc_in : In (DStruct c) tm /\ s_factory_type c = Some t).
  { unfold factory_pick in Hpick. apply find_some in Hpick as [Hin _]. apply in_rev in Hin. unfold fchildren in Hin. apply filter_In in Hin as [Hin Hft].
    split; [exact Hin|]. destruct (s_factory_type c) as [t'|]; [|discriminate]. apply String.eqb_eq in Hft. now subst. }
  destruct Hc_in as [Hc_in Hft].
  assert (Hconc : s_disp c <> SdAbstract) by (intros Habs; cbn [dec_struct] in H; rewrite Habs in H; discriminate).
  pose proof (schema_struct c Hc_in Hconc) as Hp.
  destruct (dec_struct_pres c buf v Hp Hconc H) as (e & Hv & Hadm & Hhdr).
  unfold struct_presb in Hp. apply Bool.andb_true_iff in Hp as [Hp Hfac]. apply Bool.andb_true_iff in Hp as [Hp Hmem].
  apply Bool.andb_true_iff in Hp as [Hself _].
  assert (Hself' : lookup_struct tm (s_name c) = Some c).
  { unfold self_lookupb in Hself. unfold lookup_struct. destruct (lookup tm (s_name c)) as [[| |c']|]; try discriminate. destruct (struct_eq_dec c' c) as [->|]; [reflexivity|discriminate]. }
  rewrite Hft, Hpar in Hfac. pose proof (factory_okb_sound tm t a c Hpar Hfac) as Hfo.
  assert (Hbase : base_struct tm c = Some a) by (unfold base_struct; now rewrite Hft).
  destruct (Hhdr a Hbase) as (e1 & ws1 & we1 & Hh1 & Hkeep). unfold OP in Hh1.
  rewrite (dec_header_allfs_ext tm (Rk tm k') a (nc a) (nc c) buf (fo_hdr tm _ _ _ Hfo)) in Hh. rewrite Hh1 in Hh. injection Hh as <- _ _.
  subst v. cbn [admf] in Hadm |- *. rewrite Hself' in Hadm |- *.
  destruct Hadm as (H1 & H2 & H3 & H4 & _). repeat split; try assumption. right. exists a. split; [exact Hfo|].
  unfold disc_names. rewrite Hda. rewrite <- Hpick. f_equal. apply map_ext_in. intros nm Hnm.
  destruct (fo_names tm _ _ _ Hfo nm ltac:(unfold disc_names; now rewrite Hda)) as (Hns & f & Hf & Hfn & Hk).
  destruct (Hkeep f Hf ltac:(now rewrite Hfn)) as (Hty & w & Hw1 & Hw). rewrite Hfn in Hw1, Hw.
  rewrite Hw1. rewrite forallb_forall in Hmem. pose proof (Hmem f Hty) as Hb. unfold pres_memberb in Hb.
  assert (Hin : name_in (settable_fields c) nm = true).
  { destruct Hk as [(i & Hk)|(t' & Hk)]; rewrite Hk in Hb; now rewrite Hfn in Hb. }
  rewrite (vget_collected (s_name c) (settable_fields c) e nm Hin), Hw. reflexivity.
Qed.

End Level.

(* ---- induction on the fuel, two levels at a time ---- *)
Definition decoded_adm (k : nat) : Prop :=
  (forall t buf v, dec OP tm k t buf = Ok v -> admf tm (Nat.div2 k) t v) /\
  (forall t buf v, decf OP tm k t buf = Ok v -> admf tm (Nat.div2 k) t v).

Lemma decoded_adm_any (k : nat) : decoded_adm k -> forall t buf v, dec_any tm (Rk tm k) t buf = Ok v -> admf tm (Nat.div2 k) t v.
Proof. intros [Hd Hf] t buf v H. unfold dec_any in H. cbn [Rk dec_t decf_t] in H. destruct (is_abs tm t); [now apply (Hf t buf) | now apply (Hd t buf)]. Qed.

Lemma decoded_adm_all : forall k, decoded_adm k /\ decoded_adm (S k).
Proof.
  induction k as [|k [IH0 IH1]].
  - split; split; intros t buf v H; try discriminate.
    destruct (lookup tm t) as [[| |c]|] eqn:Hl.
    1,2,4: apply (dec_leaf_pres 0 t buf v _ H); intros s0 Hs0; congruence.
    cbn [dec] in H. rewrite Hl in H. discriminate.
  - split; [exact IH1|]. split; intros t buf v H; cbn [Nat.div2].
    + exact (dec_pres (Nat.div2 k) k (decoded_adm_any k IH0) t buf v H).
    + exact (decf_pres (Nat.div2 k) k (decoded_adm_any k IH0) t buf v H).
Qed.

Theorem dec_admissible k t buf v : dec OP tm k t buf = Ok v -> admf tm (Nat.div2 k) t v.
Proof. exact (proj1 (proj1 (decoded_adm_all k)) t buf v). Qed.

Theorem decf_admissible k t buf v : decf OP tm k t buf = Ok v -> admf tm (Nat.div2 k) t v.
Proof. exact (proj2 (proj1 (decoded_adm_all k)) t buf v). Qed.

Lemma div2_fuel k K : (k <= K)%nat -> (Nat.odd k = true \/ (k < K)%nat) -> (2 * Nat.div2 k + 1 <= K)%nat.
Proof.
  intros Hle H. pose proof (Nat.div2_odd k) as Hd. destruct (Nat.odd k) eqn:Ho; cbn [Nat.b2n] in Hd; [lia|].
  destruct H as [H|H]; [discriminate|lia].
Qed.

(* decode - encode - decode: whatever decodes (fuel k), if it re-encodes (fuel K), decodes again from the re-encoded bytes, followed by
   anything, to the same value, whose size is the number of re-encoded bytes *)
Theorem stable_dec k K t buf v b' rest : (2 * Nat.div2 k + 1 <= K)%nat -> is_abs tm t = false ->
  dec OP tm k t buf = Ok v -> enc OP tm K t v = Ok b' ->
  dec OP tm K t (b' ++ rest) = Ok v /\ size OP tm K t v = Ok (Z.of_nat (length b')) /\ (0 < length b')%nat.
Proof.
  intros HK Hna Hd He. exact (RT_dec tm (Nat.div2 k) K t v b' rest HK (conj (dec_admissible k t buf v Hd) Hna) He).
Qed.

Theorem stable_decf k K t buf v b' rest : (2 * Nat.div2 k + 1 <= K)%nat -> is_abs tm t = true ->
  decf OP tm k t buf = Ok v -> enc OP tm K t v = Ok b' ->
  decf OP tm K t (b' ++ rest) = Ok v /\ size OP tm K t v = Ok (Z.of_nat (length b')) /\ (0 < length b')%nat.
Proof.
  intros HK Ha Hd He. exact (RT_decf tm (Nat.div2 k) K t v b' rest HK (decf_admissible k t buf v Hd) Ha He).
Qed.

(* the same fuel on both sides, for every odd fuel *)
Theorem stable_dec_odd m t buf v b' : is_abs tm t = false ->
  dec OP tm (2 * m + 1)%nat t buf = Ok v -> enc OP tm (2 * m + 1)%nat t v = Ok b' ->
  (forall rest, dec OP tm (2 * m + 1)%nat t (b' ++ rest) = Ok v) /\
  (forall v2, dec OP tm (2 * m + 1)%nat t b' = Ok v2 -> v2 = v /\ enc OP tm (2 * m + 1)%nat t v2 = Ok b') /\
  size OP tm (2 * m + 1)%nat t v = Ok (Z.of_nat (length b')).
Proof.
  intros Hna Hd He.
  assert (HK : (2 * Nat.div2 (2 * m + 1) + 1 <= 2 * m + 1)%nat).
  { pose proof (Nat.div2_odd (2 * m + 1)%nat) as Hd2. destruct (Nat.odd (2 * m + 1)%nat); cbn [Nat.b2n] in Hd2; lia. }
  split; [intros rest; exact (proj1 (stable_dec _ _ t buf v b' rest HK Hna Hd He))|]. split.
  - intros v2 Hv2. pose proof (proj1 (stable_dec _ _ t buf v b' [] HK Hna Hd He)) as H0. rewrite app_nil_r in H0.
    assert (v2 = v) by congruence. subst v2. now split.
  - exact (proj1 (proj2 (stable_dec _ _ t buf v b' [] HK Hna Hd He))).
Qed.

End Stable.
