(* Re-encoding of decoded values (the premise `enc v = Ok b'` of the stability theorems of StructStable2.v), part 1:
   integers read from bytes are in range; sub-buffers of byte buffers are byte buffers; the sub-objects of a value and the premise
   `small lim v` (every sub-object's size, at any fuel and static type, is below lim); arrays: what read_array_impl /
   read_variable_size_elements accepted, write_array_impl / write_variable_size_elements accept again (same keys, same order test,
   padding below the alignment), the number of elements of a counted array is its count member, the byte size of a variable-size array
   is at most the view it was read from. *)
From Symv Require Import Base.Bytes Base.PyOps Base.BytesLemmas Cats.Layout Cats.LayoutInst Cats.LayoutProofs Cats.ArrayProofs Cats.LayoutLaws
  Cats.LayoutInstProofs Cats.StructProofs Cats.StructStable.
From Coq Require Import Lia ZifyBool.
Open Scope string_scope.
Open Scope list_scope.
Open Scope Z_scope.

(* ---- integers ---- *)
Lemma pow2_nonneg x : 0 <= 2 ^ x.
Proof. apply Z.pow_nonneg. lia. Qed.

Lemma from_bytes_in_range w signed buf : wf_bytes buf = true -> (1 <= w)%nat -> int_in_range w signed (py_from_bytes w signed buf) = true.
Proof.
  intros Hwf Hw. unfold py_from_bytes, int_in_range.
  pose proof (from_le_bound (firstn w buf) (wf_firstn w buf Hwf)) as Hb.
  set (m := length (firstn w buf)) in *. assert (Hm : (m <= w)%nat) by (unfold m; rewrite firstn_length; lia).
  assert (Hmono : 2 ^ (8 * Z.of_nat m) <= 2 ^ (8 * Z.of_nat w)) by (apply Z.pow_le_mono_r; lia).
  destruct signed.
  - unfold from_le_signed. fold m.
    assert (Hw2 : 2 ^ (8 * Z.of_nat w) = 2 * 2 ^ (8 * Z.of_nat w - 1)) by (rewrite <- (Z.pow_succ_r 2) by lia; f_equal; lia).
    destruct m as [|m'].
    + change (8 * Z.of_nat 0) with 0 in *. change (2 ^ 0) with 1 in *.
      assert (from_le (firstn w buf) = 0) as -> by lia. change (2 * 0 <? 1) with true. cbv iota. pose proof (pow2_nonneg (8 * Z.of_nat w - 1)). lia.
    + set (mm := 2 ^ (8 * Z.of_nat (S m'))) in *.
      assert (Hmm : mm = 2 * 2 ^ (8 * Z.of_nat (S m') - 1)) by (unfold mm; rewrite <- (Z.pow_succ_r 2) by lia; f_equal; lia).
      assert (Hh : 2 ^ (8 * Z.of_nat (S m') - 1) <= 2 ^ (8 * Z.of_nat w - 1)) by (apply Z.pow_le_mono_r; lia).
      destruct (Z.ltb_spec (2 * from_le (firstn w buf)) mm); lia.
  - lia.
Qed.

Lemma in_range_between w signed x z : int_in_range w signed x = true -> 0 <= z <= Z.max 0 x -> int_in_range w signed z = true.
Proof.
  unfold int_in_range. intros H Hz. destruct signed.
  - pose proof (pow2_nonneg (8 * Z.of_nat w - 1)). lia.
  - lia.
Qed.

Lemma in_range_small (w : nat) (signed : bool) (lim z : Z) : 0 <= z < lim -> lim <= (if signed then 2 ^ (8 * Z.of_nat w - 1) else 2 ^ (8 * Z.of_nat w)) -> int_in_range w signed z = true.
Proof. unfold int_in_range. intros Hz Hl. destruct signed; [pose proof (pow2_nonneg (8 * Z.of_nat w - 1))|]; lia. Qed.

Lemma py_to_bytes_ok w signed z : int_in_range w signed z = true -> exists b, py_to_bytes w signed z = Ok b.
Proof. intros H. unfold py_to_bytes. rewrite H. eauto. Qed.

(* ---- sub-buffers ---- *)
Lemma wf_zfirstn n b : wf_bytes b = true -> wf_bytes (zfirstn n b) = true.
Proof. intros H. unfold zfirstn. destruct (_ <=? _); [exact H | now apply wf_firstn]. Qed.
Lemma wf_zskipn n b : wf_bytes b = true -> wf_bytes (zskipn n b) = true.
Proof. intros H. unfold zskipn. destruct (_ <=? _); [reflexivity | now apply wf_skipn]. Qed.
Lemma zfirstn_length n b : Z.of_nat (length (zfirstn n b)) <= Z.max 0 n /\ (length (zfirstn n b) <= length b)%nat.
Proof. unfold zfirstn. destruct (Z.leb_spec (Z.of_nat (length b)) n); [lia|]. rewrite firstn_length. lia. Qed.
Lemma zskipn_length n b : 0 <= n -> Z.of_nat (length (zskipn n b)) = Z.max 0 (Z.of_nat (length b) - n).
Proof. intros Hn. unfold zskipn. destruct (Z.leb_spec (Z.of_nat (length b)) n); [cbn [length]; lia|]. rewrite skipn_length. lia. Qed.

(* ---- sub-objects of a value; the size premise ---- *)
Fixpoint subvalues (v : value) : list value :=
  v :: match v with
       | VArr l => flat_map subvalues l
       | VStruct _ fs => flat_map (fun p => subvalues (snd p)) fs
       | _ => []
       end.

Lemma subvalues_self v : In v (subvalues v).
Proof. destruct v; now left. Qed.
Lemma subvalues_arr l e x : In e l -> In x (subvalues e) -> In x (subvalues (VArr l)).
Proof. intros He Hx. cbn [subvalues]. right. apply in_flat_map. eauto. Qed.
Lemma subvalues_member cls fs n w x : vget (VStruct cls fs) n = Some w -> In x (subvalues w) -> In x (subvalues (VStruct cls fs)).
Proof.
  unfold vget. destruct (find (fun p => String.eqb (fst p) n) fs) as [p|] eqn:Hf; [|discriminate]. intros H; injection H as <-.
  intros Hx. apply find_some in Hf as [Hin _]. cbn [subvalues]. right. apply in_flat_map. eauto.
Qed.

Section Arrays.
Variable tm : list decl.
Variable R : rec_ops.
Let OP := ops_now.

(* every sub-object's size (any fuel, any static type) is below lim *)
Definition small (lim : Z) (v : value) : Prop :=
  forall x K t sz, In x (subvalues v) -> size OP tm K t x = Ok sz -> sz < lim.

Lemma small_arr lim l e : small lim (VArr l) -> In e l -> small lim e.
Proof. intros H He x K t sz Hx. apply H. eapply subvalues_arr; eassumption. Qed.
Lemma small_member lim cls fs n w : small lim (VStruct cls fs) -> vget (VStruct cls fs) n = Some w -> small lim w.
Proof. intros H Hw x K t sz Hx. apply H. eapply subvalues_member; eassumption. Qed.

Variable a : array.
Variable G : value -> Prop.        (* what is known of a decoded element *)
Hypothesis dec_good : forall view e, wf_bytes view = true -> elem_dec tm R a view = Ok e -> G e.

Definition enc_ok (e : value) : Prop := exists be, elem_enc R a e = Ok be.

(* counted / fill arrays *)
Lemma read_go_good : forall fuel ua rule i prev view l, wf_bytes view = true ->
  read_array_go OP tm R a ua fuel rule i prev view = Ok l -> Forall G l /\ (length l <= fuel)%nat.
Proof.
  induction fuel as [|fuel IH]; intros ua rule i prev view l Hwf H; cbn [read_array_go] in H; cbv zeta in H.
  - inv_ok H; injection H as <-. split; [constructor | cbn; lia].
  - destruct (negb _) eqn:Hc; [injection H as <-; split; [constructor | cbn; lia]|].
    inv_ok H. injection H as <-.
    match goal with Hr : read_array_go _ _ _ _ _ _ _ _ _ _ = Ok _ |- _ => destruct (IH _ _ _ _ _ _ (wf_zskipn _ _ Hwf) Hr) as [Hall Hlen] end.
    split; [constructor; [eapply dec_good; eassumption | exact Hall] | cbn [length]; lia].
Qed.

Lemma read_count_len : forall fuel ua x i prev view l,
  read_array_go OP tm R a ua fuel (StopCount x) i prev view = Ok l -> Z.of_nat (length l) = Z.max 0 (x - i).
Proof.
  induction fuel as [|fuel IH]; intros ua x i prev view l H; cbn [read_array_go] in H; cbv zeta in H.
  - inv_ok H; injection H as <-. cbn [length]. lia.
  - destruct (negb (i <? x)) eqn:Hc; [injection H as <-; cbn [length]; lia|].
    inv_ok H. injection H as <-.
    match goal with Hr : read_array_go _ _ _ _ _ _ _ _ _ _ = Ok _ |- _ => pose proof (IH _ _ _ _ _ _ Hr) as Hl end.
    cbn [length]. lia.
Qed.

Lemma elem_key_not_none e sk : a_sort_key a = Some sk -> elem_key tm R a e <> Ok None.
Proof.
  intros Hsk Hk. unfold elem_key in Hk. rewrite Hsk in Hk.
  destruct (elem_name a) as [et|]; [|discriminate]. destruct (lookup_struct tm et) as [es|]; [|discriminate].
  destruct (find_field (s_fields es) sk) as [kf|]; [|discriminate]. destruct (vget e sk) as [kv|]; [|discriminate].
  destruct (f_type kf) as [ki|kt|ka]; [destruct kv; discriminate| |discriminate].
  destruct (key_t R kt kv); cbn [bind] in Hk; discriminate.
Qed.

Lemma read_write_ok : forall fuel ua rule i prev view l,
  (ua = true \/ a_sort_key a = None) -> (a_sort_key a = None -> prev = None) ->
  read_array_go OP tm R a ua fuel rule i prev view = Ok l -> Forall enc_ok l ->
  exists b, write_array_go OP tm R a prev l (length l) = Ok b.
Proof.
  induction fuel as [|fuel IH]; intros ua rule i prev view l Hua Hprev H Henc; cbn [read_array_go] in H; cbv zeta in H.
  - inv_ok H; injection H as <-. cbn. eauto.
  - destruct (negb _) eqn:Hc; [injection H as <-; cbn; eauto|].
    destruct (elem_dec tm R a view) as [e| |] eqn:He; cbn [bind] in H; try discriminate.
    destruct (elem_size R a e) as [s| |] eqn:Hs; cbn [bind] in H; try discriminate.
    destruct (size_bad OP s) eqn:Hsb; [discriminate|].
    destruct (if ua then elem_key tm R a e else Ok None) as [k| |] eqn:Hk; cbn [bind] in H; try discriminate.
    match type of H with (if ?bad then _ else _) = _ => destruct bad eqn:Hbad; [discriminate|] end.
    destruct (read_array_go OP tm R a ua fuel rule (i + 1) (match k with Some _ => k | None => prev end) (zskipn s view)) as [r| |] eqn:Hr; cbn [bind] in H; try discriminate.
    injection H as <-. inversion Henc as [|? ? [be Hbe] Hencr]; subst.
    assert (Hkey : elem_key tm R a e = Ok k /\ (a_sort_key a = None -> k = None)).
    { destruct (a_sort_key a) as [sk|] eqn:Hsk.
      - destruct Hua as [->|Hn]; [|discriminate]. split; [exact Hk | discriminate].
      - rewrite (elem_key_none tm R a e Hsk). destruct ua; [rewrite (elem_key_none tm R a e Hsk) in Hk|]; injection Hk as <-; now split. }
    destruct Hkey as [Hkey Hknone].
    assert (Hprev' : match k with Some _ => k | None => prev end = k).
    { destruct k; [reflexivity|]. destruct (a_sort_key a) as [sk|] eqn:Hsk; [|now apply Hprev].
      destruct Hua as [->|Hn]; [|discriminate]. exfalso. exact (elem_key_not_none e sk Hsk Hk). }
    rewrite Hprev' in Hr.
    destruct (IH ua rule (i + 1) k (zskipn s view) r Hua Hknone Hr Hencr) as [br Hbr].
    cbn [length write_array_go]. rewrite Hkey. cbn [bind].
    assert (Hbad' : match prev, k with Some p, Some c => order_bad_w OP p c | _, _ => false end = false).
    { destruct prev, k; try reflexivity. exact Hbad. }
    rewrite Hbad', Hbe. cbn [bind]. rewrite Hbr. cbn [bind]. eauto.
Qed.

(* variable-size arrays *)
Lemma read_var_good : forall fuel view l, wf_bytes view = true -> read_variable OP tm R a fuel view = Ok l ->
  Forall G l /\ (length l <= fuel)%nat.
Proof.
  induction fuel as [|fuel IH]; intros view l Hwf H; cbn [read_variable] in H; cbv zeta in H.
  - destruct view; [injection H as <-; split; [constructor | cbn; lia] | discriminate].
  - destruct view as [|x view]; [injection H as <-; split; [constructor | cbn; lia]|].
    inv_ok H. injection H as <-.
    match goal with Hr : read_variable _ _ _ _ _ _ = Ok _ |- _ => destruct (IH _ _ (wf_zskipn _ _ Hwf) Hr) as [Hall Hlen] end.
    split; [constructor; [eapply dec_good; eassumption | exact Hall] | cbn [length]; lia].
Qed.

Lemma read_var_size : forall fuel view l, 0 < alignment_of a -> read_variable OP tm R a fuel view = Ok l ->
  exists tot, array_size_with OP (elem_size R a) l (alignment_of a) (skip_last a) = Ok tot /\ 0 <= tot <= Z.of_nat (length view).
Proof.
  intros fuel view l Hal. revert view l.
  induction fuel as [|fuel IH]; intros view l H; cbn [read_variable] in H; cbv zeta in H.
  - destruct view; [injection H as <-; exists 0; cbn; split; [reflexivity|lia] | discriminate].
  - destruct view as [|x view]; [injection H as <-; exists 0; cbn; split; [reflexivity|lia]|].
    set (vw := x :: view) in *.
    destruct (elem_dec tm R a vw) as [e| |] eqn:He; cbn [bind] in H; try discriminate.
    destruct (elem_size R a e) as [s| |] eqn:Hs; cbn [bind] in H; try discriminate.
    destruct (size_bad_v OP s) eqn:Hsb; [discriminate|]. change (size_bad_v OP s) with (s <=? 0) in Hsb.
    change (rv_is_last OP s (Z.of_nat (length vw))) with (Z.of_nat (length vw) <=? s) in H.
    set (al := if skip_last a && (Z.of_nat (length vw) <=? s) then s else align_up OP s (alignment_of a)) in *.
    change (rv_overrun OP al (Z.of_nat (length vw))) with (Z.of_nat (length vw) <? al) in H.
    destruct (Z.of_nat (length vw) <? al) eqn:Hov; [discriminate|].
    destruct (read_variable OP tm R a fuel (zskipn al vw)) as [r| |] eqn:Hr; cbn [bind] in H; try discriminate.
    injection H as <-. destruct (IH _ _ Hr) as (tr & Htr & Hbr).
    pose proof (align_now s (alignment_of a) ltac:(lia) Hal) as Hau. fold OP in Hau.
    assert (Hal_s : s <= al) by (unfold al; destruct (_ && _); lia).
    assert (Hlen : Z.of_nat (length (zskipn al vw)) = Z.of_nat (length vw) - al) by (rewrite zskipn_length by lia; lia).
    destruct r as [|e2 r].
    + rewrite array_size_one, Hs. cbn [bind]. eexists. split; [reflexivity|].
      replace (alignment_of a =? 0) with false by lia. cbn [orb]. unfold al in *. destruct (skip_last a); cbn [andb] in *; [lia|lia].
    + rewrite array_size_cons by discriminate. rewrite Hs. cbn [bind]. rewrite Htr. cbn [bind]. eexists. split; [reflexivity|].
      replace (alignment_of a =? 0) with false by lia.
      (* a further element was read: the view was not exhausted, so this element was not the last and was padded *)
      assert (Hne : zskipn al vw <> []).
      { intros Hnil. rewrite Hnil in Hr. destruct fuel; cbn in Hr; discriminate. }
      assert (al = align_up OP s (alignment_of a)).
      { clear Hr Hlen Hal_s Hbr Hov. unfold al in *. destruct (skip_last a && (Z.of_nat (length vw) <=? s)) eqn:Hc; [|reflexivity]. exfalso. apply Hne.
        apply Bool.andb_true_iff in Hc as [_ Hc]. unfold zskipn. now replace (Z.of_nat (length vw) <=? s) with true by lia. }
      lia.
Qed.

Lemma read_var_write : forall fuel view l, 0 < alignment_of a <= 65536 -> read_variable OP tm R a fuel view = Ok l -> Forall enc_ok l ->
  exists b, write_variable OP R a l = Ok b.
Proof.
  intros fuel view l Hal. revert view l.
  induction fuel as [|fuel IH]; intros view l H Henc; cbn [read_variable] in H; cbv zeta in H.
  - destruct view; [injection H as <-; cbn; eauto | discriminate].
  - destruct view as [|x view]; [injection H as <-; cbn; eauto|].
    set (vw := x :: view) in *.
    destruct (elem_dec tm R a vw) as [e| |] eqn:He; cbn [bind] in H; try discriminate.
    destruct (elem_size R a e) as [s| |] eqn:Hs; cbn [bind] in H; try discriminate.
    destruct (size_bad_v OP s) eqn:Hsb; [discriminate|]. change (size_bad_v OP s) with (s <=? 0) in Hsb.
    match type of H with (if ?ov then _ else _) = _ => destruct ov; [discriminate|] end.
    match type of H with bind ?rd _ = _ => destruct rd as [r| |] eqn:Hr; cbn [bind] in H; try discriminate end.
    injection H as <-. inversion Henc as [|? ? [be Hbe] Hencr]; subst.
    destruct (IH _ _ Hr Hencr) as [br Hbr].
    cbn [write_variable]. rewrite Hbe. cbn [bind]. rewrite Hs. cbn [bind]. cbv zeta.
    assert (Hau : s <= align_up OP s (alignment_of a) < s + alignment_of a) by (apply align_now; lia).
    set (pad := if skip_last a && match r with [] => true | _ => false end then 0 else align_up OP s (alignment_of a) - s).
    assert (Hpad : (65536 <? pad) = false). { unfold pad. destruct (skip_last a && match r with [] => true | _ => false end); lia. }
    rewrite Hpad, Hbr. cbn [bind]. eauto.
Qed.

End Arrays.
