(* wf_schema: boolean well-formedness of an EXPANDED schema (Ast.v terms as AstPostProcessor.type_descriptors yields them) that
   characterises the dialect of the shipped schemas, i.e. what the layout interpreter Cats/Layout.v supports.  Model file: definitions only
   (proofs are in Cats/DialectProofs.v).  Fuel-free: by-value acyclicity is "declared before use".

   The check is a list of NAMED conditions per declaration (wf_report names the failing ones), in two groups:
   - schema-level conditions (references resolve to earlier declarations, widths, size/count/sizeof/@size discipline, parent/child prefix,
     discriminators and initializers, the three conditional styles, sort keys, aligned / fill array placement);
   - the static classification of every member against the branches of Layout.serialize_field / member_size / load_field / cond_* / key
     (ser_static_ok, des_static_ok, comparer_static_ok): DialectProofs.v proves that it excludes the Crash "Unsupported" outcomes. *)
From Symv Require Export Cats.Layout.
From Symv Require Import Cats.AstRender.
Open Scope string_scope.
Open Scope list_scope.
Open Scope Z_scope.

Definition bool_to_string (b : bool) : string := if b then "true" else "false".

Definition width_ok (w : Z) : bool := (w =? 1) || (w =? 2) || (w =? 4) || (w =? 8).
Definition uint_in_range (w x : Z) : bool := (0 <=? x) && (x <? 2 ^ (8 * w)).
Definition intty_ok (i : intty) : bool := width_ok (it_size i).
Definition intty_plain (i : intty) : bool := intty_ok i && match it_sizeref i with None => true | Some _ => false end.
Definition intty_eqb (a b : intty) : bool :=
  Bool.eqb (it_unsigned a) (it_unsigned b) && (it_size a =? it_size b)
  && match it_sizeref a, it_sizeref b with None, None => true | _, _ => false end.
Definition field_eqb (f g : field) : bool := String.eqb (r_field f) (r_field g).

Fixpoint unique (l : list string) : bool :=
  match l with [] => true | x :: r => negb (existsb (String.eqb x) r) && unique r end.
Fixpoint unique_z (l : list Z) : bool :=
  match l with [] => true | x :: r => negb (existsb (Z.eqb x) r) && unique_z r end.
Fixpoint index_of (fs : list field) (n : string) (i : nat) : option nat :=
  match fs with
  | [] => None
  | f :: r => if String.eqb (f_name f) n then Some i else index_of r n (S i)
  end.
(* member `a` is declared strictly before member `b` *)
Definition declared_before (fs : list field) (a b : string) : bool :=
  match index_of fs a O, index_of fs b O with Some i, Some j => Nat.ltb i j | _, _ => false end.
Fixpoint is_prefix (p l : list field) : bool :=
  match p, l with
  | [], _ => true
  | x :: p', y :: l' => field_eqb x y && is_prefix p' l'
  | _ :: _, [] => false
  end.
Fixpoint last_name (fs : list field) : string :=
  match fs with [] => "" | [f] => f_name f | _ :: r => last_name r end.
Definition count_if {A} (p : A -> bool) (l : list A) : nat := length (filter p l).
Definition op_known (op : string) : bool :=
  String.eqb op "equals" || String.eqb op "not equals" || String.eqb op "in" || String.eqb op "not in".
Definition attr_strings (a : attribute) : list string := flat_map (fun x => match x with AvStr n => [n] | _ => [] end) (at_values a).
Definition all_strings (a : attribute) : bool := forallb (fun x => match x with AvStr _ => true | _ => false end) (at_values a).

Section WF.
Variable tm : list decl.          (* the whole schema: what Layout's lookups see *)
Variable earlier : list decl.     (* the declarations before the one being checked: what a by-value reference may name *)

Definition known (n : string) : option decl := find (fun d => String.eqb (decl_name d) n) earlier.
Definition known_struct (n : string) : option struct := match known n with Some (DStruct s) => Some s | _ => None end.
Definition known_enum (n : string) : option (list enum_value) := match known n with Some (DEnum _ _ vs _ _) => Some vs | _ => None end.
Definition is_abstract (s : struct) : bool := match s_disp s with SdAbstract => true | _ => false end.
Definition size_implicit (s : struct) : bool := has_flag (s_attrs s) "is_size_implicit".

(* byte size of a fixed-size named type (aliases and enums); None for structs *)
Definition fixed_size (n : string) : option Z :=
  match known n with
  | Some (DAlias _ (LInt i) _) => Some (it_size i)
  | Some (DAlias _ (LBuffer k) _) => Some k
  | Some (DEnum _ b _ _ _) => Some (it_size b)
  | _ => None
  end.

(* ---------- static classification against Layout's branches (see DialectProofs.v) ---------- *)
Definition cond_static_ok (allfs : list field) (f : field) : bool :=
  match f_cond f with
  | None => true
  | Some c =>
    match find_field allfs (c_link c) with
    | Some cf => match cond_yoda (cond_kind tm cf) c with Some _ => op_known (c_op c) | None => false end
    | None => false
    end
  end.
Definition key_static_ok (a : array) : bool :=
  match a_sort_key a with
  | None => true
  | Some k =>
    match elem_name a with
    | Some t =>
      match lookup_struct tm t with
      | Some es => match find_field (s_fields es) k with
                   | Some kf => match f_type kf with FArray _ => false | _ => true end
                   | None => false
                   end
      | None => false
      end
    | None => false
    end
  end.
Definition array_static_ok (a : array) : bool :=
  is_byte_array a || (match elem_name a with Some _ => true | None => false end && key_static_ok a).
(* every branch of serialize_field / member_size that answers Crash "Unsupported" is excluded *)
Definition ser_static_ok (s : struct) (allfs : list field) (f : field) : bool :=
  (if is_size_first s [f] f then match f_type f with FInt _ => true | _ => false end else true)
  && cond_static_ok allfs f
  && match bound_field allfs f with
     | Some g => match f_type f with
                 | FInt _ => match f_array g with Some _ => true | None => is_sizeof f end
                             && match f_type g with FArray ga => array_static_ok ga | _ => true end   (* the bound member's size is taken *)
                 | _ => false
                 end
     | None => match f_type f with
               | FInt _ => is_computed f || negb (is_reserved f) || match f_value f with VNum _ => true | _ => false end
               | FName _ => negb (is_reserved f)
               | FArray a => array_static_ok a
               end
     end.
(* every branch of load_field / cond_local that answers Crash "Unsupported" is excluded *)
Definition des_static_ok (allfs : list field) (f : field) : bool :=
  cond_static_ok allfs f
  && match f_type f with
     | FInt _ => negb (is_reserved f) || match f_value f with VNum _ => true | _ => false end
     | FName _ => true
     | FArray a =>
       if is_byte_array a then match a_size a with SzFill => false | _ => true end
       else match elem_name a with Some _ => true | None => false end
            && (negb (a_byte_constrained a) || match a_size a with SzFill => false | _ => true end)
            && key_static_ok a
     end.
(* the @comparer attribute: (property, transform) pairs over int / enum / alias members *)
Fixpoint comparer_pairs_ok (fs : list field) (vals : list avalue) (fuel : nat) : bool :=
  match fuel with
  | O => false
  | S k =>
    match vals with
    | [] => true
    | AvStr p :: tr :: rest =>
      match find_field fs p with
      | Some pf =>
        match tr, f_type pf with
        | AvStr _, FName pt => match lookup tm pt with Some (DAlias _ (LBuffer _) _) => true | _ => false end
        | AvNone, FInt _ => true
        | AvNone, FName pt => match lookup tm pt with Some (DEnum _ _ _ _ _) | Some (DAlias _ _ _) => true | _ => false end
        | _, _ => false
        end && comparer_pairs_ok fs rest k
      | None => false
      end
    | _ => false
    end
  end.
Definition comparer_static_ok (s : struct) : bool :=
  match find_attr (s_attrs s) "comparer" with
  | Some a => comparer_pairs_ok (s_fields s) (at_values a) (S (length (at_values a)))
  | None => true
  end.

(* ---------- schema-level conditions ---------- *)
Definition const_ok (t : ftype) (v : fvalue) : bool :=
  match t, v with
  | FInt i, VNum z => intty_plain i && (if it_unsigned i then uint_in_range (it_size i) z else true)
  | FName et, VName vn => match known_enum et with Some vs => match enum_const vs vn with Some _ => true | None => false end | None => false end
  | _, _ => false
  end.

(* number of arrays of `nc` sized by member n *)
Definition arrays_sized_by (nc : list field) (n : string) : nat :=
  count_if (fun g => match array_size_name g with Some sz => String.eqb sz n | None => false end) nc.
Definition is_plain_uint (f : field) : bool :=
  match f with
  | Field _ (FInt i) Ast.VNone DispNone _ _ => intty_plain i && it_unsigned i
  | _ => false
  end.

(* the three shipped conditional styles *)
Definition union_arms (nc : list field) (sel : string) : list field :=
  filter (fun g => match f_cond g with
                   | Some c => String.eqb (c_link c) sel && String.eqb (c_op c) "equals" && match c_value c with CvName _ => true | _ => false end
                   | None => false
                   end) nc.
Fixpoint contiguous (marks : list bool) (state : nat) : bool :=      (* state 0: before the block, 1: inside, 2: after *)
  match marks with
  | [] => true
  | true :: r => match state with O | S O => contiguous r 1%nat | _ => false end
  | false :: r => match state with S O => contiguous r 2%nat | _ => contiguous r state end
  end.
Definition cond_style_ok (nc : list field) (f : field) : bool :=
  match f_cond f with
  | None => true
  | Some c =>
    match f_type f, c_value c with
    (* (a) `m = T if 0 not equals m_size`, m_size a @sizeref(m, delta) member declared before *)
    | FName t, CvNum z =>
      (z =? 0) && String.eqb (c_op c) "not equals"
      && match find_field nc (c_link c) with
         | Some cf => match f_sizeref cf with
                      | Some (prop, Some _) => String.eqb prop (f_name f) && declared_before nc (c_link c) (f_name f)
                      | _ => false
                      end
         | None => false
         end
      && match known_struct t with Some ts => negb (is_abstract ts) | None => false end
    (* (c) union arm `x = T if NAME equals later_enum_member`: fixed-size arm type, arms adjacent, of one size, one per enum value *)
    | FName t, CvName v =>
      String.eqb (c_op c) "equals" && declared_before nc (f_name f) (c_link c)
      && match find_field nc (c_link c) with
         | Some cf =>
           match f_type cf, f_cond cf with
           | FName et, None =>
             match known_enum et with
             | Some vs =>
               let arms := union_arms nc (c_link c) in
               match enum_const vs v with Some _ => true | None => false end
               && (Nat.eqb (length arms) (length vs))
               && unique (flat_map (fun g => match f_cond g with Some gc => match c_value gc with CvName n => [n] | _ => [] end | None => [] end) arms)
               && forallb (fun g => match f_type g, fixed_size t with
                                    | FName gt, Some z => match fixed_size gt with Some y => z =? y | None => false end
                                    | _, _ => false
                                    end) arms
               && contiguous (map (fun g => existsb (fun h => String.eqb (f_name h) (f_name g)) arms) nc) O
             | None => false
             end
           | _, _ => false
           end
         | None => false
         end
    (* (b) byte array guarded by its own size member `if K not equals name_size` *)
    | FArray a, CvNum z =>
      is_byte_array a && String.eqb (c_op c) "not equals"
      && match a_size a with SzName sz => String.eqb sz (c_link c) | _ => false end
      && match find_field nc (c_link c) with
         | Some (Field _ (FInt i) _ _ _ _) => uint_in_range (it_size i) z
         | _ => false
         end
    | _, _ => false
    end
  end.

Definition array_ok (s : struct) (nc : list field) (f : field) (a : array) : bool :=
  (* the size member: an unconditional unsigned int declared before the array and binding exactly this array *)
  match a_size a with
  | SzName sz =>
    match find_field nc sz with Some sf => is_plain_uint sf | None => false end
    && declared_before nc sz (f_name f) && Nat.eqb (arrays_sized_by nc sz) 1
  | SzNum n => (0 <=? n) && negb (a_byte_constrained a)
  | SzFill =>
    (* fill arrays: last member, inside a size-prefixed struct (a child of a parent with @size) *)
    String.eqb (last_name nc) (f_name f)
    && match base_struct tm s with Some b => match struct_size_attr b with Some _ => true | None => false end | None => false end
  end
  && match a_elem a with
     | ElInt i =>
       (* byte arrays only *)
       (it_size i =? 1) && match a_sort_key a, a_alignment a, a_last_padded a with None, None, None => negb (a_byte_constrained a) | _, _, _ => false end
       && match a_size a with SzFill => false | _ => true end
     | ElName t =>
       match known t with
       | Some (DStruct es) =>
         let abstract := is_abstract es in
         negb (match s_disp es with SdInline => true | _ => false end)
         (* abstract elements are decoded through their factory inside their own @size window *)
         && (negb abstract || match struct_size_attr es with Some _ => true | None => false end)
         && match a_alignment a with
            | Some al =>
              (* aligned variable arrays only of abstract @is_aligned parents: byte-sized by a member, or fill *)
              (0 <? al) && abstract && has_flag (s_attrs es) "is_aligned" && match a_last_padded a with Some _ => true | None => false end
              && (match a_size a with SzName _ => a_byte_constrained a | SzFill => negb (a_byte_constrained a) | SzNum _ => false end)
              && match a_sort_key a with None => true | Some _ => false end
            | None =>
              negb (a_byte_constrained a) && match a_last_padded a with None => true | Some _ => false end
              && (negb abstract || match a_size a with SzName _ => true | _ => false end)
            end
         (* sort keys resolve: an alias-typed / int member, or a struct member whose struct has @comparer *)
         && match a_sort_key a with
            | None => true
            | Some k =>
              negb abstract
              && match find_field (non_const (s_fields es)) k with
                 | Some kf =>
                   match f_type kf, f_cond kf with
                   | FInt _, None => true
                   | FName kt, None =>
                     match known kt with
                     | Some (DAlias _ _ _) => true
                     | Some (DStruct ks) => match find_attr (s_attrs ks) "comparer" with Some _ => true | None => false end
                     | _ => false
                     end
                   | _, _ => false
                   end
                 | None => false
                 end
            end
       | Some _ => match a_alignment a, a_last_padded a with None, None => negb (a_byte_constrained a) | _, _ => false end
                   && match a_sort_key a with None => true | Some _ => false end
                   && match a_size a with SzFill => false | _ => true end
       | None => false
       end
     end.

Definition member_ok (s : struct) (nc : list field) (f : field) : bool :=
  match f with
  | InlinePlaceholder _ _ => false
  | Field n t v d _ _ =>
    negb (String.eqb n "")
    && match d with
       | DispConst => const_ok t v
       | DispInline => false
       | DispReserved =>
         match t, v with FInt i, VNum z => intty_plain i && it_unsigned i && uint_in_range (it_size i) z | _, _ => false end
       | DispSizeof =>
         (* sizeof(uintN, m): m a later struct-typed unconditional member whose struct is size-implicit, measured by this member only *)
         match t, v with
         | FInt i, VName target =>
           intty_plain i && it_unsigned i && declared_before nc n target
           && match find_field nc target with
              | Some (Field _ (FName st) Ast.VNone DispNone _ _ as tf) =>
                match known_struct st with Some ts => size_implicit ts | None => false end
                && Nat.eqb (length (size_fields_of nc tf)) 1
              | _ => false
              end
         | _, _ => false
         end
       | DispNone =>
         cond_style_ok nc f
         && match t with
            | FInt i =>
              intty_ok i
              && match v with Ast.VNone => true | _ => false end
              && match it_sizeref i with
                 | None => true
                 | Some (prop, delta) =>
                   (* @sizeref(m, delta): unsigned, m a struct-typed member guarded by this member (style (a)) *)
                   it_unsigned i && match delta with Some _ => true | None => false end
                   && match find_field nc prop with
                      | Some pf => match f_type pf, f_cond pf with
                                   | FName _, Some c => String.eqb (c_link c) n
                                   | _, _ => false
                                   end
                      | None => false
                      end
                 end
              (* a size / count member is unsigned *)
              && (Nat.eqb (arrays_sized_by nc n) 0 || it_unsigned i)
            | FName tn =>
              match known tn with
              | Some (DStruct ts) =>
                negb (match s_disp ts with SdInline => true | _ => false end)
                (* an abstract parent is embedded by value only behind a sizeof member *)
                && (negb (is_abstract ts) || Nat.eqb (length (size_fields_of nc f)) 1)
                && Nat.leb (length (size_fields_of nc f)) 1
              | Some _ => Nat.eqb (length (size_fields_of nc f)) 0
              | None => false
              end
            | FArray a => array_ok s nc f a
            end
       end
  end.

(* every member against the branches of the interpreter: the members of the struct itself (own and inherited) and, for a child, the members
   of its parent as the parent's _serialize / _deserialize sees them (with the CHILD's member list for bindings and conditions) *)
Definition layout_serialize_ok (s : struct) : bool :=
  let nc := struct_fields_nc s in
  forallb (ser_static_ok s nc) nc
  && match base_struct tm s with Some b => forallb (ser_static_ok b nc) (struct_fields_nc b) | None => true end.
Definition layout_deserialize_ok (s : struct) : bool :=
  let nc := struct_fields_nc s in
  forallb (des_static_ok nc) nc
  && match base_struct tm s with Some b => forallb (des_static_ok nc) (struct_fields_nc b) | None => true end.

(* discriminators: named members of the parent; every child initialises each from a constant of matching type *)
Definition discriminator_names (b : struct) : option (list string) :=
  match find_attr (s_attrs b) "discriminator" with
  | Some da => if all_strings da && negb (match at_values da with [] => true | _ => false end) then Some (attr_strings da) else None
  | None => None
  end.
Definition initializer_for (c : struct) (n : string) : option string :=
  match find (fun at_ => String.eqb (at_name at_) "initializes" && match at_values at_ with AvStr tn :: _ => String.eqb tn n | _ => false end)
             (match s_attrs c with Some l => l | None => [] end) with
  | Some ia => match at_values ia with [_; AvStr cn] => Some cn | _ => None end
  | None => None
  end.
Definition child_initializes (b c : struct) (n : string) : bool :=
  match find_field (non_const (s_fields b)) n, initializer_for c n with
  | Some pf, Some cn =>
    match find_field (s_fields c) cn with
    | Some cf =>
      is_const cf
      && match f_type pf, f_type cf with
         | FInt i, FInt j => intty_eqb i j
         | FName x, FName y => String.eqb x y
         | _, _ => false
         end
    | None => false
    end
  | _, _ => false
  end.

Definition struct_checks (s : struct) : list (string * bool) :=
  let fs := s_fields s in
  let nc := non_const fs in
  [ ("not-inline", negb (match s_disp s with SdInline => true | _ => false end));
    ("member-names-unique", unique (map f_name fs));
    ("members", forallb (member_ok s nc) fs);
    (* the @size member is literally `size`, the first non-const member, an unsigned int; no other member is called size *)
    ("size-member",
       match struct_size_attr s with
       | Some n => String.eqb n "size" && match nc with f :: _ => String.eqb (f_name f) "size" && is_plain_uint f | [] => false end
       | None => negb (existsb (fun f => String.eqb (f_name f) "size") nc)
       end);
    ("has-members", negb (match nc with [] => true | _ => false end));
    ("abstract-parent",
       if is_abstract s then
         match s_factory_type s, discriminator_names s with
         | None, Some names => forallb (fun n => match find_field nc n with
                                                 | Some (Field _ (FInt i) Ast.VNone DispNone _ _) => intty_plain i
                                                 | Some (Field _ (FName et) Ast.VNone DispNone _ _) => match known_enum et with Some _ => true | None => false end
                                                 | _ => false
                                                 end) names
         | _, _ => false
         end
       else true);
    (* children of an abstract parent: one level, the parent's members as a prefix in order, matching initializers *)
    ("child-of-parent",
       match s_factory_type s with
       | None => true
       | Some p =>
         negb (is_abstract s)
         && match known_struct p with
            | Some b =>
              is_abstract b && match s_factory_type b with None => true | Some _ => false end
              && is_prefix (non_const (s_fields b)) nc
              && match discriminator_names b with Some names => forallb (child_initializes b s) names | None => false end
              && match struct_size_attr b, struct_size_attr s with
                 | Some x, Some y => String.eqb x y
                 | None, None => true
                 | _, _ => false
                 end
            | None => false
            end
       end);
    ("comparer", comparer_static_ok s);
    ("layout-serialize", layout_serialize_ok s);
    ("layout-deserialize", layout_deserialize_ok s) ].

Definition decl_checks (d : decl) : list (string * bool) :=
  match d with
  | DAlias _ (LInt i) _ => [("alias-unsigned-int", intty_plain i && it_unsigned i)]
  | DAlias _ (LBuffer n) _ => [("alias-buffer-size", 0 <? n)]
  | DEnum _ base values _ _ =>
    [("enum-base", intty_plain base && it_unsigned base);
     ("enum-values", negb (match values with [] => true | _ => false end)
                     && forallb (fun e => uint_in_range (it_size base) (ev_value e)) values
                     && unique (map ev_name values) && unique_z (map ev_value values))]
  | DStruct s => struct_checks s
  end.
End WF.

Fixpoint wf_decls (tm : list decl) (earlier rest : list decl) : bool :=
  match rest with
  | [] => true
  | d :: r =>
    negb (existsb (fun e => String.eqb (decl_name e) (decl_name d)) earlier)
    && forallb snd (decl_checks tm earlier d)
    && wf_decls tm (earlier ++ [d]) r
  end.
Definition wf_schema (tm : list decl) : bool := wf_decls tm [] tm.

(* names of the failing conditions, "Decl:condition" (diagnostics for the harness; wf_schema = true iff empty is proved in DialectProofs.v) *)
Fixpoint wf_report_go (tm : list decl) (earlier rest : list decl) : list string :=
  match rest with
  | [] => []
  | d :: r =>
    (if existsb (fun e => String.eqb (decl_name e) (decl_name d)) earlier then [(decl_name d ++ ":duplicate-name")%string] else [])
    ++ flat_map (fun c : string * bool => if snd c then [] else [(decl_name d ++ ":" ++ fst c)%string]) (decl_checks tm earlier d)
    ++ wf_report_go tm (earlier ++ [d]) r
  end.
Definition wf_report (tm : list decl) : string := String.concat " " (wf_report_go tm [] tm).
