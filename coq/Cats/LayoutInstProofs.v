(* What the operators regenerated from ArrayHelpers.py mean (ops_now), proved by unfolding the regenerated constants,
   and the array-layer theorems instantiated with them. *)
From Symv Require Import Base.Bytes Base.PyOps Cats.LayoutInst Cats.LayoutProofs Cats.ArrayProofs Cats.Sort Cats.SortProofs.
From Coq Require Import Lia ZifyBool Permutation Sorted.
Open Scope Z_scope.

Lemma size_bad_now s : size_bad ops_now s = (s <=? 0).          Proof. reflexivity. Qed.
Lemma size_bad_v_now s : size_bad_v ops_now s = (s <=? 0).      Proof. reflexivity. Qed.
Lemma order_bad_r_now p c : order_bad_r ops_now p c = key_cmp Ge p c.  Proof. reflexivity. Qed.
Lemma order_bad_w_now p c : order_bad_w ops_now p c = key_cmp Ge p c.  Proof. reflexivity. Qed.
Lemma order_same_now p c : order_bad_r ops_now p c = order_bad_w ops_now p c.  Proof. reflexivity. Qed.
Lemma rv_is_last_now s len : rv_is_last ops_now s len = (len <=? s).   Proof. reflexivity. Qed.
Lemma rv_overrun_now al len : rv_overrun ops_now al len = (len <? al). Proof. reflexivity. Qed.
Lemma get_bytes_bad_now size len : get_bytes_bad ops_now size len = (len <? size).  Proof. reflexivity. Qed.
Lemma align_now s al : 0 <= s -> 0 < al -> s <= align_up ops_now s al < s + al.
Proof. intros Hs Ha. exact (proj2 (align_up_spec s al Hs Ha)). Qed.

(* keys of one array: flat and of one shape (what one declared comparer produces) *)
Definition shape_ok (ks : list keyv) : Prop := forall p q, In p ks -> In q ks -> flat_key p = true /\ same_shape p q = true.

Lemma sorted_weaken {A} (P Q : A -> A -> Prop) l : (forall x y, In x l -> In y l -> P x y -> Q x y) -> Sorted P l -> Sorted Q l.
Proof.
  induction l as [|x l IH]; intros H Hs; [constructor|]. inversion Hs as [|? ? Hl Hhd]; subst.
  constructor; [apply IH; [intros; apply H; try (now right); assumption | exact Hl]|].
  destruct l as [|y r]; constructor. inversion Hhd; subst. apply H; [now left | right; now left | assumption].
Qed.

(* enc_requires_strict / dec_requires_strict: the keys of an array that encodes (decodes) are strictly ascending in the declared order *)
Lemma write_keys_strict tm R a l ks pw b :
  keys_of tm R a l ks -> shape_ok ks -> write_array_go ops_now tm R a pw l (length l) = Ok b ->
  Sorted (fun k1 k2 => key_lt_spec k1 k2 = true) ks.
Proof.
  intros Hk Hshape Hw. destruct (write_sorted ops_now tm R a l ks pw b Hk Hw) as [Hs _].
  eapply sorted_weaken; [|exact Hs]. intros x y Hx Hy H. cbn beta in H.
  destruct (Hshape x y Hx Hy) as [Hf Hsh]. rewrite order_bad_w_now, (key_cmp_ge_spec x y Hf Hsh) in H.
  now destruct (key_lt_spec x y).
Qed.

Lemma read_keys_strict tm R a fuel rule i view l ks :
  read_array_go ops_now tm R a true fuel rule i None view = Ok l -> keys_of tm R a l ks -> shape_ok ks ->
  Sorted (fun k1 k2 => key_lt_spec k1 k2 = true) ks.
Proof.
  intros Hr Hk Hshape. destruct (read_sorted ops_now tm R a fuel rule i None view l ks Hr Hk) as [Hs _].
  eapply sorted_weaken; [|exact Hs]. intros x y Hx Hy H. cbn beta in H.
  destruct (Hshape x y Hx Hy) as [Hf Hsh]. rewrite order_bad_r_now, (key_cmp_ge_spec x y Hf Hsh) in H.
  now destruct (key_lt_spec x y).
Qed.

(* an array holding two equal keys next to each other never encodes *)
Lemma equal_keys_rejected tm R a l1 e1 e2 l2 pw k :
  elem_key tm R a e1 = Ok (Some k) -> elem_key tm R a e2 = Ok (Some k) -> flat_key k = true -> same_shape k k = true ->
  forall b, write_array_go ops_now tm R a pw (l1 ++ e1 :: e2 :: l2) (length (l1 ++ e1 :: e2 :: l2)) <> Ok b.
Proof.
  intros H1 H2 Hf Hs b Hw. pose proof (write_adjacent_order ops_now tm R a l1 e1 e2 l2 pw b k k Hw H1 H2) as H.
  rewrite order_bad_w_now, (key_cmp_ge_spec k k Hf Hs), key_lt_spec_irrefl in H. discriminate.
Qed.

(* sorting with Python's < on such keys is sorting with the specified order *)
Lemma sort_key_lt_is_spec {A} (l : list (keyv * A)) : shape_ok (map fst l) -> sort_pairs key_lt l = sort_pairs key_lt_spec l.
Proof.
  intros Hshape. apply sort_ext. intros p q Hp Hq.
  destruct (Hshape (fst p) (fst q) (in_map fst l p Hp) (in_map fst l q Hq)) as [Hf Hs].
  unfold key_lt. now apply key_cmp_lt_spec.
Qed.

Definition distinct_keys {A} (l : list (keyv * A)) : Prop := NoDup (map fst l).

Lemma distinct_total {A} (l : list (keyv * A)) : shape_ok (map fst l) -> distinct_keys l -> keys_total A key_lt_spec l /\ NoDup l.
Proof.
  intros Hshape Hd. split.
  - intros p q Hp Hq. destruct (Hshape (fst p) (fst q) (in_map fst l p Hp) (in_map fst l q Hq)) as [_ Hs].
    destruct (key_trichotomy _ _ Hs) as [H|[H|H]]; auto. left.
    clear - Hd Hp Hq H. induction l as [|x l IH]; [contradiction|]. cbn [map] in Hd. inversion Hd as [|? ? Hnin Hd']; subst.
    destruct Hp as [->|Hp], Hq as [->|Hq]; auto.
    + exfalso. apply Hnin. rewrite H. now apply in_map.
    + exfalso. apply Hnin. rewrite <- H. now apply in_map.
  - clear Hshape. induction l as [|x l IH]; [constructor|]. cbn [map] in Hd. inversion Hd as [|? ? Hnin Hd']; subst.
    constructor; [|now apply IH]. intros Hin. apply Hnin. now apply in_map.
Qed.

Theorem sort_strict_now {A} (l : list (keyv * A)) : shape_ok (map fst l) -> distinct_keys l ->
  StronglySorted (fun p q => key_lt_spec (fst p) (fst q) = true) (sort_pairs key_lt l).
Proof.
  intros Hshape Hd. rewrite sort_key_lt_is_spec by exact Hshape. destruct (distinct_total l Hshape Hd) as [Ht Hn].
  exact (sort_strict A key_lt_spec key_lt_spec_asym key_lt_spec_trans l Ht Hn).
Qed.

Theorem sort_perm_now {A} (l : list (keyv * A)) : Permutation (sort_pairs key_lt l) l.
Proof. apply sort_perm. Qed.

Theorem sort_idem_now {A} (l : list (keyv * A)) : shape_ok (map fst l) -> sort_pairs key_lt (sort_pairs key_lt l) = sort_pairs key_lt l.
Proof.
  intros Hshape. rewrite (sort_key_lt_is_spec l Hshape).
  rewrite sort_key_lt_is_spec.
  - apply sort_idempotent. exact key_lt_spec_asym.
  - intros p q Hp Hq. apply Hshape.
    + eapply Permutation_in; [apply Permutation_map, sort_perm|]. exact Hp.
    + eapply Permutation_in; [apply Permutation_map, sort_perm|]. exact Hq.
Qed.

Theorem sort_order_independent_now {A} (l l' : list (keyv * A)) : shape_ok (map fst l) -> distinct_keys l -> Permutation l l' ->
  sort_pairs key_lt l = sort_pairs key_lt l'.
Proof.
  intros Hshape Hd Hp. rewrite (sort_key_lt_is_spec l Hshape).
  rewrite (sort_key_lt_is_spec l') by (intros p q Hp' Hq'; apply Hshape; (eapply Permutation_in; [apply Permutation_sym, Permutation_map; exact Hp|]); assumption).
  destruct (distinct_total l Hshape Hd) as [Ht Hn].
  exact (sort_order_independent A key_lt_spec key_lt_spec_asym key_lt_spec_trans l l' Ht Hn Hp).
Qed.

Lemma forall2_length {A B} (P : A -> B -> Prop) l l' : Forall2 P l l' -> length l = length l'.
Proof. induction 1; cbn; congruence. Qed.

(* canonical encoding: two encodable arrays holding the same keyed entries are the same list *)
Lemma sorted_combine {A} (P : keyv -> keyv -> Prop) (ks : list keyv) (l : list A) : length ks = length l ->
  Sorted P ks -> Sorted (fun p q => P (fst p) (fst q)) (combine ks l).
Proof.
  revert l; induction ks as [|k ks IH]; intros [|x l] Hlen Hs; cbn [combine]; try constructor; try discriminate.
  - inversion Hs; subst. apply IH; [cbn in Hlen; lia | assumption].
  - inversion Hs as [|? ? _ Hhd]; subst. destruct ks as [|k2 ks], l as [|x2 l]; cbn [combine]; constructor. now inversion Hhd.
Qed.

Theorem canonical_encoding_now tm R a l l' ks ks' pw pw' b b' :
  keys_of tm R a l ks -> keys_of tm R a l' ks' -> shape_ok ks -> shape_ok ks' ->
  write_array_go ops_now tm R a pw l (length l) = Ok b -> write_array_go ops_now tm R a pw' l' (length l') = Ok b' ->
  Permutation (combine ks l) (combine ks' l') -> l = l'.
Proof.
  intros Hk Hk' Hsh Hsh' Hw Hw' Hp.
  pose proof (write_keys_strict tm R a l ks pw b Hk Hsh Hw) as Hs.
  pose proof (write_keys_strict tm R a l' ks' pw' b' Hk' Hsh' Hw') as Hs'.
  assert (Hlen : length ks = length l) by (symmetry; eapply forall2_length; exact Hk).
  assert (Hlen' : length ks' = length l') by (symmetry; eapply forall2_length; exact Hk').
  assert (Hc : combine ks l = combine ks' l').
  { apply (strongly_sorted_unique value key_lt_spec key_lt_spec_asym); [| |exact Hp].
    - apply Sorted_StronglySorted; [intros x y z; apply key_lt_spec_trans|]. apply (sorted_combine (fun k1 k2 => key_lt_spec k1 k2 = true)); assumption.
    - apply Sorted_StronglySorted; [intros x y z; apply key_lt_spec_trans|]. apply (sorted_combine (fun k1 k2 => key_lt_spec k1 k2 = true)); assumption. }
  assert (Hsnd : forall (k : list keyv) (v : list value), length k = length v -> map snd (combine k v) = v).
  { induction k as [|x k IH]; intros [|y v] H; cbn in *; try discriminate; [reflexivity|]. f_equal. apply IH. lia. }
  rewrite <- (Hsnd ks l Hlen), <- (Hsnd ks' l' Hlen'). now rewrite Hc.
Qed.
