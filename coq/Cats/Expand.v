(* catparser/AstPostProcessor.py (apply_attributes, expand_named_inlines, expand_unnamed_inlines, type_descriptors) and the parts of
   catparser/ast.py they call (attribute setters of Array / FixedSizeInteger, the copy functions, Struct.apply_inline_template,
   Struct._build_comment_map, Comment.__init__).  Model file: definitions only (proofs: Cats/ExpandProofs.v).

   Values are immutable (Cats/Ast.v): a copy never aliases its template -- the INTENDED semantics.  Where the implementation
   deviates (Array.copy sharing `_attributes`, Array.copy rebuilding a fill array with size 0, the sizeref setter indexing a
   missing delta) the model states the intended behaviour; the deviation shows in the correspondence.

   Domain of the model (everything the parser can produce and more):
   - type names are looked up first-match and updated by name; this is Python's dict when declaration names are unique
     (the theorems carry `NoDup (map decl_name s)`, the check verifies it for every schema it compares);
   - attribute names outside the grammar's closed set {sort_key, is_byte_constrained, alignment, sizeref} are treated as
     "does not have property" (AstException); attribute values of the wrong token kind are `Crash "unmodelled"`;
   - `\S` of the comment-key regex is ASCII whitespace (9-13, 28-32); comment keys are compared as bytes.
   Outcomes: Ok v | Reject (AstException) | Crash kind (any other exception; Crash "fuel" = the while loop did not finish). *)
From Symv Require Export Cats.Ast Base.PyOps Gen.ExpandOps.
Open Scope string_scope.

Definition nl : string := String (ascii_of_N 10) "".

(* 'lit' == x / 'lit' != x  with x possibly None *)
Definition oscmp (o : pyop) (a : option string) (b : string) : bool :=
  match o with
  | Eq => match a with Some x => String.eqb x b | None => false end
  | Ne => match a with Some x => negb (String.eqb x b) | None => true end
  | _ => false
  end.

Definition sdisp_str (d : sdisp) : option string :=
  match d with SdNone => None | SdAbstract => Some "abstract" | SdInline => Some "inline" end.
Definition disp_str (d : disposition) : option string :=
  match d with DispNone => None | DispConst => Some "const" | DispReserved => Some "reserved" | DispSizeof => Some "sizeof"
  | DispInline => Some "inline" end.

Fixpoint mapM {A B} (f : A -> result B) (l : list A) : result (list B) :=
  match l with
  | [] => Ok []
  | x :: r => bind (f x) (fun y => bind (mapM f r) (fun ys => Ok (y :: ys)))
  end.

(* ------------------------------------------------------------------------------------------------------------------ *)
(* type_descriptor_map *)

Definition lookup (s : list decl) (n : string) : option decl := find (fun d => String.eqb (decl_name d) n) s.
Definition update (s : list decl) (st : struct) : list decl :=
  map (fun d => if String.eqb (decl_name d) (s_name st) then DStruct st else d) s.

Definition set_fields (st : struct) (fs : list field) : struct :=
  {| s_name := s_name st; s_disp := s_disp st; s_fields := fs; s_factory_type := s_factory_type st; s_attrs := s_attrs st;
     s_comment := s_comment st; s_requires_unaligned := s_requires_unaligned st |}.

(* map[t] while `cur` (the struct being rebuilt, whose `fields` is the list built so far) is the live object of its name *)
Definition resolve (s : list decl) (cur : struct) (t : string) : option decl :=
  if String.eqb t (s_name cur) then Some (DStruct cur) else lookup s t.

(* ------------------------------------------------------------------------------------------------------------------ *)
(* apply_attributes: setattr(field.field_type, attribute.name, attribute.values) *)

Definition set_sort_key (a : array) (k : option string) : array :=
  {| a_elem := a_elem a; a_size := a_size a; a_sort_key := k; a_byte_constrained := a_byte_constrained a;
     a_alignment := a_alignment a; a_last_padded := a_last_padded a |}.
Definition set_byte_constrained (a : array) (b : bool) : array :=
  {| a_elem := a_elem a; a_size := a_size a; a_sort_key := a_sort_key a; a_byte_constrained := b;
     a_alignment := a_alignment a; a_last_padded := a_last_padded a |}.
Definition set_alignment (a : array) (n : Z) (padded : bool) : array :=
  {| a_elem := a_elem a; a_size := a_size a; a_sort_key := a_sort_key a; a_byte_constrained := a_byte_constrained a;
     a_alignment := Some n; a_last_padded := Some padded |}.
Definition set_sizeref (i : intty) (r : option (string * option Z)) : intty :=
  {| it_unsigned := it_unsigned i; it_size := it_size i; it_sizeref := r |}.

Definition av_is (v : avalue) (s : string) : bool := match v with AvStr x => String.eqb x s | _ => false end.

(* the delta of `@sizeref(x [, y])` is optional: adjusted by 0 when absent *)
Definition sizeref_default_delta : Z := 0.

Definition apply_array_attr (a : array) (at_ : attribute) : result array :=
  let n := at_name at_ in
  let vs := at_values at_ in
  if String.eqb n "sort_key" then
    match vs with
    | [] => Crash "IndexError"
    | AvStr k :: _ => Ok (set_sort_key a (Some k))
    | _ :: _ => Crash "unmodelled"
    end
  else if String.eqb n "is_byte_constrained" then Ok (set_byte_constrained a true)
  else if String.eqb n "alignment" then
    match vs with
    | [] | [_] => Crash "IndexError"
    | v0 :: v1 :: r =>
      let padded :=
        if av_is v1 "not" then match r with [] => Crash "IndexError" | v2 :: _ => Ok (negb (av_is v2 "pad_last")) end
        else Ok true in
      match v0 with
      | AvNum z => bind padded (fun p => Ok (set_alignment a z p))
      | _ => bind padded (fun _ => Crash "unmodelled")
      end
    end
  else Reject.

Definition apply_int_attr (i : intty) (at_ : attribute) : result intty :=
  if String.eqb (at_name at_) "sizeref" then
    match at_values at_ with
    | [] => Crash "IndexError"
    | AvStr p :: r =>
      match r with
      | AvNum d :: _ => Ok (set_sizeref i (Some (p, Some d)))
      | [] | AvNone :: _ => Ok (set_sizeref i (Some (p, Some sizeref_default_delta)))
      | AvStr _ :: _ => Crash "unmodelled"
      end
    | _ :: _ => Crash "unmodelled"
    end
  else Reject.

Definition apply_attr (t : ftype) (at_ : attribute) : result ftype :=
  match t with
  | FArray a => bind (apply_array_attr a at_) (fun a' => Ok (FArray a'))
  | FInt i => bind (apply_int_attr i at_) (fun i' => Ok (FInt i'))
  | FName _ => Reject
  end.

Fixpoint apply_attrs (t : ftype) (ats : list attribute) : result ftype :=
  match ats with
  | [] => Ok t
  | at_ :: r => bind (apply_attr t at_) (fun t' => apply_attrs t' r)
  end.

Definition apply_field_attributes (f : field) : result field :=
  match f with
  | Field n t v d (Some ats) c => bind (apply_attrs t ats) (fun t' => Ok (Field n t' v d (Some ats) c))
  | _ => Ok f
  end.

Definition apply_decl_attributes (d : decl) : result decl :=
  match d with
  | DStruct st => bind (mapM apply_field_attributes (s_fields st)) (fun fs => Ok (DStruct (set_fields st fs)))
  | _ => Ok d
  end.

Definition apply_attributes (s : list decl) : result (list decl) := mapM apply_decl_attributes s.

(* ------------------------------------------------------------------------------------------------------------------ *)
(* strings: str.split('\n'), str.strip(chars), the comment-key regex *)

Definition nl_char : ascii := ascii_of_N 10.

Fixpoint split_on (sep : ascii) (s : string) : list string :=
  match s with
  | EmptyString => [EmptyString]
  | String c r =>
    if Ascii.eqb c sep then EmptyString :: split_on sep r
    else match split_on sep r with p :: ps => String c p :: ps | [] => [String c EmptyString] end
  end.

Definition is_empty (s : string) : bool := match s with EmptyString => true | _ => false end.

Definition in_codes (codes : list Z) (c : ascii) : bool := existsb (Z.eqb (of_ascii c)) codes.

Fixpoint lstrip (codes : list Z) (s : string) : string :=
  match s with
  | EmptyString => EmptyString
  | String c r => if in_codes codes c then lstrip codes r else s
  end.
Fixpoint rstrip (codes : list Z) (s : string) : string :=
  match s with
  | EmptyString => EmptyString
  | String c r => let r' := rstrip codes r in if is_empty r' && in_codes codes c then EmptyString else String c r'
  end.
Definition strip (codes : list Z) (s : string) : string := rstrip codes (lstrip codes s).

(* Comment.__init__ : the `parsed` text *)
Fixpoint cparse_lines (lines : list string) (needs_separator : bool) : string :=
  match lines with
  | [] => ""
  | l :: r =>
    let t := strip cparse_strip l in
    if is_empty t then nl ++ cparse_lines r false
    else (if needs_separator then cparse_sep else "") ++ t ++ cparse_lines r true
  end.
Definition comment_parse (text : string) : string := cparse_lines (split_on nl_char text) false.

Definition is_space (c : ascii) : bool :=
  let n := of_ascii c in ((9 <=? n) && (n <=? 13) || (28 <=? n) && (n <=? 32))%Z.

Fixpoint take_nonspace (s : string) : string :=
  match s with
  | EmptyString => EmptyString
  | String c r => if is_space c then EmptyString else String c (take_nonspace r)
  end.
Fixpoint sdrop (n : nat) (s : string) : string :=
  match n, s with
  | O, _ => s
  | S k, String _ r => sdrop k r
  | S _, EmptyString => EmptyString
  end.
Fixpoint stake (n : nat) (s : string) : string :=
  match n, s with
  | S k, String c r => String c (stake k r)
  | _, _ => EmptyString
  end.
Fixpoint slast (s : string) : option ascii :=
  match s with
  | EmptyString => None
  | String c EmptyString => Some c
  | String _ r => slast r
  end.

(* re.match(r'^\[(?P<comment_key>\S+)\] ', line): the key and line[len(key) + 3:] *)
Definition match_key (line : string) : option (string * string) :=
  match line with
  | String "["%char r =>
    let run := take_nonspace r in
    match sdrop (String.length run) r, slast run with
    | String " "%char _, Some "]"%char =>
      if (2 <=? String.length run)%nat then
        let key := stake (String.length run - 1)%nat run in
        Some (key, sdrop (String.length key + comment_skip)%nat line)
      else None
    | _, _ => None
    end
  | _ => None
  end.

Definition cmap := list (string * list string).
Fixpoint cm_set (m : cmap) (k : string) (v : list string) : cmap :=
  match m with
  | [] => [(k, v)]
  | (k', v') :: r => if String.eqb k' k then (k, v) :: r else (k', v') :: cm_set r k v
  end.
Definition cm_get (m : cmap) (k : string) : option (list string) :=
  match find (fun p => String.eqb (fst p) k) m with Some p => Some (snd p) | None => None end.

Fixpoint cm_lines (lines : list string) (active : option string) (m : cmap) : cmap :=
  match lines with
  | [] => m
  | l :: r =>
    match match_key l with
    | Some (key, rest) => cm_lines r (Some key) (cm_set m key [rest])
    | None =>
      match active with
      | Some k => cm_lines r active (cm_set m k ((match cm_get m k with Some ls => ls | None => [] end) ++ [(nl ++ l)%string])%list)
      | None => cm_lines r None m
      end
    end
  end.

(* Struct._build_comment_map(comment) *)
Definition build_comment_map (parsed : string) : cmap := cm_lines (split_on nl_char parsed) None [].

(* Comment('\n'.join(comment_map[name])).parsed *)
Definition member_comment (m : cmap) (name : string) : option string :=
  match cm_get m name with Some ls => Some (comment_parse (String.concat nl ls)) | None => None end.

(* ------------------------------------------------------------------------------------------------------------------ *)
(* copy(prefix) *)

Definition pfx (sep prefix name : string) : string := prefix ++ sep ++ name.

Definition copy_int (p : string) (i : intty) : intty :=
  set_sizeref i (match it_sizeref i with Some (prop, delta) => Some (pfx sizeref_sep p prop, delta) | None => None end).

Definition copy_array (p : string) (a : array) : array :=
  {| a_elem := a_elem a;
     a_size := match a_size a with SzName n => SzName (pfx array_size_sep p n) | SzNum z => SzNum z | SzFill => SzFill end;
     a_sort_key := match a_sort_key a with Some k => Some (pfx array_sort_key_sep p k) | None => None end;
     a_byte_constrained := a_byte_constrained a; a_alignment := a_alignment a; a_last_padded := a_last_padded a |}.

Definition copy_cond (p : string) (c : conditional) : conditional :=
  {| c_value := c_value c; c_op := c_op c; c_link := pfx cond_sep p (c_link c) |}.

Definition copy_ftype (p : string) (t : ftype) : ftype :=
  match t with FInt i => FInt (copy_int p i) | FArray a => FArray (copy_array p a) | FName n => FName n end.
Definition copy_name (p n : string) : string := if oscmp value_eq_op (Some n) value_name then p else pfx field_sep p n.

(* the value: a Conditional is copied with its link re-pointed; the target of a `sizeof` member (a member name, as the grammar
   guarantees) follows the copied member it measures; constants are kept *)
Definition is_size_reference (d : disposition) : bool := oscmp sizeof_op (disp_str d) sizeof_str.
Definition copy_sizeof_target (p t : string) : string :=
  if oscmp sizeof_value_eq_op (Some t) sizeof_value_name then p else pfx sizeof_sep p t.
Definition copy_fvalue (p : string) (d : disposition) (v : fvalue) : fvalue :=
  match v with
  | VCond c => VCond (copy_cond p c)
  | VName t => if is_size_reference d then VName (copy_sizeof_target p t) else v
  | _ => v
  end.

(* StructField.copy (the copy has no comment) followed by the comment assignment of apply_inline_template *)
Definition copy_field (p : string) (m : cmap) (f : field) : result field :=
  match f with
  | Field n t v d a _ => Ok (Field (copy_name p n) (copy_ftype p t) (copy_fvalue p d v) d a (member_comment m n))
  | InlinePlaceholder _ _ => Crash "AttributeError"
  end.

Definition is_inline (st : struct) : bool := oscmp is_inline_op (sdisp_str (s_disp st)) is_inline_str.

(* Struct.apply_inline_template(named_inline_field) *)
Definition apply_inline_template (T : struct) (x : string) (cmt : option string) : result (list field) :=
  if negb (is_inline T) then Reject
  else
    let m := match cmt with Some c => build_comment_map c | None => [] end in
    mapM (copy_field x m) (s_fields T).

(* ------------------------------------------------------------------------------------------------------------------ *)
(* expand_named_inlines *)

Definition is_named_inline (f : field) : bool :=
  match f with
  | Field _ _ _ d _ _ => oscmp named_inline_op (disp_str d) named_inline_str
  | InlinePlaceholder _ _ => false
  end.

Definition is_struct_with (p : struct -> bool) (d : decl) : bool := match d with DStruct st => p st | _ => false end.
Definition has_named_inline (st : struct) : bool := existsb is_named_inline (s_fields st).

(* the loop over original_fields; acc = model.fields *)
Fixpoint named_fields (s : list decl) (self : struct) (fs acc : list field) : result (list field) :=
  match fs with
  | [] => Ok acc
  | f :: r =>
    if is_named_inline f then
      match f with
      | Field x (FName t) _ _ _ cmt =>
        match resolve s (set_fields self acc) t with
        | None => Reject
        | Some (DStruct T) => bind (apply_inline_template T x cmt) (fun cs => named_fields s self r (acc ++ cs)%list)
        | Some _ => Crash "AttributeError"
        end
      | _ => Reject
      end
    else named_fields s self r (acc ++ [f])%list
  end.

Definition named_struct (s : list decl) (st : struct) : result struct :=
  bind (named_fields s st (s_fields st) []) (fun fs => Ok (set_fields st fs)).

Definition worklist (p : struct -> bool) (s : list decl) : list string := map decl_name (filter (is_struct_with p) s).

Fixpoint named_loop (names : list string) (s : list decl) : result (list decl) :=
  match names with
  | [] => Ok s
  | n :: r =>
    match lookup s n with
    | Some (DStruct st) => bind (named_struct s st) (fun st' => named_loop r (update s st'))
    | _ => Crash "internal"
    end
  end.

(* the work list is computed up front *)
Definition expand_named (s : list decl) : result (list decl) := named_loop (worklist has_named_inline s) s.

(* ------------------------------------------------------------------------------------------------------------------ *)
(* expand_unnamed_inlines *)

Definition is_placeholder (f : field) : bool := match f with InlinePlaceholder _ _ => true | _ => false end.
Definition has_placeholder (st : struct) : bool := existsb is_placeholder (s_fields st).

Definition is_abstract_ref (T : struct) : bool := oscmp abstract_op (sdisp_str (s_disp T)) abstract_str.

Definition inherit_factory (cur T : struct) : option string :=
  if is_abstract_ref T then Some (s_name T)
  else match s_factory_type T with Some f => Some f | None => s_factory_type cur end.

Definition inherit_attrs (cur T : struct) : option (list attribute) :=
  match s_attrs T with
  | Some (a :: ta) => Some ((match s_attrs cur with Some ca => ca | None => [] end) ++ a :: ta)%list
  | _ => s_attrs cur
  end.

Definition splice_into (cur T : struct) : struct :=
  {| s_name := s_name cur; s_disp := s_disp cur; s_fields := (s_fields cur ++ s_fields T)%list;
     s_factory_type := inherit_factory cur T; s_attrs := inherit_attrs cur T;
     s_comment := s_comment cur; s_requires_unaligned := s_requires_unaligned cur |}.

(* one execution of the body of the while loop; cur.fields = the list built so far *)
Fixpoint unnamed_fields (s : list decl) (cur : struct) (fs : list field) : result struct :=
  match fs with
  | [] => Ok cur
  | InlinePlaceholder t _ :: r =>
    match resolve s cur t with
    | None => Reject
    | Some (DStruct T) => unnamed_fields s (splice_into cur T) r
    | Some _ => Crash "AttributeError"
    end
  | f :: r => unnamed_fields s (set_fields cur (s_fields cur ++ [f])%list) r
  end.

Definition unnamed_pass (s : list decl) (st : struct) : result struct := unnamed_fields s (set_fields st []) (s_fields st).

Fixpoint unnamed_while (fuel : nat) (s : list decl) (n : string) : result (list decl) :=
  match fuel with
  | O => Crash "fuel"
  | S f =>
    match lookup s n with
    | Some (DStruct st) =>
      if has_placeholder st then bind (unnamed_pass s st) (fun st' => unnamed_while f (update s st') n) else Ok s
    | _ => Crash "internal"
    end
  end.

Fixpoint unnamed_loop (fuel : nat) (names : list string) (s : list decl) : result (list decl) :=
  match names with
  | [] => Ok s
  | n :: r => bind (unnamed_while fuel s n) (unnamed_loop fuel r)
  end.

Definition expand_unnamed_with (fuel : nat) (s : list decl) : result (list decl) :=
  unnamed_loop fuel (worklist has_placeholder s) s.
Definition expand_unnamed (s : list decl) : result (list decl) := expand_unnamed_with (S (length s)) s.

(* ------------------------------------------------------------------------------------------------------------------ *)
(* type_descriptors *)

Definition is_output (d : decl) : bool :=
  match d with DStruct st => oscmp output_inline_op (sdisp_str (s_disp st)) output_inline_str | _ => true end.
Definition type_descriptors (s : list decl) : list decl := filter is_output s.

(* the pipeline of catparser.__main__ *)
Definition post_process (s : list decl) : result (list decl) :=
  bind (apply_attributes s) (fun s1 => bind (expand_named s1) expand_unnamed).
