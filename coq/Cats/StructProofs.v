(* Struct layer: the member loop of deserialize reads back what the member loop of serialize wrote, and size agrees with the
   number of bytes, for member lists made of the member kinds of `mkind` below (`classify` computes the kind from the schema alone;
   `classify_facts` is the only place where it is unfolded).
   Per member: member_ser_inv (what serialize wrote), member_step (deserialize_field reads it back), member_size_ok, member_size_nonneg.
   Per member list: loop_rt (continuation form, queue of pending union arms untouched), the union lemmas (arm_first: dummy read and
   temporary buffer; arms_queue; drain_rt), fields_rt (ordinary lists, or one union block at the front), size_fields_ok / _nonneg.
   Generic in the codecs of named types (hypotheses sub_rt, sub_pos, alias_enc, alias_dec) so that it can be applied level by level. *)
From Symv Require Import Base.Bytes Base.PyOps Base.BytesLemmas Cats.Layout Cats.LayoutProofs Cats.ArrayProofs Cats.LayoutLaws.
From Coq Require Import Lia ZifyBool Permutation.
Open Scope string_scope.
Open Scope list_scope.
Open Scope Z_scope.

Definition is_vstruct (v : value) : bool := match v with VStruct _ _ => true | _ => false end.
Definition is_none {A} (o : option A) : bool := match o with None => true | Some _ => false end.
Lemma is_none_eq {A} (o : option A) : is_none o = true -> o = None.
Proof. destruct o; [discriminate|reflexivity]. Qed.

Section StructRT.
Variable OP : ops.
Variable tm : list decl.
Variable R : rec_ops.
Variable s : struct.
Variable allfs : list field.

Hypothesis size_bad_spec : forall x, size_bad OP x = (x <=? 0).
Hypothesis order_same : forall p c, order_bad_r OP p c = order_bad_w OP p c.
Hypothesis get_bytes_bad_spec : forall n len, get_bytes_bad OP n len = (len <? n).
Hypothesis size_bad_v_spec : forall x, size_bad_v OP x = (x <=? 0).
Hypothesis rv_is_last_spec : forall x len, rv_is_last OP x len = (len <=? x).
Hypothesis rv_overrun_spec : forall al len, rv_overrun OP al len = (len <? al).
Hypothesis align_spec : forall x al, 0 <= x -> 0 < al -> x <= align_up OP x al < x + al.

(* how a member / element of static type t is decoded: through the factory when t is abstract *)
Definition is_abs (t : string) : bool :=
  match lookup_struct tm t with Some ts => match s_disp ts with SdAbstract => true | _ => false end | None => false end.
Definition dec_any (t : string) (buf : bytes) : result value := if is_abs t then decf_t R t buf else dec_t R t buf.

(* admissible values of named types, and the round trip of their codecs one level down *)
Variable adm_t : string -> value -> Prop.
Hypothesis sub_rt : forall t v b rest, adm_t t v -> enc_t R t v = Ok b ->
  dec_any t (b ++ rest) = Ok v /\ size_t R t v = Ok (Z.of_nat (length b)) /\ (0 < length b)%nat.
Hypothesis sub_pos : forall t v sz, adm_t t v -> size_t R t v = Ok sz -> 0 < sz.

(* a member that is not the @size member of the struct whose method runs *)
Definition not_size_member (f : field) : Prop :=
  match struct_size_attr s with Some n => String.eqb n (f_name f) | None => false end = false.

Notation ser_field := (serialize_field OP tm R s allfs).
Notation ser_fields := (serialize_fields_go OP tm R s allfs).
Notation load := (load_field OP tm R s allfs).
Notation des_field := (deserialize_field OP tm R s allfs).
Notation des_loop := (deserialize_loop OP tm R s allfs).

(* ---- static classification of the member kinds ---- *)
Inductive mkind :=
| MkInt (i : intty)                       (* plain settable integer *)
| MkReserved (i : intty) (n : Z)
| MkCount (i : intty) (g : field)         (* count / byte length of the array member g *)
| MkCountCond (i : intty) (g : field) (y : Z)   (* byte length of the conditional byte array g; y when g is absent *)
| MkNamed (t : string)
| MkBytes (n : string)                    (* byte array sized by member n *)
| MkArray (a : array) (n : string)        (* counted typed array sized by member n *)
| MkSizeof (i : intty) (gn : string) (t : string)          (* sizeof(gn), gn a named member of type t *)
| MkNamedSized (t : string) (sfn : string)                 (* named member decoded from its first <sfn> bytes *)
| MkComputed (i : intty) (gn : string) (t : string) (d : Z)  (* @sizeref(gn, d): size of member gn + d, 0 when gn is absent *)
| MkCondNamed (t : string) (cfn : string)                  (* named member present iff the computed member cfn is not 0 *)
| MkCondBytes (n : string) (y : Z)                         (* byte array sized by n, present iff n <> y *)
| MkByteSize (i : intty) (g : field)                       (* byte size (padding included) of the byte-constrained array g *)
| MkVarSized (a : array) (n : string)                      (* aligned variable-size array occupying n bytes *)
| MkFillPlain (a : array)                                  (* unaligned array filling the rest of the window *)
| MkFillVar (a : array)                                    (* aligned variable-size array filling the rest of the window *)
| MkArm (t : string) (ln : string) (y : Z) (i : intty) (ys : list Z).
    (* arm of a union: integer alias member present iff the LATER enum member ln equals y; ys = constants of all arms on ln *)

(* an unconditional computed (@sizeref) integer member measuring a named member *)
Definition computed_info (cf : field) : option (intty * string * string * Z) :=
  match f_cond cf, f_type cf with
  | None, FInt i =>
    match it_sizeref i with
    | Some (gn, Some d) =>
      match find_field allfs gn with
      | Some pf =>
        match f_type pf with
        | FName t =>
          if (0 <=? d) && (0 <=? it_size i) && negb (is_reserved cf) && negb (is_sizeof cf) && is_none (bound_field allfs cf)
          then Some (i, gn, t, d) else None
        | _ => None
        end
      | None => None
      end
    | _ => None
    end
  | _, _ => None
  end.

Definition cond_ne (c : conditional) : option Z :=      (* `<n> not equals <link>` *)
  match c_value c with CvNum y => if String.eqb (c_op c) "not equals" then Some y else None | _ => None end.

(* `X = T if NAME equals link` with T an unsigned integer alias and link an enum member: (T, link, value of NAME, integer type of T) *)
Definition arm_info (f : field) : option (string * string * Z * intty) :=
  match f_cond f, f_type f with
  | Some c, FName t =>
    match find_field allfs (c_link c), c_value c, lookup tm t with
    | Some cf, CvName nm, Some (DAlias _ (LInt i) _) =>
      match f_type cf, cond_kind tm cf with
      | FName _, CkEnum vs _ =>
        match enum_const vs nm with
        | Some y =>
          if String.eqb (c_op c) "equals" && negb (is_reserved f) && is_none (bound_field allfs f)
             && match size_fields_of allfs f with [] => true | _ => false end && it_unsigned i && (0 <? it_size i)
          then Some (t, c_link c, y, i) else None
        | None => None
        end
      | _, _ => None
      end
    | _, _, _ => None
    end
  | _, _ => None
  end.
Definition arm_consts (ln : string) : list Z :=
  flat_map (fun g => match arm_info g with Some (_, ln', y, _) => if String.eqb ln' ln then [y] else [] | None => [] end) allfs.

Definition classify (f : field) : option mkind :=
  match f_cond f with
  | None =>
    if is_sizeof f then
      match f_type f, f_value f with
      | FInt i, VName gn =>
        match find_field allfs gn with
        | Some g =>
          match f_type g with
          | FName t => if (0 <=? it_size i) && negb (is_reserved f) then Some (MkSizeof i gn t) else None
          | _ => None
          end
        | None => None
        end
      | _, _ => None
      end
    else if is_computed f then
      match computed_info f with Some (i, gn, t, d) => Some (MkComputed i gn t d) | None => None end
    else
    match f_type f with
    | FInt i =>
      if it_size i <? 0 then None else
      if is_reserved f then match f_value f, bound_field allfs f with VNum n, None => Some (MkReserved i n) | _, _ => None end
      else match bound_field allfs f with
           | None => Some (MkInt i)
           | Some g =>
             match f_array g with
             | Some ga =>
               if ends_with_count (f_name f) || negb (a_byte_constrained ga) then
                 if it_unsigned i then
                   match f_cond g with
                   | None => Some (MkCount i g)
                   | Some gc => match c_value gc with CvNum y => if is_byte_array ga then Some (MkCountCond i g y) else None | _ => None end
                   end
                 else None
               else Some (MkByteSize i g)
             | None => None
             end
           end
    | FName t =>
      if negb (is_reserved f) && is_none (bound_field allfs f) then
        match size_fields_of allfs f with
        | [] => Some (MkNamed t)
        | [sf] => Some (MkNamedSized t (f_name sf))
        | _ => None
        end
      else None
    | FArray a =>
      match bound_field allfs f, a_size a with
      | None, SzName n =>
        if is_byte_array a then Some (MkBytes n)
        else if negb (is_variable_size tm a) && negb (a_byte_constrained a) && (alignment_of a =? 0) then Some (MkArray a n)
        else if is_variable_size tm a && a_byte_constrained a && (0 <? alignment_of a) then Some (MkVarSized a n) else None
      | None, SzFill =>
        if is_byte_array a then None
        else if negb (is_variable_size tm a) && negb (a_byte_constrained a) && (alignment_of a =? 0) && is_none (a_sort_key a) then Some (MkFillPlain a)
        else if is_variable_size tm a && negb (a_byte_constrained a) && (0 <? alignment_of a) then Some (MkFillVar a) else None
      | _, _ => None
      end
    end
  | Some c =>
    match f_type f with
    | FName t =>
      match arm_info f with
      | Some (t', ln, y, i) => Some (MkArm t' ln y i (arm_consts ln))
      | None =>
      match find_field allfs (c_link c), cond_ne c with
      | Some cf, Some 0 =>
        match computed_info cf with
        | Some (_, gn, t', _) =>
          if String.eqb gn (f_name f) && String.eqb t' t && negb (is_reserved f) && is_none (bound_field allfs f)
             && match size_fields_of allfs f with [] => true | _ => false end
          then Some (MkCondNamed t (c_link c)) else None
        | None => None
        end
      | _, _ => None
      end
      end
    | FArray a =>
      match find_field allfs (c_link c), cond_ne c, a_size a with
      | Some cf, Some y, SzName n =>
        match f_type cf with
        | FInt _ => if is_byte_array a && String.eqb n (c_link c) && is_none (bound_field allfs f) then Some (MkCondBytes n y) else None
        | _ => None
        end
      | _, _, _ => None
      end
    | FInt _ => None
    end
  end.

(* ---- what the classification means (the only place where `classify` is unfolded) ---- *)
Definition computed_facts (cf : field) (i : intty) (gn t : string) (d : Z) : Prop :=
  f_cond cf = None /\ f_type cf = FInt i /\ f_sizeref cf = Some (gn, Some d) /\
  (exists pf, find_field allfs gn = Some pf /\ f_type pf = FName t) /\
  0 <= d /\ 0 <= it_size i /\ is_reserved cf = false /\ bound_field allfs cf = None.

Lemma computed_info_facts cf i gn t d : computed_info cf = Some (i, gn, t, d) -> computed_facts cf i gn t d.
Proof.
  unfold computed_info, computed_facts, f_sizeref. destruct (f_cond cf); [discriminate|].
  destruct (f_type cf) as [j| |]; try discriminate. destruct (it_sizeref j) as [[g [dd|]]|] eqn:Hsr; try discriminate.
  destruct (find_field allfs g) as [pf|] eqn:Hpf; [|discriminate]. destruct (f_type pf) as [|t'|] eqn:Hpt; try discriminate.
  destruct (_ && _) eqn:Hc; [|discriminate]. intros H; injection H as -> -> -> ->.
  repeat (apply Bool.andb_true_iff in Hc as [Hc ?]).
  repeat split; try reflexivity; try lia; try (now apply Bool.negb_true_iff); try (now apply is_none_eq).
  exists pf. split; [exact Hpf | exact Hpt].
Qed.

Definition kind_facts (f : field) (k : mkind) : Prop :=
  match k with
  | MkInt i => f_cond f = None /\ f_type f = FInt i /\ 0 <= it_size i /\ is_reserved f = false /\ is_computed f = false /\ bound_field allfs f = None
  | MkReserved i n => f_cond f = None /\ f_type f = FInt i /\ 0 <= it_size i /\ is_reserved f = true /\ is_computed f = false /\
                      bound_field allfs f = None /\ f_value f = VNum n
  | MkCount i g => f_cond f = None /\ f_type f = FInt i /\ 0 <= it_size i /\ is_reserved f = false /\ bound_field allfs f = Some g /\
                   (exists ga, f_array g = Some ga /\ (ends_with_count (f_name f) || negb (a_byte_constrained ga)) = true) /\ f_cond g = None
  | MkCountCond i g y => f_cond f = None /\ f_type f = FInt i /\ 0 <= it_size i /\ is_reserved f = false /\ bound_field allfs f = Some g /\
                   (exists ga, f_array g = Some ga /\ (ends_with_count (f_name f) || negb (a_byte_constrained ga)) = true) /\
                   (exists gc, f_cond g = Some gc /\ c_value gc = CvNum y)
  | MkNamed t => f_cond f = None /\ f_type f = FName t /\ is_reserved f = false /\ bound_field allfs f = None /\ size_fields_of allfs f = []
  | MkNamedSized t sfn => f_cond f = None /\ f_type f = FName t /\ is_reserved f = false /\ bound_field allfs f = None /\
                          exists sf, size_fields_of allfs f = [sf] /\ f_name sf = sfn
  | MkBytes n => f_cond f = None /\ bound_field allfs f = None /\ exists a, f_type f = FArray a /\ a_size a = SzName n /\ is_byte_array a = true
  | MkArray a n => f_cond f = None /\ bound_field allfs f = None /\ f_type f = FArray a /\ a_size a = SzName n /\ is_byte_array a = false /\
                   is_variable_size tm a = false /\ a_byte_constrained a = false /\ alignment_of a = 0
  | MkSizeof i gn t => f_cond f = None /\ f_type f = FInt i /\ 0 <= it_size i /\ is_reserved f = false /\ is_sizeof f = true /\
                       exists g, bound_field allfs f = Some g /\ f_name g = gn /\ f_type g = FName t
  | MkComputed i gn t d => is_computed f = true /\ computed_facts f i gn t d
  | MkCondNamed t cfn => f_type f = FName t /\ is_reserved f = false /\ bound_field allfs f = None /\ size_fields_of allfs f = [] /\
                         exists c cf i d, f_cond f = Some c /\ c_link c = cfn /\ c_value c = CvNum 0 /\ c_op c = "not equals" /\
                                          find_field allfs cfn = Some cf /\ computed_facts cf i (f_name f) t d
  | MkCondBytes n y => bound_field allfs f = None /\
                       exists c cf a j, f_cond f = Some c /\ c_link c = n /\ c_value c = CvNum y /\ c_op c = "not equals" /\
                                      find_field allfs n = Some cf /\ f_type cf = FInt j /\
                                      f_type f = FArray a /\ a_size a = SzName n /\ is_byte_array a = true
  | MkByteSize i g => f_cond f = None /\ f_type f = FInt i /\ 0 <= it_size i /\ is_reserved f = false /\ bound_field allfs f = Some g /\
                      (exists ga, f_array g = Some ga /\ (ends_with_count (f_name f) || negb (a_byte_constrained ga)) = false)
  | MkVarSized a n => f_cond f = None /\ bound_field allfs f = None /\ f_type f = FArray a /\ a_size a = SzName n /\ is_byte_array a = false /\
                      is_variable_size tm a = true /\ a_byte_constrained a = true /\ 0 < alignment_of a
  | MkFillPlain a => f_cond f = None /\ bound_field allfs f = None /\ f_type f = FArray a /\ a_size a = SzFill /\ is_byte_array a = false /\
                     is_variable_size tm a = false /\ a_byte_constrained a = false /\ alignment_of a = 0 /\ a_sort_key a = None
  | MkFillVar a => f_cond f = None /\ bound_field allfs f = None /\ f_type f = FArray a /\ a_size a = SzFill /\ is_byte_array a = false /\
                   is_variable_size tm a = true /\ a_byte_constrained a = false /\ 0 < alignment_of a
  | MkArm t ln y i ys => arm_info f = Some (t, ln, y, i) /\ ys = arm_consts ln
  end.

Definition arm_facts (f : field) (t ln : string) (y : Z) (i : intty) : Prop :=
  f_type f = FName t /\ is_reserved f = false /\ bound_field allfs f = None /\ size_fields_of allfs f = [] /\
  it_unsigned i = true /\ 0 < it_size i /\ (exists nm cm, lookup tm t = Some (DAlias nm (LInt i) cm)) /\
  exists c cf et vs bw nm, f_cond f = Some c /\ c_link c = ln /\ c_op c = "equals" /\ c_value c = CvName nm /\
                           find_field allfs ln = Some cf /\ f_type cf = FName et /\ cond_kind tm cf = CkEnum vs bw /\ enum_const vs nm = Some y.

Lemma arm_info_facts f t ln y i : arm_info f = Some (t, ln, y, i) -> arm_facts f t ln y i.
Proof.
  unfold arm_info, arm_facts. destruct (f_cond f) as [c|]; [|discriminate]. destruct (f_type f) as [|t0|] eqn:Hft; try discriminate.
  destruct (find_field allfs (c_link c)) as [cf|] eqn:Hcf; [|discriminate]. destruct (c_value c) as [|nm] eqn:Hcv; [discriminate|].
  destruct (lookup tm t0) as [[anm [i0|] cm| |]|] eqn:Hl; try discriminate.
  destruct (f_type cf) as [|et|] eqn:Hcft; try discriminate. destruct (cond_kind tm cf) as [|vs bw|] eqn:Hck; try discriminate.
  destruct (enum_const vs nm) as [y0|] eqn:Hec; [|discriminate].
  destruct (_ && _) eqn:Hc; [|discriminate]. intros H; injection H as <- <- <- <-.
  repeat (apply Bool.andb_true_iff in Hc as [Hc ?]).
  repeat split; try assumption; try reflexivity; try lia; try (now apply Bool.negb_true_iff); try (now apply is_none_eq).
  - destruct (size_fields_of allfs f); [reflexivity|discriminate].
  - eauto.
  - exists c, cf, et, vs, bw, nm. repeat split; try assumption; try reflexivity. now apply String.eqb_eq.
Qed.

Lemma find_field_name fs n g : find_field fs n = Some g -> f_name g = n.
Proof. unfold find_field. intros H. apply find_some in H as [_ H]. now apply String.eqb_eq in H. Qed.

Lemma cond_ne_facts c y : cond_ne c = Some y -> c_value c = CvNum y /\ c_op c = "not equals".
Proof.
  unfold cond_ne. destruct (c_value c); [|discriminate]. destruct (String.eqb_spec (c_op c) "not equals"); [|discriminate].
  intros H; injection H as ->. now split.
Qed.

Lemma classify_facts f k : classify f = Some k -> kind_facts f k.
Proof.
  unfold classify. destruct (f_cond f) as [c|] eqn:Hcond.
  - (* conditional members *)
    destruct (f_type f) as [j|t|a] eqn:Hft; [discriminate| |].
    + destruct (arm_info f) as [[[[t' ln] y] i]|] eqn:Harm.
      { intros H; injection H as <-. cbn [kind_facts]. now split. }
      destruct (find_field allfs (c_link c)) as [cf|] eqn:Hcf; [|discriminate].
      destruct (cond_ne c) as [[| |]|] eqn:Hne; try discriminate.
      destruct (computed_info cf) as [[[[i gn] t'] d]|] eqn:Hci; [|discriminate].
      destruct (_ && _) eqn:Hc; [|discriminate]. intros H; injection H as <-.
      repeat (apply Bool.andb_true_iff in Hc as [Hc ?]).
      apply String.eqb_eq in Hc. match goal with Ht : String.eqb t' t = true |- _ => apply String.eqb_eq in Ht end. subst gn t'.
      destruct (cond_ne_facts c 0 Hne) as [Hv Hop].
      cbn [kind_facts]. repeat split; try assumption; try reflexivity; try (now apply Bool.negb_true_iff); try (now apply is_none_eq).
      * destruct (size_fields_of allfs f); [reflexivity|discriminate].
      * exists c, cf, i, d. repeat split; try assumption; try reflexivity. all: now apply computed_info_facts in Hci; destruct Hci as (?&?&?&?&?&?&?&?).
    + destruct (find_field allfs (c_link c)) as [cf|] eqn:Hcf; [|discriminate].
      destruct (cond_ne c) as [y|] eqn:Hne; [|discriminate]. destruct (a_size a) as [|n|] eqn:Has; try discriminate.
      destruct (f_type cf) as [j| |] eqn:Hcft; try discriminate.
      destruct (_ && _) eqn:Hc; [|discriminate]. intros H; injection H as <-.
      repeat (apply Bool.andb_true_iff in Hc as [Hc ?]).
      match goal with Ht : String.eqb n (c_link c) = true |- _ => apply String.eqb_eq in Ht; rename Ht into Hn end.
      destruct (cond_ne_facts c y Hne) as [Hv Hop].
      cbn [kind_facts]. split; [now apply is_none_eq|]. exists c, cf, a, j. rewrite Hn. repeat split; try assumption; try reflexivity.
      now rewrite Hn in Has.
  - destruct (is_sizeof f) eqn:Hso.
    { destruct (f_type f) as [i| |] eqn:Hft; try discriminate. destruct (f_value f) as [| |gn|] eqn:Hfv; try discriminate.
      destruct (find_field allfs gn) as [g|] eqn:Hg; [|discriminate]. destruct (f_type g) as [|t|] eqn:Hgt; try discriminate.
      destruct (_ && _) eqn:Hc; [|discriminate]. intros H; injection H as <-.
      apply Bool.andb_true_iff in Hc as [Hc Hr]. apply Bool.negb_true_iff in Hr.
      cbn [kind_facts]. repeat split; try assumption; try reflexivity; try lia.
      exists g. repeat split; [|now apply find_field_name in Hg|exact Hgt].
      unfold bound_field, sizeof_target. now rewrite Hso, Hfv, Hg. }
    destruct (is_computed f) eqn:Hcomp.
    { destruct (computed_info f) as [[[[i gn] t] d]|] eqn:Hci; [|discriminate]. intros H; injection H as <-.
      cbn [kind_facts]. split; [assumption | now apply computed_info_facts]. }
    destruct (f_type f) as [i|t|a] eqn:Hft.
    + destruct (it_size i <? 0) eqn:Hw0; [discriminate|]. destruct (is_reserved f) eqn:Hres.
      * destruct (f_value f) as [|n| |] eqn:Hfv; try discriminate. destruct (bound_field allfs f) eqn:Hb; [discriminate|].
        intros H; injection H as <-. cbn [kind_facts]. repeat split; try assumption; try reflexivity; lia.
      * destruct (bound_field allfs f) as [g|] eqn:Hb.
        -- destruct (f_array g) as [ga|] eqn:Hga; [|discriminate].
           destruct (_ || _) eqn:Hc.
           2:{ intros H; injection H as <-. cbn [kind_facts]. repeat split; try assumption; try reflexivity; try lia. exists ga. now split. }
           destruct (it_unsigned i) eqn:Hu; [|discriminate].
           destruct (f_cond g) as [gc|] eqn:Hgc.
           ++ destruct (c_value gc) as [y|] eqn:Hgv; [|discriminate]. destruct (is_byte_array ga); [|discriminate].
              intros H; injection H as <-. cbn [kind_facts]. repeat split; try assumption; try reflexivity; try lia.
              ** exists ga. now split.
              ** exists gc. now split.
           ++ intros H; injection H as <-. cbn [kind_facts]. repeat split; try assumption; try reflexivity; try lia. exists ga. now split.
        -- intros H; injection H as <-. cbn [kind_facts]. repeat split; try assumption; try reflexivity; lia.
    + destruct (_ && _) eqn:Hc; [|discriminate]. apply Bool.andb_true_iff in Hc as [Hr Hb]. apply Bool.negb_true_iff in Hr. apply is_none_eq in Hb.
      destruct (size_fields_of allfs f) as [|sf [|]] eqn:Hsf; try discriminate; intros H; injection H as <-; cbn [kind_facts]; repeat split; try assumption; try reflexivity.
      exists sf. now split.
    + destruct (bound_field allfs f) eqn:Hb; [discriminate|]. destruct (a_size a) as [|n|] eqn:Has; try discriminate.
      * destruct (is_byte_array a) eqn:Hba.
        -- intros H; injection H as <-. cbn [kind_facts]. repeat split; try assumption; try reflexivity. exists a. now repeat split.
        -- destruct (negb (is_variable_size tm a) && negb (a_byte_constrained a) && (alignment_of a =? 0)) eqn:Hc.
           ++ intros H; injection H as <-.
              apply Bool.andb_true_iff in Hc as [Hc Hal]. apply Bool.andb_true_iff in Hc as [Hvs Hbc]. apply Bool.negb_true_iff in Hvs, Hbc.
              cbn [kind_facts]. repeat split; try assumption; try reflexivity. lia.
           ++ destruct (is_variable_size tm a && a_byte_constrained a && (0 <? alignment_of a)) eqn:Hc2; [|discriminate]. intros H; injection H as <-.
              apply Bool.andb_true_iff in Hc2 as [Hc2 Hal]. apply Bool.andb_true_iff in Hc2 as [Hvs Hbc].
              cbn [kind_facts]. repeat split; try assumption; try reflexivity. lia.
      * destruct (is_byte_array a) eqn:Hba; [discriminate|].
        destruct (negb (is_variable_size tm a) && negb (a_byte_constrained a) && (alignment_of a =? 0) && is_none (a_sort_key a)) eqn:Hc.
        -- intros H; injection H as <-.
           apply Bool.andb_true_iff in Hc as [Hc Hsk]. apply Bool.andb_true_iff in Hc as [Hc Hal]. apply Bool.andb_true_iff in Hc as [Hvs Hbc].
           apply Bool.negb_true_iff in Hvs, Hbc. apply is_none_eq in Hsk.
           cbn [kind_facts]. repeat split; try assumption; try reflexivity. lia.
        -- destruct (is_variable_size tm a && negb (a_byte_constrained a) && (0 <? alignment_of a)) eqn:Hc2; [|discriminate]. intros H; injection H as <-.
           apply Bool.andb_true_iff in Hc2 as [Hc2 Hal]. apply Bool.andb_true_iff in Hc2 as [Hvs Hbc]. apply Bool.negb_true_iff in Hbc.
           cbn [kind_facts]. repeat split; try assumption; try reflexivity. lia.
Qed.

Lemma classify_cond f k : classify f = Some k -> match k with MkCondNamed _ _ | MkCondBytes _ _ | MkArm _ _ _ _ _ => True | _ => f_cond f = None end.
Proof.
  intros H. apply classify_facts in H. destruct k; cbn [kind_facts] in H; try exact I; try tauto.
  destruct H as (_ & H). unfold computed_facts in H. tauto.
Qed.

(* ---- what a value must look like at a member (typing; ranges are implied by successful encoding) ---- *)
Definition opt_struct_of (t : string) (v : value) : Prop := v = VNull \/ (is_vstruct v = true /\ adm_t t v).

Definition member_typed (self : value) (f : field) : Prop :=
  match classify f with
  | Some (MkInt _) => exists z, vget self (f_name f) = Some (VInt z)
  | Some (MkReserved _ _) => True
  | Some (MkCount _ g) =>
    (exists b, vget self (f_name g) = Some (VBytes b)) \/ (exists l, vget self (f_name g) = Some (VArr l))
  | Some (MkCountCond _ g _) =>
    vget self (f_name g) = Some VNull \/ (exists b, vget self (f_name g) = Some (VBytes b))
  | Some (MkNamed t) | Some (MkNamedSized t _) => exists v, vget self (f_name f) = Some v /\ v <> VNull /\ adm_t t v
  | Some (MkBytes _) => exists b, vget self (f_name f) = Some (VBytes b)
  | Some (MkArray a _) | Some (MkVarSized a _) | Some (MkFillPlain a) | Some (MkFillVar a) =>
    exists l, vget self (f_name f) = Some (VArr l) /\ (length l <= array_fuel)%nat /\
              match elem_name a with Some et => Forall (adm_t et) l | None => False end
  | Some (MkByteSize _ _) => True
  | Some (MkSizeof _ gn t) => exists v, vget self gn = Some v /\ v <> VNull /\ adm_t t v
  | Some (MkComputed _ gn t _) => exists v, vget self gn = Some v /\ opt_struct_of t v
  | Some (MkCondNamed t _) => exists v, vget self (f_name f) = Some v /\ opt_struct_of t v
  | Some (MkCondBytes _ y) =>
    vget self (f_name f) = Some VNull \/ (exists b, vget self (f_name f) = Some (VBytes b) /\ Z.of_nat (length b) <> y)
  | Some (MkArm t ln y _ ys) =>
    exists v z, vget self (f_name f) = Some v /\ vget self ln = Some (VInt z) /\ In z ys /\
                ((z = y /\ (exists x, v = VInt x) /\ adm_t t v) \/ (z <> y /\ v = VNull))
  | None => False
  end.

(* what the decoder has in its environment for a member already read *)
Definition env_entry (self : value) (f : field) : option value :=
  match classify f with
  | Some (MkInt _) | Some (MkNamed _) | Some (MkBytes _) | Some (MkArray _ _)
  | Some (MkNamedSized _ _) | Some (MkCondNamed _ _) | Some (MkCondBytes _ _)
  | Some (MkVarSized _ _) | Some (MkFillPlain _) | Some (MkFillVar _) | Some (MkArm _ _ _ _ _) => vget self (f_name f)
  | Some (MkByteSize _ g) => match member_size OP tm R self g with Ok z => Some (VInt z) | _ => None end
  | Some (MkCount _ g) =>
    match vget self (f_name g) with
    | Some (VBytes b) => Some (VInt (Z.of_nat (length b)))
    | Some (VArr l) => Some (VInt (Z.of_nat (length l)))
    | _ => None
    end
  | Some (MkCountCond _ g y) =>
    match vget self (f_name g) with
    | Some VNull => Some (VInt y)
    | Some (VBytes b) => Some (VInt (Z.of_nat (length b)))
    | _ => None
    end
  | Some (MkReserved _ n) => Some (VInt n)
  | Some (MkSizeof _ gn t) =>
    match vget self gn with
    | Some v => match size_t R t v with Ok z => Some (VInt z) | _ => None end
    | None => None
    end
  | Some (MkComputed _ gn t d) =>
    match vget self gn with
    | Some VNull => Some (VInt 0)
    | Some v => match size_t R t v with Ok z => Some (VInt (z + d)) | _ => None end
    | None => None
    end
  | None => None
  end.

Definition env_ok (seen : list field) (e : env) (self : value) : Prop :=
  forall f, In f seen -> eget e (f_name f) = env_entry self f.

(* members that must have been read before a member: seen = all members read so far (the environment),
   proc = names of the members processed by the running loop (what the generator's `processed` holds) *)
Definition size_member_seen (seen : list field) (f : field) (n : string) : Prop :=
  exists c i, In c seen /\ f_name c = n /\ classify c = Some (MkCount i f).

Definition deps_ok (seen : list field) (proc : list string) (f : field) : Prop :=
  match classify f with
  | Some (MkArray _ n) | Some (MkBytes n) => size_member_seen seen f n
  | Some (MkCondBytes n y) => (exists c i, In c seen /\ f_name c = n /\ classify c = Some (MkCountCond i f y)) /\ In n proc
  | Some (MkNamedSized t sfn) => exists c i, In c seen /\ f_name c = sfn /\ classify c = Some (MkSizeof i (f_name f) t)
  | Some (MkCondNamed t cfn) => (exists c i d, In c seen /\ f_name c = cfn /\ classify c = Some (MkComputed i (f_name f) t d)) /\ In cfn proc
  | Some (MkVarSized _ n) => exists c i, In c seen /\ f_name c = n /\ classify c = Some (MkByteSize i f)
  | Some (MkArm _ _ _ _ _) => False      (* union arms are not read by the ordinary member step (see union_rt) *)
  | _ => True
  end.

(* members that read to the end of the window: only as the last member, with nothing behind *)
Definition fill_member (f : field) : Prop :=
  match classify f with Some (MkFillPlain _) | Some (MkFillVar _) => True | _ => False end.

Lemma eget_cons_eq e n v : eget ((n, v) :: e) n = Some v.
Proof. unfold eget. cbn [find fst]. now rewrite String.eqb_refl. Qed.

Lemma eget_cons_neq e n m v : n <> m -> eget ((n, v) :: e) m = eget e m.
Proof. intros H. unfold eget. cbn [find fst]. destruct (String.eqb_spec n m); [contradiction|reflexivity]. Qed.

Lemma skipn_app_exact {A} (a b : list A) n : length a = n -> skipn n (a ++ b) = b.
Proof. intros <-. rewrite skipn_app, skipn_all, Nat.sub_diag. reflexivity. Qed.

Lemma cond_local_none e f : f_cond f = None -> cond_local tm allfs e f = Ok true.
Proof. unfold cond_local. now intros ->. Qed.

Lemma zskipn_all_len (l : bytes) : zskipn (Z.of_nat (length l)) l = [].
Proof. unfold zskipn. now rewrite Z.leb_refl. Qed.

Lemma zfirstn_all (l : bytes) : zfirstn (Z.of_nat (length l)) l = l.
Proof. unfold zfirstn. now rewrite Z.leb_refl. Qed.

(* ---- integer-valued members: whatever value z serialize wrote, the decoder reads z ---- *)
Lemma int_step e f i z bf rest :
  f_type f = FInt i -> f_cond f = None -> not_size_member f ->
  (is_reserved f = false \/ f_value f = VNum z) ->
  py_to_bytes (Z.to_nat (it_size i)) (negb (it_unsigned i)) z = Ok bf ->
  des_field e f (bf ++ rest) = Ok ((f_name f, VInt z) :: e, rest).
Proof.
  intros Hft Hcond Hns Hres Hser. unfold deserialize_field. rewrite (cond_local_none e f Hcond). cbn [bind].
  unfold load_field. unfold not_size_member in Hns. rewrite Hft, Hns.
  destruct (py_int_roundtrip _ _ _ _ rest Hser) as [Hx Hlen]. rewrite Hx, (skipn_app_exact bf rest _ Hlen).
  destruct (is_reserved f).
  - destruct Hres as [Hres|Hres]; [discriminate|]. rewrite Hres, Z.eqb_refl. reflexivity.
  - reflexivity.
Qed.

Lemma int_size self f i bf z sg : f_type f = FInt i -> f_cond f = None -> 0 <= it_size i ->
  py_to_bytes (Z.to_nat (it_size i)) sg z = Ok bf ->
  bind (cond_self tm R allfs self f) (fun c => if c then member_size OP tm R self f else Ok 0) = Ok (Z.of_nat (length bf)).
Proof.
  intros Hft Hcond Hw Hser. rewrite (cond_self_none tm R allfs self f Hcond). cbn [bind]. unfold member_size. rewrite Hft.
  rewrite (proj2 (py_int_roundtrip _ _ _ _ [] Hser)). f_equal. lia.
Qed.

(* what serialize writes for the integer-valued kinds *)
Definition int_written (self : value) (k : mkind) : result Z :=
  match k with
  | MkInt _ | MkNamed _ | MkBytes _ | MkArray _ _ | MkNamedSized _ _ | MkCondNamed _ _ | MkCondBytes _ _
  | MkVarSized _ _ | MkFillPlain _ | MkFillVar _ | MkArm _ _ _ _ _ => unsupported
  | MkByteSize _ g => member_size OP tm R self g
  | MkReserved _ n => Ok n
  | MkCount _ g =>
    match vget self (f_name g) with
    | Some (VBytes b) => Ok (Z.of_nat (length b))
    | Some (VArr l) => Ok (Z.of_nat (length l))
    | _ => unsupported
    end
  | MkCountCond _ g y =>
    match vget self (f_name g) with
    | Some VNull => Ok y
    | Some (VBytes b) => Ok (Z.of_nat (length b))
    | _ => unsupported
    end
  | MkSizeof _ gn t => match vget self gn with Some v => size_t R t v | None => unsupported end
  | MkComputed _ gn t d =>
    match vget self gn with
    | Some VNull => Ok 0
    | Some v => bind (size_t R t v) (fun z => Ok (z + d))
    | None => unsupported
    end
  end.

Definition int_of_kind (k : mkind) : option intty :=
  match k with MkInt i | MkReserved i _ | MkCount i _ | MkCountCond i _ _ | MkSizeof i _ _ | MkComputed i _ _ _ | MkByteSize i _ => Some i | _ => None end.

Lemma computed_value_eq self cf i gn t d v : computed_facts cf i gn t d -> vget self gn = Some v -> opt_struct_of t v ->
  computed_value R allfs self cf = match v with VNull => Ok 0 | _ => bind (size_t R t v) (fun z => Ok (z + d)) end.
Proof.
  intros (_ & _ & Hsr & (pf & Hpf & Hpt) & _) Hv Hos. unfold computed_value. rewrite Hsr, Hpf, Hv.
  destruct Hos as [->|[Hvs _]]; [reflexivity|]. destruct v; try discriminate. cbn [truthy negb]. now rewrite Hpt.
Qed.

Lemma int_kind_ser self total f k i : classify f = Some k -> int_of_kind k = Some i -> k <> MkInt i -> member_typed self f ->
  f_type f = FInt i /\ f_cond f = None /\ 0 <= it_size i /\ (is_reserved f = false \/ exists z, int_written self k = Ok z /\ f_value f = VNum z) /\
  ser_field total self false f = bind (int_written self k) (py_to_bytes (Z.to_nat (it_size i)) (negb (it_unsigned i))).
Proof.
  intros Hk Hi Hni Hty. pose proof (classify_facts f k Hk) as F. unfold member_typed in Hty. rewrite Hk in Hty.
  unfold serialize_field. cbn [andb].
  destruct k; cbn [int_of_kind] in Hi; try discriminate; injection Hi as ->; cbn [kind_facts] in F; cbn [int_written].
  - contradiction.
  - destruct F as (Hc & Hft & Hw & Hres & Hcomp & Hb & Hv). rewrite (cond_self_none tm R allfs self f Hc). cbn [bind negb]. rewrite Hb, Hft, Hcomp, Hres, Hv.
    repeat split; try assumption; try reflexivity. right. exists n. now split.
  - destruct F as (Hc & Hft & Hw & Hres & Hb & (ga & Hga & Hcnt) & Hgc). rewrite (cond_self_none tm R allfs self f Hc). cbn [bind negb].
    rewrite Hb, Hft, Hga, Hcnt. unfold member_value.
    repeat split; try assumption; [now left|].
    destruct Hty as [[b Hv]|[l Hv]]; rewrite Hv; cbn [bind]; try rewrite Hgc; reflexivity.
  - destruct F as (Hc & Hft & Hw & Hres & Hb & (ga & Hga & Hcnt) & (gc & Hgc & Hgv)). rewrite (cond_self_none tm R allfs self f Hc). cbn [bind negb].
    rewrite Hb, Hft, Hga, Hcnt. unfold member_value.
    repeat split; try assumption; [now left|].
    destruct Hty as [Hv|[b Hv]]; rewrite Hv; cbn [bind]; rewrite ?Hgc, ?Hgv; reflexivity.
  - destruct F as (Hc & Hft & Hw & Hres & Hso & (g & Hb & Hgn & Hgt)). rewrite (cond_self_none tm R allfs self f Hc). cbn [bind negb].
    rewrite Hb, Hft, Hso. unfold f_array. rewrite Hgt. unfold member_size, member_value. rewrite Hgt, Hgn.
    repeat split; try assumption; [now left|].
    destruct Hty as (v & Hv & Hnn & _). rewrite Hv. cbn [bind]. destruct v; try reflexivity. contradiction.
  - destruct F as (Hcomp & F). pose proof F as (Hc & Hft & Hsr & Hpf & Hd & Hw & Hres & Hb).
    rewrite (cond_self_none tm R allfs self f Hc). cbn [bind negb]. rewrite Hb, Hft, Hcomp.
    repeat split; try assumption; [now left|].
    destruct Hty as (v & Hv & Hos). rewrite (computed_value_eq self f i gn t d v F Hv Hos), Hv. destruct v; reflexivity.
  - destruct F as (Hc & Hft & Hw & Hres & Hb & (ga & Hga & Hcnt)). rewrite (cond_self_none tm R allfs self f Hc). cbn [bind negb].
    rewrite Hb, Hft, Hga, Hcnt. repeat split; try assumption. now left.
Qed.

Lemma int_written_entry self f k i z : classify f = Some k -> int_of_kind k = Some i -> k <> MkInt i ->
  int_written self k = Ok z -> env_entry self f = Some (VInt z).
Proof.
  intros Hk Hi Hni Hw. unfold env_entry. rewrite Hk.
  destruct k; cbn [int_of_kind] in Hi; try discriminate; injection Hi as ->; cbn [int_written] in Hw.
  - congruence.
  - destruct (vget self (f_name g)) as [[| | | |]|]; try discriminate; now injection Hw as ->.
  - destruct (vget self (f_name g)) as [[| | | |]|]; try discriminate; now injection Hw as ->.
  - destruct (vget self gn) as [v|]; [|discriminate]. now rewrite Hw.
  - destruct (vget self gn) as [v|]; [|discriminate].
    destruct v; try (now injection Hw as <-); destruct (size_t R t _) as [sz| |]; cbn [bind] in Hw; try discriminate; now injection Hw as <-.
  - now rewrite Hw.
Qed.

(* ---- conditions ---- *)
Lemma cond_named_self self f t cfn v : classify f = Some (MkCondNamed t cfn) -> vget self (f_name f) = Some v -> opt_struct_of t v ->
  cond_self tm R allfs self f = match v with VNull => Ok false | _ => bind (size_t R t v) (fun _ => Ok true) end.
Proof.
  intros Hk Hv Hos. pose proof (classify_facts f _ Hk) as F. cbn [kind_facts] in F.
  destruct F as (Hft & Hres & Hb & Hsf & c & cf & i & d & Hc & Hl & Hcv & Hop & Hcf & F).
  pose proof F as (Hcc & Hcft & Hsr & _ & Hd & _).
  unfold cond_self. rewrite Hc, Hft, Hl, Hcf. unfold cond_kind. rewrite Hcft. unfold cond_yoda. rewrite Hcv.
  unfold cond_operand_self, is_computed. rewrite Hsr. rewrite (computed_value_eq self cf i (f_name f) t d v F Hv Hos).
  unfold cond_eval. rewrite Hop. cbn [String.eqb Ascii.eqb Bool.eqb].
  destruct Hos as [->|[Hvs Hadm]]; [reflexivity|]. destruct v; try discriminate.
  destruct (size_t R t (VStruct cls fs)) as [sz| |] eqn:Hsz; cbn [bind]; try reflexivity.
  pose proof (sub_pos _ _ _ Hadm Hsz). do 2 f_equal. lia.
Qed.

Lemma cond_named_local seen proc e self f t cfn v : classify f = Some (MkCondNamed t cfn) -> env_ok seen e self -> deps_ok seen proc f ->
  vget self (f_name f) = Some v -> opt_struct_of t v -> (v = VNull \/ exists sz, size_t R t v = Ok sz) ->
  cond_local tm allfs e f = Ok (match v with VNull => false | _ => true end).
Proof.
  intros Hk Henv Hdeps Hv Hos Hsz. pose proof (classify_facts f _ Hk) as F. cbn [kind_facts] in F.
  destruct F as (Hft & Hres & Hb & Hsf & c & cf & i & d & Hc & Hl & Hcv & Hop & Hcf & (Hcc & Hcft & _)).
  unfold deps_ok in Hdeps. rewrite Hk in Hdeps. destruct Hdeps as [(c' & i' & d' & Hin & Hn & Hk') _].
  pose proof (Henv c' Hin) as He. unfold env_entry in He. rewrite Hk', Hv, Hn in He.
  pose proof (classify_facts c' _ Hk') as F'. cbn [kind_facts] in F'. destruct F' as (_ & _ & _ & _ & _ & Hd' & _).
  unfold cond_local. rewrite Hc, Hl, Hcf. unfold cond_kind. rewrite Hcft. unfold cond_yoda. rewrite Hcv.
  unfold cond_eval. rewrite Hop. cbn [String.eqb Ascii.eqb Bool.eqb].
  destruct Hos as [->|[Hvs Hadm]]; [now rewrite He|]. destruct v; try discriminate.
  destruct Hsz as [Hsz|[sz Hsz]]; [discriminate|]. rewrite Hsz in He. rewrite He.
  pose proof (sub_pos _ _ _ Hadm Hsz). do 2 f_equal. lia.
Qed.

Lemma cond_bytes_local seen proc e self f n y : classify f = Some (MkCondBytes n y) -> env_ok seen e self -> deps_ok seen proc f ->
  member_typed self f ->
  cond_local tm allfs e f = Ok (match vget self (f_name f) with Some VNull => false | _ => true end) /\
  (forall b, vget self (f_name f) = Some (VBytes b) -> eget e n = Some (VInt (Z.of_nat (length b)))).
Proof.
  intros Hk Henv Hdeps Hty. pose proof (classify_facts f _ Hk) as F. cbn [kind_facts] in F.
  destruct F as (Hb & c & cf & a & j & Hc & Hl & Hcv & Hop & Hcf & Hcft & Hft & Has & Hba).
  unfold deps_ok in Hdeps. rewrite Hk in Hdeps. destruct Hdeps as [(c' & i' & Hin & Hn & Hk') _].
  pose proof (Henv c' Hin) as He. unfold env_entry in He. rewrite Hk', Hn in He.
  unfold member_typed in Hty. rewrite Hk in Hty.
  unfold cond_local. rewrite Hc, Hl, Hcf. unfold cond_kind. rewrite Hcft. unfold cond_yoda. rewrite Hcv.
  unfold cond_eval. rewrite Hop. cbn [String.eqb Ascii.eqb Bool.eqb].
  destruct Hty as [Hv|(b & Hv & Hne)]; rewrite Hv in He |- *; rewrite He.
  - split; [now rewrite Z.eqb_refl | intros b Hb'; discriminate].
  - split; [do 2 f_equal; lia | intros b' Hb'; now injection Hb' as <-].
Qed.

Lemma arm_cond_self self f t ln y i ys z : classify f = Some (MkArm t ln y i ys) -> vget self ln = Some (VInt z) ->
  cond_self tm R allfs self f = Ok (y =? z).
Proof.
  intros Hk Hz. pose proof (classify_facts f _ Hk) as F. cbn [kind_facts] in F. destruct F as [F _]. apply arm_info_facts in F.
  destruct F as (Hft & _ & _ & _ & _ & _ & _ & c & cf & et & vs & bw & nm & Hc & Hl & Hop & Hcv & Hcf & Hcft & Hck & Hec).
  unfold cond_self. rewrite Hc, Hft, Hl, Hcf, Hck. unfold cond_yoda. rewrite Hcv, Hec.
  unfold cond_operand_self, is_computed, f_sizeref. rewrite Hcft, (find_field_name allfs ln cf Hcf), Hz. cbn [bind].
  unfold cond_eval. rewrite Hop. reflexivity.
Qed.

Lemma arm_cond_local e f t ln y i ys z : classify f = Some (MkArm t ln y i ys) -> eget e ln = Some (VInt z) ->
  cond_local tm allfs e f = Ok (y =? z).
Proof.
  intros Hk Hz. pose proof (classify_facts f _ Hk) as F. cbn [kind_facts] in F. destruct F as [F _]. apply arm_info_facts in F.
  destruct F as (Hft & _ & _ & _ & _ & _ & _ & c & cf & et & vs & bw & nm & Hc & Hl & Hop & Hcv & Hcf & Hcft & Hck & Hec).
  unfold cond_local. rewrite Hc, Hl, Hcf, Hck. unfold cond_yoda. rewrite Hcv, Hec, Hz.
  unfold cond_eval. rewrite Hop. reflexivity.
Qed.

(* ---- what a successful serialisation of a typed member looks like ---- *)
Inductive ser_shape (self : value) (f : field) (bf : bytes) : Prop :=
| SsInt i z : f_type f = FInt i -> f_cond f = None -> 0 <= it_size i -> (is_reserved f = false \/ f_value f = VNum z) ->
    py_to_bytes (Z.to_nat (it_size i)) (negb (it_unsigned i)) z = Ok bf -> env_entry self f = Some (VInt z) -> ser_shape self f bf
| SsNamed t v : f_type f = FName t -> cond_self tm R allfs self f = Ok true -> vget self (f_name f) = Some v -> v <> VNull -> adm_t t v ->
    enc_t R t v = Ok bf -> env_entry self f = Some v ->
    (classify f = Some (MkNamed t) \/ (exists sfn, classify f = Some (MkNamedSized t sfn)) \/ (exists cfn, classify f = Some (MkCondNamed t cfn)) \/
     (exists ln y i ys, classify f = Some (MkArm t ln y i ys))) ->
    ser_shape self f bf
| SsAbsent : cond_self tm R allfs self f = Ok false -> bf = [] -> vget self (f_name f) = Some VNull -> env_entry self f = Some VNull ->
    ((exists t cfn, classify f = Some (MkCondNamed t cfn)) \/ (exists n y, classify f = Some (MkCondBytes n y)) \/
     (exists t ln y i ys, classify f = Some (MkArm t ln y i ys))) -> ser_shape self f bf
| SsBytes a n : f_type f = FArray a -> is_byte_array a = true -> a_size a = SzName n -> vget self (f_name f) = Some (VBytes bf) ->
    env_entry self f = Some (VBytes bf) -> cond_self tm R allfs self f = Ok (match bf with [] => false | _ => true end) \/ cond_self tm R allfs self f = Ok true ->
    (classify f = Some (MkBytes n) \/ exists y, classify f = Some (MkCondBytes n y)) -> ser_shape self f bf
| SsArray a n l et : classify f = Some (MkArray a n) -> f_type f = FArray a -> f_cond f = None -> vget self (f_name f) = Some (VArr l) -> (length l <= array_fuel)%nat ->
    elem_name a = Some et -> Forall (adm_t et) l ->
    write_array_go OP tm R a None l (length l) = Ok bf ->
    env_entry self f = Some (VArr l) -> ser_shape self f bf
| SsVarArr a l et : f_type f = FArray a -> f_cond f = None -> vget self (f_name f) = Some (VArr l) -> (length l <= array_fuel)%nat ->
    elem_name a = Some et -> Forall (adm_t et) l -> write_variable OP R a l = Ok bf -> env_entry self f = Some (VArr l) ->
    ((exists n, classify f = Some (MkVarSized a n)) \/ classify f = Some (MkFillVar a)) -> ser_shape self f bf
| SsFillPlain a l et : classify f = Some (MkFillPlain a) -> f_type f = FArray a -> f_cond f = None -> vget self (f_name f) = Some (VArr l) -> (length l <= array_fuel)%nat ->
    elem_name a = Some et -> Forall (adm_t et) l -> write_array_go OP tm R a None l (length l) = Ok bf ->
    env_entry self f = Some (VArr l) -> ser_shape self f bf.

Lemma nokey_eq a : a_sort_key a = None ->
  {| a_elem := a_elem a; a_size := a_size a; a_sort_key := None; a_byte_constrained := a_byte_constrained a;
     a_alignment := a_alignment a; a_last_padded := a_last_padded a |} = a.
Proof. destruct a; cbn. now intros ->. Qed.

Lemma member_ser_inv self total f bf : member_typed self f -> ser_field total self false f = Ok bf -> ser_shape self f bf.
Proof.
  intros Hty Hser. pose proof Hty as Hty'. unfold member_typed in Hty.
  destruct (classify f) as [k|] eqn:Hk; [|contradiction].
  destruct (int_of_kind k) as [i|] eqn:Hi.
  { (* integer-valued kinds *)
    destruct k; cbn [int_of_kind] in Hi; try discriminate; injection Hi as ->.
    1:{ pose proof (classify_facts f _ Hk) as F. cbn [kind_facts] in F. destruct F as (Hc & Hft & Hw & Hres & Hcomp & Hb).
        unfold serialize_field in Hser. cbn [andb] in Hser. rewrite (cond_self_none tm R allfs self f Hc) in Hser. cbn [bind negb] in Hser.
        rewrite Hb, Hft, Hcomp, Hres in Hser. destruct Hty as [z Hv]. unfold member_value in Hser. rewrite Hv in Hser. cbn [bind] in Hser.
        apply (SsInt self f bf i z); try assumption; [now left|]. unfold env_entry. now rewrite Hk. }
    all: match type of Hk with _ = Some ?K =>
           destruct (int_kind_ser self total f K i Hk eq_refl ltac:(discriminate) Hty') as (Hft & Hc & Hw & Hres & Hs);
           rewrite Hs in Hser; destruct (int_written self K) as [z| |] eqn:Hz; cbn [bind] in Hser; try discriminate;
           apply (SsInt self f bf i z); try assumption;
           [destruct Hres as [Hres|(z' & Hz' & Hv')]; [now left | right; congruence]
           | exact (int_written_entry self f K i z Hk eq_refl ltac:(discriminate) Hz)]
         end. }
  pose proof (classify_facts f _ Hk) as F. unfold serialize_field in Hser. cbn [andb] in Hser.
  destruct k; cbn [int_of_kind] in Hi; try discriminate; cbn [kind_facts] in F.
  - (* MkNamed *)
    destruct F as (Hc & Hft & Hres & Hb & Hsf). destruct Hty as (v & Hv & Hnn & Hadm).
    pose proof (cond_self_none tm R allfs self f Hc) as Hcs.
    assert (Hs : ser_field total self false f = enc_t R t v) by (eapply conditional_present; eassumption).
    unfold serialize_field in Hs. cbn [andb] in Hs. rewrite Hs in Hser.
    apply (SsNamed self f bf t v); try assumption; [unfold env_entry; now rewrite Hk | now left].
  - (* MkBytes *)
    destruct F as (Hc & Hb & a & Hft & Has & Hba). destruct Hty as [b Hv].
    rewrite (cond_self_none tm R allfs self f Hc) in Hser. cbn [bind negb] in Hser. rewrite Hb, Hft in Hser. unfold member_value in Hser. rewrite Hv in Hser.
    cbn [bind] in Hser. rewrite Hba in Hser. injection Hser as <-.
    apply (SsBytes self f b a n); try assumption; [unfold env_entry; now rewrite Hk | right; now apply cond_self_none | now left].
  - (* MkArray *)
    destruct F as (Hc & Hb & Hft & Has & Hba & Hvs & Hbc & Hal). destruct Hty as (l & Hv & Hfuel & Hel).
    rewrite (cond_self_none tm R allfs self f Hc) in Hser. cbn [bind negb] in Hser. rewrite Hb, Hft in Hser. unfold member_value in Hser. rewrite Hv in Hser.
    cbn [bind] in Hser. rewrite Hba, Hvs, Has in Hser. unfold write_array in Hser.
    destruct (elem_name a) as [et|] eqn:Het; [|contradiction].
    apply (SsArray self f bf a n l et); try assumption. unfold env_entry; now rewrite Hk.
  - (* MkNamedSized *)
    destruct F as (Hc & Hft & Hres & Hb & sf & Hsf & Hsfn). destruct Hty as (v & Hv & Hnn & Hadm).
    pose proof (cond_self_none tm R allfs self f Hc) as Hcs.
    assert (Hs : ser_field total self false f = enc_t R t v) by (eapply conditional_present; eassumption).
    unfold serialize_field in Hs. cbn [andb] in Hs. rewrite Hs in Hser.
    apply (SsNamed self f bf t v); try assumption; [unfold env_entry; now rewrite Hk | right; left; now exists sfn].
  - (* MkCondNamed *)
    destruct Hty as (v & Hv & Hos). pose proof (cond_named_self self f t cfn v Hk Hv Hos) as Hcs.
    destruct F as (Hft & Hres & Hb & Hsf & _).
    destruct Hos as [->|[Hvs Hadm]].
    + rewrite Hcs in Hser. cbn [bind negb] in Hser. injection Hser as <-.
      apply SsAbsent; try assumption; try reflexivity; [unfold env_entry; now rewrite Hk | left; now exists t, cfn].
    + assert (Hnn : v <> VNull) by (intros ->; discriminate).
      assert (Hcs' : cond_self tm R allfs self f = Ok true).
      { rewrite Hcs in Hser |- *. destruct v; try discriminate. destruct (size_t R t (VStruct cls fs)); cbn [bind] in Hser |- *; [reflexivity|discriminate|discriminate]. }
      assert (Hs : ser_field total self false f = enc_t R t v) by (eapply conditional_present; eassumption).
      unfold serialize_field in Hs. cbn [andb] in Hs. rewrite Hs in Hser.
      apply (SsNamed self f bf t v); try assumption; [unfold env_entry; now rewrite Hk | right; right; left; now exists cfn].
  - (* MkCondBytes *)
    destruct F as (Hb & c & cf & a & j & Hc & Hl & Hcv & Hop & Hcf & Hcft & Hft & Has & Hba).
    assert (Hcs : cond_self tm R allfs self f = match vget self (f_name f) with Some v => Ok (truthy v) | None => Crash "AttributeError" end)
      by (unfold cond_self; now rewrite Hc, Hft).
    destruct Hty as [Hv|(b & Hv & Hne)]; rewrite Hv in Hcs; cbn [truthy] in Hcs.
    + rewrite Hcs in Hser. cbn [bind negb] in Hser. injection Hser as <-.
      apply SsAbsent; try assumption; try reflexivity; [unfold env_entry; now rewrite Hk | right; left; now exists n, y].
    + assert (bf = b).
      { rewrite Hcs in Hser. cbn [bind] in Hser. destruct b as [|x b]; cbn [negb] in Hser; [now injection Hser as <-|].
        rewrite Hb, Hft in Hser. unfold member_value in Hser. rewrite Hv in Hser. cbn [bind] in Hser. rewrite Hba in Hser. now injection Hser as <-. }
      subst bf. apply (SsBytes self f b a n); try assumption; [unfold env_entry; now rewrite Hk | left | right; now exists y].
      rewrite Hcs. now destruct b.
  - (* MkVarSized *)
    destruct F as (Hc & Hb & Hft & Has & Hba & Hvs & Hbc & Hal). destruct Hty as (l & Hv & Hfuel & Hel).
    rewrite (cond_self_none tm R allfs self f Hc) in Hser. cbn [bind negb] in Hser. rewrite Hb, Hft in Hser. unfold member_value in Hser. rewrite Hv in Hser.
    cbn [bind] in Hser. rewrite Hba, Hvs in Hser.
    destruct (elem_name a) as [et|] eqn:Het; [|contradiction].
    apply (SsVarArr self f bf a l et); try assumption; [unfold env_entry; now rewrite Hk | left; now exists n].
  - (* MkFillPlain *)
    destruct F as (Hc & Hb & Hft & Has & Hba & Hvs & Hbc & Hal & Hsk). destruct Hty as (l & Hv & Hfuel & Hel).
    rewrite (cond_self_none tm R allfs self f Hc) in Hser. cbn [bind negb] in Hser. rewrite Hb, Hft in Hser. unfold member_value in Hser. rewrite Hv in Hser.
    cbn [bind] in Hser. rewrite Hba, Hvs, Has in Hser. unfold write_array in Hser. rewrite (nokey_eq a Hsk) in Hser.
    destruct (elem_name a) as [et|] eqn:Het; [|contradiction].
    apply (SsFillPlain self f bf a l et); try assumption. unfold env_entry; now rewrite Hk.
  - (* MkFillVar *)
    destruct F as (Hc & Hb & Hft & Has & Hba & Hvs & Hbc & Hal). destruct Hty as (l & Hv & Hfuel & Hel).
    rewrite (cond_self_none tm R allfs self f Hc) in Hser. cbn [bind negb] in Hser. rewrite Hb, Hft in Hser. unfold member_value in Hser. rewrite Hv in Hser.
    cbn [bind] in Hser. rewrite Hba, Hvs in Hser.
    destruct (elem_name a) as [et|] eqn:Het; [|contradiction].
    apply (SsVarArr self f bf a l et); try assumption; [unfold env_entry; now rewrite Hk | now right].
  - (* MkArm *)
    destruct Hty as (v & z & Hv & Hz & Hin & Harm). pose proof (arm_cond_self self f t ln y i ys z Hk Hz) as Hcs.
    destruct F as [F _]. apply arm_info_facts in F. destruct F as (Hft & Hres & Hb & Hsf & _).
    destruct Harm as [(-> & (x & ->) & Hadm)|(Hne & ->)].
    + rewrite Z.eqb_refl in Hcs.
      assert (Hs : ser_field total self false f = enc_t R t (VInt x)) by (eapply conditional_present; try eassumption; discriminate).
      unfold serialize_field in Hs. cbn [andb] in Hs. rewrite Hs in Hser.
      apply (SsNamed self f bf t (VInt x)); try assumption; [discriminate | unfold env_entry; now rewrite Hk | right; right; right; now exists ln, y, i, ys].
    + replace (y =? z) with false in Hcs by lia. rewrite Hcs in Hser. cbn [bind negb] in Hser. injection Hser as <-.
      apply SsAbsent; try assumption; try reflexivity; [unfold env_entry; now rewrite Hk | right; right; now exists t, ln, y, i, ys].
Qed.

(* ---- decoding of the member shapes ---- *)
Lemma named_load e f t v bf rest rest' : f_type f = FName t -> adm_t t v -> enc_t R t v = Ok bf ->
  match size_fields_of allfs f with
  | [sf] => match eget e (f_name sf) with Some (VInt n) => Some (zfirstn n (bf ++ rest)) | _ => None end
  | [] => Some (bf ++ rest)
  | _ => None
  end = Some (bf ++ rest') ->
  load e f (bf ++ rest) = Ok (v, rest).
Proof.
  intros Hft Hadm Henc Hl. unfold load_field. rewrite Hft. cbv beta iota zeta.
  destruct (sub_rt t v bf rest' Hadm Henc) as (Hd & Hs & _). unfold dec_any, is_abs in Hd.
  destruct (size_fields_of allfs f) as [|sf [|? ?]]; [| |discriminate].
  - injection Hl as Hl. apply app_inv_head in Hl. subst rest'. rewrite Hd. cbn [bind]. rewrite Hs. cbn [bind]. now rewrite zskipn_app.
  - destruct (eget e (f_name sf)) as [[n| | | |]|]; try discriminate. injection Hl as Hl. rewrite Hl, Hd. cbn [bind]. rewrite Hs. cbn [bind]. now rewrite zskipn_app.
Qed.

Lemma bytes_load e f a n b rest : f_type f = FArray a -> is_byte_array a = true -> a_size a = SzName n ->
  eget e n = Some (VInt (Z.of_nat (length b))) -> load e f (b ++ rest) = Ok (VBytes b, rest).
Proof.
  intros Hft Hba Has He. unfold load_field. rewrite Hft. cbv beta iota zeta. rewrite Hba, Has. unfold size_local. rewrite He. cbn [bind].
  unfold get_bytes. rewrite get_bytes_bad_spec, app_length.
  replace (Z.of_nat (length b + length rest) <? Z.of_nat (length b)) with false by lia.
  cbn [bind]. now rewrite zfirstn_app, zskipn_app.
Qed.

Lemma elem_rt_of a et : elem_name a = Some et -> forall e' be rest', adm_t et e' -> elem_enc R a e' = Ok be ->
  elem_dec tm R a (be ++ rest') = Ok e' /\ elem_size R a e' = Ok (Z.of_nat (length be)) /\ (0 < length be)%nat.
Proof.
  intros Het e' be rest' Ha He. unfold elem_enc, elem_dec, elem_size, contents_abstract in *. rewrite Het in *.
  destruct (sub_rt et e' be rest' Ha He) as (Hd & Hs & Hp). unfold dec_any, is_abs in Hd. repeat split; assumption.
Qed.

Lemma read_count_nokey a et : elem_name a = Some et -> a_sort_key a = None ->
  forall l0 pw b rest0 i0 fuel, Forall (adm_t et) l0 -> (length l0 <= fuel)%nat ->
    write_array_go OP tm R a pw l0 (length l0) = Ok b ->
    read_array_go OP tm R a false fuel (StopCount (i0 + Z.of_nat (length l0))) i0 None (b ++ rest0) = Ok l0.
Proof.
  intros Het Hsk. pose proof (elem_rt_of a et Het) as Hrt.
  induction l0 as [|x l0 IH]; intros pw b rest0 i0 fuel Hadm Hf Hw.
  - cbn in Hw. injection Hw as <-. destruct fuel; cbn [read_array_go length]; replace (i0 <? i0 + Z.of_nat 0) with false by lia; reflexivity.
  - cbn [length write_array_go] in Hw. inversion Hadm as [|? ? Hx Hl]; subst.
    rewrite (elem_key_none tm R a x Hsk) in Hw. cbn [bind] in Hw.
    replace (match pw with Some _ => false | None => false end) with false in Hw by (destruct pw; reflexivity).
    destruct (elem_enc R a x) as [be| |] eqn:Hbe; cbn [bind] in Hw; try discriminate.
    destruct (write_array_go OP tm R a None l0 (length l0)) as [br| |] eqn:Hbr; cbn [bind] in Hw; try discriminate.
    injection Hw as <-. destruct (Hrt x be (br ++ rest0) Hx Hbe) as (Hd & Hs & Hpos).
    destruct fuel as [|fuel]; [cbn [length] in Hf; lia|].
    cbn [read_array_go length]. replace (i0 <? i0 + Z.of_nat (S (length l0))) with true by lia. cbn [negb].
    rewrite <- app_assoc, Hd. cbn [bind]. rewrite Hs. cbn [bind]. rewrite size_bad_spec.
    replace (Z.of_nat (length be) <=? 0) with false by lia. cbn [bind]. rewrite zskipn_app.
    replace (i0 + Z.of_nat (S (length l0))) with ((i0 + 1) + Z.of_nat (length l0)) by lia.
    rewrite (IH None br rest0 (i0 + 1) fuel Hl ltac:(cbn [length] in Hf; lia) Hbr). reflexivity.
Qed.

(* the decoder's view of the condition of a member: present unless the value is None *)
Lemma cond_local_shape seen proc e self f bf : env_ok seen e self -> member_typed self f -> deps_ok seen proc f -> ser_shape self f bf ->
  cond_local tm allfs e f = Ok (match vget self (f_name f) with Some VNull => false | _ => true end) \/
  (f_cond f = None /\ cond_local tm allfs e f = Ok true).
Proof.
  intros Henv Hty Hdeps Hsh. destruct Hsh as [i z Hft Hc|t v Hft Hcs Hv Hnn Hadm Henc He Hk| Hcs Hbf Hv He Hk|a n Hft Hba Has Hv He Hcs Hk|a n l et Hk Hft Hc|a l et Hft Hc|a l et Hk Hft Hc].
  - right. split; [exact Hc | now apply cond_local_none].
  - destruct Hk as [Hk|[(sfn & Hk)|[(cfn & Hk)|(ln & y & i & ys & Hk)]]].
    4:{ exfalso. unfold deps_ok in Hdeps. now rewrite Hk in Hdeps. }
    + right. pose proof (classify_facts f _ Hk) as F. cbn [kind_facts] in F. destruct F as (Hc & _). split; [exact Hc | now apply cond_local_none].
    + right. pose proof (classify_facts f _ Hk) as F. cbn [kind_facts] in F. destruct F as (Hc & _). split; [exact Hc | now apply cond_local_none].
    + left. rewrite Hv. unfold member_typed in Hty. rewrite Hk, Hv in Hty. destruct Hty as (v' & Hv' & Hos). injection Hv' as <-.
      rewrite (cond_named_local seen proc e self f t cfn v Hk Henv Hdeps Hv Hos); [reflexivity|].
      right. destruct (sub_rt t v bf [] Hadm Henc) as (_ & Hs & _). eauto.
  - left. destruct Hk as [(t & cfn & Hk)|[(n & y & Hk)|(t & ln & y & i & ys & Hk)]].
    3:{ exfalso. unfold deps_ok in Hdeps. now rewrite Hk in Hdeps. }
    + unfold member_typed in Hty. rewrite Hk, Hv in Hty. destruct Hty as (v' & Hv' & Hos). injection Hv' as <-.
      rewrite Hv. apply (cond_named_local seen proc e self f t cfn VNull Hk Henv Hdeps Hv Hos). now left.
    + exact (proj1 (cond_bytes_local seen proc e self f n y Hk Henv Hdeps Hty)).
  - destruct Hk as [Hk|(y & Hk)].
    + right. pose proof (classify_facts f _ Hk) as F. cbn [kind_facts] in F. destruct F as (Hc & _). split; [exact Hc | now apply cond_local_none].
    + left. exact (proj1 (cond_bytes_local seen proc e self f n y Hk Henv Hdeps Hty)).
  - right. split; [exact Hc | now apply cond_local_none].
  - right. split; [exact Hc | now apply cond_local_none].
  - right. split; [exact Hc | now apply cond_local_none].
Qed.

(* ---- one member: what serialize_field wrote, deserialize_field reads back, leaving exactly the rest ---- *)
Lemma member_step (seen : list field) proc e self total f bf rest :
  not_size_member f ->
  env_ok seen e self -> member_typed self f -> deps_ok seen proc f -> (fill_member f -> rest = []) ->
  ser_field total self false f = Ok bf ->
  exists v, des_field e f (bf ++ rest) = Ok ((f_name f, v) :: e, rest) /\ Some v = env_entry self f.
Proof.
  intros Hns Henv Hty Hdeps Hfill Hser. pose proof (member_ser_inv self total f bf Hty Hser) as Hsh.
  pose proof (cond_local_shape seen proc e self f bf Henv Hty Hdeps Hsh) as Hcl.
  destruct Hsh as [i z Hft Hc Hw Hres Hpy He|t v Hft Hcs Hv Hnn Hadm Henc He Hk| Hcs Hbf Hv He Hk|a n Hft Hba Has Hv He Hcs Hk|a n l et Hk Hft Hc Hv Hfuel Het Hall Hwr He
                   |a l et Hft Hc Hv Hfuel Het Hall Hwr He Hk|a l et Hk Hft Hc Hv Hfuel Het Hall Hwr He].
  - exists (VInt z). split; [eapply int_step; eassumption | now rewrite He].
  - exists v. split; [|now rewrite He]. unfold deserialize_field.
    assert (Hcl' : cond_local tm allfs e f = Ok true) by (destruct Hcl as [Hcl|[_ Hcl]]; [rewrite Hcl, Hv; now destruct v | exact Hcl]).
    rewrite Hcl'. cbn [bind].
    assert (Hload : load e f (bf ++ rest) = Ok (v, rest)).
    { destruct Hk as [Hk|[(sfn & Hk)|[(cfn & Hk)|(ln & y & i & ys & Hk)]]]; [| | |exfalso; unfold deps_ok in Hdeps; now rewrite Hk in Hdeps];
        pose proof (classify_facts f _ Hk) as F; cbn [kind_facts] in F.
      - destruct F as (_ & _ & _ & _ & Hsf). apply (named_load e f t v bf rest rest Hft Hadm Henc). now rewrite Hsf.
      - destruct F as (_ & _ & _ & _ & sf & Hsf & Hsfn). apply (named_load e f t v bf rest [] Hft Hadm Henc). rewrite Hsf.
        unfold deps_ok in Hdeps. rewrite Hk in Hdeps. destruct Hdeps as (c & ci & Hin & Hcn & Hck).
        pose proof (Henv c Hin) as Hec. unfold env_entry in Hec. rewrite Hck, Hv in Hec.
        destruct (sub_rt t v bf [] Hadm Henc) as (_ & Hs & _). rewrite Hs in Hec. rewrite Hsfn, <- Hcn, Hec.
        now rewrite zfirstn_app, app_nil_r.
      - destruct F as (_ & _ & _ & Hsf & _). apply (named_load e f t v bf rest rest Hft Hadm Henc). now rewrite Hsf. }
    rewrite Hload. reflexivity.
  - exists VNull. split; [|now rewrite He]. subst bf. unfold deserialize_field.
    destruct Hcl as [Hcl|[Hc _]].
    + rewrite Hcl, Hv. reflexivity.
    + exfalso. destruct Hk as [(t & cfn & Hk)|[(n & y & Hk)|(t & ln & y & i & ys & Hk)]]; [| |unfold deps_ok in Hdeps; now rewrite Hk in Hdeps];
        pose proof (classify_facts f _ Hk) as F; cbn [kind_facts] in F.
      * destruct F as (_ & _ & _ & _ & c & ? & ? & ? & Hc' & _). congruence.
      * destruct F as (_ & c & ? & ? & ? & Hc' & _). congruence.
  - exists (VBytes bf). split; [|now rewrite He]. unfold deserialize_field.
    assert (Hcl' : cond_local tm allfs e f = Ok true) by (destruct Hcl as [Hcl|[_ Hcl]]; [now rewrite Hcl, Hv | exact Hcl]).
    rewrite Hcl'. cbn [bind].
    assert (Hn : eget e n = Some (VInt (Z.of_nat (length bf)))).
    { destruct Hk as [Hk|(y & Hk)].
      - unfold deps_ok in Hdeps. rewrite Hk in Hdeps. destruct Hdeps as (c & ci & Hin & Hcn & Hck).
        pose proof (Henv c Hin) as Hec. unfold env_entry in Hec. now rewrite Hck, Hv, Hcn in Hec.
      - exact (proj2 (cond_bytes_local seen proc e self f n y Hk Henv Hdeps Hty) bf Hv). }
    rewrite (bytes_load e f a n bf rest Hft Hba Has Hn). reflexivity.
  - exists (VArr l). split; [|now rewrite He]. unfold deserialize_field. rewrite (cond_local_none e f Hc). cbn [bind].
    pose proof (classify_facts f _ Hk) as F. cbn [kind_facts] in F. destruct F as (_ & Hb & _ & Has & Hba & Hvs & Hbc & Hal).
    unfold deps_ok in Hdeps. rewrite Hk in Hdeps. destruct Hdeps as (c & ci & Hin & Hcn & Hck).
    pose proof (Henv c Hin) as Hec. unfold env_entry in Hec. rewrite Hck, Hv, Hcn in Hec.
    unfold load_field. rewrite Hft. cbv beta iota zeta. rewrite Hba, Has. unfold size_local. rewrite Hec. cbn [bind]. rewrite Hvs, Hbc, Hal. cbn [negb Z.eqb].
    pose proof (elem_rt_of a et Het) as Hrt.
    pose proof (write_size OP tm R a (adm_t et) Hrt l None bf Hall Hwr) as Hsize.
    assert (Hread : read_array_go OP tm R a (match a_sort_key a with Some _ => true | None => false end) array_fuel (StopCount (Z.of_nat (length l))) 0 None (bf ++ rest) = Ok l).
    { destruct (a_sort_key a) eqn:Hsk.
      - exact (write_read_count OP tm R a (adm_t et) size_bad_spec order_same Hrt l (length l) None None bf rest 0
                    array_fuel Hall eq_refl Hfuel (or_intror eq_refl) Hwr).
      - exact (read_count_nokey a et Het Hsk l None bf rest 0 array_fuel Hall Hfuel Hwr). }
    rewrite Hread. cbn [bind]. rewrite Hsize. cbn [bind]. now rewrite zskipn_app.
  - (* aligned variable-size arrays *)
    exists (VArr l). split; [|now rewrite He]. unfold deserialize_field. rewrite (cond_local_none e f Hc). cbn [bind].
    pose proof (elem_rt_of a et Het) as Hrt.
    assert (Hload : load e f (bf ++ rest) = Ok (VArr l, rest)).
    { destruct Hk as [(n & Hk)|Hk]; pose proof (classify_facts f _ Hk) as F; cbn [kind_facts] in F.
      + destruct F as (_ & Hb & _ & Has & Hba & Hvs & Hbc & Hal).
        pose proof (write_variable_size OP tm R a (adm_t et) align_spec Hrt Hal l bf Hall Hwr) as Hsize.
        pose proof (write_read_variable OP tm R a (adm_t et) size_bad_v_spec rv_is_last_spec rv_overrun_spec align_spec Hrt Hal l bf array_fuel Hall Hfuel Hwr) as Hread.
        unfold deps_ok in Hdeps. rewrite Hk in Hdeps. destruct Hdeps as (c & ci & Hin & Hcn & Hck).
        pose proof (Henv c Hin) as Hec. unfold env_entry in Hec. rewrite Hck in Hec.
        assert (Hms : member_size OP tm R self f = Ok (Z.of_nat (length bf))).
        { unfold member_size, member_value. rewrite Hft. cbv beta iota zeta. rewrite Hba, Hv. cbn [bind]. rewrite Hvs. exact Hsize. }
        rewrite Hms, Hcn in Hec.
        unfold load_field. rewrite Hft. cbv beta iota zeta. rewrite Hba, Has. unfold size_local. rewrite Hec. cbn [bind]. rewrite Hvs.
        rewrite zfirstn_app, Hread. cbn [bind]. rewrite Hbc. cbn [bind]. now rewrite zskipn_app.
      + destruct F as (_ & Hb & _ & Has & Hba & Hvs & Hbc & Hal).
        rewrite (Hfill ltac:(unfold fill_member; now rewrite Hk)), app_nil_r.
        pose proof (write_variable_size OP tm R a (adm_t et) align_spec Hrt Hal l bf Hall Hwr) as Hsize.
        pose proof (write_read_variable OP tm R a (adm_t et) size_bad_v_spec rv_is_last_spec rv_overrun_spec align_spec Hrt Hal l bf array_fuel Hall Hfuel Hwr) as Hread.
        unfold load_field. rewrite Hft. cbv beta iota zeta. rewrite Hba, Has. cbn [bind]. rewrite Hvs, Hread. cbn [bind]. rewrite Hbc.
        replace (negb (alignment_of a =? 0)) with true by lia. rewrite Hsize. cbn [bind]. now rewrite zskipn_all_len. }
    rewrite Hload. reflexivity.
  - (* unaligned fill arrays *)
    exists (VArr l). split; [|now rewrite He]. unfold deserialize_field. rewrite (cond_local_none e f Hc). cbn [bind].
    pose proof (elem_rt_of a et Het) as Hrt.
    assert (Hload : load e f (bf ++ rest) = Ok (VArr l, rest)).
    { pose proof (classify_facts f _ Hk) as F; cbn [kind_facts] in F. destruct F as (_ & Hb & _ & Has & Hba & Hvs & Hbc & Hal & Hsk).
      rewrite (Hfill ltac:(unfold fill_member; now rewrite Hk)), app_nil_r.
      pose proof (write_size OP tm R a (adm_t et) Hrt l None bf Hall Hwr) as Hsize.
      pose proof (write_read_fill OP tm R a (adm_t et) size_bad_spec Hrt l None bf array_fuel Hall Hfuel Hsk Hwr) as Hread.
      unfold load_field. rewrite Hft. cbv beta iota zeta. rewrite Hba, Has. cbn [bind]. rewrite Hvs, Hread. cbn [bind]. rewrite Hbc, Hal. cbn [negb Z.eqb].
      rewrite Hsize. cbn [bind]. now rewrite zskipn_all_len. }
    rewrite Hload. reflexivity.
Qed.

(* ---- size: what the size property adds for a member is the number of bytes serialize_field writes for it ---- *)
Lemma member_size_ok self total f bf :
  member_typed self f -> ser_field total self false f = Ok bf ->
  bind (cond_self tm R allfs self f) (fun c => if c then member_size OP tm R self f else Ok 0) = Ok (Z.of_nat (length bf)).
Proof.
  intros Hty Hser. pose proof (member_ser_inv self total f bf Hty Hser) as Hsh.
  destruct Hsh as [i z Hft Hc Hw Hres Hpy He|t v Hft Hcs Hv Hnn Hadm Henc He Hk| Hcs Hbf Hv He Hk|a n Hft Hba Has Hv He Hcs Hk|a n l et Hk Hft Hc Hv Hfuel Het Hall Hwr He
                   |a l et Hft Hc Hv Hfuel Het Hall Hwr He Hk|a l et Hk Hft Hc Hv Hfuel Het Hall Hwr He].
  - eapply int_size; eassumption.
  - rewrite Hcs. cbn [bind]. unfold member_size, member_value. rewrite Hft, Hv. cbn [bind].
    destruct (sub_rt t v bf [] Hadm Henc) as (_ & Hs & _). destruct v; try exact Hs. contradiction.
  - rewrite Hcs, Hbf. reflexivity.
  - assert (Hms : member_size OP tm R self f = Ok (Z.of_nat (length bf))).
    { unfold member_size, member_value. rewrite Hft. cbv beta iota zeta. rewrite Hba, Has, Hv. reflexivity. }
    destruct Hcs as [Hcs|Hcs]; rewrite Hcs; cbn [bind]; [destruct bf; [reflexivity|exact Hms] | exact Hms].
  - rewrite (cond_self_none tm R allfs self f Hc). cbn [bind].
    pose proof (classify_facts f _ Hk) as F. cbn [kind_facts] in F. destruct F as (_ & Hb & _ & Has & Hba & Hvs & Hbc & Hal).
    unfold member_size, member_value. rewrite Hft. cbv beta iota zeta. rewrite Hba, Hv. cbn [bind]. rewrite Hvs.
    exact (write_size OP tm R a (adm_t et) (elem_rt_of a et Het) l None bf Hall Hwr).
  - rewrite (cond_self_none tm R allfs self f Hc). cbn [bind].
    assert (F : is_byte_array a = false /\ is_variable_size tm a = true /\ 0 < alignment_of a).
    { destruct Hk as [(n & Hk)|Hk]; pose proof (classify_facts f _ Hk) as F; cbn [kind_facts] in F; tauto. }
    destruct F as (Hba & Hvs & Hal).
    unfold member_size, member_value. rewrite Hft. cbv beta iota zeta. rewrite Hba, Hv. cbn [bind]. rewrite Hvs.
    exact (write_variable_size OP tm R a (adm_t et) align_spec (elem_rt_of a et Het) Hal l bf Hall Hwr).
  - rewrite (cond_self_none tm R allfs self f Hc). cbn [bind].
    pose proof (classify_facts f _ Hk) as F. cbn [kind_facts] in F. destruct F as (_ & Hb & _ & Has & Hba & Hvs & Hbc & Hal & Hsk).
    unfold member_size, member_value. rewrite Hft. cbv beta iota zeta. rewrite Hba, Hv. cbn [bind]. rewrite Hvs.
    exact (write_size OP tm R a (adm_t et) (elem_rt_of a et Het) l None bf Hall Hwr).
Qed.

(* sizes are never negative, and positive for the member kinds of certainly positive width *)
Definition pos_member (f : field) : Prop :=
  match classify f with
  | Some (MkNamed _) | Some (MkNamedSized _ _) => True
  | Some k => match int_of_kind k with Some i => 0 < it_size i | None => False end
  | None => False
  end.

Lemma array_size_one (esize : value -> result Z) e al sk :
  array_size_with OP esize [e] al sk = bind (esize e) (fun s => Ok (if (al =? 0) || sk then s else align_up OP s al)).
Proof. reflexivity. Qed.

Lemma array_size_cons (esize : value -> result Z) e l al sk : l <> [] ->
  array_size_with OP esize (e :: l) al sk =
  bind (esize e) (fun s => bind (array_size_with OP esize l al sk) (fun t => Ok ((if al =? 0 then s else align_up OP s al) + t))).
Proof. destruct l; [contradiction|reflexivity]. Qed.

Lemma array_size_nonneg (esize : value -> result Z) (P : value -> Prop) al sk :
  (forall e z, P e -> esize e = Ok z -> 0 < z) ->
  (al = 0 \/ (0 < al /\ forall s, 0 <= s -> s <= align_up OP s al)) ->
  forall l z, Forall P l -> array_size_with OP esize l al sk = Ok z -> 0 <= z.
Proof.
  intros HP Hal. induction l as [|e l IH]; intros z Hall H.
  - injection H as <-. lia.
  - inversion Hall as [|? ? He Hl]; subst. destruct l as [|e2 l].
    + rewrite array_size_one in H. destruct (esize e) as [sz| |] eqn:Hs; cbn [bind] in H; try discriminate. injection H as <-.
      pose proof (HP e sz He Hs). destruct Hal as [->|[Hp Hal]]; [cbn [Z.eqb orb]; lia|].
      destruct ((al =? 0) || sk); [lia|]. specialize (Hal sz ltac:(lia)). lia.
    + rewrite array_size_cons in H by discriminate. destruct (esize e) as [sz| |] eqn:Hs; cbn [bind] in H; try discriminate.
      destruct (array_size_with OP esize (e2 :: l) al sk) as [t| |] eqn:Ht; cbn [bind] in H; try discriminate.
      injection H as <-. pose proof (HP e sz He Hs). pose proof (IH t Hl eq_refl).
      destruct Hal as [->|[Hp Hal]]; [cbn [Z.eqb]; lia|]. replace (al =? 0) with false by lia. specialize (Hal sz ltac:(lia)). lia.
Qed.

Lemma member_size_nonneg self f a :
  member_typed self f ->
  bind (cond_self tm R allfs self f) (fun c => if c then member_size OP tm R self f else Ok 0) = Ok a ->
  0 <= a /\ (pos_member f -> 0 < a).
Proof.
  intros Hty H. pose proof Hty as Hty'. unfold member_typed in Hty. unfold pos_member.
  destruct (classify f) as [k|] eqn:Hk; [|contradiction].
  pose proof (classify_facts f k Hk) as F.
  assert (Hint : forall i, f_cond f = None -> f_type f = FInt i -> 0 <= it_size i -> a = it_size i).
  { intros i Hc Hft Hw. rewrite (cond_self_none tm R allfs self f Hc) in H. cbn [bind] in H. unfold member_size in H. rewrite Hft in H. now injection H as <-. }
  assert (Hnamed : forall t v, f_type f = FName t -> vget self (f_name f) = Some v -> v <> VNull -> adm_t t v -> member_size OP tm R self f = Ok a -> 0 < a).
  { intros t v Hft Hv Hnn Hadm Hms. unfold member_size, member_value in Hms. rewrite Hft, Hv in Hms. cbn [bind] in Hms.
    apply (sub_pos t v a Hadm). destruct v; try exact Hms. contradiction. }
  destruct k; cbn [kind_facts] in F; cbn [int_of_kind].
  - destruct F as (Hc & Hft & Hw & _). rewrite (Hint i Hc Hft Hw). lia.
  - destruct F as (Hc & Hft & Hw & _). rewrite (Hint i Hc Hft Hw). lia.
  - destruct F as (Hc & Hft & Hw & _). rewrite (Hint i Hc Hft Hw). lia.
  - destruct F as (Hc & Hft & Hw & _). rewrite (Hint i Hc Hft Hw). lia.
  - destruct F as (Hc & Hft & _). destruct Hty as (v & Hv & Hnn & Hadm). rewrite (cond_self_none tm R allfs self f Hc) in H. cbn [bind] in H.
    pose proof (Hnamed t v Hft Hv Hnn Hadm H). split; [lia|trivial].
  - destruct F as (Hc & _ & a0 & Hft & Has & Hba). destruct Hty as [b Hv]. rewrite (cond_self_none tm R allfs self f Hc) in H. cbn [bind] in H.
    unfold member_size, member_value in H. rewrite Hft in H. cbv beta iota zeta in H. rewrite Hba, Has, Hv in H. cbn [bind] in H. injection H as <-. split; [lia|contradiction].
  - destruct F as (Hc & _ & Hft & Has & Hba & Hvs & _). destruct Hty as (l & Hv & _ & Hel). rewrite (cond_self_none tm R allfs self f Hc) in H. cbn [bind] in H.
    unfold member_size, member_value in H. rewrite Hft in H. cbv beta iota zeta in H. rewrite Hba, Hv in H. cbn [bind] in H. rewrite Hvs in H.
    destruct (elem_name a0) as [et|] eqn:Het; [|contradiction]. split; [|contradiction].
    apply (array_size_nonneg (elem_size R a0) (adm_t et) 0 false) with (l := l); [|now left|exact Hel|exact H].
    intros e z He Hz. unfold elem_size in Hz. rewrite Het in Hz. exact (sub_pos et e z He Hz).
  - destruct F as (Hc & Hft & Hw & _). rewrite (Hint i Hc Hft Hw). lia.
  - destruct F as (Hc & Hft & _). destruct Hty as (v & Hv & Hnn & Hadm). rewrite (cond_self_none tm R allfs self f Hc) in H. cbn [bind] in H.
    pose proof (Hnamed t v Hft Hv Hnn Hadm H). split; [lia|trivial].
  - destruct F as (_ & Hc & Hft & _ & _ & _ & Hw & _). rewrite (Hint i Hc Hft Hw). lia.
  - destruct Hty as (v & Hv & Hos). rewrite (cond_named_self self f t cfn v Hk Hv Hos) in H. destruct F as (Hft & _).
    split; [|contradiction]. destruct Hos as [->|[Hvs Hadm]]; [cbn [bind] in H; injection H as <-; lia|].
    destruct v; try discriminate. destruct (size_t R t (VStruct cls fs)) as [sz| |]; cbn [bind] in H; try discriminate.
    pose proof (Hnamed t _ Hft Hv ltac:(discriminate) Hadm H). lia.
  - destruct F as (_ & c & cf & a0 & j & Hc & _ & _ & _ & _ & _ & Hft & Has & Hba). split; [|contradiction].
    unfold cond_self in H. rewrite Hc, Hft in H.
    destruct Hty as [Hv|(b & Hv & _)]; rewrite Hv in H; cbn [truthy bind] in H; [injection H as <-; lia|].
    destruct b; cbn [negb] in H; [injection H as <-; lia|].
    unfold member_size, member_value in H. rewrite Hft in H. cbv beta iota zeta in H. rewrite Hba, Has, Hv in H. cbn [bind] in H. injection H as <-. lia.
  - destruct F as (Hc & Hft & Hw & _). rewrite (Hint i Hc Hft Hw). lia.
  - destruct F as (Hc & _ & Hft & Has & Hba & Hvs & _ & Hal). destruct Hty as (l & Hv & _ & Hel). rewrite (cond_self_none tm R allfs self f Hc) in H. cbn [bind] in H.
    unfold member_size, member_value in H. rewrite Hft in H. cbv beta iota zeta in H. rewrite Hba, Hv in H. cbn [bind] in H. rewrite Hvs in H.
    destruct (elem_name a0) as [et|] eqn:Het; [|contradiction]. split; [|contradiction].
    apply (array_size_nonneg (elem_size R a0) (adm_t et) (alignment_of a0) (skip_last a0)) with (l := l); [| |exact Hel|exact H].
    + intros e z He Hz. unfold elem_size in Hz. rewrite Het in Hz. exact (sub_pos et e z He Hz).
    + right. split; [exact Hal|]. intros x Hx. exact (proj1 (align_spec x _ Hx Hal)).
  - destruct F as (Hc & _ & Hft & Has & Hba & Hvs & _). destruct Hty as (l & Hv & _ & Hel). rewrite (cond_self_none tm R allfs self f Hc) in H. cbn [bind] in H.
    unfold member_size, member_value in H. rewrite Hft in H. cbv beta iota zeta in H. rewrite Hba, Hv in H. cbn [bind] in H. rewrite Hvs in H.
    destruct (elem_name a0) as [et|] eqn:Het; [|contradiction]. split; [|contradiction].
    apply (array_size_nonneg (elem_size R a0) (adm_t et) 0 false) with (l := l); [|now left|exact Hel|exact H].
    intros e z He Hz. unfold elem_size in Hz. rewrite Het in Hz. exact (sub_pos et e z He Hz).
  - destruct F as (Hc & _ & Hft & Has & Hba & Hvs & _ & Hal). destruct Hty as (l & Hv & _ & Hel). rewrite (cond_self_none tm R allfs self f Hc) in H. cbn [bind] in H.
    unfold member_size, member_value in H. rewrite Hft in H. cbv beta iota zeta in H. rewrite Hba, Hv in H. cbn [bind] in H. rewrite Hvs in H.
    destruct (elem_name a0) as [et|] eqn:Het; [|contradiction]. split; [|contradiction].
    apply (array_size_nonneg (elem_size R a0) (adm_t et) (alignment_of a0) (skip_last a0)) with (l := l); [| |exact Hel|exact H].
    + intros e z He Hz. unfold elem_size in Hz. rewrite Het in Hz. exact (sub_pos et e z He Hz).
    + right. split; [exact Hal|]. intros x Hx. exact (proj1 (align_spec x _ Hx Hal)).
  - destruct Hty as (v & z & Hv & Hz & Hin & Harm). rewrite (arm_cond_self self f t ln y i ys z Hk Hz) in H.
    destruct F as [F _]. apply arm_info_facts in F. destruct F as (Hft & _). split; [|contradiction].
    destruct Harm as [(-> & (x & ->) & Hadm)|(Hne & ->)].
    + rewrite Z.eqb_refl in H. cbn [bind] in H. pose proof (Hnamed t _ Hft Hv ltac:(discriminate) Hadm H). lia.
    + replace (y =? z) with false in H by lia. cbn [bind] in H. injection H as <-. lia.
Qed.

(* ---- the member loops ---- *)
Inductive ordered : list field -> list string -> list field -> Prop :=
| ord_nil seen proc : ordered seen proc []
| ord_cons seen proc f r : deps_ok seen proc f -> (fill_member f -> r = []) -> ordered (seen ++ [f]) (f_name f :: proc) r -> ordered seen proc (f :: r).

(* no member of fs is the condition member a queued union arm waits for *)
Definition queue_quiet (queued : list (string * list field)) (fs : list field) : Prop :=
  forall f, In f fs -> find (fun q => String.eqb (fst q) (f_name f)) queued = None.

Lemma des_loop_step f r proc queued temps e buf :
  match f_cond f with Some c => existsb (String.eqb (c_link c)) proc = true | None => True end ->
  find (fun q => String.eqb (fst q) (f_name f)) queued = None ->
  des_loop (f :: r) proc queued temps e buf = bind (des_field e f buf) (fun x => des_loop r (f_name f :: proc) queued temps (fst x) (snd x)).
Proof.
  intros H Hq. cbn [deserialize_loop]. rewrite Hq. destruct (f_cond f) as [c|]; [rewrite H|]; destruct (des_field e f buf) as [x| |]; reflexivity.
Qed.

Lemma no_wait seen proc self f : member_typed self f -> deps_ok seen proc f ->
  match f_cond f with Some c => existsb (String.eqb (c_link c)) proc = true | None => True end.
Proof.
  intros Hty Hdeps. unfold member_typed in Hty. destruct (classify f) as [k|] eqn:Hk; [|contradiction].
  pose proof (classify_cond f k Hk) as Hc. pose proof (classify_facts f k Hk) as F. unfold deps_ok in Hdeps. rewrite Hk in Hdeps.
  destruct k; try (rewrite Hc; exact I); cbn [kind_facts] in F.
  - destruct F as (_ & _ & _ & _ & c & cf & i & d & Hfc & Hl & _). rewrite Hfc. destruct Hdeps as [_ Hin].
    apply existsb_exists. exists cfn. split; [exact Hin | rewrite Hl; apply String.eqb_refl].
  - destruct F as (_ & c & cf & a & j & Hfc & Hl & _). rewrite Hfc. destruct Hdeps as [_ Hin].
    apply existsb_exists. exists n. split; [exact Hin | rewrite Hl; apply String.eqb_refl].
  - contradiction.
Qed.

(* continuation form: the members of fs are read back and the loop goes on with whatever follows (post), queue untouched *)
Lemma loop_rt : forall fs seen proc queued temps e self total b rest post,
  (forall f, In f fs -> not_size_member f) ->
  ordered seen proc fs -> NoDup (map f_name (seen ++ fs)) ->
  env_ok seen e self -> (forall f, In f fs -> member_typed self f) ->
  (rest = [] \/ forall f, In f fs -> ~ fill_member f) -> queue_quiet queued fs ->
  ser_fields total self false fs = Ok b ->
  exists e', des_loop (fs ++ post) proc queued temps e (b ++ rest) = des_loop post (rev (map f_name fs) ++ proc) queued temps e' rest /\
             env_ok (seen ++ fs) e' self /\
             (forall n, ~ In n (map f_name fs) -> eget e' n = eget e n).
Proof.
  induction fs as [|f r IH]; intros seen proc queued temps e self total b rest post Hnsz Hord Hnd Henv Hty Hclosed Hquiet Hser.
  - cbn in Hser. injection Hser as <-. exists e. rewrite app_nil_r. split; [reflexivity | split; [exact Henv | reflexivity]].
  - rewrite ser_fields_cons in Hser.
    destruct (ser_field total self false f) as [bf| |] eqn:Hf; cbn [bind] in Hser; try discriminate.
    destruct (ser_fields total self false r) as [br| |] eqn:Hr; cbn [bind] in Hser; try discriminate.
    injection Hser as <-. inversion Hord as [|? ? ? ? Hdeps Hlast Hrest]; subst.
    pose proof (Hty f (or_introl eq_refl)) as Htf.
    assert (Hfill : fill_member f -> br ++ rest = []).
    { intros Hfm. specialize (Hlast Hfm). subst r. cbn in Hr. injection Hr as <-.
      destruct Hclosed as [->|Hno]; [reflexivity|]. exfalso. exact (Hno f (or_introl eq_refl) Hfm). }
    destruct (member_step seen proc e self total f bf (br ++ rest) (Hnsz f (or_introl eq_refl)) Henv Htf Hdeps Hfill Hf) as (v & Hload & Hv).
    assert (Henv' : env_ok (seen ++ [f]) ((f_name f, v) :: e) self).
    { intros g Hg. apply in_app_or in Hg as [Hg|[<-|[]]].
      - rewrite eget_cons_neq; [now apply Henv|].
        rewrite map_app in Hnd. cbn [map] in Hnd. apply NoDup_remove_2 in Hnd. intros Heq. apply Hnd.
        apply in_or_app. left. rewrite Heq. now apply in_map.
      - rewrite eget_cons_eq. exact Hv. }
    destruct (IH (seen ++ [f]) (f_name f :: proc) queued temps ((f_name f, v) :: e) self total br rest post (fun g Hg => Hnsz g (or_intror Hg)) Hrest
               ltac:(rewrite <- app_assoc; exact Hnd) Henv' (fun g Hg => Hty g (or_intror Hg))
               ltac:(destruct Hclosed as [Hc|Hc]; [now left | right; intros g Hg; apply Hc; now right])
               (fun g Hg => Hquiet g (or_intror Hg)) Hr) as (e' & Hloop & Henv'' & Hkeep).
    exists e'. split; [|split; [rewrite <- app_assoc in Henv''; exact Henv''|]].
    2:{ intros n Hn. cbn [map] in Hn. rewrite Hkeep by (intros Hx; apply Hn; now right). apply eget_cons_neq. intros Heq. apply Hn. now left. }
    cbn [app]. rewrite (des_loop_step f (r ++ post) proc queued temps e _ (no_wait seen proc self f Htf Hdeps) (Hquiet f (or_introl eq_refl))).
    rewrite <- app_assoc, Hload. cbn [bind fst snd]. rewrite Hloop. cbn [map rev]. now rewrite <- app_assoc.
Qed.

(* ---- unions: arms waiting for a later member, read through a temporary buffer ---- *)
(* codecs of integer aliases (the types of the arms), one level down *)
Hypothesis alias_enc : forall t nm i cm z, lookup tm t = Some (DAlias nm (LInt i) cm) ->
  enc_t R t (VInt z) = py_to_bytes (Z.to_nat (it_size i)) (negb (it_unsigned i)) z.
Hypothesis alias_dec : forall t nm i cm z b rest, lookup tm t = Some (DAlias nm (LInt i) cm) -> it_unsigned i = true -> 0 < it_size i ->
  py_to_bytes (Z.to_nat (it_size i)) false z = Ok b ->
  dec_t R t (b ++ rest) = Ok (VInt z) /\ size_t R t (VInt z) = Ok (it_size i).

Definition is_arm (ln : string) (w : Z) (f : field) : Prop :=
  exists t y i ys, classify f = Some (MkArm t ln y i ys) /\ it_size i = w.
Definition arm_const (f : field) : Z := match classify f with Some (MkArm _ _ y _ _) => y | _ => 0 end.

(* arms whose constant differs from the condition value write nothing *)
Lemma arms_ser_none ln w z self total : forall arms b,
  (forall a, In a arms -> is_arm ln w a /\ member_typed self a) -> vget self ln = Some (VInt z) -> ~ In z (map arm_const arms) ->
  ser_fields total self false arms = Ok b -> b = [].
Proof.
  induction arms as [|a r IH]; intros b Harms Hz Hnin Hser.
  - cbn in Hser. now injection Hser as <-.
  - rewrite ser_fields_cons in Hser.
    destruct (ser_field total self false a) as [ba| |] eqn:Ha; cbn [bind] in Hser; try discriminate.
    destruct (ser_fields total self false r) as [br| |] eqn:Hr; cbn [bind] in Hser; try discriminate. injection Hser as <-.
    rewrite (IH br (fun x Hx => Harms x (or_intror Hx)) Hz (fun H => Hnin (or_intror H)) eq_refl), app_nil_r.
    destruct (Harms a (or_introl eq_refl)) as [(t & y & i & ys & Hk & _) Hty].
    assert (Hy : y <> z) by (intros ->; apply Hnin; left; unfold arm_const; now rewrite Hk).
    unfold serialize_field in Ha. cbn [andb] in Ha. rewrite (arm_cond_self self a t ln y i ys z Hk Hz) in Ha.
    replace (y =? z) with false in Ha by lia. cbn [bind negb] in Ha. now injection Ha as <-.
Qed.

(* exactly one arm is present: the bytes of the arms are one integer of the common width *)
Lemma arms_ser_single ln w z self total : forall arms b,
  (forall a, In a arms -> is_arm ln w a /\ member_typed self a) -> vget self ln = Some (VInt z) ->
  In z (map arm_const arms) -> NoDup (map arm_const arms) ->
  ser_fields total self false arms = Ok b -> exists x, py_to_bytes (Z.to_nat w) false x = Ok b.
Proof.
  induction arms as [|a r IH]; intros b Harms Hz Hin Hnd Hser; [contradiction|].
  rewrite ser_fields_cons in Hser.
  destruct (ser_field total self false a) as [ba| |] eqn:Ha; cbn [bind] in Hser; try discriminate.
  destruct (ser_fields total self false r) as [br| |] eqn:Hr; cbn [bind] in Hser; try discriminate. injection Hser as <-.
  cbn [map] in Hin, Hnd. inversion Hnd as [|? ? Hnin Hnd']; subst.
  destruct (Harms a (or_introl eq_refl)) as [(t & y & i & ys & Hk & Hw) Hty].
  assert (Hac : arm_const a = y) by (unfold arm_const; now rewrite Hk).
  unfold serialize_field in Ha. cbn [andb] in Ha. rewrite (arm_cond_self self a t ln y i ys z Hk Hz) in Ha.
  pose proof (classify_facts a _ Hk) as F. cbn [kind_facts] in F. destruct F as [F _]. apply arm_info_facts in F.
  destruct F as (Hft & Hres & Hb & Hsf & Hu & Hpos & (nm & cm & Hl) & _).
  destruct (Z.eq_dec y z) as [->|Hne].
  - (* this arm is the present one, the others write nothing *)
    rewrite (arms_ser_none ln w z self total r br (fun x Hx => Harms x (or_intror Hx)) Hz ltac:(rewrite <- Hac; exact Hnin) Hr), app_nil_r.
    rewrite Z.eqb_refl in Ha. cbn [bind negb] in Ha. rewrite Hb, Hft, Hres in Ha.
    unfold member_typed in Hty. rewrite Hk in Hty. destruct Hty as (v & z' & Hv & Hz' & _ & Harm). rewrite Hz in Hz'. injection Hz' as <-.
    destruct Harm as [(_ & (x & ->) & _)|(Hne & _)]; [|contradiction]. unfold member_value in Ha. rewrite Hv in Ha. cbn [bind] in Ha.
    rewrite (alias_enc t nm i cm x Hl), Hu, Hw in Ha. cbn [negb] in Ha. now exists x.
  - replace (y =? z) with false in Ha by lia. cbn [bind negb] in Ha. injection Ha as <-. cbn [app].
    apply (IH br (fun x Hx => Harms x (or_intror Hx)) Hz); [|exact Hnd'|reflexivity].
    destruct Hin as [Hin|Hin]; [congruence|exact Hin].
Qed.

(* the arms after the first one only join the queue *)
Lemma arms_queue ln w proc temps e buf : ~ In ln proc -> forall arms acc r,
  (forall a, In a arms -> is_arm ln w a) ->
  des_loop (arms ++ r) proc [(ln, acc)] temps e buf = des_loop r proc [(ln, acc ++ arms)] temps e buf.
Proof.
  intros Hproc. induction arms as [|a arms IH]; intros acc r Harms; [now rewrite app_nil_r|].
  destruct (Harms a (or_introl eq_refl)) as (t & y & i & ys & Hk & _).
  pose proof (classify_facts a _ Hk) as F. cbn [kind_facts] in F. destruct F as [F _]. apply arm_info_facts in F.
  destruct F as (_ & _ & _ & _ & _ & _ & _ & c & cf & et & vs & bw & nm & Hc & Hl & _).
  cbn [app deserialize_loop]. rewrite Hc, Hl.
  replace (existsb (String.eqb ln) proc) with false.
  2:{ symmetry. destruct (existsb (String.eqb ln) proc) eqn:Hex; [|reflexivity]. exfalso. apply Hproc.
      apply existsb_exists in Hex as (x & Hx & He). apply String.eqb_eq in He. now subst. }
  cbn [find fst snd map]. rewrite String.eqb_refl. cbn [fst snd].
  rewrite (IH (acc ++ [a]) r (fun x Hx => Harms x (or_intror Hx))). now rewrite <- app_assoc.
Qed.

(* the first arm: dummy read of its type to learn the size of the arm, kept in a temporary buffer *)
Lemma arm_first ln w proc e a r x b rest : ~ In ln proc -> is_arm ln w a ->
  py_to_bytes (Z.to_nat w) false x = Ok b ->
  des_loop (a :: r) proc [] [] e (b ++ rest) = des_loop r proc [(ln, [a])] [(ln, b)] e rest.
Proof.
  intros Hproc (t & y & i & ys & Hk & Hw) Hpy.
  pose proof (classify_facts a _ Hk) as F. cbn [kind_facts] in F. destruct F as [F _]. apply arm_info_facts in F.
  destruct F as (Hft & _ & _ & _ & Hu & Hpos & (nm & cm & Hl) & c & cf & et & vs & bw & nm' & Hc & Hlk & _).
  cbn [deserialize_loop]. rewrite Hc, Hlk.
  replace (existsb (String.eqb ln) proc) with false.
  2:{ symmetry. destruct (existsb (String.eqb ln) proc) eqn:Hex; [|reflexivity]. exfalso. apply Hproc.
      apply existsb_exists in Hex as (x0 & Hx & He). apply String.eqb_eq in He. now subst. }
  cbn [find]. rewrite Hft. rewrite <- Hw in Hpy.
  destruct (alias_dec t nm i cm x b rest Hl Hu Hpos Hpy) as [Hd Hs]. rewrite Hd. cbn [bind]. rewrite Hs. cbn [bind app].
  pose proof (proj2 (py_int_roundtrip _ _ _ _ [] Hpy)) as Hlen.
  replace (it_size i) with (Z.of_nat (length b)) by lia. now rewrite zfirstn_app, zskipn_app.
Qed.

(* once the condition member is known, the queued arms are read from the temporary buffer *)
Lemma drain_rt ln z : forall arms seen e self total b,
  NoDup (map f_name (seen ++ arms)) -> env_ok seen e self ->
  (exists lk, In lk seen /\ f_name lk = ln /\ env_entry self lk = Some (VInt z)) -> vget self ln = Some (VInt z) ->
  (forall a, In a arms -> (exists w, is_arm ln w a) /\ member_typed self a) ->
  ser_fields total self false arms = Ok b ->
  exists e', drain_queue OP tm R s allfs e arms b = Ok e' /\ env_ok (seen ++ arms) e' self /\
             (forall n, ~ In n (map f_name arms) -> eget e' n = eget e n).
Proof.
  induction arms as [|a r IH]; intros seen e self total b Hnd Henv Hlk Hz Harms Hser.
  - cbn in Hser. injection Hser as <-. exists e. rewrite app_nil_r. repeat split; [exact Henv].
  - rewrite ser_fields_cons in Hser.
    destruct (ser_field total self false a) as [ba| |] eqn:Ha; cbn [bind] in Hser; try discriminate.
    destruct (ser_fields total self false r) as [br| |] eqn:Hr; cbn [bind] in Hser; try discriminate. injection Hser as <-.
    destruct (Harms a (or_introl eq_refl)) as [(w & t & y & i & ys & Hk & Hw) Hty].
    destruct Hlk as (lk & Hlin & Hlname & Hlentry).
    assert (Hez : eget e ln = Some (VInt z)) by (rewrite <- Hlname, (Henv lk Hlin); exact Hlentry).
    pose proof (member_ser_inv self total a ba Hty Ha) as Hsh.
    pose proof (arm_cond_local e a t ln y i ys z Hk Hez) as Hcl.
    pose proof (arm_cond_self self a t ln y i ys z Hk Hz) as Hcs.
    pose proof (classify_facts a _ Hk) as F. cbn [kind_facts] in F. destruct F as [F _]. apply arm_info_facts in F.
    destruct F as (Hft & _ & _ & Hsf & _).
    assert (Hstep : exists v, des_field e a (ba ++ br) = Ok ((f_name a, v) :: e, br) /\ Some v = env_entry self a).
    { unfold deserialize_field. rewrite Hcl.
      destruct Hsh as [? ? Hft' | t' v Hft' Hcs' Hv Hnn Hadm Henc He _ | Hcs' Hbf Hv He _ | ? ? Hft' | ? ? ? ? Hk' | ? ? ? Hft' | ? ? ? Hk'];
        try congruence.
      - rewrite Hcs in Hcs'. injection Hcs' as ->. cbn [bind]. rewrite Hft in Hft'. injection Hft' as <-.
        rewrite (named_load e a t v ba br br Hft Hadm Henc ltac:(now rewrite Hsf)). exists v. split; [reflexivity | now rewrite He].
      - rewrite Hcs in Hcs'. injection Hcs' as ->. subst ba. cbn [bind app]. exists VNull. split; [reflexivity | now rewrite He]. }
    destruct Hstep as (v & Hstep & Hv).
    assert (Hnin : ~ In (f_name a) (map f_name seen)).
    { rewrite map_app in Hnd. cbn [map] in Hnd. apply NoDup_remove_2 in Hnd. intros Hx. apply Hnd. apply in_or_app. now left. }
    assert (Henv' : env_ok (seen ++ [a]) ((f_name a, v) :: e) self).
    { intros g Hg. apply in_app_or in Hg as [Hg|[<-|[]]].
      - rewrite eget_cons_neq; [now apply Henv|]. intros Heq. apply Hnin. rewrite Heq. now apply in_map.
      - rewrite eget_cons_eq. exact Hv. }
    destruct (IH (seen ++ [a]) ((f_name a, v) :: e) self total br ltac:(rewrite <- app_assoc; exact Hnd) Henv'
                ltac:(exists lk; repeat split; [apply in_or_app; now left | assumption | assumption]) Hz (fun x Hx => Harms x (or_intror Hx)) Hr)
      as (e' & Hdr & Henv'' & Hkeep).
    exists e'. split; [|split; [rewrite <- app_assoc in Henv''; exact Henv''|]].
    + cbn [drain_queue]. rewrite Hstep. cbn [bind fst snd]. exact Hdr.
    + intros n Hn. cbn [map] in Hn. rewrite Hkeep by (intros Hx; apply Hn; now right). apply eget_cons_neq. intros Heq. apply Hn. now left.
Qed.

(* member lists: ordinary ones, or one union block (arms, members, the condition member) at the front followed by ordinary members *)
Record union_ok (seen : list field) (proc : list string) (arms mid : list field) (lk : field) (post : list field) : Prop := {
  uo_arms : arms <> [];
  uo_width : exists w, forall a, In a arms -> is_arm (f_name lk) w a;
  uo_consts : NoDup (map arm_const arms);
  uo_all : forall a t y i ys, In a arms -> classify a = Some (MkArm t (f_name lk) y i ys) -> ys = map arm_const arms;
  uo_fresh : ~ In (f_name lk) proc;
  uo_mid : ordered seen proc mid;
  uo_mid_closed : forall f, In f mid -> ~ fill_member f;
  uo_link : exists et, classify lk = Some (MkNamed et);
  uo_post : ordered (seen ++ arms ++ mid ++ [lk]) (f_name lk :: rev (map f_name mid) ++ proc) post
}.

Inductive lordered (seen : list field) (proc : list string) (fs : list field) : Prop :=
| lo_plain : ordered seen proc fs -> lordered seen proc fs
| lo_union arms mid lk post : fs = arms ++ mid ++ lk :: post -> union_ok seen proc arms mid lk post -> lordered seen proc fs.

Lemma nodup_names_neq (l1 l2 : list field) f g : NoDup (map f_name (l1 ++ f :: l2)) -> In g (l1 ++ l2) -> f_name g <> f_name f.
Proof.
  intros Hnd Hg Heq. rewrite map_app in Hnd. cbn [map] in Hnd. apply NoDup_remove_2 in Hnd. apply Hnd. rewrite <- map_app, <- Heq. now apply in_map.
Qed.

Lemma nodup_app_l {A} (l1 l2 : list A) : NoDup (l1 ++ l2) -> NoDup l1.
Proof. induction l1 as [|x l1 IH]; intros H; [constructor|]. cbn in H. inversion H as [|? ? Hn Hd]; subst. constructor; [|now apply IH]. intros Hx. apply Hn. apply in_or_app. now left. Qed.

Lemma nodup_app_r {A} (l1 l2 : list A) : NoDup (l1 ++ l2) -> NoDup l2.
Proof. induction l1 as [|x l1 IH]; intros H; [exact H|]. cbn in H. inversion H; subst. now apply IH. Qed.

Lemma nodup_drop_mid {A} (l1 l2 l3 : list A) : NoDup (l1 ++ l2 ++ l3) -> NoDup (l1 ++ l3).
Proof.
  induction l1 as [|x l1 IH]; intros H; cbn [app] in *.
  - now apply nodup_app_r in H.
  - inversion H as [|? ? Hn Hd]; subst. constructor; [|now apply IH].
    intros Hin. apply Hn. apply in_app_or in Hin as [Hin|Hin]; apply in_or_app; [now left | right; apply in_or_app; now right].
Qed.

Theorem fields_rt fs seen proc e self total b rest :
  (forall f, In f fs -> not_size_member f) ->
  lordered seen proc fs -> NoDup (map f_name (seen ++ fs)) ->
  env_ok seen e self -> (forall f, In f fs -> member_typed self f) ->
  (rest = [] \/ forall f, In f fs -> ~ fill_member f) ->
  ser_fields total self false fs = Ok b ->
  exists e', des_loop fs proc [] [] e (b ++ rest) = Ok (e', rest) /\ env_ok (seen ++ fs) e' self /\
             (forall n, ~ In n (map f_name fs) -> eget e' n = eget e n).
Proof.
  intros Hnsz Hlo Hnd Henv Hty Hclosed Hser. destruct Hlo as [Hord|arms mid lk post -> U].
  - destruct (loop_rt fs seen proc [] [] e self total b rest [] Hnsz Hord Hnd Henv Hty Hclosed (fun f _ => eq_refl) Hser) as (e' & Hloop & He' & Hkeep).
    exists e'. rewrite app_nil_r in Hloop. split; [exact Hloop | split; assumption].
  - destruct U as [Hne (w & Hw) Hconsts Hall Hfresh Hmid Hmidc (et & Hlk) Hpost].
    set (ln := f_name lk) in *.
    (* split the bytes *)
    destruct (ser_fields_app OP tm R s allfs total self arms (mid ++ lk :: post) b Hser) as (ba & b1 & Hsa & Hs1 & ->).
    destruct (ser_fields_app OP tm R s allfs total self mid (lk :: post) b1 Hs1) as (bm & b2 & Hsm & Hs2 & ->).
    rewrite ser_fields_cons in Hs2.
    destruct (ser_field total self false lk) as [bl| |] eqn:Hsl; cbn [bind] in Hs2; try discriminate.
    destruct (ser_fields total self false post) as [bp| |] eqn:Hsp; cbn [bind] in Hs2; try discriminate. injection Hs2 as <-.
    (* typing facts *)
    assert (Hin_arms : forall a, In a arms -> In a (arms ++ mid ++ lk :: post)) by (intros; apply in_or_app; now left).
    assert (Hin_mid : forall a, In a mid -> In a (arms ++ mid ++ lk :: post)) by (intros; apply in_or_app; right; apply in_or_app; now left).
    assert (Hin_lk : In lk (arms ++ mid ++ lk :: post)) by (apply in_or_app; right; apply in_or_app; right; now left).
    assert (Hin_post : forall a, In a post -> In a (arms ++ mid ++ lk :: post)) by (intros; apply in_or_app; right; apply in_or_app; right; now right).
    pose proof (Hty lk Hin_lk) as Htlk. pose proof Htlk as Htlk'. unfold member_typed in Htlk'. rewrite Hlk in Htlk'. destruct Htlk' as (vl & Hvl & Hvlnn & Hvladm).
    destruct arms as [|a1 arms']; [contradiction|].
    destruct (Hw a1 (or_introl eq_refl)) as (t1 & y1 & i1 & ys1 & Hk1 & Hw1).
    pose proof (Hty a1 (Hin_arms a1 (or_introl eq_refl))) as Ht1. pose proof Ht1 as Ht1'. unfold member_typed in Ht1'. rewrite Hk1 in Ht1'.
    destruct Ht1' as (v1 & z & Hv1 & Hz & Hzin & _).
    rewrite (Hall a1 t1 y1 i1 ys1 (or_introl eq_refl) Hk1) in Hzin.
    assert (Harms_t : forall a, In a (a1 :: arms') -> is_arm ln w a /\ member_typed self a) by (intros a Ha; split; [now apply Hw | apply Hty, Hin_arms, Ha]).
    destruct (arms_ser_single ln w z self total (a1 :: arms') ba Harms_t Hz Hzin Hconsts Hsa) as (x & Hpy).
    (* 1. the arms: dummy read, queue *)
    assert (Hstep1 : des_loop ((a1 :: arms') ++ mid ++ lk :: post) proc [] [] e ((ba ++ bm ++ bl ++ bp) ++ rest) =
                     des_loop (mid ++ lk :: post) proc [(ln, a1 :: arms')] [(ln, ba)] e (bm ++ bl ++ bp ++ rest)).
    { cbn [app]. rewrite <- !app_assoc. rewrite (arm_first ln w proc e a1 _ x ba _ Hfresh (Hw a1 (or_introl eq_refl)) Hpy).
      now rewrite (arms_queue ln w proc [(ln, ba)] e _ Hfresh arms' [a1] _ (fun a Ha => Hw a (or_intror Ha))). }
    (* names *)
    assert (Hnd' : NoDup (map f_name (seen ++ mid ++ lk :: post))).
    { pose proof Hnd as Hnd0. rewrite (map_app f_name seen), (map_app f_name (a1 :: arms')) in Hnd0. apply nodup_drop_mid in Hnd0. now rewrite <- map_app in Hnd0. }
    assert (Hquiet_mid : queue_quiet [(ln, a1 :: arms')] mid).
    { intros f Hf. cbn [find fst]. replace (String.eqb ln (f_name f)) with false; [reflexivity|]. symmetry. apply String.eqb_neq. intros Heq.
      apply (nodup_names_neq (seen ++ mid) post lk f); [rewrite <- app_assoc; exact Hnd' | apply in_or_app; left; apply in_or_app; now right | now symmetry]. }
    assert (Hquiet_post : queue_quiet [(ln, a1 :: arms')] post).
    { intros f Hf. cbn [find fst]. replace (String.eqb ln (f_name f)) with false; [reflexivity|]. symmetry. apply String.eqb_neq. intros Heq.
      apply (nodup_names_neq (seen ++ mid) post lk f); [rewrite <- app_assoc; exact Hnd' | apply in_or_app; now right | now symmetry]. }
    (* 2. the members between the arms and the condition member *)
    destruct (loop_rt mid seen proc [(ln, a1 :: arms')] [(ln, ba)] e self total bm (bl ++ bp ++ rest) (lk :: post)
                (fun f Hf => Hnsz f (Hin_mid f Hf)) Hmid
                ltac:(rewrite app_assoc in Hnd'; rewrite map_app in Hnd'; apply nodup_app_l in Hnd'; exact Hnd')
                Henv (fun f Hf => Hty f (Hin_mid f Hf)) (or_intror Hmidc) Hquiet_mid Hsm) as (e1 & Hstep2 & Henv1 & Hkeep1).
    (* 3. the condition member, then the queued arms from the temporary buffer *)
    assert (Hdeps_lk : deps_ok (seen ++ mid) (rev (map f_name mid) ++ proc) lk) by (unfold deps_ok; now rewrite Hlk).
    assert (Hnofill_lk : fill_member lk -> bp ++ rest = []) by (unfold fill_member; rewrite Hlk; contradiction).
    destruct (member_step (seen ++ mid) (rev (map f_name mid) ++ proc) e1 self total lk bl (bp ++ rest) (Hnsz lk Hin_lk) Henv1 Htlk Hdeps_lk Hnofill_lk Hsl)
      as (vl' & Hload_lk & Hvl').
    assert (Hvl'' : vl' = VInt z) by (unfold env_entry in Hvl'; rewrite Hlk in Hvl'; fold ln in Hvl'; congruence).
    subst vl'.
    assert (Henv2 : env_ok ((seen ++ mid) ++ [lk]) ((ln, VInt z) :: e1) self).
    { intros g Hg. apply in_app_or in Hg as [Hg|[<-|[]]].
      - rewrite eget_cons_neq; [now apply Henv1|]. intros Heq.
        apply (nodup_names_neq (seen ++ mid) post lk g); [rewrite <- app_assoc; exact Hnd' | apply in_or_app; now left | now symmetry].
      - rewrite eget_cons_eq. unfold env_entry. rewrite Hlk. fold ln. now rewrite Hz. }
    assert (Hnd_dr : NoDup (map f_name (((seen ++ mid) ++ [lk]) ++ a1 :: arms'))).
    { assert (Hp : NoDup (map f_name (seen ++ (a1 :: arms') ++ mid ++ [lk]))).
      { replace (seen ++ (a1 :: arms') ++ mid ++ lk :: post) with ((seen ++ (a1 :: arms') ++ mid ++ [lk]) ++ post) in Hnd by (now rewrite <- !app_assoc).
        rewrite map_app in Hnd. now apply nodup_app_l in Hnd. }
      assert (Hperm : Permutation (seen ++ (a1 :: arms') ++ mid ++ [lk]) (((seen ++ mid) ++ [lk]) ++ a1 :: arms')).
      { rewrite <- !app_assoc. apply Permutation_app_head. rewrite (app_assoc mid). apply Permutation_app_comm. }
      exact (Permutation_NoDup (Permutation_map f_name Hperm) Hp). }
    destruct (drain_rt ln z (a1 :: arms') ((seen ++ mid) ++ [lk]) ((ln, VInt z) :: e1) self total ba Hnd_dr Henv2
                ltac:(exists lk; repeat split; [apply in_or_app; right; now left | unfold env_entry; rewrite Hlk; fold ln; now rewrite Hz]) Hz
                (fun a Ha => conj (ex_intro _ w (Hw a Ha)) (Hty a (Hin_arms a Ha))) Hsa) as (e2 & Hdrain & Henv3 & Hkeep3).
    (* 4. the members after the block *)
    assert (Henv3' : env_ok (seen ++ (a1 :: arms') ++ mid ++ [lk]) e2 self).
    { intros g Hg. apply Henv3. apply in_app_or in Hg as [Hg|Hg]; [apply in_or_app; left; apply in_or_app; left; apply in_or_app; now left|].
      apply in_app_or in Hg as [Hg|Hg]; [apply in_or_app; now right|].
      apply in_app_or in Hg as [Hg|Hg]; apply in_or_app; left; [apply in_or_app; left; apply in_or_app; now right | apply in_or_app; now right]. }
    destruct (loop_rt post (seen ++ (a1 :: arms') ++ mid ++ [lk]) (ln :: rev (map f_name mid) ++ proc) [(ln, a1 :: arms')] [(ln, ba)] e2 self total bp rest []
                (fun f Hf => Hnsz f (Hin_post f Hf)) Hpost
                ltac:(replace ((seen ++ (a1 :: arms') ++ mid ++ [lk]) ++ post) with (seen ++ (a1 :: arms') ++ mid ++ lk :: post) by (now rewrite <- !app_assoc); exact Hnd)
                Henv3' (fun f Hf => Hty f (Hin_post f Hf))
                ltac:(destruct Hclosed as [Hc|Hc]; [now left | right; intros g Hg; apply Hc, Hin_post, Hg]) Hquiet_post Hsp) as (e3 & Hstep4 & Henv4 & Hkeep4).
    pose proof (classify_facts lk _ Hlk) as Flk. cbn [kind_facts] in Flk. destruct Flk as (Hc_lk & _).
    exists e3. split; [|split].
    + rewrite Hstep1, Hstep2. cbn [deserialize_loop]. rewrite Hc_lk, Hload_lk. cbn [bind fst snd find]. fold ln. rewrite String.eqb_refl. cbn [snd].
      rewrite Hdrain. cbn [bind]. rewrite app_nil_r in Hstep4. rewrite Hstep4. reflexivity.
    + intros g Hg. apply Henv4. rewrite <- !app_assoc. exact Hg.
    + intros n Hn. rewrite !map_app in Hn. cbn [map] in Hn.
      rewrite Hkeep4 by (intros Hx; apply Hn; apply in_or_app; right; apply in_or_app; right; now right).
      rewrite Hkeep3 by (intros Hx; apply Hn; apply in_or_app; now left).
      rewrite eget_cons_neq by (intros Heq; apply Hn; apply in_or_app; right; apply in_or_app; right; left; now symmetry).
      apply Hkeep1. intros Hx. apply Hn. apply in_or_app; right; apply in_or_app; now left.
Qed.

Lemma size_fields_ok : forall fs self total b,
  (forall f, In f fs -> member_typed self f) -> ser_fields total self false fs = Ok b ->
  size_fields OP tm R allfs self fs = Ok (Z.of_nat (length b)).
Proof.
  induction fs as [|f r IH]; intros self total b Hty Hser.
  - cbn in Hser. injection Hser as <-. reflexivity.
  - rewrite ser_fields_cons in Hser.
    destruct (ser_field total self false f) as [bf| |] eqn:Hf; cbn [bind] in Hser; try discriminate.
    destruct (ser_fields total self false r) as [br| |] eqn:Hr; cbn [bind] in Hser; try discriminate.
    injection Hser as <-.
    pose proof (member_size_ok self total f bf (Hty f (or_introl eq_refl)) Hf) as Hs.
    cbn [size_fields]. destruct (cond_self tm R allfs self f) as [c| |]; cbn [bind] in Hs |- *; try discriminate.
    rewrite Hs. cbn [bind]. rewrite (IH self total br (fun g Hg => Hty g (or_intror Hg)) Hr). cbn [bind].
    rewrite app_length. f_equal. lia.
Qed.

Lemma size_fields_nonneg : forall fs self a,
  (forall f, In f fs -> member_typed self f) -> size_fields OP tm R allfs self fs = Ok a ->
  0 <= a /\ ((exists f, In f fs /\ pos_member f) -> 0 < a).
Proof.
  induction fs as [|f r IH]; intros self a Hty H.
  - cbn in H. injection H as <-. split; [lia | intros (f & [] & _)].
  - cbn [size_fields] in H.
    destruct (bind (cond_self tm R allfs self f) (fun c => if c then member_size OP tm R self f else Ok 0)) as [x| |] eqn:Hx.
    2,3: destruct (cond_self tm R allfs self f) as [c| |]; cbn [bind] in Hx, H; try discriminate;
         destruct (if c then member_size OP tm R self f else Ok 0); cbn [bind] in Hx, H; discriminate.
    assert (H' : bind (size_fields OP tm R allfs self r) (fun b => Ok (x + b)) = Ok a).
    { destruct (cond_self tm R allfs self f) as [c| |]; cbn [bind] in Hx, H; try discriminate.
      destruct (if c then member_size OP tm R self f else Ok 0); cbn [bind] in Hx, H; try discriminate. now injection Hx as <-. }
    destruct (size_fields OP tm R allfs self r) as [y| |] eqn:Hy; cbn [bind] in H'; try discriminate. injection H' as <-.
    destruct (member_size_nonneg self f x (Hty f (or_introl eq_refl)) Hx) as [Hx0 Hxp].
    destruct (IH self y (fun g Hg => Hty g (or_intror Hg)) Hy) as [Hy0 Hyp].
    split; [lia|]. intros (g & [<-|Hg] & Hp); [specialize (Hxp Hp); lia|]. specialize (Hyp (ex_intro _ g (conj Hg Hp))). lia.
Qed.

(* the first member is only special for the @size member *)
Lemma ser_fields_first total self fs : (forall f, In f fs -> not_size_member f) -> ser_fields total self true fs = ser_fields total self false fs.
Proof.
  intros Hn. destruct fs as [|f r]; [reflexivity|]. rewrite !ser_fields_cons. f_equal.
  specialize (Hn f (or_introl eq_refl)). unfold not_size_member in Hn. unfold serialize_field, is_size_first.
  destruct (struct_size_attr s) as [n|]; [|reflexivity].
  rewrite String.eqb_refl. cbn [andb]. rewrite String.eqb_sym, Hn. reflexivity.
Qed.

(* settable members: the decoder's environment holds the member value itself *)
Lemma settable_env_entry self f : is_settable allfs f = true -> member_typed self f ->
  env_entry self f = vget self (f_name f) /\ exists v, vget self (f_name f) = Some v.
Proof.
  intros Hs Hty. unfold is_settable in Hs. apply Bool.andb_true_iff in Hs as [Hs Hb]. apply Bool.andb_true_iff in Hs as [Hs Hcomp].
  apply Bool.andb_true_iff in Hs as [_ Hr]. apply Bool.negb_true_iff in Hr, Hcomp.
  unfold member_typed in Hty. unfold env_entry. destruct (classify f) as [k|] eqn:Hk; [|contradiction].
  pose proof (classify_facts f k Hk) as F.
  destruct k; cbn [kind_facts] in F.
  - split; [reflexivity|]. destruct Hty as [z Hz]. eauto.
  - destruct F as (_ & _ & _ & Hres & _). congruence.
  - destruct F as (_ & _ & _ & _ & Hbf & _). rewrite Hbf in Hb. discriminate.
  - destruct F as (_ & _ & _ & _ & Hbf & _). rewrite Hbf in Hb. discriminate.
  - split; [reflexivity|]. destruct Hty as (v & Hv & _). eauto.
  - split; [reflexivity|]. destruct Hty as (v & Hv). eauto.
  - split; [reflexivity|]. destruct Hty as (v & Hv & _). eauto.
  - destruct F as (_ & _ & _ & _ & _ & g & Hbf & _). rewrite Hbf in Hb. discriminate.
  - split; [reflexivity|]. destruct Hty as (v & Hv & _). eauto.
  - destruct F as (Hc & _). congruence.
  - split; [reflexivity|]. destruct Hty as (v & Hv & _). eauto.
  - split; [reflexivity|]. destruct Hty as [Hv|(b & Hv & _)]; eauto.
  - destruct F as (_ & _ & _ & _ & Hbf & _). rewrite Hbf in Hb. discriminate.
  - split; [reflexivity|]. destruct Hty as (v & Hv & _). eauto.
  - split; [reflexivity|]. destruct Hty as (v & Hv & _). eauto.
  - split; [reflexivity|]. destruct Hty as (v & Hv & _). eauto.
  - split; [reflexivity|]. destruct Hty as (v & z & Hv & _). eauto.
Qed.

End StructRT.
