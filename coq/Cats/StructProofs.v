(* Struct layer: the member loop of deserialize reads back what the member loop of serialize wrote, and size agrees with the
   number of bytes, for member lists made of the ordinary member kinds:
     plain / reserved integers, count and byte-size members, named alias/enum/struct members, byte arrays and counted typed arrays.
   Generic in the codecs of named types (hypothesis sub_rt) so that it can be applied level by level. *)
From Symv Require Import Base.Bytes Base.PyOps Base.BytesLemmas Cats.Layout Cats.LayoutProofs Cats.ArrayProofs Cats.LayoutLaws.
From Coq Require Import Lia ZifyBool.
Open Scope string_scope.
Open Scope list_scope.
Open Scope Z_scope.

Section StructRT.
Variable OP : ops.
Variable tm : list decl.
Variable R : rec_ops.
Variable s : struct.
Variable allfs : list field.

Hypothesis size_bad_spec : forall x, size_bad OP x = (x <=? 0).
Hypothesis order_same : forall p c, order_bad_r OP p c = order_bad_w OP p c.
Hypothesis get_bytes_bad_spec : forall n len, get_bytes_bad OP n len = (len <? n).

(* admissible values of named types, and the round trip of their codecs one level down *)
Variable adm_t : string -> value -> Prop.
Hypothesis sub_rt : forall t v b rest, adm_t t v -> enc_t R t v = Ok b ->
  dec_t R t (b ++ rest) = Ok v /\ size_t R t v = Ok (Z.of_nat (length b)) /\ (0 < length b)%nat.

(* a member that is not the @size member of the struct whose method runs *)
Definition not_size_member (f : field) : Prop :=
  match struct_size_attr s with Some n => String.eqb n (f_name f) | None => false end = false.

Notation ser_field := (serialize_field OP tm R s allfs).
Notation ser_fields := (serialize_fields_go OP tm R s allfs).
Notation load := (load_field OP tm R s allfs).
Notation des_field := (deserialize_field OP tm R s allfs).
Notation des_loop := (deserialize_loop OP tm R s allfs).

Definition not_abstract (t : string) : bool :=
  match lookup_struct tm t with Some ts => match s_disp ts with SdAbstract => false | _ => true end | None => true end.

(* ---- static classification of the ordinary member kinds ---- *)
Inductive mkind :=
| MkInt (i : intty)                       (* plain settable integer *)
| MkReserved (i : intty) (n : Z)
| MkCount (i : intty) (g : field)         (* count / byte length of the array member g *)
| MkNamed (t : string)
| MkBytes (n : string)                    (* byte array sized by member n *)
| MkArray (a : array) (n : string).       (* counted typed array sized by member n *)

Definition classify (f : field) : option mkind :=
  match f_cond f, is_sizeof f, is_computed f with
  | None, false, false =>
    match f_type f with
    | FInt i =>
      if it_size i <? 0 then None else
      if is_reserved f then match f_value f, bound_field allfs f with VNum n, None => Some (MkReserved i n) | _, _ => None end
      else match bound_field allfs f with
           | None => Some (MkInt i)
           | Some g =>
             match f_array g, f_cond g with
             | Some ga, None =>
               if (ends_with_count (f_name f) || negb (a_byte_constrained ga)) && it_unsigned i then Some (MkCount i g) else None
             | _, _ => None
             end
           end
    | FName t =>
      if negb (is_reserved f) && not_abstract t then
        match bound_field allfs f, size_fields_of allfs f with None, [] => Some (MkNamed t) | _, _ => None end
      else None
    | FArray a =>
      match bound_field allfs f, a_size a with
      | None, SzName n =>
        if is_byte_array a then Some (MkBytes n)
        else if negb (is_variable_size tm a) && negb (a_byte_constrained a) && (alignment_of a =? 0) then Some (MkArray a n) else None
      | _, _ => None
      end
    end
  | _, _, _ => None
  end.

(* ---- what a value must look like at a member (typing; ranges are implied by successful encoding) ---- *)
Definition member_typed (self : value) (f : field) : Prop :=
  match classify f with
  | Some (MkInt _) => exists z, vget self (f_name f) = Some (VInt z)
  | Some (MkReserved _ _) => True
  | Some (MkCount _ g) =>
    (exists b, vget self (f_name g) = Some (VBytes b)) \/ (exists l, vget self (f_name g) = Some (VArr l))
  | Some (MkNamed t) => exists v, vget self (f_name f) = Some v /\ v <> VNull /\ adm_t t v
  | Some (MkBytes _) => exists b, vget self (f_name f) = Some (VBytes b)
  | Some (MkArray a _) =>
    exists l, vget self (f_name f) = Some (VArr l) /\ (length l <= array_fuel)%nat /\
              match elem_name a with Some et => Forall (adm_t et) l /\ contents_abstract tm a = false | None => False end
  | None => False
  end.

(* what the decoder has in its environment for a member already read *)
Definition env_entry (self : value) (f : field) : option value :=
  match classify f with
  | Some (MkInt _) | Some (MkNamed _) | Some (MkBytes _) | Some (MkArray _ _) => vget self (f_name f)
  | Some (MkCount _ g) =>
    match vget self (f_name g) with
    | Some (VBytes b) => Some (VInt (Z.of_nat (length b)))
    | Some (VArr l) => Some (VInt (Z.of_nat (length l)))
    | _ => None
    end
  | Some (MkReserved _ n) => Some (VInt n)
  | None => None
  end.

Definition env_ok (seen : list field) (e : env) (self : value) : Prop :=
  forall f, In f seen -> eget e (f_name f) = env_entry self f.

(* the size member of an array has been read before the array, and binds exactly that array *)
Definition size_member_seen (seen : list field) (f : field) (n : string) : Prop :=
  exists c i, In c seen /\ f_name c = n /\ classify c = Some (MkCount i f).

Lemma eget_cons_eq e n v : eget ((n, v) :: e) n = Some v.
Proof. unfold eget. cbn [find fst]. now rewrite String.eqb_refl. Qed.

Lemma eget_cons_neq e n m v : n <> m -> eget ((n, v) :: e) m = eget e m.
Proof. intros H. unfold eget. cbn [find fst]. destruct (String.eqb_spec n m); [contradiction|reflexivity]. Qed.

Lemma skipn_app_exact {A} (a b : list A) n : length a = n -> skipn n (a ++ b) = b.
Proof. intros <-. rewrite skipn_app, skipn_all, Nat.sub_diag. reflexivity. Qed.

Lemma cond_local_none e f : f_cond f = None -> cond_local tm allfs e f = Ok true.
Proof. unfold cond_local. now intros ->. Qed.

Lemma classify_cond f k : classify f = Some k -> f_cond f = None.
Proof. unfold classify. destruct (f_cond f); [discriminate|reflexivity]. Qed.

(* ---- one member: what serialize_field wrote, load_field reads back, leaving exactly the rest ---- *)
Lemma member_step (seen : list field) e self total f bf rest :
  not_size_member f ->
  env_ok seen e self -> member_typed self f ->
  (forall a n, classify f = Some (MkArray a n) -> size_member_seen seen f n) ->
  (forall n, classify f = Some (MkBytes n) -> size_member_seen seen f n) ->
  ser_field total self false f = Ok bf ->
  exists v, load e f (bf ++ rest) = Ok (v, rest) /\ Some v = env_entry self f.
Proof.
  intros no_size_attr Henv Hty Harr Hbytes Hser. unfold member_typed, env_entry in *.
  destruct (classify f) as [k|] eqn:Hk; [|contradiction].
  pose proof (classify_cond f k Hk) as Hcond.
  unfold classify in Hk. rewrite Hcond in Hk.
  destruct (is_sizeof f) eqn:Hsz; [discriminate|]. destruct (is_computed f) eqn:Hcomp; [discriminate|].
  unfold serialize_field in Hser. cbn [andb] in Hser. rewrite (cond_self_none tm R allfs self f Hcond) in Hser. cbn [bind negb] in Hser.
  unfold load_field. unfold not_size_member in no_size_attr. rewrite no_size_attr.
  destruct (f_type f) as [i|t|a] eqn:Hft.
  - (* integers *)
    destruct (it_size i <? 0) eqn:Hw0; [discriminate|].
    destruct (is_reserved f) eqn:Hres.
    + destruct (f_value f) as [|n| |] eqn:Hfv; try discriminate. destruct (bound_field allfs f) eqn:Hb; [discriminate|].
      injection Hk as <-. rewrite ?Hcomp in Hser.
      destruct (py_int_roundtrip _ _ _ _ rest Hser) as [Hx Hlen]. rewrite Hx, Z.eqb_refl.
      eexists; split; [|reflexivity]. rewrite skipn_app_exact by exact Hlen. reflexivity.
    + destruct (bound_field allfs f) as [g|] eqn:Hb.
      * destruct (f_array g) as [ga|] eqn:Hga; [|discriminate]. destruct (f_cond g) eqn:Hgc; [discriminate|].
        destruct ((ends_with_count (f_name f) || negb (a_byte_constrained ga)) && it_unsigned i) eqn:Hc; [|discriminate].
        injection Hk as <-. apply Bool.andb_true_iff in Hc as [Hc Hu]. rewrite ?Hc in Hser.
        unfold member_value in Hser.
        destruct Hty as [[b Hv]|[l Hv]]; rewrite Hv in Hser |- *; cbn [bind] in Hser; try rewrite Hgc in Hser;
          destruct (py_int_roundtrip _ _ _ _ rest Hser) as [Hx Hlen]; rewrite Hx;
          (eexists; split; [|reflexivity]); rewrite skipn_app_exact by exact Hlen; reflexivity.
      * injection Hk as <-. rewrite ?Hcomp, ?Hres in Hser. destruct Hty as [z Hv]. unfold member_value in Hser. rewrite Hv in Hser |- *. cbn [bind] in Hser.
        destruct (py_int_roundtrip _ _ _ _ rest Hser) as [Hx Hlen]. rewrite Hx.
        eexists; split; [|reflexivity]. rewrite skipn_app_exact by exact Hlen. reflexivity.
  - (* named members *)
    destruct (negb (is_reserved f) && not_abstract t) eqn:Hn; [|discriminate].
    destruct (bound_field allfs f) eqn:Hb; [discriminate|]. destruct (size_fields_of allfs f) eqn:Hsf; [|discriminate].
    injection Hk as <-. apply Bool.andb_true_iff in Hn as [Hres Hna]. apply Bool.negb_true_iff in Hres. rewrite ?Hres in Hser.
    destruct Hty as (v & Hv & Hnn & Hadm). unfold member_value in Hser. rewrite Hv in Hser |- *. cbn [bind] in Hser.
    assert (Hser' : enc_t R t v = Ok bf) by (destruct v; try exact Hser; contradiction).
    destruct (sub_rt t v bf rest Hadm Hser') as (Hd & Hs & _).
    unfold not_abstract in Hna.
    replace (match lookup_struct tm t with Some ts => match s_disp ts with SdAbstract => true | _ => false end | None => false end) with false
      by (destruct (lookup_struct tm t) as [ts|]; [destruct (s_disp ts); try reflexivity; discriminate | reflexivity]).
    rewrite Hd. cbn [bind]. rewrite Hs. cbn [bind]. rewrite zskipn_app. eexists; split; reflexivity.
  - (* arrays *)
    destruct (bound_field allfs f) eqn:Hb; [discriminate|]. destruct (a_size a) as [|n|] eqn:Has; try discriminate.
    destruct (is_byte_array a) eqn:Hba.
    + injection Hk as <-. destruct Hty as [b Hv]. unfold member_value in Hser. rewrite Hv in Hser |- *. cbn [bind] in Hser.
      rewrite ?Hba in Hser. injection Hser as <-.
      destruct (Hbytes n eq_refl) as (c & ci & Hin & Hcn & Hck).
      pose proof (Henv c Hin) as Hec. unfold env_entry in Hec. rewrite Hck, Hv in Hec. rewrite Hcn in Hec.
      unfold size_local. rewrite Hec. cbn [bind]. unfold get_bytes. rewrite get_bytes_bad_spec, app_length.
      replace (Z.of_nat (length b + length rest) <? Z.of_nat (length b)) with false by lia.
      cbn [bind]. rewrite zfirstn_app, zskipn_app. eexists; split; reflexivity.
    + destruct (negb (is_variable_size tm a) && negb (a_byte_constrained a) && (alignment_of a =? 0)) eqn:Hplain; [|discriminate].
      injection Hk as <-. apply Bool.andb_true_iff in Hplain as [Hp Hal]. apply Bool.andb_true_iff in Hp as [Hvs Hbc].
      apply Bool.negb_true_iff in Hvs, Hbc.
      destruct Hty as (l & Hv & Hfuel & Hel). unfold member_value in Hser. rewrite Hv in Hser |- *. cbn [bind] in Hser.
      rewrite ?Hba, ?Hvs in Hser. unfold write_array in Hser.
      destruct (elem_name a) as [et|] eqn:Het; [|contradiction]. destruct Hel as [Hall Hnabs].
      destruct (Harr a n eq_refl) as (c & ci & Hin & Hcn & Hck).
      pose proof (Henv c Hin) as Hec. unfold env_entry in Hec. rewrite Hck, Hv in Hec. rewrite Hcn in Hec.
      unfold size_local. rewrite Hec. cbn [bind]. rewrite Hvs, Hbc, Hal. cbn [negb].
      assert (Hrt : forall e' be rest', adm_t et e' -> elem_enc R a e' = Ok be ->
                elem_dec tm R a (be ++ rest') = Ok e' /\ elem_size R a e' = Ok (Z.of_nat (length be)) /\ (0 < length be)%nat).
      { intros e' be rest' Ha He. unfold elem_enc, elem_dec, elem_size in *. rewrite Het in *. rewrite Hnabs. now apply sub_rt. }
      pose proof (write_read_count OP tm R a (adm_t et) size_bad_spec order_same Hrt l (length l) None None bf rest 0
                    array_fuel Hall eq_refl Hfuel (or_intror eq_refl)) as Hread.
      pose proof (write_size OP tm R a (adm_t et) Hrt l None bf Hall) as Hsize.
      destruct (a_sort_key a) eqn:Hsk.
      * specialize (Hread Hser). specialize (Hsize Hser). cbn [Z.add] in Hread. rewrite Hread. cbn [bind]. rewrite Hsize. cbn [bind].
        rewrite zskipn_app. eexists; split; reflexivity.
      * (* no sort key: the writer is called with the same record (a_sort_key = None) *)
        cbv iota in Hser.
        specialize (Hsize Hser).
        (* reader without accessor: reuse the count lemma with use_accessor = true is not applicable; prove directly via the keyed lemma on a *)
        assert (Hread' : read_array_go OP tm R a false array_fuel (StopCount (Z.of_nat (length l))) 0 None (bf ++ rest) = Ok l).
        {
          assert (G : forall l0 pw b rest0 i0 fuel, Forall (adm_t et) l0 -> (length l0 <= fuel)%nat ->
                    write_array_go OP tm R a pw l0 (length l0) = Ok b ->
                    read_array_go OP tm R a false fuel (StopCount (i0 + Z.of_nat (length l0))) i0 None (b ++ rest0) = Ok l0).
          { clear Hser Hall Hfuel. induction l0 as [|x l0 IH]; intros pw b rest0 i0 fuel Hadm Hf Hw.
            - cbn in Hw. injection Hw as <-. destruct fuel; cbn [read_array_go length]; replace (i0 <? i0 + Z.of_nat 0) with false by lia; reflexivity.
            - cbn [length write_array_go] in Hw. inversion Hadm as [|? ? Hx Hl]; subst.
              rewrite (elem_key_none tm R a x Hsk) in Hw. cbn [bind] in Hw.
              replace (match pw with Some _ => false | None => false end) with false in Hw by (destruct pw; reflexivity).
              destruct (elem_enc R a x) as [be| |] eqn:Hbe; cbn [bind] in Hw; try discriminate.
              destruct (write_array_go OP tm R a None l0 (length l0)) as [br| |] eqn:Hbr; cbn [bind] in Hw; try discriminate.
              injection Hw as <-. destruct (Hrt x be (br ++ rest0) Hx Hbe) as (Hd & Hs & Hpos).
              destruct fuel as [|fuel]; [cbn [length] in Hf; lia|].
              cbn [read_array_go length]. replace (i0 <? i0 + Z.of_nat (S (length l0))) with true by lia. cbn [negb].
              rewrite <- app_assoc, Hd. cbn [bind]. rewrite Hs. cbn [bind]. rewrite size_bad_spec.
              replace (Z.of_nat (length be) <=? 0) with false by lia. cbn [bind]. rewrite zskipn_app.
              replace (i0 + Z.of_nat (S (length l0))) with ((i0 + 1) + Z.of_nat (length l0)) by lia.
              rewrite (IH None br rest0 (i0 + 1) fuel Hl ltac:(cbn [length] in Hf; lia) Hbr). reflexivity. }
          exact (G l None bf rest 0 array_fuel Hall Hfuel Hser). }
        rewrite Hread'. cbn [bind]. rewrite Hsize. cbn [bind]. rewrite zskipn_app. eexists; split; reflexivity.
Qed.


(* ---- size: what the size property adds for a member is the number of bytes serialize_field writes for it ---- *)
Lemma member_size_ok self total f bf :
  member_typed self f -> ser_field total self false f = Ok bf ->
  bind (cond_self tm R allfs self f) (fun c => if c then member_size OP tm R self f else Ok 0) = Ok (Z.of_nat (length bf)).
Proof.
  intros Hty Hser. unfold member_typed in Hty.
  destruct (classify f) as [k|] eqn:Hk; [|contradiction].
  pose proof (classify_cond f k Hk) as Hcond. rewrite (cond_self_none tm R allfs self f Hcond). cbn [bind].
  unfold classify in Hk. rewrite Hcond in Hk.
  destruct (is_sizeof f) eqn:Hsz; [discriminate|]. destruct (is_computed f) eqn:Hcomp; [discriminate|].
  unfold serialize_field in Hser. cbn [andb] in Hser. rewrite (cond_self_none tm R allfs self f Hcond) in Hser. cbn [bind negb] in Hser.
  unfold member_size.
  destruct (f_type f) as [i|t|a] eqn:Hft.
  - assert (Hw : forall w sg x, py_to_bytes w sg x = Ok bf -> length bf = w) by (intros w sg x H; exact (proj2 (py_int_roundtrip w sg x bf [] H))).
    destruct (it_size i <? 0) eqn:Hw0; [discriminate|].
    assert (Hsize : Z.of_nat (Z.to_nat (it_size i)) = it_size i) by lia.
    destruct (is_reserved f) eqn:Hres.
    + destruct (f_value f) as [|n| |] eqn:Hfv; try discriminate. destruct (bound_field allfs f) eqn:Hb; [discriminate|].
      rewrite ?Hcomp in Hser. apply Hw in Hser. rewrite Hser. now f_equal.
    + destruct (bound_field allfs f) as [g|] eqn:Hb.
      * destruct (f_array g) as [ga|] eqn:Hga; [|discriminate]. destruct (f_cond g) eqn:Hgc; [discriminate|].
        destruct ((ends_with_count (f_name f) || negb (a_byte_constrained ga)) && it_unsigned i) eqn:Hc; [|discriminate].
        injection Hk as <-. apply Bool.andb_true_iff in Hc as [Hc Hu]. rewrite ?Hc in Hser. unfold member_value in Hser.
        destruct Hty as [[b Hv]|[l Hv]]; rewrite Hv in Hser; cbn [bind] in Hser; try rewrite Hgc in Hser; apply Hw in Hser; rewrite Hser; now f_equal.
      * injection Hk as <-. rewrite ?Hcomp, ?Hres in Hser. destruct Hty as [z Hv]. unfold member_value in Hser. rewrite Hv in Hser. cbn [bind] in Hser.
        apply Hw in Hser. rewrite Hser. now f_equal.
  - destruct (negb (is_reserved f) && not_abstract t) eqn:Hn; [|discriminate].
    destruct (bound_field allfs f) eqn:Hb; [discriminate|]. destruct (size_fields_of allfs f) eqn:Hsf; [|discriminate].
    injection Hk as <-. apply Bool.andb_true_iff in Hn as [Hres Hna]. apply Bool.negb_true_iff in Hres. rewrite ?Hres in Hser.
    destruct Hty as (v & Hv & Hnn & Hadm). unfold member_value in Hser |- *. rewrite Hv in Hser |- *. cbn [bind] in Hser |- *.
    assert (Hser' : enc_t R t v = Ok bf) by (destruct v; try exact Hser; contradiction).
    destruct (sub_rt t v bf [] Hadm Hser') as (_ & Hs & _). destruct v; try exact Hs; contradiction.
  - destruct (bound_field allfs f) eqn:Hb; [discriminate|]. destruct (a_size a) as [|n|] eqn:Has; try discriminate.
    destruct (is_byte_array a) eqn:Hba.
    + injection Hk as <-. destruct Hty as [b Hv]. unfold member_value in Hser |- *. rewrite Hv in Hser |- *. cbn [bind] in Hser |- *.
      rewrite ?Hba in Hser. injection Hser as <-. reflexivity.
    + destruct (negb (is_variable_size tm a) && negb (a_byte_constrained a) && (alignment_of a =? 0)) eqn:Hplain; [|discriminate].
      injection Hk as <-. apply Bool.andb_true_iff in Hplain as [Hp Hal]. apply Bool.andb_true_iff in Hp as [Hvs Hbc]. apply Bool.negb_true_iff in Hvs, Hbc.
      destruct Hty as (l & Hv & Hfuel & Hel). unfold member_value in Hser |- *. rewrite Hv in Hser |- *. cbn [bind] in Hser |- *.
      rewrite ?Hba, ?Hvs in Hser. unfold write_array in Hser. rewrite Hvs.
      destruct (elem_name a) as [et|] eqn:Het; [|contradiction]. destruct Hel as [Hall Hnabs].
      assert (Hrt : forall e' be rest', adm_t et e' -> elem_enc R a e' = Ok be ->
                elem_dec tm R a (be ++ rest') = Ok e' /\ elem_size R a e' = Ok (Z.of_nat (length be)) /\ (0 < length be)%nat).
      { intros e' be rest' Ha He. unfold elem_enc, elem_dec, elem_size in *. rewrite Het in *. rewrite Hnabs. now apply sub_rt. }
      destruct (a_sort_key a) eqn:Hsk; cbv iota in Hser; exact (write_size OP tm R a (adm_t et) Hrt l None bf Hall Hser).
Qed.


(* ---- the member loops ---- *)
Inductive ordered : list field -> list field -> Prop :=
| ord_nil seen : ordered seen []
| ord_cons seen f r :
    (forall a n, classify f = Some (MkArray a n) -> size_member_seen seen f n) ->
    (forall n, classify f = Some (MkBytes n) -> size_member_seen seen f n) ->
    ordered (seen ++ [f]) r -> ordered seen (f :: r).

Lemma member_typed_cond self f : member_typed self f -> f_cond f = None.
Proof. unfold member_typed. destruct (classify f) eqn:Hk; [|contradiction]. intros _. eapply classify_cond; eassumption. Qed.

Lemma loop_rt : forall fs seen e self total b rest processed,
  (forall f, In f fs -> not_size_member f) ->
  ordered seen fs -> NoDup (map f_name (seen ++ fs)) ->
  env_ok seen e self -> (forall f, In f fs -> member_typed self f) ->
  ser_fields total self false fs = Ok b ->
  exists e', des_loop fs processed [] [] e (b ++ rest) = Ok (e', rest) /\ env_ok (seen ++ fs) e' self /\
             (forall n, ~ In n (map f_name fs) -> eget e' n = eget e n).
Proof.
  induction fs as [|f r IH]; intros seen e self total b rest processed Hnsz Hord Hnd Henv Hty Hser.
  - cbn in Hser. injection Hser as <-. exists e. rewrite app_nil_r. split; [reflexivity | split; [exact Henv | reflexivity]].
  - rewrite ser_fields_cons in Hser.
    destruct (ser_field total self false f) as [bf| |] eqn:Hf; cbn [bind] in Hser; try discriminate.
    destruct (ser_fields total self false r) as [br| |] eqn:Hr; cbn [bind] in Hser; try discriminate.
    injection Hser as <-. inversion Hord as [|? ? ? Ha Hb Hrest]; subst.
    pose proof (Hty f (or_introl eq_refl)) as Htf. pose proof (member_typed_cond self f Htf) as Hcond.
    destruct (member_step seen e self total f bf (br ++ rest) (Hnsz f (or_introl eq_refl)) Henv Htf Ha Hb Hf) as (v & Hload & Hv).
    assert (Henv' : env_ok (seen ++ [f]) ((f_name f, v) :: e) self).
    { intros g Hg. apply in_app_or in Hg as [Hg|[<-|[]]].
      - rewrite eget_cons_neq; [now apply Henv|].
        rewrite map_app in Hnd. cbn [map] in Hnd. apply NoDup_remove_2 in Hnd. intros Heq. apply Hnd.
        apply in_or_app. left. rewrite Heq. now apply in_map.
      - rewrite eget_cons_eq. exact Hv. }
    destruct (IH (seen ++ [f]) ((f_name f, v) :: e) self total br rest (f_name f :: processed) (fun g Hg => Hnsz g (or_intror Hg)) Hrest
               ltac:(rewrite <- app_assoc; exact Hnd) Henv' (fun g Hg => Hty g (or_intror Hg)) Hr) as (e' & Hloop & Henv'' & Hkeep).
    exists e'. split; [|split; [rewrite <- app_assoc in Henv''; exact Henv''|]].
    2:{ intros n Hn. cbn [map] in Hn. rewrite Hkeep by (intros Hx; apply Hn; now right). apply eget_cons_neq. intros Heq. apply Hn. now left. }
    cbn [deserialize_loop]. rewrite Hcond. unfold deserialize_field. rewrite (cond_local_none e f Hcond). cbn [bind].
    rewrite <- app_assoc, Hload. cbn [bind fst snd find drain_queue]. exact Hloop.
Qed.

Lemma size_fields_ok : forall fs self total b,
  (forall f, In f fs -> member_typed self f) -> ser_fields total self false fs = Ok b ->
  size_fields OP tm R allfs self fs = Ok (Z.of_nat (length b)).
Proof.
  induction fs as [|f r IH]; intros self total b Hty Hser.
  - cbn in Hser. injection Hser as <-. reflexivity.
  - rewrite ser_fields_cons in Hser.
    destruct (ser_field total self false f) as [bf| |] eqn:Hf; cbn [bind] in Hser; try discriminate.
    destruct (ser_fields total self false r) as [br| |] eqn:Hr; cbn [bind] in Hser; try discriminate.
    injection Hser as <-.
    pose proof (member_size_ok self total f bf (Hty f (or_introl eq_refl)) Hf) as Hs.
    cbn [size_fields]. destruct (cond_self tm R allfs self f) as [c| |]; cbn [bind] in Hs |- *; try discriminate.
    rewrite Hs. cbn [bind]. rewrite (IH self total br (fun g Hg => Hty g (or_intror Hg)) Hr). cbn [bind].
    rewrite app_length. f_equal. lia.
Qed.

(* the first member is only special for the @size member, which this fragment does not have *)
Lemma ser_fields_first total self fs : (forall f, In f fs -> not_size_member f) -> ser_fields total self true fs = ser_fields total self false fs.
Proof.
  intros Hn. destruct fs as [|f r]; [reflexivity|]. rewrite !ser_fields_cons. f_equal.
  specialize (Hn f (or_introl eq_refl)). unfold not_size_member in Hn. unfold serialize_field, is_size_first.
  destruct (struct_size_attr s) as [n|]; [|reflexivity].
  rewrite String.eqb_refl. cbn [andb]. rewrite String.eqb_sym, Hn. reflexivity.
Qed.

End StructRT.

(* inversion of the classification for the two fixed-width integer kinds *)
Lemma classify_plain_int tm allfs f i : classify tm allfs f = Some (MkInt i) -> plain_member allfs f /\ f_type f = FInt i.
Proof.
  unfold classify, plain_member. destruct (f_cond f); [discriminate|]. destruct (is_sizeof f); [discriminate|]. destruct (is_computed f); [discriminate|].
  destruct (f_type f) as [j|t|a]; try discriminate.
  - destruct (it_size j <? 0); [discriminate|]. destruct (is_reserved f).
    + destruct (f_value f); try discriminate. destruct (bound_field allfs f); discriminate.
    + destruct (bound_field allfs f) as [g|].
      * destruct (f_array g); [|discriminate]. destruct (f_cond g); [discriminate|]. destruct (_ && _); discriminate.
      * intros H; injection H as ->. repeat split; reflexivity.
  - destruct (_ && _); [|discriminate]. destruct (bound_field allfs f); [discriminate|]. destruct (size_fields_of allfs f); discriminate.
  - destruct (bound_field allfs f); [discriminate|]. destruct (a_size a); try discriminate. destruct (is_byte_array a); [discriminate|]. destruct (_ && _); discriminate.
Qed.

Lemma classify_reserved tm allfs f i n : classify tm allfs f = Some (MkReserved i n) ->
  f_cond f = None /\ bound_field allfs f = None /\ is_computed f = false /\ is_reserved f = true /\ f_type f = FInt i /\ f_value f = VNum n.
Proof.
  unfold classify. destruct (f_cond f); [discriminate|]. destruct (is_sizeof f); [discriminate|]. destruct (is_computed f); [discriminate|].
  destruct (f_type f) as [j|t|a]; try discriminate.
  - destruct (it_size j <? 0); [discriminate|]. destruct (is_reserved f).
    + destruct (f_value f); try discriminate. destruct (bound_field allfs f); [discriminate|]. intros H; injection H as -> ->. repeat split; reflexivity.
    + destruct (bound_field allfs f) as [g|]; [|discriminate].
      destruct (f_array g); [|discriminate]. destruct (f_cond g); [discriminate|]. destruct (_ && _); discriminate.
  - destruct (_ && _); [|discriminate]. destruct (bound_field allfs f); [discriminate|]. destruct (size_fields_of allfs f); discriminate.
  - destruct (bound_field allfs f); [discriminate|]. destruct (a_size a); try discriminate. destruct (is_byte_array a); [discriminate|]. destruct (_ && _); discriminate.
Qed.

Lemma classify_named tm allfs f t : classify tm allfs f = Some (MkNamed t) ->
  f_cond f = None /\ bound_field allfs f = None /\ is_reserved f = false /\ f_type f = FName t.
Proof.
  unfold classify. destruct (f_cond f); [discriminate|]. destruct (is_sizeof f); [discriminate|]. destruct (is_computed f); [discriminate|].
  destruct (f_type f) as [j|t'|a]; try discriminate.
  - destruct (it_size j <? 0); [discriminate|]. destruct (is_reserved f).
    + destruct (f_value f); try discriminate. destruct (bound_field allfs f); discriminate.
    + destruct (bound_field allfs f) as [g|]; [|discriminate].
      destruct (f_array g); [|discriminate]. destruct (f_cond g); [discriminate|]. destruct (_ && _); discriminate.
  - destruct (negb (is_reserved f) && not_abstract tm t') eqn:Hn; [|discriminate].
    destruct (bound_field allfs f); [discriminate|]. destruct (size_fields_of allfs f); [|discriminate]. intros H; injection H as ->.
    apply Bool.andb_true_iff in Hn as [Hr _]. apply Bool.negb_true_iff in Hr. repeat split; assumption.
  - destruct (bound_field allfs f); [discriminate|]. destruct (a_size a); try discriminate. destruct (is_byte_array a); [discriminate|]. destruct (_ && _); discriminate.
Qed.

Definition int_kind (k : mkind) : option intty :=
  match k with MkInt i | MkReserved i _ | MkCount i _ => Some i | _ => None end.

Lemma classify_int_kind tm allfs f k i : classify tm allfs f = Some k -> int_kind k = Some i -> f_type f = FInt i /\ f_cond f = None.
Proof.
  intros Hk Hi. pose proof (classify_cond tm allfs f k Hk) as Hc. split; [|exact Hc].
  unfold classify in Hk. rewrite Hc in Hk. destruct (is_sizeof f); [discriminate|]. destruct (is_computed f); [discriminate|].
  destruct (f_type f) as [j|t|a].
  - destruct (it_size j <? 0); [discriminate|]. destruct (is_reserved f).
    + destruct (f_value f); try discriminate. destruct (bound_field allfs f); [discriminate|]. injection Hk as <-. cbn in Hi. congruence.
    + destruct (bound_field allfs f) as [g|].
      * destruct (f_array g); [|discriminate]. destruct (f_cond g); [discriminate|]. destruct (_ && _); [|discriminate]. injection Hk as <-. cbn in Hi. congruence.
      * injection Hk as <-. cbn in Hi. congruence.
  - destruct (_ && _); [|discriminate]. destruct (bound_field allfs f); [discriminate|]. destruct (size_fields_of allfs f); [|discriminate]. injection Hk as <-. discriminate.
  - destruct (bound_field allfs f); [discriminate|]. destruct (a_size a); try discriminate. destruct (is_byte_array a); [injection Hk as <-; discriminate|].
    destruct (_ && _); [|discriminate]. injection Hk as <-. discriminate.
Qed.
