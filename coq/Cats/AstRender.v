(* Canonical text rendering of Ast values (mirrored by the render functions of harness/astdump.py), used to compare model and implementation. *)
From Symv Require Export Cats.Ast.
From Symv Require Import Base.Bytes.
Open Scope string_scope.

Definition bs (codes : list Z) : string := fold_right (fun c acc => String (ascii_of_N (Z.to_N c)) acc) "" codes.

Fixpoint escape (s : string) : string :=
  match s with
  | EmptyString => ""
  | String c r =>
    let n := of_ascii c in
    (if ((32 <=? n) && (n <=? 126) && negb (n =? 34) && negb (n =? 92))%Z then String c ""
     else "\x" ++ String (hex_digit (n / 16)) (String (hex_digit (n mod 16)) "")) ++ escape r
  end.
Definition q (s : string) : string := "'" ++ escape s ++ "'".
Definition ropt {A} (f : A -> string) (o : option A) : string := match o with None => "~" | Some x => f x end.
Definition rbool (b : bool) : string := if b then "T" else "F".
Definition rlist {A} (f : A -> string) (l : list A) : string := "[" ++ String.concat " " (map f l) ++ "]".
Definition rZ := Z_to_string.

Definition r_intty (i : intty) : string :=
  "(int " ++ rbool (it_unsigned i) ++ " " ++ rZ (it_size i) ++ " "
  ++ ropt (fun p => "(" ++ q (fst p) ++ " " ++ ropt rZ (snd p) ++ ")") (it_sizeref i) ++ ")".
Definition r_asize (s : asize) : string := match s with SzNum n => rZ n | SzName s => q s | SzFill => "fill" end.
Definition r_elem (e : elemty) : string := match e with ElInt i => r_intty i | ElName s => q s end.
Definition r_array (a : array) : string :=
  "(array " ++ r_elem (a_elem a) ++ " " ++ r_asize (a_size a) ++ " " ++ ropt q (a_sort_key a) ++ " " ++ rbool (a_byte_constrained a)
  ++ " " ++ ropt rZ (a_alignment a) ++ " " ++ ropt rbool (a_last_padded a) ++ ")".
Definition r_cvalue (v : cvalue) : string := match v with CvNum n => rZ n | CvName s => q s end.
Definition r_cond (c : conditional) : string := "(if " ++ r_cvalue (c_value c) ++ " " ++ q (c_op c) ++ " " ++ q (c_link c) ++ ")".
Definition r_ftype (t : ftype) : string := match t with FInt i => r_intty i | FName s => q s | FArray a => r_array a end.
Definition r_fvalue (v : fvalue) : string := match v with VNone => "~" | VNum n => rZ n | VName s => q s | VCond c => r_cond c end.
Definition r_avalue (v : avalue) : string := match v with AvNum n => rZ n | AvStr s => q s | AvNone => "~" end.
Definition r_attr (a : attribute) : string := "(@" ++ at_name a ++ " " ++ rlist r_avalue (at_values a) ++ ")".
Definition r_attrs (o : option (list attribute)) : string := ropt (rlist r_attr) o.
Definition r_disp (d : disposition) : string :=
  match d with DispNone => "~" | DispConst => "const" | DispReserved => "reserved" | DispSizeof => "sizeof" | DispInline => "inline" end.
Definition r_field (f : field) : string :=
  match f with
  | Field n t v d a c => "(field " ++ q n ++ " " ++ r_ftype t ++ " " ++ r_fvalue v ++ " " ++ r_disp d ++ " " ++ r_attrs a ++ " " ++ ropt q c ++ ")"
  | InlinePlaceholder t c => "(inline " ++ q t ++ " " ++ ropt q c ++ ")"
  end.
Definition r_linked (l : linked) : string := match l with LInt i => r_intty i | LBuffer n => "(buffer " ++ rZ n ++ ")" end.
Definition r_enum_value (v : enum_value) : string := "(" ++ q (ev_name v) ++ " " ++ rZ (ev_value v) ++ " " ++ ropt q (ev_comment v) ++ ")".
Definition r_sdisp (d : sdisp) : string := match d with SdNone => "~" | SdAbstract => "abstract" | SdInline => "inline" end.
Definition r_struct (s : struct) : string :=
  "(struct " ++ q (s_name s) ++ " " ++ r_sdisp (s_disp s) ++ " " ++ rlist r_field (s_fields s) ++ " " ++ ropt q (s_factory_type s)
  ++ " " ++ r_attrs (s_attrs s) ++ " " ++ ropt q (s_comment s) ++ " " ++ rbool (s_requires_unaligned s) ++ ")".
Definition r_decl (d : decl) : string :=
  match d with
  | DAlias n l c => "(alias " ++ q n ++ " " ++ r_linked l ++ " " ++ ropt q c ++ ")"
  | DEnum n b vs a c => "(enum " ++ q n ++ " " ++ r_intty b ++ " " ++ rlist r_enum_value vs ++ " " ++ r_attrs a ++ " " ++ ropt q c ++ ")"
  | DStruct s => r_struct s
  end.
Definition r_decls (ds : list decl) : string := String.concat (String (ascii_of_N 10) "") (map r_decl ds).
