(* The objects of catparser/ast.py as a datatype (what CatsLarkParser produces and AstPostProcessor / AstValidator /
   generators.util consume).  Model file: definitions only.  Python object identity / aliasing is NOT represented:
   every value is immutable (the intended semantics; aliasing defects of the implementation show up in the correspondence). *)
From Coq Require Export String ZArith Bool List.
Export ListNotations.
Open Scope string_scope.

(* FixedSizeInteger: short_name is e.g. "uint32"; sizeref = (property_name, delta) where a missing delta is None *)
Record intty := { it_unsigned : bool; it_size : Z; it_sizeref : option (string * option Z) }.
Definition it_short_name (i : intty) : string :=
  (if it_unsigned i then "u" else "") ++ "int" ++
  (match it_size i with 1%Z => "8" | 2%Z => "16" | 4%Z => "32" | 8%Z => "64" | _ => "?" end).

(* Array.size: a number, a member name, or the fill placeholder (then Array.size = 0 and _raw_size = "__FILL__") *)
Inductive asize := SzNum (n : Z) | SzName (s : string) | SzFill.
Inductive elemty := ElInt (i : intty) | ElName (s : string).
Record array := {
  a_elem : elemty;
  a_size : asize;
  a_sort_key : option string;
  a_byte_constrained : bool;
  a_alignment : option Z;
  a_last_padded : option bool     (* is_last_element_padded: None unless @alignment was applied *)
}.

Inductive cvalue := CvNum (n : Z) | CvName (s : string).
Record conditional := { c_value : cvalue; c_op : string; c_link : string }.

Inductive ftype := FInt (i : intty) | FName (s : string) | FArray (a : array).
Inductive fvalue := VNone | VNum (n : Z) | VName (s : string) | VCond (c : conditional).

(* Attribute: name + token values; lark's placeholder for an absent optional token is AvNone *)
Inductive avalue := AvNum (n : Z) | AvStr (s : string) | AvNone.
Record attribute := { at_name : string; at_values : list avalue }.
Definition at_is_flag (a : attribute) : bool := match at_values a with [] => true | _ => false end.

Inductive disposition := DispNone | DispConst | DispReserved | DispSizeof | DispInline.

Inductive field :=
| Field (name : string) (ty : ftype) (value : fvalue) (disp : disposition) (attrs : option (list attribute)) (comment : option string)
| InlinePlaceholder (typename : string) (comment : option string).

Inductive linked := LInt (i : intty) | LBuffer (size : Z).
Record enum_value := { ev_name : string; ev_value : Z; ev_comment : option string }.

Inductive sdisp := SdNone | SdAbstract | SdInline.
Record struct := {
  s_name : string;
  s_disp : sdisp;
  s_fields : list field;
  s_factory_type : option string;
  s_attrs : option (list attribute);
  s_comment : option string;
  s_requires_unaligned : bool
}.

Inductive decl :=
| DAlias (name : string) (l : linked) (comment : option string)
| DEnum (name : string) (base : intty) (values : list enum_value) (attrs : option (list attribute)) (comment : option string)
| DStruct (s : struct).

Definition decl_name (d : decl) : string :=
  match d with DAlias n _ _ => n | DEnum n _ _ _ _ => n | DStruct s => s_name s end.

Definition field_name (f : field) : option string := match f with Field n _ _ _ _ _ => Some n | InlinePlaceholder _ _ => None end.

(* _lookup_attribute_value *)
Definition find_attr (attrs : option (list attribute)) (name : string) : option attribute :=
  match attrs with None => None | Some l => find (fun a => String.eqb (at_name a) name) l end.
Definition has_flag (attrs : option (list attribute)) (name : string) : bool :=
  match find_attr attrs name with Some _ => true | None => false end.
