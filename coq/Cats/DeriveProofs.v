(* Proofs about Cats/Derive.v (model of catparser/generators/util.py).  The specification side (fixed text, written from the property
   statement: literal attribute names, declarative definitions) comes first in each part; the lemmas relate the model -- instantiated
   with the operators regenerated into Gen/DeriveOps.v -- to it. *)
From Coq Require Import Lia ZifyBool Permutation.
From Symv Require Import Cats.Derive.
Open Scope string_scope.
Open Scope list_scope.
Local Arguments String.eqb : simpl never.

(* ================================================================================================================== *)
(* Part 0: generic facts *)

Lemma eqb_refl' (x : string) : String.eqb x x = true.
Proof. apply String.eqb_refl. Qed.

Lemma mem_In x l : mem x l = true <-> In x l.
Proof.
  unfold mem. rewrite existsb_exists. split.
  - intros [y [Hy He]]. apply String.eqb_eq in He. subst. exact Hy.
  - intro H. exists x. split; [exact H | apply String.eqb_refl].
Qed.

Lemma mem_false x l : mem x l = false <-> ~ In x l.
Proof. rewrite <- mem_In. destruct (mem x l); split; intro H; try congruence; try (exfalso; apply H; reflexivity). Qed.

Lemma set_add_In x y l : In y (set_add x l) <-> y = x \/ In y l.
Proof.
  unfold set_add. destruct (mem x l) eqn:E.
  - apply mem_In in E. split; [tauto | intros [->|H]; assumption].
  - rewrite in_app_iff. simpl. split; [intros [H|[H|[]]]; auto | intros [->|H]; auto].
Qed.

Lemma set_add_incl x l : incl l (set_add x l).
Proof. intros y H. apply set_add_In. right. exact H. Qed.

Lemma NoDup_snoc {A} (x : A) l : NoDup l -> ~ In x l -> NoDup (l ++ [x]).
Proof.
  induction l as [|a l IH]; intros Hn Hx; simpl.
  - constructor; [intros []|constructor].
  - inversion Hn; subst. constructor.
    + rewrite in_app_iff. simpl. intros [H|[H|[]]]; [tauto | subst; apply Hx; left; reflexivity].
    + apply IH; [assumption | intro H; apply Hx; right; exact H].
Qed.

Lemma set_add_NoDup x l : NoDup l -> NoDup (set_add x l).
Proof.
  intro H. unfold set_add. destruct (mem x l) eqn:E; [exact H|].
  apply mem_false in E. apply NoDup_snoc; assumption.
Qed.

Lemma set_add_length x l : (length l <= length (set_add x l))%nat.
Proof. unfold set_add. destruct (mem x l); [lia | rewrite app_length; simpl; lia]. Qed.

Lemma NoDup_map_inj {A B} (f : A -> B) l a b : NoDup (map f l) -> In a l -> In b l -> f a = f b -> a = b.
Proof.
  induction l as [|c l IH]; simpl; intros Hn Ha Hb He; [contradiction|].
  inversion Hn as [|? ? Hnot Hrest]; subst.
  destruct Ha as [->|Ha], Hb as [->|Hb]; auto.
  - exfalso. apply Hnot. rewrite He. apply in_map. exact Hb.
  - exfalso. apply Hnot. rewrite <- He. apply in_map. exact Ha.
Qed.

(* type_map lookups *)
Lemma lookup_In ds n d : lookup ds n = Some d -> In d ds /\ decl_name d = n.
Proof.
  unfold lookup. intro H. apply find_some in H. destruct H as [Hin He].
  apply in_rev in Hin. apply String.eqb_eq in He. split; assumption.
Qed.

Lemma lookup_NoDup ds d : NoDup (map decl_name ds) -> In d ds -> lookup ds (decl_name d) = Some d.
Proof.
  intros Hn Hin. unfold lookup.
  destruct (find (fun d0 => String.eqb (decl_name d0) (decl_name d)) (rev ds)) as [d'|] eqn:E.
  - apply find_some in E. destruct E as [Hin' He]. apply in_rev in Hin'. apply String.eqb_eq in He.
    f_equal. eapply NoDup_map_inj; eauto.
  - exfalso. apply in_rev in Hin. pose proof (find_none _ _ E d Hin) as F. cbv beta in F.
    rewrite String.eqb_refl in F. discriminate.
Qed.

Lemma filter_filter {A} (p q : A -> bool) l : filter p (filter q l) = filter (fun y => p y && q y) l.
Proof.
  induction l as [|a l IH]; simpl; [reflexivity|].
  destruct (q a) eqn:Q; simpl; destruct (p a) eqn:P; simpl; rewrite ?IH; reflexivity.
Qed.

Lemma mapM_ok {A B} (f : A -> result B) l ys : mapM f l = Ok ys -> map f l = map Ok ys.
Proof.
  revert ys. induction l as [|a l IH]; simpl; intros ys H.
  - inversion H. reflexivity.
  - destruct (f a) as [y| |k]; simpl in H; try discriminate.
    destruct (mapM f l) as [ys'| |k]; simpl in H; try discriminate.
    inversion H; subst. simpl. f_equal. apply IH. reflexivity.
Qed.

Lemma mapM_all_ok {A B} (f : A -> result B) l : (forall a, In a l -> exists b, f a = Ok b) -> exists ys, mapM f l = Ok ys.
Proof.
  induction l as [|a l IH]; simpl; intro H.
  - eexists. reflexivity.
  - destruct (H a (or_introl eq_refl)) as [b Hb]. rewrite Hb. simpl.
    destruct IH as [ys Hys]; [intros; apply H; right; assumption|]. rewrite Hys. simpl. eexists. reflexivity.
Qed.

(* ================================================================================================================== *)
(* Part 1: build_factory_map *)

(* ---- specification (fixed text) ---- *)

Definition structs_of (ds : list decl) : list struct := flat_map (fun d => match d with DStruct s => [s] | _ => [] end) ds.

(* the distinct elements of a list, each at the position of its first occurrence *)
Fixpoint first_occurrences (l : list string) : list string :=
  match l with [] => [] | x :: r => x :: filter (fun y => negb (String.eqb x y)) (first_occurrences r) end.

Definition factory_types (ds : list decl) : list string :=
  flat_map (fun s => match s_factory_type s with Some f => [f] | None => [] end) (structs_of ds).

Definition has_factory (k : string) (s : struct) : bool :=
  match s_factory_type s with Some f => String.eqb f k | None => false end.

Definition spec_discriminator (s : struct) : option (list avalue) :=
  match find_attr (s_attrs s) "discriminator" with Some a => Some (at_values a) | None => None end.

Definition attrs_list (s : struct) : list attribute := match s_attrs s with Some l => l | None => [] end.

Definition spec_initializers (s : struct) : list (avalue * avalue) :=
  flat_map (fun a => if String.eqb "initializes" (at_name a) then match at_values a with t :: v :: _ => [(t, v)] | _ => [] end else [])
           (attrs_list s).

(* the value of the first initializer that targets the name *)
Definition spec_value (s : struct) (name : avalue) : option avalue :=
  match find (fun i => av_eqb name (fst i)) (spec_initializers s) with Some i => Some (snd i) | None => None end.

(* the type of the first member of that name *)
Definition spec_member_type (s : struct) (name : avalue) : option ftype :=
  match find (fun f => match f with Field n _ _ _ _ _ => av_eqb name (AvStr n) | _ => false end) (s_fields s) with
  | Some (Field _ t _ _ _ _) => Some t
  | _ => None
  end.

Definition expanded (s : struct) : Prop := forall t c, ~ In (InlinePlaceholder t c) (s_fields s).

(* a descendant carries its discriminator, well-formed initializers and, for every discriminator name, an initializer and a member *)
Definition carries (s : struct) : Prop :=
  expanded s /\
  (forall a, In a (attrs_list s) -> at_name a = "initializes" -> (2 <= length (at_values a))%nat) /\
  exists names, spec_discriminator s = Some names /\
    forall n, In n names -> spec_value s n <> None /\ spec_member_type s n <> None.

(* ---- model vs specification ---- *)

Lemma inits_of_spec l inits : inits_of l = Ok inits ->
  inits = flat_map (fun a => if String.eqb "initializes" (at_name a) then match at_values a with t :: v :: _ => [(t, v)] | _ => [] end else []) l.
Proof.
  revert inits. induction l as [|a l IH]; simpl; intros inits H.
  - inversion H. reflexivity.
  - unfold attr_initializes, init_target_idx, init_value_idx in H.
    destruct (String.eqb "initializes" (at_name a)).
    + destruct (at_values a) as [|t [|v rest]]; simpl in H; try discriminate.
      destruct (inits_of l) as [r| |k]; simpl in H; try discriminate.
      inversion H; subst. simpl. f_equal. apply IH. reflexivity.
    + simpl. apply IH. exact H.
Qed.

Lemma struct_initializers_spec s inits : struct_initializers s = Ok inits -> inits = spec_initializers s.
Proof.
  unfold struct_initializers, spec_initializers, attrs_list. destruct (s_attrs s) as [l|].
  - apply inits_of_spec.
  - intro H. inversion H. reflexivity.
Qed.

Lemma inits_of_ok l : (forall a, In a l -> at_name a = "initializes" -> (2 <= length (at_values a))%nat) -> exists inits, inits_of l = Ok inits.
Proof.
  induction l as [|a l IH]; simpl; intro H.
  - eexists. reflexivity.
  - destruct IH as [r Hr]; [intros; apply H; auto|].
    unfold attr_initializes, init_target_idx, init_value_idx.
    destruct (String.eqb_spec "initializes" (at_name a)) as [E|E].
    + specialize (H a (or_introl eq_refl) (eq_sym E)).
      destruct (at_values a) as [|t [|v rest]]; simpl in H; try lia. simpl. rewrite Hr. simpl. eexists. reflexivity.
    + exists r. exact Hr.
Qed.

Lemma member_type_spec name fs t : member_type name fs = Ok t ->
  match find (fun f => match f with Field n _ _ _ _ _ => av_eqb name (AvStr n) | _ => false end) fs with
  | Some (Field _ t' _ _ _ _) => Some t' | _ => None end = Some t.
Proof.
  induction fs as [|f fs IH]; simpl; intro H; [discriminate|].
  destruct f as [n ty v d a c|tn c]; [|discriminate].
  unfold bfm_field_match in H. simpl in H. destruct (av_eqb name (AvStr n)); [inversion H; reflexivity | apply IH; exact H].
Qed.

Lemma member_type_ok name fs : (forall t c, ~ In (InlinePlaceholder t c) fs) ->
  find (fun f => match f with Field n _ _ _ _ _ => av_eqb name (AvStr n) | _ => false end) fs <> None -> exists t, member_type name fs = Ok t.
Proof.
  induction fs as [|f fs IH]; simpl; intros Hx Hf; [congruence|].
  destruct f as [n ty v d a c|tn c]; [|exfalso; eapply Hx; left; reflexivity].
  unfold bfm_field_match. simpl. destruct (av_eqb name (AvStr n)); [eexists; reflexivity|].
  apply IH; [intros t0 c0 H0; eapply Hx; right; exact H0 | exact Hf].
Qed.

Definition with_children (fd : fdesc) (l : list struct) : fdesc :=
  {| fd_names := fd_names fd; fd_values := fd_values fd; fd_types := fd_types fd; fd_children := l |}.

Lemma make_desc_spec s fd : make_desc s = Ok fd ->
  spec_discriminator s = Some (fd_names fd) /\ map (spec_value s) (fd_names fd) = map Some (fd_values fd)
  /\ map (spec_member_type s) (fd_names fd) = map Some (fd_types fd) /\ fd_children fd = [].
Proof.
  unfold make_desc, struct_discriminator, spec_discriminator, attr_discriminator.
  destruct (find_attr (s_attrs s) "discriminator") as [a|]; [|discriminate].
  set (names := at_values a).
  destruct (match names with [] => Ok [] | _ :: _ => bind (struct_initializers s) (fun inits => mapM (init_value inits) names) end)
    as [values| |k] eqn:EV; simpl; try discriminate.
  destruct (mapM (fun n => member_type n (s_fields s)) names) as [types| |k] eqn:ET; simpl; try discriminate.
  intro H. inversion H; subst; simpl. clear H. repeat split.
  - destruct names as [|n0 names'] eqn:EN; [inversion EV; reflexivity|]. rewrite <- EN in *.
    destruct (struct_initializers s) as [inits| |k] eqn:EI; simpl in EV; try discriminate.
    apply struct_initializers_spec in EI. subst inits. apply mapM_ok in EV.
    clear EN ET. revert values EV. induction names as [|n ns IH]; intros values EV; destruct values as [|v vs]; simpl in *; try discriminate; [reflexivity|].
    inversion EV as [[E1 E2]]. f_equal; [|apply IH; exact E2].
    unfold init_value, bfm_init_match in E1. simpl in E1. unfold spec_value.
    destruct (find (fun i => av_eqb n (fst i)) (spec_initializers s)); [inversion E1; reflexivity | discriminate].
  - apply mapM_ok in ET. clear EV. revert types ET. induction names as [|n ns IH]; intros types ET; destruct types as [|t ts]; simpl in *; try discriminate; [reflexivity|].
    inversion ET as [[E1 E2]]. f_equal; [|apply IH; exact E2].
    apply member_type_spec in E1. exact E1.
Qed.

Lemma make_desc_ok s : carries s -> exists fd, make_desc s = Ok fd.
Proof.
  intros [Hexp [Hwf [names [Hd Hn]]]].
  unfold make_desc, struct_discriminator, attr_discriminator. unfold spec_discriminator in Hd.
  destruct (find_attr (s_attrs s) "discriminator") as [a|]; [|discriminate]. inversion Hd; subst names. clear Hd.
  assert (HV : exists values, match at_values a with [] => Ok [] | _ :: _ => bind (struct_initializers s) (fun inits => mapM (init_value inits) (at_values a)) end = Ok values).
  { destruct (at_values a) as [|n0 ns] eqn:EN; [eexists; reflexivity|]. rewrite <- EN in *.
    destruct (inits_of_ok (attrs_list s) Hwf) as [inits Hi].
    assert (HI : struct_initializers s = Ok inits).
    { unfold struct_initializers. unfold attrs_list in Hi. destruct (s_attrs s); [exact Hi | simpl in Hi; exact Hi]. }
    rewrite HI. simpl. apply struct_initializers_spec in HI. subst inits.
    apply mapM_all_ok. intros n Hin. destruct (Hn n Hin) as [Hv _].
    unfold init_value, bfm_init_match. simpl. unfold spec_value in Hv.
    destruct (find (fun i => av_eqb n (fst i)) (spec_initializers s)); [eexists; reflexivity | congruence]. }
  destruct HV as [values HV]. rewrite HV. simpl.
  assert (HT : exists types, mapM (fun n => member_type n (s_fields s)) (at_values a) = Ok types).
  { apply mapM_all_ok. intros n Hin. destruct (Hn n Hin) as [_ Ht]. apply member_type_ok; [exact Hexp|].
    unfold spec_member_type in Ht. intro F. rewrite F in Ht. congruence. }
  destruct HT as [types HT]. rewrite HT. simpl. eexists. reflexivity.
Qed.

(* the factory map as a partial function on keys *)
Definition fm_get (k : string) (m : fmap) : option fdesc :=
  match find (fun e => String.eqb (fst e) k) m with Some e => Some (snd e) | None => None end.

Lemma fm_has_mem k m : fm_has k m = mem k (map fst m).
Proof.
  unfold fm_has, mem. induction m as [|e m IH]; simpl; [reflexivity|].
  rewrite IH. f_equal. apply String.eqb_sym.
Qed.

Lemma fm_get_none k m : fm_get k m = None <-> fm_has k m = false.
Proof.
  unfold fm_get, fm_has. induction m as [|e m IH]; simpl; [tauto|].
  destruct (String.eqb (fst e) k); simpl; [split; discriminate | exact IH].
Qed.

Lemma fm_get_In k fd m : NoDup (map fst m) -> In (k, fd) m -> fm_get k m = Some fd.
Proof.
  unfold fm_get. induction m as [|e m IH]; simpl; intros Hn Hin; [contradiction|].
  inversion Hn as [|? ? Hnot Hrest]; subst.
  destruct Hin as [->|Hin]; simpl.
  - rewrite String.eqb_refl. reflexivity.
  - destruct (String.eqb_spec (fst e) k) as [E|E].
    + exfalso. apply Hnot. rewrite E. change k with (fst (k, fd)). apply in_map. exact Hin.
    + apply IH; assumption.
Qed.

Lemma keys_add_child k s m : map fst (fm_add_child k s m) = map fst m.
Proof.
  unfold fm_add_child. rewrite map_map. apply map_ext. intro e. destruct (String.eqb (fst e) k); reflexivity.
Qed.

Lemma fm_get_add_child k k0 s m :
  fm_get k (fm_add_child k0 s m) = if String.eqb k k0 then option_map (fd_add_child s) (fm_get k m) else fm_get k m.
Proof.
  unfold fm_get, fm_add_child. induction m as [|e m IH]; simpl.
  - destruct (String.eqb k k0); reflexivity.
  - destruct (String.eqb_spec (fst e) k0) as [E0|E0]; simpl.
    + destruct (String.eqb_spec (fst e) k) as [E|E]; simpl.
      * subst. rewrite String.eqb_refl. reflexivity.
      * exact IH.
    + destruct (String.eqb_spec (fst e) k) as [E|E]; simpl.
      * subst. destruct (String.eqb_spec (fst e) k0); [contradiction | reflexivity].
      * exact IH.
Qed.

Lemma fm_get_snoc k k0 fd m :
  fm_get k (m ++ [(k0, fd)]) = match fm_get k m with Some x => Some x | None => if String.eqb k0 k then Some fd else None end.
Proof.
  unfold fm_get. induction m as [|e m IH]; simpl.
  - destruct (String.eqb k0 k); reflexivity.
  - destruct (String.eqb (fst e) k); [reflexivity | exact IH].
Qed.

Lemma with_children_id fd : with_children fd (fd_children fd) = fd.
Proof. destruct fd; reflexivity. Qed.

Definition no_empty_factory (ds : list decl) : Prop := forall s, In (DStruct s) ds -> s_factory_type s <> Some "".

Lemma factory_name_spec s : s_factory_type s <> Some "" -> factory_name s = s_factory_type s.
Proof.
  unfold factory_name. destruct (s_factory_type s) as [f|]; [|reflexivity].
  intro H. destruct (String.eqb_spec f ""); [subst; contradiction | reflexivity].
Qed.

Lemma bfm_not_skipped s : bfm_skip_conn (cmp bfm_skip_cmp dt_struct (decl_dt (DStruct s))) false = false.
Proof. reflexivity. Qed.

(* what one pass over the declarations does to the descriptor of key k *)
Definition after_pass (ds : list decl) (m : fmap) (k : string) : option fdesc :=
  match fm_get k m with
  | Some fd => Some (with_children fd (fd_children fd ++ filter (has_factory k) (structs_of ds)))
  | None =>
    match find (has_factory k) (structs_of ds) with
    | Some c => match make_desc c with Ok fd0 => Some (with_children fd0 (filter (has_factory k) (structs_of ds))) | _ => None end
    | None => None
    end
  end.

Lemma bfm_loop_get ds : forall m m', no_empty_factory ds -> bfm_loop ds m = Ok m' -> forall k, fm_get k m' = after_pass ds m k.
Proof.
  induction ds as [|d r IH]; intros m m' Hne H k.
  - simpl in H. inversion H; subst. unfold after_pass. simpl.
    destruct (fm_get k m') as [fd|]; [|reflexivity]. rewrite app_nil_r, with_children_id. reflexivity.
  - assert (Hne' : no_empty_factory r) by (intros s Hs; apply Hne; right; exact Hs).
    destruct d as [n l c|n b vs a c|s].
    + simpl in H. rewrite (IH _ _ Hne' H k). reflexivity.
    + simpl in H. rewrite (IH _ _ Hne' H k). reflexivity.
    + simpl in H. rewrite (factory_name_spec s (Hne s (or_introl eq_refl))) in H.
      unfold after_pass. change (structs_of (DStruct s :: r)) with (s :: structs_of r). simpl filter. simpl find.
      destruct (s_factory_type s) as [k0|] eqn:EF.
      2:{ assert (HF : has_factory k s = false) by (unfold has_factory; rewrite EF; reflexivity).
          rewrite HF. rewrite (IH _ _ Hne' H k). reflexivity. }
      assert (HF : has_factory k s = String.eqb k0 k) by (unfold has_factory; rewrite EF; reflexivity).
      rewrite HF. clear HF.

      destruct (fm_has k0 m) eqn:EH; simpl in H.
      * (* key present: only the child is appended *)
        rewrite (IH _ _ Hne' H k). unfold after_pass. rewrite fm_get_add_child.
        destruct (String.eqb_spec k k0) as [E|E].
        -- subst k0. rewrite String.eqb_refl.
           destruct (fm_get k m) as [fd|] eqn:EG; [|apply fm_get_none in EG; congruence].
           simpl. unfold with_children, fd_add_child. simpl. rewrite <- app_assoc. reflexivity.
        -- destruct (String.eqb_spec k0 k) as [E'|E']; [symmetry in E'; contradiction|]. reflexivity.
      * (* new key: the descriptor is seeded from this struct *)
        destruct (make_desc s) as [fd0| |kk] eqn:EM; simpl in H; try discriminate.
        rewrite (IH _ _ Hne' H k). unfold after_pass. rewrite fm_get_add_child, fm_get_snoc.
        apply fm_get_none in EH.
        destruct (String.eqb_spec k k0) as [E|E].
        -- subst k0. rewrite EH, String.eqb_refl. simpl. rewrite EM.
           destruct (make_desc_spec _ _ EM) as [_ [_ [_ Hc]]].
           unfold with_children, fd_add_child. simpl. rewrite Hc. reflexivity.
        -- destruct (String.eqb_spec k0 k) as [E'|E']; [symmetry in E'; contradiction|].
           destruct (fm_get k m); reflexivity.
Qed.

Lemma mem_app x l1 l2 : mem x (l1 ++ l2) = mem x l1 || mem x l2.
Proof. unfold mem. apply existsb_app. Qed.

Lemma bfm_loop_keys ds : forall m m', no_empty_factory ds -> bfm_loop ds m = Ok m' ->
  map fst m' = map fst m ++ filter (fun y => negb (mem y (map fst m))) (first_occurrences (factory_types ds)).
Proof.
  induction ds as [|d r IH]; intros m m' Hne H.
  - simpl in H. inversion H; subst. simpl. rewrite app_nil_r. reflexivity.
  - assert (Hne' : no_empty_factory r) by (intros s Hs; apply Hne; right; exact Hs).
    destruct d as [n l c|n b vs a c|s].
    + simpl in H. exact (IH _ _ Hne' H).
    + simpl in H. exact (IH _ _ Hne' H).
    + simpl in H. rewrite (factory_name_spec s (Hne s (or_introl eq_refl))) in H.
      unfold factory_types. change (structs_of (DStruct s :: r)) with (s :: structs_of r). simpl flat_map.
      fold (factory_types r).
      destruct (s_factory_type s) as [k0|] eqn:EF; [|exact (IH _ _ Hne' H)].
      simpl app. simpl first_occurrences. simpl filter.
      rewrite filter_filter.
      destruct (fm_has k0 m) eqn:EH; simpl in H.
      * rewrite (IH _ _ Hne' H). rewrite keys_add_child. rewrite fm_has_mem in EH. rewrite EH. simpl. f_equal.
        apply filter_ext_in. intros y _. destruct (mem y (map fst m)) eqn:EY; simpl; [reflexivity|].
        destruct (String.eqb_spec k0 y) as [E|E]; [subst; congruence | reflexivity].
      * destruct (make_desc s) as [fd0| |kk]; simpl in H; try discriminate.
        rewrite (IH _ _ Hne' H). rewrite keys_add_child. rewrite fm_has_mem in EH. rewrite EH. simpl.
        rewrite map_app. simpl. rewrite <- app_assoc. simpl. do 2 f_equal.
        apply filter_ext. intro y. rewrite mem_app. simpl. unfold mem at 2. simpl.
        rewrite orb_false_r, negb_orb. rewrite (String.eqb_sym y k0). reflexivity.
Qed.

Lemma first_occurrences_In x l : In x (first_occurrences l) <-> In x l.
Proof.
  induction l as [|a l IH]; simpl; [tauto|].
  rewrite filter_In, IH. destruct (String.eqb_spec a x) as [E|E]; simpl; split; intros; tauto.
Qed.

Lemma NoDup_filter {A} (p : A -> bool) l : NoDup l -> NoDup (filter p l).
Proof.
  induction 1 as [|a l Hn Hd IH]; simpl; [constructor|].
  destruct (p a); [constructor; [rewrite filter_In; tauto | exact IH] | exact IH].
Qed.

Lemma first_occurrences_NoDup l : NoDup (first_occurrences l).
Proof.
  induction l as [|a l IH]; simpl; constructor.
  - rewrite filter_In. rewrite String.eqb_refl. simpl. intros [_ H]. discriminate.
  - apply NoDup_filter. exact IH.
Qed.

Lemma bfm_loop_ok ds : forall m, (forall s, In (DStruct s) ds -> s_factory_type s <> None -> carries s) -> exists m', bfm_loop ds m = Ok m'.
Proof.
  induction ds as [|d r IH]; intros m Hc.
  - eexists. reflexivity.
  - assert (Hc' : forall s, In (DStruct s) r -> s_factory_type s <> None -> carries s) by (intros s Hs; apply Hc; right; exact Hs).
    destruct d as [n l c|n b vs a c|s]; simpl; try (apply IH; exact Hc').
    destruct (factory_name s) as [k0|] eqn:EF; [|apply IH; exact Hc'].
    destruct (fm_has k0 m); simpl; [apply IH; exact Hc'|].
    destruct (make_desc_ok s) as [fd Hfd].
    { apply Hc; [left; reflexivity|]. unfold factory_name in EF. destruct (s_factory_type s); congruence. }
    rewrite Hfd. simpl. apply IH. exact Hc'.
Qed.

(* the statement used by Props/C18.v *)
Lemma factory_map_spec ds m : no_empty_factory ds -> build_factory_map ds = Ok m ->
  map fst m = first_occurrences (factory_types ds)
  /\ forall k fd, In (k, fd) m ->
       fd_children fd = filter (has_factory k) (structs_of ds)
       /\ exists c, find (has_factory k) (structs_of ds) = Some c
            /\ spec_discriminator c = Some (fd_names fd)
            /\ map (spec_value c) (fd_names fd) = map Some (fd_values fd)
            /\ map (spec_member_type c) (fd_names fd) = map Some (fd_types fd).
Proof.
  intros Hne H. unfold build_factory_map in H.
  pose proof (bfm_loop_keys _ _ _ Hne H) as HK. simpl in HK.
  assert (HK' : map fst m = first_occurrences (factory_types ds)).
  { rewrite HK. clear. induction (first_occurrences (factory_types ds)) as [|a l IH]; simpl; [reflexivity | f_equal; exact IH]. }
  split; [exact HK'|].
  intros k fd Hin.
  assert (HG : fm_get k m = Some fd) by (apply fm_get_In; [rewrite HK'; apply first_occurrences_NoDup | exact Hin]).
  rewrite (bfm_loop_get _ _ _ Hne H k) in HG. unfold after_pass in HG. simpl in HG.
  destruct (find (has_factory k) (structs_of ds)) as [c|]; [|discriminate].
  destruct (make_desc c) as [fd0| |kk] eqn:EM; try discriminate.
  inversion HG; subst fd. simpl. split; [reflexivity|]. exists c. split; [reflexivity|].
  destruct (make_desc_spec _ _ EM) as [H1 [H2 [H3 _]]]. auto.
Qed.

Lemma factory_map_no_crash ds : (forall s, In (DStruct s) ds -> s_factory_type s <> None -> carries s) -> exists m, build_factory_map ds = Ok m.
Proof. intro H. apply bfm_loop_ok. exact H. Qed.

(* ================================================================================================================== *)
(* Part 2: _process_struct / _bind_size_fields *)

(* ---- specification (fixed text) ---- *)

(* position of the first member of that name *)
Fixpoint first_index (name : string) (fs : list field) : option nat :=
  match fs with
  | [] => None
  | Field n _ _ _ _ _ :: r => if String.eqb name n then Some 0%nat else option_map S (first_index name r)
  | InlinePlaceholder _ _ :: r => option_map S (first_index name r)
  end.

(* an array whose size is a member name (count or byte size) / a sizeof member and its target *)
Definition spec_size_name (f : field) : option string :=
  match f with Field _ (FArray a) _ _ _ _ => match a_size a with SzName sn => Some sn | _ => None end | _ => None end.
Definition spec_sizeof_target (f : field) : option string :=
  match f with Field _ _ (VName x) DispSizeof _ _ => Some x | _ => None end.

Definition indexed_from {A} (j : nat) (l : list A) : list (nat * A) := combine (seq j (length l)) l.

(* what member i is bound to, in declaration order of the binders: each array whose size names i binds it to that array; a sizeof
   member binds itself to its target.  The last binder wins. *)
Definition spec_bound_candidates (fs : list field) (i : nat) : list nat :=
  flat_map (fun jf =>
    (match spec_size_name (snd jf) with
     | Some sn => match first_index sn fs with Some i' => if Nat.eqb i' i then [fst jf] else [] | None => [] end
     | None => [] end)
    ++ (match spec_sizeof_target (snd jf) with
        | Some x => if Nat.eqb (fst jf) i then match first_index x fs with Some t => [t] | None => [] end else []
        | None => [] end)) (indexed_from 0 fs).
Definition last_opt {A} (l : list A) : option A := match l with [] => None | a :: r => Some (last r a) end.
Definition spec_bound (fs : list field) (i : nat) : option nat := last_opt (spec_bound_candidates fs i).

(* the sizeof members that measure member i, in declaration order *)
Definition spec_size_fields (fs : list field) (i : nat) : list nat :=
  flat_map (fun jf =>
    match spec_sizeof_target (snd jf) with
    | Some x => match first_index x fs with Some t => if Nat.eqb t i then [fst jf] else [] | None => [] end
    | None => [] end) (indexed_from 0 fs).

(* an array member whose element type is an abstract struct *)
Definition spec_contents_abstract (ds : list decl) (f : field) : bool :=
  match f with
  | Field _ (FArray a) _ _ _ _ =>
    match a_elem a with
    | ElName en => match lookup ds en with Some (DStruct e) => match s_disp e with SdAbstract => true | _ => false end | _ => false end
    | ElInt _ => false
    end
  | _ => false
  end.

(* the model a member's serializer is taken from: the named model for a member of a declared type, else the member itself *)
Definition spec_type_model (ds : list decl) (f : field) : option string :=
  match f with
  | Field _ (FName tn) _ _ _ _ => match lookup ds tn with Some _ => Some tn | None => None end
  | _ => None
  end.

(* every array size name and sizeof target names a member *)
Definition sizes_resolve (fs : list field) : Prop :=
  forall f, In f fs ->
    (forall sn, spec_size_name f = Some sn -> first_index sn fs <> None)
    /\ (match f with Field _ _ v DispSizeof _ _ => exists x, v = VName x /\ first_index x fs <> None | _ => True end).

(* ---- model vs specification ---- *)

Lemma filter_flat_map {A B} (p : B -> bool) (f : A -> list B) l : filter p (flat_map f l) = flat_map (fun x => filter p (f x)) l.
Proof. induction l as [|a l IH]; simpl; [reflexivity|]. rewrite filter_app, IH. reflexivity. Qed.

Lemma map_flat_map {A B C} (g : B -> C) (f : A -> list B) l : map g (flat_map f l) = flat_map (fun x => map g (f x)) l.
Proof. induction l as [|a l IH]; simpl; [reflexivity|]. rewrite map_app, IH. reflexivity. Qed.

Lemma field_index_first name fs : forall k i, field_index name fs k = Ok i -> exists i0, first_index name fs = Some i0 /\ i = (k + i0)%nat.
Proof.
  induction fs as [|f fs IH]; simpl; intros k i H; [discriminate|].
  destruct f as [n t v d a c|tn c]; [|discriminate].
  simpl in H. destruct (String.eqb name n).
  - inversion H. exists 0%nat. split; [reflexivity | lia].
  - destruct (IH _ _ H) as [i0 [H0 H1]]. rewrite H0. exists (S i0). split; [reflexivity | lia].
Qed.

Lemma field_index_ok name fs : (forall t c, ~ In (InlinePlaceholder t c) fs) -> first_index name fs <> None -> forall k, exists i, field_index name fs k = Ok i.
Proof.
  induction fs as [|f fs IH]; simpl; intros Hx Hf k; [congruence|].
  destruct f as [n t v d a c|tn c]; [|exfalso; eapply Hx; left; reflexivity].
  simpl. destruct (String.eqb name n); [eexists; reflexivity|].
  apply IH; [intros t0 c0 H0; eapply Hx; right; exact H0|]. destruct (first_index name fs); simpl in Hf; congruence.
Qed.

Lemma is_array_FArray a : is_array_dt (array_dt a) = true.
Proof.
  unfold array_dt. destruct (a_elem a) as [i|en]; [|reflexivity].
  destruct (cmp arr_byte_elem_cmp arr_byte_elem_size (it_size i)); reflexivity.
Qed.

Definition events_bound (all : list field) (jfs : list (nat * field)) : list (nat * nat) :=
  flat_map (fun jf =>
    (match spec_size_name (snd jf) with
     | Some sn => match first_index sn all with Some i => [(i, fst jf)] | None => [] end
     | None => [] end)
    ++ (match spec_sizeof_target (snd jf) with
        | Some x => match first_index x all with Some t => [(fst jf, t)] | None => [] end
        | None => [] end)) jfs.
Definition events_sizes (all : list field) (jfs : list (nat * field)) : list (nat * nat) :=
  flat_map (fun jf =>
    match spec_sizeof_target (snd jf) with
    | Some x => match first_index x all with Some t => [(t, fst jf)] | None => [] end
    | None => [] end) jfs.

Lemma spec_size_name_model n t v d a c : spec_size_name (Field n t v d a c) = size_name t.
Proof. destruct t; reflexivity. Qed.

Lemma events_bound_cons all j f rest : events_bound all ((j, f) :: rest) =
  ((match spec_size_name f with Some sn => match first_index sn all with Some i => [(i, j)] | None => [] end | None => [] end)
   ++ (match spec_sizeof_target f with Some x => match first_index x all with Some t => [(j, t)] | None => [] end | None => [] end))
  ++ events_bound all rest.
Proof. reflexivity. Qed.

Lemma events_sizes_cons all j f rest : events_sizes all ((j, f) :: rest) =
  (match spec_sizeof_target f with Some x => match first_index x all with Some t => [(t, j)] | None => [] end | None => [] end)
  ++ events_sizes all rest.
Proof. reflexivity. Qed.

Lemma indexed_from_cons {A} j (f : A) fs : indexed_from j (f :: fs) = (j, f) :: indexed_from (S j) fs.
Proof. reflexivity. Qed.

Lemma bind_loop_events all fs : forall j b b', bind_loop all fs j b = Ok b' ->
  b_bound b' = b_bound b ++ events_bound all (indexed_from j fs) /\ b_sizes b' = b_sizes b ++ events_sizes all (indexed_from j fs).
Proof.
  induction fs as [|f fs IH]; intros j b b' H.
  - simpl in H. inversion H; subst. unfold indexed_from. simpl. rewrite !app_nil_r. auto.
  - destruct f as [n t v d a c|tn c]; [|discriminate].
    rewrite indexed_from_cons, events_bound_cons, events_sizes_cons.
    rewrite spec_size_name_model.
    simpl in H.
    (* the array part *)
    destruct (match size_name t with
              | Some sn => if bsf_array_conn (is_array_dt (ftype_dt t)) true
                           then bind (field_index sn all 0) (fun i => Ok {| b_bound := b_bound b ++ [(i, j)]; b_sizes := b_sizes b |}) else Ok b
              | None => Ok b end) as [b1| |k] eqn:E1; simpl in H; try discriminate.
    assert (H1 : b_bound b1 = b_bound b ++ match size_name t with Some sn => match first_index sn all with Some i => [(i, j)] | None => [] end | None => [] end
                 /\ b_sizes b1 = b_sizes b).
    { destruct (size_name t) as [sn|] eqn:ES.
      - assert (HA : is_array_dt (ftype_dt t) = true) by (destruct t; try discriminate; simpl; apply is_array_FArray).
        rewrite HA in E1. simpl in E1.
        destruct (field_index sn all 0) as [i| |k] eqn:EI; simpl in E1; try discriminate.
        destruct (field_index_first _ _ _ _ EI) as [i0 [F0 F1]]. simpl in F1. subst i0. rewrite F0.
        inversion E1; subst. simpl. auto.
      - inversion E1; subst. rewrite app_nil_r. auto. }
    destruct H1 as [H1a H1b].
    (* the sizeof part *)
    destruct (match d with
              | DispSizeof => match v with
                              | VName x => bind (field_index x all 0) (fun i => Ok {| b_bound := b_bound b1 ++ [(j, i)]; b_sizes := b_sizes b1 ++ [(i, j)] |})
                              | _ => Crash "StopIteration" end
              | _ => Ok b1 end) as [b2| |k] eqn:E2; simpl in H; try discriminate.
    assert (H2 : b_bound b2 = b_bound b1 ++ match spec_sizeof_target (Field n t v d a c) with
                                            | Some x => match first_index x all with Some t0 => [(j, t0)] | None => [] end | None => [] end
                 /\ b_sizes b2 = b_sizes b1 ++ match spec_sizeof_target (Field n t v d a c) with
                                               | Some x => match first_index x all with Some t0 => [(t0, j)] | None => [] end | None => [] end).
    { destruct d; try (inversion E2; subst; destruct v; simpl; rewrite !app_nil_r; auto).
      destruct v as [|z|x|cd]; try discriminate. simpl.
      destruct (field_index x all 0) as [i| |k] eqn:EI; simpl in E2; try discriminate.
      destruct (field_index_first _ _ _ _ EI) as [i0 [F0 F1]]. simpl in F1. subst i0. rewrite F0.
      inversion E2; subst. simpl. auto. }
    destruct H2 as [H2a H2b].
    destruct (IH _ _ _ H) as [I1 I2]. rewrite I1, I2, H2a, H2b, H1a, H1b.
    rewrite <- !app_assoc. auto.
Qed.

Lemma last_map' {A B} (g : A -> B) l d : last (map g l) (g d) = g (last l d).
Proof. induction l as [|a l IH]; [reflexivity|]. destruct l as [|b l]; [reflexivity | exact IH]. Qed.

Lemma last_cons_default {A} (l : list A) : forall a d, last (a :: l) d = last l a.
Proof.
  induction l as [|b l IH]; intros a d; [reflexivity|].
  change (last (a :: b :: l) d) with (last (b :: l) d). rewrite (IH b d), (IH b a). reflexivity.
Qed.

Lemma last_opt_map {A B} (g : A -> B) (l : list A) (d : A) :
  match l with [] => None | _ => Some (g (last l d)) end = last_opt (map g l).
Proof.
  destruct l as [|a l]; [reflexivity|]. simpl map. unfold last_opt. rewrite last_map', last_cons_default. reflexivity.
Qed.

Lemma bound_of_eq b i : bound_of b i = last_opt (map snd (filter (fun e => Nat.eqb (fst e) i) (b_bound b))).
Proof.
  unfold bound_of. destruct (filter (fun e => Nat.eqb (fst e) i) (b_bound b)) as [|a l]; [reflexivity|].
  simpl map. unfold last_opt. rewrite last_map', last_cons_default. reflexivity.
Qed.

Lemma bind_spec_lemma fs b : bind_size_fields fs = Ok b -> forall i, bound_of b i = spec_bound fs i /\ sizes_of b i = spec_size_fields fs i.
Proof.
  intros H i. unfold bind_size_fields in H. destruct (bind_loop_events _ _ _ _ _ H) as [HB HS]. simpl in HB, HS.
  rewrite bound_of_eq. unfold sizes_of, spec_bound, spec_size_fields. rewrite HB, HS. split.
  - f_equal. unfold events_bound, spec_bound_candidates.
    rewrite filter_flat_map, map_flat_map. apply flat_map_ext. intros [j f]. simpl fst. simpl snd.
    rewrite filter_app, map_app. f_equal.
    + destruct (spec_size_name f) as [sn|]; [|reflexivity]. destruct (first_index sn fs) as [i'|]; [|reflexivity].
      simpl. destruct (Nat.eqb i' i); reflexivity.
    + destruct (spec_sizeof_target f) as [x|]; [|reflexivity]. destruct (first_index x fs) as [t|].
      * simpl. destruct (Nat.eqb j i); reflexivity.
      * destruct (Nat.eqb j i); reflexivity.
  - unfold events_sizes. rewrite filter_flat_map, map_flat_map. apply flat_map_ext. intros [j f]. simpl fst. simpl snd.
    destruct (spec_sizeof_target f) as [x|]; [|reflexivity]. destruct (first_index x fs) as [t|]; [|reflexivity].
    simpl. destruct (Nat.eqb t i); reflexivity.
Qed.

Lemma bind_loop_ok all fs : (forall t c, ~ In (InlinePlaceholder t c) all) ->
  (forall f, In f fs ->
    (forall sn, spec_size_name f = Some sn -> first_index sn all <> None)
    /\ (match f with Field _ _ v DispSizeof _ _ => exists x, v = VName x /\ first_index x all <> None | _ => True end)) ->
  (forall t c, ~ In (InlinePlaceholder t c) fs) ->
  forall j b, exists b', bind_loop all fs j b = Ok b'.
Proof.
  intros Hall. induction fs as [|f fs IH]; intros Hres Hx j b; [eexists; reflexivity|].
  destruct f as [n t v d a c|tn c]; [|exfalso; eapply Hx; left; reflexivity].
  destruct (Hres _ (or_introl eq_refl)) as [R1 R2].
  assert (IH' : forall j b, exists b', bind_loop all fs j b = Ok b').
  { apply IH; [intros f Hf; apply Hres; right; exact Hf | intros t0 c0 H0; eapply Hx; right; exact H0]. }
  simpl. rewrite spec_size_name_model in R1.
  assert (E1 : exists b1, match size_name t with
              | Some sn => if bsf_array_conn (is_array_dt (ftype_dt t)) true
                           then bind (field_index sn all 0) (fun i => Ok {| b_bound := b_bound b ++ [(i, j)]; b_sizes := b_sizes b |}) else Ok b
              | None => Ok b end = Ok b1).
  { destruct (size_name t) as [sn|]; [|eexists; reflexivity].
    destruct (bsf_array_conn (is_array_dt (ftype_dt t)) true); [|eexists; reflexivity].
    destruct (field_index_ok sn all Hall (R1 _ eq_refl) 0%nat) as [i Hi]. rewrite Hi. simpl. eexists. reflexivity. }
  destruct E1 as [b1 E1]. rewrite E1. simpl.
  assert (E2 : exists b2, match d with
              | DispSizeof => match v with
                              | VName x => bind (field_index x all 0) (fun i => Ok {| b_bound := b_bound b1 ++ [(j, i)]; b_sizes := b_sizes b1 ++ [(i, j)] |})
                              | _ => Crash "StopIteration" end
              | _ => Ok b1 end = Ok b2).
  { destruct d; try (eexists; reflexivity). destruct R2 as [x [-> Hf]].
    destruct (field_index_ok x all Hall Hf 0%nat) as [i Hi]. rewrite Hi. simpl. eexists. reflexivity. }
  destruct E2 as [b2 E2]. rewrite E2. simpl. apply IH'.
Qed.

Lemma decl_dt_struct_test d : cmp Eq dt_struct (decl_dt d) = match d with DStruct _ => true | _ => false end.
Proof. destruct d as [n l c|n b vs a c|s]; [destruct l|..]; reflexivity. Qed.

Lemma typed_array_test t : cmp ps_typed_cmp dt_typed_array (ftype_dt t) =
  match t with FArray a => match a_elem a with ElInt i => negb (1 =? it_size i)%Z | ElName _ => true end | _ => false end.
Proof.
  destruct t as [i|n|a]; try reflexivity. unfold ftype_dt, array_dt. destruct (a_elem a) as [i|en]; [|reflexivity].
  unfold arr_byte_elem_cmp, arr_byte_elem_size. unfold cmp at 2. destruct (1 =? it_size i)%Z; reflexivity.
Qed.

Lemma ps_field_ext ds s f M x M' : ps_field ds s f M = Ok (x, M') ->
  fx_abstract x = spec_contents_abstract ds f /\ fx_type_model x = spec_type_model ds f.
Proof.
  destruct f as [n t v d a c|tn c]; [|discriminate]. unfold ps_field. rewrite typed_array_test.
  destruct t as [i|tn|ar].
  - intro H. inversion H; subst. auto.
  - simpl. destruct (lookup ds tn) as [d0|] eqn:EL; intro H; inversion H; subst; simpl; [|auto].
    apply lookup_In in EL. destruct EL as [_ ->]. auto.
  - unfold elem_model, spec_contents_abstract, spec_type_model. destruct (a_elem ar) as [i|en] eqn:EA.
    + destruct (negb (1 =? it_size i)%Z); intro H; inversion H; subst; auto.
    + destruct (lookup ds en) as [e|]; [|intro H; inversion H; subst; auto].
      destruct e as [n0 [li|sz] c0|n0 b vs a0 c0|e]; simpl; intro H; inversion H; subst; auto.
Qed.

Lemma ps_fields_ext ds s fs : forall M exts M', ps_fields ds s fs M = Ok (exts, M') ->
  Forall2 (fun f x => fx_abstract x = spec_contents_abstract ds f /\ fx_type_model x = spec_type_model ds f) fs exts.
Proof.
  induction fs as [|f fs IH]; simpl; intros M exts M' H.
  - inversion H. constructor.
  - destruct (ps_field ds s f M) as [[x M1]| |k] eqn:E1; simpl in H; try discriminate.
    destruct (ps_fields ds s fs M1) as [[xs M2]| |k] eqn:E2; simpl in H; try discriminate.
    inversion H; subst. constructor; [eapply ps_field_ext; exact E1 | eapply IH; exact E2].
Qed.

(* what extend_models hands to the generators for one struct *)
Definition pstruct_ok (ds : list decl) (s : struct) (p : pstruct) : Prop :=
  p_name p = s_name s /\ p_fields p = s_fields s
  /\ Forall2 (fun f x => fx_abstract x = spec_contents_abstract ds f /\ fx_type_model x = spec_type_model ds f) (s_fields s) (p_exts p)
  /\ forall i, bound_of (p_binds p) i = spec_bound (s_fields s) i /\ sizes_of (p_binds p) i = spec_size_fields (s_fields s) i.

Lemma process_struct_ok ds s M p M' : process_struct ds s M = Ok (p, M') -> pstruct_ok ds s p.
Proof.
  unfold process_struct. destruct (ps_fields ds s (s_fields s) M) as [[exts M1]| |k] eqn:E1; simpl; try discriminate.
  destruct (bind_size_fields (s_fields s)) as [b| |k] eqn:E2; simpl; try discriminate.
  intro H. inversion H; subst. unfold pstruct_ok. simpl. repeat split.
  - eapply ps_fields_ext. exact E1.
  - apply (bind_spec_lemma _ _ E2).
  - apply (bind_spec_lemma _ _ E2).
Qed.

Lemma process_all_ok ds todo : forall M ps M', process_all ds todo M = Ok (ps, M') -> Forall2 (pstruct_ok ds) (structs_of todo) ps.
Proof.
  induction todo as [|d r IH]; simpl; intros M ps M' H.
  - inversion H. constructor.
  - destruct d as [n l c|n b vs a c|s]; try (eapply IH; exact H).
    simpl in H. destruct (process_struct ds s M) as [[p M1]| |k] eqn:E1; simpl in H; try discriminate.
    destruct (process_all ds r M1) as [[ps' M2]| |k] eqn:E2; simpl in H; try discriminate.
    inversion H; subst. change (structs_of (DStruct s :: r)) with (s :: structs_of r).
    constructor; [eapply process_struct_ok; exact E1 | eapply IH; exact E2].
Qed.

Lemma bind_spec_full ds order ps M : extend_models ds order = Ok (ps, M) -> Forall2 (pstruct_ok ds) (structs_of ds) ps.
Proof.
  unfold extend_models. destruct (process_all ds ds (initial_marks ds)) as [[ps' M1]| |k] eqn:E1; simpl; try discriminate.
  destruct (propagate_unaligned ds order M1) as [M2| |k]; simpl; try discriminate.
  intro H. inversion H; subst. eapply process_all_ok. exact E1.
Qed.

(* ================================================================================================================== *)
(* Part 3: requires_unaligned *)

(* ---- specification (fixed text) ---- *)

Definition spec_aligned (s : struct) : bool :=
  match find_attr (s_attrs s) "is_aligned" with Some a => attr_truthy a | None => false end.

(* rule 1: x is the (aligned, struct) element type of an array member of an unaligned struct *)
Definition base (ds : list decl) (x : string) : Prop :=
  exists s n a v d ats c en e,
    In (DStruct s) ds /\ spec_aligned s = false /\ In (Field n (FArray a) v d ats c) (s_fields s)
    /\ a_elem a = ElName en /\ lookup ds en = Some (DStruct e) /\ spec_aligned e = true /\ x = s_name e.

(* x is a struct that records the struct f as its factory type *)
Definition descendant_of (ds : list decl) (x f : string) : Prop :=
  exists s fs, lookup ds x = Some (DStruct s) /\ s_factory_type s = Some f /\ lookup ds f = Some (DStruct fs).

(* the struct x is the declared type of a member of the struct d *)
Definition struct_member_of (ds : list decl) (d x : string) : Prop :=
  exists s n v dp ats c xs, lookup ds d = Some (DStruct s) /\ In (Field n (FName x) v dp ats c) (s_fields s) /\ lookup ds x = Some (DStruct xs).

(* what the three rules demand when applied once, starting from rule 1 *)
Definition demanded (ds : list decl) (x : string) : Prop :=
  base ds x
  \/ (exists f, base ds f /\ descendant_of ds x f)
  \/ (exists f d, base ds f /\ descendant_of ds d f /\ struct_member_of ds d x).

(* the closure of a set under rule 2 (descendants of marked factories) and rule 3 (struct-typed members of those descendants) *)
Inductive closure (ds : list decl) (D : string -> Prop) : string -> Prop :=
| cl_base x : D x -> closure ds D x
| cl_desc x f : descendant_of ds x f -> closure ds D f -> closure ds D x
| cl_member x d f : descendant_of ds d f -> closure ds D f -> struct_member_of ds d x -> closure ds D x.

Definition fresh (ds : list decl) : Prop := forall s, In (DStruct s) ds -> s_requires_unaligned s = false.

(* `order` enumerates the set struct_names *)
Definition order_ok (ds : list decl) (order : list string) : Prop := forall x, In x order <-> In x (struct_names ds).

(* ---- model vs specification ---- *)

Lemma aligned_spec s : struct_is_aligned s = spec_aligned s.
Proof. reflexivity. Qed.

Definition add_all (l M : list string) : list string := fold_left (fun acc y => set_add y acc) l M.

Lemma add_all_In l : forall M y, In y (add_all l M) <-> In y M \/ In y l.
Proof.
  unfold add_all. induction l as [|a l IH]; simpl; intros M y; [tauto|].
  rewrite IH, set_add_In. split; intro H; intuition (subst; auto).
Qed.

Lemma add_all_NoDup l : forall M, NoDup M -> NoDup (add_all l M).
Proof. unfold add_all. induction l as [|a l IH]; simpl; intros M H; [exact H | apply IH, set_add_NoDup, H]. Qed.

Lemma add_all_length l : forall M, (length M <= length (add_all l M))%nat.
Proof.
  unfold add_all. induction l as [|a l IH]; simpl; intro M; [lia|].
  pose proof (set_add_length a M). pose proof (IH (set_add a M)). lia.
Qed.

(* rule 1 on one member *)
Definition field_base (ds : list decl) (s : struct) (f : field) : option string :=
  match f with
  | Field _ (FArray a) _ _ _ _ =>
    match a_elem a with
    | ElName en =>
      match lookup ds en with
      | Some (DStruct e) => if negb (spec_aligned s) && spec_aligned e then Some (s_name e) else None
      | _ => None
      end
    | ElInt _ => None
    end
  | _ => None
  end.

Definition add_opt (o : option string) (M : list string) : list string := match o with Some y => set_add y M | None => M end.

Lemma ps_field_marks ds s f M x M' : ps_field ds s f M = Ok (x, M') -> M' = add_opt (field_base ds s f) M.
Proof.
  destruct f as [n t v d a c|tn c]; [|discriminate]. unfold ps_field. rewrite typed_array_test.
  destruct t as [i|tn|ar].
  - intro H. inversion H; subst. reflexivity.
  - simpl. destruct (lookup ds tn); intro H; inversion H; subst; reflexivity.
  - unfold elem_model, field_base. destruct (a_elem ar) as [i|en] eqn:EA.
    + destruct (negb (1 =? it_size i)%Z); intro H; inversion H; subst; reflexivity.
    + destruct (lookup ds en) as [e|]; [|intro H; inversion H; subst; reflexivity].
      destruct e as [n0 [li|sz] c0|n0 b vs a0 c0|e]; simpl; intro H; inversion H; subst; try reflexivity.
      unfold ps_mark_conn. change (struct_is_aligned s) with (spec_aligned s). change (struct_is_aligned e) with (spec_aligned e).
      destruct (negb (spec_aligned s) && spec_aligned e); reflexivity.
Qed.

Lemma ps_fields_marks ds s fs : forall M exts M', ps_fields ds s fs M = Ok (exts, M') ->
  M' = fold_left (fun acc f => add_opt (field_base ds s f) acc) fs M.
Proof.
  induction fs as [|f fs IH]; simpl; intros M exts M' H.
  - inversion H. reflexivity.
  - destruct (ps_field ds s f M) as [[x M1]| |k] eqn:E1; simpl in H; try discriminate.
    destruct (ps_fields ds s fs M1) as [[xs M2]| |k] eqn:E2; simpl in H; try discriminate.
    inversion H; subst. apply ps_field_marks in E1. subst M1. eapply IH. exact E2.
Qed.

Lemma fold_add_opt_In {A} (g : A -> option string) l : forall M y,
  In y (fold_left (fun acc f => add_opt (g f) acc) l M) <-> In y M \/ exists f, In f l /\ g f = Some y.
Proof.
  induction l as [|a l IH]; simpl; intros M y.
  - split; [auto | intros [H|[f [[] _]]]; exact H].
  - rewrite IH. destruct (g a) as [z|] eqn:E; unfold add_opt at 1.
    + rewrite set_add_In. split.
      * intros [[->|H]|[f [Hf Hg]]]; [right; exists a; auto | auto | right; exists f; auto].
      * intros [H|[f [[->|Hf] Hg]]]; [auto | left; left; congruence | right; exists f; auto].
    + split.
      * intros [H|[f [Hf Hg]]]; [auto | right; exists f; auto].
      * intros [H|[f [[->|Hf] Hg]]]; [auto | congruence | right; exists f; auto].
Qed.

Lemma process_all_marks ds todo : forall M ps M', process_all ds todo M = Ok (ps, M') ->
  forall y, In y M' <-> In y M \/ exists s f, In (DStruct s) todo /\ In f (s_fields s) /\ field_base ds s f = Some y.
Proof.
  induction todo as [|d r IH]; simpl; intros M ps M' H y.
  - inversion H; subst. split; [auto | intros [H0|[s [f [[] _]]]]; exact H0].
  - assert (SKIP : forall M0, process_all ds r M0 = Ok (ps, M') -> (forall s, d <> DStruct s) ->
             (In y M' <-> In y M0 \/ exists s f, (d = DStruct s \/ In (DStruct s) r) /\ In f (s_fields s) /\ field_base ds s f = Some y)).
    { intros M0 H0 Hd. rewrite (IH _ _ _ H0 y). split.
      - intros [H1|[s [f [H1 H2]]]]; [auto | right; exists s, f; tauto].
      - intros [H1|[s [f [[H1|H1] H2]]]]; [auto | exfalso; eapply Hd; exact H1 | right; exists s, f; tauto]. }
    destruct d as [n l c|n b vs a c|s]; try (apply SKIP; [exact H | intros s0; discriminate]).
    simpl in H. unfold process_struct in H.
    destruct (ps_fields ds s (s_fields s) M) as [[exts M1]| |k] eqn:E1; simpl in H; try discriminate.
    destruct (bind_size_fields (s_fields s)) as [b| |k] eqn:E2; simpl in H; try discriminate.
    destruct (process_all ds r M1) as [[ps' M2]| |k] eqn:E3; simpl in H; try discriminate.
    inversion H; subst. rewrite (IH _ _ _ E3 y). apply ps_fields_marks in E1. subst M1. rewrite fold_add_opt_In. split.
    + intros [[H1|[f [Hf Hg]]]|[s0 [f [H1 H2]]]]; [auto | right; exists s, f; auto | right; exists s0, f; tauto].
    + intros [H1|[s0 [f [[H1|H1] [Hf Hg]]]]]; [auto | inversion H1; subst; left; right; exists f; auto | right; exists s0, f; auto].
Qed.

Lemma base_field_base ds x : base ds x <-> exists s f, In (DStruct s) ds /\ In f (s_fields s) /\ field_base ds s f = Some x.
Proof.
  split.
  - intros [s [n [a [v [d [ats [c [en [e [H1 [H2 [H3 [H4 [H5 [H6 H7]]]]]]]]]]]]]]].
    exists s, (Field n (FArray a) v d ats c). split; [exact H1|]. split; [exact H3|].
    simpl. rewrite H4, H5, H2, H6. simpl. congruence.
  - intros [s [f [H1 [H2 H3]]]]. destruct f as [n t v d ats c|tn c]; [|discriminate].
    destruct t as [i|tn|a]; try discriminate. simpl in H3.
    destruct (a_elem a) as [i|en] eqn:EA; [discriminate|].
    destruct (lookup ds en) as [[n0 l c0|n0 b vs a0 c0|e]|] eqn:EL; try discriminate.
    destruct (spec_aligned s) eqn:ES; simpl in H3; [discriminate|].
    destruct (spec_aligned e) eqn:EE; [|discriminate]. inversion H3; subst.
    exists s, n, a, v, d, ats, c, en, e. auto 10.
Qed.

(* -- one pass of _propagate_unaligned as pure functions (when it neither crashes nor rejects) -- *)

Definition is_marked_desc (ds : list decl) (M : list string) (n : string) : bool :=
  match lookup ds n with
  | Some (DStruct s) =>
    match s_factory_type s with
    | Some f => match lookup ds f with Some (DStruct fs) => mem (s_name fs) M | _ => false end
    | None => false
    end
  | _ => false
  end.

Definition p1_step (ds : list decl) (A : list string) (acc : list string * list string) (n : string) : list string * list string :=
  if is_marked_desc ds (fst acc) n then (set_add n (fst acc), if mem n A then snd acc else set_add n (snd acc)) else acc.
Definition p1 (ds : list decl) (A : list string) (order : list string) (acc : list string * list string) := fold_left (p1_step ds A) order acc.

Lemma phase1_p1 ds A order : forall M t M1 st1,
  phase1 ds order M {| already := A; tracked := Some t |} = Ok (M1, st1) ->
  M1 = fst (p1 ds A order (M, t)) /\ st1 = {| already := A; tracked := Some (snd (p1 ds A order (M, t))) |}.
Proof.
  induction order as [|n r IH]; intros M t M1 st1 H.
  - simpl in H. inversion H; subst. auto.
  - simpl in H. unfold p1. simpl fold_left. fold (p1 ds A r (p1_step ds A (M, t) n)).
    unfold p1_step, is_marked_desc. simpl fst. simpl snd.
    destruct (lookup ds n) as [[n0 l c0|n0 b vs a0 c0|s]|]; try discriminate.
    destruct (match s_factory_type s with Some f => lookup ds f | None => None end) as [[n0 l c0|n0 b vs a0 c0|fs]|] eqn:EF; try discriminate.
    + assert (EF' : match s_factory_type s with Some f => match lookup ds f with Some (DStruct fs0) => mem (s_name fs0) M | _ => false end | None => false end
                    = mem (s_name fs) M).
      { destruct (s_factory_type s) as [f|]; [rewrite EF; reflexivity | discriminate]. }
      rewrite EF'. simpl in H. destruct (mem (s_name fs) M).
      * unfold ms_add in H. simpl in H. destruct (mem n A); simpl in H; apply IH; exact H.
      * apply IH. exact H.
    + assert (EF' : match s_factory_type s with Some f => match lookup ds f with Some (DStruct fs0) => mem (s_name fs0) M | _ => false end | None => false end
                    = false).
      { destruct (s_factory_type s) as [f|]; [rewrite EF; reflexivity | reflexivity]. }
      rewrite EF'. apply IH. exact H.
Qed.

Lemma is_marked_desc_spec ds M n : is_marked_desc ds M n = true <-> exists f, descendant_of ds n f /\ In f M.
Proof.
  unfold is_marked_desc, descendant_of. split.
  - destruct (lookup ds n) as [[n0 l c0|n0 b vs a0 c0|s]|]; try discriminate.
    destruct (s_factory_type s) as [f|] eqn:ES; [|discriminate].
    destruct (lookup ds f) as [[n0 l c0|n0 b vs a0 c0|fs]|] eqn:EL; try discriminate.
    intro H. apply mem_In in H. destruct (lookup_In _ _ _ EL) as [_ EN]. simpl in EN. rewrite EN in H.
    exists f. split; [exists s, fs; auto | exact H].
  - intros [f [[s [fs [H1 [H2 H3]]]] H4]]. rewrite H1, H2, H3. apply mem_In.
    apply lookup_In in H3. destruct H3 as [_ EN]. simpl in EN. rewrite EN. exact H4.
Qed.

Lemma mem_incl x l l' : incl l l' -> mem x l = true -> mem x l' = true.
Proof. intros Hi H. apply mem_In. apply Hi. apply mem_In. exact H. Qed.

Lemma is_marked_desc_mono ds M M' n : incl M M' -> is_marked_desc ds M n = true -> is_marked_desc ds M' n = true.
Proof.
  intros Hi. rewrite !is_marked_desc_spec. intros [f [H1 H2]]. exists f. split; [exact H1 | apply Hi; exact H2].
Qed.

Lemma p1_incl ds A order : forall acc, incl (fst acc) (fst (p1 ds A order acc)) /\ incl (snd acc) (snd (p1 ds A order acc)).
Proof.
  induction order as [|n r IH]; intro acc; [split; apply incl_refl|].
  unfold p1. simpl fold_left. fold (p1 ds A r (p1_step ds A acc n)).
  destruct (IH (p1_step ds A acc n)) as [I1 I2]. split.
  - eapply incl_tran; [|exact I1]. unfold p1_step. destruct (is_marked_desc ds (fst acc) n); [apply set_add_incl | apply incl_refl].
  - eapply incl_tran; [|exact I2]. unfold p1_step. destruct (is_marked_desc ds (fst acc) n); [|apply incl_refl].
    simpl. destruct (mem n A); [apply incl_refl | apply set_add_incl].
Qed.

(* lower bound: every enumerated struct whose factory is marked on entry gets marked, and is tracked unless already known *)
Lemma p1_lower ds A order : forall acc x, In x order -> is_marked_desc ds (fst acc) x = true ->
  In x (fst (p1 ds A order acc)) /\ (In x A \/ In x (snd (p1 ds A order acc))).
Proof.
  induction order as [|n r IH]; intros acc x Hin Hm; [contradiction|].
  unfold p1. simpl fold_left. fold (p1 ds A r (p1_step ds A acc n)).
  assert (Hstep : incl (fst acc) (fst (p1_step ds A acc n))).
  { unfold p1_step. destruct (is_marked_desc ds (fst acc) n); [apply set_add_incl | apply incl_refl]. }
  destruct Hin as [->|Hin].
  - destruct (p1_incl ds A r (p1_step ds A acc x)) as [I1 I2].
    unfold p1_step in *. rewrite Hm in *. simpl in *. split.
    + apply I1. apply set_add_In. left. reflexivity.
    + destruct (mem x A) eqn:EA; [left; apply mem_In; exact EA|]. right. apply I2. apply set_add_In. left. reflexivity.
  - apply IH; [exact Hin|]. eapply is_marked_desc_mono; [exact Hstep | exact Hm].
Qed.

(* upper bound: whatever is marked / tracked is justified by a predicate closed under rule 2 *)
Lemma p1_upper ds A order (P : string -> Prop) : (forall y f, descendant_of ds y f -> P f -> P y) ->
  forall acc, (forall y, In y (fst acc) -> P y) ->
  (forall y, In y (fst (p1 ds A order acc)) -> P y)
  /\ (forall y, In y (snd (p1 ds A order acc)) -> In y (snd acc) \/ exists f, descendant_of ds y f /\ P f).
Proof.
  intro Hcl. induction order as [|n r IH]; intros acc HP; [split; auto|].
  unfold p1. simpl fold_left. fold (p1 ds A r (p1_step ds A acc n)).
  destruct (is_marked_desc ds (fst acc) n) eqn:EM.
  - assert (J : exists f, descendant_of ds n f /\ P f).
    { apply is_marked_desc_spec in EM. destruct EM as [f [H1 H2]]. exists f. split; [exact H1 | apply HP; exact H2]. }
    assert (HP' : forall y, In y (fst (p1_step ds A acc n)) -> P y).
    { unfold p1_step. rewrite EM. simpl. intros y Hy. apply set_add_In in Hy. destruct Hy as [->|Hy]; [|apply HP; exact Hy].
      destruct J as [f [H1 H2]]. eapply Hcl; eauto. }
    destruct (IH _ HP') as [I1 I2]. split; [exact I1|].
    intros y Hy. destruct (I2 y Hy) as [H|H]; [|right; exact H].
    unfold p1_step in H. rewrite EM in H. simpl in H. destruct (mem n A); [left; exact H|].
    apply set_add_In in H. destruct H as [->|H]; [right; exact J | left; exact H].
  - assert (E : p1_step ds A acc n = acc) by (unfold p1_step; rewrite EM; reflexivity). rewrite E. apply IH. exact HP.
Qed.

(* bookkeeping for the fuel bound *)
Lemma p1_tracked ds A order : forall acc, NoDup (snd acc) -> (forall y, In y (snd acc) -> ~ In y A) ->
  NoDup (snd (p1 ds A order acc))
  /\ (forall y, In y (snd (p1 ds A order acc)) -> ~ In y A)
  /\ (forall y, In y (snd (p1 ds A order acc)) -> In y (snd acc) \/ In y order).
Proof.
  induction order as [|n r IH]; intros acc Hn Hd; [simpl; auto|].
  unfold p1. simpl fold_left. fold (p1 ds A r (p1_step ds A acc n)).
  assert (S1 : NoDup (snd (p1_step ds A acc n))).
  { unfold p1_step. destruct (is_marked_desc ds (fst acc) n); [|exact Hn]. simpl. destruct (mem n A); [exact Hn | apply set_add_NoDup, Hn]. }
  assert (S2 : forall y, In y (snd (p1_step ds A acc n)) -> ~ In y A).
  { unfold p1_step. destruct (is_marked_desc ds (fst acc) n); [|exact Hd]. simpl. destruct (mem n A) eqn:EA; [exact Hd|].
    intros y Hy. apply set_add_In in Hy. destruct Hy as [->|Hy]; [apply mem_false; exact EA | apply Hd; exact Hy]. }
  assert (S3 : forall y, In y (snd (p1_step ds A acc n)) -> In y (snd acc) \/ y = n).
  { unfold p1_step. destruct (is_marked_desc ds (fst acc) n); [|auto]. simpl. destruct (mem n A); [auto|].
    intros y Hy. apply set_add_In in Hy. tauto. }
  destruct (IH _ S1 S2) as [I1 [I2 I3]]. split; [exact I1|]. split; [exact I2|].
  intros y Hy. destruct (I3 y Hy) as [H|H]; [|right; right; exact H].
  destruct (S3 y H) as [H' | ->]; [left; exact H' | right; left; reflexivity].
Qed.

(* phase 2: the struct-typed members of the newly marked structs *)
Definition member_struct (ds : list decl) (f : field) : option string :=
  match f with
  | Field _ (FName tn) _ _ _ _ => match lookup ds tn with Some (DStruct x) => Some (s_name x) | _ => None end
  | _ => None
  end.
Definition field_members (ds : list decl) (fs : list field) : list string :=
  flat_map (fun f => match member_struct ds f with Some y => [y] | None => [] end) fs.
Definition members_of (ds : list decl) (n : string) : list string :=
  match lookup ds n with Some (DStruct s) => field_members ds (s_fields s) | _ => [] end.

Lemma is_array_dt_test t : is_array_dt (ftype_dt t) = match t with FArray _ => true | _ => false end.
Proof. destruct t; try reflexivity. apply is_array_FArray. Qed.

Lemma phase2_fields_pure ds fs : forall M A M' st', phase2_fields ds fs M {| already := A; tracked := None |} = Ok (M', st') ->
  M' = add_all (field_members ds fs) M /\ st' = {| already := add_all (field_members ds fs) A; tracked := None |}.
Proof.
  induction fs as [|f fs IH]; intros M A M' st' H.
  - simpl in H. inversion H; subst. auto.
  - destruct f as [n t v d a c|tn c]; [|discriminate].
    simpl in H. rewrite is_array_dt_test in H. unfold field_members. simpl flat_map. fold (field_members ds fs).
    destruct t as [i|tn|ar]; try discriminate.
    + simpl. apply IH. exact H.
    + simpl. destruct (lookup ds tn) as [[n0 [li|sz] c0|n0 b vs a0 c0|x]|]; simpl in H; try (apply IH; exact H).
      unfold ms_add in H. simpl in H. unfold add_all. simpl fold_left.
      destruct (mem (s_name x) A) eqn:EA; simpl in H.
      * assert (E : set_add (s_name x) A = A) by (unfold set_add; rewrite EA; reflexivity). rewrite E. apply IH. exact H.
      * apply IH. exact H.
Qed.

Lemma phase2_pure ds newly : forall M A M' st', phase2 ds newly M {| already := A; tracked := None |} = Ok (M', st') ->
  M' = add_all (flat_map (members_of ds) newly) M /\ st' = {| already := add_all (flat_map (members_of ds) newly) A; tracked := None |}.
Proof.
  induction newly as [|n r IH]; intros M A M' st' H.
  - simpl in H. inversion H; subst. auto.
  - simpl in H. simpl flat_map. unfold members_of at 1 3.
    destruct (lookup ds n) as [[n0 l c0|n0 b vs a0 c0|s]|]; try discriminate.
    destruct (phase2_fields ds (s_fields s) M {| already := A; tracked := None |}) as [[M1 st1]| |k] eqn:E1; simpl in H; try discriminate.
    apply phase2_fields_pure in E1. destruct E1 as [-> ->].
    unfold add_all. rewrite !fold_left_app. apply IH. exact H.
Qed.

Lemma member_struct_spec ds d y : In y (members_of ds d) <-> struct_member_of ds d y.
Proof.
  unfold members_of, struct_member_of. split.
  - destruct (lookup ds d) as [[n0 l c0|n0 b vs a0 c0|s]|] eqn:EL; try contradiction.
    unfold field_members. rewrite in_flat_map. intros [f [Hf Hy]].
    destruct f as [n t v dp ats c|tn c]; [|contradiction]. destruct t as [i|tn|ar]; try contradiction. simpl in Hy.
    destruct (lookup ds tn) as [[n1 l1 c1|n1 b1 vs1 a1 c1|x]|] eqn:EX; try contradiction.
    destruct Hy as [<-|[]]. destruct (lookup_In _ _ _ EX) as [_ EN]. simpl in EN. rewrite EN.
    exists s, n, v, dp, ats, c, x. auto.
  - intros [s [n [v [dp [ats [c [xs [H1 [H2 H3]]]]]]]]]. rewrite H1. unfold field_members. rewrite in_flat_map.
    exists (Field n (FName y) v dp ats c). split; [exact H2|]. simpl. rewrite H3.
    destruct (lookup_In _ _ _ H3) as [_ EN]. simpl in EN. rewrite EN. left. reflexivity.
Qed.

(* one pass of the while loop: marks and the already_marked set afterwards *)
Definition pass (ds : list decl) (order : list string) (M A : list string) : list string * list string :=
  let r1 := p1 ds A order (M, []) in
  let mems := flat_map (members_of ds) (snd r1) in
  (add_all mems (fst r1), add_all mems (add_all (snd r1) A)).

Lemma pu_loop_step k ds order M A Mf : pu_loop (S k) ds order M {| already := A; tracked := None |} = Ok Mf ->
  if (Z.of_nat (length A) =? Z.of_nat (length (snd (pass ds order M A))))%Z then Mf = fst (pass ds order M A)
  else pu_loop k ds order (fst (pass ds order M A)) {| already := snd (pass ds order M A); tracked := None |} = Ok Mf.
Proof.
  intro H. cbn [pu_loop] in H. unfold ms_start in H. cbn [already tracked] in H.
  destruct (phase1 ds order M {| already := A; tracked := Some [] |}) as [[M1 st1]| |kk] eqn:E1; cbn [bind] in H; try discriminate.
  apply phase1_p1 in E1. destruct E1 as [-> ->]. cbn [fst snd] in H.
  unfold ms_newly, ms_finalize in H. cbn [already tracked ms_newly] in H.
  change (fold_left (fun acc x => set_add x acc) (snd (p1 ds A order (M, []))) A) with (add_all (snd (p1 ds A order (M, []))) A) in H.
  destruct (phase2 ds (snd (p1 ds A order (M, []))) (fst (p1 ds A order (M, [])))
             {| already := add_all (snd (p1 ds A order (M, []))) A; tracked := None |}) as [[M2 st2]| |kk] eqn:E2; cbn [bind] in H; try discriminate.
  apply phase2_pure in E2. destruct E2 as [-> ->]. cbn [fst snd already] in H.
  unfold pu_exit_cmp, cmp in H. unfold pass. cbn [fst snd].
  destruct (Z.of_nat (length A) =? Z.of_nat (length (add_all (flat_map (members_of ds) (snd (p1 ds A order (M, [])))) (add_all (snd (p1 ds A order (M, []))) A))))%Z;
    [inversion H; reflexivity | exact H].
Qed.

Lemma pass_mono ds order M A : incl M (fst (pass ds order M A)).
Proof.
  unfold pass. cbn [fst]. intros y Hy. apply add_all_In. left.
  destruct (p1_incl ds A order (M, [])) as [I1 _]. apply I1. exact Hy.
Qed.

Lemma pu_loop_mono ds order : forall k M A Mf, pu_loop k ds order M {| already := A; tracked := None |} = Ok Mf -> incl M Mf.
Proof.
  induction k as [|k IH]; intros M A Mf H; [discriminate|].
  apply pu_loop_step in H.
  destruct (Z.of_nat (length A) =? Z.of_nat (length (snd (pass ds order M A))))%Z.
  - subst. apply pass_mono.
  - eapply incl_tran; [apply pass_mono | eapply IH; exact H].
Qed.

Lemma pass_upper ds order (D : string -> Prop) M A : (forall y, In y M -> closure ds D y) ->
  forall y, In y (fst (pass ds order M A)) -> closure ds D y.
Proof.
  intros HP y Hy. unfold pass in Hy. cbn [fst] in Hy.
  destruct (p1_upper ds A order (closure ds D) (fun y f H1 H2 => cl_desc ds D y f H1 H2) (M, []) HP) as [U1 U2].
  apply add_all_In in Hy. destruct Hy as [Hy|Hy]; [apply U1; exact Hy|].
  apply in_flat_map in Hy. destruct Hy as [d [Hd Hy]].
  destruct (U2 d Hd) as [[]|[f [H1 H2]]]. apply member_struct_spec in Hy.
  eapply cl_member; eauto.
Qed.

Lemma pu_loop_upper ds order (D : string -> Prop) : forall k M A Mf, pu_loop k ds order M {| already := A; tracked := None |} = Ok Mf ->
  (forall y, In y M -> closure ds D y) -> forall y, In y Mf -> closure ds D y.
Proof.
  induction k as [|k IH]; intros M A Mf H HP; [discriminate|].
  apply pu_loop_step in H.
  destruct (Z.of_nat (length A) =? Z.of_nat (length (snd (pass ds order M A))))%Z.
  - subst. apply pass_upper. exact HP.
  - eapply IH; [exact H|]. apply pass_upper. exact HP.
Qed.

(* the first pass (already_marked empty) marks the descendants of the marked factories and their struct-typed members *)
Lemma pass_lower ds order M : (forall x, In x order <-> In x (struct_names ds)) ->
  forall x f, In f M -> descendant_of ds x f -> In x (struct_names ds) ->
  In x (fst (pass ds order M [])) /\ forall y, struct_member_of ds x y -> In y (fst (pass ds order M [])).
Proof.
  intros Hord x f Hf Hd Hx. unfold pass. cbn [fst].
  assert (Hm : is_marked_desc ds (fst (M, @nil string)) x = true) by (apply is_marked_desc_spec; exists f; auto).
  destruct (p1_lower ds [] order (M, []) x (proj2 (Hord x) Hx) Hm) as [L1 [[]|L2]]. split.
  - apply add_all_In. left. exact L1.
  - intros y Hy. apply add_all_In. right. apply in_flat_map. exists x. split; [exact L2 | apply member_struct_spec; exact Hy].
Qed.

Lemma struct_names_spec ds x : In x (struct_names ds) <-> exists s, In (DStruct s) ds /\ s_name s = x.
Proof.
  unfold struct_names. rewrite in_flat_map. split.
  - intros [d [Hd Hx]]. destruct d as [n l c|n b vs a c|s]; try contradiction. simpl in Hx.
    destruct Hx as [<-|[]]. exists s. auto.
  - intros [s [Hs <-]]. exists (DStruct s). split; [exact Hs | simpl; left; reflexivity].
Qed.

Lemma descendant_is_struct ds x f : descendant_of ds x f -> In x (struct_names ds).
Proof.
  intros [s [fs [H1 _]]]. apply lookup_In in H1. destruct H1 as [H1 H2]. apply struct_names_spec. exists s. auto.
Qed.

Lemma initial_marks_fresh ds : fresh ds -> initial_marks ds = [].
Proof.
  unfold fresh, initial_marks. induction ds as [|d r IH]; intro H; [reflexivity|]. simpl.
  rewrite IH; [|intros s Hs; apply H; right; exact Hs].
  destruct d as [n l c|n b vs a c|s]; try reflexivity. rewrite (H s (or_introl eq_refl)). reflexivity.
Qed.

Lemma closure_empty ds (D : string -> Prop) : (forall x, ~ D x) -> forall x, ~ closure ds D x.
Proof. intros HD x H. induction H; [eapply HD; eauto | assumption | assumption]. Qed.

Lemma closure_mono ds (D D' : string -> Prop) : (forall x, D x -> D' x) -> forall x, closure ds D x -> closure ds D' x.
Proof. intros HD x H. induction H; [apply cl_base; auto | eapply cl_desc; eauto | eapply cl_member; eauto]. Qed.

(* the statement used by Props/C18.v *)
Lemma unaligned_sandwich ds order ps M : fresh ds -> order_ok ds order -> extend_models ds order = Ok (ps, M) ->
  (forall x, demanded ds x -> In x M)
  /\ (forall x, In x M -> closure ds (demanded ds) x)
  /\ ((forall x, ~ demanded ds x) -> M = []).
Proof.
  intros Hfresh Hord H. unfold extend_models in H.
  destruct (process_all ds ds (initial_marks ds)) as [[ps0 M0]| |c] eqn:E1; cbn [bind] in H; try discriminate.
  destruct (propagate_unaligned ds order (snd (ps0, M0))) as [Mf| |c] eqn:E2; cbn [bind] in H; try discriminate.
  inversion H; subst ps M. clear H. cbn [snd] in E2.
  pose proof (process_all_marks _ _ _ _ _ E1) as HM0. rewrite (initial_marks_fresh _ Hfresh) in HM0.
  assert (HB : forall y, In y M0 <-> base ds y).
  { intro y. rewrite HM0, base_field_base. split; [intros [[]|H]; exact H | intro H; right; exact H]. }
  unfold propagate_unaligned in E2.
  assert (HU : forall x, In x Mf -> closure ds (demanded ds) x).
  { eapply pu_loop_upper; [exact E2|]. intros y Hy. apply cl_base. left. apply HB. exact Hy. }
  assert (HP : incl (fst (pass ds order M0 [])) Mf).
  { pose proof (pu_loop_step _ _ _ _ _ _ E2) as HS.
    destruct (Z.of_nat (length (@nil string)) =? Z.of_nat (length (snd (pass ds order M0 []))))%Z;
      [subst; apply incl_refl | eapply pu_loop_mono; exact HS]. }
  split; [|split].
  - intros x [Hx|[[f [Hf Hd]]|[f [d [Hf [Hd Hm]]]]]].
    + apply HP, pass_mono, HB, Hx.
    + apply HP. exact (proj1 (pass_lower ds order M0 Hord x f (proj2 (HB f) Hf) Hd (descendant_is_struct _ _ _ Hd))).
    + apply HP. exact (proj2 (pass_lower ds order M0 Hord d f (proj2 (HB f) Hf) Hd (descendant_is_struct _ _ _ Hd)) x Hm).
  - exact HU.
  - intro Hnone. destruct Mf as [|y r]; [reflexivity|]. exfalso.
    eapply (closure_empty ds (demanded ds) Hnone y). apply HU. left. reflexivity.
Qed.

(* ---- the fuel of the while loop ---- *)

Lemma phase1_crash_kind ds order : forall M st c, phase1 ds order M st = Crash c -> c <> "fuel".
Proof.
  induction order as [|n r IH]; intros M st c H; [discriminate|]. simpl in H.
  destruct (lookup ds n) as [[n0 l c0|n0 b vs a0 c0|s]|]; try (inversion H; discriminate).
  destruct (match s_factory_type s with Some f => lookup ds f | None => None end) as [[n0 l c0|n0 b vs a0 c0|fs]|];
    try (inversion H; discriminate); try (eapply IH; exact H).
  destruct (mem (s_name fs) M); eapply IH; exact H.
Qed.

Lemma phase2_fields_crash_kind ds fs : forall M st c, phase2_fields ds fs M st = Crash c -> c <> "fuel".
Proof.
  induction fs as [|f fs IH]; intros M st c H; [discriminate|]. simpl in H.
  destruct f as [n t v d a c0|tn c0]; [|inversion H; discriminate].
  destruct (is_array_dt (ftype_dt t)); [discriminate|].
  destruct (match t with FName tn => lookup ds tn | _ => None end) as [d0|]; [|eapply IH; exact H].
  match type of H with (if ?b then _ else _) = _ => destruct b end; eapply IH; exact H.
Qed.

Lemma phase2_crash_kind ds newly : forall M st c, phase2 ds newly M st = Crash c -> c <> "fuel".
Proof.
  induction newly as [|n r IH]; intros M st c H; [discriminate|]. simpl in H.
  destruct (lookup ds n) as [[n0 l c0|n0 b vs a0 c0|s]|]; try (inversion H; discriminate).
  destruct (phase2_fields ds (s_fields s) M st) as [[M1 st1]| |c1] eqn:E; cbn [bind] in H; try discriminate.
  - eapply IH. exact H.
  - inversion H; subst. eapply phase2_fields_crash_kind. exact E.
Qed.

Lemma members_are_structs ds d y : In y (members_of ds d) -> In y (struct_names ds).
Proof.
  intro H. apply member_struct_spec in H. destruct H as [s [n [v [dp [ats [c [xs [_ [_ H3]]]]]]]]].
  apply lookup_In in H3. destruct H3 as [H3 H4]. apply struct_names_spec. exists xs. auto.
Qed.

Lemma pass_already ds order M A : incl order (struct_names ds) -> NoDup A -> incl A (struct_names ds) ->
  NoDup (snd (pass ds order M A)) /\ incl (snd (pass ds order M A)) (struct_names ds) /\ (length A <= length (snd (pass ds order M A)))%nat.
Proof.
  intros Hord Hn Hi. unfold pass. cbn [snd].
  destruct (p1_tracked ds A order (M, []) (NoDup_nil _) (fun y H => False_ind _ H)) as [T1 [T2 T3]].
  split; [|split].
  - apply add_all_NoDup, add_all_NoDup, Hn.
  - intros y Hy. apply add_all_In in Hy. destruct Hy as [Hy|Hy].
    + apply add_all_In in Hy. destruct Hy as [Hy|Hy]; [apply Hi; exact Hy|].
      destruct (T3 y Hy) as [[]|H]. apply Hord. exact H.
    + apply in_flat_map in Hy. destruct Hy as [d [_ Hy]]. eapply members_are_structs. exact Hy.
  - pose proof (add_all_length (snd (p1 ds A order (M, []))) A).
    pose proof (add_all_length (flat_map (members_of ds) (snd (p1 ds A order (M, [])))) (add_all (snd (p1 ds A order (M, []))) A)). lia.
Qed.

(* already_marked is a duplicate-free set of struct names that strictly grows in every pass but the last: number of structs + 1 passes suffice *)
Lemma pu_loop_fuel ds order : incl order (struct_names ds) ->
  forall k M A, NoDup A -> incl A (struct_names ds) -> (length (struct_names ds) - length A < k)%nat ->
  pu_loop k ds order M {| already := A; tracked := None |} <> Crash "fuel".
Proof.
  intro Hord. induction k as [|k IH]; intros M A Hn Hi Hk; [lia|].
  intro H. cbn [pu_loop] in H. unfold ms_start in H. cbn [already tracked] in H.
  destruct (phase1 ds order M {| already := A; tracked := Some [] |}) as [[M1 st1]| |c] eqn:E1; cbn [bind] in H; try discriminate.
  2:{ inversion H; subst. eapply phase1_crash_kind; [exact E1 | reflexivity]. }
  pose proof (phase1_p1 _ _ _ _ _ _ _ E1) as [-> ->]. cbn [fst snd] in H.
  unfold ms_newly, ms_finalize in H. cbn [already tracked ms_newly] in H.
  change (fold_left (fun acc x => set_add x acc) (snd (p1 ds A order (M, []))) A) with (add_all (snd (p1 ds A order (M, []))) A) in H.
  destruct (phase2 ds (snd (p1 ds A order (M, []))) (fst (p1 ds A order (M, [])))
             {| already := add_all (snd (p1 ds A order (M, []))) A; tracked := None |}) as [[M2 st2]| |c] eqn:E2; cbn [bind] in H; try discriminate.
  2:{ inversion H; subst. eapply phase2_crash_kind; [exact E2 | reflexivity]. }
  apply phase2_pure in E2. destruct E2 as [-> ->]. cbn [fst snd already] in H.
  destruct (pass_already ds order M A Hord Hn Hi) as [P1 [P2 P3]]. unfold pass in P1, P2, P3. cbn [snd] in P1, P2, P3.
  unfold pu_exit_cmp, cmp in H.
  destruct (Z.of_nat (length A) =? Z.of_nat (length (add_all (flat_map (members_of ds) (snd (p1 ds A order (M, [])))) (add_all (snd (p1 ds A order (M, []))) A))))%Z eqn:EZ;
    [discriminate|].
  apply Z.eqb_neq in EZ.
  pose proof (NoDup_incl_length P1 P2) as HL.
  eapply IH; [exact P1 | exact P2 | | exact H]. lia.
Qed.

Lemma propagate_fuel_sufficient ds order M : incl order (struct_names ds) -> propagate_unaligned ds order M <> Crash "fuel".
Proof.
  intro Hord. unfold propagate_unaligned. apply pu_loop_fuel; [exact Hord | constructor | intros y [] | simpl; lia].
Qed.

(* ---- extend_models does not crash on a schema whose references resolve ---- *)

Definition resolves (ds : list decl) : Prop :=
  NoDup (map decl_name ds)
  /\ (forall s, In (DStruct s) ds -> expanded s /\ sizes_resolve (s_fields s))
  /\ (forall s f, In (DStruct s) ds -> s_factory_type s = Some f ->
        match lookup ds f with Some (DStruct _) => True | None => True | Some _ => False end).

Lemma ps_fields_total ds s fs : (forall t c, ~ In (InlinePlaceholder t c) fs) -> forall M, exists r, ps_fields ds s fs M = Ok r.
Proof.
  induction fs as [|f fs IH]; intros Hx M; [eexists; reflexivity|]. simpl.
  assert (E : exists r, ps_field ds s f M = Ok r).
  { destruct f as [n t v d a c|tn c]; [|exfalso; eapply Hx; left; reflexivity]. unfold ps_field.
    destruct (cmp ps_typed_cmp dt_typed_array (ftype_dt t)).
    - destruct (elem_model ds t) as [e|]; [|eexists; reflexivity].
      destruct (ps_elem_conn true (cmp ps_elem_struct_cmp dt_struct (decl_dt e))); eexists; reflexivity.
    - destruct (match t with FName tn => lookup ds tn | _ => None end); eexists; reflexivity. }
  destruct E as [[x M1] E]. rewrite E. cbn [bind snd fst].
  destruct (IH (fun t c H => Hx t c (or_intror H)) M1) as [[xs M2] E2]. rewrite E2. cbn [bind]. eexists. reflexivity.
Qed.

Lemma process_all_total ds todo : (forall s, In (DStruct s) todo -> expanded s /\ sizes_resolve (s_fields s)) ->
  forall M, exists r, process_all ds todo M = Ok r.
Proof.
  induction todo as [|d r IH]; intros Hr M; [eexists; reflexivity|].
  assert (Hr' : forall s, In (DStruct s) r -> expanded s /\ sizes_resolve (s_fields s)) by (intros s Hs; apply Hr; right; exact Hs).
  destruct d as [n l c|n b vs a c|s]; try (apply IH; exact Hr').
  simpl. destruct (Hr s (or_introl eq_refl)) as [Hexp Hsz]. unfold process_struct.
  destruct (ps_fields_total ds s (s_fields s) Hexp M) as [[exts M1] E1]. rewrite E1. cbn [bind fst snd].
  destruct (bind_loop_ok (s_fields s) (s_fields s) Hexp Hsz Hexp 0%nat {| b_bound := []; b_sizes := [] |}) as [b E2].
  unfold bind_size_fields. rewrite E2. cbn [bind fst snd].
  destruct (IH Hr' M1) as [[ps M2] E3]. rewrite E3. cbn [bind]. eexists. reflexivity.
Qed.

Lemma lookup_struct_name ds x : NoDup (map decl_name ds) -> In x (struct_names ds) -> exists s, lookup ds x = Some (DStruct s) /\ In (DStruct s) ds.
Proof.
  intros Hn Hx. apply struct_names_spec in Hx. destruct Hx as [s [Hs <-]]. exists s. split; [|exact Hs].
  apply (lookup_NoDup ds (DStruct s) Hn Hs).
Qed.

Lemma phase1_total ds order : resolves ds -> incl order (struct_names ds) -> forall M st, exists r, phase1 ds order M st = Ok r.
Proof.
  intros [Hn [_ Hf]]. induction order as [|n r IH]; intros Hord M st; [eexists; reflexivity|]. simpl.
  assert (Hord' : incl r (struct_names ds)) by (intros y Hy; apply Hord; right; exact Hy).
  destruct (lookup_struct_name ds n Hn (Hord n (or_introl eq_refl))) as [s [EL Hs]]. rewrite EL.
  destruct (s_factory_type s) as [f|] eqn:EF; [|apply IH; exact Hord'].
  specialize (Hf s f Hs EF). destruct (lookup ds f) as [[n0 l c0|n0 b vs a0 c0|fs]|]; try contradiction; [|apply IH; exact Hord'].
  simpl. destruct (mem (s_name fs) M); apply IH; exact Hord'.
Qed.

Lemma phase2_fields_total ds fs : (forall t c, ~ In (InlinePlaceholder t c) fs) ->
  forall M st, phase2_fields ds fs M st = Reject \/ exists r, phase2_fields ds fs M st = Ok r.
Proof.
  induction fs as [|f fs IH]; intros Hx M st; [right; eexists; reflexivity|].
  destruct f as [n t v d a c|tn c]; [|exfalso; eapply Hx; left; reflexivity]. simpl.
  assert (IH' := IH (fun t0 c0 H => Hx t0 c0 (or_intror H))).
  destruct (is_array_dt (ftype_dt t)); [left; reflexivity|].
  destruct (match t with FName tn => lookup ds tn | _ => None end) as [d0|]; [|apply IH'].
  match goal with |- context [if ?b then _ else _] => destruct b end; apply IH'.
Qed.

Lemma phase2_total ds newly : resolves ds -> incl newly (struct_names ds) ->
  forall M st, phase2 ds newly M st = Reject \/ exists r, phase2 ds newly M st = Ok r.
Proof.
  intros [Hn [Hr _]]. induction newly as [|n r IH]; intros Hin M st; [right; eexists; reflexivity|]. simpl.
  assert (Hin' : incl r (struct_names ds)) by (intros y Hy; apply Hin; right; exact Hy).
  destruct (lookup_struct_name ds n Hn (Hin n (or_introl eq_refl))) as [s [EL Hs]]. rewrite EL.
  destruct (phase2_fields_total ds (s_fields s) (proj1 (Hr s Hs)) M st) as [E|[[M1 st1] E]]; rewrite E; cbn [bind fst snd].
  - left. reflexivity.
  - apply IH. exact Hin'.
Qed.

Lemma pu_loop_only_fuel ds order : resolves ds -> incl order (struct_names ds) ->
  forall k M A c, pu_loop k ds order M {| already := A; tracked := None |} = Crash c -> c = "fuel".
Proof.
  intros Hres Hord. induction k as [|k IH]; intros M A c H; [inversion H; reflexivity|].
  cbn [pu_loop] in H. unfold ms_start in H. cbn [already tracked] in H.
  destruct (phase1_total ds order Hres Hord M {| already := A; tracked := Some [] |}) as [[M1 st1] E1]. rewrite E1 in H. cbn [bind] in H.
  pose proof (phase1_p1 _ _ _ _ _ _ _ E1) as [-> ->]. cbn [fst snd] in H.
  unfold ms_newly, ms_finalize in H. cbn [already tracked ms_newly] in H.
  assert (Hnew : incl (snd (p1 ds A order (M, []))) (struct_names ds)).
  { destruct (p1_tracked ds A order (M, []) (NoDup_nil _) (fun y H0 => False_ind _ H0)) as [_ [_ T3]].
    intros y Hy. destruct (T3 y Hy) as [[]|H0]. apply Hord. exact H0. }
  match type of H with bind ?p _ = _ => destruct (phase2_total ds _ Hres Hnew (fst (p1 ds A order (M, []))) {| already := fold_left (fun acc x => set_add x acc) (snd (p1 ds A order (M, []))) A; tracked := None |}) as [E2|[[M2 st2] E2]] end;
    rewrite E2 in H; cbn [bind] in H; [discriminate|].
  change (fold_left (fun acc x => set_add x acc) (snd (p1 ds A order (M, []))) A) with (add_all (snd (p1 ds A order (M, []))) A) in E2.
  apply phase2_pure in E2. destruct E2 as [-> ->]. cbn [fst snd already] in H.
  match type of H with (if ?b then _ else _) = _ => destruct b end; [discriminate|].
  eapply IH. exact H.
Qed.

(* the statement used by Props/C18.v *)
Lemma extend_no_crash ds order : resolves ds -> incl order (struct_names ds) -> forall c, extend_models ds order <> Crash c.
Proof.
  intros Hres Hord c H. unfold extend_models in H.
  destruct (process_all_total ds ds (proj1 (proj2 Hres)) (initial_marks ds)) as [[ps M0] E1]. rewrite E1 in H. cbn [bind snd fst] in H.
  destruct (propagate_unaligned ds order M0) as [Mf| |c'] eqn:E2; cbn [bind] in H; try discriminate.
  inversion H; subst c'. clear H.
  assert (c = "fuel") by (eapply pu_loop_only_fuel; [exact Hres | exact Hord | exact E2]). subst c.
  exact (propagate_fuel_sufficient ds order M0 Hord E2).
Qed.

(* ================================================================================================================== *)
(* Part 3b: the iteration order of struct_names.  In general the marks depend on it (order_matters_example below); they do not when
   no struct that records a factory type is itself recorded as a factory type (no abstract struct inlines an abstract struct). *)

Definition flat (ds : list decl) : Prop := forall x f g, descendant_of ds x f -> ~ descendant_of ds f g.
Definition same_set (l l' : list string) : Prop := forall x, In x l <-> In x l'.

Lemma same_set_refl l : same_set l l.
Proof. intro x. tauto. Qed.

Lemma same_set_length l l' : NoDup l -> NoDup l' -> same_set l l' -> length l = length l'.
Proof. intros H1 H2 H. apply Permutation_length. apply NoDup_Permutation; assumption. Qed.

Lemma is_marked_desc_same ds M M' n : same_set M M' -> is_marked_desc ds M n = is_marked_desc ds M' n.
Proof.
  intro H. destruct (is_marked_desc ds M n) eqn:E1, (is_marked_desc ds M' n) eqn:E2; try reflexivity.
  - apply is_marked_desc_spec in E1. destruct E1 as [f [H1 H2]].
    assert (E : is_marked_desc ds M' n = true) by (apply is_marked_desc_spec; exists f; split; [exact H1 | apply H; exact H2]). congruence.
  - apply is_marked_desc_spec in E2. destruct E2 as [f [H1 H2]].
    assert (E : is_marked_desc ds M n = true) by (apply is_marked_desc_spec; exists f; split; [exact H1 | apply H; exact H2]). congruence.
Qed.

(* marking a descendant does not change who is a descendant of a marked factory *)
Lemma is_marked_desc_flat ds M n y : flat ds -> is_marked_desc ds M n = true -> is_marked_desc ds (set_add n M) y = is_marked_desc ds M y.
Proof.
  intros Hflat Hn. apply is_marked_desc_spec in Hn. destruct Hn as [f [Hd _]].
  destruct (is_marked_desc ds (set_add n M) y) eqn:E1, (is_marked_desc ds M y) eqn:E2; try reflexivity.
  - apply is_marked_desc_spec in E1. destruct E1 as [f' [H1 H2]]. apply set_add_In in H2. destruct H2 as [->|H2].
    + exfalso. exact (Hflat _ _ _ H1 Hd).
    + assert (E : is_marked_desc ds M y = true) by (apply is_marked_desc_spec; exists f'; auto). congruence.
  - assert (E : is_marked_desc ds (set_add n M) y = true) by (eapply is_marked_desc_mono; [apply set_add_incl | exact E2]). congruence.
Qed.

Lemma p1_flat ds A order : flat ds -> forall M t y,
  (In y (fst (p1 ds A order (M, t))) <-> In y M \/ (In y order /\ is_marked_desc ds M y = true))
  /\ (In y (snd (p1 ds A order (M, t))) <-> In y t \/ (In y order /\ is_marked_desc ds M y = true /\ ~ In y A)).
Proof.
  intro Hflat. induction order as [|n r IH]; intros M t y.
  - simpl. split; split; try tauto; intros [H|[[] _]]; exact H.
  - unfold p1. simpl fold_left. fold (p1 ds A r (p1_step ds A (M, t) n)). unfold p1_step. cbn [fst snd].
    destruct (is_marked_desc ds M n) eqn:EM.
    + destruct (IH (set_add n M) (if mem n A then t else set_add n t) y) as [I1 I2].
      rewrite (is_marked_desc_flat ds M n y Hflat EM) in I1, I2. split.
      * rewrite I1, set_add_In. split.
        -- intros [[->|H]|[H1 H2]]; [right; split; [left; reflexivity | exact EM] | left; exact H | right; split; [right; exact H1 | exact H2]].
        -- intros [H|[[->|H1] H2]]; [left; right; exact H | left; left; reflexivity | right; split; assumption].
      * rewrite I2. destruct (mem n A) eqn:EA.
        -- apply mem_In in EA. split.
           ++ intros [H|[H1 [H2 H3]]]; [left; exact H | right; split; [right; exact H1 | split; assumption]].
           ++ intros [H|[[->|H1] [H2 H3]]]; [left; exact H | contradiction | right; split; [exact H1 | split; assumption]].
        -- apply mem_false in EA. rewrite set_add_In. split.
           ++ intros [[->|H]|[H1 [H2 H3]]]; [right; split; [left; reflexivity | split; assumption] | left; exact H | right; split; [right; exact H1 | split; assumption]].
           ++ intros [H|[[->|H1] [H2 H3]]]; [left; right; exact H | left; left; reflexivity | right; split; [exact H1 | split; assumption]].
    + destruct (IH M t y) as [I1 I2]. split.
      * rewrite I1. split.
        -- intros [H|[H1 H2]]; [left; exact H | right; split; [right; exact H1 | exact H2]].
        -- intros [H|[[->|H1] H2]]; [left; exact H | congruence | right; split; assumption].
      * rewrite I2. split.
        -- intros [H|[H1 [H2 H3]]]; [left; exact H | right; split; [right; exact H1 | split; assumption]].
        -- intros [H|[[->|H1] [H2 H3]]]; [left; exact H | congruence | right; split; [exact H1 | split; assumption]].
Qed.

Lemma same_set_add_all l l' M M' : same_set l l' -> same_set M M' -> same_set (add_all l M) (add_all l' M').
Proof. intros H1 H2 x. rewrite !add_all_In, (H1 x), (H2 x). tauto. Qed.

Lemma same_set_flat_map (g : string -> list string) l l' : same_set l l' -> same_set (flat_map g l) (flat_map g l').
Proof.
  intros H x. rewrite !in_flat_map. split; intros [y [H1 H2]]; exists y; (split; [apply H; exact H1 | exact H2]).
Qed.

Lemma pass_same ds order order' M M' A A' : flat ds -> same_set order order' -> same_set M M' -> same_set A A' ->
  same_set (snd (p1 ds A order (M, []))) (snd (p1 ds A' order' (M', [])))
  /\ same_set (fst (pass ds order M A)) (fst (pass ds order' M' A')) /\ same_set (snd (pass ds order M A)) (snd (pass ds order' M' A')).
Proof.
  intros Hflat Ho HM HA.
  assert (T : same_set (snd (p1 ds A order (M, []))) (snd (p1 ds A' order' (M', [])))).
  { intro y. rewrite (proj2 (p1_flat ds A order Hflat M [] y)), (proj2 (p1_flat ds A' order' Hflat M' [] y)).
    rewrite (is_marked_desc_same ds M M' y HM), (Ho y), (HA y). tauto. }
  assert (F : same_set (fst (p1 ds A order (M, []))) (fst (p1 ds A' order' (M', [])))).
  { intro y. rewrite (proj1 (p1_flat ds A order Hflat M [] y)), (proj1 (p1_flat ds A' order' Hflat M' [] y)).
    rewrite (is_marked_desc_same ds M M' y HM), (Ho y), (HM y). tauto. }
  split; [exact T|]. unfold pass. cbn [fst snd]. split.
  - apply same_set_add_all; [apply same_set_flat_map; exact T | exact F].
  - apply same_set_add_all; [apply same_set_flat_map; exact T | apply same_set_add_all; assumption].
Qed.

(* phase 2 refuses exactly when a newly marked struct has an array member *)
Definition has_array_member (ds : list decl) (n : string) : Prop :=
  exists s m a v d ats c, lookup ds n = Some (DStruct s) /\ In (Field m (FArray a) v d ats c) (s_fields s).

Lemma phase2_fields_reject ds fs : (forall t c, ~ In (InlinePlaceholder t c) fs) -> forall M st,
  phase2_fields ds fs M st = Reject <-> exists m a v d ats c, In (Field m (FArray a) v d ats c) fs.
Proof.
  induction fs as [|f fs IH]; intros Hx M st.
  - simpl. split; [discriminate | intros [m [a [v [d [ats [c []]]]]]]].
  - destruct f as [n t v d a c|tn c]; [|exfalso; eapply Hx; left; reflexivity].
    assert (IH' := IH (fun t0 c0 H => Hx t0 c0 (or_intror H))).
    simpl. rewrite is_array_dt_test. destruct t as [i|tn|ar].
    + rewrite IH'. split; intros [m [a0 [v0 [d0 [ats [c0 H]]]]]]; exists m, a0, v0, d0, ats, c0; [right; exact H | destruct H as [H|H]; [discriminate | exact H]].
    + assert (G : forall M0 st0, phase2_fields ds fs M0 st0 = Reject <-> exists m a0 v0 d0 ats c0, In (Field m (FArray a0) v0 d0 ats c0) (Field n (FName tn) v d a c :: fs)).
      { intros M0 st0. rewrite IH'. split; intros [m [a0 [v0 [d0 [ats [c0 H]]]]]]; exists m, a0, v0, d0, ats, c0; [right; exact H | destruct H as [H|H]; [discriminate | exact H]]. }
      destruct (lookup ds tn) as [d0|]; [|apply G].
      match goal with |- context [if ?b then _ else _] => destruct b end; apply G.
    + split; [intros _; exists n, ar, v, d, a, c; left; reflexivity | reflexivity].
Qed.

Lemma phase2_reject ds newly : resolves ds -> incl newly (struct_names ds) -> forall M st,
  phase2 ds newly M st = Reject <-> exists n, In n newly /\ has_array_member ds n.
Proof.
  intros [Hn [Hr Hf]]. induction newly as [|n r IH]; intros Hin M st.
  - simpl. split; [discriminate | intros [n [[] _]]].
  - assert (Hin' : incl r (struct_names ds)) by (intros y Hy; apply Hin; right; exact Hy).
    simpl. destruct (lookup_struct_name ds n Hn (Hin n (or_introl eq_refl))) as [s [EL Hs]]. rewrite EL.
    pose proof (phase2_fields_reject ds (s_fields s) (proj1 (Hr s Hs)) M st) as PR.
    destruct (phase2_fields_total ds (s_fields s) (proj1 (Hr s Hs)) M st) as [E|[[M1 st1] E]]; rewrite E; cbn [bind fst snd].
    + split; [intros _|reflexivity]. apply PR in E. destruct E as [m [a [v [d [ats [c H]]]]]].
      exists n. split; [left; reflexivity|]. exists s, m, a, v, d, ats, c. auto.
    + rewrite (IH Hin' M1 st1). split.
      * intros [n' [H1 H2]]. exists n'. split; [right; exact H1 | exact H2].
      * intros [n' [[->|H1] H2]]; [|exists n'; auto].
        exfalso. destruct H2 as [s' [m [a [v [d [ats [c [EL' H]]]]]]]]. rewrite EL in EL'. inversion EL'; subst s'.
        assert (R : phase2_fields ds (s_fields s) M st = Reject) by (apply PR; exists m, a, v, d, ats, c; exact H). congruence.
Qed.

Definition outcome_equiv (r r' : result (list string)) : Prop :=
  match r, r' with
  | Ok M, Ok M' => same_set M M'
  | Reject, Reject => True
  | Crash c, Crash c' => c = c'
  | _, _ => False
  end.

Lemma pu_loop_order ds order order' : flat ds -> resolves ds -> same_set order order' ->
  incl order (struct_names ds) -> incl order' (struct_names ds) ->
  forall k M M' A A', same_set M M' -> same_set A A' -> NoDup A -> NoDup A' -> incl A (struct_names ds) -> incl A' (struct_names ds) ->
  outcome_equiv (pu_loop k ds order M {| already := A; tracked := None |}) (pu_loop k ds order' M' {| already := A'; tracked := None |}).
Proof.
  intros Hflat Hres Ho Hord Hord'. induction k as [|k IH]; intros M M' A A' HM HA Hn Hn' Hi Hi'; [reflexivity|].
  cbn [pu_loop]. unfold ms_start. cbn [already tracked].
  destruct (phase1_total ds order Hres Hord M {| already := A; tracked := Some [] |}) as [[M1 st1] E1].
  destruct (phase1_total ds order' Hres Hord' M' {| already := A'; tracked := Some [] |}) as [[M1' st1'] E1'].
  rewrite E1, E1'. cbn [bind].
  pose proof (phase1_p1 _ _ _ _ _ _ _ E1) as [-> ->]. pose proof (phase1_p1 _ _ _ _ _ _ _ E1') as [-> ->]. cbn [fst snd].
  unfold ms_newly, ms_finalize. cbn [already tracked ms_newly].
  change (fold_left (fun acc x => set_add x acc) (snd (p1 ds A order (M, []))) A) with (add_all (snd (p1 ds A order (M, []))) A).
  change (fold_left (fun acc x => set_add x acc) (snd (p1 ds A' order' (M', []))) A') with (add_all (snd (p1 ds A' order' (M', []))) A').
  destruct (pass_same ds order order' M M' A A' Hflat Ho HM HA) as [T [PF PS]].
  assert (Hnew : incl (snd (p1 ds A order (M, []))) (struct_names ds)).
  { destruct (p1_tracked ds A order (M, []) (NoDup_nil _) (fun y H0 => False_ind _ H0)) as [_ [_ T3]].
    intros y Hy. destruct (T3 y Hy) as [[]|H0]. apply Hord. exact H0. }
  assert (Hnew' : incl (snd (p1 ds A' order' (M', []))) (struct_names ds)).
  { destruct (p1_tracked ds A' order' (M', []) (NoDup_nil _) (fun y H0 => False_ind _ H0)) as [_ [_ T3]].
    intros y Hy. destruct (T3 y Hy) as [[]|H0]. apply Hord'. exact H0. }
  set (st2 := {| already := add_all (snd (p1 ds A order (M, []))) A; tracked := None |}).
  set (st2' := {| already := add_all (snd (p1 ds A' order' (M', []))) A'; tracked := None |}).
  pose proof (phase2_reject ds _ Hres Hnew (fst (p1 ds A order (M, []))) st2) as R.
  pose proof (phase2_reject ds _ Hres Hnew' (fst (p1 ds A' order' (M', []))) st2') as R'.
  destruct (phase2_total ds _ Hres Hnew (fst (p1 ds A order (M, []))) st2) as [E2|[[M2 s2] E2]];
    destruct (phase2_total ds _ Hres Hnew' (fst (p1 ds A' order' (M', []))) st2') as [E2'|[[M2' s2'] E2']];
    rewrite E2, E2'; cbn [bind].
  - exact I.
  - exfalso. apply R in E2. destruct E2 as [n [H1 H2]].
    assert (X : phase2 ds (snd (p1 ds A' order' (M', []))) (fst (p1 ds A' order' (M', []))) st2' = Reject) by (apply R'; exists n; split; [apply T; exact H1 | exact H2]).
    congruence.
  - exfalso. apply R' in E2'. destruct E2' as [n [H1 H2]].
    assert (X : phase2 ds (snd (p1 ds A order (M, []))) (fst (p1 ds A order (M, []))) st2 = Reject) by (apply R; exists n; split; [apply T; exact H1 | exact H2]).
    congruence.
  - unfold st2 in E2. unfold st2' in E2'. apply phase2_pure in E2. apply phase2_pure in E2'. destruct E2 as [-> ->]. destruct E2' as [-> ->].
    cbn [fst snd already]. unfold pass in PF, PS. cbn [fst snd] in PF, PS.
    destruct (pass_already ds order M A Hord Hn Hi) as [P1 [P2 _]]. destruct (pass_already ds order' M' A' Hord' Hn' Hi') as [P1' [P2' _]].
    unfold pass in P1, P2, P1', P2'. cbn [snd] in P1, P2, P1', P2'.
    rewrite (same_set_length A A' Hn Hn' HA). rewrite (same_set_length _ _ P1 P1' PS).
    unfold pu_exit_cmp, cmp.
    match goal with |- outcome_equiv (if ?b then _ else _) _ => destruct b end; [exact PF|].
    apply IH; assumption.
Qed.

(* the statement used by Props/C18.v *)
Lemma order_independent_flat ds order order' : flat ds -> resolves ds -> order_ok ds order -> order_ok ds order' ->
  match extend_models ds order, extend_models ds order' with
  | Ok (ps, M), Ok (ps', M') => ps = ps' /\ same_set M M'
  | Reject, Reject => True
  | _, _ => False
  end.
Proof.
  intros Hflat Hres Ho Ho'. unfold extend_models.
  assert (Hord : incl order (struct_names ds)) by (intros x Hx; apply Ho; exact Hx).
  assert (Hord' : incl order' (struct_names ds)) by (intros x Hx; apply Ho'; exact Hx).
  assert (Hsame : same_set order order') by (intro x; rewrite (Ho x), (Ho' x); tauto).
  destruct (process_all_total ds ds (proj1 (proj2 Hres)) (initial_marks ds)) as [[ps M0] E1]. rewrite E1. cbn [bind fst snd].
  pose proof (pu_loop_order ds order order' Hflat Hres Hsame Hord Hord' (S (length (struct_names ds))) M0 M0 [] []
    (same_set_refl _) (same_set_refl _) (NoDup_nil _) (NoDup_nil _) (fun y H => False_ind _ H) (fun y H => False_ind _ H)) as HE.
  pose proof (extend_no_crash ds order Hres Hord) as NC. pose proof (extend_no_crash ds order' Hres Hord') as NC'.
  unfold extend_models in NC, NC'. rewrite E1 in NC, NC'. cbn [bind fst snd] in NC, NC'.
  unfold propagate_unaligned in *.
  destruct (pu_loop (S (length (struct_names ds))) ds order M0 {| already := []; tracked := None |}) as [Mf| |c];
    destruct (pu_loop (S (length (struct_names ds))) ds order' M0 {| already := []; tracked := None |}) as [Mf'| |c'];
    cbn [bind outcome_equiv] in *; try contradiction; try exact I; try (split; [reflexivity | exact HE]).
  - exfalso. exact (NC c eq_refl).
Qed.

(* ================================================================================================================== *)
(* Part 4: concrete schemas (the parser's and post-processor's output for the CATS text in the comments; dumped by harness/astdump.py) *)

(* enum Kind : uint16 {ALPHA = 1, BETA = 2}
   @is_aligned @discriminator(kind, version) abstract struct Shape {version = uint8, kind = Kind}
   @is_aligned @discriminator(code) abstract struct Event {code = uint32}
   struct Point {xx = uint32}
   @initializes(version, V_ONE) @initializes(kind, ALPHA) struct Circle {inline Shape, center = Point}
   @initializes(code, E_ONE) struct Click {inline Event}
   @initializes(kind, BETA) @initializes(version, V_TWO) struct Square {inline Shape}
   @initializes(code, E_TWO) struct Scroll {inline Event, delta_size = sizeof(uint16, delta), delta = Point}
   struct Canvas {shapes_count = uint8, shapes = array(Shape, shapes_count), tags = array(uint32, 2)}
   two factories, interleaved descendants, two discriminators (initializers in the other order), an aligned struct used in an unaligned one *)
Definition example_schema : list decl :=
 [(DEnum "Kind" {| it_unsigned := true; it_size := (2)%Z; it_sizeref := None |} [{| ev_name := "ALPHA"; ev_value := (1)%Z; ev_comment := None |}; {| ev_name := "BETA"; ev_value := (2)%Z; ev_comment := None |}] None None);
 (DStruct {| s_name := "Shape"; s_disp := SdAbstract; s_fields := [(Field "version" (FInt {| it_unsigned := true; it_size := (1)%Z; it_sizeref := None |}) VNone DispNone None None); (Field "kind" (FName "Kind") VNone DispNone None None)]; s_factory_type := None; s_attrs := (Some [{| at_name := "is_aligned"; at_values := [] |}; {| at_name := "discriminator"; at_values := [(AvStr "kind"); (AvStr "version")] |}]); s_comment := None; s_requires_unaligned := false |});
 (DStruct {| s_name := "Event"; s_disp := SdAbstract; s_fields := [(Field "code" (FInt {| it_unsigned := true; it_size := (4)%Z; it_sizeref := None |}) VNone DispNone None None)]; s_factory_type := None; s_attrs := (Some [{| at_name := "is_aligned"; at_values := [] |}; {| at_name := "discriminator"; at_values := [(AvStr "code")] |}]); s_comment := None; s_requires_unaligned := false |});
 (DStruct {| s_name := "Point"; s_disp := SdNone; s_fields := [(Field "xx" (FInt {| it_unsigned := true; it_size := (4)%Z; it_sizeref := None |}) VNone DispNone None None)]; s_factory_type := None; s_attrs := None; s_comment := None; s_requires_unaligned := false |});
 (DStruct {| s_name := "Circle"; s_disp := SdNone; s_fields := [(Field "version" (FInt {| it_unsigned := true; it_size := (1)%Z; it_sizeref := None |}) VNone DispNone None None); (Field "kind" (FName "Kind") VNone DispNone None None); (Field "center" (FName "Point") VNone DispNone None None)]; s_factory_type := (Some "Shape"); s_attrs := (Some [{| at_name := "initializes"; at_values := [(AvStr "version"); (AvStr "V_ONE")] |}; {| at_name := "initializes"; at_values := [(AvStr "kind"); (AvStr "ALPHA")] |}; {| at_name := "is_aligned"; at_values := [] |}; {| at_name := "discriminator"; at_values := [(AvStr "kind"); (AvStr "version")] |}]); s_comment := None; s_requires_unaligned := false |});
 (DStruct {| s_name := "Click"; s_disp := SdNone; s_fields := [(Field "code" (FInt {| it_unsigned := true; it_size := (4)%Z; it_sizeref := None |}) VNone DispNone None None)]; s_factory_type := (Some "Event"); s_attrs := (Some [{| at_name := "initializes"; at_values := [(AvStr "code"); (AvStr "E_ONE")] |}; {| at_name := "is_aligned"; at_values := [] |}; {| at_name := "discriminator"; at_values := [(AvStr "code")] |}]); s_comment := None; s_requires_unaligned := false |});
 (DStruct {| s_name := "Square"; s_disp := SdNone; s_fields := [(Field "version" (FInt {| it_unsigned := true; it_size := (1)%Z; it_sizeref := None |}) VNone DispNone None None); (Field "kind" (FName "Kind") VNone DispNone None None)]; s_factory_type := (Some "Shape"); s_attrs := (Some [{| at_name := "initializes"; at_values := [(AvStr "kind"); (AvStr "BETA")] |}; {| at_name := "initializes"; at_values := [(AvStr "version"); (AvStr "V_TWO")] |}; {| at_name := "is_aligned"; at_values := [] |}; {| at_name := "discriminator"; at_values := [(AvStr "kind"); (AvStr "version")] |}]); s_comment := None; s_requires_unaligned := false |});
 (DStruct {| s_name := "Scroll"; s_disp := SdNone; s_fields := [(Field "code" (FInt {| it_unsigned := true; it_size := (4)%Z; it_sizeref := None |}) VNone DispNone None None); (Field "delta_size" (FInt {| it_unsigned := true; it_size := (2)%Z; it_sizeref := None |}) (VName "delta") DispSizeof None None); (Field "delta" (FName "Point") VNone DispNone None None)]; s_factory_type := (Some "Event"); s_attrs := (Some [{| at_name := "initializes"; at_values := [(AvStr "code"); (AvStr "E_TWO")] |}; {| at_name := "is_aligned"; at_values := [] |}; {| at_name := "discriminator"; at_values := [(AvStr "code")] |}]); s_comment := None; s_requires_unaligned := false |});
 (DStruct {| s_name := "Canvas"; s_disp := SdNone; s_fields := [(Field "shapes_count" (FInt {| it_unsigned := true; it_size := (1)%Z; it_sizeref := None |}) VNone DispNone None None); (Field "shapes" (FArray {| a_elem := (ElName "Shape"); a_size := (SzName "shapes_count"); a_sort_key := None; a_byte_constrained := false; a_alignment := None; a_last_padded := None |}) VNone DispNone None None); (Field "tags" (FArray {| a_elem := (ElInt {| it_unsigned := true; it_size := (4)%Z; it_sizeref := None |}); a_size := (SzNum (2)%Z); a_sort_key := None; a_byte_constrained := false; a_alignment := None; a_last_padded := None |}) VNone DispNone None None)]; s_factory_type := None; s_attrs := None; s_comment := None; s_requires_unaligned := false |})].

(* @is_aligned abstract struct FooBase {kind = uint8};  abstract struct Bee {inline FooBase, xx = uint8};  struct Uu {yy = uint8}
   struct Ss {inline Bee, uu = Uu};  struct Foo {inline FooBase, ss = Ss};  struct Container {foos = array(FooBase, 2)}
   an abstract struct that inlines an abstract struct: the final marks depend on the iteration order of struct_names *)
Definition chain_schema : list decl :=
 [(DStruct {| s_name := "FooBase"; s_disp := SdAbstract; s_fields := [(Field "kind" (FInt {| it_unsigned := true; it_size := (1)%Z; it_sizeref := None |}) VNone DispNone None None)]; s_factory_type := None; s_attrs := (Some [{| at_name := "is_aligned"; at_values := [] |}]); s_comment := None; s_requires_unaligned := false |});
 (DStruct {| s_name := "Bee"; s_disp := SdAbstract; s_fields := [(Field "kind" (FInt {| it_unsigned := true; it_size := (1)%Z; it_sizeref := None |}) VNone DispNone None None); (Field "xx" (FInt {| it_unsigned := true; it_size := (1)%Z; it_sizeref := None |}) VNone DispNone None None)]; s_factory_type := (Some "FooBase"); s_attrs := (Some [{| at_name := "is_aligned"; at_values := [] |}]); s_comment := None; s_requires_unaligned := false |});
 (DStruct {| s_name := "Uu"; s_disp := SdNone; s_fields := [(Field "yy" (FInt {| it_unsigned := true; it_size := (1)%Z; it_sizeref := None |}) VNone DispNone None None)]; s_factory_type := None; s_attrs := None; s_comment := None; s_requires_unaligned := false |});
 (DStruct {| s_name := "Ss"; s_disp := SdNone; s_fields := [(Field "kind" (FInt {| it_unsigned := true; it_size := (1)%Z; it_sizeref := None |}) VNone DispNone None None); (Field "xx" (FInt {| it_unsigned := true; it_size := (1)%Z; it_sizeref := None |}) VNone DispNone None None); (Field "uu" (FName "Uu") VNone DispNone None None)]; s_factory_type := (Some "Bee"); s_attrs := (Some [{| at_name := "is_aligned"; at_values := [] |}]); s_comment := None; s_requires_unaligned := false |});
 (DStruct {| s_name := "Foo"; s_disp := SdNone; s_fields := [(Field "kind" (FInt {| it_unsigned := true; it_size := (1)%Z; it_sizeref := None |}) VNone DispNone None None); (Field "ss" (FName "Ss") VNone DispNone None None)]; s_factory_type := (Some "FooBase"); s_attrs := (Some [{| at_name := "is_aligned"; at_values := [] |}]); s_comment := None; s_requires_unaligned := false |});
 (DStruct {| s_name := "Container"; s_disp := SdNone; s_fields := [(Field "foos" (FArray {| a_elem := (ElName "FooBase"); a_size := (SzNum (2)%Z); a_sort_key := None; a_byte_constrained := false; a_alignment := None; a_last_padded := None |}) VNone DispNone None None)]; s_factory_type := None; s_attrs := None; s_comment := None; s_requires_unaligned := false |})].

Definition example_order : list string := ["Scroll"; "Square"; "Circle"; "Point"; "Click"; "Canvas"; "Shape"; "Event"].

Definition fm_view (m : fmap) : list (string * (list string * list avalue * list avalue * list ftype)) :=
  map (fun e => (fst e, (map s_name (fd_children (snd e)), fd_names (snd e), fd_values (snd e), fd_types (snd e)))) m.

Lemma example_factory_map :
  match build_factory_map example_schema with
  | Ok m => fm_view m =
      [("Shape", (["Circle"; "Square"], [AvStr "kind"; AvStr "version"], [AvStr "ALPHA"; AvStr "V_ONE"],
                  [FName "Kind"; FInt {| it_unsigned := true; it_size := 1; it_sizeref := None |}]));
       ("Event", (["Click"; "Scroll"], [AvStr "code"], [AvStr "E_ONE"], [FInt {| it_unsigned := true; it_size := 4; it_sizeref := None |}]))]
  | _ => False
  end.
Proof. vm_compute. reflexivity. Qed.

Lemma example_extend :
  match extend_models example_schema example_order with
  | Ok (ps, M) =>
    M = ["Shape"; "Square"; "Circle"; "Point"]
    /\ map p_name ps = ["Shape"; "Event"; "Point"; "Circle"; "Click"; "Square"; "Scroll"; "Canvas"]
    /\ match nth_error ps 6, nth_error ps 7 with
       | Some scroll, Some canvas =>
         bound_of (p_binds scroll) 1 = Some 2%nat /\ sizes_of (p_binds scroll) 2 = [1%nat]        (* delta_size <-> delta *)
         /\ bound_of (p_binds canvas) 0 = Some 1%nat                                              (* shapes_count -> shapes *)
         /\ map fx_abstract (p_exts canvas) = [false; true; false]                                (* array of abstract Shape *)
       | _, _ => False
       end
  | _ => False
  end.
Proof. vm_compute. repeat split. Qed.

(* two enumerations of the same set of struct names, two different results (both inside the sandwich): "Uu" is marked only when
   "Bee" is visited before "Ss" *)
Lemma order_matters_example :
  extend_models chain_schema ["FooBase"; "Bee"; "Uu"; "Ss"; "Foo"; "Container"] <> extend_models chain_schema ["Ss"; "Container"; "Foo"; "FooBase"; "Uu"; "Bee"]
  /\ match extend_models chain_schema ["FooBase"; "Bee"; "Uu"; "Ss"; "Foo"; "Container"],
           extend_models chain_schema ["Ss"; "Container"; "Foo"; "FooBase"; "Uu"; "Bee"] with
     | Ok (_, M1), Ok (_, M2) => mem "Uu" M1 = true /\ mem "Uu" M2 = false
     | _, _ => False
     end.
Proof. split; [vm_compute; intro H; discriminate H | vm_compute; split; reflexivity]. Qed.

(* the premises of the theorems hold for example_schema (non-vacuity) *)
Lemma all_structs (P : struct -> Prop) ds : Forall (fun d => match d with DStruct s => P s | _ => True end) ds -> forall s, In (DStruct s) ds -> P s.
Proof. intros H s Hs. rewrite Forall_forall in H. exact (H _ Hs). Qed.

Ltac each_decl tac := unfold example_schema; repeat (apply Forall_cons; [cbv beta iota; first [exact I | tac]|]); apply Forall_nil.
Ltac in_cases H := simpl in H; repeat (destruct H as [H|H]; [try (inversion H; fail); try subst|]); try contradiction.

Lemma example_fresh : fresh example_schema.
Proof. unfold fresh. apply all_structs. each_decl reflexivity. Qed.

Lemma example_no_empty_factory : no_empty_factory example_schema.
Proof. unfold no_empty_factory. apply all_structs. each_decl ltac:(simpl; discriminate). Qed.

Lemma example_order_ok : order_ok example_schema example_order.
Proof. intro x. vm_compute. tauto. Qed.

Lemma example_expanded : forall s, In (DStruct s) example_schema -> expanded s.
Proof. apply all_structs. each_decl ltac:(intros t c H; in_cases H). Qed.

Lemma example_sizes_resolve : forall s, In (DStruct s) example_schema -> sizes_resolve (s_fields s).
Proof.
  apply all_structs.
  each_decl ltac:(intros f H; in_cases H;
    (split; [intros sn E; simpl in E; first [discriminate | inversion E; subst; vm_compute; discriminate]
            | first [exact I | eexists; split; [reflexivity | vm_compute; discriminate]]])).
Qed.

Lemma example_resolves : resolves example_schema.
Proof.
  split; [|split].
  - vm_compute. repeat constructor; simpl; intuition discriminate.
  - intros s Hs. split; [apply example_expanded | apply example_sizes_resolve]; exact Hs.
  - intros s f Hs. revert f. revert s Hs.
    apply (all_structs (fun s => forall f, s_factory_type s = Some f ->
             match lookup example_schema f with Some (DStruct _) => True | None => True | Some _ => False end)).
    each_decl ltac:(intros f E; simpl in E; first [discriminate | inversion E; subst; vm_compute; exact I]).
Qed.

Lemma example_carries : forall s, In (DStruct s) example_schema -> s_factory_type s <> None -> carries s.
Proof.
  intros s Hs. pose proof (example_expanded s Hs) as Hexp. revert s Hs Hexp.
  apply (all_structs (fun s => expanded s -> s_factory_type s <> None -> carries s)).
  each_decl ltac:(intros Hexp Hf; simpl in Hf; first [congruence |
    (split; [exact Hexp|]; split;
     [intros a Ha Hname; unfold attrs_list in Ha; in_cases Ha; simpl in Hname; simpl; first [lia | discriminate Hname]
     | eexists; split; [reflexivity|]; intros n Hn; in_cases Hn; split; vm_compute; discriminate])]).
Qed.

Lemma example_flat : flat example_schema.
Proof.
  intros x f g [s [fs [H1 [H2 H3]]]] [s' [gs [H1' [H2' _]]]].
  rewrite H3 in H1'. inversion H1'; subst s'. clear H1'.
  apply lookup_In in H1. destruct H1 as [H1 _].
  simpl in H1. repeat (destruct H1 as [H1|H1]; [try discriminate H1; inversion H1; subst s; clear H1|]); try contradiction;
    simpl in H2; try discriminate H2; inversion H2; subst f; vm_compute in H3; inversion H3; subst fs; discriminate H2'.
Qed.
