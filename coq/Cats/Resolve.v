(* catparser/__main__.py: LarkMultiFileParser.parse (multi-file resolution) and main's exit-status control flow, over an
   abstract file system.  Model file: definitions only.  The places a property-breaking edit would touch are a record of
   holes (`resolve_ops`); `ops_now` is assembled from Gen/ResolveOps.v, which the translator rewrites from /repo on every run.

   The model is the INTENDED behaviour of `parse`: processed files are keyed by one normalised path (the root and the
   imports alike) and a file that lark returns unwrapped (a single declaration, a single import, a single comment) is
   treated like any other list of statements. *)
From Symv Require Export Base.PyOps Gen.ResolveOps.
Open Scope Z_scope.

(* ---- files ---- *)

Definition path := string.     (* a file's identity: its normalised path *)

Record decl := { dname : string;           (* declared type name *)
                 drefs : list string;      (* type names its members refer to *)
                 dpost_ok : bool }.        (* passes the checks made only after expansion (e.g. @size names a field) *)

Inductive item := Import (p : path) | Decl (d : decl) | Comment.

Inductive file := Missing | Unparsable | Parsed (items : list item).
Definition fsys := path -> file.

Definition imports_of (items : list item) : list path :=
  flat_map (fun i => match i with Import p => [p] | _ => [] end) items.
Definition decls_of (items : list item) : list decl :=
  flat_map (fun i => match i with Decl d => [d] | _ => [] end) items.
Definition items_at (fs : fsys) (p : path) : list item := match fs p with Parsed items => items | _ => [] end.

Definition mem (p : path) (l : list path) : bool := existsb (String.eqb p) l.

(* ---- holes ---- *)

Record resolve_ops := {
  skip_if_member : bool;        (* `if key in processed: return []`: In -> true, NotIn -> false *)
  start_rule : string;          (* tree name that marks a statement list in parse *)
  import_rule : string;         (* tree name that marks an import in parse *)
  grammar_start : string;       (* the same two names as catbuffer.lark has them *)
  grammar_import : string;
  import_child : nat;           (* index of the path among the import tree's children *)
  exit_parse_fail : Z;          (* main: sys.exit(..) after AstException / OSError *)
  exit_validate_fail : Z        (* _validate: sys.exit(..) when errors were found *)
}.

Definition ops_now : resolve_ops := {|
  skip_if_member := skip_if_member_now; start_rule := start_rule_now; import_rule := import_rule_now;
  grammar_start := grammar_start_rule; grammar_import := grammar_import_rule; import_child := import_child_now;
  exit_parse_fail := exit_parse_fail_now; exit_validate_fail := exit_validate_fail_now |}.

Definition ops_ok (o : resolve_ops) : Prop :=
  skip_if_member o = true /\ String.eqb (start_rule o) (grammar_start o) = true
  /\ String.eqb (import_rule o) (grammar_import o) = true /\ import_child o = 0%nat
  /\ exit_parse_fail o = 1 /\ exit_validate_fail o = 2.

(* ---- LarkMultiFileParser.parse ---- *)

Inductive failure := FCaught      (* AstException or OSError: main prints it and exits with exit_parse_fail *)
                   | FUncaught.   (* any other exception (lark's UnexpectedInput, IndexError ..): traceback *)

Inductive outcome (A : Type) := Done (out : list A) (processed : list path) | Failed (f : failure) | OutOfFuel.
Arguments Done {A} out processed. Arguments Failed {A} f. Arguments OutOfFuel {A}.

Section Walk.
Context {A : Type}.
Variable o : resolve_ops.
Variable contrib : path -> list item -> list A.   (* what a file adds after its imports; parse: its declarations *)
Variable fs : fsys.

(* `?start: statement+`: lark hands back the lone statement itself, otherwise a tree named after the start rule.
   The code takes the children of a tree it recognises as the start tree and wraps anything else in a list;
   a multi-statement tree it does not recognise is an "unexpected unprocessed tree" (AstException). *)
Definition statements (items : list item) : option (list item) :=
  match items with
  | [_] => Some items
  | _ => if String.eqb (start_rule o) (grammar_start o) then Some items else None
  end.

(* Tree(grammar_import, [path]): recognised by name, path = children[import_child] *)
Definition import_target (q : path) : path + failure :=
  if String.eqb (import_rule o) (grammar_import o)
  then match nth_error [q] (import_child o) with Some t => inl t | None => inr FUncaught end
  else inr FCaught.

(* for tree in unprocessed_trees: descriptors += self.parse(dirname / tree.children[0]) *)
Fixpoint visit_imports (rec : list path -> path -> outcome A) (qs : list path) (processed : list path) : outcome A :=
  match qs with
  | [] => Done [] processed
  | q :: rest =>
    match import_target q with
    | inr f => Failed f
    | inl t =>
      match rec processed t with
      | Done out1 processed1 =>
        match visit_imports rec rest processed1 with
        | Done out2 processed2 => Done (out1 ++ out2) processed2
        | e => e
        end
      | e => e
      end
    end
  end.

Fixpoint walk (fuel : nat) (processed : list path) (p : path) : outcome A :=
  match fuel with
  | O => OutOfFuel
  | S fuel' =>
    if Bool.eqb (mem p processed) (skip_if_member o) then Done [] processed
    else match fs p with
         | Missing => Failed FCaught           (* open(): OSError *)
         | Unparsable => Failed FUncaught      (* lark: UnexpectedInput *)
         | Parsed items =>
           match statements items with
           | None => Failed FCaught
           | Some stmts =>
             match visit_imports (walk fuel') (imports_of stmts) (p :: processed) with
             | Done out processed' => Done (out ++ contrib p stmts) processed'
             | e => e
             end
           end
         end
  end.
End Walk.

(* the file system as a finite table; anything not listed is missing *)
Fixpoint fs_of (table : list (path * file)) : fsys :=
  fun p => match table with
           | [] => Missing
           | (q, f) :: rest => if String.eqb p q then f else fs_of rest p
           end.

(* LarkMultiFileParser().parse(root): fuel = #files + 1 *)
Definition parse (o : resolve_ops) (files : list path) (fs : fsys) (root : path) : outcome decl :=
  walk o (fun _ stmts => decls_of stmts) fs (S (length files)) [] root.

(* ---- _validate (the one rule that depends on resolution: every referenced type is declared somewhere in the set) ---- *)

Definition known (ds : list decl) (r : string) : bool := existsb (String.eqb r) (map dname ds).
Definition validate_pre (ds : list decl) : bool := forallb (fun d => forallb (known ds) (drefs d)) ds.
Definition validate_post (ds : list decl) : bool := validate_pre ds && forallb dpost_ok ds.

(* ---- main ---- *)

Inductive parse_status := PSOk | PSCaught | PSUncaught.
Definition exit_uncaught : Z := 1.   (* CPython's status for an uncaught exception *)

(* (exit status, output written?) *)
Definition exit_flow (o : resolve_ops) (st : parse_status) (pre_ok post_ok output_requested generator_requested generator_ok : bool)
  : Z * bool :=
  match st with
  | PSCaught => (exit_parse_fail o, false)
  | PSUncaught => (exit_uncaught, false)
  | PSOk =>
    if negb pre_ok then (exit_validate_fail o, false)
    else if negb post_ok then (exit_validate_fail o, false)
    else if output_requested
         then (if generator_requested then (if generator_ok then (0, true) else (exit_uncaught, false)) else (0, true))
         else (0, false)
  end.

Definition status_of {A} (r : outcome A) : parse_status :=
  match r with Done _ _ => PSOk | Failed FCaught => PSCaught | _ => PSUncaught end.

Definition main (o : resolve_ops) (files : list path) (fs : fsys) (root : path)
                (output_requested generator_requested generator_ok : bool) : Z * bool :=
  let r := parse o files fs root in
  let ds := match r with Done ds _ => ds | _ => [] end in
  exit_flow o (status_of r) (validate_pre ds) (validate_post ds) output_requested generator_requested generator_ok.

(* ---- case output for the correspondence runs ---- *)
Local Open Scope string_scope.
Fixpoint commas (l : list string) : string :=
  match l with [] => "" | [x] => x | x :: r => x ++ "," ++ commas r end.

Definition render_outcome (r : outcome decl) : string :=
  match r with
  | Done ds _ => "ok:" ++ commas (map dname ds)
  | Failed FCaught => "caught"
  | Failed FUncaught => "uncaught"
  | OutOfFuel => "out-of-fuel"
  end.

Definition render_run (table : list (path * file)) (root : path) (outp gen gen_ok : bool) : string :=
  let fs := fs_of table in
  let files := map fst table in
  let '(code, written) := main ops_now files fs root outp gen gen_ok in
  render_outcome (parse ops_now files fs root) ++ "|exit=" ++ Z_to_string code ++ "|written=" ++ bool_to_string written.
