(* Proofs about Cats.Outline (the model of sdk/python/generator at outline level).  Specification text (structs_of, has_factory,
   first_occurrences, carries, no_empty_factory ...) is shared with C18 (Cats/DeriveProofs.v); decl_refs is fixed text here. *)
From Coq Require Import String ZArith Bool List Ascii Lia.
From Symv Require Import Cats.Layout Cats.Derive Cats.DeriveProofs Cats.Outline.
Import ListNotations.
Open Scope list_scope.

(* ---------- small list facts ---------- *)
Lemma flat_map_ext_in {A B} (f g : A -> list B) l : (forall a, In a l -> f a = g a) -> flat_map f l = flat_map g l.
Proof.
  induction l as [|a l IH]; simpl; intro H; [reflexivity|].
  rewrite (H a (or_introl eq_refl)), IH; [reflexivity|]. intros b Hb. apply H. right. exact Hb.
Qed.

Lemma filter_ext_in' {A} (f g : A -> bool) l : (forall a, In a l -> f a = g a) -> filter f l = filter g l.
Proof.
  induction l as [|a l IH]; simpl; intro H; [reflexivity|].
  rewrite (H a (or_introl eq_refl)), IH; [reflexivity|]. intros b Hb. apply H. right. exact Hb.
Qed.

Lemma filter_incl {A} (p : A -> bool) l : incl (filter p l) l.
Proof. intros x Hx. apply filter_In in Hx. tauto. Qed.

(* ---------- specification text for locality ---------- *)
(* the declarations a class can look at: its factory type and the named types of its members *)
Definition field_refs (f : field) : list string := match f_type f with FName t => [t] | _ => [] end.
Definition decl_refs (d : decl) : list string :=
  match d with
  | DStruct s => (match s_factory_type s with Some b => [b] | None => [] end) ++ flat_map field_refs (s_fields s)
  | _ => []
  end.

(* ================================================================================================================== *)
(* outline_order / factories_last *)

Lemma co_name_decl_class tm d : co_name (decl_class tm d) = decl_name d.
Proof. destruct d; reflexivity. Qed.

Lemma class_names_app o1 o2 : class_names (o1 ++ o2) = class_names o1 ++ class_names o2.
Proof. unfold class_names. apply flat_map_app. Qed.
Lemma class_names_classes l : class_names (map EClass l) = map co_name l.
Proof. induction l as [|c l IH]; simpl; [reflexivity | f_equal; exact IH]. Qed.
Lemma class_names_factories l : class_names (map EFactory l) = [].
Proof. induction l as [|c l IH]; simpl; [reflexivity | exact IH]. Qed.
Lemma factory_entries_app o1 o2 : factory_entries (o1 ++ o2) = factory_entries o1 ++ factory_entries o2.
Proof. unfold factory_entries. apply flat_map_app. Qed.
Lemma factory_entries_classes l : factory_entries (map EClass l) = [].
Proof. induction l as [|c l IH]; simpl; [reflexivity | exact IH]. Qed.
Lemma factory_entries_factories l : factory_entries (map EFactory l) = l.
Proof. induction l as [|c l IH]; simpl; [reflexivity | f_equal; exact IH]. Qed.

Lemma outline_ok ds m : build_factory_map ds = Ok m -> outline ds = map EClass (classes ds) ++ map EFactory (factories ds m).
Proof. intro H. unfold outline. rewrite H. reflexivity. Qed.

Lemma classes_names ds : map co_name (classes ds) = map decl_name ds.
Proof.
  unfold classes. rewrite map_map. apply map_ext. intro d. apply co_name_decl_class.
Qed.

Lemma outline_order ds m : build_factory_map ds = Ok m -> class_names (outline ds) = map decl_name ds.
Proof.
  intro H. rewrite (outline_ok _ _ H), class_names_app, class_names_classes, class_names_factories, app_nil_r. apply classes_names.
Qed.

Lemma outline_order_carries ds :
  (forall s, In (DStruct s) ds -> s_factory_type s <> None -> carries s) -> class_names (outline ds) = map decl_name ds.
Proof. intro H. destruct (factory_map_no_crash ds H) as [m Hm]. exact (outline_order _ _ Hm). Qed.

Lemma abstract_structs_spec ds : abstract_structs ds = filter struct_abstract (structs_of ds).
Proof.
  unfold abstract_structs, structs_of. induction ds as [|d ds IH]; simpl; [reflexivity|].
  rewrite filter_app, IH. destruct d; simpl; reflexivity.
Qed.

Lemma factories_last ds m : build_factory_map ds = Ok m ->
  outline ds = map EClass (classes ds) ++ map EFactory (factories ds m)
  /\ length (classes ds) = length ds
  /\ map fo_parent (factories ds m) = map s_name (filter struct_abstract (structs_of ds))
  /\ map fo_name (factories ds m) = map (fun a => (s_name a ++ factory_suffix)%string) (filter struct_abstract (structs_of ds)).
Proof.
  intro H. split; [exact (outline_ok _ _ H)|]. split; [unfold classes; apply map_length|].
  unfold factories. rewrite abstract_structs_spec, !map_map. split; apply map_ext; intro a; reflexivity.
Qed.

(* classes strictly precede factories: no factory entry before the last class entry *)
Lemma factories_after_classes ds m : build_factory_map ds = Ok m ->
  exists cs fs, outline ds = cs ++ fs /\ forallb is_class cs = true /\ forallb is_factory fs = true /\ length cs = length ds.
Proof.
  intro H. exists (map EClass (classes ds)), (map EFactory (factories ds m)).
  split; [exact (outline_ok _ _ H)|]. repeat split.
  - induction (classes ds); simpl; auto.
  - induction (factories ds m); simpl; auto.
  - rewrite map_length. unfold classes. apply map_length.
Qed.

(* ================================================================================================================== *)
(* factory entries = children *)

Lemma fm_find_get k m : fm_find k m = fm_get k m.
Proof. reflexivity. Qed.

Lemma fm_find_In k fd m : fm_find k m = Some fd -> In (k, fd) m.
Proof.
  unfold fm_find. destruct (find (fun e => String.eqb (fst e) k) m) as [e|] eqn:E; [|discriminate].
  intro H. inversion H; subst fd. apply find_some in E. destruct E as [Hin Heq]. apply String.eqb_eq in Heq.
  destruct e as [k' fd']. simpl in *. subst k'. exact Hin.
Qed.

Lemma no_factory_no_children k l :
  ~ In k (flat_map (fun s => match s_factory_type s with Some f => [f] | None => [] end) l) -> filter (has_factory k) l = [].
Proof.
  induction l as [|s l IH]; simpl; intro H; [reflexivity|].
  rewrite in_app_iff in H. unfold has_factory at 1.
  destruct (s_factory_type s) as [f|] eqn:E.
  - destruct (String.eqb f k) eqn:Ek.
    + apply String.eqb_eq in Ek. subst f. exfalso. apply H. left. left. reflexivity.
    + apply IH. intro Hin. apply H. right. exact Hin.
  - apply IH. intro Hin. apply H. right. exact Hin.
Qed.

Lemma factory_children ds m k : no_empty_factory ds -> build_factory_map ds = Ok m ->
  match fm_find k m with Some fd => fd_children fd | None => [] end = filter (has_factory k) (structs_of ds).
Proof.
  intros Hne H. destruct (factory_map_spec ds m Hne H) as [HK HC].
  destruct (fm_find k m) as [fd|] eqn:E.
  - apply fm_find_In in E. destruct (HC k fd E) as [Hch _]. exact Hch.
  - rewrite fm_find_get in E. apply fm_get_none in E. rewrite fm_has_mem in E. apply mem_false in E.
    rewrite HK in E. rewrite first_occurrences_In in E. symmetry. apply no_factory_no_children. exact E.
Qed.

Lemma factory_entries_are_children ds m a : no_empty_factory ds -> build_factory_map ds = Ok m ->
  let children := filter (has_factory (s_name a)) (structs_of ds) in
  map snd (fo_entries (factory_of m a)) = map s_name children
  /\ map snd (fo_names (factory_of m a)) = map s_name children
  /\ map fst (fo_names (factory_of m a)) = map (fun c => skip_embedded (underline_name (s_name c))) children.
Proof.
  intros Hne H children. pose proof (factory_children ds m (s_name a) Hne H) as HC. fold children in HC.
  unfold factory_of. cbn [fo_entries fo_names]. rewrite HC, !map_map. repeat split.
Qed.

(* every mapping key of one factory is the SAME tuple of constant names, prefixed by the child: the constants the first child
   initialises its discriminator members with, in discriminator order *)
Lemma factory_entry_keys ds m a fd : no_empty_factory ds -> build_factory_map ds = Ok m -> fm_find (s_name a) m = Some fd ->
  (exists c0, find (has_factory (s_name a)) (structs_of ds) = Some c0
              /\ spec_discriminator c0 = Some (fd_names fd)
              /\ map (spec_value c0) (fd_names fd) = map Some (fd_values fd))
  /\ fo_discriminator (factory_of m a) = map (fun n => fix_name (av_text n)) (fd_names fd)
  /\ forall key child, In (key, child) (fo_entries (factory_of m a)) -> key = map (fun v => (child, av_text v)) (fd_values fd).
Proof.
  intros Hne H E. destruct (factory_map_spec ds m Hne H) as [_ HC].
  destruct (HC _ _ (fm_find_In _ _ _ E)) as [_ [c0 [H1 [H2 [H3 _]]]]].
  split; [exists c0; auto|].
  unfold factory_of. cbn [fo_discriminator fo_entries]. rewrite E. split; [reflexivity|].
  intros key child Hin. apply in_map_iff in Hin. destruct Hin as [c [Hc _]]. inversion Hc. reflexivity.
Qed.

(* boolean form of no_empty_factory, for the per-artefact instances *)
Definition no_empty_factoryb (ds : list decl) : bool :=
  forallb (fun d => match d with DStruct s => match s_factory_type s with Some f => negb (String.eqb f "") | None => true end | _ => true end) ds.
Lemma no_empty_factoryb_spec ds : no_empty_factoryb ds = true -> no_empty_factory ds.
Proof.
  unfold no_empty_factoryb, no_empty_factory. intros H s Hin. rewrite forallb_forall in H. specialize (H _ Hin). simpl in H.
  intro E. rewrite E in H. discriminate H.
Qed.

(* ================================================================================================================== *)
(* outline_ext *)

Lemma outline_ext ds ds' : ds = ds' -> outline ds = outline ds'.
Proof. intro H. rewrite H. reflexivity. Qed.

Section Local.
Variables tm tm' : list decl.

Lemma printer_local f : (forall n, In n (field_refs f) -> Layout.lookup tm n = Layout.lookup tm' n) -> printer_of tm f = printer_of tm' f.
Proof.
  unfold printer_of, field_refs. intro H. destruct (f_type f) as [i|t|a]; try reflexivity.
  rewrite (H t (or_introl eq_refl)). reflexivity.
Qed.

Variable s : struct.
Hypothesis Hrefs : forall n, In n (decl_refs (DStruct s)) -> Layout.lookup tm n = Layout.lookup tm' n.

Lemma base_local : base_struct tm s = base_struct tm' s.
Proof.
  unfold base_struct, lookup_struct. destruct (s_factory_type s) as [b|] eqn:E; [|reflexivity].
  rewrite (Hrefs b); [reflexivity|]. simpl. rewrite E. left. reflexivity.
Qed.

Lemma printer_local_in f : In f (s_fields s) -> printer_of tm f = printer_of tm' f.
Proof.
  intro Hin. apply printer_local. intros n Hn. apply Hrefs. simpl. apply in_or_app. right.
  apply in_flat_map. exists f. split; assumption.
Qed.

Lemma own_local f : own tm s f = own tm' s f.
Proof. unfold own, is_inherited. rewrite base_local. reflexivity. Qed.

Lemma non_const_incl (fs : list field) : incl (non_const fs) fs.
Proof. apply filter_incl. Qed.
Lemma drop_first_incl n (fs : list field) : incl (drop_first_named n fs) fs.
Proof.
  unfold drop_first_named. destruct fs as [|f r]; [apply incl_refl|].
  destruct (String.eqb n (f_name f)); [apply incl_tl|]; apply incl_refl.
Qed.
Lemma non_reserved_incl : incl (non_reserved s) (s_fields s).
Proof.
  unfold non_reserved, candidates. eapply incl_tran; [apply drop_first_incl|].
  eapply incl_tran; [apply filter_incl | apply non_const_incl].
Qed.

Lemma own_non_reserved_local : own_non_reserved tm s = own_non_reserved tm' s.
Proof. unfold own_non_reserved. apply filter_ext_in'. intros f _. apply own_local. Qed.
Lemma own_computed_local : own_computed tm s = own_computed tm' s.
Proof. unfold own_computed. apply filter_ext_in'. intros f _. apply own_local. Qed.
Lemma own_reserved_local : own_reserved tm s = own_reserved tm' s.
Proof. unfold own_reserved. apply filter_ext_in'. intros f _. apply own_local. Qed.

Lemma own_non_reserved_incl : incl (own_non_reserved tm' s) (s_fields s).
Proof. unfold own_non_reserved. eapply incl_tran; [apply filter_incl | apply non_reserved_incl]. Qed.
Lemma own_computed_incl : incl (own_computed tm' s) (s_fields s).
Proof. unfold own_computed. eapply incl_tran; [apply filter_incl|]. eapply incl_tran; [apply filter_incl | apply non_const_incl]. Qed.

Lemma getter_local f : In f (s_fields s) -> getter_of tm f = getter_of tm' f.
Proof. intro H. unfold getter_of. rewrite (printer_local_in f H). reflexivity. Qed.

Lemma struct_class_local : struct_class tm s = struct_class tm' s.
Proof.
  unfold struct_class. f_equal.
  - (* fields *) f_equal.
    + apply map_ext_in. intros f Hf. unfold const_outline. rewrite (printer_local_in f); [reflexivity|].
      unfold const_fields in Hf. apply filter_In in Hf. tauto.
    + f_equal.
      * unfold hints_outline. f_equal. rewrite own_non_reserved_local. apply flat_map_ext_in. intros f Hf.
        rewrite (printer_local_in f (own_non_reserved_incl f Hf)). reflexivity.
      * unfold struct_problems. rewrite base_local. f_equal. f_equal. f_equal. f_equal.
        apply flat_map_ext_in. intros f Hf. rewrite (printer_local_in f); [reflexivity|]. apply filter_In in Hf. tauto.
  - (* methods *) unfold struct_provider, has_ctor. rewrite own_reserved_local, own_non_reserved_local, own_computed_local.
    f_equal. f_equal. f_equal.
    + apply map_ext_in. intros f Hf. apply getter_local. exact (own_non_reserved_incl f Hf).
    + apply map_ext_in. intros f Hf. apply getter_local. exact (own_computed_incl f Hf).
Qed.
End Local.

Lemma class_local tm tm' d :
  (forall n, In n (decl_refs d) -> Layout.lookup tm n = Layout.lookup tm' n) -> decl_class tm d = decl_class tm' d.
Proof.
  destruct d as [n l c|n b vs at_ c|s]; intro H; try reflexivity.
  simpl. apply struct_class_local. exact H.
Qed.

(* pods and enums do not look at the schema at all *)
Lemma class_closed tm tm' d : (match d with DStruct _ => False | _ => True end) -> decl_class tm d = decl_class tm' d.
Proof. destruct d; intro H; [reflexivity | reflexivity | contradiction]. Qed.

(* ================================================================================================================== *)
(* non-vacuity: the C18 example schema (2 factories with interleaved descendants) has an Ok factory map and the expected outline *)
Lemma example_outline_shape :
  (exists m, build_factory_map example_schema = Ok m)
  /\ no_empty_factory example_schema
  /\ class_names (outline example_schema) = map decl_name example_schema
  /\ map fo_name (factory_entries (outline example_schema)) = ["ShapeFactory"%string; "EventFactory"%string]
  /\ map (fun f => map snd (fo_entries f)) (factory_entries (outline example_schema))
     = [["Circle"%string; "Square"%string]; ["Click"%string; "Scroll"%string]].
Proof.
  split; [destruct (build_factory_map example_schema) as [m| |k] eqn:E; [exists m; reflexivity | vm_compute in E; discriminate E | vm_compute in E; discriminate E]|].
  split; [exact example_no_empty_factory|].
  vm_compute. repeat split.
Qed.

(* ================================================================================================================== *)
(* the boolean equality decides Leibniz equality *)
Lemma list_eqb_sound {A} (e : A -> A -> bool) : (forall x y, e x y = true -> x = y) -> forall l1 l2, list_eqb e l1 l2 = true -> l1 = l2.
Proof.
  intros He l1. induction l1 as [|x r IH]; destruct l2 as [|y r']; simpl; intro H; try discriminate; [reflexivity|].
  apply andb_true_iff in H. destruct H as [H1 H2]. rewrite (He _ _ H1), (IH _ H2). reflexivity.
Qed.
Lemma pair_eqb_sound {A B} (ea : A -> A -> bool) (eb : B -> B -> bool) :
  (forall x y, ea x y = true -> x = y) -> (forall x y, eb x y = true -> x = y) -> forall p q, pair_eqb ea eb p q = true -> p = q.
Proof.
  intros Ha Hb [a b] [a' b']. unfold pair_eqb. simpl. intro H. apply andb_true_iff in H. destruct H as [H1 H2].
  rewrite (Ha _ _ H1), (Hb _ _ H2). reflexivity.
Qed.
Lemma option_eqb_sound {A} (e : A -> A -> bool) : (forall x y, e x y = true -> x = y) -> forall a b, option_eqb e a b = true -> a = b.
Proof. intros He [x|] [y|]; simpl; intro H; try discriminate; [rewrite (He _ _ H)|]; reflexivity. Qed.
Lemma str_eqb_sound x y : String.eqb x y = true -> x = y.
Proof. apply String.eqb_eq. Qed.
Lemma z_eqb_sound x y : Z.eqb x y = true -> x = y.
Proof. apply Z.eqb_eq. Qed.

Ltac split_ands H :=
  repeat match type of H with
         | (_ && _)%bool = true => let H1 := fresh "H" in apply andb_true_iff in H; destruct H as [H H1]
         end.

Lemma meth_eqb_sound a b : meth_eqb a b = true -> a = b.
Proof.
  destruct a, b. unfold meth_eqb. simpl. intro H. apply andb_true_iff in H. destruct H as [H H3]. apply andb_true_iff in H. destruct H as [H1 H2].
  rewrite (str_eqb_sound _ _ H1), (str_eqb_sound _ _ H2), (str_eqb_sound _ _ H3). reflexivity.
Qed.
Lemma oval_eqb_sound a b : oval_eqb a b = true -> a = b.
Proof.
  destruct a, b; simpl; intro H; try discriminate.
  - rewrite (z_eqb_sound _ _ H). reflexivity.
  - apply andb_true_iff in H. destruct H as [H1 H2]. rewrite (str_eqb_sound _ _ H1), (str_eqb_sound _ _ H2). reflexivity.
Qed.
Lemma cfield_eqb_sound a b : cfield_eqb a b = true -> a = b.
Proof.
  destruct a, b; simpl; intro H; try discriminate.
  - apply andb_true_iff in H. destruct H as [H1 H2]. rewrite (str_eqb_sound _ _ H1), (z_eqb_sound _ _ H2). reflexivity.
  - apply andb_true_iff in H. destruct H as [H H3]. apply andb_true_iff in H. destruct H as [H1 H2].
    rewrite (str_eqb_sound _ _ H1), (str_eqb_sound _ _ H2), (oval_eqb_sound _ _ H3). reflexivity.
  - apply andb_true_iff in H. destruct H as [H1 H2].
    rewrite (option_eqb_sound _ str_eqb_sound _ _ H1), (list_eqb_sound _ (pair_eqb_sound _ _ str_eqb_sound str_eqb_sound) _ _ H2). reflexivity.
  - rewrite (str_eqb_sound _ _ H). reflexivity.
  - rewrite (str_eqb_sound _ _ H). reflexivity.
Qed.
Lemma class_eqb_sound a b : class_eqb a b = true -> a = b.
Proof.
  destruct a, b. unfold class_eqb. simpl. intro H.
  apply andb_true_iff in H. destruct H as [H H4]. apply andb_true_iff in H. destruct H as [H H3]. apply andb_true_iff in H. destruct H as [H1 H2].
  rewrite (str_eqb_sound _ _ H1), (str_eqb_sound _ _ H2), (list_eqb_sound _ cfield_eqb_sound _ _ H3), (list_eqb_sound _ meth_eqb_sound _ _ H4).
  reflexivity.
Qed.
Lemma factory_eqb_sound a b : factory_eqb a b = true -> a = b.
Proof.
  destruct a, b. unfold factory_eqb. simpl. intro H.
  apply andb_true_iff in H. destruct H as [H H6]. apply andb_true_iff in H. destruct H as [H H5]. apply andb_true_iff in H. destruct H as [H H4].
  apply andb_true_iff in H. destruct H as [H H3]. apply andb_true_iff in H. destruct H as [H1 H2].
  rewrite (str_eqb_sound _ _ H1), (str_eqb_sound _ _ H2), (list_eqb_sound _ str_eqb_sound _ _ H3),
    (list_eqb_sound _ (pair_eqb_sound _ _ (list_eqb_sound _ (pair_eqb_sound _ _ str_eqb_sound str_eqb_sound)) str_eqb_sound) _ _ H4),
    (list_eqb_sound _ (pair_eqb_sound _ _ str_eqb_sound str_eqb_sound) _ _ H5), (list_eqb_sound _ meth_eqb_sound _ _ H6).
  reflexivity.
Qed.
Lemma entry_eqb_sound a b : entry_eqb a b = true -> a = b.
Proof.
  destruct a, b; simpl; intro H; try discriminate.
  - rewrite (class_eqb_sound _ _ H). reflexivity.
  - rewrite (factory_eqb_sound _ _ H). reflexivity.
  - rewrite (str_eqb_sound _ _ H). reflexivity.
  - rewrite (str_eqb_sound _ _ H). reflexivity.
Qed.
Lemma outline_eqb_sound a b : outline_eqb a b = true -> a = b.
Proof. apply list_eqb_sound. exact entry_eqb_sound. Qed.
