(* Proofs about Cats/Resolve.v (kept out of the model file).

   Specification side (fixed text, written from the property statement):
     reach fs p q        q is reachable from p through imports of files that exist
     dfs / dfs_all       the post-order depth-first listing with a visited set, imports taken in import order
     before r q l        r occurs strictly before q in l
   Implementation side: walk / parse / exit_flow / main of Cats/Resolve.v for any hole record satisfying ops_ok. *)
From Symv Require Import Cats.Resolve.
From Coq Require Import Lia.
Open Scope nat_scope.
Open Scope list_scope.

(* ------------------------------------------------------------------------------------------------------------------ *)
(* specification vocabulary *)

Inductive reach (fs : fsys) : path -> path -> Prop :=
| reach_refl p : reach fs p p
| reach_step p items r q : fs p = Parsed items -> In r (imports_of items) -> reach fs r q -> reach fs p q.

(* dfs fs visited p order visited': visiting p with `visited` already seen lists `order` (post-order) and ends with visited' *)
Inductive dfs (fs : fsys) : list path -> path -> list path -> list path -> Prop :=
| dfs_seen v p : In p v -> dfs fs v p [] v
| dfs_new v p items o v' :
    ~ In p v -> fs p = Parsed items -> dfs_all fs (p :: v) (imports_of items) o v' -> dfs fs v p (o ++ [p]) v'
with dfs_all (fs : fsys) : list path -> list path -> list path -> list path -> Prop :=
| dfs_nil v : dfs_all fs v [] [] v
| dfs_cons v q qs o1 v1 o2 v2 :
    dfs fs v q o1 v1 -> dfs_all fs v1 qs o2 v2 -> dfs_all fs v (q :: qs) (o1 ++ o2) v2.

Scheme dfs_mind := Minimality for dfs Sort Prop
  with dfs_all_mind := Minimality for dfs_all Sort Prop.
Combined Scheme dfs_mutind from dfs_mind, dfs_all_mind.

Definition dfs_spec (fs : fsys) (root : path) (order : list path) : Prop := exists v, dfs fs [] root order v.

Definition before (r q : path) (l : list path) : Prop := exists l1 l2 l3, l = l1 ++ r :: l2 ++ q :: l3.

(* the declarations a listing of files contributes *)
Definition decls_at (fs : fsys) (order : list path) : list decl := flat_map (fun q => decls_of (items_at fs q)) order.

(* ------------------------------------------------------------------------------------------------------------------ *)
(* small list facts *)

Lemma mem_In : forall p l, mem p l = true <-> In p l.
Proof.
  intros p l. unfold mem. rewrite existsb_exists. split.
  - intros [x [Hin Heq]]. apply String.eqb_eq in Heq. subst. exact Hin.
  - intros Hin. exists p. split; [exact Hin | apply String.eqb_refl].
Qed.

Lemma mem_false : forall p l, mem p l = false <-> ~ In p l.
Proof.
  intros p l. rewrite <- mem_In. destruct (mem p l); split; intros; try discriminate; try congruence.
Qed.

Lemma nodup_app : forall (a b : list path), NoDup a -> NoDup b -> (forall x, In x a -> ~ In x b) -> NoDup (a ++ b).
Proof.
  induction a as [|x a IH]; intros b Ha Hb Hd; simpl; [exact Hb|].
  inversion Ha; subst. constructor.
  - rewrite in_app_iff. intros [H | H]; [contradiction|]. apply (Hd x); [left; reflexivity | exact H].
  - apply IH; [assumption | assumption |]. intros y Hy. apply Hd. right. exact Hy.
Qed.

Lemma filter_len : forall (f : path -> bool) l, length (filter f l) <= length l.
Proof. intros f. induction l as [|a l IH]; simpl; [lia|]. destruct (f a); simpl; lia. Qed.

Lemma before_app_r : forall r q l l', before r q l -> before r q (l ++ l').
Proof.
  intros r q l l' [l1 [l2 [l3 H]]]. subst. exists l1, l2, (l3 ++ l').
  repeat rewrite <- app_assoc. simpl. repeat rewrite <- app_assoc. reflexivity.
Qed.

Lemma before_app_l : forall r q l l', before r q l -> before r q (l' ++ l).
Proof.
  intros r q l l' [l1 [l2 [l3 H]]]. subst. exists (l' ++ l1), l2, l3. repeat rewrite <- app_assoc. reflexivity.
Qed.

Lemma before_split : forall r q l l', In r l -> In q l' -> before r q (l ++ l').
Proof.
  intros r q l l' Hr Hq. apply in_split in Hr. destruct Hr as [a1 [a2 Hr]]. apply in_split in Hq. destruct Hq as [b1 [b2 Hq]].
  subst. exists a1, (a2 ++ b1), b2. repeat rewrite <- app_assoc. simpl. repeat rewrite <- app_assoc. reflexivity.
Qed.

(* ------------------------------------------------------------------------------------------------------------------ *)
(* facts about the specification (dfs), by mutual induction *)

Section Spec.
Variable fs : fsys.

(* the visited set grows by exactly the files listed *)
Lemma dfs_visited :
  (forall v p o v', dfs fs v p o v' -> forall q, In q v' <-> In q v \/ In q o)
  /\ (forall v qs o v', dfs_all fs v qs o v' -> forall q, In q v' <-> In q v \/ In q o).
Proof.
  apply dfs_mutind.
  - intros v p Hin q. simpl. tauto.
  - intros v p items o v' Hnot Hfs _ IH q. rewrite IH, in_app_iff. simpl. tauto.
  - intros v q. simpl. tauto.
  - intros v q qs o1 v1 o2 v2 _ IH1 _ IH2 x. rewrite IH2, IH1, in_app_iff. tauto.
Qed.

(* no file is listed twice, none that was already visited is listed *)
Lemma dfs_nodup :
  (forall v p o v', dfs fs v p o v' -> NoDup o /\ forall q, In q o -> ~ In q v)
  /\ (forall v qs o v', dfs_all fs v qs o v' -> NoDup o /\ forall q, In q o -> ~ In q v).
Proof.
  apply dfs_mutind.
  - intros v p Hin. split; [constructor | intros q []].
  - intros v p items o v' Hnot Hfs _ [IHn IHd]. split.
    + apply nodup_app; [exact IHn | repeat constructor; intros [] |].
      intros x Hx [Hp | []]. subst x. apply (IHd p Hx). left. reflexivity.
    + intros q Hq Hv. apply in_app_iff in Hq. destruct Hq as [Hq | [Hq | []]].
      * apply (IHd q Hq). right. exact Hv.
      * subst q. contradiction.
  - intros v. split; [constructor | intros q []].
  - intros v q qs o1 v1 o2 v2 H1 [IH1n IH1d] _ [IH2n IH2d]. split.
    + apply nodup_app; [assumption | assumption |]. intros x Hx1 Hx2.
      apply (IH2d x Hx2). apply (proj1 dfs_visited _ _ _ _ H1). right. exact Hx1.
    + intros x Hx Hv. apply in_app_iff in Hx. destruct Hx as [Hx | Hx].
      * exact (IH1d x Hx Hv).
      * apply (IH2d x Hx). apply (proj1 dfs_visited _ _ _ _ H1). left. exact Hv.
Qed.

(* every listed file exists *)
Lemma dfs_parsed :
  (forall v p o v', dfs fs v p o v' -> forall q, In q o -> exists items, fs q = Parsed items)
  /\ (forall v qs o v', dfs_all fs v qs o v' -> forall q, In q o -> exists items, fs q = Parsed items).
Proof.
  apply dfs_mutind.
  - intros v p _ q [].
  - intros v p items o v' _ Hfs _ IH q Hq. apply in_app_iff in Hq. destruct Hq as [Hq | [Hq | []]].
    + exact (IH q Hq).
    + subst q. exists items. exact Hfs.
  - intros v q [].
  - intros v q qs o1 v1 o2 v2 _ IH1 _ IH2 x Hx. apply in_app_iff in Hx. destruct Hx as [Hx | Hx]; auto.
Qed.

(* only reachable files are listed *)
Lemma dfs_sound :
  (forall v p o v', dfs fs v p o v' -> forall q, In q o -> reach fs p q)
  /\ (forall v qs o v', dfs_all fs v qs o v' -> forall q, In q o -> exists r, In r qs /\ reach fs r q).
Proof.
  apply dfs_mutind.
  - intros v p _ q [].
  - intros v p items o v' _ Hfs _ IH q Hq. apply in_app_iff in Hq. destruct Hq as [Hq | [Hq | []]].
    + destruct (IH q Hq) as [r [Hr Hreach]]. exact (reach_step fs p items r q Hfs Hr Hreach).
    + subst q. apply reach_refl.
  - intros v q [].
  - intros v q qs o1 v1 o2 v2 _ IH1 _ IH2 x Hx. apply in_app_iff in Hx. destruct Hx as [Hx | Hx].
    + exists q. split; [left; reflexivity | exact (IH1 x Hx)].
    + destruct (IH2 x Hx) as [r [Hr Hreach]]. exists r. split; [right; exact Hr | exact Hreach].
Qed.

(* the visit ends with its target visited and with every import of every listed file visited *)
Definition imports_in (o v' : list path) : Prop :=
  forall q items r, In q o -> fs q = Parsed items -> In r (imports_of items) -> In r v'.

Lemma dfs_closed :
  (forall v p o v', dfs fs v p o v' -> In p v' /\ imports_in o v')
  /\ (forall v qs o v', dfs_all fs v qs o v' -> (forall q, In q qs -> In q v') /\ imports_in o v').
Proof.
  apply dfs_mutind.
  - intros v p Hin. split; [exact Hin | intros q items r []].
  - intros v p items o v' _ Hfs Hall [IHq IHc]. split.
    + apply (proj2 dfs_visited _ _ _ _ Hall). left. left. reflexivity.
    + intros q items' r Hq Hfs' Hr. apply in_app_iff in Hq. destruct Hq as [Hq | [Hq | []]].
      * exact (IHc q items' r Hq Hfs' Hr).
      * subst q. rewrite Hfs in Hfs'. inversion Hfs'; subst items'. exact (IHq r Hr).
  - intros v. split; [intros q [] | intros q items r []].
  - intros v q qs o1 v1 o2 v2 _ [IH1p IH1c] H2 [IH2q IH2c]. split.
    + intros x [Hx | Hx].
      * subst x. apply (proj2 dfs_visited _ _ _ _ H2). left. exact IH1p.
      * exact (IH2q x Hx).
    + intros x items r Hx Hfs Hr. apply in_app_iff in Hx. destruct Hx as [Hx | Hx].
      * apply (proj2 dfs_visited _ _ _ _ H2). left. exact (IH1c x items r Hx Hfs Hr).
      * exact (IH2c x items r Hx Hfs Hr).
Qed.

(* an import of a listed file was visited earlier, or lies on a cycle through that file, or is listed before it *)
Definition imports_first (v o : list path) : Prop :=
  forall q items r, In q o -> fs q = Parsed items -> In r (imports_of items) -> In r v \/ reach fs r q \/ before r q o.

Lemma dfs_imports_first :
  (forall v p o v', dfs fs v p o v' -> imports_first v o)
  /\ (forall v qs o v', dfs_all fs v qs o v' -> imports_first v o).
Proof.
  apply dfs_mutind.
  - intros v p _ q items r [].
  - intros v p items o v' Hnot Hfs Hall IH q items' r Hq Hfs' Hr.
    apply in_app_iff in Hq. destruct Hq as [Hq | [Hq | []]].
    + destruct (IH q items' r Hq Hfs' Hr) as [[Hp | Hv] | [Hreach | Hb]].
      * subst r. right. left. destruct (proj2 dfs_sound _ _ _ _ Hall q Hq) as [r' [Hr' Hreach]].
        exact (reach_step fs p items r' q Hfs Hr' Hreach).
      * left. exact Hv.
      * right. left. exact Hreach.
      * right. right. apply before_app_r. exact Hb.
    + subst q. rewrite Hfs in Hfs'. inversion Hfs'; subst items'.
      assert (Hin : In r v') by exact (proj1 (proj2 dfs_closed _ _ _ _ Hall) r Hr).
      apply (proj2 dfs_visited _ _ _ _ Hall) in Hin. destruct Hin as [[Hp | Hv] | Ho].
      * subst r. right. left. apply reach_refl.
      * left. exact Hv.
      * right. right. apply before_split; [exact Ho | left; reflexivity].
  - intros v q items r [].
  - intros v q qs o1 v1 o2 v2 H1 IH1 H2 IH2 x items r Hx Hfs Hr. apply in_app_iff in Hx. destruct Hx as [Hx | Hx].
    + destruct (IH1 x items r Hx Hfs Hr) as [Hv | [Hreach | Hb]]; [left; exact Hv | right; left; exact Hreach |].
      right. right. apply before_app_r. exact Hb.
    + destruct (IH2 x items r Hx Hfs Hr) as [Hv1 | [Hreach | Hb]].
      * apply (proj1 dfs_visited _ _ _ _ H1) in Hv1. destruct Hv1 as [Hv | Ho1]; [left; exact Hv|].
        right. right. apply before_split; assumption.
      * right. left. exact Hreach.
      * right. right. apply before_app_l. exact Hb.
Qed.

(* the listing is a function of the graph *)
Lemma dfs_deterministic :
  (forall v p o v', dfs fs v p o v' -> forall o2 v2, dfs fs v p o2 v2 -> o2 = o /\ v2 = v')
  /\ (forall v qs o v', dfs_all fs v qs o v' -> forall o2 v2, dfs_all fs v qs o2 v2 -> o2 = o /\ v2 = v').
Proof.
  apply dfs_mutind.
  - intros v p Hin o2 v2 H. inversion H; subst; [split; reflexivity | contradiction].
  - intros v p items o v' Hnot Hfs _ IH o2 v2 H. inversion H; subst; [contradiction|].
    rewrite Hfs in H1. inversion H1; subst items0. destruct (IH _ _ H2) as [Ho Hv]. subst. split; reflexivity.
  - intros v o2 v2 H. inversion H; subst. split; reflexivity.
  - intros v q qs o1 v1 o2 v2 _ IH1 _ IH2 o3 v3 H. inversion H; subst.
    destruct (IH1 _ _ H3) as [Ho Hv]. subst. destruct (IH2 _ _ H6) as [Ho Hv]. subst. split; reflexivity.
Qed.

(* at the top (nothing visited yet) the listing is exactly the reachable set *)
Lemma dfs_top_complete : forall root o v', dfs fs [] root o v' -> forall q, In q o <-> reach fs root q.
Proof.
  intros root o v' H q. split; [exact (proj1 dfs_sound _ _ _ _ H q)|].
  assert (Hvo : forall x, In x v' <-> In x o).
  { intros x. rewrite (proj1 dfs_visited _ _ _ _ H x). simpl. tauto. }
  destruct (proj1 dfs_closed _ _ _ _ H) as [Hroot Hclosed].
  assert (Hgen : forall p x, reach fs p x -> In p o -> In x o).
  { intros p x Hreach. induction Hreach as [p | p items r x Hfs Hr _ IH]; intros Hp; [exact Hp|].
    apply IH. apply Hvo. exact (Hclosed p items r Hp Hfs Hr). }
  intros Hreach. apply (Hgen root q Hreach). apply Hvo. exact Hroot.
Qed.
End Spec.

(* ------------------------------------------------------------------------------------------------------------------ *)
(* the model, for a hole record with the intended values *)

Definition order_c : path -> list item -> list path := fun p _ => [p].

(* visit_imports once the import tree is recognised *)
Fixpoint thread {A} (rec : list path -> path -> outcome A) (qs : list path) (pr : list path) : outcome A :=
  match qs with
  | [] => Done [] pr
  | q :: rest =>
    match rec pr q with
    | Done o1 p1 => match thread rec rest p1 with Done o2 p2 => Done (o1 ++ o2) p2 | e => e end
    | e => e
    end
  end.

Definition map_outcome {A B} (g : list A -> list B) (r : outcome A) : outcome B :=
  match r with Done out pr => Done (g out) pr | Failed f => Failed f | OutOfFuel => OutOfFuel end.

Section Model.
Variable o : resolve_ops.
Hypothesis Hok : ops_ok o.
Variable fs : fsys.

Lemma visit_imports_ok : forall A (rec : list path -> path -> outcome A) qs pr, visit_imports o rec qs pr = thread rec qs pr.
Proof.
  destruct Hok as [_ [_ [Himp [Hchild _]]]].
  intros A rec. induction qs as [|q rest IH]; intros pr; simpl; [reflexivity|].
  unfold import_target. rewrite Himp, Hchild. simpl.
  destruct (rec pr q); try reflexivity. rewrite IH. reflexivity.
Qed.

Lemma statements_ok : forall items, statements o items = Some items.
Proof.
  destruct Hok as [_ [Hstart _]]. intros [|i [|j rest]]; simpl; try rewrite Hstart; reflexivity.
Qed.

Lemma walk_unfold : forall A (c : path -> list item -> list A) f pr p,
  walk o c fs (S f) pr p =
  if mem p pr then Done [] pr
  else match fs p with
       | Missing => Failed FCaught
       | Unparsable => Failed FUncaught
       | Parsed items =>
         match thread (walk o c fs f) (imports_of items) (p :: pr) with
         | Done out pr' => Done (out ++ c p items) pr'
         | e => e
         end
       end.
Proof.
  intros A c f pr p. simpl. destruct Hok as [Hskip _]. rewrite Hskip.
  destruct (mem p pr); simpl; [reflexivity|].
  destruct (fs p); try reflexivity. rewrite statements_ok, visit_imports_ok. reflexivity.
Qed.

(* any contribution function yields the per-file contributions of the order listing *)
Lemma thread_map : forall A B (g : list A -> list B) (rec1 : list path -> path -> outcome B) (rec2 : list path -> path -> outcome A),
  g [] = [] -> (forall a b, g (a ++ b) = g a ++ g b) ->
  (forall pr p, rec1 pr p = map_outcome g (rec2 pr p)) ->
  forall qs pr, thread rec1 qs pr = map_outcome g (thread rec2 qs pr).
Proof.
  intros A B g rec1 rec2 Hnil Happ Hrec. induction qs as [|q rest IH]; intros pr; simpl; [rewrite Hnil; reflexivity|].
  rewrite Hrec. destruct (rec2 pr q) as [o1 p1 | f |]; simpl; try reflexivity.
  rewrite IH. destruct (thread rec2 rest p1); simpl; try reflexivity. rewrite Happ. reflexivity.
Qed.

Lemma walk_contrib : forall A (c : path -> list item -> list A) f pr p,
  walk o c fs f pr p = map_outcome (flat_map (fun q => c q (items_at fs q))) (walk o order_c fs f pr p).
Proof.
  intros A c. induction f as [|f IH]; intros pr p; [reflexivity|].
  rewrite !walk_unfold. destruct (mem p pr); [reflexivity|].
  destruct (fs p) as [| |items] eqn:Hfs; try reflexivity.
  rewrite (thread_map _ _ (flat_map (fun q => c q (items_at fs q))) (walk o c fs f) (walk o order_c fs f)
             eq_refl (fun a b => flat_map_app _ a b) IH).
  destruct (thread (walk o order_c fs f) (imports_of items) (p :: pr)); simpl; try reflexivity.
  rewrite flat_map_app. simpl. replace (items_at fs p) with items by (unfold items_at; rewrite Hfs; reflexivity).
  rewrite app_nil_r. reflexivity.
Qed.

(* the model computes the specification's listing *)
Lemma thread_dfs_all : forall (rec : list path -> path -> outcome path),
  (forall pr p out pr', rec pr p = Done out pr' -> dfs fs pr p out pr') ->
  forall qs pr out pr', thread rec qs pr = Done out pr' -> dfs_all fs pr qs out pr'.
Proof.
  intros rec Hrec. induction qs as [|q rest IH]; intros pr out pr' H; simpl in H.
  - inversion H; subst. constructor.
  - destruct (rec pr q) as [o1 p1 | |] eqn:H1; try discriminate.
    destruct (thread rec rest p1) as [o2 p2 | |] eqn:H2; try discriminate.
    inversion H; subst. econstructor; [apply Hrec; exact H1 | apply IH; exact H2].
Qed.

Lemma walk_dfs : forall f pr p out pr', walk o order_c fs f pr p = Done out pr' -> dfs fs pr p out pr'.
Proof.
  induction f as [|f IH]; intros pr p out pr' H; [discriminate|].
  rewrite walk_unfold in H. destruct (mem p pr) eqn:Hmem.
  - inversion H; subst. apply dfs_seen. apply mem_In. exact Hmem.
  - destruct (fs p) as [| |items] eqn:Hfs; try discriminate.
    destruct (thread (walk o order_c fs f) (imports_of items) (p :: pr)) as [o1 p1 | |] eqn:Ht; try discriminate.
    inversion H; subst. apply dfs_new with items; [apply mem_false; exact Hmem | exact Hfs |].
    exact (thread_dfs_all _ IH _ _ _ _ Ht).
Qed.

(* a failure is caused by a reachable file that is missing or unparsable *)
Definition bad (q : path) (f : failure) : Prop :=
  match f with FCaught => fs q = Missing | FUncaught => fs q = Unparsable end.

Lemma thread_failed : forall A (rec : list path -> path -> outcome A) qs pr f,
  thread rec qs pr = Failed f -> exists r pr1, In r qs /\ rec pr1 r = Failed f.
Proof.
  intros A rec. induction qs as [|q rest IH]; intros pr f H; simpl in H; [discriminate|].
  destruct (rec pr q) as [o1 p1 | f1 |] eqn:H1; try discriminate.
  - destruct (thread rec rest p1) as [o2 p2 | f2 |] eqn:H2; try discriminate.
    inversion H; subst. destruct (IH _ _ H2) as [r [pr1 [Hr Hf]]]. exists r, pr1. split; [right; exact Hr | exact Hf].
  - inversion H; subst. exists q, pr. split; [left; reflexivity | exact H1].
Qed.

Lemma walk_failed : forall f pr p e, walk o order_c fs f pr p = Failed e -> exists q, reach fs p q /\ bad q e.
Proof.
  induction f as [|f IH]; intros pr p e H; [discriminate|].
  rewrite walk_unfold in H. destruct (mem p pr); [discriminate|].
  destruct (fs p) as [| |items] eqn:Hfs.
  - inversion H; subst. exists p. split; [apply reach_refl | exact Hfs].
  - inversion H; subst. exists p. split; [apply reach_refl | exact Hfs].
  - destruct (thread (walk o order_c fs f) (imports_of items) (p :: pr)) as [o1 p1 | f1 |] eqn:Ht; try discriminate.
    inversion H; subst. destruct (thread_failed _ _ _ _ _ Ht) as [r [pr1 [Hr Hf]]].
    destruct (IH _ _ _ Hf) as [q [Hreach Hbad]]. exists q. split; [exact (reach_step fs p items r q Hfs Hr Hreach) | exact Hbad].
Qed.

(* ---- termination: fuel = #files + 1 suffices on any graph ---- *)

Definition remaining (files pr : list path) : nat := length (filter (fun q => negb (mem q pr)) files).

Lemma remaining_incl : forall files pr pr', (forall q, In q pr -> In q pr') -> remaining files pr' <= remaining files pr.
Proof.
  intros files pr pr' Hincl. unfold remaining. induction files as [|a files IH]; simpl; [lia|].
  destruct (mem a pr) eqn:H1; simpl.
  - assert (H2 : mem a pr' = true) by (apply mem_In, Hincl, mem_In; exact H1). rewrite H2. simpl. exact IH.
  - destruct (mem a pr'); simpl; lia.
Qed.

Lemma remaining_cons : forall files pr p, In p files -> ~ In p pr -> remaining files (p :: pr) < remaining files pr.
Proof.
  intros files pr p Hin Hnot.
  assert (Hle : forall l, remaining l (p :: pr) <= remaining l pr).
  { intros l. apply remaining_incl. intros q Hq. right. exact Hq. }
  induction files as [|a files IH]; [destruct Hin|].
  assert (Hcons : mem a (p :: pr) = (String.eqb a p || mem a pr)%bool) by reflexivity.
  unfold remaining in *. cbn [filter]. rewrite Hcons. destruct Hin as [Ha | Hin].
  - subst a. rewrite String.eqb_refl. apply mem_false in Hnot. rewrite Hnot. cbn [orb negb length].
    specialize (Hle files). unfold remaining in Hle. lia.
  - specialize (IH Hin). destruct (String.eqb a p); destruct (mem a pr); cbn [orb negb length]; lia.
Qed.

Section Fuel.
Variable files : list path.
Hypothesis Hdom : forall p items, fs p = Parsed items -> In p files.

Lemma thread_fuel : forall (rec : list path -> path -> outcome path) (n : nat),
  (forall pr p, remaining files pr < n -> rec pr p <> OutOfFuel) ->
  (forall pr p out pr', rec pr p = Done out pr' -> forall q, In q pr -> In q pr') ->
  forall qs pr, remaining files pr < n -> thread rec qs pr <> OutOfFuel.
Proof.
  intros rec n Hrec Hmono. induction qs as [|q rest IH]; intros pr Hlt; simpl; [discriminate|].
  destruct (rec pr q) as [o1 p1 | f1 |] eqn:H1; [| discriminate | exfalso; exact (Hrec pr q Hlt H1)].
  assert (Hlt1 : remaining files p1 < n).
  { pose proof (remaining_incl files pr p1 (Hmono _ _ _ _ H1)). lia. }
  specialize (IH p1 Hlt1). destruct (thread rec rest p1); [discriminate | discriminate | exact IH].
Qed.

Lemma walk_fuel : forall f pr p, remaining files pr < f -> walk o order_c fs f pr p <> OutOfFuel.
Proof.
  induction f as [|f IH]; intros pr p Hlt; [lia|].
  rewrite walk_unfold. destruct (mem p pr) eqn:Hmem; [discriminate|].
  destruct (fs p) as [| |items] eqn:Hfs; try discriminate.
  assert (Hlt1 : remaining files (p :: pr) < f).
  { pose proof (remaining_cons files pr p (Hdom _ _ Hfs) (proj1 (mem_false _ _) Hmem)). lia. }
  assert (Hmono : forall pr0 p0 out pr', walk o order_c fs f pr0 p0 = Done out pr' -> forall q, In q pr0 -> In q pr').
  { intros pr0 p0 out pr' H q Hq. apply (proj1 (dfs_visited fs) _ _ _ _ (walk_dfs _ _ _ _ _ H)). left. exact Hq. }
  pose proof (thread_fuel (walk o order_c fs f) f IH Hmono (imports_of items) (p :: pr) Hlt1) as Ht.
  destruct (thread (walk o order_c fs f) (imports_of items) (p :: pr)); [discriminate | discriminate | exact Ht].
Qed.

Lemma walk_top_fuel : forall root, walk o order_c fs (S (length files)) [] root <> OutOfFuel.
Proof.
  intros root. apply walk_fuel. unfold remaining.
  pose proof (filter_len (fun q => negb (mem q [])) files). lia.
Qed.
End Fuel.

(* ---- the property theorems, for parse ---- *)

Lemma parse_order : forall files root ds pr,
  parse o files fs root = Done ds pr ->
  exists order, walk o order_c fs (S (length files)) [] root = Done order pr /\ ds = decls_at fs order.
Proof.
  intros files root ds pr H. unfold parse in H. rewrite walk_contrib in H.
  destruct (walk o order_c fs (S (length files)) [] root) as [order pr' | |]; simpl in H; try discriminate.
  inversion H; subst. exists order. split; reflexivity.
Qed.

Theorem resolve_order : forall files root ds pr,
  parse o files fs root = Done ds pr -> exists order, dfs_spec fs root order /\ ds = decls_at fs order.
Proof.
  intros files root ds pr H. destruct (parse_order _ _ _ _ H) as [order [Hw Hds]].
  exists order. split; [exists pr; exact (walk_dfs _ _ _ _ _ Hw) | exact Hds].
Qed.

Theorem resolve_once : forall files root ds pr,
  parse o files fs root = Done ds pr ->
  exists order, ds = decls_at fs order /\ NoDup order /\ forall q, In q order <-> reach fs root q.
Proof.
  intros files root ds pr H. destruct (parse_order _ _ _ _ H) as [order [Hw Hds]].
  pose proof (walk_dfs _ _ _ _ _ Hw) as Hd.
  exists order. split; [exact Hds|]. split; [exact (proj1 (proj1 (dfs_nodup fs) _ _ _ _ Hd)) | exact (dfs_top_complete fs _ _ _ Hd)].
Qed.

Theorem resolve_imports_first : forall files root ds pr,
  parse o files fs root = Done ds pr ->
  exists order, ds = decls_at fs order /\
    forall q items r, In q order -> fs q = Parsed items -> In r (imports_of items) -> ~ reach fs r q -> before r q order.
Proof.
  intros files root ds pr H. destruct (parse_order _ _ _ _ H) as [order [Hw Hds]].
  pose proof (walk_dfs _ _ _ _ _ Hw) as Hd.
  exists order. split; [exact Hds|]. intros q items r Hq Hfs Hr Hnot.
  destruct (proj1 (dfs_imports_first fs) _ _ _ _ Hd q items r Hq Hfs Hr) as [[] | [Hreach | Hb]]; [contradiction | exact Hb].
Qed.

Theorem resolve_terminates : forall files root,
  (forall p items, fs p = Parsed items -> In p files) -> parse o files fs root <> OutOfFuel.
Proof.
  intros files root Hdom H. unfold parse in H. rewrite walk_contrib in H.
  pose proof (walk_top_fuel files Hdom root) as Hf.
  destruct (walk o order_c fs (S (length files)) [] root); simpl in H; try discriminate. apply Hf. reflexivity.
Qed.

(* parsing succeeds exactly when every reachable file exists and parses *)
Theorem resolve_succeeds_iff : forall files root,
  (forall p items, fs p = Parsed items -> In p files) ->
  ((exists ds pr, parse o files fs root = Done ds pr) <-> (forall q, reach fs root q -> exists items, fs q = Parsed items)).
Proof.
  intros files root Hdom. split.
  - intros [ds [pr H]] q Hq. destruct (parse_order _ _ _ _ H) as [order [Hw _]].
    pose proof (walk_dfs _ _ _ _ _ Hw) as Hd.
    apply (proj1 (dfs_parsed fs) _ _ _ _ Hd q). apply (dfs_top_complete fs _ _ _ Hd). exact Hq.
  - intros Hall. pose proof (resolve_terminates files root Hdom) as Hterm.
    unfold parse in *. rewrite walk_contrib in *.
    destruct (walk o order_c fs (S (length files)) [] root) as [order pr | e |] eqn:Hw.
    + eexists. eexists. reflexivity.
    + destruct (walk_failed _ _ _ _ Hw) as [q [Hreach Hbad]]. destruct (Hall q Hreach) as [items Hfs].
      destruct e; simpl in Hbad; congruence.
    + exfalso. apply Hterm. reflexivity.
Qed.

Theorem resolve_failure_cause : forall files root e,
  parse o files fs root = Failed e -> exists q, reach fs root q /\ bad q e.
Proof.
  intros files root e H. unfold parse in H. rewrite walk_contrib in H.
  destruct (walk o order_c fs (S (length files)) [] root) as [order pr | e' |] eqn:Hw; simpl in H; try discriminate.
  inversion H; subst. exact (walk_failed _ _ _ _ Hw).
Qed.

(* ---- main's exit status ---- *)

Theorem exit_code_spec : forall st pre post outp gen gen_ok,
  let code := fst (exit_flow o st pre post outp gen gen_ok) in
  let written := snd (exit_flow o st pre post outp gen gen_ok) in
  (code = 0%Z <-> st = PSOk /\ pre = true /\ post = true /\ (outp && gen = true -> gen_ok = true))
  /\ (code = 2%Z <-> st = PSOk /\ (pre = false \/ post = false))
  /\ (st <> PSOk -> code = 1%Z)
  /\ (written = true <-> code = 0%Z /\ outp = true).
Proof.
  destruct Hok as [_ [_ [_ [_ [Hp Hv]]]]].
  intros st pre post outp gen gen_ok. unfold exit_flow. rewrite Hp, Hv. unfold exit_uncaught.
  destruct st, pre, post, outp, gen, gen_ok; cbn; repeat split; intros;
    repeat match goal with
           | H : _ /\ _ |- _ => destruct H
           | H : _ \/ _ |- _ => destruct H
           | H : true = true -> _ |- _ => specialize (H eq_refl)
           end; try discriminate; try congruence; auto.
Qed.

Theorem main_exit_spec : forall files root outp gen gen_ok,
  (forall p items, fs p = Parsed items -> In p files) ->
  let all_parse := forall q, reach fs root q -> exists items, fs q = Parsed items in
  let ds := match parse o files fs root with Done ds _ => ds | _ => [] end in
  let code := fst (main o files fs root outp gen gen_ok) in
  let written := snd (main o files fs root outp gen gen_ok) in
  (code = 0%Z <-> all_parse /\ validate_pre ds = true /\ validate_post ds = true /\ (outp && gen = true -> gen_ok = true))
  /\ (code = 2%Z <-> all_parse /\ (validate_pre ds = false \/ validate_post ds = false))
  /\ (~ all_parse -> code = 1%Z)
  /\ (written = true <-> code = 0%Z /\ outp = true).
Proof.
  intros files root outp gen gen_ok Hdom all_parse ds code written.
  assert (Hst : status_of (parse o files fs root) = PSOk <-> all_parse).
  { unfold all_parse. rewrite <- (resolve_succeeds_iff files root Hdom).
    destruct (parse o files fs root) as [ds' pr' | [|] |]; simpl; split; intros H; try discriminate; try reflexivity;
      try (match type of H with ex _ => destruct H as [a [b H]]; discriminate end). eexists. eexists. reflexivity. }
  pose proof (exit_code_spec (status_of (parse o files fs root)) (validate_pre ds) (validate_post ds) outp gen gen_ok) as Hspec.
  unfold code, written, main. fold ds. cbv zeta in Hspec. destruct Hspec as [H0 [H2 [H1 Hw]]].
  rewrite Hst in H0, H2. split; [exact H0|]. split; [exact H2|]. split; [|exact Hw].
  intros Hnot. apply H1. intros Heq. apply Hnot. apply Hst. exact Heq.
Qed.
End Model.
