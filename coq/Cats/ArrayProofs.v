(* Array layer of the layout interpreter: write/read round trips, the strict-order check, padding and size laws.
   Generic in the element codec (hypotheses of the section); instantiated by the struct layer and by C12. *)
From Symv Require Import Base.Bytes Base.PyOps Base.BytesLemmas Cats.Layout.
From Coq Require Import Lia ZifyBool Sorted.
Open Scope Z_scope.

Lemma zskipn_app (a b : bytes) : zskipn (Z.of_nat (length a)) (a ++ b) = b.
Proof.
  unfold zskipn. rewrite app_length. destruct b as [|y b].
  - rewrite app_nil_r. destruct (Z.leb_spec (Z.of_nat (length a + length (@nil Z))) (Z.of_nat (length a))); [reflexivity|].
    rewrite Nat2Z.id. apply skipn_all.
  - destruct (Z.leb_spec (Z.of_nat (length a + length (y :: b))) (Z.of_nat (length a))) as [H|H]; [cbn [length] in H; lia|].
    rewrite Nat2Z.id. rewrite skipn_app, skipn_all, Nat.sub_diag. reflexivity.
Qed.

Lemma zfirstn_app (a b : bytes) : zfirstn (Z.of_nat (length a)) (a ++ b) = a.
Proof.
  unfold zfirstn. rewrite app_length.
  destruct (Z.leb_spec (Z.of_nat (length a + length b)) (Z.of_nat (length a))) as [H|H].
  - assert (length b = 0%nat) by lia. destruct b; [apply app_nil_r|discriminate].
  - rewrite Nat2Z.id. rewrite firstn_app, Nat.sub_diag, firstn_all. cbn. apply app_nil_r.
Qed.

Lemma zskipn_0 (l : bytes) : zskipn 0 l = l.
Proof. unfold zskipn. destruct l; reflexivity. Qed.

Lemma zeros_length n : length (zeros n) = n.
Proof. apply repeat_length. Qed.

Section ArrayRT.
Variable OP : ops.
Variable tm : list decl.
Variable R : rec_ops.
Variable a : array.
Variable adm : value -> Prop.

(* what the regenerated operators must mean (discharged for ops_now by computation in the instantiation) *)
Hypothesis size_bad_spec : forall s, size_bad OP s = (s <=? 0).
Hypothesis size_bad_v_spec : forall s, size_bad_v OP s = (s <=? 0).
Hypothesis order_same : forall p c, order_bad_r OP p c = order_bad_w OP p c.
Hypothesis rv_is_last_spec : forall s len, rv_is_last OP s len = (len <=? s).
Hypothesis rv_overrun_spec : forall al len, rv_overrun OP al len = (len <? al).
Hypothesis align_spec : forall s al, 0 <= s -> 0 < al -> s <= align_up OP s al < s + al.

(* the element codec round-trips admissible elements, consumes exactly its own bytes, and reports their number *)
Hypothesis elem_rt : forall e be rest, adm e -> elem_enc R a e = Ok be ->
  elem_dec tm R a (be ++ rest) = Ok e /\ elem_size R a e = Ok (Z.of_nat (length be)) /\ (0 < length be)%nat.

Definition prev_agree (pw pr : option keyv) : Prop := a_sort_key a = None \/ pw = pr.

Lemma elem_key_none e : a_sort_key a = None -> elem_key tm R a e = Ok None.
Proof. intros H. unfold elem_key. now rewrite H. Qed.

(* counted arrays: what write_array_impl emits, read_array_impl with the same count reads back; the order test is the same test *)
Lemma write_read_count : forall l n pw pr b rest i fuel,
  Forall adm l -> n = length l -> (n <= fuel)%nat -> prev_agree pw pr ->
  write_array_go OP tm R a pw l n = Ok b ->
  read_array_go OP tm R a true fuel (StopCount (i + Z.of_nat n)) i pr (b ++ rest) = Ok l.
Proof.
  induction l as [|e l IH]; intros n pw pr b rest i fuel Hadm Hn Hfuel Hprev Hw; subst n.
  - cbn in Hw. injection Hw as <-. destruct fuel; cbn [read_array_go length]; replace (i <? i + Z.of_nat 0) with false by lia; reflexivity.
  - cbn [length write_array_go] in Hw. inversion Hadm as [|? ? He Hl]; subst.
    destruct (elem_key tm R a e) as [k| |] eqn:Hk; cbn [bind] in Hw; try discriminate.
    match type of Hw with (if ?c then _ else _) = _ => destruct c eqn:Hbad; [discriminate|] end.
    destruct (elem_enc R a e) as [be| |] eqn:Hbe; cbn [bind] in Hw; try discriminate.
    destruct (write_array_go OP tm R a k l (length l)) as [br| |] eqn:Hbr; cbn [bind] in Hw; try discriminate.
    injection Hw as <-.
    destruct (elem_rt e be (br ++ rest) He Hbe) as (Hd & Hs & Hpos).
    destruct fuel as [|fuel]; [cbn [length] in Hfuel; lia|].
    cbn [read_array_go length]. replace (i <? i + Z.of_nat (S (length l))) with true by lia. cbn [negb].
    rewrite <- app_assoc, Hd. cbn [bind]. rewrite Hs. cbn [bind]. rewrite size_bad_spec.
    replace (Z.of_nat (length be) <=? 0) with false by lia. rewrite Hk. cbn [bind].
    assert (Hbad' : match pr, k with Some p, Some c => order_bad_r OP p c | _, _ => false end = false).
    { destruct Hprev as [Hnone | ->].
      - rewrite (elem_key_none e Hnone) in Hk. injection Hk as <-. destruct pr; reflexivity.
      - destruct pr, k; try reflexivity. rewrite order_same. exact Hbad. }
    rewrite Hbad'. rewrite zskipn_app.
    replace (i + Z.of_nat (S (length l))) with ((i + 1) + Z.of_nat (length l)) by lia.
    rewrite (IH (length l) k (match k with Some _ => k | None => pr end) br rest (i + 1) fuel Hl eq_refl ltac:(cbn [length] in Hfuel; lia)).
    + reflexivity.
    + destruct (a_sort_key a) eqn:Hsk; [right|left; exact Hsk].
      destruct k; [reflexivity|]. exfalso. unfold elem_key in Hk. rewrite Hsk in Hk.
      destruct (elem_name a); [|discriminate]. destruct (lookup_struct tm s0); [|discriminate].
      destruct (find_field (s_fields s1) s), (vget e s); try discriminate.
      destruct (f_type f); try discriminate.
      * destruct v; discriminate.
      * destruct (key_t R s2 v); discriminate.
    + exact Hbr.
Qed.

(* a successful write means the keys pass the order test pairwise: an array with a rejected pair never encodes *)
Lemma write_checks_order : forall l n pw b, n = length l ->
  write_array_go OP tm R a pw l n = Ok b ->
  match l with
  | e :: _ => forall p k, pw = Some p -> elem_key tm R a e = Ok (Some k) -> order_bad_w OP p k = false
  | [] => True
  end.
Proof.
  intros [|e l] n pw b Hn Hw; [exact I|]. subst n. cbn [length write_array_go] in Hw. intros p k -> Hk.
  rewrite Hk in Hw. cbn [bind] in Hw. destruct (order_bad_w OP p k); [discriminate|reflexivity].
Qed.

Lemma write_adjacent_order : forall l1 e1 e2 l2 pw b k1 k2,
  write_array_go OP tm R a pw (l1 ++ e1 :: e2 :: l2) (length (l1 ++ e1 :: e2 :: l2)) = Ok b ->
  elem_key tm R a e1 = Ok (Some k1) -> elem_key tm R a e2 = Ok (Some k2) -> order_bad_w OP k1 k2 = false.
Proof.
  induction l1 as [|x l1 IH]; intros e1 e2 l2 pw b k1 k2 Hw Hk1 Hk2.
  - cbn [app length write_array_go] in Hw. rewrite Hk1 in Hw. cbn [bind] in Hw.
    match type of Hw with (if ?c then _ else _) = _ => destruct c; [discriminate|] end.
    destruct (elem_enc R a e1); cbn [bind] in Hw; try discriminate.
    rewrite Hk2 in Hw. cbn [bind] in Hw. destruct (order_bad_w OP k1 k2); [discriminate|reflexivity].
  - cbn [app length write_array_go] in Hw.
    destruct (elem_key tm R a x) as [k| |]; cbn [bind] in Hw; try discriminate.
    match type of Hw with (if ?c then _ else _) = _ => destruct c; [discriminate|] end.
    destruct (elem_enc R a x); cbn [bind] in Hw; try discriminate.
    destruct (write_array_go OP tm R a k (l1 ++ e1 :: e2 :: l2) (length (l1 ++ e1 :: e2 :: l2))) eqn:Hr; cbn [bind] in Hw; try discriminate.
    eapply IH; eassumption.
Qed.

(* a successful keyed write means consecutive keys pass the order test: the key sequence is sorted for "not order_bad" *)
Definition keys_of (l : list value) (ks : list keyv) : Prop := Forall2 (fun e k => elem_key tm R a e = Ok (Some k)) l ks.

Lemma write_sorted : forall l ks pw b,
  keys_of l ks -> write_array_go OP tm R a pw l (length l) = Ok b ->
  Sorted.Sorted (fun k1 k2 => order_bad_w OP k1 k2 = false) ks /\
  match pw, ks with Some p, k :: _ => order_bad_w OP p k = false | _, _ => True end.
Proof.
  induction l as [|e l IH]; intros ks pw b Hk Hw; inversion Hk as [|? k ? ks' Hke Hks]; subst.
  - split; [constructor | destruct pw; exact I].
  - cbn [length write_array_go] in Hw. rewrite Hke in Hw. cbn [bind] in Hw.
    match type of Hw with (if ?c then _ else _) = _ => destruct c eqn:Hbad; [discriminate|] end.
    destruct (elem_enc R a e); cbn [bind] in Hw; try discriminate.
    destruct (write_array_go OP tm R a (Some k) l (length l)) as [br| |] eqn:Hbr; cbn [bind] in Hw; try discriminate.
    destruct (IH ks' (Some k) br Hks Hbr) as [Hs Hh]. split.
    + constructor; [exact Hs|]. destruct ks'; constructor. exact Hh.
    + destruct pw; [exact Hbad | exact I].
Qed.

(* the decoder applies the same test to consecutive decoded elements: bytes holding an out-of-order or duplicate pair never decode *)
Lemma read_sorted : forall fuel rule i pr view l ks,
  read_array_go OP tm R a true fuel rule i pr view = Ok l -> keys_of l ks ->
  Sorted.Sorted (fun k1 k2 => order_bad_r OP k1 k2 = false) ks /\
  match pr, ks with Some p, k :: _ => order_bad_r OP p k = false | _, _ => True end.
Proof.
  induction fuel as [|fuel IH]; intros rule i pr view l ks Hr Hk.
  - cbn [read_array_go] in Hr. destruct (negb _); [|discriminate]. injection Hr as <-. inversion Hk; subst. split; [constructor | destruct pr; exact I].
  - cbn [read_array_go] in Hr. destruct (negb _).
    { injection Hr as <-. inversion Hk; subst. split; [constructor | destruct pr; exact I]. }
    destruct (elem_dec tm R a view) as [e| |]; cbn [bind] in Hr; try discriminate.
    destruct (elem_size R a e) as [sz| |]; cbn [bind] in Hr; try discriminate.
    destruct (size_bad OP sz); [discriminate|].
    destruct (elem_key tm R a e) as [k| |] eqn:Hke; cbn [bind] in Hr; try discriminate.
    match type of Hr with (if ?c then _ else _) = _ => destruct c eqn:Hbad; [discriminate|] end.
    match type of Hr with bind (read_array_go _ _ _ _ _ _ _ _ ?p ?v) _ = _ => destruct (read_array_go OP tm R a true fuel rule (i + 1) p v) as [r| |] eqn:Hrec end;
      cbn [bind] in Hr; try discriminate.
    injection Hr as <-. inversion Hk as [|? k' ? ks' Hke' Hks]; subst. rewrite Hke in Hke'. injection Hke' as ->.
    destruct (IH _ _ _ _ _ _ Hrec Hks) as [Hs Hh]. split.
    + constructor; [exact Hs|]. destruct ks'; constructor. exact Hh.
    + destruct pr; [exact Hbad | exact I].
Qed.

(* fill arrays: read until the view is empty *)
Lemma write_read_fill : forall l pw b fuel,
  Forall adm l -> (length l <= fuel)%nat -> a_sort_key a = None ->
  write_array_go OP tm R a pw l (length l) = Ok b ->
  read_array_go OP tm R a false fuel StopEmpty 0 None b = Ok l.
Proof.
  assert (G : forall l pw b fuel i,
    Forall adm l -> (length l <= fuel)%nat -> a_sort_key a = None ->
    write_array_go OP tm R a pw l (length l) = Ok b ->
    read_array_go OP tm R a false fuel StopEmpty i None b = Ok l).
  { induction l as [|e l IH]; intros pw b fuel i Hadm Hfuel Hnone Hw.
    - cbn in Hw. injection Hw as <-. destruct fuel; reflexivity.
    - cbn [length write_array_go] in Hw. inversion Hadm as [|? ? He Hl]; subst.
      rewrite (elem_key_none e Hnone) in Hw. cbn [bind] in Hw.
      replace (match pw with Some _ => false | None => false end) with false in Hw by (destruct pw; reflexivity).
      destruct (elem_enc R a e) as [be| |] eqn:Hbe; cbn [bind] in Hw; try discriminate.
      destruct (write_array_go OP tm R a None l (length l)) as [br| |] eqn:Hbr; cbn [bind] in Hw; try discriminate.
      injection Hw as <-.
      pose proof (elem_rt e be [] He Hbe) as (_ & Hs & Hpos).
      destruct fuel as [|fuel]; [cbn [length] in Hfuel; lia|].
      cbn [read_array_go]. destruct (be ++ br) as [|x xs] eqn:Hv; [destruct be; [cbn in Hpos; lia|discriminate]|].
      cbn [negb]. rewrite <- Hv. pose proof (elem_rt e be br He Hbe) as (Hd & _ & _). rewrite Hd. cbn [bind]. rewrite Hs. cbn [bind]. rewrite size_bad_spec.
      replace (Z.of_nat (length be) <=? 0) with false by lia. cbn [bind]. rewrite zskipn_app.
      rewrite (IH None br fuel (i + 1) Hl ltac:(cbn [length] in Hfuel; lia) Hnone Hbr). reflexivity. }
  intros. eapply G; eassumption.
Qed.

(* the encoded length of a plain array is the sum of the element sizes (ArrayHelpers.size without alignment) *)
Lemma write_size : forall l pw b,
  Forall adm l -> write_array_go OP tm R a pw l (length l) = Ok b ->
  array_size_with OP (elem_size R a) l 0 false = Ok (Z.of_nat (length b)).
Proof.
  induction l as [|e l IH]; intros pw b Hadm Hw.
  - cbn in Hw. injection Hw as <-. reflexivity.
  - cbn [length write_array_go] in Hw. inversion Hadm as [|? ? He Hl]; subst.
    destruct (elem_key tm R a e) as [k| |]; cbn [bind] in Hw; try discriminate.
    match type of Hw with (if ?c then _ else _) = _ => destruct c; [discriminate|] end.
    destruct (elem_enc R a e) as [be| |] eqn:Hbe; cbn [bind] in Hw; try discriminate.
    destruct (write_array_go OP tm R a k l (length l)) as [br| |] eqn:Hbr; cbn [bind] in Hw; try discriminate.
    injection Hw as <-.
    pose proof (elem_rt e be [] He Hbe) as (_ & Hs & _).
    specialize (IH k br Hl Hbr). unfold array_size_with in *. destruct l as [|e2 l].
    + cbn in Hbr. injection Hbr as <-. rewrite Hs. cbn. rewrite app_nil_r. reflexivity.
    + rewrite Hs. cbn [bind]. rewrite IH. cbn [bind]. rewrite app_length. f_equal. cbn. lia.
Qed.

(* variable-size (aligned) arrays *)
Hypothesis al_pos : 0 < alignment_of a.

Lemma write_read_variable : forall l b fuel,
  Forall adm l -> (length l <= fuel)%nat ->
  write_variable OP R a l = Ok b ->
  read_variable OP tm R a fuel b = Ok l.
Proof.
  induction l as [|e l IH]; intros b fuel Hadm Hfuel Hw.
  - cbn in Hw. injection Hw as <-. destruct fuel; reflexivity.
  - cbn [write_variable] in Hw. inversion Hadm as [|? ? He Hl]; subst.
    destruct (elem_enc R a e) as [be| |] eqn:Hbe; cbn [bind] in Hw; try discriminate.
    pose proof (elem_rt e be [] He Hbe) as (_ & Hs & Hpos). rewrite Hs in Hw. cbn [bind] in Hw.
    set (s := Z.of_nat (length be)) in *.
    pose proof (align_spec s (alignment_of a) ltac:(lia) al_pos) as Hal.
    set (pad := if skip_last a && match l with [] => true | _ => false end then 0 else align_up OP s (alignment_of a) - s) in *.
    destruct (65536 <? pad) eqn:Hbig; [discriminate|].
    destruct (write_variable OP R a l) as [br| |] eqn:Hbr; cbn [bind] in Hw; try discriminate.
    injection Hw as <-.
    destruct fuel as [|fuel]; [cbn [length] in Hfuel; lia|].
    assert (Hpad : 0 <= pad) by (unfold pad; destruct (skip_last a && _); lia).
    cbn [read_variable]. destruct (be ++ zeros (Z.to_nat pad) ++ br) as [|x xs] eqn:Hv; [destruct be; [cbn in Hpos; lia|discriminate]|].
    rewrite <- Hv.
    destruct (elem_rt e be (zeros (Z.to_nat pad) ++ br) He Hbe) as (Hd & _ & _). rewrite Hd. cbn [bind]. rewrite Hs. cbn [bind].
    rewrite size_bad_v_spec. replace (s <=? 0) with false by lia.
    rewrite rv_is_last_spec, rv_overrun_spec.
    assert (Hlen : Z.of_nat (length (be ++ zeros (Z.to_nat pad) ++ br)) = s + pad + Z.of_nat (length br)).
    { rewrite !app_length, zeros_length. unfold s. lia. }
    rewrite Hlen.
    assert (Haligned : (if skip_last a && (s + pad + Z.of_nat (length br) <=? s) then s else align_up OP s (alignment_of a)) = s + pad).
    { unfold pad. destruct (skip_last a) eqn:Hskip; cbn [andb].
      - destruct l as [|e2 l].
        + cbn in Hbr. injection Hbr as <-. cbn [length]. replace (s + 0 + Z.of_nat 0 <=? s) with true by lia. lia.
        + assert (0 < length br)%nat.
          { cbn [write_variable] in Hbr. inversion Hl as [|? ? He2 _]; subst.
            destruct (elem_enc R a e2) as [be2| |] eqn:Hbe2; cbn [bind] in Hbr; try discriminate.
            pose proof (elem_rt e2 be2 [] He2 Hbe2) as (_ & Hs2 & Hpos2). rewrite Hs2 in Hbr. cbn [bind] in Hbr.
            match type of Hbr with (if ?c then _ else _) = _ => destruct c; [discriminate|] end.
            destruct (write_variable OP R a l); cbn [bind] in Hbr; try discriminate. injection Hbr as <-. rewrite app_length. lia. }
          replace (s + (align_up OP s (alignment_of a) - s) + Z.of_nat (length br) <=? s) with false by lia. lia.
      - lia. }
    rewrite Haligned. replace (s + pad + Z.of_nat (length br) <? s + pad) with false by lia.
    replace (s + pad) with (Z.of_nat (length (be ++ zeros (Z.to_nat pad)))) by (rewrite app_length, zeros_length; unfold s; lia).
    rewrite app_assoc, zskipn_app. rewrite (IH br fuel Hl ltac:(cbn [length] in Hfuel; lia) eq_refl). reflexivity.
Qed.

(* ArrayHelpers.size with alignment = number of bytes written (padding included; last element unpadded when skipped) *)
Lemma write_variable_size : forall l b,
  Forall adm l -> write_variable OP R a l = Ok b ->
  array_size_with OP (elem_size R a) l (alignment_of a) (skip_last a) = Ok (Z.of_nat (length b)).
Proof.
  induction l as [|e l IH]; intros b Hadm Hw.
  - cbn in Hw. injection Hw as <-. reflexivity.
  - cbn [write_variable] in Hw. inversion Hadm as [|? ? He Hl]; subst.
    destruct (elem_enc R a e) as [be| |] eqn:Hbe; cbn [bind] in Hw; try discriminate.
    pose proof (elem_rt e be [] He Hbe) as (_ & Hs & Hpos). rewrite Hs in Hw. cbn [bind] in Hw.
    set (s := Z.of_nat (length be)) in *.
    pose proof (align_spec s (alignment_of a) ltac:(lia) al_pos) as Hal.
    match type of Hw with (if ?c then _ else _) = _ => destruct c; [discriminate|] end.
    destruct (write_variable OP R a l) as [br| |] eqn:Hbr; cbn [bind] in Hw; try discriminate.
    injection Hw as <-. specialize (IH br Hl eq_refl).
    unfold array_size_with in *. replace (alignment_of a =? 0) with false in * by lia.
    destruct l as [|e2 l].
    + cbn in Hbr. injection Hbr as <-. rewrite Hs. cbn [bind orb]. fold s.
      rewrite !app_length, zeros_length. cbn [length]. destruct (skip_last a); cbn [andb]; f_equal; lia.
    + rewrite Hs. cbn [bind]. fold s. rewrite IH. cbn [bind]. rewrite Bool.andb_false_r.
      rewrite !app_length, zeros_length. f_equal. lia.
Qed.

(* padding is zero bytes up to the alignment, only between elements (and after the last one unless skipped) *)
Lemma write_variable_shape : forall e l b,
  adm e -> write_variable OP R a (e :: l) = Ok b ->
  exists be br, elem_enc R a e = Ok be /\ write_variable OP R a l = Ok br /\
    b = be ++ zeros (Z.to_nat (if skip_last a && match l with [] => true | _ => false end then 0
                               else align_up OP (Z.of_nat (length be)) (alignment_of a) - Z.of_nat (length be))) ++ br.
Proof.
  intros e l b He Hw. cbn [write_variable] in Hw.
  destruct (elem_enc R a e) as [be| |] eqn:Hbe; cbn [bind] in Hw; try discriminate.
  pose proof (elem_rt e be [] He Hbe) as (_ & Hs & _). rewrite Hs in Hw. cbn [bind] in Hw.
  match type of Hw with (if ?c then _ else _) = _ => destruct c; [discriminate|] end.
  destruct (write_variable OP R a l) as [br| |]; cbn [bind] in Hw; try discriminate.
  injection Hw as <-. exists be, br. repeat split; reflexivity.
Qed.

End ArrayRT.
