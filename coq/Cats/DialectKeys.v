(* Sort keys and @comparer structs, the part of the dialect that Cats/Dialect.v's wf_schema leaves to a premise of its theorem.
   Definitions only (proofs are in Cats/DialectKeyProofs.v); nothing of Cats/Dialect.v or Cats/Layout.v is changed.

   Layout.key (the sort-key view: struct.comparer() / the member itself) answers Crash "Unsupported" in one place that is reached on a VALUE
   ground: an untransformed @comparer member of a named type whose value is not the int / byte string that an enum / alias value is.  Two
   things keep the codecs away from it:
   - admissible VALUES (value_admissible): every struct node carries, under each member name, a value of the shape its class declares for
     that member (int, bytes, list of structs of the element class, struct of the member class or of a child of an abstract member class,
     VNull only for a conditional member).  Only shapes: no ranges, no lengths, no enum membership, no sortedness;
   - wf_keys, a boolean SCHEMA condition on top of wf_schema: what the decoder binds under the name of a sort key / comparer member is what the
     comparer reads (see the individual conditions).  wf_schema_full := wf_schema && wf_keys. *)
From Symv Require Export Cats.Dialect.
Open Scope string_scope.
Open Scope list_scope.
Open Scope Z_scope.

Section Keys.
Variable tm : list decl.

(* the test load_field makes to pick TFactory.deserialize over T.deserialize for a member of named type t *)
Definition abs_name (t : string) : bool :=
  match lookup_struct tm t with Some ts => match s_disp ts with SdAbstract => true | _ => false end | None => false end.

(* the members S.deserialize reads: the parent's non-const members (A._deserialize), then the own ones *)
Definition dec_fields (s : struct) : list field :=
  match base_struct tm s with Some b => struct_fields_nc b | None => [] end ++ own_fields tm s.
(* every declaration of a member that the class or its parent makes *)
Definition decl_fields (s : struct) : list field :=
  s_fields s ++ match base_struct tm s with Some b => s_fields b | None => [] end.

Definition named_is (t : string) (g : field) : bool := match f_type g with FName x => String.eqb x t | _ => false end.
Definition uncond (g : field) : bool := match f_cond g with None => true | Some _ => false end.

(* the untransformed members of a @comparer(p1, t1, p2, t2, ...) attribute *)
Fixpoint plain_props (vals : list avalue) : list string :=
  match vals with
  | AvStr p :: AvNone :: rest => p :: plain_props rest
  | _ :: _ :: rest => plain_props rest
  | _ => []
  end.

(* ---------- wf_keys ---------- *)
(* a @comparer struct: each untransformed member of a named type is unconditional, and what deserialize binds under its name is exactly one
   kind of thing: an unconditional member of that named type (so the decoded object carries an enum / alias value there) *)
Definition comparer_keys_ok (s : struct) : bool :=
  match find_attr (s_attrs s) "comparer" with
  | None => true
  | Some a =>
    forallb (fun p =>
      match find_field (s_fields s) p with
      | Some pf =>
        match f_type pf with
        | FName pt =>
          uncond pf
          && forallb (fun g => negb (String.eqb (f_name g) p) || (named_is pt g && uncond g)) (dec_fields s)
          && existsb (fun g => String.eqb (f_name g) p) (dec_fields s)
        | _ => true
        end
      | None => true
      end) (plain_props (at_values a))
  end.

(* an array with @sort_key(k): concrete elements; a key member of named type kt is not an abstract struct, and what the element's deserialize
   binds under the name k is a member of type kt *)
Definition array_keys_ok (a : array) : bool :=
  match a_sort_key a, elem_name a with
  | Some k, Some t =>
    match lookup_struct tm t with
    | Some es =>
      negb (contents_abstract tm a)
      && match find_field (s_fields es) k with
         | Some kf =>
           match f_type kf with
           | FName kt => negb (abs_name kt) && forallb (fun g => negb (String.eqb (f_name g) k) || named_is kt g) (dec_fields es)
           | _ => true
           end
         | None => true
         end
    | None => true
    end
  | _, _ => true
  end.
Definition field_keys_ok (f : field) : bool := match f_type f with FArray a => array_keys_ok a | _ => true end.
Definition struct_keys_ok (s : struct) : bool := comparer_keys_ok s && forallb field_keys_ok (s_fields s).
Definition wf_keys : bool := forallb (fun d => match d with DStruct s => struct_keys_ok s | _ => true end) tm.

(* ---------- admissible values (shapes only) ---------- *)
(* a value of an enum / alias type *)
Definition scalar_match (pt : string) (pv : value) : bool :=
  match lookup tm pt, pv with
  | Some (DEnum _ _ _ _ _), VInt _ => true
  | Some (DAlias _ (LInt _) _), VInt _ => true
  | Some (DAlias _ (LBuffer _) _), VBytes _ => true
  | _, _ => false
  end.
(* a value of named type pt: enum / alias value, an object of class pt, or - pt abstract - of a class whose factory type is pt *)
Definition named_shape (pt : string) (pv : value) : bool :=
  match lookup tm pt with
  | Some (DStruct ts) =>
    match pv with
    | VStruct cls _ =>
      if is_abstract ts
      then match lookup_struct tm cls with
           | Some c => match s_factory_type c with Some f => String.eqb f pt | None => false end
           | None => false
           end
      else String.eqb cls pt
    | _ => false
    end
  | Some _ => scalar_match pt pv
  | None => false
  end.
(* a value of member f; VNull (None) only for a conditional member *)
Definition field_shape (f : field) (pv : value) : bool :=
  match pv with
  | VNull => negb (uncond f)
  | _ =>
    match f_type f with
    | FInt _ => match pv with VInt _ => true | _ => false end
    | FName pt => named_shape pt pv
    | FArray a =>
      if is_byte_array a then match pv with VBytes _ => true | _ => false end
      else match pv, elem_name a with VArr l, Some t => forallb (named_shape t) l | _, _ => false end
    end
  end.
(* the value under the name n in an object of class s has the shape of every declaration of n that s and its parent make (for a schema in
   wf_schema these agree: the parent's members are a prefix of the child's) *)
Definition member_shape (s : struct) (n : string) (pv : value) : bool :=
  forallb (fun g => negb (String.eqb (f_name g) n) || field_shape g pv) (decl_fields s).
Fixpoint value_admissible (v : value) : bool :=
  match v with
  | VStruct cls fs =>
    match lookup_struct tm cls with
    | Some s => forallb (fun p => match p with (n, pv) => member_shape s n pv && value_admissible pv end) fs
    | None => false
    end
  | VArr l => forallb value_admissible l
  | _ => true
  end.
End Keys.

Definition wf_schema_full (tm : list decl) : bool := wf_schema tm && wf_keys tm.
