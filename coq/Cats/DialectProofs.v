(* Proofs about wf_schema (Cats/Dialect.v):
   - wf_shipped: both regenerated shipped schemas are well-formed (kernel computation on the regenerated terms, per run);
   - wf_report_empty: wf_schema holds iff the list of failing named conditions is empty;
   - ser_static_no_unsupported / size_static_no_unsupported / des_static_no_unsupported: the static member classification excludes the
     Crash "Unsupported" outcome of Layout.serialize_field / member_size / load_field for ALL values and buffers, whatever the codecs of the
     member types do, as long as those do not answer "Unsupported" themselves;
   - codecs_no_unsupported_all: for a well-formed schema, serialize, size, deserialize and factory-deserialize of ANY value / buffer at ANY
     fuel never answer "Unsupported" (well-founded induction on the type-nesting fuel over the whole mutual block), given that the sort-key
     view does not. *)
From Symv Require Import Base.Bytes Base.PyOps Cats.LayoutInst Cats.Dialect Gen.SchemaSc Gen.SchemaNc.
From Coq Require Import Lia.
Open Scope string_scope.
Open Scope list_scope.
Open Scope Z_scope.

(* ---------- per-run kernel obligation on the regenerated shipped schemas ---------- *)
Lemma wf_shipped_sc : wf_schema sc_schema = true.
Proof. vm_compute. reflexivity. Qed.
Lemma wf_shipped_nc : wf_schema nc_schema = true.
Proof. vm_compute. reflexivity. Qed.
Lemma wf_shipped_both : wf_schema sc_schema = true /\ wf_schema nc_schema = true.
Proof. split; [exact wf_shipped_sc | exact wf_shipped_nc]. Qed.

(* ---------- wf_schema = true iff nothing is reported ---------- *)
Lemma flat_map_checks_nil (name : string) (l : list (string * bool)) :
  flat_map (fun c : string * bool => if snd c then [] else [(name ++ ":" ++ fst c)%string]) l = [] <-> forallb snd l = true.
Proof.
  induction l as [|[n b] l IH]; cbn [flat_map forallb snd fst]; [tauto|].
  destruct b; cbn [app andb]; [exact IH|]. split; [discriminate|discriminate].
Qed.

Lemma wf_report_go_nil tm earlier rest : wf_report_go tm earlier rest = [] <-> wf_decls tm earlier rest = true.
Proof.
  revert earlier. induction rest as [|d r IH]; intros earlier; cbn [wf_report_go wf_decls]; [tauto|].
  destruct (existsb (fun e => String.eqb (decl_name e) (decl_name d)) earlier) eqn:Hd; cbn [negb andb app].
  - split; discriminate.
  - rewrite Bool.andb_true_iff, <- IH, <- flat_map_checks_nil. split.
    + intros H. apply app_eq_nil in H. exact H.
    + intros [H1 H2]. rewrite H1, H2. reflexivity.
Qed.

Lemma wf_report_empty_iff tm : wf_report_go tm [] tm = [] <-> wf_schema tm = true.
Proof. apply wf_report_go_nil. Qed.

(* ---------- "not Unsupported" ---------- *)
Definition nu {A} (r : result A) : Prop := r <> Crash "Unsupported".

Lemma nu_ok {A} (a : A) : nu (Ok a).
Proof. unfold nu. discriminate. Qed.
Lemma nu_reject {A} : nu (@Reject A).
Proof. unfold nu. discriminate. Qed.
Lemma nu_bind {A B} (a : result A) (f : A -> result B) : nu a -> (forall x, a = Ok x -> nu (f x)) -> nu (bind a f).
Proof. unfold nu, bind. destruct a; intros Ha Hf; [apply Hf; reflexivity|discriminate|exact (fun H => Ha ltac:(injection H as ->; reflexivity))]. Qed.

Ltac nu_crash := unfold nu; let H := fresh in intros H; discriminate H.

Lemma nu_py_to_bytes w sg x : nu (py_to_bytes w sg x).
Proof. unfold py_to_bytes. destruct (int_in_range w sg x); nu_crash. Qed.

Definition R_ser_ok (R : rec_ops) : Prop :=
  (forall t v, nu (enc_t R t v)) /\ (forall t v, nu (size_t R t v)) /\ (forall t v, nu (key_t R t v)).

Section Members.
Variable OP : ops.
Variable tm : list decl.
Variable R : rec_ops.
Hypothesis HR : R_ser_ok R.

Lemma nu_elem_enc a e : (exists t, elem_name a = Some t) -> nu (elem_enc R a e).
Proof. intros [t Ht]. unfold elem_enc. rewrite Ht. apply HR. Qed.
Lemma nu_elem_size a e : (exists t, elem_name a = Some t) -> nu (elem_size R a e).
Proof. intros [t Ht]. unfold elem_size. rewrite Ht. apply HR. Qed.

Lemma nu_elem_key a e : key_static_ok tm a = true -> nu (elem_key tm R a e).
Proof.
  unfold key_static_ok, elem_key. destruct (a_sort_key a) as [k|]; [|intros _; apply nu_ok].
  destruct (elem_name a) as [t|]; [|discriminate].
  destruct (lookup_struct tm t) as [es|]; [|discriminate].
  destruct (find_field (s_fields es) k) as [kf|]; [|discriminate].
  destruct (vget e k) as [kv|]; [|intros _; nu_crash].
  destruct (f_type kf) as [i|kt|arr]; [| |discriminate]; intros _.
  - destruct kv; nu_crash.
  - apply nu_bind; [apply HR|intros; apply nu_ok].
Qed.

Lemma nu_write_array_go a :
  (forall e, nu (elem_key tm R a e)) -> (forall e, nu (elem_enc R a e)) ->
  forall n prev l, nu (write_array_go OP tm R a prev l n).
Proof.
  intros Hk He. induction n as [|n IH]; intros prev l; destruct l as [|e r]; cbn [write_array_go]; try nu_crash.
  apply nu_bind; [apply Hk|]. intros k _.
  destruct (match prev with Some p => match k with Some c => order_bad_w OP p c | None => false end | None => false end); [apply nu_reject|].
  apply nu_bind; [apply He|]. intros be _. apply nu_bind; [apply IH|]. intros; apply nu_ok.
Qed.

Lemma nu_write_array a l n acc : array_static_ok tm a = true -> is_byte_array a = false -> nu (write_array OP tm R a l n acc).
Proof.
  unfold array_static_ok. intros H Hb. rewrite Hb in H. cbn [orb] in H. apply Bool.andb_true_iff in H as [Hn Hk].
  destruct (elem_name a) as [t|] eqn:Ht; [|discriminate].
  unfold write_array. destruct acc.
  - apply nu_write_array_go; [intros; apply nu_elem_key; exact Hk|intros; apply nu_elem_enc; eauto].
  - apply nu_write_array_go.
    + intros e. unfold elem_key. cbn [a_sort_key]. apply nu_ok.
    + intros e. apply nu_elem_enc. exists t. unfold elem_name in *. cbn [a_elem]. exact Ht.
Qed.

Lemma nu_write_variable a l : (exists t, elem_name a = Some t) -> nu (write_variable OP R a l).
Proof.
  intros Hn. induction l as [|e r IH]; cbn [write_variable]; [apply nu_ok|].
  apply nu_bind; [apply nu_elem_enc; exact Hn|]. intros be _.
  apply nu_bind; [apply nu_elem_size; exact Hn|]. intros s _.
  match goal with |- nu (if ?c then _ else _) => destruct c end; [nu_crash|].
  apply nu_bind; [exact IH|]. intros; apply nu_ok.
Qed.

Lemma nu_array_size_with esize l al skip : (forall e, nu (esize e)) -> nu (array_size_with OP esize l al skip).
Proof.
  intros He. unfold array_size_with. induction l as [|e r IH]; [apply nu_ok|].
  destruct r as [|e' r'].
  - apply nu_bind; [apply He|]. intros; apply nu_ok.
  - apply nu_bind; [apply He|]. intros s _. apply nu_bind; [exact IH|]. intros; apply nu_ok.
Qed.

Lemma nu_member_value self f : nu (member_value self f).
Proof. unfold member_value. destruct (vget self (f_name f)); [apply nu_ok|nu_crash]. Qed.

Lemma nu_computed_value allfs self f : is_computed f = true -> nu (computed_value R allfs self f).
Proof.
  unfold is_computed, computed_value. destruct (f_sizeref f) as [[prop delta]|]; [|discriminate]. intros _.
  destruct (find_field allfs prop) as [pf|]; [|nu_crash].
  destruct (vget self prop) as [pv|]; [|nu_crash].
  destruct (negb (truthy pv)); [apply nu_ok|].
  destruct (f_type pf); try nu_crash.
  apply nu_bind; [apply HR|]. intros sz _. destruct delta; [apply nu_ok|nu_crash].
Qed.

Lemma nu_cond_operand_self allfs self cf : nu (cond_operand_self R allfs self cf).
Proof.
  unfold cond_operand_self. destruct (is_computed cf) eqn:Hc; [apply nu_computed_value; exact Hc|].
  destruct (vget self (f_name cf)) as [[]|]; nu_crash.
Qed.

Lemma cond_eval_known op y o : op_known op = true -> exists b, cond_eval op y o = Some b.
Proof.
  unfold op_known, cond_eval. intros H.
  destruct (String.eqb op "equals"); [eauto|].
  destruct (String.eqb op "not equals"); [eauto|].
  destruct (String.eqb op "in"); [eauto|].
  destruct (String.eqb op "not in"); [eauto|]. discriminate H.
Qed.

Lemma nu_cond_self allfs self f : cond_static_ok tm allfs f = true -> nu (cond_self tm R allfs self f).
Proof.
  unfold cond_static_ok, cond_self. destruct (f_cond f) as [c|]; [|intros _; apply nu_ok].
  destruct (find_field allfs (c_link c)) as [cf|] eqn:Hf; [|discriminate].
  destruct (cond_yoda (cond_kind tm cf) c) as [y|]; [|discriminate]. intros Hop.
  destruct (f_type f).
  - destruct (vget self (f_name f)); [apply nu_ok|nu_crash].
  - apply nu_bind; [apply nu_cond_operand_self|]. intros o _.
    destruct (cond_eval_known (c_op c) y o Hop) as [b ->]. apply nu_ok.
  - destruct (vget self (f_name f)); [apply nu_ok|nu_crash].
Qed.

(* what member_size needs *)
Definition size_static_ok (allfs : list field) (f : field) : bool :=
  cond_static_ok tm allfs f && match f_type f with FArray a => array_static_ok tm a | _ => true end.

Lemma ser_static_size s allfs f : ser_static_ok tm s allfs f = true -> size_static_ok allfs f = true.
Proof.
  unfold ser_static_ok, size_static_ok. intros H.
  apply Bool.andb_true_iff in H as [H H3]. apply Bool.andb_true_iff in H as [_ H2]. rewrite H2. cbn [andb].
  destruct (bound_field allfs f).
  - destruct (f_type f); [reflexivity|discriminate|discriminate].
  - destruct (f_type f); [reflexivity|reflexivity|exact H3].
Qed.

Lemma nu_member_size self f : match f_type f with FArray a => array_static_ok tm a = true | _ => True end -> nu (member_size OP tm R self f).
Proof.
  unfold member_size. destruct (f_type f) as [i|t|a]; intros H.
  - apply nu_ok.
  - apply nu_bind; [apply nu_member_value|]. intros v _. destruct v; try apply HR. nu_crash.
  - destruct (is_byte_array a) eqn:Hb.
    + destruct (a_size a); try apply nu_ok; (apply nu_bind; [apply nu_member_value|]; intros v _; destruct v; nu_crash).
    + unfold array_static_ok in H. rewrite Hb in H. cbn [orb] in H. apply Bool.andb_true_iff in H as [Hn _].
      destruct (elem_name a) as [t|] eqn:Ht; [|discriminate].
      apply nu_bind; [apply nu_member_value|]. intros v _. destruct v; try nu_crash.
      destruct (is_variable_size tm a); apply nu_array_size_with; intros e; apply nu_elem_size; eauto.
Qed.

Lemma nu_size_fields allfs self fs : forallb (size_static_ok allfs) fs = true -> nu (size_fields OP tm R allfs self fs).
Proof.
  induction fs as [|f r IH]; cbn [size_fields forallb]; [intros; apply nu_ok|].
  intros H. apply Bool.andb_true_iff in H as [Hf Hr]. unfold size_static_ok in Hf. apply Bool.andb_true_iff in Hf as [Hc Ha].
  apply nu_bind; [apply nu_cond_self; exact Hc|]. intros c _.
  apply nu_bind.
  - destruct c; [|apply nu_ok]. apply nu_member_size. destruct (f_type f); try exact I. exact Ha.
  - intros a _. apply nu_bind; [apply IH; exact Hr|]. intros; apply nu_ok.
Qed.

(* the member classification excludes every Unsupported branch of generate_serialize_field's model, for all values *)
Lemma ser_static_no_unsupported s allfs total self first f :
  ser_static_ok tm s allfs f = true -> nu (serialize_field OP tm R s allfs total self first f).
Proof.
  intros H. unfold ser_static_ok in H. apply Bool.andb_true_iff in H as [H H3]. apply Bool.andb_true_iff in H as [H1 H2].
  unfold serialize_field.
  destruct (first && is_size_first s [f] f) eqn:Hfirst.
  - apply Bool.andb_true_iff in Hfirst as [_ Hfirst]. rewrite Hfirst in H1.
    destruct (f_type f); try discriminate. apply nu_py_to_bytes.
  - apply nu_bind; [apply nu_cond_self; exact H2|]. intros c _. destruct c; cbn [negb]; [|apply nu_ok].
    destruct (bound_field allfs f) as [g|].
    + destruct (f_type f) as [i|t|a]; try discriminate.
      apply Bool.andb_true_iff in H3 as [H3 Hg].
      assert (Hgs : nu (member_size OP tm R self g)).
      { apply nu_member_size. destruct (f_type g); try exact I. exact Hg. }
      destruct (f_array g) as [ga|].
      * destruct (ends_with_count (f_name f) || negb (a_byte_constrained ga)).
        -- apply nu_bind; [apply nu_member_value|]. intros gv _.
           destruct gv; try nu_crash; try apply nu_py_to_bytes.
           destruct (f_cond g) as [gc|]; try nu_crash. destruct (c_value gc); [apply nu_py_to_bytes|nu_crash].
        -- apply nu_bind; [exact Hgs|intros; apply nu_py_to_bytes].
      * rewrite H3. apply nu_bind; [exact Hgs|intros; apply nu_py_to_bytes].
    + destruct (f_type f) as [i|t|a].
      * destruct (is_computed f) eqn:Hc.
        -- apply nu_bind; [apply nu_computed_value; exact Hc|intros; apply nu_py_to_bytes].
        -- cbn [orb] in H3. destruct (is_reserved f); cbn [negb orb] in H3.
           ++ destruct (f_value f); try discriminate. apply nu_py_to_bytes.
           ++ apply nu_bind; [apply nu_member_value|]. intros v _. destruct v; try nu_crash. apply nu_py_to_bytes.
      * destruct (is_reserved f); [discriminate|].
        apply nu_bind; [apply nu_member_value|]. intros v _. destruct v; try apply HR. nu_crash.
      * apply nu_bind; [apply nu_member_value|]. intros v _.
        destruct (is_byte_array a) eqn:Hb.
        -- destruct v; nu_crash.
        -- destruct v; try nu_crash.
           destruct (is_variable_size tm a).
           ++ apply nu_write_variable. unfold array_static_ok in H3. rewrite Hb in H3. cbn [orb] in H3.
              apply Bool.andb_true_iff in H3 as [Hn _]. destruct (elem_name a); [eauto|discriminate].
           ++ destruct (a_size a); apply nu_write_array; assumption.
Qed.

Lemma nu_serialize_fields_go s allfs total self fs :
  forallb (ser_static_ok tm s allfs) fs = true -> forall first, nu (serialize_fields_go OP tm R s allfs total self first fs).
Proof.
  induction fs as [|f r IH]; cbn [serialize_fields_go forallb]; [intros; apply nu_ok|].
  intros H first. apply Bool.andb_true_iff in H as [Hf Hr].
  apply nu_bind; [apply ser_static_no_unsupported; exact Hf|]. intros a _.
  apply nu_bind; [apply IH; exact Hr|]. intros; apply nu_ok.
Qed.
End Members.

(* ---------- decode side: load_field / cond_local ---------- *)
Definition R_des_ok (R : rec_ops) : Prop :=
  (forall t b, nu (dec_t R t b)) /\ (forall t b, nu (decf_t R t b)) /\ (forall t v, nu (size_t R t v)) /\ (forall t v, nu (key_t R t v)).

Section DecodeMembers.
Variable OP : ops.
Variable tm : list decl.
Variable R : rec_ops.
Hypothesis HR : R_des_ok R.

Lemma R_des_ser : forall t v, nu (size_t R t v).
Proof. apply HR. Qed.

Lemma nu_elem_dec a buf : (exists t, elem_name a = Some t) -> nu (elem_dec tm R a buf).
Proof. intros [t Ht]. unfold elem_dec. rewrite Ht. destruct (contents_abstract tm a); apply HR. Qed.
Lemma nu_elem_size_d a e : (exists t, elem_name a = Some t) -> nu (elem_size R a e).
Proof. intros [t Ht]. unfold elem_size. rewrite Ht. apply HR. Qed.

Lemma nu_elem_key_d a e : key_static_ok tm a = true -> nu (elem_key tm R a e).
Proof.
  unfold key_static_ok, elem_key. destruct (a_sort_key a) as [k|]; [|intros _; apply nu_ok].
  destruct (elem_name a) as [t|]; [|discriminate].
  destruct (lookup_struct tm t) as [es|]; [|discriminate].
  destruct (find_field (s_fields es) k) as [kf|]; [|discriminate].
  destruct (vget e k) as [kv|]; [|intros _; nu_crash].
  destruct (f_type kf) as [i|kt|arr]; [| |discriminate]; intros _.
  - destruct kv; nu_crash.
  - apply nu_bind; [apply HR|intros; apply nu_ok].
Qed.

Lemma nu_read_array_go a acc : (exists t, elem_name a = Some t) -> key_static_ok tm a = true ->
  forall fuel rule i prev view, nu (read_array_go OP tm R a acc fuel rule i prev view).
Proof.
  intros Hn Hk. induction fuel as [|fuel IH]; intros rule i prev view; cbn [read_array_go].
  - destruct (negb _); nu_crash.
  - destruct (negb _); [apply nu_ok|].
    apply nu_bind; [apply nu_elem_dec; exact Hn|]. intros e _.
    apply nu_bind; [apply nu_elem_size_d; exact Hn|]. intros s _.
    destruct (size_bad OP s); [apply nu_reject|].
    apply nu_bind; [destruct acc; [apply nu_elem_key_d; exact Hk|apply nu_ok]|]. intros k _.
    match goal with |- nu (if ?c then _ else _) => destruct c end; [apply nu_reject|].
    apply nu_bind; [apply IH|]. intros; apply nu_ok.
Qed.

Lemma nu_read_variable a : (exists t, elem_name a = Some t) -> forall fuel view, nu (read_variable OP tm R a fuel view).
Proof.
  intros Hn. induction fuel as [|fuel IH]; intros view; destruct view as [|x view]; cbn [read_variable]; try nu_crash.
  apply nu_bind; [apply nu_elem_dec; exact Hn|]. intros e _.
  apply nu_bind; [apply nu_elem_size_d; exact Hn|]. intros s _.
  destruct (size_bad_v OP s); [apply nu_reject|].
  match goal with |- nu (if ?c then _ else _) => destruct c end; [apply nu_reject|].
  apply nu_bind; [apply IH|]. intros; apply nu_ok.
Qed.

Lemma nu_cond_local allfs e f : cond_static_ok tm allfs f = true -> nu (cond_local tm allfs e f).
Proof.
  unfold cond_static_ok, cond_local. destruct (f_cond f) as [c|]; [|intros _; apply nu_ok].
  destruct (find_field allfs (c_link c)) as [cf|]; [|discriminate].
  destruct (cond_yoda (cond_kind tm cf) c) as [y|]; [|discriminate]. intros Hop.
  destruct (eget e (c_link c)) as [[o| | | |]|]; try nu_crash.
  destruct (cond_eval_known (c_op c) y o Hop) as [b ->]. apply nu_ok.
Qed.

Lemma nu_size_local e n : nu (size_local e n).
Proof. unfold size_local. destruct (eget e n) as [[]|]; nu_crash. Qed.

Lemma nu_get_bytes buf n : nu (get_bytes OP buf n).
Proof. unfold get_bytes. destruct (get_bytes_bad OP n _); nu_crash. Qed.

(* the member classification excludes every Unsupported branch of generate_deserialize_field's model, for all buffers *)
Lemma des_static_no_unsupported s allfs e f buf :
  des_static_ok tm allfs f = true -> nu (load_field OP tm R s allfs e f buf).
Proof.
  unfold des_static_ok. intros H. apply Bool.andb_true_iff in H as [_ H].
  unfold load_field. destruct (f_type f) as [i|t|a].
  - destruct (is_reserved f); cbn [negb orb] in H.
    + destruct (f_value f); try discriminate. match goal with |- nu (if ?c then _ else _) => destruct c end; nu_crash.
    + apply nu_ok.
  - match goal with |- nu (match ?x with Some _ => _ | None => _ end) => destruct x end; [|nu_crash].
    apply nu_bind; [match goal with |- nu (if ?c then _ else _) => destruct c end; apply HR|].
    intros v _. apply nu_bind; [apply HR|]. intros; apply nu_ok.
  - destruct (is_byte_array a).
    + apply nu_bind.
      * destruct (a_size a); [apply nu_ok|apply nu_size_local|discriminate].
      * intros n _. apply nu_bind; [apply nu_get_bytes|]. intros; apply nu_ok.
    + apply Bool.andb_true_iff in H as [H Hk]. apply Bool.andb_true_iff in H as [Hn Hbc].
      assert (Hn' : exists t, elem_name a = Some t) by (destruct (elem_name a); [eauto|discriminate]).
      apply nu_bind.
      * destruct (a_size a); [apply nu_ok| |apply nu_ok]. apply nu_bind; [apply nu_size_local|]. intros; apply nu_ok.
      * intros sz Hsz. apply nu_bind.
        -- destruct (is_variable_size tm a); [apply nu_read_variable; exact Hn'|].
           destruct sz; apply nu_read_array_go; assumption.
        -- intros l _. apply nu_bind.
           ++ destruct (a_byte_constrained a); cbn [negb orb] in Hbc.
              ** destruct sz; [apply nu_ok|]. exfalso. destruct (a_size a) as [n|n|].
                 --- discriminate Hsz.
                 --- unfold bind in Hsz. destruct (size_local e n); discriminate Hsz.
                 --- discriminate Hbc.
              ** destruct (negb (alignment_of a =? 0)); apply nu_array_size_with; intros x; apply nu_elem_size_d; exact Hn'.
           ++ intros; apply nu_ok.
Qed.

Lemma nu_deserialize_field s allfs e f buf :
  des_static_ok tm allfs f = true -> nu (deserialize_field OP tm R s allfs e f buf).
Proof.
  intros H. unfold deserialize_field.
  apply nu_bind; [apply nu_cond_local; unfold des_static_ok in H; apply Bool.andb_true_iff in H as [H _]; exact H|].
  intros c _. destruct c; [|apply nu_ok].
  apply nu_bind; [apply des_static_no_unsupported; exact H|]. intros; apply nu_ok.
Qed.
End DecodeMembers.

(* ---------- from wf_schema to the per-struct facts ---------- *)
Lemma wf_decls_in tm earlier rest d :
  wf_decls tm earlier rest = true -> In d rest -> exists e, forallb snd (decl_checks tm e d) = true.
Proof.
  revert earlier. induction rest as [|x r IH]; intros earlier H Hin; [destruct Hin|].
  cbn [wf_decls] in H. apply Bool.andb_true_iff in H as [H Hr]. apply Bool.andb_true_iff in H as [_ Hx].
  destruct Hin as [<-|Hin]; [eauto|]. exact (IH _ Hr Hin).
Qed.

Lemma wf_struct_checks tm s name b :
  wf_schema tm = true -> In (DStruct s) tm -> (forall e, In (name, b e) (struct_checks tm e s)) -> exists e, b e = true.
Proof.
  intros Hwf Hin Hc. destruct (wf_decls_in tm [] tm (DStruct s) Hwf Hin) as [e He].
  exists e. cbn [decl_checks] in He. rewrite forallb_forall in He. exact (He _ (Hc e)).
Qed.

Lemma wf_layout_serialize tm s : wf_schema tm = true -> In (DStruct s) tm -> layout_serialize_ok tm s = true.
Proof.
  intros Hwf Hin. destruct (wf_struct_checks tm s "layout-serialize" (fun _ => layout_serialize_ok tm s) Hwf Hin) as [_ H]; [|exact H].
  intros e. unfold struct_checks. cbn [In]. do 8 right. left. reflexivity.
Qed.

Lemma wf_layout_deserialize tm s : wf_schema tm = true -> In (DStruct s) tm -> layout_deserialize_ok tm s = true.
Proof.
  intros Hwf Hin. destruct (wf_struct_checks tm s "layout-deserialize" (fun _ => layout_deserialize_ok tm s) Hwf Hin) as [_ H]; [|exact H].
  intros e. unfold struct_checks. cbn [In]. do 9 right. left. reflexivity.
Qed.

Lemma lookup_struct_in tm n s : lookup_struct tm n = Some s -> In (DStruct s) tm.
Proof.
  unfold lookup_struct, lookup. destruct (find _ tm) as [[| |s']|] eqn:Hf; try discriminate.
  intros H; injection H as <-. exact (proj1 (find_some _ _ Hf)).
Qed.

Lemma forallb_filter {A} (p q : A -> bool) l : forallb p l = true -> forallb p (filter q l) = true.
Proof.
  induction l as [|x l IH]; cbn [forallb filter]; [reflexivity|]. intros H. apply Bool.andb_true_iff in H as [Hx Hl].
  destruct (q x); cbn [forallb]; [rewrite Hx|]; auto.
Qed.

Lemma forallb_impl {A} (p q : A -> bool) l : (forall x, p x = true -> q x = true) -> forallb p l = true -> forallb q l = true.
Proof.
  intros Hpq. induction l as [|x l IH]; cbn [forallb]; [reflexivity|]. intros H. apply Bool.andb_true_iff in H as [Hx Hl].
  rewrite (Hpq _ Hx), (IH Hl). reflexivity.
Qed.

(* ---------- deserialize and factory-deserialize of a well-formed schema never answer "Unsupported" ---------- *)
Section DecodeLoop.
Variable OP : ops.
Variable tm : list decl.
Variable R : rec_ops.
Hypothesis HR : R_des_ok R.
Variable s : struct.
Variable allfs : list field.
Let ok := des_static_ok tm allfs.

Lemma nu_drain_queue fs : forallb ok fs = true -> forall e tbuf, nu (drain_queue OP tm R s allfs e fs tbuf).
Proof.
  induction fs as [|f r IH]; cbn [drain_queue forallb]; [intros; apply nu_ok|].
  intros H e tbuf. apply Bool.andb_true_iff in H as [Hf Hr].
  apply nu_bind; [apply nu_deserialize_field; assumption|]. intros x _. apply IH. exact Hr.
Qed.

Definition queue_ok (queued : list (string * list field)) : Prop := Forall (fun q => forallb ok (snd q) = true) queued.

Lemma forallb_app_true {A} (p : A -> bool) l1 l2 : forallb p l1 = true -> forallb p l2 = true -> forallb p (l1 ++ l2) = true.
Proof. intros H1 H2. rewrite forallb_app, H1, H2. reflexivity. Qed.

Lemma nu_deserialize_loop fs : forallb ok fs = true ->
  forall processed queued temps e buf, queue_ok queued -> nu (deserialize_loop OP tm R s allfs fs processed queued temps e buf).
Proof.
  induction fs as [|f r IH]; cbn [deserialize_loop forallb]; [intros; apply nu_ok|].
  intros H processed queued temps e buf Hq. apply Bool.andb_true_iff in H as [Hf Hr].
  match goal with |- nu (match ?w with Some _ => _ | None => _ end) => destruct w as [cn|] end.
  - destruct (find (fun q : string * list field => String.eqb (fst q) cn) queued) as [q0|].
    + apply IH; [exact Hr|]. unfold queue_ok in *. rewrite Forall_forall in *. intros q Hin.
      apply in_map_iff in Hin as [q' [<- Hin']]. destruct (String.eqb (fst q') cn); cbn [snd].
      * apply forallb_app_true; [exact (Hq _ Hin')|cbn [forallb]; fold ok; rewrite Hf; reflexivity].
      * exact (Hq _ Hin').
    + destruct (f_type f) as [i|t|a]; try nu_crash.
      apply nu_bind; [apply HR|]. intros tv _. apply nu_bind; [apply HR|]. intros sz _.
      apply IH; [exact Hr|]. unfold queue_ok. apply Forall_app. split; [exact Hq|].
      constructor; [|constructor]. cbn [snd forallb]. fold ok. rewrite Hf. reflexivity.
  - apply nu_bind; [apply nu_deserialize_field; assumption|]. intros x _.
    apply nu_bind.
    + apply nu_drain_queue.
      destruct (find (fun q : string * list field => String.eqb (fst q) (f_name f)) queued) as [q0|] eqn:Hfind; [|reflexivity].
      unfold queue_ok in Hq. rewrite Forall_forall in Hq. exact (Hq _ (proj1 (find_some _ _ Hfind))).
    + intros e2 _. apply IH; assumption.
Qed.
End DecodeLoop.

(* ---------- the codecs of a well-formed schema never answer "Unsupported": serialize, size, deserialize, factory ---------- *)
(* The proof does not restate the bodies of Layout's mutual block (they are being refactored): each function is unfolded one step by cbn,
   the recursive occurrences are folded back, and the resulting term is walked (bind / match / let) down to the member loops, the recursive
   calls at a lower fuel, and helper constants, which are unfolded on sight. *)
Section Codec.
Variable OP : ops.
Variable tm : list decl.
Hypothesis Hwf : wf_schema tm = true.
(* the sort-key view of ill-typed values is the one place where the interpreter answers Unsupported on a VALUE ground (a comparer member whose
   value is not an int / byte string); admissible values never reach it -- kept as an explicit premise *)
Hypothesis Hkey : forall fuel t v, nu (key OP tm fuel t v).

Definition all_goal (k : nat) : Prop :=
  (forall t v, nu (enc OP tm k t v)) /\ (forall t v, nu (size OP tm k t v))
  /\ (forall s v, In (DStruct s) tm -> nu (enc_struct OP tm k s v)) /\ (forall s v, In (DStruct s) tm -> nu (size_struct OP tm k s v))
  /\ (forall t b, nu (dec OP tm k t b)) /\ (forall s b, In (DStruct s) tm -> nu (dec_struct OP tm k s b))
  /\ (forall t b, nu (decf OP tm k t b)).

Lemma goal_enc j : all_goal j -> forall t v, nu (enc OP tm j t v). Proof. intros H; apply H. Qed.
Lemma goal_size j : all_goal j -> forall t v, nu (size OP tm j t v). Proof. intros H; apply H. Qed.
Lemma goal_enc_struct j : all_goal j -> forall s v, In (DStruct s) tm -> nu (enc_struct OP tm j s v). Proof. intros H; apply H. Qed.
Lemma goal_size_struct j : all_goal j -> forall s v, In (DStruct s) tm -> nu (size_struct OP tm j s v). Proof. intros H; apply H. Qed.
Lemma goal_dec j : all_goal j -> forall t b, nu (dec OP tm j t b). Proof. intros H; apply H. Qed.
Lemma goal_dec_struct j : all_goal j -> forall s b, In (DStruct s) tm -> nu (dec_struct OP tm j s b). Proof. intros H; apply H. Qed.
Lemma goal_decf j : all_goal j -> forall t b, nu (decf OP tm j t b). Proof. intros H; apply H. Qed.

Lemma rec_ser_ok j : all_goal j ->
  R_ser_ok {| enc_t := enc OP tm j; size_t := size OP tm j; dec_t := dec OP tm j; decf_t := decf OP tm j; key_t := key OP tm j |}.
Proof. intros [He [Hs _]]. repeat split; cbn [enc_t size_t key_t]; auto. Qed.
Lemma rec_des_ok j : all_goal j ->
  R_des_ok {| enc_t := enc OP tm j; size_t := size OP tm j; dec_t := dec OP tm j; decf_t := decf OP tm j; key_t := key OP tm j |}.
Proof. intros [He [Hs [_ [_ [Hd [_ Hf]]]]]]. repeat split; cbn [dec_t decf_t size_t key_t]; auto. Qed.

(* the per-struct facts of wf_schema in the shapes the member loops ask for *)
Lemma fact_own_ser s : In (DStruct s) tm -> forallb (ser_static_ok tm s (struct_fields_nc s)) (own_fields tm s) = true.
Proof.
  intros Hin. pose proof (wf_layout_serialize tm s Hwf Hin) as H. unfold layout_serialize_ok in H. cbv zeta in H.
  apply Bool.andb_true_iff in H as [H _]. unfold own_fields. apply forallb_filter. exact H.
Qed.
Lemma fact_base_ser s b : In (DStruct s) tm -> base_struct tm s = Some b -> forallb (ser_static_ok tm b (struct_fields_nc s)) (struct_fields_nc b) = true.
Proof.
  intros Hin Hb. pose proof (wf_layout_serialize tm s Hwf Hin) as H. unfold layout_serialize_ok in H. cbv zeta in H.
  apply Bool.andb_true_iff in H as [_ H]. rewrite Hb in H. exact H.
Qed.
Lemma fact_own_size s : In (DStruct s) tm -> forallb (size_static_ok tm (struct_fields_nc s)) (own_fields tm s) = true.
Proof. intros Hin. generalize (fact_own_ser s Hin). apply forallb_impl. intros f. apply ser_static_size. Qed.
Lemma fact_base_size s b : In (DStruct s) tm -> base_struct tm s = Some b -> forallb (size_static_ok tm (struct_fields_nc s)) (struct_fields_nc b) = true.
Proof. intros Hin Hb. generalize (fact_base_ser s b Hin Hb). apply forallb_impl. intros f. apply ser_static_size. Qed.
Lemma fact_all_des s : In (DStruct s) tm -> forallb (des_static_ok tm (struct_fields_nc s)) (struct_fields_nc s) = true.
Proof.
  intros Hin. pose proof (wf_layout_deserialize tm s Hwf Hin) as H. unfold layout_deserialize_ok in H. cbv zeta in H.
  apply Bool.andb_true_iff in H as [H _]. exact H.
Qed.
Lemma fact_own_des s : In (DStruct s) tm -> forallb (des_static_ok tm (struct_fields_nc s)) (own_fields tm s) = true.
Proof. intros Hin. unfold own_fields. apply forallb_filter. apply fact_all_des. exact Hin. Qed.
Lemma fact_base_des s b : In (DStruct s) tm -> base_struct tm s = Some b -> forallb (des_static_ok tm (struct_fields_nc s)) (struct_fields_nc b) = true.
Proof.
  intros Hin Hb. pose proof (wf_layout_deserialize tm s Hwf Hin) as H. unfold layout_deserialize_ok in H. cbv zeta in H.
  apply Bool.andb_true_iff in H as [_ H]. rewrite Hb in H. exact H.
Qed.

Lemma lookup_in n d : lookup tm n = Some d -> In d tm.
Proof. unfold lookup. intros H. exact (proj1 (find_some _ _ H)). Qed.
Lemma find_rev_filter_in (p q : decl -> bool) d : find p (rev (filter q tm)) = Some d -> In d tm.
Proof. intros H. apply find_some in H as [H _]. apply in_rev in H. apply filter_In in H as [H _]. exact H. Qed.
Lemma queue_ok_nil allfs : queue_ok tm allfs [].
Proof. constructor. Qed.

Ltac refold :=
  fold (enc OP tm) (size OP tm) (key OP tm) (dec OP tm) (decf OP tm) (enc_struct OP tm) (size_struct OP tm) (dec_struct OP tm).
Ltac head_of t := lazymatch t with ?f _ => head_of f | _ => t end.
(* In (DStruct s) tm from whatever produced s *)
Ltac solve_in :=
  first [ assumption
        | eapply lookup_struct_in; eassumption
        | eapply lookup_in; eassumption
        | eapply find_rev_filter_in; eassumption ].
Ltac solve_fact :=
  first [ apply fact_own_ser; solve_in | eapply fact_base_ser; [solve_in|eassumption]
        | apply fact_own_size; solve_in | eapply fact_base_size; [solve_in|eassumption]
        | apply fact_own_des; solve_in | eapply fact_base_des; [solve_in|eassumption]
        | apply fact_all_des; solve_in ].

Lemma all_goal_all k : all_goal k.
Proof.
  induction k as [k IH] using lt_wf_ind.
  assert (Hlow : forall j, (j < k)%nat -> all_goal j) by exact IH.
  Ltac lower Hlow := apply Hlow; lia.
  Ltac leaf Hlow :=
    first
    [ apply nu_py_to_bytes
    | apply nu_get_bytes
    | eapply nu_serialize_fields_go; [apply rec_ser_ok; lower Hlow | solve_fact]
    | eapply nu_size_fields; [apply rec_ser_ok; lower Hlow | solve_fact]
    | eapply nu_deserialize_loop; [apply rec_des_ok; lower Hlow | solve_fact | apply queue_ok_nil]
    | apply goal_enc; lower Hlow
    | apply goal_size; lower Hlow
    | apply goal_dec; lower Hlow
    | apply goal_decf; lower Hlow
    | apply goal_enc_struct; [lower Hlow | solve_in]
    | apply goal_size_struct; [lower Hlow | solve_in]
    | apply goal_dec_struct; [lower Hlow | solve_in]
    | lazymatch goal with |- nu ?t => let h := head_of t in unfold h end ].
  Ltac walk Hlow :=
    repeat first
    [ progress cbv zeta
    | lazymatch goal with
      | |- nu (Ok _) => apply nu_ok
      | |- nu Reject => apply nu_reject
      | |- nu (Crash _) => nu_crash
      | |- nu (bind _ _) => apply nu_bind; [|intros ? _]
      | |- nu (match ?x with _ => _ end) => first [ match goal with H : x = _ |- _ => rewrite H end | destruct x eqn:? ]
      end
    | leaf Hlow ].
  destruct k as [|k].
  { repeat split; intros; cbn; nu_crash. }
  repeat split.
  - intros t v. cbn [enc]. refold. walk Hlow.
  - intros t v. cbn [size]. refold. walk Hlow.
  - intros s v Hin. cbn [enc_struct]. refold. walk Hlow.
  - intros s v Hin. cbn [size_struct]. refold. walk Hlow.
  - intros t b. cbn [dec]. refold. walk Hlow.
  - intros s b Hin. cbn [dec_struct]. refold. walk Hlow.
  - intros t b. destruct k as [|k1]; [cbn; nu_crash|]. cbn [decf]. refold. walk Hlow.
Qed.

Theorem codecs_no_unsupported_all fuel t v b :
  nu (enc OP tm fuel t v) /\ nu (size OP tm fuel t v) /\ nu (dec OP tm fuel t b) /\ nu (decf OP tm fuel t b).
Proof. destruct (all_goal_all fuel) as [He [Hs [_ [_ [Hd [_ Hf]]]]]]. repeat split; auto. Qed.
End Codec.

(* every struct of a well-formed schema: each member (own, inherited, and the parent's as the parent's methods see them) is classified into a
   supported case of the interpreter, on both the serialize and the deserialize side *)
Lemma wf_members_supported tm s : wf_schema tm = true -> In (DStruct s) tm ->
  layout_serialize_ok tm s = true /\ layout_deserialize_ok tm s = true.
Proof. intros Hwf Hin. split; [apply wf_layout_serialize|apply wf_layout_deserialize]; assumption. Qed.

(* non-vacuity: without wf_schema the Unsupported outcome is reachable (an array of 16-bit ints has no printer path), and wf_schema rejects it *)
Definition bad_schema : list decl :=
  [DStruct {| s_name := "Ho"; s_disp := SdNone;
              s_fields := [Field "ws" (FArray {| a_elem := ElInt {| it_unsigned := true; it_size := 2; it_sizeref := None |}; a_size := SzNum 2;
                                                   a_sort_key := None; a_byte_constrained := false; a_alignment := None; a_last_padded := None |})
                                 Ast.VNone DispNone None None];
              s_factory_type := None; s_attrs := None; s_comment := None; s_requires_unaligned := false |}].
Lemma unsupported_reachable :
  enc ops_now bad_schema type_fuel "Ho" (VStruct "Ho" [("ws", VArr [VInt 1; VInt 2])]) = Crash "Unsupported" /\ wf_schema bad_schema = false.
Proof. split; vm_compute; reflexivity. Qed.

