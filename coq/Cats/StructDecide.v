(* Boolean deciders for the fragment (struct_okb: flat / based / based-without-size structs, lorderedb: member lists with an optional
   union block, factory_okb, admfb / admb: values) with soundness, so that membership of concrete shipped structs and values is a
   kernel computation. *)
From Symv Require Import Base.Bytes Base.PyOps Cats.Layout Cats.LayoutInst Cats.StructProofs Cats.StructRoundTrip.
From Coq Require Import Lia ZifyBool.
Open Scope string_scope.
Open Scope list_scope.
Open Scope Z_scope.

Section Decide.
Variable tm : list decl.

Fixpoint nodup_names (l : list string) : bool :=
  match l with [] => true | x :: r => negb (existsb (String.eqb x) r) && nodup_names r end.

Lemma nodup_names_sound l : nodup_names l = true -> NoDup l.
Proof.
  induction l as [|x r IH]; intros H; [constructor|]. cbn in H. apply Bool.andb_true_iff in H as [Hx Hr]. constructor; [|now apply IH].
  intros Hin. apply Bool.negb_true_iff in Hx. assert (existsb (String.eqb x) r = true) by (apply existsb_exists; exists x; split; [exact Hin | apply String.eqb_refl]). congruence.
Qed.

Lemma existsb_name_in n l : existsb (String.eqb n) l = true -> In n l.
Proof. intros H. apply existsb_exists in H as (x & Hx & He). apply String.eqb_eq in He. now subst. Qed.

Section S.
Variable allfs : list field.

Definition deps_okb (seen : list field) (proc : list string) (f : field) : bool :=
  match classify tm allfs f with
  | Some (MkArray _ n) | Some (MkBytes n) =>
    existsb (fun c => String.eqb (f_name c) n &&
                      match classify tm allfs c with Some (MkCount _ g) => String.eqb (f_name g) (f_name f) | _ => false end) seen
  | Some (MkCondBytes n y) =>
    existsb (fun c => String.eqb (f_name c) n &&
                      match classify tm allfs c with Some (MkCountCond _ g y') => String.eqb (f_name g) (f_name f) && (y' =? y) | _ => false end) seen
    && existsb (String.eqb n) proc
  | Some (MkNamedSized t sfn) =>
    existsb (fun c => String.eqb (f_name c) sfn &&
                      match classify tm allfs c with Some (MkSizeof _ gn t') => String.eqb gn (f_name f) && String.eqb t' t | _ => false end) seen
  | Some (MkCondNamed t cfn) =>
    existsb (fun c => String.eqb (f_name c) cfn &&
                      match classify tm allfs c with Some (MkComputed _ gn t' _) => String.eqb gn (f_name f) && String.eqb t' t | _ => false end) seen
    && existsb (String.eqb cfn) proc
  | Some (MkVarSized _ n) =>
    existsb (fun c => String.eqb (f_name c) n &&
                      match classify tm allfs c with Some (MkByteSize _ g) => String.eqb (f_name g) (f_name f) | _ => false end) seen
  | Some (MkArm _ _ _ _ _) => false
  | Some _ => true
  | None => false
  end.

Definition fill_memberb (f : field) : bool :=
  match classify tm allfs f with Some (MkFillPlain _) | Some (MkFillVar _) => true | _ => false end.

Lemma fill_memberb_false f : fill_memberb f = false -> ~ fill_member tm allfs f.
Proof. unfold fill_memberb, fill_member. destruct (classify tm allfs f) as [[]|]; try discriminate; tauto. Qed.

Fixpoint orderedb (seen : list field) (proc : list string) (fs : list field) : bool :=
  match fs with
  | [] => true
  | f :: r => deps_okb seen proc f && (negb (fill_memberb f) || match r with [] => true | _ => false end)
              && orderedb (seen ++ [f]) (f_name f :: proc) r
  end.

Lemma bound_field_in c g : bound_field allfs c = Some g -> In g allfs.
Proof.
  unfold bound_field, sizeof_target, bound_array, find_field. intros H.
  destruct (is_sizeof c).
  - destruct (f_value c); try (apply find_some in H as [H _]; now apply in_rev in H).
    destruct (find (fun f => String.eqb (f_name f) s) allfs) eqn:Hf.
    + injection H as <-. now apply find_some in Hf as [Hf _].
    + apply find_some in H as [H _]. now apply in_rev in H.
  - apply find_some in H as [H _]. now apply in_rev in H.
Qed.

Hypothesis names_nodup : NoDup (map f_name allfs).

Lemma same_name_same_field f g : In f allfs -> In g allfs -> f_name g = f_name f -> g = f.
Proof.
  clear - names_nodup. induction allfs as [|x l IH]; intros Hf Hg Hn; [contradiction|].
  cbn [map] in names_nodup. inversion names_nodup as [|? ? Hnin Hnd]; subst.
  destruct Hf as [->|Hf], Hg as [->|Hg]; try reflexivity.
  - exfalso. apply Hnin. rewrite <- Hn. now apply in_map.
  - exfalso. apply Hnin. rewrite Hn. now apply in_map.
  - now apply IH.
Qed.

Lemma deps_okb_sound seen proc f : In f allfs -> deps_okb seen proc f = true -> deps_ok tm allfs seen proc f.
Proof.
  intros Hf H. unfold deps_okb in H. unfold deps_ok. destruct (classify tm allfs f) as [k|] eqn:Hk; [|discriminate].
  assert (Hcount : forall n, existsb (fun c => String.eqb (f_name c) n &&
                      match classify tm allfs c with Some (MkCount _ g) => String.eqb (f_name g) (f_name f) | _ => false end) seen = true ->
                    size_member_seen tm allfs seen f n).
  { intros n Hex. apply existsb_exists in Hex as (c & Hc & Hex). apply Bool.andb_true_iff in Hex as [Hn Hg].
    apply String.eqb_eq in Hn. destruct (classify tm allfs c) as [[| |i g| | | | | | | | | | | | | |]|] eqn:Hcl; try discriminate.
    apply String.eqb_eq in Hg. exists c, i. repeat split; [exact Hc | exact Hn|].
    pose proof (classify_facts tm allfs c _ Hcl) as F. cbn [kind_facts] in F. destruct F as (_ & _ & _ & _ & Hb & _).
    now rewrite (same_name_same_field f g Hf (bound_field_in c g Hb) Hg) in Hcl. }
  destruct k; try exact I.
  - now apply Hcount.
  - now apply Hcount.
  - apply existsb_exists in H as (c & Hc & Hex). apply Bool.andb_true_iff in Hex as [Hn Hg]. apply String.eqb_eq in Hn.
    destruct (classify tm allfs c) as [[| | | | | | |i gn t'| | | | | | | | |]|] eqn:Hcl; try discriminate.
    apply Bool.andb_true_iff in Hg as [Hg Ht]. apply String.eqb_eq in Hg, Ht. subst. now exists c, i.
  - apply Bool.andb_true_iff in H as [H Hp]. split; [|now apply existsb_name_in].
    apply existsb_exists in H as (c & Hc & Hex). apply Bool.andb_true_iff in Hex as [Hn Hg]. apply String.eqb_eq in Hn.
    destruct (classify tm allfs c) as [[| | | | | | | | |i gn t' d| | | | | | |]|] eqn:Hcl; try discriminate.
    apply Bool.andb_true_iff in Hg as [Hg Ht]. apply String.eqb_eq in Hg, Ht. subst. now exists c, i, d.
  - apply Bool.andb_true_iff in H as [H Hp]. split; [|now apply existsb_name_in].
    apply existsb_exists in H as (c & Hc & Hex). apply Bool.andb_true_iff in Hex as [Hn Hg]. apply String.eqb_eq in Hn.
    destruct (classify tm allfs c) as [[| | |i g y'| | | | | | | | | | | | |]|] eqn:Hcl; try discriminate.
    apply Bool.andb_true_iff in Hg as [Hg Hy]. apply String.eqb_eq in Hg. assert (y' = y) by lia. subst y'.
    exists c, i. repeat split; [exact Hc | exact Hn|].
    pose proof (classify_facts tm allfs c _ Hcl) as F. cbn [kind_facts] in F. destruct F as (_ & _ & _ & _ & Hb & _).
    now rewrite (same_name_same_field f g Hf (bound_field_in c g Hb) Hg) in Hcl.
  - apply existsb_exists in H as (c & Hc & Hex). apply Bool.andb_true_iff in Hex as [Hn Hg]. apply String.eqb_eq in Hn.
    destruct (classify tm allfs c) as [[| | | | | | | | | | | |i g| | | |]|] eqn:Hcl; try discriminate.
    apply String.eqb_eq in Hg. exists c, i. repeat split; [exact Hc | exact Hn|].
    pose proof (classify_facts tm allfs c _ Hcl) as F. cbn [kind_facts] in F. destruct F as (_ & _ & _ & _ & Hb & _).
    now rewrite (same_name_same_field f g Hf (bound_field_in c g Hb) Hg) in Hcl.
  - discriminate.
Qed.

Lemma orderedb_sound : forall fs seen proc, (forall f, In f fs -> In f allfs) -> orderedb seen proc fs = true -> ordered tm allfs seen proc fs.
Proof.
  induction fs as [|f r IH]; intros seen proc Hin H; [constructor|]. cbn [orderedb] in H. apply Bool.andb_true_iff in H as [H Hr]. apply Bool.andb_true_iff in H as [Hf Hlast].
  constructor; [apply deps_okb_sound; [apply Hin; now left | exact Hf] | | apply IH; [intros g Hg; apply Hin; now right | exact Hr]].
  intros Hfm. apply Bool.orb_true_iff in Hlast as [Hl|Hl]; [|destruct r; [reflexivity|discriminate]].
  exfalso. apply Bool.negb_true_iff in Hl. exact (fill_memberb_false f Hl Hfm).
Qed.

(* ---- member lists with a union block at the front ---- *)
Definition armb (ln : string) (w : Z) (f : field) : bool :=
  match classify tm allfs f with Some (MkArm _ ln' _ i _) => String.eqb ln' ln && (it_size i =? w) | _ => false end.
Definition arm_link (f : field) : option (string * Z) :=
  match classify tm allfs f with Some (MkArm _ ln _ i _) => Some (ln, it_size i) | _ => None end.

Fixpoint take_arms (ln : string) (w : Z) (fs : list field) : list field * list field :=
  match fs with
  | f :: r => if armb ln w f then let (a, b) := take_arms ln w r in (f :: a, b) else ([], fs)
  | [] => ([], [])
  end.
Fixpoint take_until (ln : string) (fs : list field) : list field * list field :=
  match fs with
  | f :: r => if String.eqb (f_name f) ln then ([], fs) else let (a, b) := take_until ln r in (f :: a, b)
  | [] => ([], [])
  end.

Lemma take_arms_spec ln w : forall fs a b, take_arms ln w fs = (a, b) -> fs = a ++ b /\ forallb (armb ln w) a = true.
Proof.
  induction fs as [|f r IH]; intros a b H; cbn [take_arms] in H.
  - injection H as <- <-. now split.
  - destruct (armb ln w f) eqn:Hf; [|injection H as <- <-; now split].
    destruct (take_arms ln w r) as [a' b'] eqn:Hr. injection H as <- <-. destruct (IH a' b' eq_refl) as [-> Ha]. split; [reflexivity|]. cbn [forallb]. now rewrite Hf, Ha.
Qed.

Lemma take_until_spec ln : forall fs a b, take_until ln fs = (a, b) -> fs = a ++ b.
Proof.
  induction fs as [|f r IH]; intros a b H; cbn [take_until] in H.
  - now injection H as <- <-.
  - destruct (String.eqb (f_name f) ln); [now injection H as <- <-|].
    destruct (take_until ln r) as [a' b'] eqn:Hr. injection H as <- <-. now rewrite (IH a' b' eq_refl).
Qed.

Fixpoint nodup_z (l : list Z) : bool := match l with [] => true | x :: r => negb (existsb (Z.eqb x) r) && nodup_z r end.
Lemma nodup_z_sound l : nodup_z l = true -> NoDup l.
Proof.
  induction l as [|x r IH]; intros H; [constructor|]. cbn in H. apply Bool.andb_true_iff in H as [Hx Hr]. constructor; [|now apply IH].
  intros Hin. apply Bool.negb_true_iff in Hx. assert (existsb (Z.eqb x) r = true) by (apply existsb_exists; exists x; split; [exact Hin | apply Z.eqb_refl]). congruence.
Qed.
Fixpoint zlist_eqb (a b : list Z) : bool :=
  match a, b with [], [] => true | x :: a', y :: b' => (x =? y) && zlist_eqb a' b' | _, _ => false end.
Lemma zlist_eqb_eq a : forall b, zlist_eqb a b = true -> a = b.
Proof. induction a as [|x a IH]; intros [|y b] H; cbn in H; try discriminate; [reflexivity|]. apply Bool.andb_true_iff in H as [H1 H2]. f_equal; [lia | now apply IH]. Qed.

Definition union_okb (seen : list field) (proc : list string) (arms mid : list field) (lk : field) (post : list field) (w : Z) : bool :=
  match arms with [] => false | _ => true end
  && forallb (armb (f_name lk) w) arms
  && nodup_z (map (arm_const tm allfs) arms)
  && forallb (fun a => match classify tm allfs a with Some (MkArm _ _ _ _ ys) => zlist_eqb ys (map (arm_const tm allfs) arms) | _ => false end) arms
  && negb (existsb (String.eqb (f_name lk)) proc)
  && orderedb seen proc mid
  && forallb (fun f => negb (fill_memberb f)) mid
  && match classify tm allfs lk with Some (MkNamed _) => true | _ => false end
  && orderedb (seen ++ arms ++ mid ++ [lk]) (f_name lk :: rev (map f_name mid) ++ proc) post.

Definition lorderedb (seen : list field) (proc : list string) (fs : list field) : bool :=
  match fs with
  | f :: _ =>
    match arm_link f with
    | Some (ln, w) =>
      let (arms, r1) := take_arms ln w fs in
      let (mid, r2) := take_until ln r1 in
      match r2 with lk :: post => String.eqb (f_name lk) ln && union_okb seen proc arms mid lk post w | [] => false end
    | None => orderedb seen proc fs
    end
  | [] => true
  end.

Lemma armb_sound ln w f : armb ln w f = true -> is_arm tm allfs ln w f.
Proof.
  unfold armb, is_arm. destruct (classify tm allfs f) as [[]|]; try discriminate. intros H. apply Bool.andb_true_iff in H as [H1 H2].
  apply String.eqb_eq in H1. subst. do 4 eexists. split; [reflexivity|lia].
Qed.

Lemma union_okb_sound seen proc arms mid lk post w : (forall f, In f (arms ++ mid ++ lk :: post) -> In f allfs) ->
  union_okb seen proc arms mid lk post w = true -> union_ok tm allfs seen proc arms mid lk post.
Proof.
  intros Hin H. unfold union_okb in H. repeat (apply Bool.andb_true_iff in H as [H ?]).
  constructor.
  - destruct arms; [discriminate|discriminate].
  - exists w. intros a Ha. apply armb_sound. match goal with Hx : forallb (armb _ _) arms = true |- _ => rewrite forallb_forall in Hx; exact (Hx a Ha) end.
  - now apply nodup_z_sound.
  - intros a t y i ys Ha Hk. match goal with Hx : forallb (fun a => match classify tm allfs a with _ => _ end) arms = true |- _ => rewrite forallb_forall in Hx; specialize (Hx a Ha) end.
    rewrite Hk in *. now apply zlist_eqb_eq.
  - intros Hx. match goal with Hn : negb (existsb _ proc) = true |- _ => apply Bool.negb_true_iff in Hn end.
    assert (existsb (String.eqb (f_name lk)) proc = true) by (apply existsb_exists; exists (f_name lk); split; [exact Hx | apply String.eqb_refl]). congruence.
  - apply orderedb_sound; [|assumption]. intros f Hf. apply Hin. apply in_or_app. right. apply in_or_app. now left.
  - intros f Hf. match goal with Hs : forallb (fun f => negb (fill_memberb f)) mid = true |- _ => rewrite forallb_forall in Hs; specialize (Hs f Hf) end.
    apply fill_memberb_false. now apply Bool.negb_true_iff.
  - destruct (classify tm allfs lk) as [[]|]; try discriminate. eauto.
  - apply orderedb_sound; [|assumption]. intros f Hf. apply Hin. apply in_or_app. right. apply in_or_app. right. now right.
Qed.

Lemma lorderedb_sound seen proc fs : (forall f, In f fs -> In f allfs) -> lorderedb seen proc fs = true -> lordered tm allfs seen proc fs.
Proof.
  intros Hin H. unfold lorderedb in H. destruct fs as [|f r]; [apply lo_plain; constructor|].
  destruct (arm_link f) as [[ln w]|]; [|apply lo_plain; now apply orderedb_sound].
  destruct (take_arms ln w (f :: r)) as [arms r1] eqn:Ha. destruct (take_until ln r1) as [mid r2] eqn:Hm.
  destruct r2 as [|lk post]; [discriminate|]. apply Bool.andb_true_iff in H as [Hn H]. apply String.eqb_eq in Hn.
  destruct (take_arms_spec ln w _ _ _ Ha) as [Hfs _]. pose proof (take_until_spec ln _ _ _ Hm) as Hr1. subst r1.
  apply (lo_union tm allfs seen proc (f :: r) arms mid lk post Hfs). apply (union_okb_sound seen proc arms mid lk post w); [|exact H].
  intros g Hg. apply Hin. now rewrite Hfs.
Qed.

Definition pos_memberb (f : field) : bool :=
  match classify tm allfs f with
  | Some (MkNamed _) | Some (MkNamedSized _ _) => true
  | Some k => match int_of_kind k with Some i => 0 <? it_size i | None => false end
  | None => false
  end.

Lemma pos_memberb_sound f : pos_memberb f = true -> pos_member tm allfs f.
Proof.
  unfold pos_memberb, pos_member. destruct (classify tm allfs f) as [k|]; [|discriminate].
  destruct k; cbn [int_of_kind]; try discriminate; try (intros; exact I); intros H; lia.
Qed.
End S.

Definition struct_size_attr_none (s : struct) : bool := match struct_size_attr s with None => true | Some _ => false end.

Definition flat_structb (s : struct) : bool :=
  let allfs := struct_fields_nc s in
  match lookup tm (s_name s) with Some (DStruct s') => true | _ => false end
  && match s_factory_type s with None => true | Some _ => false end
  && struct_size_attr_none s
  && match s_disp s with SdAbstract => false | _ => true end
  && nodup_names (map f_name allfs)
  && forallb (fun f => negb (String.eqb (f_name f) "size")) allfs
  && lorderedb allfs [] [] allfs
  && existsb (pos_memberb allfs) allfs
  && forallb (fun f => negb (fill_memberb allfs f)) allfs.

(* the lookup must return the struct itself (names are unique in a validated schema) *)
Definition self_lookup (s : struct) : Prop := lookup tm (s_name s) = Some (DStruct s).

Lemma flat_structb_sound s : self_lookup s -> flat_structb s = true -> flat_struct tm s.
Proof.
  intros Hself H. unfold flat_structb in H. repeat (apply Bool.andb_true_iff in H as [H ?]).
  match goal with Hn : nodup_names _ = true |- _ => pose proof (nodup_names_sound _ Hn) as Hnd end.
  constructor.
  - exact Hself.
  - destruct (s_factory_type s); [discriminate|reflexivity].
  - unfold struct_size_attr_none in *. destruct (struct_size_attr s); [discriminate|reflexivity].
  - destruct (s_disp s); congruence.
  - exact Hnd.
  - intros f Hf Hn. match goal with Hs : forallb (fun f => negb (String.eqb _ _)) _ = true |- _ => rewrite forallb_forall in Hs; specialize (Hs f Hf) end.
    rewrite Hn in *. discriminate.
  - apply lorderedb_sound; [exact Hnd | auto | assumption].
  - match goal with Hx : existsb _ _ = true |- _ => apply existsb_exists in Hx as (f & Hf & Hex) end.
    exists f. split; [exact Hf | now apply pos_memberb_sound].
  - intros f Hf. match goal with Hs : forallb (fun f => negb (fill_memberb _ f)) _ = true |- _ => rewrite forallb_forall in Hs; specialize (Hs f Hf) end.
    apply fill_memberb_false. now apply Bool.negb_true_iff.
Qed.

(* decidable equality of members (for "the child's members are the parent's members followed by its own") *)
Definition field_eq_dec : forall a b : field, {a = b} + {a <> b}.
Proof. repeat decide equality. Defined.
Definition fields_eqb (a b : list field) : bool := if list_eq_dec field_eq_dec a b then true else false.
Lemma fields_eqb_eq a b : fields_eqb a b = true -> a = b.
Proof. unfold fields_eqb. destruct (list_eq_dec field_eq_dec a b); [trivial|discriminate]. Qed.

Definition opt_is_size (o : option string) : bool := match o with Some n => String.eqb n "size" | None => false end.
Lemma opt_is_size_eq o : opt_is_size o = true -> o = Some "size".
Proof. destruct o; cbn; [|discriminate]. intros H. apply String.eqb_eq in H. now subst. Qed.

Definition based_structb (s : struct) : bool :=
  match base_struct tm s with
  | Some a =>
    match struct_fields_nc a with
    | f0 :: hrest =>
      match f_type f0, f_cond f0 with
      | FInt i, None =>
        let allfs := struct_fields_nc s in
        let own := own_fields tm s in
        match s_disp s with SdAbstract => false | _ => true end
        && fields_eqb allfs (f0 :: hrest ++ own)
        && nodup_names (map f_name (f0 :: hrest ++ own))
        && opt_is_size (struct_size_attr a) && opt_is_size (struct_size_attr s)
        && String.eqb (f_name f0) "size" && (0 <? it_size i) && it_unsigned i
        && negb (is_reserved f0) && is_settable allfs f0
        && lorderedb allfs [] ["size"] hrest && lorderedb allfs hrest [] own
        && forallb (fun f => negb (fill_memberb allfs f)) hrest
      | _, _ => false
      end
    | [] => false
    end
  | None => false
  end.

Lemma based_structb_sound s : self_lookup s -> based_structb s = true ->
  exists a f0 i hrest, based_struct tm s a f0 i hrest.
Proof.
  intros Hself H. unfold based_structb in H.
  destruct (base_struct tm s) as [a|] eqn:Hb; [|discriminate].
  destruct (struct_fields_nc a) as [|f0 hrest] eqn:Hpa; [discriminate|].
  destruct (f_type f0) as [i| |] eqn:Hft; try discriminate. destruct (f_cond f0) eqn:Hfc; [discriminate|].
  repeat (apply Bool.andb_true_iff in H as [H ?]).
  match goal with Hx : fields_eqb _ _ = true |- _ => pose proof (fields_eqb_eq _ _ Hx) as Hall end.
  match goal with Hx : nodup_names _ = true |- _ => pose proof (nodup_names_sound _ Hx) as Hnd end.
  assert (Hnd_all : NoDup (map f_name (struct_fields_nc s))) by (rewrite Hall; exact Hnd).
  exists a, f0, i, hrest. constructor; try assumption.
  - destruct (s_disp s); congruence.
  - now apply opt_is_size_eq.
  - now apply opt_is_size_eq.
  - now apply String.eqb_eq.
  - lia.
  - match goal with Hx : negb (is_reserved f0) = true |- _ => now apply Bool.negb_true_iff in Hx end.
  - apply lorderedb_sound; [exact Hnd_all | intros f Hf; rewrite Hall; right; apply in_or_app; now left | assumption].
  - apply lorderedb_sound; [exact Hnd_all | intros f Hf; rewrite Hall; right; apply in_or_app; now right | assumption].
  - intros f Hf. match goal with Hs : forallb (fun f => negb (fill_memberb _ f)) _ = true |- _ => rewrite forallb_forall in Hs; specialize (Hs f Hf) end.
    apply fill_memberb_false. now apply Bool.negb_true_iff.
Qed.

(* parent without @size member (NEM) *)
Definition based_nosizeb (s : struct) : bool :=
  match base_struct tm s with
  | Some a =>
    let hfs := struct_fields_nc a in
    let allfs := struct_fields_nc s in
    let own := own_fields tm s in
    match s_disp s with SdAbstract => false | _ => true end
    && fields_eqb allfs (hfs ++ own)
    && nodup_names (map f_name (hfs ++ own))
    && struct_size_attr_none a && struct_size_attr_none s
    && forallb (fun f => negb (String.eqb (f_name f) "size")) allfs
    && lorderedb allfs [] [] hfs && lorderedb allfs hfs [] own
    && existsb (pos_memberb allfs) allfs
    && forallb (fun f => negb (fill_memberb allfs f)) allfs
  | None => false
  end.

Lemma based_nosizeb_sound s : self_lookup s -> based_nosizeb s = true -> exists a hfs, based_nosize_struct tm s a hfs.
Proof.
  intros Hself H. unfold based_nosizeb in H.
  destruct (base_struct tm s) as [a|] eqn:Hb; [|discriminate].
  repeat (apply Bool.andb_true_iff in H as [H ?]).
  match goal with Hx : fields_eqb _ _ = true |- _ => pose proof (fields_eqb_eq _ _ Hx) as Hall end.
  match goal with Hx : nodup_names _ = true |- _ => pose proof (nodup_names_sound _ Hx) as Hnd end.
  assert (Hnd_all : NoDup (map f_name (struct_fields_nc s))) by (rewrite Hall; exact Hnd).
  exists a, (struct_fields_nc a). constructor; try assumption; try reflexivity.
  - destruct (s_disp s); congruence.
  - unfold struct_size_attr_none in *. destruct (struct_size_attr a); [discriminate|reflexivity].
  - unfold struct_size_attr_none in *. destruct (struct_size_attr s); [discriminate|reflexivity].
  - intros f Hf Hn. match goal with Hs : forallb (fun f => negb (String.eqb _ _)) _ = true |- _ => rewrite forallb_forall in Hs; specialize (Hs f Hf) end.
    rewrite Hn in *. discriminate.
  - apply lorderedb_sound; [exact Hnd_all | intros f Hf; rewrite Hall; apply in_or_app; now left | assumption].
  - apply lorderedb_sound; [exact Hnd_all | intros f Hf; rewrite Hall; apply in_or_app; now right | assumption].
  - match goal with Hx : existsb _ _ = true |- _ => apply existsb_exists in Hx as (f & Hf & Hex) end.
    exists f. split; [exact Hf | now apply pos_memberb_sound].
  - intros f Hf. match goal with Hs : forallb (fun f => negb (fill_memberb _ f)) _ = true |- _ => rewrite forallb_forall in Hs; specialize (Hs f Hf) end.
    apply fill_memberb_false. now apply Bool.negb_true_iff.
Qed.

Definition struct_okb (s : struct) : bool := flat_structb s || based_structb s || based_nosizeb s.

Lemma struct_okb_sound s : self_lookup s -> struct_okb s = true -> struct_ok tm s.
Proof.
  intros Hself H. apply Bool.orb_true_iff in H as [H|H]; [apply Bool.orb_true_iff in H as [H|H]|].
  - left; now apply flat_structb_sound.
  - right; left; now apply based_structb_sound.
  - right; right; now apply based_nosizeb_sound.
Qed.

(* values *)
Definition opt_struct_ofb (ab : string -> value -> bool) (t : string) (v : value) : bool :=
  match v with VNull => true | VStruct _ _ => ab t v | _ => false end.

Definition member_typedb (allfs : list field) (admb : string -> value -> bool) (self : value) (f : field) : bool :=
  match classify tm allfs f with
  | Some (MkInt _) => match vget self (f_name f) with Some (VInt _) => true | _ => false end
  | Some (MkReserved _ _) => true
  | Some (MkCount _ g) => match vget self (f_name g) with Some (VBytes _) | Some (VArr _) => true | _ => false end
  | Some (MkCountCond _ g _) => match vget self (f_name g) with Some (VBytes _) | Some VNull => true | _ => false end
  | Some (MkNamed t) | Some (MkNamedSized t _) => match vget self (f_name f) with Some VNull => false | Some v => admb t v | None => false end
  | Some (MkBytes _) => match vget self (f_name f) with Some (VBytes _) => true | _ => false end
  | Some (MkByteSize _ _) => true
  | Some (MkArray a _) | Some (MkVarSized a _) | Some (MkFillPlain a) | Some (MkFillVar a) =>
    match vget self (f_name f), elem_name a with
    | Some (VArr l), Some et => (Z.of_nat (length l) <=? 65536) && forallb (admb et) l
    | _, _ => false
    end
  | Some (MkSizeof _ gn t) => match vget self gn with Some VNull => false | Some v => admb t v | None => false end
  | Some (MkComputed _ gn t _) => match vget self gn with Some v => opt_struct_ofb admb t v | None => false end
  | Some (MkCondNamed t _) => match vget self (f_name f) with Some v => opt_struct_ofb admb t v | None => false end
  | Some (MkCondBytes _ y) => match vget self (f_name f) with Some VNull => true | Some (VBytes b) => negb (Z.of_nat (length b) =? y) | _ => false end
  | Some (MkArm t ln y _ ys) =>
    match vget self (f_name f), vget self ln with
    | Some v, Some (VInt z) =>
      existsb (Z.eqb z) ys && (if z =? y then match v with VInt _ => admb t v | _ => false end else match v with VNull => true | _ => false end)
    | _, _ => false
    end
  | None => false
  end.

Fixpoint str_list_eqb (a b : list string) : bool :=
  match a, b with [], [] => true | x :: a', y :: b' => String.eqb x y && str_list_eqb a' b' | _, _ => false end.

Lemma str_list_eqb_eq a : forall b, str_list_eqb a b = true -> a = b.
Proof. induction a as [|x a IH]; intros [|y b] H; cbn in H; try discriminate; [reflexivity|]. apply Bool.andb_true_iff in H as [H1 H2]. apply String.eqb_eq in H1. f_equal; [exact H1 | now apply IH]. Qed.

Definition struct_eq_dec : forall a b : struct, {a = b} + {a <> b}.
Proof. repeat decide equality. Defined.

(* static conditions for decoding the child s through the factory of the abstract struct a (named t) *)
Definition factory_okb (t : string) (a s : struct) : bool :=
  match s_disp a with SdAbstract => true | _ => false end
  && match s_factory_type s with Some t' => String.eqb t' t | None => false end
  && forallb (fun f => is_none (f_cond f) && fields_eqb (size_fields_of (struct_fields_nc a) f) (size_fields_of (struct_fields_nc s) f)) (struct_fields_nc a)
  && negb (is_none (find_attr (s_attrs a) "discriminator"))
  && forallb (fun n => negb (String.eqb n "size") &&
                       existsb (fun f => String.eqb (f_name f) n &&
                                         match classify tm (struct_fields_nc s) f with Some (MkInt _) | Some (MkNamed _) => true | _ => false end)
                               (struct_fields_nc a)) (disc_names a).

Fixpoint admfb (n : nat) (t : string) (v : value) : bool :=
  match v with
  | VInt z =>
    match lookup tm t with
    | Some (DAlias _ (LInt i) _) => (0 <? it_size i) && it_unsigned i
    | Some (DEnum _ b vs at_ _) => (0 <? it_size b) && enum_valid vs (is_bitwise at_) z
    | _ => false
    end
  | VBytes b =>
    match lookup tm t with
    | Some (DAlias _ (LBuffer m) _) => (0 <? m) && (Z.of_nat (length b) =? m)
    | _ => false
    end
  | VStruct cls vs =>
    match n with
    | O => false
    | S n' =>
      match lookup_struct tm cls with
      | Some s =>
        struct_okb s
        && str_list_eqb (map fst vs) (map f_name (settable_fields s))
        && forallb (member_typedb (struct_fields_nc s) (admfb n') v) (typed_members tm s)
        && (String.eqb t cls ||
            match lookup_struct tm t with
            | Some a =>
              factory_okb t a s &&
              match factory_pick tm t (disc_names a) (map (fun n => vget v n) (disc_names a)) with
              | Some (DStruct c) => if struct_eq_dec c s then true else false
              | _ => false
              end
            | None => false
            end)
      | None => false
      end
    end
  | _ => false
  end.

Definition admb (n : nat) (t : string) (v : value) : bool := admfb n t v && negb (is_abs tm t).

Lemma lookup_struct_self cls s : lookup_struct tm cls = Some s -> s_name s = cls /\ self_lookup s.
Proof.
  unfold lookup_struct, self_lookup, lookup. intros H.
  destruct (find (fun d => String.eqb (decl_name d) cls) tm) as [d|] eqn:Hf; [|discriminate].
  destruct d as [| |s']; try discriminate. injection H as ->.
  pose proof (find_some _ _ Hf) as [_ Hn]. apply String.eqb_eq in Hn. cbn [decl_name] in Hn. split; [exact Hn|]. now rewrite Hn.
Qed.

Lemma opt_struct_ofb_sound (ab : string -> value -> bool) (ap : string -> value -> Prop) t v :
  (forall t v, ab t v = true -> ap t v) -> opt_struct_ofb ab t v = true -> opt_struct_of ap t v.
Proof. intros Hab H. unfold opt_struct_of. destruct v; try discriminate; [right; split; [reflexivity | now apply Hab] | now left]. Qed.

Lemma member_typedb_sound allfs (ab : string -> value -> bool) (ap : string -> value -> Prop) self f :
  (forall t v, ab t v = true -> ap t v) -> member_typedb allfs ab self f = true -> member_typed tm allfs ap self f.
Proof.
  intros Hab H. unfold member_typedb in H. unfold member_typed.
  destruct (classify tm allfs f) as [k|]; [|discriminate]. destruct k.
  - destruct (vget self (f_name f)) as [[z| | | |]|]; try discriminate. eauto.
  - exact I.
  - destruct (vget self (f_name g)) as [[|b|l| |]|]; try discriminate; [left|right]; eauto.
  - destruct (vget self (f_name g)) as [[|b|l| |]|]; try discriminate; [right|left]; eauto.
  - destruct (vget self (f_name f)) as [v|]; [|discriminate]. exists v. destruct v; try discriminate; (split; [reflexivity|split; [discriminate|now apply Hab]]).
  - destruct (vget self (f_name f)) as [[|b| | |]|]; try discriminate. eauto.
  - destruct (vget self (f_name f)) as [[| |l| |]|]; try discriminate. destruct (elem_name a) as [et|]; [|discriminate].
    apply Bool.andb_true_iff in H as [Hlen Hall].
    exists l. split; [reflexivity|]. split.
    + unfold array_fuel. apply Nat2Z.inj_le. rewrite Z2Nat.id by lia. lia.
    + rewrite forallb_forall in Hall. apply Forall_forall. intros x Hx. apply Hab, Hall, Hx.
  - destruct (vget self gn) as [v|]; [|discriminate]. exists v. destruct v; try discriminate; (split; [reflexivity|split; [discriminate|now apply Hab]]).
  - destruct (vget self (f_name f)) as [v|]; [|discriminate]. exists v. destruct v; try discriminate; (split; [reflexivity|split; [discriminate|now apply Hab]]).
  - destruct (vget self gn) as [v|]; [|discriminate]. exists v. split; [reflexivity | now apply (opt_struct_ofb_sound ab)].
  - destruct (vget self (f_name f)) as [v|]; [|discriminate]. exists v. split; [reflexivity | now apply (opt_struct_ofb_sound ab)].
  - destruct (vget self (f_name f)) as [[|b| | |]|]; try discriminate; [right; exists b; split; [reflexivity|lia] | now left].
  - exact I.
  - destruct (vget self (f_name f)) as [[| |l| |]|]; try discriminate. destruct (elem_name a) as [et|]; [|discriminate].
    apply Bool.andb_true_iff in H as [Hlen Hall].
    exists l. split; [reflexivity|]. split.
    + unfold array_fuel. apply Nat2Z.inj_le. rewrite Z2Nat.id by lia. lia.
    + rewrite forallb_forall in Hall. apply Forall_forall. intros x Hx. apply Hab, Hall, Hx.
  - destruct (vget self (f_name f)) as [[| |l| |]|]; try discriminate. destruct (elem_name a) as [et|]; [|discriminate].
    apply Bool.andb_true_iff in H as [Hlen Hall].
    exists l. split; [reflexivity|]. split.
    + unfold array_fuel. apply Nat2Z.inj_le. rewrite Z2Nat.id by lia. lia.
    + rewrite forallb_forall in Hall. apply Forall_forall. intros x Hx. apply Hab, Hall, Hx.
  - destruct (vget self (f_name f)) as [[| |l| |]|]; try discriminate. destruct (elem_name a) as [et|]; [|discriminate].
    apply Bool.andb_true_iff in H as [Hlen Hall].
    exists l. split; [reflexivity|]. split.
    + unfold array_fuel. apply Nat2Z.inj_le. rewrite Z2Nat.id by lia. lia.
    + rewrite forallb_forall in Hall. apply Forall_forall. intros x Hx. apply Hab, Hall, Hx.
  - destruct (vget self (f_name f)) as [v|]; [|discriminate]. destruct (vget self ln) as [[z| | | |]|]; try discriminate.
    apply Bool.andb_true_iff in H as [Hin Hv]. apply existsb_exists in Hin as (z' & Hz' & Heq). assert (z' = z) by lia. subst z'.
    exists v, z. repeat split; try reflexivity; [exact Hz'|].
    destruct (Z.eqb_spec z y) as [->|Hne].
    + left. destruct v; try discriminate. repeat split; [eauto | now apply Hab].
    + right. destruct v; try discriminate. now split.
Qed.

Lemma factory_okb_sound t a s : lookup_struct tm t = Some a -> factory_okb t a s = true -> factory_ok tm t a s.
Proof.
  intros Hpar H. unfold factory_okb in H.
  apply Bool.andb_true_iff in H as [H Hn]. apply Bool.andb_true_iff in H as [H Hd]. apply Bool.andb_true_iff in H as [H Hh].
  apply Bool.andb_true_iff in H as [Ha Hft].
  constructor.
  - exact Hpar.
  - destruct (s_disp a); try discriminate; reflexivity.
  - destruct (s_factory_type s) as [t'|]; [|discriminate]. f_equal. now apply String.eqb_eq.
  - intros f Hf. rewrite forallb_forall in Hh. specialize (Hh f Hf).
    apply Bool.andb_true_iff in Hh as [Hc He]. split; [now apply is_none_eq | now apply fields_eqb_eq].
  - destruct (find_attr (s_attrs a) "discriminator"); [discriminate | discriminate].
  - intros n Hin. rewrite forallb_forall in Hn. specialize (Hn n Hin).
    apply Bool.andb_true_iff in Hn as [Hns Hex]. split; [apply String.eqb_neq; now apply Bool.negb_true_iff|].
    apply existsb_exists in Hex as (f & Hf & Hfk). apply Bool.andb_true_iff in Hfk as [Hfn Hk]. apply String.eqb_eq in Hfn.
    exists f. repeat split; try assumption.
    destruct (classify tm (struct_fields_nc s) f) as [[]|]; try discriminate; [left|right]; eauto.
Qed.

Lemma admfb_sound : forall n t v, admfb n t v = true -> admf tm n t v.
Proof.
  induction n as [|n IH]; intros t v H; destruct v as [z|b|l|cls vs|]; cbn [admfb] in H; try discriminate; cbn [admf].
  - destruct (lookup tm t) as [[? [i|m] ?|? bi vs at_ ?|?]|]; try discriminate; apply Bool.andb_true_iff in H as [H1 H2]; split; try lia; assumption.
  - destruct (lookup tm t) as [[? [i|m] ?|? bi vs at_ ?|?]|]; try discriminate; apply Bool.andb_true_iff in H as [H1 H2]; split; lia.
  - destruct (lookup tm t) as [[? [i|m] ?|? bi vs at_ ?|?]|]; try discriminate; apply Bool.andb_true_iff in H as [H1 H2]; split; try lia; assumption.
  - destruct (lookup tm t) as [[? [i|m] ?|? bi vs at_ ?|?]|]; try discriminate; apply Bool.andb_true_iff in H as [H1 H2]; split; lia.
  - destruct (lookup_struct tm cls) as [s|] eqn:Hls; [|discriminate].
    destruct (lookup_struct_self cls s Hls) as [Hname Hself].
    apply Bool.andb_true_iff in H as [H Hstat]. apply Bool.andb_true_iff in H as [H Hm]. apply Bool.andb_true_iff in H as [Hflat Hvs].
    split; [exact Hname|]. split; [exact (struct_okb_sound s Hself Hflat)|]. split; [now apply str_list_eqb_eq|].
    split; [intros f Hf; rewrite forallb_forall in Hm; exact (member_typedb_sound _ (admfb n) (admf tm n) _ f (IH) (Hm f Hf))|].
    apply Bool.orb_true_iff in Hstat as [Ht|Hf]; [left; now apply String.eqb_eq|right].
    destruct (lookup_struct tm t) as [a|] eqn:Hpar; [|discriminate]. apply Bool.andb_true_iff in Hf as [Hfo Hpick].
    exists a. split; [now apply factory_okb_sound|].
    fold (disc_names a) in Hpick |- *.
    destruct (factory_pick tm t (disc_names a) (map (fun n0 => vget (VStruct cls vs) n0) (disc_names a))) as [[| |c]|] eqn:Hp; try discriminate.
    destruct (struct_eq_dec c s) as [->|]; [reflexivity|discriminate].
Qed.

Lemma admb_sound : forall n t v, admb n t v = true -> adm tm n t v.
Proof.
  intros n t v H. unfold admb in H. apply Bool.andb_true_iff in H as [H Ha]. split; [now apply admfb_sound | now apply Bool.negb_true_iff].
Qed.

End Decide.
